/- C06 part 2 – step lemma of the register swap (`emit_reg_swap`) branch of emit_args_assignment. -/
import AsmjitVerif.Lemmas.C06ShuffleInv
namespace AsmjitVerif.C06S
open AsmjitVerif.CallConv AsmjitVerif.Shuffle AsmjitVerif.Machine

theorem groupOf_zero {rt : Nat} (h : groupOf rt = 0) : 2 ≤ rt ∧ rt ≤ 6 := by
  unfold groupOf at h
  split at h
  · rename_i h1; simpa using h1
  · split at h
    · exact absurd h (by simp)
    · split at h
      · exact absurd h (by simp)
      · split at h <;> exact absurd h (by simp)

theorem swap_getD (w : WorkData) (aVar aReg bVar bReg r : Nat) (ha : aReg < w.phys.length) (hb : bReg < w.phys.length) :
    (w.swap aVar aReg bVar bReg).phys.getD r none =
      if r = bReg then some aVar else if r = aReg then some bVar else w.phys.getD r none := by
  unfold WorkData.swap
  by_cases h1 : r = bReg
  · subst h1; simp only [if_true]; exact getD_set_eq _ _ _ _ (by simpa using hb)
  · simp only [h1, if_false]
    rw [getD_set_ne _ _ _ _ _ (fun h => h1 h.symm)]
    by_cases h2 : r = aReg
    · subst h2; simp only [if_true]; exact getD_set_eq _ _ _ _ ha
    · simp only [h2, if_false]; exact getD_set_ne _ _ _ _ _ (fun h => h2 h.symm)


theorem swapRt_range {a b : Nat} (ha : groupOf a = 0) (hb : groupOf b = 0) : 5 ≤ swapRt a b ∧ swapRt a b ≤ 6 ∧ groupOf (swapRt a b) = 0 := by
  have h1 := groupOf_zero ha
  have h2 := groupOf_zero hb
  have hm : 2 ≤ max a b ∧ max a b ≤ 6 := by omega
  unfold swapRt
  simp only
  by_cases h : max a b ≤ 4
  · have : (decide (2 ≤ max a b) && decide (max a b ≤ 4)) = true := by simp [h, hm.1]
    simp [this, groupOf]
  · have : (decide (2 ≤ max a b) && decide (max a b ≤ 4)) = false := by simp [h]
    simp only [this, Bool.false_eq_true, if_false]
    refine ⟨by omega, hm.2, ?_⟩
    unfold groupOf; simp [hm.1, hm.2]

def ints8 : List Nat := [34, 35, 36, 37, 38, 39, 40, 41]

theorem int_mem {t : Nat} (h1 : isInt t = true) (h2 : isAbstract t = false) : t ∈ ints8 := by
  simp only [isInt, isAbstract, isBetween, Bool.and_eq_true, decide_eq_true_eq, Bool.and_eq_false_iff, decide_eq_false_iff_not] at h1 h2
  have : t = 34 ∨ t = 35 ∨ t = 36 ∨ t = 37 ∨ t = 38 ∨ t = 39 ∨ t = 40 ∨ t = 41 := by omega
  simp only [ints8, List.mem_cons, List.mem_nil_iff, or_false]; exact this

/-- what an `xchg` of `c` bytes does to the token of an integer variable (source type `st`, destination type `dt`) -/
theorem swap_int_facts : ∀ st ∈ ints8, ∀ dt ∈ ints8, ∀ c ∈ [4, 8], ∀ dv ∈ [false, true],
    (tySize st ≤ c → (((⟨st, dt⟩ : VarInfo).required == .none) = true → dv = true) →
      (moveTok [⟨st, dt⟩] ⟨0, true, dv⟩ (if c ≤ 4 then .zero else .none) c 8).sv = true ∧
      (tySize dt ≤ tySize st → (moveTok [⟨st, dt⟩] ⟨0, true, dv⟩ (if c ≤ 4 then .zero else .none) c 8).dv = true) ∧
      (tySize dt > tySize st → ((⟨st, dt⟩ : VarInfo).required == .none) = false)) ∧
    (∀ sv ∈ [false, true], tySize dt ≤ c →
      (moveTok [⟨st, dt⟩] ⟨0, sv, true⟩ (if c ≤ 4 then .zero else .none) c 8).dv = true) := by
  decide +kernel

theorem moveTok_single (vis : List VarInfo) (i : Nat) (vi : VarInfo) (h : vis[i]? = some vi) (sv dv : Bool) (k : Ext) (c w : Nat) :
    (moveTok vis ⟨i, sv, dv⟩ k c w).sv = (moveTok [vi] ⟨0, sv, dv⟩ k c w).sv ∧
    (moveTok vis ⟨i, sv, dv⟩ k c w).dv = (moveTok [vi] ⟨0, sv, dv⟩ k c w).dv := by
  simp [moveTok, h]

theorem regBytes_le_swapRt : ∀ a ∈ [2, 3, 4, 5, 6], ∀ b ∈ [2, 3, 4, 5, 6],
    regBytes a ≤ regBytes (swapRt a b) ∧ regBytes b ≤ regBytes (swapRt a b) := by decide

theorem gp_mem {rt : Nat} (h : groupOf rt = 0) : rt ∈ [2, 3, 4, 5, 6] := by
  have := groupOf_zero h
  have : rt = 2 ∨ rt = 3 ∨ rt = 4 ∨ rt = 5 ∨ rt = 6 := by omega
  simp only [List.mem_cons, List.mem_nil_iff, or_false]; exact this

/-- the token of a not-done integer variable after an exchange of `regBytes rt` bytes (`rt` = GP32 or GP64, at least as wide as
    the variable's own register): still the variable's, in destination form if the variable needs no extension, otherwise still in
    source form -/
theorem swapTok_var_facts (p : Params) (hy : Hyp p) (c0 : Ctx) (M : State) (j : Nat) (hj : j < p.n) (u : Var) (t : Tok)
    (hu : VarOK p c0 M j u) (htv : t.var = j) (hF : Form p j u t) (hsr : (p.src j).isReg = true)
    (hsw : hasSwap p.cfg.arch (groupOf u.out.regType) = true) (rt : Nat) (hrt : rt = 5 ∨ rt = 6)
    (hwide : regBytes u.cur.regType ≤ regBytes rt) :
    (swapTok p.vis rt t).var = j ∧ (needsExt u = false → (swapTok p.vis rt t).dv = true) ∧
    (needsExt u = true → (swapTok p.vis rt t).sv = true ∧ ((initTok p.vis j).dv = true → (swapTok p.vis rt t).dv = true) ∧
        u.cur.typeId = (p.src j).typeId ∧ u.cur.regType = (p.src j).regType) := by
  have hvis := hy.visOk j hj
  obtain ⟨hs1, hs2, hd1, hd2, hfs, hfd⟩ := hy.swapInt j hj hsr (by rw [← hu.out]; exact hsw)
  have hst := int_mem hs1 hs2
  have hdt := int_mem hd1 hd2
  have hc : (if regBytes rt ≤ 4 then 4 else 8) = regBytes rt ∧ ((if regBytes rt ≤ 4 then 4 else 8) : Nat) ∈ [4, 8] := by
    rcases hrt with rfl | rfl <;> decide
  have hvar : (swapTok p.vis rt t).var = j := by
    unfold swapTok; split <;> rw [moveTok_var] <;> exact htv
  obtain ⟨tv, tsv, tdv⟩ := t
  simp only at htv; subst htv
  have hinit : (initTok p.vis tv).dv = ((⟨(p.src tv).typeId, (p.out tv).typeId⟩ : VarInfo).required == .none) := by
    simp [initTok, hvis]
  have hne0 : ∀ x ∈ ints8, x ≠ 0 := by decide
  have hsz : needsExt u = decide (tySize u.out.typeId > tySize u.cur.typeId) := by
    unfold needsExt
    rcases hF with ⟨h1, _, _, _⟩ | ⟨h1, _, _⟩
    · rw [h1, hu.out]; simp [hne0 _ hst, hne0 _ hdt]
    · rw [h1, hu.out]; simp [hne0 _ hdt]
  have hsteq : swapTok p.vis rt ⟨tv, tsv, tdv⟩ =
      moveTok p.vis ⟨tv, tsv, tdv⟩ (if (if regBytes rt ≤ 4 then 4 else 8) ≤ 4 then .zero else .none) (if regBytes rt ≤ 4 then 4 else 8) 8 := by
    unfold swapTok; rcases hrt with rfl | rfl <;> rfl
  obtain ⟨hsv1, hdv1⟩ := moveTok_single p.vis tv _ hvis tsv tdv
    (if (if regBytes rt ≤ 4 then 4 else 8) ≤ 4 then .zero else .none) (if regBytes rt ≤ 4 then 4 else 8) 8
  refine ⟨hvar, ?_, ?_⟩
  · intro hne
    rw [hsz] at hne
    have hle : tySize u.out.typeId ≤ tySize u.cur.typeId := by simpa using hne
    rw [hsteq, hdv1]
    rcases hF with ⟨h1, h2, h3, h4⟩ | ⟨h1, h2, h3⟩
    · simp only at h3 h4; subst h3
      have hf := (swap_int_facts _ hst _ hdt _ hc.2 tdv (by cases tdv <;> simp)).1
        (by rw [hc.1]; exact Nat.le_trans hfs (by rw [← h2]; exact hwide)) (by intro h; exact h4 (by rw [hinit]; exact h))
      exact hf.2.1 (by rw [← hu.out, ← h1]; exact hle)
    · simp only at h3; subst h3
      exact (swap_int_facts _ hst _ hdt _ hc.2 true (by simp)).2 tsv (by cases tsv <;> simp)
        (by rw [hc.1]; exact Nat.le_trans hfd (by rw [← hu.out, ← h2]; exact hwide))
  · intro hne
    rw [hsz] at hne
    have hgt : tySize u.out.typeId > tySize u.cur.typeId := by simpa using hne
    rcases hF with ⟨h1, h2, h3, h4⟩ | ⟨h1, h2, h3⟩
    · simp only at h3 h4; subst h3
      have hf := (swap_int_facts _ hst _ hdt _ hc.2 tdv (by cases tdv <;> simp)).1
        (by rw [hc.1]; exact Nat.le_trans hfs (by rw [← h2]; exact hwide)) (by intro h; exact h4 (by rw [hinit]; exact h))
      refine ⟨by rw [hsteq, hsv1]; exact hf.1, ?_, h1, h2⟩
      intro hi0
      exfalso
      have := hf.2.2 (by rw [← hu.out, ← h1]; exact hgt)
      rw [hinit, this] at hi0; exact absurd hi0 (by simp)
    · exfalso; rw [h1] at hgt; exact absurd hgt (by omega)


theorem swap_ok (p : Params) (hy : Hyp p) (e : Emit) (M : State) (hw : WF p e M) (i altId : Nat) (hi : i < p.n)
    (hreg : (e.ctx.var i).cur.isReg = true) (hnd : (e.ctx.var i).done = false)
    (hne : (e.ctx.var i).cur.regId ≠ (e.ctx.var i).out.regId)
    (hphys : physAt e.ctx (groupOf (e.ctx.var i).out.regType) (e.ctx.var i).out.regId = some altId)
    (hcond : (e.ctx.var altId).out.regId = (e.ctx.var i).cur.regId)
    (hswp : hasSwap p.cfg.arch (groupOf (e.ctx.var i).cur.regType) = true)
    (ins : Inst)
    (hins : regSwap p.cfg (swapRt (e.ctx.var i).cur.regType (e.ctx.var altId).cur.regType) (e.ctx.var i).out.regId (e.ctx.var i).cur.regId = some ins) :
    ∀ (v' a' : Var) (c' : Ctx),
    v' = { (e.ctx.var i) with cur := { (e.ctx.var i).cur with regId := (e.ctx.var i).out.regId }, done := !needsExt (e.ctx.var i) } →
    a' = { (e.ctx.var altId) with cur := { (e.ctx.var altId).cur with regId := (e.ctx.var i).cur.regId }, done := ((e.ctx.var altId).done || ((e.ctx.var altId).outInit && !needsExt (e.ctx.var altId))) } →
    c' = ((e.ctx.setW (groupOf (e.ctx.var i).out.regType)
            ((e.ctx.w (groupOf (e.ctx.var i).out.regType)).swap i (e.ctx.var i).cur.regId altId (e.ctx.var i).out.regId)).setVar i v').setVar altId a' →
    ∃ M', WF p { ctx := c', out := e.out ++ [ins] } M' ∧
      (∀ j, j < p.n → (e.ctx.var j).done = true → (c'.var j).done = true) ∧ ((c'.var i).done = true ∨ needsExt (e.ctx.var i) = true) ∧
      (∀ j, (c'.var j).cur.isReg = (e.ctx.var j).cur.isReg) := by
  intro v' a' c' hv'def ha'def hc'def
  have hv := hw.var i hi hreg
  have hglt0 := hv.grpLt
  obtain ⟨haltLt, hag, hareg, harg⟩ := hw.inv _ _ altId hglt0 hv.outLt hphys
  have ha := hw.var altId haltLt harg
  have hai : altId ≠ i := by
    intro h; rw [h] at hareg; exact hne hareg
  generalize hvdef : e.ctx.var i = v at *
  generalize hadef : e.ctx.var altId = a at *
  generalize hgdef : groupOf v.out.regType = g at *
  subst hc'def
  have hgv : groupOf v.cur.regType = g := by rw [← hgdef]; exact hv.grp
  have hglt : g < 4 := hglt0
  have hg0 : g = 0 ∧ p.cfg.arch ≠ .a64 := by
    have := hswp; rw [hgv] at this
    unfold hasSwap at this; simp at this; exact ⟨this.2, this.1⟩
  obtain ⟨tv, hgetv, htvv, hformv, _⟩ := hv.tok
  obtain ⟨ta, hgeta, htav, hforma, hdonea⟩ := ha.tok
  have hand : a.done = false := by
    cases hd : a.done with
    | false => rfl
    | true =>
      have := (hdonea hd).1
      exact absurd (hcond.symm.trans (this.symm.trans hareg)) hne
  have hrt := swapRt_range (a := v.cur.regType) (b := a.cur.regType) (by rw [hgv]; exact hg0.1) (by rw [hag]; exact hg0.1)
  have hwide := regBytes_le_swapRt v.cur.regType (gp_mem (by rw [hgv]; exact hg0.1)) a.cur.regType (gp_mem (by rw [hag]; exact hg0.1))
  generalize hrtdef : swapRt v.cur.regType a.cur.regType = rt at hrt hins hwide
  have hrt56 : rt = 5 ∨ rt = 6 := by omega
  have hswv : hasSwap p.cfg.arch (groupOf v.out.regType) = true := by rw [hgdef, ← hgv]; exact hswp
  have hswa : hasSwap p.cfg.arch (groupOf a.out.regType) = true := by rw [← ha.grp, hag, ← hgv]; exact hswp
  obtain ⟨fv1, fv2, fv3⟩ := swapTok_var_facts p hy e.ctx M i hi v tv hv htvv (hformv hnd) (hv.srcReg hnd) hswv rt hrt56 hwide.1
  obtain ⟨fa1, fa2, fa3⟩ := swapTok_var_facts p hy e.ctx M altId haltLt a ta ha htav (hforma hand) (ha.srcReg hand) hswa rt hrt56 hwide.2
  have hinsdef : ins = ⟨.xchg, false, [.reg rt v.out.regId, .reg rt v.cur.regId]⟩ := by
    unfold regSwap at hins
    simp [hg0.2, hrt.2.2] at hins
    exact hins.symm
  let tv' := swapTok p.vis rt tv
  let ta' := swapTok p.vis rt ta
  let la := Loc.reg g v.out.regId
  let lb := Loc.reg g v.cur.regId
  let M' := (M.set la (some tv')).set lb (some ta')
  have hlab : la ≠ lb := by
    intro h; simp only [la, lb, Loc.reg.injEq] at h; exact hne h.2.symm
  have hgetlb : M.get lb = some tv := by
    have := hgetv; unfold vloc at this; rw [hgv] at this; exact this
  have hgetla : M.get la = some ta := by
    have := hgeta; unfold vloc at this; rw [hag, hareg] at this; exact this
  have hstep : step p.vis p.f p.cfg.arch M ins = some M' := by
    rw [hinsdef]
    unfold step
    simp only [hrt.2.2]
    have e1 : (Loc.reg 0 v.out.regId) = la := by simp [la, hg0.1]
    have e2 : (Loc.reg 0 v.cur.regId) = lb := by simp [lb, hg0.1]
    simp only [e1, e2, hgetla, hgetlb, Option.map_some]
    simp only [M', tv', ta', swapTok]
    by_cases hb : regBytes rt ≤ 4 <;> simp [hb]
  have hcl : e.ctx.vars.length = p.n := hw.len
  have hwl : e.ctx.wd.length = 4 := hw.wdlen
  have hpl : (e.ctx.w g).phys.length = 32 := hw.physlen g hglt
  have hvphys : physAt e.ctx g v.cur.regId = some i := by have := hv.phys; rw [hgv] at this; exact this
  generalize hc'' : ((e.ctx.setW g ((e.ctx.w g).swap i v.cur.regId altId v.out.regId)).setVar i v').setVar altId a' = c'
  have hvar'i : c'.var i = v' := by
    rw [← hc'']
    show (((e.ctx.setW g _).setVar i v').setVar altId a').var i = v'
    rw [var_setVar_ne _ _ _ _ hai]; exact var_setVar_eq _ _ _ (by simp [Ctx.setW, hcl, hi])
  have hvar'a : c'.var altId = a' := by
    rw [← hc'']
    show (((e.ctx.setW g _).setVar i v').setVar altId a').var altId = a'
    exact var_setVar_eq _ _ _ (by simp [Ctx.setW, Ctx.setVar, hcl, haltLt])
  have hvar'j : ∀ j, j ≠ i → j ≠ altId → c'.var j = e.ctx.var j := by
    intro j h1 h2
    rw [← hc'']
    show (((e.ctx.setW g _).setVar i v').setVar altId a').var j = _
    rw [var_setVar_ne _ _ _ _ (fun h => h2 h.symm), var_setVar_ne _ _ _ _ (fun h => h1 h.symm)]; rfl
  have hphys' : ∀ g' r, physAt c' g' r =
      if g' = g then (if r = v.out.regId then some i else if r = v.cur.regId then some altId else physAt e.ctx g r)
      else physAt e.ctx g' r := by
    intro g' r
    rw [← hc'']
    unfold physAt
    rw [w_setVar, w_setVar]
    by_cases hgg : g' = g
    · subst hgg
      rw [w_setW_eq _ _ _ (by simp [hwl, hglt])]
      simp only [if_true]
      exact swap_getD _ _ _ _ _ _ (by rw [hpl]; exact hv.curLt) (by rw [hpl]; exact hv.outLt)
    · simp only [hgg, if_false]
      rw [w_setW_ne _ _ _ _ (fun h => hgg h.symm)]
  have hother : ∀ j, j < p.n → j ≠ i → j ≠ altId → (e.ctx.var j).cur.isReg = true → groupOf (e.ctx.var j).cur.regType = g →
      (e.ctx.var j).cur.regId ≠ v.out.regId ∧ (e.ctx.var j).cur.regId ≠ v.cur.regId := by
    intro j hj h1 h2 hrj hgj
    have hpj := (hw.var j hj hrj).phys
    rw [hgj] at hpj
    constructor
    · intro heq; rw [heq, hphys] at hpj; exact h2 (Option.some.inj hpj).symm
    · intro heq; rw [heq, hvphys] at hpj; exact h1 (Option.some.inj hpj).symm
  have swapTok_var : ∀ t, (swapTok p.vis rt t).var = t.var := by
    intro t; unfold swapTok; split <;> exact moveTok_var _ _ _ _ _
  refine ⟨M', ⟨?_, ?_, ?_, ?_, ?_, ?_, ?_⟩, ?_, ?_, ?_⟩
  · show c'.vars.length = p.n
    rw [← hc'']; simp [Ctx.setVar, Ctx.setW, hcl]
  · show c'.wd.length = 4
    rw [← hc'']; simp [Ctx.setVar, Ctx.setW, hwl]
  · intro g' hg'
    show (c'.w g').phys.length = 32
    rw [← hc'', w_setVar, w_setVar]
    by_cases hgg : g' = g
    · subst hgg
      rw [w_setW_eq _ _ _ (by simp [hwl, hglt])]
      simp [WorkData.swap, hpl]
    · rw [w_setW_ne _ _ _ _ (fun h => hgg h.symm)]; exact hw.physlen g' hg'
  · exact run_push _ _ _ _ _ _ _ _ hw.runs hstep
  · intro j hj hrj'
    show VarOK p c' M' j (c'.var j)
    replace hrj' : (c'.var j).cur.isReg = true := hrj'
    by_cases hji : j = i
    · subst hji
      rw [hvar'i, hv'def]
      refine ⟨hv.out, hv.curReg, hv.notStk, hv.outReg, hv.outInit, hv.grp, hv.grpLt, hv.outLt, hv.outLt, ?_, ?_, fun _ => hv.srcReg hnd⟩
      · show physAt c' (groupOf v.cur.regType) v.out.regId = some j
        rw [hphys', hgv]; simp
      · refine ⟨tv', ?_, fv1, ?_, ?_⟩
        · show M'.get (Loc.reg (groupOf v.cur.regType) v.out.regId) = some tv'
          rw [hgv]
          show ((M.set la (some tv')).set lb (some ta')).get la = some tv'
          rw [get_set_ne _ _ _ _ hlab]; exact get_set_self _ _ _
        · intro hd
          have hne' : needsExt v = true := by simpa using hd
          obtain ⟨g1, g2, g3, g4⟩ := fv3 hne'
          exact Or.inl ⟨g3, g4, g1, g2⟩
        · intro hd
          have hne' : needsExt v = false := by simpa using hd
          exact ⟨rfl, fv2 hne'⟩
    · by_cases hja : j = altId
      · subst hja
        rw [hvar'a, ha'def]
        refine ⟨ha.out, ha.curReg, ha.notStk, ha.outReg, ha.outInit, ha.grp, ha.grpLt, hv.curLt, ha.outLt, ?_, ?_,
          fun h => ha.srcReg (by have h' : (a.done || (a.outInit && !needsExt a)) = false := h; exact (Bool.or_eq_false_iff.1 h').1)⟩
        · show physAt c' (groupOf a.cur.regType) v.cur.regId = some j
          rw [hphys', hag]; simp [hne]
        · have hdone' : (a.done || (a.outInit && !needsExt a)) = !needsExt a := by simp [hand, ha.outInit]
          refine ⟨ta', ?_, fa1, ?_, ?_⟩
          · show M'.get (Loc.reg (groupOf a.cur.regType) v.cur.regId) = some ta'
            rw [hag]
            exact get_set_self _ _ _
          · intro hd
            have hne' : needsExt a = true := by rw [hdone'] at hd; simpa using hd
            obtain ⟨g1, g2, g3, g4⟩ := fa3 hne'
            exact Or.inl ⟨g3, g4, g1, g2⟩
          · intro hd
            have hne' : needsExt a = false := by rw [hdone'] at hd; simpa using hd
            exact ⟨hcond.symm, fa2 hne'⟩
      · rw [hvar'j j hji hja] at hrj'
        have hvj := hw.var j hj hrj'
        rw [hvar'j j hji hja]
        refine ⟨hvj.out, hvj.curReg, hvj.notStk, hvj.outReg, hvj.outInit, hvj.grp, hvj.grpLt, hvj.curLt, hvj.outLt, ?_, ?_, hvj.srcReg⟩
        · rw [hphys']
          by_cases hgj : groupOf (e.ctx.var j).cur.regType = g
          · obtain ⟨h1, h2⟩ := hother j hj hji hja hrj' hgj
            have := hvj.phys
            rw [hgj] at this ⊢
            simp [h1, h2, this]
          · simp [hgj]; exact hvj.phys
        · obtain ⟨tj, hgetj, r1, r2, r3⟩ := hvj.tok
          refine ⟨tj, ?_, r1, r2, r3⟩
          rw [← hgetj]
          show ((M.set la (some tv')).set lb (some ta')).get _ = _
          have n1 : vloc (e.ctx.var j) ≠ lb := by
            intro heq; simp only [vloc, lb, Loc.reg.injEq] at heq
            exact (hother j hj hji hja hrj' heq.1).2 heq.2
          have n2 : vloc (e.ctx.var j) ≠ la := by
            intro heq; simp only [vloc, la, Loc.reg.injEq] at heq
            exact (hother j hj hji hja hrj' heq.1).1 heq.2
          rw [get_set_ne _ _ _ _ n1, get_set_ne _ _ _ _ n2]
  · intro j hj hnr
    show StkOK p M' j (c'.var j)
    replace hnr : (c'.var j).cur.isReg = false := hnr
    have hji : j ≠ i := by
      intro hh; subst hh; rw [hvar'i, hv'def] at hnr; rw [show ({ v with cur := { v.cur with regId := v.out.regId }, done := !needsExt v } : Var).cur.isReg = v.cur.isReg from rfl, hv.curReg] at hnr; exact absurd hnr (by simp)
    have hja : j ≠ altId := by
      intro hh; subst hh; rw [hvar'a, ha'def] at hnr; rw [show ({ a with cur := { a.cur with regId := v.cur.regId }, done := a.done || (a.outInit && !needsExt a) } : Var).cur.isReg = a.cur.isReg from rfl, ha.curReg] at hnr; exact absurd hnr (by simp)
    rw [hvar'j j hji hja] at hnr ⊢
    have hsj := hw.stk j hj hnr
    exact ⟨hsj.out, hsj.cur, hsj.isStk, hsj.direct, hsj.notDone, hsj.outReg, hsj.outInit, hsj.grpLt, hsj.outLt, by
      rw [← hsj.tok]
      show ((M.set la (some tv')).set lb (some ta')).get _ = _
      rw [get_set_ne _ _ _ _ (by intro h; simp [lb] at h), get_set_ne _ _ _ _ (by intro h; simp [la] at h)]⟩
  · intro g' r j' hg' hr hpj
    show j' < p.n ∧ groupOf (c'.var j').cur.regType = g' ∧ (c'.var j').cur.regId = r ∧ (c'.var j').cur.isReg = true
    replace hpj : physAt c' g' r = some j' := hpj
    rw [hphys'] at hpj
    by_cases hgg : g' = g
    · subst hgg
      simp only [if_true] at hpj
      by_cases hro : r = v.out.regId
      · simp only [hro, if_true] at hpj
        have : j' = i := (Option.some.inj hpj).symm
        subst this
        rw [hvar'i, hv'def]
        exact ⟨hi, hgv, hro.symm, hv.curReg⟩
      · simp only [hro, if_false] at hpj
        by_cases hrc : r = v.cur.regId
        · simp only [hrc, if_true] at hpj
          have : j' = altId := (Option.some.inj hpj).symm
          subst this
          rw [hvar'a, ha'def]
          exact ⟨haltLt, hag, hrc.symm, ha.curReg⟩
        · simp only [hrc, if_false] at hpj
          obtain ⟨a1, a2, a3, a4⟩ := hw.inv _ r j' hg' hr hpj
          have h1 : j' ≠ i := by intro hh; rw [hh, hvdef] at a3; exact hrc a3.symm
          have h2 : j' ≠ altId := by intro hh; rw [hh, hadef] at a3; exact hro (a3.symm.trans hareg)
          rw [hvar'j j' h1 h2]; exact ⟨a1, a2, a3, a4⟩
    · simp only [hgg, if_false] at hpj
      obtain ⟨a1, a2, a3, a4⟩ := hw.inv g' r j' hg' hr hpj
      have h1 : j' ≠ i := by intro hh; rw [hh, hvdef] at a2; exact hgg (a2.symm.trans hgv)
      have h2 : j' ≠ altId := by intro hh; rw [hh, hadef] at a2; exact hgg (a2.symm.trans hag)
      rw [hvar'j j' h1 h2]; exact ⟨a1, a2, a3, a4⟩
  · intro j hj hd
    by_cases hji : j = i
    · subst hji; rw [hvdef, hnd] at hd; exact absurd hd (by simp)
    · by_cases hja : j = altId
      · subst hja; rw [hadef, hand] at hd; exact absurd hd (by simp)
      · rw [hvar'j j hji hja]; exact hd
  · rw [hvar'i, hv'def]
    cases hn : needsExt v with
    | true => exact Or.inr rfl
    | false => left; simp [hn]
  · intro j
    by_cases hji : j = i
    · subst hji; rw [hvar'i, hv'def, hvdef]
    · by_cases hja : j = altId
      · subst hja; rw [hvar'a, ha'def, hadef]
      · rw [hvar'j j hji hja]

end AsmjitVerif.C06S
