/- C06 part 2 – the x86 move selection does not depend on register ids: `Hyp.first/again` for integer variables, all ids. -/
import AsmjitVerif.Lemmas.C06ShuffleInv
namespace AsmjitVerif.C06S
open AsmjitVerif.CallConv AsmjitVerif.Shuffle AsmjitVerif.Machine

/-- `moveOkAt` without register ids: judged on the selection `x86Sel` alone -/
def selOkTok (cfg : Cfg) (vis : List VarInfo) (rtD tD rtS tS : Nat) (tok : Tok) : Bool :=
  match x86Sel cfg rtD tD (.reg rtS) tS with
  | none => true
  | some m =>
    groupOf m.dstRt == groupOf rtD && groupOf (m.srcRt.getD rtS) == groupOf rtS && m.name != .xchg &&
      (match effect m.name m.dstRt (regBytes (m.srcRt.getD rtS)) with
       | some (k, c, w) => (moveTok vis tok k c w).dv
       | none => false)

theorem moveOkAt_x86 (cfg : Cfg) (harch : cfg.arch ≠ .a64) (vis : List VarInfo) (rtD tD rtS tS : Nat) (tok : Tok) (d s : Nat) :
    moveOkAt cfg vis rtD tD rtS tS tok d s = selOkTok cfg vis rtD tD rtS tS tok := by
  unfold moveOkAt selOkTok argMove x86ArgMove
  simp only [harch, if_false, Opnd.kind]
  cases x86Sel cfg rtD tD (.reg rtS) tS with
  | none => rfl
  | some m =>
    cases hs : m.srcRt with
    | none => simp [MoveSel.apply, hs, Opnd.withSize] <;> rfl
    | some r => simp [MoveSel.apply, hs, Opnd.withRt, Opnd.withSize] <;> rfl

theorem moveTok_dv_single (vis : List VarInfo) (i : Nat) (vi : VarInfo) (h : vis[i]? = some vi) (sv dv : Bool) (k : Ext) (c w : Nat) :
    (moveTok vis ⟨i, sv, dv⟩ k c w).dv = (moveTok [vi] ⟨0, sv, dv⟩ k c w).dv := by
  simp [moveTok, h]

theorem selOkTok_single (cfg : Cfg) (vis : List VarInfo) (i : Nat) (vi : VarInfo) (h : vis[i]? = some vi)
    (rtD tD rtS tS : Nat) (sv dv : Bool) :
    selOkTok cfg vis rtD tD rtS tS ⟨i, sv, dv⟩ = selOkTok cfg [vi] rtD tD rtS tS ⟨0, sv, dv⟩ := by
  unfold selOkTok
  cases x86Sel cfg rtD tD (.reg rtS) tS with
  | none => rfl
  | some m =>
    simp only
    cases effect m.name m.dstRt (regBytes (m.srcRt.getD rtS)) with
    | none => rfl
    | some x => obtain ⟨k, c, w⟩ := x; simp only [moveTok_dv_single vis i vi h]

theorem initTok_single (vis : List VarInfo) (i : Nat) (vi : VarInfo) (h : vis[i]? = some vi) :
    initTok vis i = ⟨i, true, vi.required == .none⟩ := by simp [initTok, h]

def intTys : List Nat := [34, 35, 36, 37, 38, 39, 40, 41]

/-- every x86 configuration the emitter can have -/
def x86Cfgs : List Cfg :=
  [Arch.x86, Arch.x64].flatMap fun a => [false, true].flatMap fun avx => [false, true].flatMap fun a5 => [4, 16].map fun sa =>
    { arch := a, avx := avx, avx512 := a5, stackAlign := sa }

/-- finite core: for every x86 configuration, integer type pair and GP32/GP64 register views, the selection turns an initial token
    and a destination-form token into destination form -/
theorem x86_int_sel_ok : ∀ cfg ∈ x86Cfgs, ∀ dt ∈ intTys, ∀ st ∈ intTys, ∀ rtD ∈ [5, 6], ∀ rtS ∈ [5, 6],
    selOkTok cfg [⟨st, dt⟩] rtD dt rtS st ⟨0, true, (⟨st, dt⟩ : VarInfo).required == .none⟩ = true ∧
    selOkTok cfg [⟨st, dt⟩] rtD dt rtD dt ⟨0, false, true⟩ = true ∧
    selOkTok cfg [⟨st, dt⟩] rtD dt rtD dt ⟨0, true, true⟩ = true := by
  decide +kernel

/-- **`Hyp.first` / `Hyp.again` for x86 integer variables, every register id**: follows from the finite core because the
    selection never looks at ids. -/
theorem x86_int_moves_ok (cfg : Cfg) (hcfg : cfg ∈ x86Cfgs) (vis : List VarInfo) (i dt st rtD rtS : Nat)
    (hdt : dt ∈ intTys) (hst : st ∈ intTys) (hrd : rtD ∈ [5, 6]) (hrs : rtS ∈ [5, 6]) (hvi : vis[i]? = some ⟨st, dt⟩) (d s : Nat) :
    moveOkAt cfg vis rtD dt rtS st (initTok vis i) d s = true ∧
    ∀ b, moveOkAt cfg vis rtD dt rtD dt ⟨i, b, true⟩ d s = true := by
  have harch : cfg.arch ≠ .a64 := by
    have hall : ∀ c ∈ x86Cfgs, c.arch ≠ .a64 := by decide
    exact hall cfg hcfg
  obtain ⟨h1, h2, h3⟩ := x86_int_sel_ok cfg hcfg dt hdt st hst rtD hrd rtS hrs
  refine ⟨?_, fun b => ?_⟩
  · rw [moveOkAt_x86 cfg harch, initTok_single vis i _ hvi, selOkTok_single cfg vis i _ hvi]; exact h1
  · rw [moveOkAt_x86 cfg harch, selOkTok_single cfg vis i _ hvi]
    cases b
    · exact h2
    · exact h3

end AsmjitVerif.C06S
