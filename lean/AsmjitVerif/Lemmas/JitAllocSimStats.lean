/- C09 refinement (model run ⊑ monitor): the monitor statistics cross-check `checkStats` holds in every good model state. -/
import AsmjitVerif.Lemmas.JitAllocSimL
namespace AsmjitVerif.JitAlloc
open Spec

theorem empty_iff_no_spans {s : St} (hI : Inv s) (hE : AEmp s.a) {b : Block} (hb : b ∈ s.a.blocks) :
    b.empty = true ↔ ∀ st n, ¬ Spans s.tab b.id (s.a.cfg.poolGran b.pool) st n := by
  obtain ⟨hB, hC⟩ := hI.blk b hb
  constructor
  · intro he; exact no_spans_of_unused hB.toBCore hC (hC.emp he)
  · intro hno; exact hE b hb (used_eq_pad_of_no_spans hB hC hno)

theorem length_filter_eq_agg (p : Block → Bool) (bs : List Block) :
    (bs.filter p).length = agg (fun b => if p b then 1 else 0) bs := by
  induction bs with
  | nil => rfl
  | cons x xs ih =>
    simp only [List.filter_cons, agg_cons]
    cases p x <;> simp [ih]; omega

theorem agg_congr_mem (w w' : Block → Nat) (bs : List Block) (h : ∀ b ∈ bs, w b = w' b) : agg w bs = agg w' bs := by
  unfold agg; congr 1; exact List.map_congr_left h

/-- the statistics the model reports pass the monitor's statistics and retention check -/
theorem checkStats_ok {g : Ghost} {s : St} (hS : Sim g s) (hG : Good s) : g.checkStats s.a.stats = .ok () := by
  obtain ⟨s1, s2, s3⟩ := stats_of_pinv hG.pool
  have hblocks : s.a.stats.blocks = g.blocks.length := by rw [s1, hS.blocks, List.length_map]
  have hallocs : s.a.stats.allocs = g.liveCount := by rw [hS.liveCount]; exact hG.cnt
  have hpad : g.padBytes = agg (wPB s.a.cfg) s.a.blocks := by
    unfold Ghost.padBytes agg
    rw [hS.blocks, List.map_map]
    congr 1
    apply List.map_congr_left
    intro b hb
    have := (hG.div b hb).padc
    simp only [Function.comp, toGB, Ghost.pad, hS.cfg, wPB, Block.padN, this]
    cases s.a.cfg.noPad <;> simp
  have hused : s.a.stats.used = g.liveBytes + g.padBytes := by
    rw [s3, hS.liveBytes, hpad]; exact hG.bytes
  have hres : s.a.stats.reserved = g.reserved := by
    rw [s2]
    unfold Ghost.reserved agg
    rw [hS.blocks, List.map_map]
    congr 1
    apply List.map_congr_left
    intro b hb
    simp only [Function.comp, toGB]
    exact (hG.div b hb).area
  have hret : (List.range g.cfg.poolCount).any (fun p => decide (g.emptyBlocks p > (if g.cfg.immediate then 0 else 1))) = false := by
    rw [List.any_eq_false]
    intro p hp
    rw [List.mem_range, hS.cfg, ← hG.pool.len] at hp
    have he : g.emptyBlocks p = agg (wEmpty p) s.a.blocks := by
      unfold Ghost.emptyBlocks
      rw [hS.blocks, List.filter_map, List.length_map, length_filter_eq_agg]
      apply agg_congr_mem
      intro b hb
      have h1 := hS.liveIn_empty hG.inv hb
      have h2 := empty_iff_no_spans hG.inv hG.emp hb
      simp only [Function.comp, toGB, wEmpty]
      by_cases hp' : b.pool = p
      · by_cases hemp : b.empty = true
        · have : (g.liveIn b.id).isEmpty = true := h1.mpr (h2.mp hemp)
          simp [hp', hemp, this]
        · have : ¬ (g.liveIn b.id).isEmpty = true := fun hh => hemp (h2.mpr (h1.mp hh))
          simp [hp', hemp, this]
      · simp [hp']
    obtain ⟨e1, e2⟩ := hG.pool.emp p hp
    rw [he, hS.cfg]
    cases him : s.a.cfg.immediate
    · simp; omega
    · have := hG.pool.imm him p
      simp; omega
  unfold Ghost.checkStats
  simp [hblocks, hallocs, hused, hres, hret]

end AsmjitVerif.JitAlloc
