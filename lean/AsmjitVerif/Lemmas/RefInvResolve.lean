/- The final phase: `resolve_cross_section_fixups` patches each listed fixup's own field only, with the laid-out addresses. -/
import AsmjitVerif.Lemmas.RefInvStep
import Std.Tactic.BVDecide
namespace AsmjitVerif.CodeHolder
open AsmjitVerif.Offset

theorem secOffset_setBuf (secs : List Section) (i : Nat) (b : Bytes) (j : Nat) : secOffset (setBuf secs i b) j = secOffset secs j := by
  unfold secOffset setBuf
  by_cases hij : i = j
  · subst hij
    cases hs : secs[i]? with
    | none => simp [modifySec, hs]
    | some sec => rw [modifySec_get_same _ _ _ _ hs]
  · rw [modifySec_get_ne _ _ _ _ hij]

/-- the displacement `resolve` writes for a fixup at `(fsec, foff)` towards a label bound at `(lsec, loff)` -/
def crossDisp (secs : List Section) (lsec : Nat) (loff : BitVec 64) (fsec foff : Nat) (rel : BitVec 64) : BitVec 64 :=
  secOffset secs lsec + loff - (secOffset secs fsec + BitVec.ofNat 64 foff) + rel

structure RStep (labels : List LabelEntry) (acc acc' : Acc) (f : Fixup) (l lsec : Nat) (loff : BitVec 64) : Prop where
  shape : SameShape acc.secs acc'.secs
  offs  : ∀ j, secOffset acc'.secs j = secOffset acc.secs j
  frame : ∀ g, D g (f.toG l) → field acc'.secs g = field acc.secs g
  own   : FieldZero acc.secs (f.toG l) →
            Decodes acc'.secs (f.toG l) (crossDisp acc.secs lsec loff f.sec f.offset f.rel) ∨
            (f ∈ acc'.kept ∧ FieldZero acc'.secs (f.toG l))
  keptMono : ∀ k ∈ acc.kept, k ∈ acc'.kept

theorem resolveStep_spec (labels : List LabelEntry) (acc : Acc) (f : Fixup) (l lsec : Nat) (loff : BitVec 64)
    (hl : f.lr = some l) (hb : labels[l]? = some (.bound lsec loff)) (hfm : f.fmt ∈ fixupFormats) :
    RStep labels acc (resolveStep labels acc f) f l lsec loff := by
  unfold resolveStep
  simp only [hl, Option.bind_some, hb, addOverflow]
  by_cases ho : (decide (secOffset acc.secs lsec + loff < secOffset acc.secs lsec) ||
      decide (secOffset acc.secs f.sec + BitVec.ofNat 64 f.offset < secOffset acc.secs f.sec)) = true
  · simp only [ho, if_true]
    exact ⟨SameShape.refl _, fun _ => rfl, fun _ _ => rfl, fun hz => .inr ⟨by simp, hz⟩, fun k h => by simp [h]⟩
  · simp only [ho, if_false]
    cases hs : acc.secs[f.sec]? with
    | none =>
      simp only [Option.bind_none]
      exact ⟨SameShape.refl _, fun _ => rfl, fun _ _ => rfl, fun hz => .inr ⟨by simp, hz⟩, fun k h => by simp [h]⟩
    | some sec =>
      simp only [Option.bind_some]
      cases hw : writeOffset sec.buf f.offset (secOffset acc.secs lsec + loff - (secOffset acc.secs f.sec + BitVec.ofNat 64 f.offset) + f.rel) f.fmt with
      | none =>
        dsimp only
        exact ⟨SameShape.refl _, fun _ => rfl, fun _ _ => rfl, fun hz => .inr ⟨by simp, hz⟩, fun k h => by simp [h]⟩
      | some buf' =>
        dsimp only
        have hsz := fmt_size_pos hfm
        have hfr := writeOffset_frame f.fmt hsz.2.2 _ _ _ _ hw
        have hs' : acc.secs[(f.toG l).sec]? = some sec := hs
        refine ⟨sameShape_setBuf _ _ _ _ hs hfr.1, fun j => secOffset_setBuf _ _ _ _, ?_, ?_, fun _ h => h⟩
        · intro g hd
          exact field_setBuf_disjoint acc.secs sec buf' (f.toG l) g _ hfm hs' hw hd
        · intro hz
          left
          exact field_setBuf_own acc.secs sec buf' (f.toG l) _ hfm hs' hw hz

/-- hypotheses on the list being resolved: every entry names a bound label, has a fixup format, and entries do not overlap -/
def RList (labels : List LabelEntry) (fx : List Fixup) : Prop :=
  (∀ f ∈ fx, ∃ l lsec loff, f.lr = some l ∧ labels[l]? = some (.bound lsec loff) ∧ f.fmt ∈ fixupFormats) ∧ fx.Pairwise Df

structure RLoop (labels : List LabelEntry) (acc acc' : Acc) (fx : List Fixup) : Prop where
  shape : SameShape acc.secs acc'.secs
  offs  : ∀ j, secOffset acc'.secs j = secOffset acc.secs j
  frame : ∀ g, (∀ f ∈ fx, D g (f.toG 0)) → field acc'.secs g = field acc.secs g
  own   : ∀ f ∈ fx, ∀ l lsec loff, f.lr = some l → labels[l]? = some (.bound lsec loff) → FieldZero acc.secs (f.toG l) →
            Decodes acc'.secs (f.toG l) (crossDisp acc.secs lsec loff f.sec f.offset f.rel) ∨
            (f ∈ acc'.kept ∧ FieldZero acc'.secs (f.toG l))
  keptMono : ∀ k ∈ acc.kept, k ∈ acc'.kept

theorem crossDisp_offs {a b : List Section} (h : ∀ j, secOffset b j = secOffset a j) (lsec : Nat) (loff : BitVec 64) (fsec foff : Nat)
    (rel : BitVec 64) : crossDisp b lsec loff fsec foff rel = crossDisp a lsec loff fsec foff rel := by
  unfold crossDisp; rw [h, h]

theorem resolveLoop_spec (labels : List LabelEntry) : ∀ (fx : List Fixup) (acc : Acc), RList labels fx →
    RLoop labels acc (fx.foldl (resolveStep labels) acc) fx := by
  intro fx
  induction fx with
  | nil => intro acc _; exact ⟨SameShape.refl _, fun _ => rfl, fun _ _ => rfl, fun _ h => absurd h (by simp), fun _ h => h⟩
  | cons f0 rest ih =>
    intro acc hr
    obtain ⟨l0, lsec0, loff0, hl0, hb0, hfm0⟩ := hr.1 f0 List.mem_cons_self
    have st := resolveStep_spec labels acc f0 l0 lsec0 loff0 hl0 hb0 hfm0
    have hpw := List.pairwise_cons.mp hr.2
    have lp := ih (resolveStep labels acc f0) ⟨fun f hf => hr.1 f (List.mem_cons_of_mem _ hf), hpw.2⟩
    simp only [List.foldl_cons]
    refine ⟨st.shape.trans lp.shape, fun j => (lp.offs j).trans (st.offs j), ?_, ?_, fun k h => lp.keptMono k (st.keptMono k h)⟩
    · intro g hg
      rw [lp.frame g (fun f hf => hg f (List.mem_cons_of_mem _ hf))]
      exact st.frame g (hg f0 List.mem_cons_self)
    · intro f hf l lsec loff hl hb hz
      simp only [List.mem_cons] at hf
      rcases hf with rfl | hf
      · have e : l = l0 := by rw [hl] at hl0; cases hl0; rfl
        subst e
        rw [hb] at hb0; cases hb0
        have hrest : field (rest.foldl (resolveStep labels) (resolveStep labels acc f)).secs (f.toG l) =
            field (resolveStep labels acc f).secs (f.toG l) := lp.frame _ (fun f' hf' => hpw.1 f' hf')
        rcases st.own hz with h1 | ⟨h1, h2⟩
        · exact .inl (decodes_congr hrest h1)
        · exact .inr ⟨lp.keptMono _ h1, fieldZero_congr hrest h2⟩
      · have hz1 : FieldZero (resolveStep labels acc f0).secs (f.toG l) :=
          fieldZero_congr (st.frame _ (D_symm (hpw.1 f hf))) hz
        have := lp.own f hf l lsec loff hl hb hz1
        rw [crossDisp_offs st.offs] at this
        exact this

/-- a reference of the log after the final phase: it designates the label's laid-out address, or it is still pending
(on a list, counted) with an untouched zero field -/
def Final (s : State) (g : GRef) : Prop :=
  (∃ lsec loff, s.labels[g.label]? = some (.bound lsec loff) ∧
      Decodes s.secs g (crossDisp s.secs lsec loff g.sec g.offset g.rel)) ∨
  (Pending s g ∧ FieldZero s.secs g)

theorem local_eq_cross (so loff off rel : BitVec 64) : so + loff - (so + off) + rel = loff - off + rel := by
  bv_omega

theorem final_of_status {s : State} {g : GRef} (h : Status s g) : Final s g := by
  rcases h with h | ⟨_, loff, hb, hd⟩
  · exact .inr h
  · left
    refine ⟨g.sec, loff, hb, ?_⟩
    unfold crossDisp
    rw [local_eq_cross]; exact hd

theorem final_resolve (s : State) (h : Inv s) : ∀ g ∈ (resolve s).1.ghost, Final (resolve s).1 g := by
  unfold resolve
  split
  · intro g hg; exact final_of_status (h.status g hg)
  · dsimp only
    have hrl : RList s.labels s.fixups := by
      refine ⟨?_, h.glob.2⟩
      intro f hf
      obtain ⟨l, hl, hg⟩ := h.glob.1 f hf
      obtain ⟨k, lsec, loff, hk, hb⟩ := h.wf f hf
      rw [hl] at hk; cases hk
      exact ⟨l, lsec, loff, hl, hb, h.fmts _ hg⟩
    have LS := resolveLoop_spec s.labels s.fixups { secs := s.secs, relocs := s.relocs, kept := [], resolved := 0, err := .ok } hrl
    intro g hg
    replace hg : g ∈ s.ghost := hg
    -- references whose fixup is not on the cross-section list are not touched
    have huntouched : g.toFixup (some g.label) ∉ s.fixups →
        field (s.fixups.foldl (resolveStep s.labels) { secs := s.secs, relocs := s.relocs, kept := [], resolved := 0, err := .ok }).secs g = field s.secs g := by
      intro hn
      apply LS.frame
      intro f hf
      obtain ⟨l, hl, hgf⟩ := h.glob.1 f hf
      have hne : g ≠ f.toG l := by
        intro e
        apply hn
        have : g.toFixup (some g.label) = f := by
          rw [e]; cases f; simp only [Fixup.toG, GRef.toFixup] at *; simp [hl]
        rw [this]; exact hf
      have hd : D g (f.toG l) := ghost_disjoint h hg hgf hne
      exact hd
    rcases h.status g hg with ⟨hp, hz⟩ | ⟨hnp, loff, hb, hd⟩
    · rcases hp with ⟨fx, h1, h2⟩ | h1
      · -- pending on an unbound label: stays so
        have hn : g.toFixup (some g.label) ∉ s.fixups := by
          intro hx
          obtain ⟨k, lsec, loff, hk, hb⟩ := h.wf _ hx
          simp only [GRef.toFixup, Option.some.injEq] at hk
          rw [← hk, h1] at hb; cases hb
        exact .inr ⟨.inl ⟨fx, h1, h2⟩, fieldZero_congr (huntouched hn) hz⟩
      · -- on the cross-section list: patched with the laid-out addresses, or kept
        obtain ⟨k, lsec, loff, hk, hb⟩ := h.wf _ h1
        simp only [GRef.toFixup, Option.some.injEq] at hk
        subst hk
        have hG : (g.toFixup (some g.label)).toG g.label = g := toFixup_toG g _
        have := LS.own _ h1 g.label lsec loff rfl hb (by rw [hG]; exact hz)
        rw [hG] at this
        rcases this with hdec | ⟨hk, hz'⟩
        · left
          refine ⟨lsec, loff, hb, ?_⟩
          have e : crossDisp (s.fixups.foldl (resolveStep s.labels) { secs := s.secs, relocs := s.relocs, kept := [], resolved := 0, err := .ok }).secs
              lsec loff g.sec g.offset g.rel = crossDisp s.secs lsec loff g.sec g.offset g.rel := crossDisp_offs LS.offs _ _ _ _ _
          show Decodes _ g (crossDisp _ lsec loff g.sec g.offset g.rel)
          rw [e]; exact hdec
        · exact .inr ⟨.inr hk, hz'⟩
    · -- already resolved inside its section: untouched, and the local displacement is the laid-out one
      have hn : g.toFixup (some g.label) ∉ s.fixups := fun hx => hnp (.inr hx)
      left
      refine ⟨g.sec, loff, hb, ?_⟩
      show Decodes _ g (crossDisp _ g.sec loff g.sec g.offset g.rel)
      unfold crossDisp
      rw [local_eq_cross]
      exact decodes_congr (huntouched hn) hd

end AsmjitVerif.CodeHolder
