/- C09 refinement (model run ⊑ monitor): occupied intervals of the ghost state vs. live handles of the model. -/
import AsmjitVerif.Lemmas.JitAllocSimOps1
namespace AsmjitVerif.JitAlloc
open Spec

theorem find?_eq_of_unique {α} (p : α → Bool) (x : α) : ∀ (l : List α), x ∈ l → p x = true → (∀ y ∈ l, p y = true → y = x) →
    l.find? p = some x := by
  intro l
  induction l with
  | nil => intro h; simp at h
  | cons a as ih =>
    intro hm hp hu
    simp only [List.find?_cons]
    by_cases ha : p a = true
    · have := hu a List.mem_cons_self ha
      subst this
      simp [hp]
    · have hne : a ≠ x := fun e => ha (e ▸ hp)
      have hm' : x ∈ as := by
        rcases List.mem_cons.mp hm with e | h
        · exact absurd e.symm hne
        · exact h
      have ha' : p a = false := by simpa using ha
      simp only [ha']
      exact ih hm' hp (fun y hy => hu y (List.mem_cons_of_mem _ hy))

theorem find?_none_of_forall {α} (p : α → Bool) (l : List α) (h : ∀ y ∈ l, p y = false) : l.find? p = none := by
  rw [List.find?_eq_none]; intro y hy; simp [h y hy]

/-- the occupied intervals the ghost sees in a block are the padding granule and the model's live spans -/
theorem mem_occupied {g : Ghost} {s : St} (hS : Sim g s) (b : Block) (o sz : Nat) :
    (o, sz) ∈ g.occupied (toGB b) ↔
      (s.a.cfg.noPad = false ∧ o = 0 ∧ sz = s.a.cfg.poolGran b.pool) ∨
      ∃ x ∈ g.liveIn b.id, x.off = o ∧ x.size = sz := by
  unfold Ghost.occupied Ghost.pad
  simp only [toGB, hS.cfg]
  cases hn : s.a.cfg.noPad
  · simp only [Bool.not_false, if_true, List.mem_cons, List.mem_map, Prod.mk.injEq]
    constructor
    · rintro (⟨rfl, rfl⟩ | ⟨x, hx, rfl, rfl⟩)
      · exact Or.inl ⟨trivial, rfl, rfl⟩
      · exact Or.inr ⟨x, hx, rfl, rfl⟩
    · rintro (⟨_, rfl, rfl⟩ | ⟨x, hx, rfl, rfl⟩)
      · exact Or.inl ⟨rfl, rfl⟩
      · exact Or.inr ⟨x, hx, rfl, rfl⟩
  · simp only [Bool.not_true, Bool.false_eq_true, if_false, List.mem_map, Prod.mk.injEq]
    constructor
    · rintro ⟨x, hx, rfl, rfl⟩; exact Or.inr ⟨x, hx, rfl, rfl⟩
    · rintro (⟨h, _⟩ | ⟨x, hx, rfl, rfl⟩)
      · simp at h
      · exact ⟨x, hx, rfl, rfl⟩

/-- a live handle of the ghost in block `b` is a granule-aligned span of the model -/
theorem liveIn_span {g : Ghost} {s : St} (hS : Sim g s) (hI : Inv s) {b : Block} (hb : b ∈ s.a.blocks) {x : GH}
    (hx : x ∈ g.liveIn b.id) : ∃ st n, Spans s.tab b.id (s.a.cfg.poolGran b.pool) st n ∧ x.off = st * s.a.cfg.poolGran b.pool ∧
      x.size = n * s.a.cfg.poolGran b.pool := by
  have hx' := hx
  simp only [Ghost.liveIn, List.mem_filter] at hx'
  obtain ⟨i, hi⟩ := List.getElem?_of_mem hx'.1
  have hlive : x.live = true ∧ x.blk = b.id := by simpa using hx'.2
  have hm : s.tab[i]? = some (toH x) := by rw [hS.getH, hi]; rfl
  obtain ⟨b2, hb2, e2, st, n, o1, o2⟩ := hI.owned i (toH x) hm hlive.1
  have : b2 = b := block_unique hI hb2 hb (by rw [e2]; exact hlive.2)
  subst this
  exact ⟨st, n, ⟨i, toH x, hm, hlive.1, hlive.2, o1, o2⟩, o1, o2⟩

end AsmjitVerif.JitAlloc
