/- C09 refinement (model run ⊑ monitor): every configuration `JitAllocator_new_impl` produces has pool granularities dividing the block size. -/
import AsmjitVerif.Lemmas.JitAllocSimReset
namespace AsmjitVerif.JitAlloc

theorem pow2_gran_cases : ∀ g : Fin 257, 64 ≤ g.val → isPow2 g.val = true → g.val = 64 ∨ g.val = 128 ∨ g.val = 256 := by
  decide +kernel

theorem pow2_dvd_1024 {n : Nat} (h : isPow2 n = true) (hn : 1024 ≤ n) : 1024 ∣ n := by
  unfold isPow2 at h
  simp only [Bool.and_eq_true, bne_iff_ne, ne_eq, beq_iff_eq] at h
  obtain ⟨_, h⟩ := h
  by_cases hr : n % 1024 = 0
  · exact Nat.dvd_of_mod_eq_zero hr
  · exfalso
    have hq : (n - 1) / 1024 = n / 1024 := by omega
    have h2 : (n &&& (n - 1)) >>> 10 = (n >>> 10) &&& ((n - 1) >>> 10) := Nat.shiftRight_and_distrib
    rw [h] at h2
    simp only [Nat.shiftRight_eq_div_pow, Nat.zero_div] at h2
    have e : (2:Nat) ^ 10 = 1024 := by decide
    rw [e, hq, Nat.and_self] at h2
    omega

theorem mkConfig_gran (opts gran blockSize pattern : Nat) :
    (mkConfig opts gran blockSize pattern).gran = 64 ∨ (mkConfig opts gran blockSize pattern).gran = 128 ∨ (mkConfig opts gran blockSize pattern).gran = 256 := by
  unfold mkConfig
  simp only
  split
  · left; rfl
  · rename_i h
    simp at h
    exact pow2_gran_cases ⟨gran, by omega⟩ h.1.1 h.2

theorem mkConfig_div (opts gran blockSize pattern : Nat) : CfgDiv (mkConfig opts gran blockSize pattern) := by
  intro p hp
  have hg := mkConfig_gran opts gran blockSize pattern
  have hb : 1024 ∣ (mkConfig opts gran blockSize pattern).blockSize := by
    unfold mkConfig
    simp only
    split
    · exact ⟨64, by decide⟩
    · rename_i h
      simp at h
      exact pow2_dvd_1024 h.2 (by omega)
  have hp3 : p < 3 := by
    unfold Config.poolCount at hp
    split at hp <;> omega
  refine Nat.dvd_trans ?_ hb
  unfold Config.poolGran
  have : p = 0 ∨ p = 1 ∨ p = 2 := by omega
  rcases this with rfl | rfl | rfl <;> rcases hg with e | e | e <;> rw [e] <;> decide

theorem mkConfig_gran_le (opts gran blockSize pattern : Nat) : (mkConfig opts gran blockSize pattern).gran ≤ 1024 := by
  rcases mkConfig_gran opts gran blockSize pattern with e | e | e <;> omega

end AsmjitVerif.JitAlloc
