/-
C01 helper lemmas, spec side: relative branches to a bound label (`jcc` / `jmp` / `call` rel8 / rel32): the parser on
escape? opcode rel-bytes (no prefix, no REX, no ModRM), and the shape lemma of the monitor for a [rel] operand.
-/
import AsmjitVerif.Lemmas.X86Parse
set_option linter.constructorNameAsVariable false
set_option linter.unusedSimpArgs false
set_option linter.unusedVariables false
namespace AsmjitVerif.Lemmas.X86Parse
open Spec.X86

/-- legacy form without prefix / REX / ModRM, followed by `rel` bytes (64-bit mode) -/
theorem parse_legacy_rel (r : Rule) (o : BitVec 8) (rel : List (BitVec 8))
    (hs : r.space = 0) (hfw : r.pp &&& 8 = 0) (hmap : r.map < 4) (hmk : r.modKind = 0)
    (ho : r.map = 0 → isLegacyPrefix o false = false ∧ o.toNat / 16 ≠ 4)
    (hlen : rel.length = r.immBytes + r.relBytes) (hmoff : r.moff = false) :
    parse true r (legacyEscape r.map ++ o :: rel) =
      .ok { prefixes := [], rex := none, map := r.map, opcode := o, imm := rel, length := (legacyEscape r.map).length + 1 + rel.length } := by
  have hmap' : r.map = 0 ∨ r.map = 1 ∨ r.map = 2 ∨ r.map = 3 := by omega
  rcases hmap' with m | m | m | m
  · obtain ⟨ho1, ho2⟩ := ho m
    simp [parse, takePrefixes, isLP_0F, legacyEscape, bind, Except.bind, pure, Except.pure, m, hs, hfw, hmk, hlen, hmoff, ho1, ho2]
    try omega
  all_goals
    simp [parse, takePrefixes, isLP_0F, legacyEscape, bind, Except.bind, pure, Except.pure, m, hs, hfw, hmk, hlen, hmoff]
    try omega

/-- shape [rel] with a label bound at `pos`: all conditions of the monitor hold when the decoded displacement, counted from the end of the
instruction, designates `pos` -/
theorem leg_rel_formOk (ctx : Spec.X86.Ctx) (rule : Rule) (p : Parsed) (bytes : List (BitVec 8)) (f0 : FormOp) (pos : Nat)
    (hmode : ((if ctx.mode64 then rule.modes &&& 2 else rule.modes &&& 1) != 0) = true)
    (hs : rule.space = 0) (hpp : rule.pp = 0) (hosz : rule.osz ≠ 16)
    (hri : rule.ri = false) (ha67 : rule.a67 = false) (hf0 : f0.role = .rel)
    (hal : alignOps rule.oszEff rule.ops [.label pos] = some [(f0, some (.label pos))])
    (hparse : parse ctx.mode64 rule bytes = .ok p)
    (hvk : p.vexKind = 0) (hpfx : p.prefixes = []) (hrex : p.rex = none) (hmodrm : p.modrm = Option.none) (hop : p.opcode.toNat = rule.opcode)
    (hw : wWant rule = 2 ∨ p.W = (wWant rule == 1))
    (htgt : ((ctx.off + p.length : Nat) : Int) + sextNat (leNat (p.imm.take rule.relBytes)) (8 * rule.relBytes) = (pos : Int)) :
    formOk ctx rule [.label pos] {} bytes = true := by
  have hleg : isLegacySpace rule = true := by simp [isLegacySpace, hs]
  have h16 : (rule.osz == 16) = false := by simpa using hosz
  simp only [formOk, conds, hal, hparse, hmode]
  simp only [allOk_cons, allOk_append, decorConds, headConds, prefixConds, modrmConds, operandConds, opConds, tailConds, hf0,
    allOk_nil, memOperandOf, implMemOf, usesVvvv, memDestOf, hasBcst, hleg, hri, hmodrm, hpfx, hvk, hrex, List.foldl, List.find?, List.drop]
  simp [hop, hs, hpp, h16, ha67, allOk]
  refine ⟨hw, ?_⟩
  have := htgt
  push_cast at this
  exact this

end AsmjitVerif.Lemmas.X86Parse
