/- C20 helper lemmas: label texts (`L7`, `name`, `parent.name`, `L3.name`, `L7@name`) read back to the label id. -/
import AsmjitVerif.Lemmas.FormatA64MemRead

namespace AsmjitVerif.Lemmas.FormatLabels
open AsmjitVerif.Format AsmjitVerif.FormatText AsmjitVerif.Lemmas.FormatLex AsmjitVerif.Lemmas.FormatNum
open AsmjitVerif.Lemmas.FormatX86Mem

theorem splitAt_none (c : Char) : ∀ s : Str, c ∉ s → splitAt? c s = none
  | [], _ => rfl
  | x :: xs, h => by
    have hx : x ≠ c := fun e => h (by rw [e]; exact List.mem_cons_self ..)
    have hr : c ∉ xs := fun hm => h (List.mem_cons_of_mem _ hm)
    simp [splitAt?, hx, splitAt_none c xs hr]

theorem splitAt_append (c : Char) : ∀ a b : Str, c ∉ a → splitAt? c (a ++ c :: b) = some (a, b)
  | [], b, _ => by simp [splitAt?]
  | x :: xs, b, h => by
    have hx : x ≠ c := fun e => h (by rw [e]; exact List.mem_cons_self ..)
    have hr : c ∉ xs := fun hm => h (List.mem_cons_of_mem _ hm)
    simp [splitAt?, hx, splitAt_append c xs b hr]

theorem dec_digit_facts : ∀ d : Fin 10,
    (digitChar d.val).isDigit = true ∧ digitChar d.val ≠ '.' ∧ digitChar d.val ≠ '@' ∧ digitChar d.val ≠ '%' := by decide

theorem uint_dec_chars (n : Nat) : ∀ c ∈ uintStr n 10, c.isDigit = true ∧ c ≠ '.' ∧ c ≠ '@' ∧ c ≠ '%' := by
  unfold uintStr
  exact digitsLoop_chars 10 (fun c => c.isDigit = true ∧ c ≠ '.' ∧ c ≠ '@' ∧ c ≠ '%') (by omega)
    (fun d hd => dec_digit_facts ⟨d, hd⟩) 64 n

theorem parseAnon_L (n : Nat) (h : n < two64) : parseAnonLabel ('L' :: uintStr n 10) = some n := by
  have hall : (uintStr n 10).all Char.isDigit = true := by
    simp only [List.all_eq_true]; intro c hc; exact (uint_dec_chars n c hc).1
  simp [parseAnonLabel, hall, parseDec_uintStr n h]

theorem L_no_dot (n : Nat) : '.' ∉ 'L' :: uintStr n 10 := by
  intro h; simp only [List.mem_cons] at h
  rcases h with e | e
  · exact absurd e (by decide)
  · exact (uint_dec_chars n _ e).2.1 rfl

theorem L_no_at (n : Nat) : '@' ∉ 'L' :: uintStr n 10 := by
  intro h; simp only [List.mem_cons] at h
  rcases h with e | e
  · exact absurd e (by decide)
  · exact (uint_dec_chars n _ e).2.2.1 rfl

/-- the anonymous form `L<id>` -/
def anonText (id : Nat) : Str := 'L' :: uintStr id 10

/-- what `format_label` prints before the label's own name: `L<id>@` for an anonymous label that carries a name -/
def midText (le : LabelEntry) (id : Nat) : Str := if le.type = 0 then anonText id ++ ['@'] else []

/-- the own part reads back -/
theorem own_read (ls : List LabelEntry) (id : Nat) (le : LabelEntry) (hasP : Bool) (hid : id < two64)
    (here : ls[id]? = some le) (hne : le.name ≠ []) (hat : '@' ∉ le.name)
    (hown : le.type = 0 ∨ (le.type ≠ 0 ∧ parseAnonLabel le.name = none ∧ labelIdByName ls le.parent le.name = some id)) :
    resolveOwn ls hasP le.parent (midText le id ++ le.name) = some id := by
  unfold resolveOwn midText
  have hnempty : le.name.isEmpty = false := by cases h : le.name <;> simp_all
  rcases hown with h0 | ⟨h0, hpa, hlk⟩
  · simp only [h0, if_true]
    have : anonText id ++ ['@'] ++ le.name = anonText id ++ '@' :: le.name := by simp
    rw [this, splitAt_append '@' (anonText id) _ (L_no_at id)]
    simp [anonText, parseAnon_L id hid, here, h0, hnempty]
  · simp only [h0, if_false, List.nil_append]
    rw [splitAt_none '@' _ hat]
    simp [hpa, hlk]

/-- the text of a label under the emitter's label table -/
structure LabelWF (ls : List LabelEntry) (id : Nat) (le : LabelEntry) : Prop where
  here : ls[id]? = some le
  small : id < two64
  shape :
    le.name = [] ∨
    (le.name ≠ [] ∧ '.' ∉ le.name ∧ '@' ∉ le.name ∧
      (le.type = 0 ∨ (le.type ≠ 0 ∧ parseAnonLabel le.name = none ∧ labelIdByName ls le.parent le.name = some id)) ∧
      (match le.parent with
       | none => True
       | some pid => pid < two64 ∧ ∃ pe, ls[pid]? = some pe ∧
           (pe.name = [] ∨ (pe.name ≠ [] ∧ '.' ∉ pe.name ∧ parseAnonLabel pe.name = none ∧ labelIdByName ls none pe.name = some pid))))

theorem mid_no_dot (le : LabelEntry) (id : Nat) : '.' ∉ midText le id := by
  unfold midText
  split
  · intro h
    simp only [List.mem_append, List.mem_singleton] at h
    rcases h with e | e
    · exact L_no_dot id e
    · exact absurd e (by decide)
  · simp

/-- every label form `format_label` prints reads back to the label's id -/
theorem label_read (env : Env) (ls : List LabelEntry) (id : Nat) (le : LabelEntry) (hl : env.labels = some ls)
    (wf : LabelWF ls id le) : parseLabel env (formatLabel env id) = some id := by
  have here := wf.here
  unfold formatLabel parseLabel
  simp only [hl, here]
  rcases wf.shape with hanon | ⟨hne, hdot, hat, hown, hpar⟩
  · -- anonymous: `L<id>`
    simp only [hanon, List.length_nil, ne_eq, not_true_eq_false, if_false]
    have hsp : splitParent ('L' :: uintStr id) = (none, 'L' :: uintStr id) := by
      unfold splitParent; rw [splitAt_none '.' _ (L_no_dot id)]
    rw [hsp]
    simp [resolveParent, resolveOwn, splitAt_none '@' _ (L_no_at id), parseAnon_L id wf.small, here, hanon]
  · have hlen : le.name.length ≠ 0 := by cases h : le.name <;> simp_all
    simp only [hlen, ne_eq, not_false_eq_true, if_true]
    have hmid : (if le.type = 0 then 'L' :: uintStr id ++ ['@'] else []) = midText le id := by
      unfold midText anonText; rfl
    cases hp : le.parent with
    | none =>
      simp only [List.nil_append, hmid]
      have hnd : '.' ∉ midText le id ++ le.name := by
        intro h; rcases List.mem_append.mp h with e | e
        · exact mid_no_dot le id e
        · exact hdot e
      have hsp : splitParent (midText le id ++ le.name) = (none, midText le id ++ le.name) := by
        unfold splitParent; rw [splitAt_none '.' _ hnd]
      rw [hsp]
      have := own_read ls id le false wf.small here hne hat hown
      rw [hp] at this
      simp [resolveParent, this]
    | some pid =>
      rw [hp] at hpar
      obtain ⟨hpid, pe, hpe, hpshape⟩ := hpar
      simp only [hpe, hmid]
      have hown' := own_read ls id le true wf.small here hne hat hown
      rw [hp] at hown'
      rcases hpshape with hpanon | ⟨hpne, hpdot, hppa, hplk⟩
      · have hplen : ¬ (pe.name.length ≠ 0) := by simp [hpanon]
        simp only [hplen, if_false]
        have e : ('L' :: uintStr pid ++ ['.']) ++ midText le id ++ le.name = ('L' :: uintStr pid) ++ '.' :: (midText le id ++ le.name) := by simp
        have hsp : splitParent (('L' :: uintStr pid ++ ['.']) ++ midText le id ++ le.name) = (some ('L' :: uintStr pid), midText le id ++ le.name) := by
          unfold splitParent; rw [e, splitAt_append '.' _ _ (L_no_dot pid)]
        rw [hsp]
        simp [resolveParent, parseAnon_L pid hpid, hpe, hpanon, hown']
      · have hplen : pe.name.length ≠ 0 := by cases h : pe.name <;> simp_all
        simp only [hplen, ne_eq, not_false_eq_true, if_true]
        have e : (pe.name ++ ['.']) ++ midText le id ++ le.name = pe.name ++ '.' :: (midText le id ++ le.name) := by simp
        have hsp : splitParent ((pe.name ++ ['.']) ++ midText le id ++ le.name) = (some pe.name, midText le id ++ le.name) := by
          unfold splitParent; rw [e, splitAt_append '.' _ _ hpdot]
        rw [hsp]
        simp [resolveParent, hppa, hplk, hown']

/-- without an attached code holder every label prints as `L<id>` and reads back -/
theorem label_read_nocode (env : Env) (id : Nat) (hl : env.labels = none) (hid : id < two64) :
    parseLabel env (formatLabel env id) = some id := by
  simp [formatLabel, parseLabel, hl, parseAnon_L id hid]

end AsmjitVerif.Lemmas.FormatLabels
