/-
Helper lemmas for the A32 ADR format of C17: `ctz32` meets its relational spec; `encode_aarch32_imm` is sound and
complete w.r.t. `ARMExpandImm` (`imm32 = ROR(ZeroExtend(imm8), 2*rot4)`).  SSA style as in Lemmas/A64Logical.lean:
`ctz32` stays opaque and is replaced by "index of the least set bit".
-/
import AsmjitVerif.Spec.Offset
import Std.Tactic.BVDecide
namespace AsmjitVerif.Offset

/-- relational meaning of count-trailing-zeros: `n` is the index of the least set bit of `x` -/
def CtzSpec32 (x n : BitVec 32) : Prop :=
  n.ult 32#32 = true ∧ (x >>> n) &&& 1#32 = 1#32 ∧ x &&& ((1#32 <<< n) - 1#32) = 0#32

theorem ctz32_spec (x : BitVec 32) : x ≠ 0#32 → CtzSpec32 x (ctz32 x) := by
  intro hx
  unfold CtzSpec32 ctz32
  bv_decide (config := { timeout := 300 })

/-- accepted ⇒ the 12-bit result `rot4:imm8` expands (Arm ARM `ARMExpandImm`) to the value -/
theorem a32imm_sound (v e : BitVec 32) (h : encodeAArch32Imm v = some e) :
    e.ule 0xFFF#32 = true ∧ rorSpec (e &&& 0xFF#32) ((e >>> 8) <<< 1) = v := by
  simp only [encodeAArch32Imm] at h
  split at h
  · cases h
    simp only [rorSpec]
    bv_decide (config := { timeout := 300 })
  rename_i hgt
  generalize hv1 : (if ((v &&& 0xFF0000FF#32) != 0#32) = true then ror32 v 16#32 else v) = v1 at h
  have c := ctz32_spec v1
  generalize hn : ctz32 v1 = n at h c
  split at h
  · cases h
  rename_i hle
  cases h
  simp only [CtzSpec32, ror32, rorSpec] at *
  bv_decide (config := { timeout := 300 })

/-- refused ⇒ no `rot4:imm8` expands to the value -/
theorem a32imm_complete (v imm12 : BitVec 32)
    (h : rorSpec (imm12 &&& 0xFF#32) (((imm12 &&& 0xFFF#32) >>> 8) <<< 1) = v) : encodeAArch32Imm v ≠ none := by
  simp only [encodeAArch32Imm]
  split
  · simp
  rename_i hgt
  generalize hv1 : (if ((v &&& 0xFF0000FF#32) != 0#32) = true then ror32 v 16#32 else v) = v1
  have c := ctz32_spec v1
  generalize hn : ctz32 v1 = n at c
  split
  · rename_i hbad
    exfalso
    simp only [CtzSpec32, ror32, rorSpec] at *
    bv_decide (config := { timeout := 300 })
  · simp

end AsmjitVerif.Offset
