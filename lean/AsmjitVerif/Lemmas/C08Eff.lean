/- C08: the effect of one emitter call on the specification state, in a form independent of where the gap is:
   either nothing is linked, or exactly one node is linked at the gap and replays as the call the Assembler receives. -/
import AsmjitVerif.Lemmas.C08Calls
import AsmjitVerif.Lemmas.C08Project

namespace AsmjitVerif.Builder
open Spec

/-- FRel after a state-only change -/
theorem FRel_state (t : Spec.St) (a a' : ASt) (f' : Front) (fr : FRel t a)
    (hn : f'.nodes = t.f.nodes) (hl : f'.labelNodes = t.f.labelNodes)
    (hr : f'.regSize = a'.regSize) (hns : f'.nSections = a'.nSections) (ho : f'.opts = a'.opts) (he : f'.extra = a'.extra)
    (hc : f'.cmt = a'.cmt) (al : a'.nLabels = a.nLabels) (ab : a'.bound = a.bound) :
    FRel { f := f', d := t.d } a' := by
  have hna : ∀ n, nodeAt f' n = nodeAt t.f n := by intro n; simp [nodeAt, hn]
  refine ⟨hr, by rw [hl, al]; exact fr.nLabels, hns, ho, he, hc, ?_, ?_, ?_, ?_⟩
  · intro n h; rw [hn]; exact fr.fresh n h
  · intro l h
    rw [al] at h
    obtain ⟨n, h1, h2, h3⟩ := fr.lab l h
    exact ⟨n, by rw [hl]; exact h1, by rw [hn]; exact h2, by rw [hna]; exact h3⟩
  · intro l n h1 h2
    rw [al] at h1; rw [hl] at h2; rw [ab]
    exact fr.bound l n h1 h2
  · intro l h; rw [ab] at h; rw [al]; exact fr.bnd l h

/-- FRel after one fresh node has been created and linked somewhere -/
theorem FRel_fresh (t : Spec.St) (a a' : ASt) (f' : Front) (d' : Doc) (P : Node) (fr : FRel t a)
    (hm : ∀ x, x ∈ d'.items ↔ x ∈ t.d.items ∨ x = t.f.nodes.length)
    (hn : f'.nodes = t.f.nodes ++ [P]) (hl : f'.labelNodes = t.f.labelNodes)
    (hr : f'.regSize = a'.regSize) (hns : f'.nSections = a'.nSections) (ho : f'.opts = a'.opts) (he : f'.extra = a'.extra)
    (hc : f'.cmt = a'.cmt) (al : a'.nLabels = a.nLabels) (ab : a'.bound = a.bound) :
    FRel { f := f', d := d' } a' := by
  have hlen : f'.nodes.length = t.f.nodes.length + 1 := by rw [hn]; simp
  refine ⟨hr, by rw [hl, al]; exact fr.nLabels, hns, ho, he, hc, ?_, ?_, ?_, ?_⟩
  · intro n h
    rw [hlen]
    rcases (hm n).mp h with h | rfl
    · exact Nat.lt_succ_of_lt (fr.fresh n h)
    · exact Nat.lt_succ_self _
  · intro l h
    rw [al] at h
    obtain ⟨n, h1, h2, h3⟩ := fr.lab l h
    exact ⟨n, by rw [hl]; exact h1, by rw [hlen]; omega, by rw [nodeAt_prefix _ _ [P] hn n h2]; exact h3⟩
  · intro l n h1 h2
    rw [al] at h1; rw [hl] at h2; rw [ab]
    obtain ⟨n', h1', h2', _⟩ := fr.lab l h1
    have : n = n' := by rw [h1'] at h2; exact (Option.some.inj h2).symm
    subst this
    show n ∈ d'.items ↔ _
    rw [hm n, ← fr.bound l n h1 h2]
    constructor
    · rintro (h | h)
      · exact h
      · omega
    · exact Or.inl
  · intro l h; rw [ab] at h; rw [al]; exact fr.bnd l h

/-- FRel after the (unlinked) node of label `l` has been linked somewhere -/
theorem FRel_bind (t : Spec.St) (a : ASt) (d' : Doc) (l n : Nat) (fr : FRel t a) (hl : l < a.nLabels)
    (h1 : t.f.labelNodes.getD l none = some n) (h2 : n < t.f.nodes.length) (h3 : nodeAt t.f n = .label l)
    (hm : ∀ x, x ∈ d'.items ↔ x ∈ t.d.items ∨ x = n) :
    FRel { f := t.f, d := d' } { (a.emit (.bind l)) with bound := l :: a.bound } := by
  refine ⟨fr.regSize, fr.nLabels, fr.nSections, fr.opts, fr.extra, fr.cmt, ?_, fr.lab, ?_, ?_⟩
  · intro m hmm
    rcases (hm m).mp hmm with h | rfl
    · exact fr.fresh m h
    · exact h2
  · intro l' n' hl' hn'
    simp only [ASt.emit] at hl' ⊢
    show n' ∈ d'.items ↔ _
    rw [hm n', List.mem_cons]
    by_cases hll : l' = l
    · subst hll
      have : n' = n := by rw [h1] at hn'; exact (Option.some.inj hn').symm
      subst this; simp
    · have hne : n' ≠ n := by
        intro e; subst e
        obtain ⟨n'', g1, _, g3⟩ := fr.lab l' hl'
        have : n' = n'' := by rw [g1] at hn'; exact (Option.some.inj hn').symm
        subst this
        rw [h3] at g3
        exact hll (by injection g3 with g; exact g.symm)
      rw [← fr.bound l' n' hl' hn']
      constructor
      · rintro (h | h)
        · exact Or.inr h
        · exact absurd h hne
      · rintro (h | h)
        · exact absurd h hll
        · exact Or.inl h
  · intro l' h'
    simp only [ASt.emit, List.mem_cons] at h' ⊢
    rcases h' with rfl | h'
    · exact hl
    · exact fr.bnd l' h'

/-- the effect of an emitter call other than `section` / `embed_const_pool` -/
inductive Eff (t : Spec.St) (a : ASt) (op : Op) : Prop where
  /-- nothing is linked (state setters, label / section creation, calls refused at call time) -/
  | state (f' : Front) (hstep : (Spec.step t op).1 = { f := f', d := t.d })
      (hext : ∃ ext, f'.nodes = t.f.nodes ++ ext) (hsn : f'.sectionNodes = t.f.sectionNodes)
      (hout : (astep a op).out = a.out) (hcur : (astep a op).cur = a.cur) (hent : (astep a op).entered = a.entered)
      (hre : (astep a op).reentered = a.reentered)
      (hfr : FRel { f := f', d := t.d } (astep a op))
  /-- exactly one node `n`, not linked before, is linked at the gap; it replays as the call `c` the Assembler receives -/
  | ins (f' : Front) (n : Nat) (c : Call) (hstep : (Spec.step t op).1 = { f := f', d := t.d.apply (.add n) })
      (hext : ∃ ext, f'.nodes = t.f.nodes ++ ext) (hsn : f'.sectionNodes = t.f.sectionNodes)
      (hn : n ∉ t.d.items) (hc : (nodeAt f' n).toCall = c) (hns : c.isSection = false)
      (hout : (astep a op).out = a.out ++ [c]) (hcur : (astep a op).cur = a.cur) (hent : (astep a op).entered = a.entered)
      (hre : (astep a op).reentered = a.reentered)
      (hfr : ∀ d' : Doc, (∀ x, x ∈ d'.items ↔ x ∈ t.d.items ∨ x = n) → FRel { f := f', d := d' } (astep a op))

theorem eff_fresh (t : Spec.St) (a : ASt) (op : Op) (f' : Front) (P : Node) (fr : FRel t a)
    (hfront : front t.f t.d.has op = (f', .ok, [.add t.f.nodes.length]))
    (hn : f'.nodes = t.f.nodes ++ [P]) (hl : f'.labelNodes = t.f.labelNodes) (hsn : f'.sectionNodes = t.f.sectionNodes)
    (hr : f'.regSize = (astep a op).regSize) (hns : f'.nSections = (astep a op).nSections) (ho : f'.opts = (astep a op).opts)
    (he : f'.extra = (astep a op).extra) (hc : f'.cmt = (astep a op).cmt) (al : (astep a op).nLabels = a.nLabels)
    (ab : (astep a op).bound = a.bound) (hout : (astep a op).out = a.out ++ [P.toCall]) (hcur : (astep a op).cur = a.cur)
    (hent : (astep a op).entered = a.entered) (hre : (astep a op).reentered = a.reentered) (hP : P.toCall.isSection = false) :
    Eff t a op := by
  refine Eff.ins f' t.f.nodes.length P.toCall ?_ ⟨[P], hn⟩ hsn ?_ ?_ hP hout hcur hent hre ?_
  · rw [spec_step_state, hfront]; rfl
  · exact fun hm => Nat.lt_irrefl _ (fr.fresh _ hm)
  · rw [nodeAt_append_new _ _ _ hn]
  · intro d' hm
    exact FRel_fresh t a _ f' d' P fr hm hn hl hr hns ho he hc al ab

theorem eff_reject (t : Spec.St) (a : ASt) (op : Op) (r : Res) (fr : FRel t a)
    (hfront : front t.f t.d.has op = (t.f, r, [])) (hast : astep a op = a) : Eff t a op := by
  refine Eff.state t.f ?_ ⟨[], by simp⟩ rfl (by rw [hast]) (by rw [hast]) (by rw [hast]) (by rw [hast]) (by rw [hast]; exact fr)
  rw [spec_step_state, hfront]; rfl

/-- every emitter call other than `section` and `embed_const_pool` has one of the two effects -/
theorem op_eff (t : Spec.St) (a : ASt) (op : Op) (fr : FRel t a) (hed : isEdit op = false)
    (hsec : ∀ s, op ≠ .section s) (hcp : ∀ l z b, op ≠ .cpool l z b) : Eff t a op := by
  cases op with
  | newlabel =>
    have hlen : t.f.labelNodes.length = a.nLabels := fr.nLabels
    refine Eff.state (front t.f t.d.has .newlabel).1 (by rw [spec_step_state]; rfl) ⟨[.label t.f.labelNodes.length], rfl⟩ rfl rfl rfl rfl rfl ?_
    refine ⟨fr.regSize, by simp [front, Front.newNode, astep, hlen], fr.nSections, fr.opts, fr.extra, fr.cmt, ?_, ?_, ?_, ?_⟩
    · intro n h
      simp only [front, Front.newNode, List.length_append, List.length_singleton] at h ⊢
      exact Nat.lt_succ_of_lt (fr.fresh n h)
    · intro l h
      simp only [astep] at h
      simp only [front, Front.newNode]
      by_cases hl : l < a.nLabels
      · obtain ⟨n, h1, h2, h3⟩ := fr.lab l hl
        refine ⟨n, ?_, by simp; omega, ?_⟩
        · simp only [List.getD_eq_getElem?_getD] at h1 ⊢
          rw [List.getElem?_append_left (by omega)]; exact h1
        · rw [nodeAt_prefix t.f _ [.label t.f.labelNodes.length] rfl n h2]; exact h3
      · have : l = a.nLabels := by omega
        subst this
        refine ⟨t.f.nodes.length, ?_, by simp, ?_⟩
        · simp [List.getD_eq_getElem?_getD, ← hlen]
        · simp [nodeAt, List.getD_eq_getElem?_getD, hlen]
    · intro l n h1 h2
      simp only [astep] at h1 ⊢
      simp only [front, Front.newNode] at h2 ⊢
      by_cases hl : l < a.nLabels
      · simp only [List.getD_eq_getElem?_getD] at h2
        rw [List.getElem?_append_left (by omega)] at h2
        exact fr.bound l n hl (by simpa [List.getD_eq_getElem?_getD] using h2)
      · have : l = a.nLabels := by omega
        subst this
        have hn : n = t.f.nodes.length := by
          simp [List.getD_eq_getElem?_getD, ← hlen] at h2; exact h2.symm
        subst hn
        constructor
        · intro h; exact absurd (fr.fresh _ h) (Nat.lt_irrefl _)
        · intro h; exact absurd (fr.bnd _ h) (Nat.lt_irrefl _)
    · intro l h; simp only [astep] at h ⊢; exact Nat.lt_succ_of_lt (fr.bnd l h)
  | newsection =>
    exact Eff.state (front t.f t.d.has (.newsection)).1 (by rw [spec_step_state]; rfl) ⟨[], by simp [front]⟩ rfl rfl rfl rfl rfl
      (FRel_state t a _ _ fr rfl rfl fr.regSize (by simp [front, astep, fr.nSections]) fr.opts fr.extra fr.cmt rfl rfl)
  | opts v =>
    exact Eff.state (front t.f t.d.has (.opts v)).1 (by rw [spec_step_state]; rfl) ⟨[], by simp [front]⟩ rfl rfl rfl rfl rfl
      (FRel_state t a _ _ fr rfl rfl fr.regSize fr.nSections (by simp [front, astep, fr.opts]) fr.extra fr.cmt rfl rfl)
  | extra x =>
    exact Eff.state (front t.f t.d.has (.extra x)).1 (by rw [spec_step_state]; rfl) ⟨[], by simp [front]⟩ rfl rfl rfl rfl rfl
      (FRel_state t a _ _ fr rfl rfl fr.regSize fr.nSections fr.opts (by simp [front, astep]) fr.cmt rfl rfl)
  | icomment x =>
    exact Eff.state (front t.f t.d.has (.icomment x)).1 (by rw [spec_step_state]; rfl) ⟨[], by simp [front]⟩ rfl rfl rfl rfl rfl
      (FRel_state t a _ _ fr rfl rfl fr.regSize fr.nSections fr.opts fr.extra (by simp [front, astep]) rfl rfl)
  | inst id l =>
    refine eff_fresh t a _
      { t.f with nodes := t.f.nodes ++ [.inst id (clearReserved t.f.opts) t.f.extra t.f.cmt (opCountFromArgs l) (storeOps l)],
                 opts := 0, extra := "-", cmt := "-" }
      (.inst id (clearReserved t.f.opts) t.f.extra t.f.cmt (opCountFromArgs l) (storeOps l)) fr (by simp [front, Front.newNode]) rfl rfl rfl
      fr.regSize fr.nSections rfl rfl rfl rfl rfl ?_ rfl rfl rfl (by simp [Node.toCall, Call.isSection])
    simp only [astep, ASt.emit, Node.toCall, fr.opts, fr.extra, fr.cmt]
    congr 3
    simp only [replayOps, storeOps, normOps, capacityOf, getOp]
    cases hd : (getOp l 3).isNone <;> cases he : (getOp l 4).isNone <;> cases hf : (getOp l 5).isNone <;>
    cases ha : (getOp l 0).isNone <;> cases hb : (getOp l 1).isNone <;> cases hc : (getOp l 2).isNone <;>
    simp [opCountFromArgs, getOp, hd, he, hf, ha, hb, hc, List.range, List.range.loop] at * <;>
    simp [opCountFromArgs, getOp, *, List.range, List.range.loop]
  | align m n =>
    exact eff_fresh t a _ { t.f with nodes := t.f.nodes ++ [.align m n] } (.align m n) fr (by simp [front, Front.newNode]) rfl rfl rfl
      fr.regSize fr.nSections fr.opts fr.extra fr.cmt rfl rfl rfl rfl rfl rfl (by simp [Node.toCall, Call.isSection])
  | comment c =>
    exact eff_fresh t a _ { t.f with nodes := t.f.nodes ++ [.comment c] } (.comment c) fr (by simp [front, Front.newNode]) rfl rfl rfl
      fr.regSize fr.nSections fr.opts fr.extra fr.cmt rfl rfl rfl rfl rfl rfl (by simp [Node.toCall, Call.isSection])
  | embed b =>
    exact eff_fresh t a _ { t.f with nodes := t.f.nodes ++ [.data 35 (hexLen b) 1 b] } (.data 35 (hexLen b) 1 b) fr
      (by simp [front, Front.newNode]) rfl rfl rfl
      fr.regSize fr.nSections fr.opts fr.extra fr.cmt rfl rfl rfl rfl rfl rfl (by simp [Node.toCall, Call.isSection])
  | bind l =>
    by_cases hl : l < a.nLabels
    · obtain ⟨n, h1, h2, h3⟩ := fr.lab l hl
      have hnc : (t.f.nodes.getD n (.comment "?")).isCpool = false := by
        have h3' := h3; simp only [nodeAt] at h3'; rw [h3']; rfl
      have hnc' : (t.f.nodes[n]?.getD (.comment "?")).isCpool = false := by
        simpa [List.getD_eq_getElem?_getD] using hnc
      have h1' : t.f.labelNodes[l]?.getD none = some n := by simpa [List.getD_eq_getElem?_getD] using h1
      have hv : t.f.labelValid l = true := by simp [Front.labelValid, fr.nLabels, hl]
      by_cases hb : l ∈ a.bound
      · have hact : t.d.has n = true := by
          simp only [Doc.has, List.contains_iff_mem]; exact (fr.bound l n hl h1).mpr hb
        exact eff_reject t a _ (.err "LabelAlreadyBound") fr (by simp [front, hv, h1, h1', hact, hnc, hnc']) (by simp [astep, hl, hb])
      · have hnot : n ∉ t.d.items := fun h => hb ((fr.bound l n hl h1).mp h)
        have hact : t.d.has n = false := by simp [Doc.has, hnot]
        have ea : astep a (.bind l) = { (a.emit (.bind l)) with bound := l :: a.bound } := by simp [astep, hl, hb]
        refine Eff.ins t.f n (.bind l) ?_ ⟨[], by simp⟩ rfl hnot (by rw [h3]; rfl) rfl (by rw [ea]; rfl) (by rw [ea]; rfl)
          (by rw [ea]; rfl) (by rw [ea]; rfl) ?_
        · rw [spec_step_state]; simp [front, hv, h1, h1', hact, hnc, hnc']
        · intro d' hm; rw [ea]; exact FRel_bind t a d' l n fr hl h1 h2 h3 hm
    · have hv : t.f.labelValid l = false := by simp [Front.labelValid, fr.nLabels, hl]
      exact eff_reject t a _ (.err "InvalidLabel") fr (by simp [front, hv]) (by simp [astep, hl])
  | data ty items rep bytes =>
    by_cases hm : typeModelled ty = true
    · cases hsz : typeSize a.regSize ty with
      | none => exact eff_reject t a _ (.err "InvalidArgument") fr (by simp [front, hm, fr.regSize, hsz]) (by simp [astep, hm, hsz])
      | some sz =>
        exact eff_fresh t a _ { t.f with nodes := t.f.nodes ++ [.data ty items rep (if items * sz = 0 then "-" else bytes)] }
          (.data ty items rep (if items * sz = 0 then "-" else bytes)) fr
          (by simp [front, Front.newNode, hm, fr.regSize, hsz]) rfl rfl rfl
          (by simp [astep, hm, hsz, ASt.emit, fr.regSize]) (by simp [astep, hm, hsz, ASt.emit, fr.nSections])
          (by simp [astep, hm, hsz, ASt.emit, fr.opts]) (by simp [astep, hm, hsz, ASt.emit, fr.extra])
          (by simp [astep, hm, hsz, ASt.emit, fr.cmt]) (by simp [astep, hm, hsz, ASt.emit]) (by simp [astep, hm, hsz, ASt.emit])
          (by simp [astep, hm, hsz, ASt.emit, Node.toCall]) (by simp [astep, hm, hsz, ASt.emit]) (by simp [astep, hm, hsz, ASt.emit])
          (by simp [astep, hm, hsz, ASt.emit]) (by simp [Node.toCall, Call.isSection])
    · have hm' : typeModelled ty = false := by simpa using hm
      exact eff_reject t a _ .pre fr (by simp [front, hm']) (by simp [astep, hm'])
  | elabel l size =>
    by_cases hl : l < a.nLabels
    · have hv : t.f.labelValid l = true := by simp [Front.labelValid, fr.nLabels, hl]
      by_cases hsz : sizeOk size = true
      · exact eff_fresh t a _ { t.f with nodes := t.f.nodes ++ [.elabel l size] } (.elabel l size) fr
          (by simp [front, Front.newNode, hv, hsz]) rfl rfl rfl
          (by simp [astep, hl, hsz, ASt.emit, fr.regSize]) (by simp [astep, hl, hsz, ASt.emit, fr.nSections])
          (by simp [astep, hl, hsz, ASt.emit, fr.opts]) (by simp [astep, hl, hsz, ASt.emit, fr.extra])
          (by simp [astep, hl, hsz, ASt.emit, fr.cmt]) (by simp [astep, hl, hsz, ASt.emit]) (by simp [astep, hl, hsz, ASt.emit])
          (by simp [astep, hl, hsz, ASt.emit, Node.toCall]) (by simp [astep, hl, hsz, ASt.emit]) (by simp [astep, hl, hsz, ASt.emit])
          (by simp [astep, hl, hsz, ASt.emit]) (by simp [Node.toCall, Call.isSection])
      · have hsz' : sizeOk size = false := by simpa using hsz
        exact eff_reject t a _ (.err "InvalidOperandSize") fr (by simp [front, hv, hsz']) (by simp [astep, hsz'])
    · have hv : t.f.labelValid l = false := by simp [Front.labelValid, fr.nLabels, hl]
      exact eff_reject t a _ (.err "InvalidLabel") fr (by simp [front, hv]) (by simp [astep, hl])
  | edelta l b size =>
    by_cases hl : (l < a.nLabels ∧ b < a.nLabels)
    · have hv : (t.f.labelValid l && t.f.labelValid b) = true := by simp [Front.labelValid, fr.nLabels, hl.1, hl.2]
      have h1 := hl.1
      have h2 := hl.2
      by_cases hsz : sizeOk size = true
      · exact eff_fresh t a _ { t.f with nodes := t.f.nodes ++ [.edelta l b size] } (.edelta l b size) fr
          (by simp [front, Front.newNode, hv, hsz]) rfl rfl rfl
          (by simp [astep, h1, h2, hsz, ASt.emit, fr.regSize]) (by simp [astep, h1, h2, hsz, ASt.emit, fr.nSections])
          (by simp [astep, h1, h2, hsz, ASt.emit, fr.opts]) (by simp [astep, h1, h2, hsz, ASt.emit, fr.extra])
          (by simp [astep, h1, h2, hsz, ASt.emit, fr.cmt]) (by simp [astep, h1, h2, hsz, ASt.emit]) (by simp [astep, h1, h2, hsz, ASt.emit])
          (by simp [astep, h1, h2, hsz, ASt.emit, Node.toCall]) (by simp [astep, h1, h2, hsz, ASt.emit]) (by simp [astep, h1, h2, hsz, ASt.emit])
          (by simp [astep, h1, h2, hsz, ASt.emit]) (by simp [Node.toCall, Call.isSection])
      · have hsz' : sizeOk size = false := by simpa using hsz
        exact eff_reject t a _ (.err "InvalidOperandSize") fr (by simp [front, hv, hsz']) (by simp [astep, hsz'])
    · have hdec : (decide (l < a.nLabels) && decide (b < a.nLabels)) = false := by
        by_cases h1 : l < a.nLabels
        · by_cases h2 : b < a.nLabels
          · exact absurd ⟨h1, h2⟩ hl
          · simp [h2]
        · simp [h1]
      have hv : (t.f.labelValid l && t.f.labelValid b) = false := by
        simp only [Front.labelValid, fr.nLabels]; exact hdec
      exact eff_reject t a _ (.err "InvalidLabel") fr (by simp [front, hv]) (by simp [astep, hdec])
  | «section» s => exact absurd rfl (hsec s)
  | cpool l isz bytes => exact absurd rfl (hcp l isz bytes)
  | gconst z b => simp [isEdit] at hed
  | cursor n => simp [isEdit] at hed
  | remove n => simp [isEdit] at hed
  | removerange x y => simp [isEdit] at hed
  | addnode n => simp [isEdit] at hed
  | addafter n r => simp [isEdit] at hed
  | addbefore n r => simp [isEdit] at hed

end AsmjitVerif.Builder
