/-
C18 — ArenaTree::remove, part 20: every branch of the push-down step keeps the colour invariant `CInv`
(no red-red, uniform black height of the whole tree, and the top-down relaxation).
-/
import AsmjitVerif.Lemmas.C18TreeRem19
namespace AsmjitVerif.Tree.Rem
open AsmjitVerif.Tree AsmjitVerif.Tree.Spec

theorem notand_split {a b : Bool} (h : (!a && !b) = true) : a = false ∧ b = false := by
  cases a <;> cases b <;> simp_all

/-- branches without restructuring -/
theorem cinv_noop {ctx : List Frame} {S : T} (hS : S.isNil = false) (h : CInv ctx S) (d : Bool) (q k : Nat)
    (hj : S.isRed = true ∨ (S.child d).isRed = true ∨ (ctx = [] ∧ (S.child (!d)).isRed = false)) :
    CInv (⟨q, k, S.isRed, d, S.child (!d)⟩ :: ctx) (S.child d) := by
  obtain ⟨nrrS, cn, balS, cb, j⟩ := h
  obtain ⟨a1, a2, a3⟩ := T.col_acc S hS d
  have n1 := a1.mp nrrS; have b1 := a2.mp balS; have b2 := a3 balS
  refine ⟨n1.2.1, ⟨n1.1, n1.2.2, cn⟩, b1.1, ⟨b1.2.1, b1.2.2.symm, ?_⟩, ?_⟩
  · show cbal ctx ((S.child d).bhL + if S.isRed = true then 0 else 1)
    rw [← b2]; exact cb
  · exact hj

theorem cbal_congr {ctx : List Frame} {n m : Nat} (h : cbal ctx n) (e : n = m) : cbal ctx m := e ▸ h
theorem cnrr_congr {ctx : List Frame} {a b : Bool} (h : cnrr ctx a) (e : a = b) : cnrr ctx b := e ▸ h

/-- red far child of `q`: rotation at `q` -/
theorem cinv_rot {ctx : List Frame} {S : T} (hS : S.isNil = false) (h : CInv ctx S) (d : Bool) (q k s ks : Nat)
    (c1 : S.isRed = false) (c2 : (S.child d).isRed = false) (c3 : (S.child (!d)).isRed = true) :
    CInv (⟨q, k, true, d, (S.child (!d)).child d⟩ :: ⟨s, ks, false, d, (S.child (!d)).child (!d)⟩ :: ctx)
      (S.child d) := by
  obtain ⟨nrrS, cn, balS, cb, j⟩ := h
  obtain ⟨a1, a2, a3⟩ := T.col_acc S hS d
  have n1 := a1.mp nrrS; have b1 := a2.mp balS; have b2 := a3 balS
  obtain ⟨o1, o2, o3⟩ := T.col_acc (S.child (!d)) (T.isRed_notNil c3) d
  have m1 := o1.mp n1.2.2; have e1 := o2.mp b1.2.1; have e2 := o3 b1.2.1
  rw [c1] at b2; rw [c3] at e2
  simp only [Bool.false_eq_true, if_false, if_true] at b2 e2
  refine ⟨n1.2.1, ⟨fun _ => ⟨c2, (m1.1 c3).1⟩, m1.2.1, ⟨(fun e => by cases e), m1.2.2, cnrr_congr cn c1⟩⟩, b1.1,
    ⟨e1.1, ?_, ⟨e1.2.1, ?_, ?_⟩⟩, Or.inl rfl⟩
  · show ((S.child (!d)).child d).bhL = (S.child d).bhL; omega
  · show ((S.child (!d)).child (!d)).bhL = (S.child d).bhL + (if true = true then 0 else 1)
    simp only [if_true]; omega
  · simp only [if_true, Bool.false_eq_true, if_false]
    exact cbal_congr cb (by omega)

theorem cnrr_of_true {up : List Frame} (h : cnrr up true) (r : Bool) : cnrr up r := by
  cases up with
  | nil => trivial
  | cons G up' => exact ⟨(fun e => by have := (h.1 e).1; cases this), h.2⟩

/-- what the invariant says about a (non-nil) sibling when the node below the hole is black -/
theorem sib_facts {P : Frame} {up : List Frame} {S : T} (h : CInv (P :: up) S) (c1 : S.isRed = false) :
    P.sib.isRed = false ∧ P.sib.noRedRed ∧ P.sib.bal ∧ P.sib.bhL = S.bhL ∧ (∀ r, cnrr up r) ∧ cbal up S.bhL := by
  obtain ⟨nrrS, cn, balS, cb, j⟩ := h
  obtain ⟨cn1, cn2, cn3⟩ := cn
  obtain ⟨cb1, cb2, cb3⟩ := cb
  cases hc : P.c
  · rcases j with j | j | ⟨j1, j2⟩
    · rw [hc] at j; cases j
    · rw [c1] at j; cases j
    · subst j1
      exact ⟨j2, cn2, cb1, cb2, fun _ => trivial, trivial⟩
  · rw [hc] at cn3 cb3
    exact ⟨(cn1 hc).2, cn2, cb1, cb2, cnrr_of_true cn3, cbal_congr cb3 (by simp)⟩

/-- colour flip -/
theorem cinv_flip {P : Frame} {up : List Frame} {S : T} (hS : S.isNil = false) (h : CInv (P :: up) S)
    (d : Bool) (q k : Nat)
    (c1 : S.isRed = false) (c2 : (S.child d).isRed = false) (c3 : (S.child (!d)).isRed = false)
    (hsn : P.sib.isNil = false) (c4 : (P.sib.child (!P.d)).isRed = false) (c5 : (P.sib.child P.d).isRed = false) :
    CInv (⟨q, k, true, d, S.child (!d)⟩ :: ⟨P.i, P.k, false, P.d, P.sib.setRed true⟩ :: up) (S.child d) := by
  obtain ⟨sb, snrr, sbal, sbh, out1, out2⟩ := sib_facts h c1
  obtain ⟨nrrS, cn, balS, cb, j⟩ := h
  obtain ⟨a1, a2, a3⟩ := T.col_acc S hS d
  have n1 := a1.mp nrrS; have b1 := a2.mp balS; have b2 := a3 balS
  obtain ⟨o1, o2, o3⟩ := T.col_acc P.sib hsn P.d
  have m1 := o1.mp snrr; have e1 := o2.mp sbal; have e2 := o3 sbal
  rw [c1] at b2; rw [sb] at e2
  simp only [Bool.false_eq_true, if_false] at b2 e2
  have es := T.setRed_eq_mkT P.sib hsn true P.d
  refine ⟨n1.2.1, ⟨fun _ => ⟨c2, c3⟩, n1.2.2, ⟨(fun e => by cases e), ?_, out1 false⟩⟩, b1.1,
    ⟨b1.2.1, b1.2.2.symm, ⟨?_, ?_, ?_⟩⟩, Or.inl rfl⟩
  · show (P.sib.setRed true).noRedRed
    rw [es, mkT_nrr]; exact ⟨fun _ => ⟨c5, c4⟩, m1.2.1, m1.2.2⟩
  · show (P.sib.setRed true).bal
    rw [es, mkT_bal]; exact e1
  · show (P.sib.setRed true).bhL = (S.child d).bhL + (if true = true then 0 else 1)
    rw [es, mkT_bhL _ _ _ _ _ _ e1.2.2]; simp only [if_true]; omega
  · simp only [if_true, Bool.false_eq_true, if_false]
    exact cbal_congr out2 (by omega)

/-- double rotation at the parent -/
theorem cinv_dbl {P : Frame} {up : List Frame} {S : T} (hS : S.isNil = false) (h : CInv (P :: up) S)
    (d : Bool) (q k xi xk si sk : Nat)
    (c1 : S.isRed = false) (c2 : (S.child d).isRed = false) (c3 : (S.child (!d)).isRed = false)
    (hsn : P.sib.isNil = false) (c5 : (P.sib.child P.d).isRed = true) :
    CInv (⟨q, k, true, d, S.child (!d)⟩ :: ⟨P.i, P.k, false, P.d, (P.sib.child P.d).child P.d⟩ ::
        ⟨xi, xk, true, P.d, mkT si sk false P.d ((P.sib.child P.d).child (!P.d)) (P.sib.child (!P.d))⟩ :: up)
      (S.child d) := by
  obtain ⟨sb, snrr, sbal, sbh, out1, out2⟩ := sib_facts h c1
  obtain ⟨nrrS, cn, balS, cb, j⟩ := h
  obtain ⟨a1, a2, a3⟩ := T.col_acc S hS d
  have n1 := a1.mp nrrS; have b1 := a2.mp balS; have b2 := a3 balS
  obtain ⟨o1, o2, o3⟩ := T.col_acc P.sib hsn P.d
  have m1 := o1.mp snrr; have e1 := o2.mp sbal; have e2 := o3 sbal
  obtain ⟨x1, x2, x3⟩ := T.col_acc (P.sib.child P.d) (T.isRed_notNil c5) P.d
  have mx := x1.mp m1.2.1; have ex := x2.mp e1.1; have ex2 := x3 e1.1
  rw [c1] at b2; rw [sb] at e2; rw [c5] at ex2
  simp only [Bool.false_eq_true, if_false, if_true] at b2 e2 ex2
  refine ⟨n1.2.1, ⟨fun _ => ⟨c2, c3⟩, n1.2.2, ⟨(fun e => by cases e), mx.2.1,
      ⟨fun _ => ⟨rfl, mkT_isRed _ _ _ _ _ _⟩, ?_, out1 true⟩⟩⟩, b1.1,
    ⟨b1.2.1, b1.2.2.symm, ⟨ex.1, ?_, ⟨?_, ?_, ?_⟩⟩⟩, Or.inl rfl⟩
  · show (mkT si sk false P.d ((P.sib.child P.d).child (!P.d)) (P.sib.child (!P.d))).noRedRed
    rw [mkT_nrr]; exact ⟨(fun e => by cases e), mx.2.2, m1.2.2⟩
  · show ((P.sib.child P.d).child P.d).bhL = (S.child d).bhL + (if true = true then 0 else 1)
    simp only [if_true]; omega
  · show (mkT si sk false P.d ((P.sib.child P.d).child (!P.d)) (P.sib.child (!P.d))).bal
    rw [mkT_bal]; exact ⟨ex.2.1, e1.2.1, by omega⟩
  · show (mkT si sk false P.d ((P.sib.child P.d).child (!P.d)) (P.sib.child (!P.d))).bhL = _
    rw [mkT_bhL _ _ _ _ _ _ (by omega)]
    simp only [if_true, Bool.false_eq_true, if_false]; omega
  · simp only [if_true, Bool.false_eq_true, if_false]
    exact cbal_congr out2 (by omega)

/-- single rotation at the parent -/
theorem cinv_sgl {P : Frame} {up : List Frame} {S : T} (hS : S.isNil = false) (h : CInv (P :: up) S)
    (d : Bool) (q k si sk : Nat)
    (c1 : S.isRed = false) (c2 : (S.child d).isRed = false) (c3 : (S.child (!d)).isRed = false)
    (hsn : P.sib.isNil = false) (c5 : (P.sib.child P.d).isRed = false) (c4 : (P.sib.child (!P.d)).isRed = true) :
    CInv (⟨q, k, true, d, S.child (!d)⟩ :: ⟨P.i, P.k, false, P.d, P.sib.child P.d⟩ ::
        ⟨si, sk, true, P.d, (P.sib.child (!P.d)).setRed false⟩ :: up)
      (S.child d) := by
  obtain ⟨sb, snrr, sbal, sbh, out1, out2⟩ := sib_facts h c1
  obtain ⟨nrrS, cn, balS, cb, j⟩ := h
  obtain ⟨a1, a2, a3⟩ := T.col_acc S hS d
  have n1 := a1.mp nrrS; have b1 := a2.mp balS; have b2 := a3 balS
  obtain ⟨o1, o2, o3⟩ := T.col_acc P.sib hsn P.d
  have m1 := o1.mp snrr; have e1 := o2.mp sbal; have e2 := o3 sbal
  have hyn := T.isRed_notNil c4
  obtain ⟨y1, y2, y3⟩ := T.col_acc (P.sib.child (!P.d)) hyn P.d
  have my := y1.mp m1.2.2; have ey := y2.mp e1.2.1; have ey2 := y3 e1.2.1
  rw [c1] at b2; rw [sb] at e2; rw [c4] at ey2
  simp only [Bool.false_eq_true, if_false, if_true] at b2 e2 ey2
  have es := T.setRed_eq_mkT (P.sib.child (!P.d)) hyn false P.d
  refine ⟨n1.2.1, ⟨fun _ => ⟨c2, c3⟩, n1.2.2, ⟨(fun e => by cases e), m1.2.1,
      ⟨fun _ => ⟨rfl, ?_⟩, ?_, out1 true⟩⟩⟩, b1.1,
    ⟨b1.2.1, b1.2.2.symm, ⟨e1.1, ?_, ⟨?_, ?_, ?_⟩⟩⟩, Or.inl rfl⟩
  · show ((P.sib.child (!P.d)).setRed false).isRed = false
    rw [es]; exact mkT_isRed _ _ _ _ _ _
  · show ((P.sib.child (!P.d)).setRed false).noRedRed
    rw [es, mkT_nrr]; exact ⟨(fun e => by cases e), my.2.1, my.2.2⟩
  · show (P.sib.child P.d).bhL = (S.child d).bhL + (if true = true then 0 else 1)
    simp only [if_true]; omega
  · show ((P.sib.child (!P.d)).setRed false).bal
    rw [es, mkT_bal]; exact ey
  · show ((P.sib.child (!P.d)).setRed false).bhL = _
    rw [es, mkT_bhL _ _ _ _ _ _ ey.2.2]
    simp only [if_true, Bool.false_eq_true, if_false]; omega
  · simp only [if_true, Bool.false_eq_true, if_false]
    exact cbal_congr out2 (by omega)

end AsmjitVerif.Tree.Rem
