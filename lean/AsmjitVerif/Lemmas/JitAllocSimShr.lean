/- C09 refinement (model run ⊑ monitor): effect of shrink on the simulation relation. -/
import AsmjitVerif.Lemmas.JitAllocSimOps5
namespace AsmjitVerif.JitAlloc
open Spec

theorem setTab_same (tab : List GH) (h : Nat) (x : GH) (hx : tab[h]? = some x) : setTab tab h (fun y => { y with size := x.size }) = tab := by
  apply List.ext_getElem?
  intro i
  rw [getElem?_setTab]
  cases hi : tab[i]? with
  | none => rfl
  | some y =>
    simp only [Option.map_some]
    by_cases c : i = h
    · subst c; rw [hx] at hi; cases hi; simp
    · simp [c]

/-- outcomes of `JitAllocatorImpl_shrink` on a live handle, in ghost terms -/
theorem sim_shrink {g : Ghost} {s : St} (hS : Sim g s) (hI : Inv s) (hM : AMem s.a) {j : Nat} {x : GH} (hx : g.tab[j]? = some x)
    (hl : x.live = true) (newSize : Nat) (hns : newSize ≠ 0) :
    x.size % s.a.cfg.gran = 0 ∧
    (newSize > x.size → ∃ e, s.a.shrinkImpl x.blk x.off newSize = (s.a, .error e)) ∧
    (newSize ≤ x.size →
      ((s.a.shrinkImpl x.blk x.off newSize).2 = .ok none ∧
        Sim g { a := (s.a.shrinkImpl x.blk x.off newSize).1, tab := s.tab }) ∨
      (∃ sz, (s.a.shrinkImpl x.blk x.off newSize).2 = .ok (some sz) ∧ newSize ≤ sz ∧ sz ≤ x.size ∧ sz % s.a.cfg.gran = 0 ∧
        Sim { g with tab := setTab g.tab j fun y => { y with size := sz } }
          { a := (s.a.shrinkImpl x.blk x.off newSize).1, tab := setHandleSize s.tab j sz })) := by
  have hm : s.tab[j]? = some (toH x) := by rw [hS.getH, hx]; rfl
  have hlm : (toH x).live = true := hl
  obtain ⟨b, hb, e, st0, n0, o1, o2⟩ := hI.owned j (toH x) hm hlm
  have hg := poolGran_pos hI.wf b.pool
  have hSp : TT s b.id b.pool st0 n0 := ⟨j, toH x, hm, hlm, e.symm, o1, o2⟩
  have e' : b.id = x.blk := e
  have o1' : x.off = st0 * s.a.cfg.poolGran b.pool := o1
  have o2' : x.size = n0 * s.a.cfg.poolGran b.pool := o2
  have spec := shrink_spec hI.toAInv hb hSp newSize (Nat.pos_of_ne_zero hns) _ _ rfl rfl
  have hst := shrink_struct hI.toAInv hb hSp newSize
  rw [e', ← o1'] at spec hst
  obtain ⟨hmp, c1, c2, c3⟩ := spec
  generalize hmm : (newSize + s.a.cfg.poolGran b.pool - 1) / s.a.cfg.poolGran b.pool = m at hmp c1 c2 c3 hst
  have hceil : newSize ≤ m * s.a.cfg.poolGran b.pool := by
    have := alignUp_ge newSize (s.a.cfg.poolGran b.pool) hg
    unfold alignUp at this; rw [hmm] at this; exact this
  have hgmul : ∀ k, (k * s.a.cfg.poolGran b.pool) % s.a.cfg.gran = 0 := by
    intro k; unfold Config.poolGran; rw [← Nat.mul_assoc, Nat.mul_right_comm]; exact Nat.mul_mod_left _ _
  refine ⟨by rw [o2']; exact hgmul n0, ?_, ?_⟩
  · intro hgt
    have : n0 < m := by
      by_cases c : n0 < m
      · exact c
      · exfalso
        have : m * s.a.cfg.poolGran b.pool ≤ n0 * s.a.cfg.poolGran b.pool := Nat.mul_le_mul_right _ (by omega)
        -- newSize ≤ m*g would need newSize ≤ n0*g: but the ceiling is the least such multiple
        have hlt : (m - 1) * s.a.cfg.poolGran b.pool < newSize := by
          have h1 := Nat.div_add_mod (newSize + s.a.cfg.poolGran b.pool - 1) (s.a.cfg.poolGran b.pool)
          have h2 := Nat.mod_lt (newSize + s.a.cfg.poolGran b.pool - 1) hg
          rw [hmm, Nat.mul_comm] at h1
          rw [Nat.sub_mul]; omega
        omega
    exact ⟨_, c1 this⟩
  · intro hle
    have hmle : m ≤ n0 := by
      apply Nat.le_of_lt_succ
      rw [← hmm]
      apply Nat.div_lt_of_lt_mul
      rw [Nat.mul_succ, Nat.mul_comm, ← o2']
      omega
    rcases hst with ⟨hgt, _⟩ | ⟨b', f1, f2, f3, f4, f5, f6, _, hs⟩
    · omega
    · have htoGB : (s.a.shrinkImpl x.blk x.off newSize).1.blocks.map toGB = s.a.blocks.map toGB := by
        rw [hs, ← e', modify_toGB hI.ids hb (f1.trans e'.symm) f2 f3]
      rcases Nat.lt_or_eq_of_le hmle with hlt | heq
      · right
        obtain ⟨r2, _⟩ := c3 hlt
        refine ⟨_, r2, hceil, by rw [o2']; exact Nat.mul_le_mul_right _ hmle, hgmul m, ?_⟩
        have t := Trans.shrinkSome (s := s) j (toH x) newSize _ hm hlm hns r2
        refine sim_update hS hI hM t rfl (by rw [setTab_map_size, hS.tab]) (by rw [htoGB]; exact hS.blocks) ?_
        intro i y hy hly
        simp only [getElem?_setTab] at hy
        cases hgi : g.tab[i]? with
        | none => rw [hgi] at hy; simp at hy
        | some z =>
          rw [hgi] at hy
          simp only [Option.map_some, Option.some.injEq] at hy
          refine ⟨z, rfl, ?_, ?_, Or.inl ⟨by intro byte hh; simp at hh, ?_⟩⟩ <;> (split at hy <;> (subst hy; first | rfl | exact hly))
      · left
        obtain ⟨r2, _⟩ := c2 heq
        refine ⟨r2, ?_⟩
        have t := Trans.shrinkNone (s := s) j (toH x) newSize hm hlm hns r2
        exact sim_update hS hI hM t rfl hS.tab (by rw [htoGB]; exact hS.blocks)
          (fun i y hy hly => ⟨y, hy, hly, rfl, Or.inl ⟨by intro byte hh; simp at hh, rfl⟩⟩)

end AsmjitVerif.JitAlloc
