/- `relocate_to_base` (address-table logic): it never increases `code_size()`. -/
import AsmjitVerif.Lemmas.SectionsRun
import AsmjitVerif.Lemmas.SectionsSize
namespace AsmjitVerif.Sections

/-- relocation patches bytes in place: everything `code_size` looks at is unchanged -/
def SameSizes (a b : Section) : Prop :=
  b.id = a.id ∧ b.order = a.order ∧ b.align = a.align ∧ b.realSize = a.realSize ∧ b.offset = a.offset ∧ b.vsize = a.vsize

theorem patch_length (data : List Byte) (off : Nat) (bytes : List Byte) : (patch data off bytes).length = data.length := by
  unfold patch
  cases h : writeAt data off bytes with
  | none => rfl
  | some d => exact writeAt_length h

theorem SameSizes.refl_all (l : List Section) : AllRel SameSizes l l := by
  have := AllRel.map_right (R := SameSizes) id l (fun a => ⟨rfl, rfl, rfl, rfl, rfl, rfl⟩)
  simpa using this

theorem SameSizes.trans_all {l₁ l₂ l₃ : List Section} (h₁ : AllRel SameSizes l₁ l₂) (h₂ : AllRel SameSizes l₂ l₃) :
    AllRel SameSizes l₁ l₃ := by
  induction h₁ generalizing l₃ with
  | nil => cases h₂; exact AllRel.nil
  | cons hr _ ih =>
    cases h₂ with
    | cons hr' hrest' =>
      exact AllRel.cons ⟨hr'.1.trans hr.1, hr'.2.1.trans hr.2.1, hr'.2.2.1.trans hr.2.2.1, hr'.2.2.2.1.trans hr.2.2.2.1, hr'.2.2.2.2.1.trans hr.2.2.2.2.1, hr'.2.2.2.2.2.trans hr.2.2.2.2.2⟩ (ih hrest')

theorem modifySec_sizes (secs : List Section) (id : Nat) (f : Section → Section) (hf : ∀ s, SameSizes s (f s)) :
    AllRel SameSizes secs (modifySec secs id f) := by
  unfold modifySec
  apply AllRel.map_right
  intro a
  split
  · exact hf a
  · exact ⟨rfl, rfl, rfl, rfl, rfl, rfl⟩

theorem sameSizes_patch (s : Section) (d : List Byte) (hd : d.length = s.data.length) : SameSizes s { s with data := d } := by
  refine ⟨rfl, rfl, rfl, ?_, rfl, rfl⟩
  unfold Section.realSize Section.bufSize
  simp [hd]

/-- number of address-table entries that have no slot yet -/
def countNone : List AddrEntry → Nat
  | [] => 0
  | e :: rest => (if e.slot.isNone then 1 else 0) + countNone rest

theorem countNone_le (es : List AddrEntry) : countNone es ≤ es.length := by
  induction es with
  | nil => simp [countNone]
  | cons e rest ih => unfold countNone; simp only [List.length_cons]; split <;> omega

theorem assignSlot_cons (e : AddrEntry) (rest : List AddrEntry) (addr c : Nat) :
    assignSlot (e :: rest) addr c = (if e.addr == addr then { e with slot := some c } else e) :: assignSlot rest addr c := rfl

theorem countNone_assignSlot_le (es : List AddrEntry) (addr c : Nat) : countNone (assignSlot es addr c) ≤ countNone es := by
  induction es with
  | nil => simp [assignSlot, countNone]
  | cons e rest ih =>
    rw [assignSlot_cons]
    unfold countNone
    by_cases ha : (e.addr == addr) = true
    · rw [if_pos ha]
      have : ({ e with slot := some c } : AddrEntry).slot.isNone = false := rfl
      rw [this]
      by_cases hs : e.slot.isNone = true <;> simp only [hs, Bool.false_eq_true, if_true, if_false] <;> omega
    · rw [if_neg ha]
      by_cases hs : e.slot.isNone = true <;> simp only [hs, Bool.false_eq_true, if_true, if_false] <;> omega

theorem countNone_assignSlot_lt (es : List AddrEntry) (addr c : Nat) (ent : AddrEntry)
    (hf : es.find? (fun e => e.addr == addr) = some ent) (hn : ent.slot.isNone = true) :
    countNone (assignSlot es addr c) + 1 ≤ countNone es := by
  induction es with
  | nil => simp at hf
  | cons e rest ih =>
    rw [List.find?_cons] at hf
    rw [assignSlot_cons]
    unfold countNone
    by_cases ha : (e.addr == addr) = true
    · rw [if_pos ha]
      simp only [ha] at hf
      have hrest := countNone_assignSlot_le rest addr c
      have : ({ e with slot := some c } : AddrEntry).slot.isNone = false := rfl
      rw [this]
      have he : e = ent := by simpa using hf
      rw [he, hn]
      simp only [Bool.false_eq_true, if_true, if_false]; omega
    · rw [if_neg ha]
      have hf' : rest.find? (fun e => e.addr == addr) = some ent := by
        simpa [ha] using hf
      have := ih hf'
      by_cases hs : e.slot.isNone = true <;> simp only [hs, Bool.false_eq_true, if_true, if_false] <;> omega

/-- one relocation: sizes kept; the slot counter only grows by using up an entry that had no slot -/
theorem relocOne_spec (base atOffset : Nat) (st : RelocState) (re : Reloc) :
    AllRel SameSizes st.secs (relocOne base atOffset st re).1.secs ∧
    (relocOne base atOffset st re).1.count + countNone (relocOne base atOffset st re).1.entries ≤ st.count + countNone st.entries := by
  unfold relocOne
  split
  · exact ⟨SameSizes.refl_all _, Nat.le_refl _⟩
  · dsimp only
    split
    · exact ⟨SameSizes.refl_all _, Nat.le_refl _⟩
    · split
      · exact ⟨modifySec_sizes _ _ _ (fun s => sameSizes_patch s _ (patch_length _ _ _)), Nat.le_refl _⟩
      · split
        · exact ⟨SameSizes.refl_all _, Nat.le_refl _⟩
        · rename_i ent hfind
          have hst1s : (if ent.slot.isNone then { st with entries := assignSlot st.entries re.payload st.count, count := st.count + 1 } else st : RelocState).secs = st.secs := by
            split <;> rfl
          have hst1c : (if ent.slot.isNone then { st with entries := assignSlot st.entries re.payload st.count, count := st.count + 1 } else st : RelocState).count
              + countNone (if ent.slot.isNone then { st with entries := assignSlot st.entries re.payload st.count, count := st.count + 1 } else st : RelocState).entries
              ≤ st.count + countNone st.entries := by
            split
            · rename_i hn
              have := countNone_assignSlot_lt st.entries re.payload st.count ent hfind hn
              show st.count + 1 + countNone (assignSlot st.entries re.payload st.count) ≤ _
              omega
            · exact Nat.le_refl _
          split
          · rw [hst1s]; exact ⟨SameSizes.refl_all _, hst1c⟩
          · split
            · rw [hst1s]; exact ⟨SameSizes.refl_all _, hst1c⟩
            · dsimp only
              rw [hst1s]
              exact ⟨modifySec_sizes _ _ _ (fun s => sameSizes_patch s _ (by rw [patch_length, patch_length])), hst1c⟩

theorem relocLoop_spec (base atOffset : Nat) (st : RelocState) (res : List Reloc) :
    AllRel SameSizes st.secs (relocLoop base atOffset st res).1.secs ∧
    (relocLoop base atOffset st res).1.count + countNone (relocLoop base atOffset st res).1.entries ≤ st.count + countNone st.entries := by
  induction res generalizing st with
  | nil => exact ⟨SameSizes.refl_all _, Nat.le_refl _⟩
  | cons re rest ih =>
    unfold relocLoop
    have h1 := relocOne_spec base atOffset st re
    split
    · rename_i st' heq
      rw [heq] at h1
      dsimp only at h1
      have h2 := ih st'
      exact ⟨SameSizes.trans_all h1.1 h2.1, by omega⟩
    · rename_i st' e heq
      rw [heq] at h1
      exact h1

/-! ### monotonicity of the ideal size -/

theorem roundUp_mono (x y a : Nat) (h : x ≤ y) : roundUp x a ≤ roundUp y a := by
  unfold roundUp
  split
  · exact h
  · exact Nat.mul_le_mul_right _ (Nat.div_le_div_right (by omega))

/-- same alignments, no real size larger: the ideal size does not grow -/
def Shrinks (a b : Section) : Prop := b.align = a.align ∧ b.realSize ≤ a.realSize ∧ b.offset = a.offset

theorem idealEnd_mono {l l' : List Section} (h : AllRel Shrinks l l') (x y : Nat) (hxy : y ≤ x) : idealEnd y l' ≤ idealEnd x l := by
  induction h generalizing x y with
  | nil => simpa [idealEnd] using hxy
  | @cons a b l₁ l₂ hr _ ih =>
    unfold idealEnd
    by_cases hb : b.realSize ≠ 0
    · have ha : a.realSize ≠ 0 := by have := hr.2.1; omega
      rw [if_pos hb, if_pos ha]
      apply ih
      have := roundUp_mono y x a.align hxy
      rw [hr.1]; have := hr.2.1; omega
    · rw [if_neg hb]
      by_cases ha : a.realSize ≠ 0
      · rw [if_pos ha]
        apply ih
        have := roundUp_ge x a.align; omega
      · rw [if_neg ha]; exact ih x y hxy

theorem codeSizeSpec_mono {l l' : List Section} (h : idealEnd 0 l' ≤ idealEnd 0 l) : codeSizeSpec l' ≤ codeSizeSpec l := by
  unfold codeSizeSpec
  split <;> split <;> simp only [sizeMax, U64] at * <;> omega

end AsmjitVerif.Sections

namespace AsmjitVerif.Sections

theorem AllRel.map_right_mem {α : Type} {R : α → α → Prop} (g : α → α) (l : List α) (h : ∀ a ∈ l, R a (g a)) : AllRel R l (l.map g) := by
  induction l with
  | nil => exact AllRel.nil
  | cons a rest ih => exact AllRel.cons (h a (by simp)) (ih (fun b hb => h b (by simp [hb])))

theorem codeSizeOf_le_of {l l' : List Section} (hi : InvS l) (hi' : InvS l') (h : idealEnd 0 l' ≤ idealEnd 0 l) :
    codeSizeOf l' ≤ codeSizeOf l := by
  rw [codeSizeOf_eq_spec _ hi.pre, codeSizeOf_eq_spec _ hi'.pre]
  exact codeSizeSpec_mono h

theorem sameSizes_keys {l l' : List Section} (h : AllRel SameSizes l l') : AllRel SameKeys l l' :=
  h.imp (fun _ _ hab => ⟨hab.1, hab.2.1, hab.2.2.1⟩)

theorem sameSizes_shrinks {l l' : List Section} (h : AllRel SameSizes l l') : AllRel Shrinks l l' :=
  h.imp (fun _ _ hab => ⟨hab.2.2.1, Nat.le_of_eq hab.2.2.2.1, hab.2.2.2.2.1⟩)

theorem Shrinks.trans_all {l₁ l₂ l₃ : List Section} (h₁ : AllRel Shrinks l₁ l₂) (h₂ : AllRel Shrinks l₂ l₃) : AllRel Shrinks l₁ l₃ := by
  induction h₁ generalizing l₃ with
  | nil => cases h₂; exact AllRel.nil
  | cons hr _ ih =>
    cases h₂ with
    | cons hr' hrest' =>
      exact AllRel.cons ⟨hr'.1.trans hr.1, Nat.le_trans hr'.2.1 hr.2.1, hr'.2.2.trans hr.2.2⟩ (ih hrest')

/-- the state in which `relocate_to_base` is meant to be called the first time: no entry has a slot yet and the address
    table section reserves at least one slot (8 bytes) per entry -/
def AddrTabOK (h : Holder) : Prop :=
  (∀ e ∈ h.entries, e.slot = none) ∧
  (∀ id, h.addrTab = some id → ∀ s ∈ h.secs, s.id = id → 8 * h.entries.length ≤ s.realSize)

/-- `relocate_to_base` keeps every offset and alignment and enlarges no section -/
theorem relocate_shrinks (h : Holder) (hat : AddrTabOK h) (base : Nat) : AllRel Shrinks h.secs (relocate h base).1.secs := by
  unfold relocate
  split
  · exact sameSizes_shrinks (SameSizes.refl_all _)
  · have hk := relocLoop_spec base (((h.addrTab.bind (findSec h.secs)).map (·.offset)).getD 0)
      { secs := h.secs, entries := h.entries, count := 0, table := zeros (((h.addrTab.bind (findSec h.secs)).map (·.vsize)).getD 0) } h.relocs
    dsimp only at hk ⊢
    split
    · rename_i st e heq
      rw [heq] at hk
      dsimp only at hk
      exact sameSizes_shrinks hk.1
    · rename_i st heq
      rw [heq] at hk
      dsimp only at hk
      split
      · exact sameSizes_shrinks hk.1
      · rename_i id hid
        have hcount : st.count ≤ h.entries.length := by
          have := countNone_le h.entries; omega
        have hlen : ((st.table ++ zeros (st.count * 8)).take (st.count * 8)).length = st.count * 8 := by
          rw [List.length_take, List.length_append, zeros_length]; omega
        have hres : ∀ s ∈ st.secs, (s.id == id) = true → st.count * 8 ≤ s.realSize := by
          intro s hs hsid
          obtain ⟨a, ha, hab⟩ := hk.1.mem_right s hs
          have hreal := hat.2 id hid a ha (by rw [← hab.1]; simpa using hsid)
          rw [← hab.2.2.2.1] at hreal
          omega
        split
        · have hshr : AllRel Shrinks st.secs (modifySec st.secs id fun s =>
              { s with data := (st.table ++ zeros (st.count * 8)).take (st.count * 8), vsize := st.count * 8 }) := by
            unfold modifySec
            apply AllRel.map_right_mem
            intro s hs
            split
            · rename_i hsid
              refine ⟨rfl, ?_, rfl⟩
              have := hres s hs hsid
              show max (st.count * 8) ((st.table ++ zeros (st.count * 8)).take (st.count * 8)).length ≤ s.realSize
              rw [hlen]; omega
            · exact ⟨rfl, Nat.le_refl _, rfl⟩
          exact Shrinks.trans_all (sameSizes_shrinks hk.1) hshr
        · have hshr : AllRel Shrinks st.secs (modifySec st.secs id fun s =>
              { s with data := (st.table ++ zeros (st.count * 8)).take (st.count * 8) }) := by
            unfold modifySec
            apply AllRel.map_right_mem
            intro s hs
            split
            · rename_i hsid
              refine ⟨rfl, ?_, rfl⟩
              have := hres s hs hsid
              have hv : s.vsize ≤ s.realSize := by unfold Section.realSize; omega
              show max s.vsize ((st.table ++ zeros (st.count * 8)).take (st.count * 8)).length ≤ s.realSize
              rw [hlen]; omega
            · exact ⟨rfl, Nat.le_refl _, rfl⟩
          exact Shrinks.trans_all (sameSizes_shrinks hk.1) hshr

/-- `relocate_to_base` never increases `code_size()` -/
theorem relocate_code_size_le (h : Holder) (hinv : InvS h.secs) (hat : AddrTabOK h) (base : Nat) :
    codeSize (relocate h base).1 ≤ codeSize h := by
  unfold codeSize
  exact codeSizeOf_le_of hinv (InvS.transfer (relocate_keys h base) hinv) (idealEnd_mono (relocate_shrinks h hat base) 0 0 (Nat.le_refl _))

/-- relocation keeps the layout: no overlap appears and no section end moves up -/
theorem noOverlap_of_shrinks {l l' : List Section} (h : AllRel Shrinks l l') (hno : NoOverlap l) : NoOverlap l' := by
  unfold NoOverlap at *
  refine h.pairwise hno ?_
  intro a a' b b' ha hb hab hne
  have := hab (by have := hb.2.1; omega)
  rw [ha.2.2, hb.2.2]; have := ha.2.1; omega

end AsmjitVerif.Sections
