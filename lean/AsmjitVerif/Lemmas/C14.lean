/-
Helper lemmas for Props/C14.lean (per-operation facts about Model/Emitter.lean).
-/
import AsmjitVerif.Model.Emitter

namespace AsmjitVerif.Emitter
open AsmjitVerif.Gen

/-- state with the one-shot state cleared: what "untouched" compares (a failed call must clear the one-shot state) -/
def St.frame (s : St) : St := { s with one := OneShot.empty }

/-- a result that either succeeded or left the framed state alone and reported -/
def Res.atomicOn (r : Res) (s : St) : Prop := r.code = Err.ok ∨ (r.st.frame = s.frame ∧ r.reported = true)

theorem report_atomic (s s0 : St) (e : Nat) (h : s.frame = s0.frame) : (report s e).atomicOn s0 :=
  Or.inr ⟨h, rfl⟩

theorem done_atomic (s s0 : St) : (done s).atomicOn s0 := Or.inl rfl

theorem newLabel_atomic (s : St) : (newLabel s).atomicOn s := Or.inl rfl

theorem newNamedLabel_atomic (s : St) (n : List (BitVec 8)) (t p : Nat) : (newNamedLabel s n t p).atomicOn s := by
  simp only [newNamedLabel]
  repeat' split
  all_goals first | exact done_atomic _ _ | exact report_atomic _ _ _ rfl

theorem align_atomic (s : St) (m a : Nat) : (align s m a).atomicOn s := by
  simp only [align]
  repeat' split
  all_goals first | exact done_atomic _ _ | exact report_atomic _ _ _ rfl

theorem embedArray_atomic (s : St) (t : Nat) (d : Offset.Bytes) (c r : Nat) : (embedArray s t d c r).atomicOn s := by
  simp only [embedArray]
  repeat' split
  all_goals first | exact done_atomic _ _ | exact report_atomic _ _ _ rfl

theorem embedLabel_atomic (s : St) (id sz : Nat) : (embedLabel s id sz).atomicOn s := by
  simp only [embedLabel]
  repeat' split
  all_goals first | exact done_atomic _ _ | exact report_atomic _ _ _ rfl

theorem embedLabelDelta_atomic (s : St) (id b sz : Nat) : (embedLabelDelta s id b sz).atomicOn s := by
  simp only [embedLabelDelta]
  repeat' split
  all_goals first | exact done_atomic _ _ | exact report_atomic _ _ _ rfl

theorem switchSection_atomic (s : St) (i : Option Nat) : (switchSection s i).atomicOn s := by
  simp only [switchSection]
  repeat' split
  all_goals first | exact done_atomic _ _ | exact report_atomic _ _ _ rfl

theorem emit_atomic (s : St) (pre : OneShot) (refs : List Nat) (o : EncOutcome) : (emit s pre refs o).atomicOn s := by
  simp only [emit, emitFailed]
  repeat' split
  all_goals first | exact done_atomic _ _ | exact report_atomic _ _ _ rfl

/-- `bind` (with the validation pass of fix C14-13): atomic, whatever error it reports -/
theorem bind_atomic (s : St) (id : Nat) : (bind s id).atomicOn s := by
  simp only [bind]
  repeat' split
  all_goals first
    | exact done_atomic _ _
    | exact report_atomic _ _ _ rfl

/-- `align` never touches the label table -/
theorem align_labels (s : St) (m a : Nat) : (align s m a).st.labels = s.labels := by
  simp only [align]
  repeat' split
  all_goals simp [done, report, appendBytes]

/-- binding an existing, unbound label can only fail with `kInvalidDisplacement` -/
theorem bind_code_of_unbound (s : St) (id : Nat) (le : LabelEntry) (h1 : s.labels[id]? = some le) (h2 : le.bound = none) :
    (bind s id).code = Err.ok ∨ (bind s id).code = Err.invalidDisplacement := by
  simp only [bind, h1, h2]
  repeat' split
  all_goals simp_all [done, report]

/-- `embed_const_pool` (with fix C14-12): atomic unless the `bind` inside it leaves through `kInvalidDisplacement` -/
theorem embedConstPool_atomic (s : St) (id a : Nat) (d : Offset.Bytes)
    (h : (embedConstPool s id a d).code ≠ Err.invalidDisplacement) : (embedConstPool s id a d).atomicOn s := by
  unfold embedConstPool at h ⊢
  split
  · exact report_atomic _ _ _ rfl
  · rename_i le hle
    split
    · exact report_atomic _ _ _ rfl
    · rename_i hb
      have hb' : le.bound = none := by cases hx : le.bound <;> simp_all
      simp only [] at h ⊢
      split
      · rename_i hc
        exact (align_atomic s 1 a).elim (fun h0 => absurd h0 hc) (fun h0 => Or.inr h0)
      · split
        · rename_i hc2
          exfalso
          have hl : (align s 1 a).st.labels[id]? = some le := by rw [align_labels]; exact hle
          rcases bind_code_of_unbound _ id le hl hb' with h3 | h3
          · exact hc2 h3
          · simp_all
        · exact done_atomic _ _

/-- `new_section` fails without touching anything (and without the handler: it is a CodeHolder call) -/
theorem newSection_code (s : St) (n a : Nat) : (newSection s n a).code = Err.ok ∨ (newSection s n a).st = s := by
  simp only [newSection]
  repeat' split
  all_goals first | exact Or.inl rfl | exact Or.inr rfl

/-- one-shot state after each operation, given it was empty before -/
theorem step_one_empty (s : St) (op : Op) (h : s.one = OneShot.empty) : (step s op).st.one = OneShot.empty := by
  cases op <;> simp only [step]
  case newLabel => simpa [newLabel, done] using h
  case newNamedLabel n t p =>
    simp only [newNamedLabel]
    repeat' split
    all_goals simpa [done, report] using h
  case bind id =>
    simp only [bind]
    repeat' split
    all_goals simp_all [done, report, OneShot.empty]
  case align m a =>
    simp only [align]
    repeat' split
    all_goals simpa [done, report, appendBytes] using h
  case embed bs => simpa [embed, done, appendBytes] using h
  case embedArray t d c r =>
    simp only [embedArray]
    repeat' split
    all_goals simpa [done, report, appendBytes] using h
  case embedLabel id sz =>
    simp only [embedLabel]
    repeat' split
    all_goals simpa [done, report, appendBytes] using h
  case embedLabelDelta id b sz =>
    simp only [embedLabelDelta]
    repeat' split
    all_goals simpa [done, report, appendBytes] using h
  case embedConstPool id a d =>
    have ha : (align s 1 a).st.one = OneShot.empty := by
      simp only [align]
      repeat' split
      all_goals simpa [done, report, appendBytes] using h
    have hb : ∀ t : St, t.one = OneShot.empty → (bind t id).st.one = OneShot.empty := by
      intro t ht
      simp only [bind]
      repeat' split
      all_goals simp_all [done, report, OneShot.empty]
    simp only [embedConstPool]
    repeat' split
    all_goals first
      | (simpa [done, report] using h)
      | exact ha
      | exact hb _ ha
      | (simp only [done, appendBytes]; exact hb _ ha)
  case newSection n a =>
    simp only [newSection]
    repeat' split
    all_goals simpa [done, plain] using h
  case «section» i =>
    simp only [switchSection]
    repeat' split
    all_goals simpa [done, report] using h
  case emit pre refs o =>
    simp only [emit, emitFailed]
    repeat' split
    all_goals simp [done, report, appendBytes]

theorem frame_eq_of_one_empty {s t : St} (hs : s.one = OneShot.empty) (ht : t.one = OneShot.empty) (h : t.frame = s.frame) : t = s := by
  cases s; cases t
  simp only [St.frame, St.mk.injEq] at h
  simp_all

end AsmjitVerif.Emitter
