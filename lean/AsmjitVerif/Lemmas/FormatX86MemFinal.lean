/- C20 helper lemmas: the pieces of an x86 address are well-formed for the lexer; the whole reader on the whole text. -/
import AsmjitVerif.Lemmas.FormatX86MemRead

namespace AsmjitVerif.Lemmas.FormatX86Mem
open AsmjitVerif.Format AsmjitVerif.FormatText AsmjitVerif.Lemmas.FormatLex AsmjitVerif.Lemmas.FormatNum
open AsmjitVerif.Gen.FormatTabs

theorem TailOK_append (isD : Char → Bool) : ∀ a b : List Piece, TailOK isD a → TailOK isD b → TailOK isD (a ++ b)
  | [], b, _, hb => by simpa using hb
  | (some d, t) :: r, b, ha, hb => by
    simp only [List.cons_append, TailOK]
    exact ⟨ha.1, ha.2.1, TailOK_append isD r b ha.2.2 hb⟩
  | (none, _) :: _, _, ha, _ => absurd ha (by simp [TailOK])

theorem PiecesOK_of_tail (isD : Char → Bool) : ∀ a : List Piece, TailOK isD a → PiecesOK isD a
  | [], _ => by simp [PiecesOK, TailOK]
  | (some d, t) :: r, h => by simpa [PiecesOK] using h
  | (none, _) :: _, h => absurd h (by simp [TailOK])

theorem PiecesOK_append (isD : Char → Bool) : ∀ a b : List Piece, PiecesOK isD a → a ≠ [] → TailOK isD b → PiecesOK isD (a ++ b)
  | [], _, _, hne, _ => absurd rfl hne
  | (some d, t) :: r, b, ha, _, hb => by
    have : TailOK isD ((some d, t) :: r) := by simpa [PiecesOK] using ha
    exact PiecesOK_of_tail isD _ (TailOK_append isD _ b this hb)
  | (none, t) :: r, b, ha, _, hb => by
    simp only [PiecesOK] at ha
    simp only [List.cons_append, PiecesOK]
    exact ⟨ha.1, ha.2.1, TailOK_append isD r b ha.2.2 hb⟩

/-! ### tokens are delimiter free -/

theorem clean_name {t : Str} (h : NameLike t) : ∀ c ∈ t, isX86MemDelim c = false := by
  intro c hc
  obtain ⟨h1, h2, h3, _⟩ := h.clean c hc
  simp [isX86MemDelim, h1, h2, h3]

theorem digit_clean : ∀ d : Fin 16, isX86MemDelim (digitChar d.val) = false ∧ digitChar d.val ≠ ' ' := by decide

theorem clean_uint (n base : Nat) (hb : base = 10 ∨ base = 16) :
    ∀ c ∈ uintStr n base, isX86MemDelim c = false ∧ c ≠ ' ' := by
  unfold uintStr
  apply digitsLoop_chars base (fun c => isX86MemDelim c = false ∧ c ≠ ' ') (by omega)
  intro d hd
  exact digit_clean ⟨d, by omega⟩

theorem clean_dispTok (flags off : Nat) : ∀ c ∈ dispTokOf flags off, isX86MemDelim c = false ∧ c ≠ ' ' := by
  unfold dispTokOf
  split
  · intro c hc
    simp only [List.cons_append, List.nil_append, List.mem_cons] at hc
    rcases hc with h | h | h
    · subst h; decide
    · subst h; decide
    · exact clean_uint _ 16 (Or.inr rfl) c h
  · exact clean_uint _ 10 (Or.inl rfl)

theorem dispTok_ne (flags off : Nat) : dispTokOf flags off ≠ [] := by
  unfold dispTokOf
  split
  · simp
  · exact digitsLoop_ne_nil 10 63 _

/-! ### the piece list is what the lexer expects -/

theorem tail_index (flags : Nat) (env : Env) (m : X86Mem) (wf : WFX86Mem flags env m) (hb : m.base ≠ MemBase.none) :
    TailOK isX86MemDelim (indexPieces flags env m) := by
  have hi := wf.index
  unfold indexPieces
  cases hidx : m.index with
  | none => simp [TailOK]
  | some p =>
    obtain ⟨t, id⟩ := p
    rw [hidx] at hi
    have hs : x86MemSignAfterBase m = some '+' := by simp [x86MemSignAfterBase, hb]
    have hc := clean_name hi.like
    by_cases h0 : m.shift = 0
    · simp only [h0, ne_eq, not_true_eq_false, if_false, hs, TailOK]
      exact ⟨by decide, hc, trivial⟩
    · simp only [h0, ne_eq, not_false_eq_true, if_true, hs, TailOK]
      refine ⟨by decide, hc, by decide, ?_, trivial⟩
      intro c hcm; exact (clean_uint _ 10 (Or.inl rfl) c hcm).1

theorem tail_disp (flags : Nat) (m : X86Mem) (h : m.base ≠ MemBase.none ∨ m.index.isSome = true) :
    TailOK isX86MemDelim (dispPieces flags m) := by
  unfold dispPieces dispPiecesOf
  split
  · have hsg : dispSignOf m (dispOff m) = some '-' ∨ dispSignOf m (dispOff m) = some '+' := by
      unfold dispSignOf x86MemSignAfterIndex x86MemSignAfterBase
      split
      · exact Or.inl rfl
      · rcases h with h | h
        · split <;> simp [h]
        · simp [h]
    have hc := clean_dispTok flags (dispOff m)
    rcases hsg with e | e <;> rw [e] <;> simp only [TailOK] <;>
      exact ⟨by decide, fun c hcm => (hc c hcm).1, trivial⟩
  · simp [TailOK]

theorem pieces_ok (flags : Nat) (env : Env) (m : X86Mem) (wf : WFX86Mem flags env m) :
    PiecesOK isX86MemDelim (memPieces flags env m) := by
  have hbw := wf.base
  unfold memPieces
  cases hbase : m.base with
  | none =>
    have hbp : basePieces flags env m = [] := by simp [basePieces, hbase]
    rw [hbp, List.nil_append]
    have hi := wf.index
    cases hidx : m.index with
    | none =>
      have hip : indexPieces flags env m = [] := by simp [indexPieces, hidx]
      rw [hip, List.nil_append]
      unfold dispPieces dispPiecesOf
      have hshown : (dispOff m ≠ 0 ∨ (m.base = MemBase.none ∧ m.index = none)) := Or.inr ⟨hbase, hidx⟩
      simp only [hshown, if_true]
      have hc := clean_dispTok flags (dispOff m)
      unfold dispSignOf x86MemSignAfterIndex x86MemSignAfterBase
      by_cases hn : dispOff m ≥ two63
      · simp only [hn, if_true, PiecesOK, TailOK]
        exact ⟨by decide, fun c hcm => (hc c hcm).1, trivial⟩
      · simp only [hn, if_false, hidx, hbase, Option.isSome_none, Bool.false_eq_true, ne_eq, not_true_eq_false, PiecesOK, TailOK]
        exact ⟨dispTok_ne _ _, fun c hcm => (hc c hcm).1, trivial⟩
    | some p =>
      obtain ⟨t, id⟩ := p
      rw [hidx] at hi
      have hs : x86MemSignAfterBase m = none := by simp [x86MemSignAfterBase, hbase]
      have hc := clean_name hi.like
      have htd := tail_disp flags m (Or.inr (by simp [hidx]))
      apply PiecesOK_append
      · unfold indexPieces
        simp only [hidx, hs]
        by_cases h0 : m.shift = 0
        · simp only [h0, ne_eq, not_true_eq_false, if_false, PiecesOK, TailOK]
          exact ⟨hi.like.ne, hc, trivial⟩
        · simp only [h0, ne_eq, not_false_eq_true, if_true, PiecesOK, TailOK]
          exact ⟨hi.like.ne, hc, by decide, fun c hcm => (clean_uint _ 10 (Or.inl rfl) c hcm).1, trivial⟩
      · simp [indexPieces, hidx]
      · exact htd
  | label id =>
    rw [hbase] at hbw
    have hne : m.base ≠ MemBase.none := by simp [hbase]
    rw [List.append_assoc]
    apply PiecesOK_append
    · simp only [basePieces, hbase, PiecesOK, TailOK]
      exact ⟨hbw.like.ne, clean_name hbw.like, trivial⟩
    · simp [basePieces, hbase]
    · exact TailOK_append _ _ _ (tail_index flags env m wf hne) (tail_disp flags m (Or.inl hne))
  | reg t id =>
    rw [hbase] at hbw
    have hne : m.base ≠ MemBase.none := by simp [hbase]
    rw [List.append_assoc]
    apply PiecesOK_append
    · simp only [basePieces, hbase, baseTok, PiecesOK, TailOK]
      by_cases hh : m.home = true
      · simp only [hh, if_true] at hbw ⊢
        refine ⟨by simp, ?_, trivial⟩
        intro c hcm
        simp only [List.mem_cons] at hcm
        rcases hcm with e | e
        · subst e; decide
        · exact clean_name hbw.like c e
      · simp only [hh, if_false, Bool.false_eq_true] at hbw ⊢
        exact ⟨hbw.like.ne, clean_name hbw.like, trivial⟩
    · simp [basePieces, hbase]
    · exact TailOK_append _ _ _ (tail_index flags env m wf hne) (tail_disp flags m (Or.inl hne))

/-! ### no blank inside the address expression -/

theorem clean_name_sp {t : Str} (h : NameLike t) : ' ' ∉ t := fun hm => (h.clean ' ' hm).2.2.2.1 rfl

theorem base_mem (flags : Nat) (env : Env) (m : X86Mem) (wf : WFX86Mem flags env m) :
    ∀ p ∈ basePieces flags env m, p.1 ≠ some ' ' ∧ ' ' ∉ p.2 := by
  have hb := wf.base
  intro p hp
  unfold basePieces baseTok at hp
  cases hbase : m.base with
  | none => simp [hbase] at hp
  | label id =>
    rw [hbase] at hb
    simp only [hbase, List.mem_singleton] at hp
    subst hp
    exact ⟨by simp, clean_name_sp hb.like⟩
  | reg t id =>
    rw [hbase] at hb
    simp only [hbase, List.mem_singleton] at hp
    subst hp
    by_cases hh : m.home = true
    · simp only [hh, if_true] at hb ⊢
      refine ⟨by simp, ?_⟩
      intro hm
      simp only [List.mem_cons] at hm
      rcases hm with e | e
      · exact absurd e (by decide)
      · exact clean_name_sp hb.like e
    · simp only [hh, if_false, Bool.false_eq_true] at hb ⊢
      exact ⟨by simp, clean_name_sp hb.like⟩

theorem index_mem (flags : Nat) (env : Env) (m : X86Mem) (wf : WFX86Mem flags env m) :
    ∀ p ∈ indexPieces flags env m, p.1 ≠ some ' ' ∧ ' ' ∉ p.2 := by
  have hi := wf.index
  intro p hp
  unfold indexPieces at hp
  cases hidx : m.index with
  | none => simp [hidx] at hp
  | some q =>
    obtain ⟨t, id⟩ := q
    rw [hidx] at hi
    have hsg : x86MemSignAfterBase m ≠ some ' ' := by unfold x86MemSignAfterBase; split <;> simp
    simp only [hidx, List.mem_cons] at hp
    rcases hp with e | e
    · subst e; exact ⟨hsg, clean_name_sp hi.like⟩
    · by_cases h0 : m.shift = 0
      · simp [h0] at e
      · simp only [h0, ne_eq, not_false_eq_true, if_true, List.mem_singleton] at e
        subst e
        exact ⟨by simp, fun hm => (clean_uint _ 10 (Or.inl rfl) ' ' hm).2 rfl⟩

theorem disp_mem (flags : Nat) (m : X86Mem) : ∀ p ∈ dispPieces flags m, p.1 ≠ some ' ' ∧ ' ' ∉ p.2 := by
  intro p hp
  unfold dispPieces dispPiecesOf at hp
  split at hp
  · simp only [List.mem_singleton] at hp
    subst hp
    refine ⟨?_, fun hm => (clean_dispTok flags _ ' ' hm).2 rfl⟩
    unfold dispSignOf x86MemSignAfterIndex x86MemSignAfterBase
    split <;> (try split) <;> (try split) <;> simp
  · simp at hp

theorem no_space (flags : Nat) (env : Env) (m : X86Mem) (wf : WFX86Mem flags env m) :
    ' ' ∉ flattenPieces (memPieces flags env m) := by
  apply not_mem_flatten
  intro p hp
  unfold memPieces at hp
  rcases List.mem_append.mp hp with h | h
  · rcases List.mem_append.mp h with h | h
    · exact base_mem flags env m wf p h
    · exact index_mem flags env m wf p h
  · exact disp_mem flags m p h

/-! ### the whole reader on the whole text -/

theorem seg_shape (m : X86Mem) (hseg : m.seg < 7) (X : Str) :
    ∃ w d r, x86MemSegText m ++ '[' :: X = w ++ d :: r ∧ (∀ c ∈ w, isLowerAlpha c = true) ∧ isLowerAlpha d = false ∧ d ≠ ' ' := by
  unfold x86MemSegText
  by_cases h0 : m.seg = 0
  · exact ⟨[], '[', X, by simp [h0], by simp, by decide, by decide⟩
  · have hmem : m.seg ∈ [1, 2, 3, 4, 5, 6] := by simp; omega
    obtain ⟨hl, _⟩ := segNames_facts m.seg hmem
    exact ⟨_, ':', '[' :: X, by simp [h0, hseg], hl, by decide, by decide⟩

theorem x86_mem_read (flags : Nat) (env : Env) (m : X86Mem) (wf : WFX86Mem flags env m) :
    parseX86Mem env (x86FormatMem flags env m) = some (afterDisp flags env m) := by
  rw [x86FormatMem_eq]
  obtain ⟨w, d, r, hshape, hw, hd, hd'⟩ := seg_shape m wf.seg (x86MemAddrText m ++ (flattenPieces (memPieces flags env m) ++ [']']))
  have hsz : readX86Size (x86SizeString m.size ++ (x86MemSegText m ++ '[' :: (x86MemAddrText m ++ (flattenPieces (memPieces flags env m) ++ [']'])))) =
      (some m.size, x86MemSegText m ++ '[' :: (x86MemAddrText m ++ (flattenPieces (memPieces flags env m) ++ [']']))) := by
    rw [hshape]; exact readSize_spec m.size wf.size w d r hw hd hd'
  unfold parseX86Mem
  rw [hsz]
  simp only [Option.bind_some]
  rw [readSeg_spec m wf.seg]
  simp only [Option.bind_some]
  rw [← List.append_assoc, dropLast_concat]
  simp only [Option.bind_some]
  rw [readAddr_spec m wf.addr _ (no_space flags env m wf)]
  simp only []
  rw [lex_pieces _ _ (pieces_ok flags env m wf)]
  exact interp_pieces flags env m wf

theorem x86_mem_agrees (flags : Nat) (env : Env) (m : X86Mem) (wf : WFX86Mem flags env m) :
    memAgrees (denoteX86Mem env m) (afterDisp flags env m) = true := by
  have hb := wf.base
  have hi := wf.index
  have hseg := wf.seg
  have hat := wf.addr
  have hdisp : (afterDisp flags env m).disp = effOff (m.base ≠ MemBase.none) m.off := by
    unfold afterDisp
    split
    · rfl
    · rename_i h
      have h0 : dispOff m = 0 := by
        by_cases e : dispOff m = 0
        · exact e
        · exact absurd (Or.inl e) h
      have : (afterIndex flags env m).disp = 0 := by
        unfold afterIndex afterBase start
        cases m.index <;> cases m.base <;> (first | rfl | (simp only []; split <;> rfl))
      rw [this]; exact h0.symm
  unfold memAgrees denoteX86Mem
  rw [hdisp]
  unfold afterDisp afterIndex afterBase start
  by_cases hsh : (dispOff m ≠ 0 ∨ (m.base = MemBase.none ∧ m.index = none))
  all_goals simp only [hsh, if_true, if_false]
  all_goals
    cases hbase : m.base with
    | none =>
      cases hidx : m.index with
      | none => simp [hseg, hat]
      | some q =>
        obtain ⟨t, id⟩ := q
        rw [hidx] at hi
        simp [hseg, hat, hi.eq.2]
    | label id =>
      cases hidx : m.index with
      | none => simp [hseg, hat]
      | some q =>
        obtain ⟨t, id'⟩ := q
        rw [hidx] at hi
        simp [hseg, hat, hi.eq.2]
    | reg t id =>
      rw [hbase] at hb
      by_cases hh : m.home = true
      · simp only [hh, if_true] at hb
        cases hidx : m.index with
        | none => simp [hseg, hat, hh, hb.eq.2]
        | some q =>
          obtain ⟨t', id'⟩ := q
          rw [hidx] at hi
          simp [hseg, hat, hh, hb.eq.2, hi.eq.2]
      · simp only [hh, if_false, Bool.false_eq_true] at hb
        cases hidx : m.index with
        | none => simp [hseg, hat, hh, hb.eq.2]
        | some q =>
          obtain ⟨t', id'⟩ := q
          rw [hidx] at hi
          simp [hseg, hat, hh, hb.eq.2, hi.eq.2]

end AsmjitVerif.Lemmas.FormatX86Mem
