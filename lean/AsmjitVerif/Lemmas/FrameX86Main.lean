/- C07: the x86 prolog / body / epilog theorem, assembled from the two brackets and the middle part. -/
import AsmjitVerif.Lemmas.FrameX86Mid
namespace AsmjitVerif.Frame

def fpIds (f : Frame) : List Nat := if f.hasFP then [5] else []

theorem fpPush_eq (f : Frame) :
    x86FpPush f = (fpIds f).map Instr.push ++ (if f.hasFP then [Instr.mov 5 4] else []) := by
  unfold x86FpPush fpIds; cases f.hasFP <;> rfl
theorem fpPop_eq (f : Frame) : x86FpPop f = (fpIds f).reverse.map Instr.pop := by
  unfold x86FpPop fpIds; cases f.hasFP <;> rfl

def gpIds (f : Frame) : List Nat := bitsAsc (x86GpSaved f) 32

theorem ids_count (f : Frame) (wf : X86WF f) : (fpIds f).length + (gpIds f).length = f.nSaved 0 := by
  unfold fpIds gpIds x86GpSaved Frame.nSaved
  cases h : f.hasFP with
  | false => simp
  | true =>
    have := bitsAsc_clearBit5_length (f.saved 0) (wf.fpSaved h)
    simp only [if_true, List.length_cons, List.length_nil]
    omega

theorem mem_ids (f : Frame) (r : Nat) :
    r ∈ bitsAsc (f.saved 0) 32 ↔ (r ∈ gpIds f ∨ (f.hasFP = true ∧ r = 5 ∧ r ∈ bitsAsc (f.saved 0) 32)) := by
  unfold gpIds x86GpSaved
  cases h : f.hasFP with
  | false => simp
  | true =>
    simp only [if_true, mem_bitsAsc_clearBit5, true_and]
    constructor
    · intro hr
      by_cases h5 : r = 5
      · exact Or.inr ⟨h5, hr⟩
      · exact Or.inl ⟨hr, h5⟩
    · rintro (⟨h1, _⟩ | ⟨_, h2⟩)
      · exact h1
      · exact h2

theorem sp_notin_gpIds (f : Frame) (wf : X86WF f) : 4 ∉ gpIds f := by
  intro h
  have : 4 ∈ bitsAsc (f.saved 0) 32 := (mem_ids f 4).mpr (Or.inl h)
  rw [mem_bitsAsc] at this
  rw [wf.noSp] at this
  exact absurd this.2 (by simp)

theorem gpSaved_lt (f : Frame) (wf : X86WF f) : x86GpSaved f < 2 ^ 16 := by
  unfold x86GpSaved
  split
  · unfold clearBit
    exact Nat.lt_of_le_of_lt Nat.and_le_left wf.gp16
  · exact wf.gp16

theorem dvd_sub_of_mods (A x y : Nat) (hx : x % A = 0) (hy : y % A = 0) : (x - y) % A = 0 := by
  apply Nat.mod_eq_zero_of_dvd
  exact Nat.dvd_sub (Nat.dvd_of_mod_eq_zero hx) (Nat.dvd_of_mod_eq_zero hy)

/-- the body `sp` is aligned as promised whenever the frame uses the stack -/
theorem x86_body_sp_aligned (f : Frame) (wf : X86WF f) (sp0 : Nat)
    (hentry : (sp0 + f.arch.W) % f.natAlign = 0) (hroom : f.finalSize ≤ sp0) (hu : f.usesStack = true) :
    x86BodySp f (sp0 - f.ppSize) % f.finalAlign = 0 := by
  obtain ⟨k, hk, hA⟩ := wf.kA
  have hApos : 0 < f.finalAlign := by rw [hA]; exact Nat.two_pow_pos k
  have htot := wf.total
  unfold x86BodySp
  cases hda : f.hasDA with
  | true =>
    simp only [if_true]
    apply dvd_sub_of_mods _ _ _ _ (wf.adjDA hda).1
    have := Nat.div_add_mod (sp0 - f.ppSize) f.finalAlign
    have : sp0 - f.ppSize - (sp0 - f.ppSize) % f.finalAlign = f.finalAlign * ((sp0 - f.ppSize) / f.finalAlign) := by omega
    rw [this, Nat.mul_mod_right]
  | false =>
    simp only [Bool.false_eq_true, if_false]
    obtain ⟨h1, _⟩ := wf.adjPlain hda
    have h2 := wf.aligned hu
    rw [wf.noDaNat hda] at h2 ⊢
    have : sp0 - f.ppSize - f.stackAdj = (sp0 + f.arch.W) - (f.finalSize + f.arch.W) := by omega
    rw [this]
    exact dvd_sub_of_mods _ _ _ hentry h2

theorem retSize_x86 (f : Frame) (wf : X86WF f) : f.arch.retSize = f.arch.W := by
  rcases wf.arch with h | h <;> simp [h, Arch.retSize, Arch.lrId]

theorem returnAddress_x86 (f : Frame) (wf : X86WF f) (s0 : St) :
    returnAddress f.arch s0 = loadBytes s0.mem (s0.gp 4) f.arch.W := by
  rcases wf.arch with h | h <;> simp [h, returnAddress, Arch.lrId, Arch.spId, Arch.W]

/-- **x86 (32- and 64-bit): prolog, any confined body, epilog.** -/
theorem x86_main (f : Frame) (wf : X86WF f) (s0 : St)
    (hentry : entryOk f s0 = true)
    (hroom : f.finalSize + 2 * f.finalAlign ≤ s0.gp 4)
    (hbits : s0.gp 4 < 256 ^ f.arch.W) :
    ∃ s1, run f.arch (x86Prolog f) s0 = some s1 ∧ s1.ret = none
      ∧ bodyEntryOk f s0 s1 = true
      ∧ (∀ x, s0.gp 4 ≤ x → s1.mem x = s0.mem x)
      ∧ s1.gp 4 + f.stackAdj + f.ppSize ≤ s0.gp 4
      ∧ ∀ s2, BodyOK f (s0.gp 4) s1 s2 →
          ∃ s3, run f.arch (x86Epilog f) s2 = some s3 ∧ exitOk f s0 s3 = true ∧ s3.mem = s2.mem := by
  have hsp4 := wf.spId
  have hW := wf.W
  have hret0 : s0.ret = none := by
    unfold entryOk at hentry
    simp only [Bool.and_eq_true, Option.isNone_iff_eq_none] at hentry
    exact hentry.1
  have hent : (s0.gp 4 + f.arch.W) % f.natAlign = 0 := by
    unfold entryOk at hentry
    simp only [Bool.and_eq_true, beq_iff_eq, hsp4, retSize_x86 f wf] at hentry
    exact hentry.2
  obtain ⟨k, hk, hA⟩ := wf.kA
  have hApos : 0 < f.finalAlign := by rw [hA]; exact Nat.two_pow_pos k
  obtain ⟨hsm1, hsm2⟩ := wf.small
  have htot := wf.total
  have hpp := wf.ppSize
  have hcount := ids_count f wf
  generalize hsp0 : s0.gp 4 = sp0 at *
  have hmul : f.arch.W * f.nSaved 0 = f.arch.W * (fpIds f).length + f.arch.W * (gpIds f).length := by
    rw [← hcount, Nat.mul_add]
  have hadjub : f.stackAdj < f.ppOff + f.finalAlign := by
    cases hda : f.hasDA with
    | false => rw [(wf.adjPlain hda).1]; omega
    | true => exact (wf.adjDA hda).2.2.2
  have hppadj : f.ppOff ≤ f.stackAdj := by
    cases hda : f.hasDA with
    | false => rw [(wf.adjPlain hda).1]; exact Nat.le_refl _
    | true => exact (wf.adjDA hda).2.1
  -- endbr
  have r0 : run f.arch (x86Ibp f) s0 = some s0 := by
    apply run_nops _ _ _ _ hret0
    intro i hi; unfold x86Ibp at hi; split at hi <;> simp at hi; exact ⟨_, hi⟩
  -- outer bracket: push bp … pop bp
  have hfpnd : (fpIds f).Nodup := by unfold fpIds; split <;> simp
  have hfpsp : f.arch.spId ∉ fpIds f := by rw [hsp4]; unfold fpIds; split <;> simp
  obtain ⟨tA, rA, tAsp, tAgp, tAx, tAret, tAmem, outerPop⟩ :=
    push_pop_bracket f.arch (fpIds f) s0 hfpnd hfpsp hret0 (by rw [hsp4, hsp0]; omega)
  simp only [hsp4, hsp0] at tAsp tAmem outerPop tAgp
  -- mov bp, sp
  have hB : ∃ tB, run f.arch (if f.hasFP then [Instr.mov 5 4] else []) tA = some tB ∧ tB.ret = none ∧ tB.mem = tA.mem
      ∧ tB.x = tA.x ∧ tB.gp 4 = tA.gp 4 ∧ (∀ r, (f.hasFP = false ∨ r ≠ 5) → tB.gp r = tA.gp r)
      ∧ (f.hasFP = true → tB.gp 5 = tA.gp 4) := by
    cases hfp : f.hasFP with
    | false => exact ⟨tA, by simp [run], tAret, rfl, rfl, rfl, fun _ _ => rfl, fun h => absurd h (by simp)⟩
    | true =>
      refine ⟨_, run_one _ _ _ _ (step_mov _ 5 4 _ tAret), tAret, rfl, rfl, by simp, ?_, fun _ => by simp⟩
      intro r hr
      rcases hr with hr | hr
      · exact absurd hr (by simp)
      · simp [hr]
  obtain ⟨tB, rB, tBret, tBmem, tBx, tBsp, tBgp, tBfp⟩ := hB
  -- inner bracket: the push loop … the pop loop
  obtain ⟨t1, r1, t1sp, t1gp, t1x, t1ret, t1mem, innerPop⟩ :=
    push_pop_bracket f.arch (gpIds f) tB (bitsAsc_nodup _ _) (by rw [hsp4]; exact sp_notin_gpIds f wf) tBret
      (by rw [hsp4, tBsp, tAsp]; omega)
  simp only [hsp4, tBsp, tAsp] at t1sp t1mem innerPop t1gp
  have hP : t1.gp 4 = sp0 - f.ppSize := by rw [t1sp, hpp, hmul]; omega
  generalize hPdef : sp0 - f.ppSize = P at *
  have hPle : P + f.ppSize = sp0 := by omega
  -- the middle part
  have hfpcond : f.hasFP = true → f.arch.W ≤ f.ppSize ∧ t1.gp 5 + f.arch.W = P + f.ppSize := by
    intro hfp
    have h1 : (fpIds f).length = 1 := by unfold fpIds; simp [hfp]
    have h5 : t1.gp 5 = tA.gp 4 := by rw [t1gp 5 (by omega)]; exact tBfp hfp
    rw [h1] at hmul tAsp
    constructor
    · rw [hpp, hmul]; omega
    · rw [h5, tAsp]; omega
  have hal : f.alignedVecSR = true → x86BodySp f P % 16 = 0 := by
    intro hv
    obtain ⟨_, h16, hu⟩ := wf.vecAligned hv
    have := x86_body_sp_aligned f wf sp0 hent (by omega) hu
    rw [hPdef] at this
    exact Nat.mod_eq_zero_of_dvd (Nat.dvd_trans h16 (Nat.dvd_of_mod_eq_zero this))
  obtain ⟨s1, rM, s1ret, s1x, s1sp, s1gp, s1sa, s1mem, s1adj, midEpi⟩ :=
    x86_mid f wf t1 P t1ret hP hfpcond (by omega) (by omega) hal
  generalize hS : x86BodySp f P = S at *
  have hlocal := wf.localFits
  have hxend : f.xOff + f.xSize ≤ f.stackAdj := by
    by_cases h : f.daOff = invalidOff
    · have := wf.noDa h; omega
    · have := wf.da h; omega
  refine ⟨s1, ?_, s1ret, ?_, ?_, by omega, ?_⟩
  · unfold x86Prolog
    rw [run_append, r0, Option.bind_some, fpPush_eq, List.append_assoc, run_append, rA, Option.bind_some, run_append, rB,
      Option.bind_some, run_append]
    unfold x86Pushes
    rw [show bitsAsc (x86GpSaved f) 32 = gpIds f from rfl, r1, Option.bind_some]
    exact rM
  · -- alignment and stack arguments
    unfold bodyEntryOk
    simp only [hsp4, hsp0, saBase, retSize_x86 f wf, Bool.and_eq_true, Bool.or_eq_true, Bool.not_eq_true', beq_iff_eq]
    refine ⟨⟨?_, ?_⟩, ?_⟩
    · cases hu : f.usesStack with
      | false => exact Or.inl rfl
      | true =>
        right
        have := x86_body_sp_aligned f wf sp0 hent (by omega) hu
        rw [hPdef, hS] at this
        rw [s1sp]; exact this
    · by_cases hsa : f.saRegId = 4
      · simp only [hsa, if_true, beq_iff_eq]
        have hnda : f.hasDA = false := by
          cases h : f.hasDA with
          | false => rfl
          | true => exact absurd hsa (wf.saDA h)
        obtain ⟨e1, e2⟩ := wf.adjPlain hnda
        have : S + f.stackAdj = P := by
          rw [← hS]; unfold x86BodySp; simp only [hnda, Bool.false_eq_true, if_false]; omega
        rw [s1sp, e2]; omega
      · rw [if_neg hsa, beq_iff_eq, s1sa hsa, wf.saOffSa]
        cases hfp : f.hasFP with
        | false => simp only [Bool.false_eq_true, if_false]; omega
        | true =>
          obtain ⟨_, h2⟩ := hfpcond hfp
          simp only [if_true]; omega
    · cases hda : f.hasDA with
      | true => exact Or.inl (wf.adjDA hda).2.2.1
      | false =>
        right
        obtain ⟨e1, e2⟩ := wf.adjPlain hda
        have : S + f.stackAdj = P := by
          rw [← hS]; unfold x86BodySp; simp only [hda, Bool.false_eq_true, if_false]; omega
        rw [s1sp, e2]; omega
  · intro x hx
    rw [s1mem x (Or.inr (by omega)), t1mem x (Or.inr (by omega)), tBmem, tAmem x (Or.inr hx)]
  · -- the epilog
    intro s2 hbody
    obtain ⟨b_sp, b_mem, b_gp, b_x, b_ret⟩ := hbody
    rw [hsp4] at b_sp b_mem
    rw [s1sp] at b_sp b_mem
    have hnospill : ∀ x, x < sp0 + f.arch.W →
        ¬ (saBase f.arch sp0 ≤ x ∧ x < saBase f.arch sp0 + f.spillZone) := by
      intro x hx; unfold saBase; rw [retSize_x86 f wf]; omega
    have hbodymem : ∀ x, S + f.xOff ≤ x → x < sp0 + f.arch.W → s2.mem x = s1.mem x := by
      intro x h1 h2
      exact b_mem x (by unfold Frame.localEnd at hlocal ⊢; omega) (hnospill x h2)
    have hfp5 : f.hasFP = true → s2.gp 5 = t1.gp 5 := by
      intro hfp
      have hw : f.bodyMayWrite 0 5 = false := by
        unfold Frame.bodyMayWrite
        rcases wf.arch with h | h <;> simp [h, Arch.fpId, Arch.spId, hfp]
      rw [b_gp 5 hw]
      by_cases hsa : f.saRegId = 5
      · have := s1sa (by rw [hsa]; omega)
        rw [hsa] at this; rw [this]; simp [hfp]
      · exact s1gp 5 (by omega) (fun h => hsa h.symm)
    obtain ⟨t2, rE1, t2sp, t2gp, t2mem, t2ret, t2in, t2out⟩ :=
      midEpi s2 b_sp b_ret (fun x h1 h2 => hbodymem x h1 (by omega)) hfp5
    -- pop loop
    obtain ⟨t3, rE2, t3sp, t3in, t3out, t3x, t3mem, t3ret⟩ :=
      innerPop t2 (by rw [t2sp, hP]) t2ret (by
        intro x h1 h2
        rw [t2mem, hbodymem x (by omega) (by omega)]
        exact s1mem x (Or.inr (by omega)))
    -- pop bp
    obtain ⟨t4, rE3, t4sp, t4in, t4out, t4x, t4mem, t4ret⟩ :=
      outerPop t3 (by rw [t3sp, tAsp]) t3ret (by
        intro x h1 h2
        rw [t3mem, t2mem, hbodymem x (by omega) (by omega), s1mem x (Or.inr (by omega)),
          t1mem x (Or.inr (by omega)), tBmem])
    -- ret
    have hns4 : t4.ret.isSome = false := isSome_false_of_none t4ret
    let s3 : St := { (t4.setGp 4 (t4.gp 4 + f.arch.W + f.calleeCleanup)) with ret := some (loadBytes t4.mem (t4.gp 4) f.arch.W) }
    have rE4 : run f.arch [Instr.ret f.calleeCleanup] t4 = some s3 := by
      apply run_one
      simp only [step, hns4, Bool.false_eq_true, if_false, hsp4]
      rfl
    have hra : loadBytes t4.mem (t4.gp 4) f.arch.W = loadBytes s0.mem sp0 f.arch.W := by
      rw [t4sp]
      apply loadBytes_congr
      intro x h1 h2
      rw [t4mem, t3mem, t2mem, hbodymem x (by omega) h2, s1mem x (Or.inr (by omega)),
        t1mem x (Or.inr (by omega)), tBmem, tAmem x (Or.inr h1)]
    refine ⟨s3, ?_, ?_, by simp only [s3, setGp_mem]; rw [t4mem, t3mem, t2mem]⟩
    · unfold x86Epilog
      rw [← List.append_assoc, ← List.append_assoc, run_append, List.append_assoc, rE1, Option.bind_some, run_append]
      unfold x86Pops
      rw [popOrder_eq_reverse _ (gpSaved_lt f wf), show bitsAsc (x86GpSaved f) 32 = gpIds f from rfl, rE2,
        Option.bind_some, run_append, fpPop_eq, rE3, Option.bind_some]
      exact rE4
    · -- exit conditions
      unfold exitOk
      simp only [hsp4, hsp0, retSize_x86 f wf, Bool.and_eq_true, beq_iff_eq, List.all_eq_true, List.mem_range,
        Bool.or_eq_true, Bool.not_eq_true']
      refine ⟨⟨?_, ?_⟩, ?_⟩
      · simp only [s3]; rw [hra, returnAddress_x86 f wf, hsp0]
      · simp only [s3, setGp_gp, if_true]; rw [t4sp]
      · intro g hg r hr
        by_cases hcs' : f.calleeSaved g r = false
        · exact Or.inl hcs'
        have hcs : f.calleeSaved g r = true := by cases h : f.calleeSaved g r <;> simp_all
        right
        unfold Frame.calleeSaved at hcs
        simp only [Bool.and_eq_true, Bool.not_eq_true', hsp4] at hcs
        obtain ⟨hpres, hnsp⟩ := hcs
        by_cases hg0 : g = 0
        · -- general registers
          subst hg0
          have hr4 : r ≠ 4 := by
            intro h; subst h; simp at hnsp
          have hs3 : s3.reg 0 r = t4.gp r := by
            simp only [St.reg, s3, if_true, setGp_gp, if_neg hr4]
          have hs0 : s0.reg 0 r = s0.gp r := by simp only [St.reg, if_true]
          rw [hs3, hs0]
          have hkeep : f.keepBytes 0 = f.arch.W := by simp [Frame.keepBytes]
          rw [hkeep]
          by_cases hdirty : (f.dirty 0).testBit r = true
          · -- saved and restored
            have hsaved : r ∈ bitsAsc (f.saved 0) 32 := by
              rw [mem_bitsAsc]; refine ⟨hr, ?_⟩
              unfold Frame.saved; rw [Nat.testBit_and, hdirty, hpres]; rfl
            rcases (mem_ids f r).mp hsaved with hin | ⟨hfp, h5, _⟩
            · have hnfp : r ∉ fpIds f := by
                unfold fpIds; split
                · rename_i hfp
                  intro h; simp at h; subst h
                  unfold gpIds x86GpSaved at hin
                  rw [if_pos hfp, mem_bitsAsc_clearBit5] at hin
                  exact hin.2 rfl
                · simp
              rw [t4out r hnfp hr4, t3in r hin, Nat.mod_mod]
              have : tB.gp r = s0.gp r := by
                rw [tBgp r (by
                  cases hfp : f.hasFP with
                  | false => exact Or.inl rfl
                  | true =>
                    right; intro h; subst h
                    exact hnfp (by unfold fpIds; simp [hfp])), tAgp r hr4]
              rw [this]
            · subst h5
              have : (5 : Nat) ∈ fpIds f := by unfold fpIds; simp [hfp]
              rw [t4in 5 this, Nat.mod_mod]
          · -- never written
            have hnd : (f.dirty 0).testBit r = false := by cases h : (f.dirty 0).testBit r <;> simp_all
            have hnsaved : r ∉ bitsAsc (f.saved 0) 32 := by
              rw [mem_bitsAsc]; intro ⟨_, h⟩
              unfold Frame.saved at h; rw [Nat.testBit_and, hnd] at h; simp at h
            have hnin : r ∉ gpIds f := fun h => hnsaved ((mem_ids f r).mpr (Or.inl h))
            have hnfp : r ∉ fpIds f := by
              unfold fpIds; split
              · rename_i hfp
                intro h; simp at h; subst h
                have := wf.fpSaved hfp
                unfold Frame.saved at this; rw [Nat.testBit_and, hnd] at this; simp at this
              · simp
            have hnsa : r ≠ f.saRegId := by
              intro h
              by_cases h4 : f.saRegId = 4
              · exact hr4 (h.trans h4)
              · have := wf.saDirty h4; rw [← h, hnd] at this; simp at this
            have hw : f.bodyMayWrite 0 r = false := by unfold Frame.bodyMayWrite; rw [hnd]; rfl
            rw [t4out r hnfp hr4, t3out r hnin hr4, t2gp r hr4, b_gp r hw, s1gp r hr4 hnsa, t1gp r hr4,
              tBgp r (by
                cases hfp : f.hasFP with
                | false => exact Or.inl rfl
                | true =>
                  right; intro h; subst h
                  exact hnfp (by unfold fpIds; simp [hfp])), tAgp r hr4]
        · -- vector / mask / mm registers
          have hs3 : s3.reg g r = t2.x g r := by
            simp only [St.reg, if_neg hg0, s3, setGp_x]; rw [t4x, t3x]
          have hs0 : s0.reg g r = t1.x g r := by
            simp only [St.reg, if_neg hg0]; rw [t1x, tBx, tAx]
          rw [hs3, hs0]
          have hkeep : f.keepBytes g = f.srSize g := by simp [Frame.keepBytes, hg0]
          rw [hkeep]
          by_cases hdirty : (f.dirty g).testBit r = true
          · have hkey : (g, r) ∈ xKeys f := by
              rw [mem_xKeys]; refine ⟨by omega, hr, ?_⟩
              unfold Frame.saved; rw [Nat.testBit_and, hdirty, hpres]; rfl
            obtain ⟨_, _, sl3, sl4⟩ := xSlots_spec f (by omega)
            rw [← sl3, List.mem_map] at hkey
            obtain ⟨p, hp, hpk⟩ := hkey
            unfold slotKey at hpk
            obtain ⟨hpg, hpr⟩ := Prod.mk.inj hpk
            have := t2in p hp
            rw [hpg, hpr] at this
            obtain ⟨_, _, _, hsz⟩ := sl4 p hp
            rw [hpg] at hsz
            have hszeq : p.1.size = f.srSize g := by
              obtain ⟨k1, k2, k3⟩ := wf.keep
              rw [hsz]
              have : g = 1 ∨ g = 2 ∨ g = 3 := by omega
              rcases this with h | h | h <;> subst h <;> simp [k1, k2, k3]
            rw [this, hszeq, Nat.mod_mod]
          · have hnd : (f.dirty g).testBit r = false := by cases h : (f.dirty g).testBit r <;> simp_all
            have hkey : (g, r) ∉ xKeys f := by
              rw [mem_xKeys]; intro ⟨_, _, h⟩
              unfold Frame.saved at h; rw [Nat.testBit_and, hnd] at h; simp at h
            have hw : f.bodyMayWrite g r = false := by unfold Frame.bodyMayWrite; rw [hnd]; rfl
            rw [t2out g r hkey, b_x g r hg0 hw, s1x]

end AsmjitVerif.Frame
