/- C20 helper lemmas: the parts of an x86 line — option words vs `expectedPrefixes`, `{k}{z}` kinds, broadcast, rounding. -/
import AsmjitVerif.Lemmas.FormatChunk

namespace AsmjitVerif.Lemmas.FormatLineParts
open AsmjitVerif.Format AsmjitVerif.FormatText AsmjitVerif.Lemmas.FormatLex AsmjitVerif.Lemmas.FormatNum
open AsmjitVerif.Lemmas.FormatX86Mem AsmjitVerif.Lemmas.FormatLine AsmjitVerif.Lemmas.FormatChunk

/-! ### option words -/

def isFixed (w : Str) : Bool := x86PrefixWordsL.contains w

theorem blk (c : Prop) [Decidable c] (w : String) (hw : isFixed w.toList = true) :
    ((if c then [w.toList] else []).filter isFixed).map String.ofList = (if c then [w] else []) ∧
    (if c then [w.toList] else []).filter (fun x => !isFixed x) = [] := by
  split <;> simp [hw]

theorem blk2 (c1 c2 : Prop) [Decidable c1] [Decidable c2] (w1 w2 : String) (h1 : isFixed w1.toList = true) (h2 : isFixed w2.toList = true) :
    ((if c1 then [w1.toList] else if c2 then [w2.toList] else []).filter isFixed).map String.ofList =
      (if c1 then [w1] else if c2 then [w2] else []) ∧
    (if c1 then [w1.toList] else if c2 then [w2.toList] else []).filter (fun x => !isFixed x) = [] := by
  split
  · simp [h1]
  · split <;> simp [h2]

theorem blkR (w : String) (hw : isFixed w.toList = true) (x : Prop) [Decidable x] (r : Str) (hr : x → isFixed r = false) :
    (([w.toList] ++ (if x then [r] else [])).filter isFixed).map String.ofList = [w] ∧
    ([w.toList] ++ (if x then [r] else [])).filter (fun y => !isFixed y) = (if x then [r] else []) := by
  by_cases hx : x
  · simp [hx, hw, hr hx]
  · simp [hx, hw]

theorem rep_bits (options : Nat) :
    hasBit options (ioRep ||| ioRepne) = (hasBit options ioRep || hasBit options ioRepne) := by
  unfold hasBit ioRep ioRepne
  have e : options &&& (16384 ||| 32768) = (options &&& 16384) ||| (options &&& 32768) := Nat.and_or_distrib_left ..
  rw [e]
  generalize options &&& 16384 = a
  generalize options &&& 32768 = b
  by_cases h1 : a = 0 <;> by_cases h2 : b = 0
  · subst h1; subst h2; simp
  · subst h1; simp [h2]
  · subst h2; simp [h1]
  · have : a ||| b ≠ 0 := fun h => h1 (Nat.or_eq_zero_iff.mp h).1
    have e1 : (a ||| b != 0) = true := by simpa using this
    have e2 : (a != 0) = true := by simpa using h1
    rw [e1, e2]; rfl

theorem filter_words (flags : Nat) (env : Env) (options : Nat) (extra : ExtraReg)
    (hrw : extra.isReg = true → isFixed (repWord flags env extra) = false) :
    ((x86HeadWords flags env options extra).filter isFixed).map String.ofList = expectedPrefixes options ∧
    (x86HeadWords flags env options extra).filter (fun x => !isFixed x) =
      (if hasBit options (ioRep ||| ioRepne) = true ∧ extra.isReg = true then [repWord flags env extra] else []) := by
  unfold x86HeadWords expectedPrefixes
  simp only [List.filter_append, List.map_append]
  have b1 := blk (hasBit options ioVex = true) "{vex}" (by decide)
  have b2 := blk (hasBit options ioVex3 = true) "{vex3}" (by decide)
  have b3 := blk (hasBit options ioEvex = true) "{evex}" (by decide)
  have b4 := blk2 (hasBit options ioModRM = true) (hasBit options ioModMR = true) "{modrm}" "{modmr}" (by decide) (by decide)
  have b5 := blk (hasBit options ioShortForm = true) "short" (by decide)
  have b6 := blk (hasBit options ioLongForm = true) "long" (by decide)
  have b7 := blk (hasBit options ioXAcquire = true) "xacquire" (by decide)
  have b8 := blk (hasBit options ioXRelease = true) "xrelease" (by decide)
  have b9 := blk (hasBit options ioLock = true) "lock" (by decide)
  have b11 := blk (hasBit options ioRex = true) "rex" (by decide)
  rw [b1.1, b1.2, b2.1, b2.2, b3.1, b3.2, b4.1, b4.2, b5.1, b5.2, b6.1, b6.2, b7.1, b7.2, b8.1, b8.2, b9.1, b9.2, b11.1, b11.2]
  simp only [List.nil_append, List.append_nil]
  have hw : isFixed (if hasBit options ioRep = true then "rep" else "repnz").toList = true := by split <;> decide
  have bR := blkR (if hasBit options ioRep = true then "rep" else "repnz") hw (extra.isReg = true) (repWord flags env extra) hrw
  rw [rep_bits]
  by_cases h1 : hasBit options ioRep = true
  · simp only [h1, Bool.true_or, if_true, true_and] at bR ⊢
    have e : ['{'] ++ x86FormatOperand flags env (Operand.reg extra.type extra.id 0 none) ++ ['}'] = repWord flags env extra := rfl
    rw [e, bR.1, bR.2]
    simp
  · by_cases h2 : hasBit options ioRepne = true
    · have h1' : hasBit options ioRep = false := by simpa using h1
      simp only [h1', h2, Bool.false_or, if_true, true_and, Bool.false_eq_true, if_false] at bR ⊢
      have e : ['{'] ++ x86FormatOperand flags env (Operand.reg extra.type extra.id 0 none) ++ ['}'] = repWord flags env extra := rfl
      rw [e, bR.1, bR.2]
      simp
    · have h1' : hasBit options ioRep = false := by simpa using h1
      have h2' : hasBit options ioRepne = false := by simpa using h2
      simp [h1', h2']

/-! ### the operand list (no rounding group) -/

open AsmjitVerif.Lemmas.FormatOps in
def tailCPs (ch : Nat → Operand → Str) (ex : Nat → Operand → POperand) : Nat → List Operand → List (Str × POperand)
  | _, [] => []
  | i, op :: rest => (ch i op, ex i op) :: tailCPs ch ex (i + 1) rest

open AsmjitVerif.Lemmas.FormatOps in
theorem tailCPs_fst (ch : Nat → Operand → Str) (ex : Nat → Operand → POperand) : ∀ (ops : List Operand) (i : Nat),
    (tailCPs ch ex i ops).map Prod.fst = tailChunks ch i ops
  | [], _ => rfl
  | op :: rest, i => by simp [tailCPs, tailChunks, tailCPs_fst ch ex rest (i + 1)]

theorem tailCPs_mem (ch : Nat → Operand → Str) (ex : Nat → Operand → POperand) : ∀ (ops : List Operand) (i : Nat),
    ∀ p ∈ tailCPs ch ex i ops, ∃ k o, p = (ch k o, ex k o)
  | [], _, p, h => by simp [tailCPs] at h
  | op :: rest, i, p, h => by
    simp only [tailCPs, List.mem_cons] at h
    rcases h with e | e
    · exact ⟨i, op, e⟩
    · exact tailCPs_mem ch ex rest (i + 1) p e

open AsmjitVerif.Lemmas.FormatOps in
/-- the operand list of a line (at least one operand, no rounding group): cutting the text after the mnemonic's blank at the
    commas and reading every chunk gives the expected operand readings, in order -/
theorem ops_read (flags : Nat) (env : Env) (options : Nat) (extra : ExtraReg) (op : Operand) (rest : List Operand)
    (ex : Nat → Operand → POperand)
    (hne : ∀ o ∈ op :: rest, o ≠ Operand.none)
    (hch : ∀ k o, readChunk env (x86ChunkText flags env options extra k o) = some (ex k o) ∧
                  (x86ChunkText flags env options extra k o).head? ≠ some '{' ∧
                  x86ChunkText flags env options extra k o ≠ [] ∧
                  ∀ c ∈ x86ChunkText flags env options extra k o, c ≠ ',') :
    ∃ body, x86FormatOps flags env options extra 0 (op :: rest) = ' ' :: body ∧
      ((lexPieces (fun c => c == ',') body.length body).mapM chunkOfPiece).bind (readChunks env) =
        some (ex 0 op :: (tailCPs (x86ChunkText flags env options extra) ex 1 rest).map Prod.snd, none) := by
  let ch := x86ChunkText flags env options extra
  refine ⟨flattenPieces ((none, ch 0 op) :: tailPieces ch 1 rest), ops_first flags env options extra op rest hne, ?_⟩
  have hok : PiecesOK (fun c => c == ',') ((none, ch 0 op) :: tailPieces ch 1 rest) := by
    simp only [PiecesOK]
    refine ⟨(hch 0 op).2.2.1, ?_, tail_ok ch rest 1 (fun k o c hc => (hch k o).2.2.2 c hc)⟩
    intro c hc; simpa using (hch 0 op).2.2.2 c hc
  rw [lex_pieces _ _ hok]
  have hm : ((none, ch 0 op) :: tailPieces ch 1 rest).mapM chunkOfPiece = some (ch 0 op :: tailChunks ch 1 rest) := by
    simp [chunkOfPiece, tail_chunks ch rest 1]
  rw [hm]
  simp only [Option.bind_some]
  have := readChunks_plain env ((ch 0 op, ex 0 op) :: tailCPs ch ex 1 rest) (by
    intro p hp
    simp only [List.mem_cons] at hp
    rcases hp with e | e
    · subst e; exact ⟨(hch 0 op).1, (hch 0 op).2.1⟩
    · obtain ⟨k, o, rfl⟩ := tailCPs_mem ch ex rest 1 p e
      exact ⟨(hch k o).1, (hch k o).2.1⟩)
  simp only [List.map_cons, tailCPs_fst] at this
  exact this

end AsmjitVerif.Lemmas.FormatLineParts
