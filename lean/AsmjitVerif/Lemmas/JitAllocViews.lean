/-
C09: the two views of a block (kUseDualMapping).  A block's memory is mapped twice: an executable (rx) and a writable (rw) mapping;
with single mapping both are the same.  The model keeps ONE offset per span (the allocator computes `rx = rx_base + off`,
`rw = rw_base + off` from the same `off`); here the bases are made explicit (`Layout`), the behaviour of the OS is the stated
assumption `LayoutOK` (mappings of `block_size` bytes, pairwise apart), and disjointness / aliasing of span ADDRESSES is derived.
-/
import AsmjitVerif.Lemmas.JitAllocSimTop
namespace AsmjitVerif.JitAlloc

/-- base addresses of the two mappings of every block (by block id) -/
structure Layout where
  rx : Nat → Nat
  rw : Nat → Nat

/-- the address ranges `[a, a+n)` and `[b, b+m)` do not meet -/
def Apart (a n b m : Nat) : Prop := a + n ≤ b ∨ b + m ≤ a

/-- what the OS guarantees (trusted): every mapping spans `block_size` bytes; mappings of different blocks are apart in each view;
with dual mapping every rx mapping is apart from every rw mapping; with single mapping the rw view IS the rx view -/
structure LayoutOK (L : Layout) (dual : Bool) (blocks : List Block) : Prop where
  single : dual = false → ∀ b ∈ blocks, L.rw b.id = L.rx b.id
  rx : ∀ b1 ∈ blocks, ∀ b2 ∈ blocks, b1.id ≠ b2.id → Apart (L.rx b1.id) b1.blockSize (L.rx b2.id) b2.blockSize
  rw : ∀ b1 ∈ blocks, ∀ b2 ∈ blocks, b1.id ≠ b2.id → Apart (L.rw b1.id) b1.blockSize (L.rw b2.id) b2.blockSize
  cross : dual = true → ∀ b1 ∈ blocks, ∀ b2 ∈ blocks, Apart (L.rx b1.id) b1.blockSize (L.rw b2.id) b2.blockSize

/-- address of a span in the executable / writable view (`Span::rx()`, `Span::rw()`) -/
def Layout.rxAddr (L : Layout) (h : Handle) : Nat := L.rx h.blk + h.off
def Layout.rwAddr (L : Layout) (h : Handle) : Nat := L.rw h.blk + h.off

/-- the memory cell (block id, byte offset) an address of a view denotes -/
def viewCell (base : Nat → Nat) (blocks : List Block) (addr : Nat) : Option (Nat × Nat) :=
  (blocks.find? fun b => decide (base b.id ≤ addr) && decide (addr < base b.id + b.blockSize)).map fun b => (b.id, addr - base b.id)

/-- every live span lies inside the mapping of its block -/
theorem span_in_block {s : St} (hG : Good s) {i : Nat} {hd : Handle} (e : s.tab[i]? = some hd) (l : hd.live = true) :
    ∃ b ∈ s.a.blocks, b.id = hd.blk ∧ hd.off + hd.size ≤ b.blockSize ∧ 0 < hd.size := by
  obtain ⟨b, hb, eb, st, n, o1, o2⟩ := hG.inv.owned i hd e l
  have hg := poolGran_pos hG.inv.wf b.pool
  obtain ⟨_, i2, i3⟩ := (hG.inv.blk b hb).1.inside st n ⟨i, hd, e, l, eb.symm, o1, o2⟩
  refine ⟨b, hb, eb, ?_, ?_⟩
  · rw [← (hG.div b hb).area, o1, o2, ← Nat.add_mul]; exact Nat.mul_le_mul_right _ i3
  · rw [o2]; exact Nat.mul_pos i2 hg

/-- two different live spans are apart in one view whose mappings of different blocks are apart -/
theorem view_disjoint {s : St} (hG : Good s) (base : Nat → Nat)
    (hbase : ∀ b1 ∈ s.a.blocks, ∀ b2 ∈ s.a.blocks, b1.id ≠ b2.id → Apart (base b1.id) b1.blockSize (base b2.id) b2.blockSize)
    {i j : Nat} {h1 h2 : Handle} (hij : i ≠ j) (e1 : s.tab[i]? = some h1) (e2 : s.tab[j]? = some h2)
    (l1 : h1.live = true) (l2 : h2.live = true) :
    Apart (base h1.blk + h1.off) h1.size (base h2.blk + h2.off) h2.size := by
  obtain ⟨b1, hb1, eb1, c1, _⟩ := span_in_block hG e1 l1
  obtain ⟨b2, hb2, eb2, c2, _⟩ := span_in_block hG e2 l2
  by_cases hb : h1.blk = h2.blk
  · have hd : h1.off + h1.size ≤ h2.off ∨ h2.off + h2.size ≤ h1.off := by
      rcases Nat.lt_or_gt_of_ne hij with hlt | hgt
      · exact hG.inv.tdisj i j h1 h2 hlt e1 e2 l1 l2 hb
      · rcases hG.inv.tdisj j i h2 h1 hgt e2 e1 l2 l1 hb.symm with h | h
        · exact Or.inr h
        · exact Or.inl h
    unfold Apart
    rw [hb]
    omega
  · have := hbase b1 hb1 b2 hb2 (by rw [eb1, eb2]; exact hb)
    unfold Apart at *
    rw [eb1, eb2] at this
    omega

/-- **Disjointness in the executable view** -/
theorem rx_disjoint {s : St} (hG : Good s) {L : Layout} (hL : LayoutOK L s.a.cfg.dual s.a.blocks)
    {i j : Nat} {h1 h2 : Handle} (hij : i ≠ j) (e1 : s.tab[i]? = some h1) (e2 : s.tab[j]? = some h2)
    (l1 : h1.live = true) (l2 : h2.live = true) : Apart (L.rxAddr h1) h1.size (L.rxAddr h2) h2.size :=
  view_disjoint hG L.rx hL.rx hij e1 e2 l1 l2

/-- **Disjointness in the writable view** -/
theorem rw_disjoint {s : St} (hG : Good s) {L : Layout} (hL : LayoutOK L s.a.cfg.dual s.a.blocks)
    {i j : Nat} {h1 h2 : Handle} (hij : i ≠ j) (e1 : s.tab[i]? = some h1) (e2 : s.tab[j]? = some h2)
    (l1 : h1.live = true) (l2 : h2.live = true) : Apart (L.rwAddr h1) h1.size (L.rwAddr h2) h2.size :=
  view_disjoint hG L.rw hL.rw hij e1 e2 l1 l2

/-- **Disjointness across the views**: the executable range of a live span never meets the writable range of a DIFFERENT live
span; with dual mapping it does not even meet its own writable range (two mappings) -/
theorem cross_disjoint {s : St} (hG : Good s) {L : Layout} (hL : LayoutOK L s.a.cfg.dual s.a.blocks)
    {i j : Nat} {h1 h2 : Handle} (e1 : s.tab[i]? = some h1) (e2 : s.tab[j]? = some h2)
    (l1 : h1.live = true) (l2 : h2.live = true) (hij : i ≠ j ∨ s.a.cfg.dual = true) :
    Apart (L.rxAddr h1) h1.size (L.rwAddr h2) h2.size := by
  obtain ⟨b1, hb1, eb1, c1, _⟩ := span_in_block hG e1 l1
  obtain ⟨b2, hb2, eb2, c2, _⟩ := span_in_block hG e2 l2
  cases hd : s.a.cfg.dual with
  | true =>
    have := hL.cross hd b1 hb1 b2 hb2
    unfold Apart Layout.rxAddr Layout.rwAddr at *
    rw [eb1, eb2] at this
    omega
  | false =>
    have hne : i ≠ j := by
      rcases hij with h | h
      · exact h
      · rw [hd] at h; cases h
    have := rx_disjoint hG hL hne e1 e2 l1 l2
    have e := hL.single hd b2 hb2
    unfold Layout.rxAddr Layout.rwAddr at *
    rw [← eb2, e]
    rw [← eb2] at this
    exact this

/-- an address inside the mapping `base b.id` of block `b` denotes a cell of `b` -/
theorem viewCell_in {blocks : List Block} {base : Nat → Nat} (hids : (blocks.map (·.id)).Pairwise (· < ·))
    (hbase : ∀ b1 ∈ blocks, ∀ b2 ∈ blocks, b1.id ≠ b2.id → Apart (base b1.id) b1.blockSize (base b2.id) b2.blockSize)
    {b : Block} (hb : b ∈ blocks) {o : Nat} (ho : o < b.blockSize) :
    viewCell base blocks (base b.id + o) = some (b.id, o) := by
  unfold viewCell
  rw [find?_eq_of_unique _ b blocks hb (by simp; omega)]
  · simp
  · intro y hy hp
    simp only [Bool.and_eq_true, decide_eq_true_eq] at hp
    by_cases e : y.id = b.id
    · exact eq_of_id_eq hids hy hb e
    · have := hbase y hy b hb e
      unfold Apart at this
      omega

/-- **Alias relation**: byte `o` of a live span, addressed through the executable view and through the writable view, is the same
memory cell (block, offset) — what is written through `rw` is what executes at `rx` -/
theorem views_alias {s : St} (hG : Good s) {L : Layout} (hL : LayoutOK L s.a.cfg.dual s.a.blocks)
    {i : Nat} {hd : Handle} (e : s.tab[i]? = some hd) (l : hd.live = true) {o : Nat} (ho : o < hd.size) :
    viewCell L.rx s.a.blocks (L.rxAddr hd + o) = some (hd.blk, hd.off + o) ∧
    viewCell L.rw s.a.blocks (L.rwAddr hd + o) = some (hd.blk, hd.off + o) := by
  obtain ⟨b, hb, eb, c, _⟩ := span_in_block hG e l
  unfold Layout.rxAddr Layout.rwAddr
  rw [← eb, Nat.add_assoc, Nat.add_assoc]
  exact ⟨viewCell_in hG.inv.ids hL.rx hb (by omega), viewCell_in hG.inv.ids hL.rw hb (by omega)⟩

deriving instance Inhabited for Block

/-- the assumption is satisfiable: blocks laid out one after the other, the rw mappings behind all rx mappings -/
example : LayoutOK { rx := fun id => id * 1000, rw := fun id => 5000 + id * 1000 } true
    [{ (default : Block) with id := 0, blockSize := 1000 }, { (default : Block) with id := 1, blockSize := 1000 }] := by
  refine ⟨fun h => (by cases h), ?_, ?_, ?_⟩ <;> simp [Apart]

end AsmjitVerif.JitAlloc
