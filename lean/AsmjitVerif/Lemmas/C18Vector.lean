/-
C18 – `ArenaVector<T>`: proofs about `Model/Vector.lean` (on top of `Model/Arena.lean`) against the textbook
list semantics of `Spec/C18Vector.lean`.  All statements are for ALL inputs / ALL operation sequences.
-/
import AsmjitVerif.Spec.C18Vector
namespace AsmjitVerif.Vector
open AsmjitVerif.Arena

/-! ## 1. growth policy -/

theorem lt_two_pow_bitLen (x : Nat) : x < 2 ^ bitLen x := by
  unfold bitLen
  split
  · subst_vars; decide
  · exact Nat.lt_log2_self

theorem bitLen_le {x k : Nat} (h : x < 2 ^ k) : bitLen x ≤ k := by
  unfold bitLen
  split
  · omega
  · rename_i hx
    have := (Nat.log2_lt hx).2 h
    omega

theorem le_growRule (l : Nat) : l ≤ growRule l := by
  unfold growRule; (repeat' split) <;> omega

theorem growRule_le {l k : Nat} (h : l ≤ k) (hk : 8 ≤ k) : growRule l ≤ k := by
  unfold growRule; (repeat' split) <;> omega

/-- `b ≤ 2 ^ bitLen ((b-1) ||| 1)` -/
theorem le_two_pow_bitLen_pred (b : Nat) : b ≤ 2 ^ bitLen ((b - 1) ||| 1) := by
  have h1 : b - 1 ≤ (b - 1) ||| 1 := Nat.left_le_or
  have h2 := lt_two_pow_bitLen ((b - 1) ||| 1)
  omega

theorem le_alignUp (x a : Nat) (ha : 0 < a) : x ≤ alignUp x a := by
  unfold alignUp
  have h1 : (x + a - 1) % a < a := Nat.mod_lt _ ha
  have h2 := Nat.div_add_mod (x + a - 1) a
  rw [Nat.mul_comm] at h2
  omega

theorem alignUp_le (x a : Nat) : alignUp x a ≤ x + a - 1 := by
  unfold alignUp; exact Nat.div_mul_le_self _ _

/-- growth never shrinks (no upper bound on `b` is needed in the model: it computes in `Nat`) -/
theorem expand_ge' (b : Nat) : b ≤ expandByteSize b := by
  unfold expandByteSize
  split
  · rw [Nat.one_shiftLeft]
    have h1 := le_two_pow_bitLen_pred b
    have h2 : 2 ^ bitLen ((b - 1) ||| 1) ≤ 2 ^ growRule (bitLen ((b - 1) ||| 1)) :=
      Nat.pow_le_pow_right (by decide) (le_growRule _)
    omega
  · have := le_alignUp (b + 1) kGrowThreshold (by decide)
    omega

theorem expand_ge {b : Nat} (_h0 : 0 < b) (_h : b < 2 ^ 63) : b ≤ expandByteSize b := expand_ge' b

example : expandByteSize 1 = 4 ∧ expandByteSize 5 = 16 ∧ expandByteSize 100 = 256
    ∧ expandByteSize (16 * 1024 * 1024 + 1) = 32 * 1024 * 1024 := by decide

/-- the expanded size stays far below `2^64` when the request does (so the C++ `size_t` does not wrap) -/
theorem expand_le (b : Nat) : expandByteSize b ≤ b + kGrowThreshold := by
  unfold expandByteSize
  split
  · rename_i h
    rw [Nat.one_shiftLeft]
    have hb : b - 1 < 2 ^ 24 := by unfold kGrowThreshold at h; omega
    have hx : (b - 1) ||| 1 < 2 ^ 24 := Nat.or_lt_two_pow hb (by decide)
    have h3 := growRule_le (bitLen_le hx) (by decide)
    have h4 : 2 ^ growRule (bitLen ((b - 1) ||| 1)) ≤ 2 ^ 24 := Nat.pow_le_pow_right (by decide) h3
    unfold kGrowThreshold; omega
  · have := alignUp_le (b + 1) kGrowThreshold
    omega

example : expandByteSize 16777216 ≤ 16777216 + kGrowThreshold := by decide

/-! ## 2. arena facts -/

theorem leftover_mallocMax (fuel : Nat) (s : State) (size : Nat) :
    (leftover fuel s size).mallocMax = s.mallocMax := by
  induction fuel generalizing s size with
  | zero => rfl
  | succ n ih =>
    unfold leftover
    split
    · rfl
    · simp only [ih]

theorem allocOneshotSlow_mallocMax (s : State) (size : Nat) :
    (allocOneshotSlow s size).1.mallocMax = s.mallocMax := by
  unfold allocOneshotSlow
  simp only
  (repeat' split) <;> rfl

theorem allocOneshot_mallocMax (s : State) (size : Nat) :
    (allocOneshot s size).1.mallocMax = s.mallocMax := by
  unfold allocOneshot
  split
  · exact allocOneshotSlow_mallocMax s size
  · rfl

theorem freeReusable_mallocMax (s : State) (p : Loc) (size : Nat) :
    (freeReusable s p size).mallocMax = s.mallocMax := by
  simp only [freeReusable]
  split
  · rfl
  · split <;> rfl

theorem reset_mallocMax (s : State) (hard : Bool) : (reset s hard).mallocMax = s.mallocMax := by
  simp only [reset]
  split
  · split
    · rfl
    · split <;> rfl
  · rfl

theorem allocReusable_mallocMax' {s a' : State} {size n : Nat} {o : Option Loc}
    (h : allocReusable s size = (a', o, n)) : a'.mallocMax = s.mallocMax := by
  simp only [allocReusable] at h
  generalize slotIndex size = idx at h
  generalize slotSize idx = asz at h
  have hl := leftover_mallocMax 64 s s.remaining
  generalize leftover 64 s s.remaining = s1 at hl h
  have h1 := allocOneshotSlow_mallocMax s1 asz
  generalize allocOneshotSlow s1 asz = r at h1 h
  obtain ⟨s2, o2⟩ := r
  have h2 : s2.mallocMax = s.mallocMax := h1.trans hl
  cases o2 <;> simp only at h <;> (repeat' split at h) <;> (injection h with h _; subst h) <;> first | rfl | exact h2

example : (allocReusable (init 8192 0 1000) 100).1.mallocMax = 1000 := by decide

/-- slot size covers the request: the slot index is computed from `size - 1` in 64-bit arithmetic -/
theorem le_slotSize {size : Nat} (h0 : 0 < size) (h1 : size ≤ u64) (hi : slotIndex size < kSlotCount) :
    size ≤ slotSize (slotIndex size) ∧ slotSize (slotIndex size) ≤ 2048 := by
  unfold slotIndex at *
  have hm : (size + u64 - 1) % u64 = size - 1 := by unfold u64 at *; omega
  rw [hm] at hi ⊢
  generalize hx : (size - 1) ||| 15 = x at *
  have hx1 : size - 1 ≤ x := hx ▸ Nat.left_le_or
  have hx2 : 15 ≤ x := hx ▸ Nat.right_le_or
  have hlt := lt_two_pow_bitLen x
  have h4 : 4 ≤ bitLen x := by
    unfold bitLen
    split
    · omega
    · rename_i hne
      have : ¬ (x.log2 < 3) := by
        rw [Nat.log2_lt hne]; omega
      omega
  generalize hk : bitLen x - 4 = k at *
  have hb : bitLen x = k + 4 := by omega
  rw [hb] at hlt
  unfold kSlotCount at hi
  unfold slotSize
  rw [Nat.shiftLeft_eq]
  have hp : 2 ^ (k + 4) = 16 * 2 ^ k := by rw [Nat.pow_add]; omega
  have hk8 : 2 ^ k ≤ 2 ^ 7 := Nat.pow_le_pow_right (by decide) (by omega)
  have hmod : 16 * 2 ^ k % u64 = 16 * 2 ^ k := by unfold u64; omega
  rw [hmod]
  omega

/-- what `_alloc_reusable` promises: at least the requested size, at most `max 2048 size`,
and below `2^32` for an arena whose `malloc` refuses blocks of `2^32` bytes or more -/
theorem allocReusable_spec {a a' : State} {size allocated : Nat} {p : Loc}
    (h : allocReusable a size = (a', some p, allocated)) (h0 : 0 < size) (h1 : size ≤ u64) :
    size ≤ allocated ∧ allocated ≤ max 2048 size ∧ (a.mallocMax < u32 → allocated < u32) := by
  simp only [allocReusable] at h
  split at h
  · rename_i hi
    have hs := le_slotSize h0 h1 hi
    have key : allocated = slotSize (slotIndex size) := by
      split at h
      · injection h with _ h; injection h with _ h; exact h.symm
      · split at h
        · injection h with _ h; injection h with _ h; exact h.symm
        · split at h
          · injection h with _ h; injection h with _ h; exact h.symm
          · injection h with _ h; injection h with h _; cases h
    rw [key]
    refine ⟨hs.1, ?_, ?_⟩
    · omega
    · intro _; unfold u32; omega
  · split at h
    · injection h with _ h; injection h with h _; cases h
    · split at h
      · injection h with _ h; injection h with h _; cases h
      · injection h with _ h; injection h with _ h
        subst h
        refine ⟨Nat.le_refl _, by omega, ?_⟩
        intro hm; omega

/-! ## 3. vector invariant and the operations that do not allocate

`WF` is the invariant of the task statement plus `cap < 2^32` (the C++ fields are `uint32_t`; needed so that
`size := n % u32` in `resize` is the identity). -/

structure WF (v : Vec) : Prop where
  len : v.buf.length = v.cap
  le : v.size ≤ v.cap
  nodata : v.data = none → v.cap = 0
  cap32 : v.cap < u32

theorem wf_empty : WF {} := ⟨rfl, Nat.le_refl _, fun _ => rfl, by decide⟩

theorem capacity_ge_size {v : Vec} (h : WF v) : v.size ≤ v.cap := h.le

theorem length_items {v : Vec} (h : WF v) : (items v).length = v.size := by
  have := h.len; have := h.le
  simp only [items, List.length_take]; omega

theorem clear_spec {v : Vec} (h : WF v) : WF (clear v) ∧ items (clear v) = [] :=
  ⟨⟨h.len, Nat.zero_le _, h.nodata, h.cap32⟩, by simp [clear, items]⟩

example : items (clear { data := some (.dyn 0), buf := [1, 2, 3], size := 2, cap := 3 }) = [] := by decide

theorem truncate_spec {v : Vec} (h : WF v) (n : Nat) :
    WF (truncate v n) ∧ items (truncate v n) = (items v).take n := by
  refine ⟨⟨h.len, ?_, h.nodata, h.cap32⟩, ?_⟩
  · have := h.le; simp only [truncate]; omega
  · simp only [truncate, items, List.take_take, Nat.min_comm]

example : items (truncate { data := some (.dyn 0), buf := [1, 2, 3], size := 3, cap := 3 } 1) = [1] := by decide

theorem pop_spec {v : Vec} (h : WF v) (h0 : 0 < v.size) :
    WF (pop v).1 ∧ items (pop v).1 = (items v).dropLast ∧ some (pop v).2 = (items v).getLast? := by
  have hl := h.len; have hle := h.le
  refine ⟨⟨h.len, ?_, h.nodata, h.cap32⟩, ?_, ?_⟩
  · simp only [pop]; omega
  · rw [List.dropLast_eq_take, length_items h]
    simp only [pop, items, List.take_take]
    congr 1; omega
  · rw [List.getLast?_eq_getElem?, length_items h]
    simp only [pop, items, List.getD_eq_getElem?_getD]
    rw [List.getElem?_take_of_lt (by omega)]
    rw [List.getElem?_eq_getElem (by omega)]
    rfl

example : pop { data := some (.dyn 0), buf := [1, 2, 3], size := 2, cap := 3 } =
    ({ data := some (.dyn 0), buf := [1, 2, 3], size := 1, cap := 3 }, 2) := by decide

/-- `remove_at(i)`, `i < size`: the memmove stays inside the allocation and the result is `eraseIdx` -/
theorem removeAt_spec {v : Vec} (h : WF v) {i : Nat} (hi : i < v.size) :
    ∃ v', removeAt v i = some v' ∧ WF v' ∧ items v' = (items v).eraseIdx i := by
  have hl := h.len; have hle := h.le
  simp only [removeAt]
  split
  · rename_i hn
    refine ⟨_, rfl, ⟨h.len, by simp only; omega, h.nodata, h.cap32⟩, ?_⟩
    have hi' : i = v.size - 1 := by omega
    simp only [items]
    rw [List.eraseIdx_eq_take_drop_succ, List.take_take, List.drop_take]
    have : v.size - (i + 1) = 0 := by omega
    rw [this, List.take_zero, List.append_nil]
    congr 1; omega
  · rename_i hn
    have hlen : ((v.buf.drop (i + 1)).take (v.size - 1 - i)).length = v.size - 1 - i := by
      simp only [List.length_take, List.length_drop]; omega
    simp only [blit, hlen]
    rw [if_pos (by omega)]
    refine ⟨_, rfl, ⟨?_, by simp only; omega, h.nodata, h.cap32⟩, ?_⟩
    · simp only [List.length_append, List.length_take, List.length_drop]; omega
    · simp only [items]
      rw [List.eraseIdx_eq_take_drop_succ, List.take_take, List.drop_take]
      rw [List.take_left' (by simp only [List.length_append, List.length_take, List.length_drop]; omega)]
      congr 1
      · congr 1; omega
      · congr 1; omega

example : (removeAt { data := some (.dyn 0), buf := [1, 2, 3, 9], size := 3, cap := 4 } 0).map items = some [2, 3] := by
  decide

theorem contains_spec (v : Vec) (x : Nat) : contains v x = true ↔ x ∈ items v := by
  simp [contains]

example : contains { data := some (.dyn 0), buf := [1, 2, 3, 9], size := 3, cap := 4 } 9 = false := by decide

/-- `index_of` = index of the first occurrence (`List.findIdx?`) -/
theorem indexOf_spec {v : Vec} (h : WF v) (x : Nat) : indexOf v x = (items v).findIdx? (· == x) := by
  simp only [indexOf]
  rw [← length_items h]
  split
  · rename_i hlt
    exact (List.findIdx?_eq_some_iff_findIdx_eq.2 ⟨hlt, rfl⟩).symm
  · rename_i hge
    have := @List.findIdx_le_length _ (· == x) (items v)
    exact (List.findIdx?_eq_none_iff_findIdx_eq.2 (by omega)).symm

example : indexOf { data := some (.dyn 0), buf := [1, 2, 1, 9], size := 3, cap := 4 } 1 = some 0 := by decide

/-! ## 4. allocation: `reserve_with_byte_size`

Hypotheses: `0 < itemSize`, `a.mallocMax < 2^32` (then `allocated < 2^32` and `% u32` is the identity),
`0 < byteSize ≤ 2^64` (the arena computes the slot from `byteSize - 1` modulo `2^64`). -/

/-! ## 4 ff.  `reserve_*`, `resize_*`, `insert`, `concat`, `release`, `last_index_of`: `Lemmas/C18Vector2.lean`;
the sequence theorem `vec_refines_list`: `Lemmas/C18Vector3.lean`.

Pitfall recorded here: never let `Meta.whnf` or the kernel evaluate a `match`/`if` whose discriminant is an arena
call with an open size (`allocReusable a b`, `slotIndex b`): `(b + 2^64 - 1) % 2^64` is then computed by unary
recursion (`Nat.ble (2^64) …`) and does not terminate in practice.  Symptoms: `unfold`/`simp only [f]`
(equation-lemma generation) or a final `rfl` hang, `maxHeartbeats` does not fire.  Remedies used: relational
statements (`f x = (a', o, n) → …`), `simp only`/`split at h`, and for `reserveWithByteSize` the generic copy
`rwbsG` (see part 2). -/

end AsmjitVerif.Vector
