/-
C18 – `ArenaVector<T>`: proofs about `Model/Vector.lean` (on top of `Model/Arena.lean`) against the textbook
list semantics of `Spec/C18Vector.lean`.  All statements are for ALL inputs / ALL operation sequences.
-/
import AsmjitVerif.Spec.C18Vector
namespace AsmjitVerif.Vector
open AsmjitVerif.Arena

/-! ## 1. growth policy -/

theorem lt_two_pow_bitLen (x : Nat) : x < 2 ^ bitLen x := by
  unfold bitLen
  split
  · subst_vars; decide
  · exact Nat.lt_log2_self

theorem bitLen_le {x k : Nat} (h : x < 2 ^ k) : bitLen x ≤ k := by
  unfold bitLen
  split
  · omega
  · rename_i hx
    have := (Nat.log2_lt hx).2 h
    omega

theorem le_growRule (l : Nat) : l ≤ growRule l := by
  unfold growRule; (repeat' split) <;> omega

theorem growRule_le {l k : Nat} (h : l ≤ k) (hk : 8 ≤ k) : growRule l ≤ k := by
  unfold growRule; (repeat' split) <;> omega

/-- `b ≤ 2 ^ bitLen ((b-1) ||| 1)` -/
theorem le_two_pow_bitLen_pred (b : Nat) : b ≤ 2 ^ bitLen ((b - 1) ||| 1) := by
  have h1 : b - 1 ≤ (b - 1) ||| 1 := Nat.left_le_or
  have h2 := lt_two_pow_bitLen ((b - 1) ||| 1)
  omega

theorem le_alignUp (x a : Nat) (ha : 0 < a) : x ≤ alignUp x a := by
  unfold alignUp
  have h1 : (x + a - 1) % a < a := Nat.mod_lt _ ha
  have h2 := Nat.div_add_mod (x + a - 1) a
  rw [Nat.mul_comm] at h2
  omega

theorem alignUp_le (x a : Nat) : alignUp x a ≤ x + a - 1 := by
  unfold alignUp; exact Nat.div_mul_le_self _ _

/-- growth never shrinks (no upper bound on `b` is needed in the model: it computes in `Nat`) -/
theorem expand_ge' (b : Nat) : b ≤ expandByteSize b := by
  unfold expandByteSize
  split
  · rw [Nat.one_shiftLeft]
    have h1 := le_two_pow_bitLen_pred b
    have h2 : 2 ^ bitLen ((b - 1) ||| 1) ≤ 2 ^ growRule (bitLen ((b - 1) ||| 1)) :=
      Nat.pow_le_pow_right (by decide) (le_growRule _)
    omega
  · have := le_alignUp (b + 1) kGrowThreshold (by decide)
    omega

theorem expand_ge {b : Nat} (_h0 : 0 < b) (_h : b < 2 ^ 63) : b ≤ expandByteSize b := expand_ge' b

example : expandByteSize 1 = 4 ∧ expandByteSize 5 = 16 ∧ expandByteSize 100 = 256
    ∧ expandByteSize (16 * 1024 * 1024 + 1) = 32 * 1024 * 1024 := by decide

/-- the expanded size stays far below `2^64` when the request does (so the C++ `size_t` does not wrap) -/
theorem expand_le (b : Nat) : expandByteSize b ≤ b + kGrowThreshold := by
  unfold expandByteSize
  split
  · rename_i h
    rw [Nat.one_shiftLeft]
    have hb : b - 1 < 2 ^ 24 := by unfold kGrowThreshold at h; omega
    have hx : (b - 1) ||| 1 < 2 ^ 24 := Nat.or_lt_two_pow hb (by decide)
    have h3 := growRule_le (bitLen_le hx) (by decide)
    have h4 : 2 ^ growRule (bitLen ((b - 1) ||| 1)) ≤ 2 ^ 24 := Nat.pow_le_pow_right (by decide) h3
    unfold kGrowThreshold; omega
  · have := alignUp_le (b + 1) kGrowThreshold
    omega

example : expandByteSize 16777216 ≤ 16777216 + kGrowThreshold := by decide

/-! ## 2. arena facts -/

theorem leftover_mallocMax (fuel : Nat) (s : State) (size : Nat) :
    (leftover fuel s size).mallocMax = s.mallocMax := by
  induction fuel generalizing s size with
  | zero => rfl
  | succ n ih =>
    unfold leftover
    split
    · rfl
    · simp only [ih]

theorem allocOneshotSlow_mallocMax (s : State) (size : Nat) :
    (allocOneshotSlow s size).1.mallocMax = s.mallocMax := by
  unfold allocOneshotSlow
  simp only
  (repeat' split) <;> rfl

theorem allocOneshot_mallocMax (s : State) (size : Nat) :
    (allocOneshot s size).1.mallocMax = s.mallocMax := by
  unfold allocOneshot
  split
  · exact allocOneshotSlow_mallocMax s size
  · rfl

theorem freeReusable_mallocMax (s : State) (p : Loc) (size : Nat) :
    (freeReusable s p size).mallocMax = s.mallocMax := by
  simp only [freeReusable]
  split
  · rfl
  · split <;> rfl

theorem reset_mallocMax (s : State) (hard : Bool) : (reset s hard).mallocMax = s.mallocMax := by
  simp only [reset]
  split
  · split
    · rfl
    · split <;> rfl
  · rfl

theorem allocReusable_mallocMax (s : State) (size : Nat) :
    (allocReusable s size).1.mallocMax = s.mallocMax := by
  simp only [allocReusable]
  split
  · split
    · rfl
    · split
      · rfl
      · have h := allocOneshotSlow_mallocMax (leftover 64 s s.remaining) (slotSize (slotIndex size))
        rw [leftover_mallocMax] at h
        split <;> simp_all
  · split
    · rfl
    · split <;> rfl

example : (allocReusable (init 8192 0 1000) 100).1.mallocMax = 1000 := by decide

/-- slot size covers the request: the slot index is computed from `size - 1` in 64-bit arithmetic -/
theorem le_slotSize {size : Nat} (h0 : 0 < size) (h1 : size ≤ u64) (hi : slotIndex size < kSlotCount) :
    size ≤ slotSize (slotIndex size) ∧ slotSize (slotIndex size) ≤ 2048 := by
  unfold slotIndex at *
  have hm : (size + u64 - 1) % u64 = size - 1 := by unfold u64 at *; omega
  rw [hm] at hi ⊢
  generalize hx : (size - 1) ||| 15 = x at *
  have hx1 : size - 1 ≤ x := hx ▸ Nat.left_le_or
  have hx2 : 15 ≤ x := hx ▸ Nat.right_le_or
  have hlt := lt_two_pow_bitLen x
  have h4 : 4 ≤ bitLen x := by
    unfold bitLen
    split
    · omega
    · rename_i hne
      have : ¬ (x.log2 < 3) := by
        rw [Nat.log2_lt hne]; omega
      omega
  generalize hk : bitLen x - 4 = k at *
  have hb : bitLen x = k + 4 := by omega
  rw [hb] at hlt
  unfold kSlotCount at hi
  unfold slotSize
  rw [Nat.shiftLeft_eq]
  have hp : 2 ^ (k + 4) = 16 * 2 ^ k := by rw [Nat.pow_add]; omega
  have hk8 : 2 ^ k ≤ 2 ^ 7 := Nat.pow_le_pow_right (by decide) (by omega)
  have hmod : 16 * 2 ^ k % u64 = 16 * 2 ^ k := by unfold u64; omega
  rw [hmod]
  omega

/-- what `_alloc_reusable` promises: at least the requested size, at most `max 2048 size`,
and below `2^32` for an arena whose `malloc` refuses blocks of `2^32` bytes or more -/
theorem allocReusable_spec {a a' : State} {size allocated : Nat} {p : Loc}
    (h : allocReusable a size = (a', some p, allocated)) (h0 : 0 < size) (h1 : size ≤ u64) :
    size ≤ allocated ∧ allocated ≤ max 2048 size ∧ (a.mallocMax < u32 → allocated < u32) := by
  simp only [allocReusable] at h
  split at h
  · rename_i hi
    have hs := le_slotSize h0 h1 hi
    have key : allocated = slotSize (slotIndex size) := by
      split at h
      · injection h with _ h; injection h with _ h; exact h.symm
      · split at h
        · injection h with _ h; injection h with _ h; exact h.symm
        · split at h
          · injection h with _ h; injection h with _ h; exact h.symm
          · injection h with _ h; injection h with h _; cases h
    rw [key]
    refine ⟨hs.1, ?_, ?_⟩
    · omega
    · intro _; unfold u32; omega
  · split at h
    · injection h with _ h; injection h with h _; cases h
    · split at h
      · injection h with _ h; injection h with h _; cases h
      · injection h with _ h; injection h with _ h
        subst h
        refine ⟨Nat.le_refl _, by omega, ?_⟩
        intro hm; omega

example : allocReusable (init 8192 0) 100 = ({ init 8192 0 with blocks := [8144], ptr := 128, shift := 14 },
    some (.managed 0 0), 128) := by decide

end AsmjitVerif.Vector
