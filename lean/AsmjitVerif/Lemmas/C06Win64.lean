/- C06: the Win64 strategy of x86 init_func_detail (with fixes C06-2, C06-3) follows the Microsoft x64 rules. -/
import AsmjitVerif.Lemmas.C06Types
namespace AsmjitVerif.C06
open AsmjitVerif.CallConv AsmjitVerif.ABI

def ccWin64 : CallConv :=
  { arch := .x64, id := 33, strategy := 1, srSize := [8, 16, 8, 8], srAlign := [8, 16, 8, 8],
    flags := fFloatsByVec ||| fIndirectVec ||| fMmxByGp ||| fVarArgCompat, naturalAlign := 16, spillZone := 32,
    gpOrder := [zcx, zdx, 8, 9], vecOrder := [0, 1, 2, 3],
    presGp := maskOf [zbx, zsp, zbp, zsi, zdi, 12, 13, 14, 15], presVec := maskOf [6, 7, 8, 9, 10, 11, 12, 13, 14, 15] }

theorem initCallConv_win64 (e : Env) (ccid : Nat) (h : convOf e ccid = some .win64) : initCallConv e ccid = some ccWin64 := by
  obtain ⟨arch, win, darwin⟩ := e
  cases arch <;> simp [convOf] at h
  · repeat' split at h
    all_goals first | contradiction | (simp at h)
  · simp only [initCallConv, initCallConvX64]
    by_cases h32 : ccid = 32
    · simp [h32] at h
    · simp [h32] at h
      by_cases h33 : ccid = 33
      · subst h33; cases win <;> rfl
      · simp [h33] at h
        obtain ⟨hc, hw⟩ := h
        simp [hc, hw, ccWin64]
  · repeat' split at h
    all_goals first | contradiction | (simp at h)

def win64Dom (t : Nat) : Bool := (isInt t && !isAbstract t) || isMmx t || isF32F64 t || isVec t

theorem orderAt_win_gp (i : Nat) : orderAt [zcx, zdx, 8, 9] i = if i < 4 then win64Gp.getD i 0 else idBad := by
  by_cases h : i < 4
  · have : i = 0 ∨ i = 1 ∨ i = 2 ∨ i = 3 := by omega
    rcases this with rfl | rfl | rfl | rfl <;> decide
  · simp only [orderAt, h, if_false]
    split
    · have hn : ∀ (l : List Nat), l.length = 4 → l[i]? = none := fun l hl => List.getElem?_eq_none (by omega)
      simp [List.getD_eq_getElem?_getD, hn]
    · rfl

theorem orderAt_win_vec (i : Nat) : orderAt [0, 1, 2, 3] i = if i < 4 then i else idBad := by
  by_cases h : i < 4
  · have : i = 0 ∨ i = 1 ∨ i = 2 ∨ i = 3 := by omega
    rcases this with rfl | rfl | rfl | rfl <;> decide
  · simp only [orderAt, h, if_false]
    split
    · have hn : ∀ (l : List Nat), l.length = 4 → l[i]? = none := fun l hl => List.getElem?_eq_none (by omega)
      simp [List.getD_eq_getElem?_getD, hn]
    · rfl

theorem win64Gp_ne_bad (i : Nat) (h : i < 4) : win64Gp.getD i 0 ≠ idBad := by
  have : i = 0 ∨ i = 1 ∨ i = 2 ∨ i = 3 := by omega
  rcases this with rfl | rfl | rfl | rfl <;> decide

theorem win_facts : ∀ t ∈ List.range 101, win64Dom t = true →
    ((isInt t || isMmx t) = true ∧ (decide (tySize t ≤ 4) && !isMmx t) = (!isMmx t && decide (tySize t ≤ 4))
       ∧ (if tySize t ≤ 4 ∧ isMmx t = false then rtGp32 else rtGp64) = (if isMmx t = true then rtGp64 else gpView t))
    ∨ ((isInt t || isMmx t) = false ∧ (isFloat t || isVec t) = true ∧ isF32F64 t = true ∧ isFloat t = true ∧ vecTypeIdToRegType t = rtVec128)
    ∨ ((isInt t || isMmx t) = false ∧ isVec t = true ∧ isF32F64 t = false ∧ isFloat t = false) := by decide +kernel

theorem win64Dom_lt {t : Nat} (h : win64Dom t = true) : t < 101 := by
  simp only [win64Dom, isInt, isF32F64, isVec, isMmx, isAbstract, isBetween, tFloat32, tFloat64,
    Bool.or_eq_true, Bool.and_eq_true, decide_eq_true_eq, Bool.not_eq_true'] at h
  rcases h with ((⟨h, _⟩ | h) | h | h) | h <;> first | omega | (have := of_decide_eq_true h; omega)

/-- position `i`: the loop's answer is the positional rule; the running offset is `8 * max i 4` -/
theorem win64_step (i : Nat) (s : St) (t : Nat) (hoff : s.stackOffset = 8 * max i 4) (ht : win64Dom t = true) :
    (x86WinValue ccWin64 i s t).2 = win64Arg i t ∧ (x86WinValue ccWin64 i s t).1.stackOffset = 8 * max (i + 1) 4 := by
  have hm101 : t ∈ List.range 101 := List.mem_range.2 (win64Dom_lt ht)
  have hvc : (ccWin64.strategy = 2) = False := by simp [ccWin64]
  have hgo : ccWin64.gpOrder = [zcx, zdx, 8, 9] := rfl
  have hvo : ccWin64.vecOrder = [0, 1, 2, 3] := rfl
  rcases win_facts t hm101 ht with ⟨h1, _, hview⟩ | ⟨h1, h2, h3, h4, h5⟩ | ⟨h1, h2, h3, h4⟩
  · simp only [x86WinValue, h1, if_true, hgo, orderAt_win_gp]
    by_cases hk : i < 4
    · have hne := win64Gp_ne_bad i hk
      simp only [hk, if_true, hne, ne_eq, not_false_eq_true]
      refine ⟨by simp [win64Arg, h1, hk, hview], ?_⟩
      simp [hoff]; omega
    · have hmax : max i 4 = i := by omega
      simp only [hk, if_false, ne_eq, not_true_eq_false]
      refine ⟨by simp [win64Arg, h1, hk, hoff, hmax], ?_⟩
      simp [hoff]; omega
  · simp only [x86WinValue, h1, h2, if_true, if_false, Bool.false_eq_true, hvo, orderAt_win_vec, h4, Bool.true_or, Bool.and_true]
    by_cases hk : i < 4
    · have hne : i ≠ idBad := by simp [idBad]; omega
      simp only [hk, if_true, hne, ne_eq, not_false_eq_true, decide_true]
      refine ⟨by simp [win64Arg, h1, h3, hk, h5], ?_⟩
      simp [hoff]; omega
    · have hmax : max i 4 = i := by omega
      simp only [hk, if_false, ne_eq, not_true_eq_false, decide_false]
      refine ⟨by simp [win64Arg, h1, h3, hk, hoff, hmax], ?_⟩
      simp [hoff]; omega
  · simp only [x86WinValue, h1, h2, if_true, if_false, Bool.false_eq_true, hvo, hgo, orderAt_win_vec, orderAt_win_gp, h4,
      Bool.false_or, hvc, decide_false, Bool.and_false]
    by_cases hk : i < 4
    · have hne := win64Gp_ne_bad i hk
      simp only [hk, if_true, hne, ne_eq, not_false_eq_true]
      refine ⟨by simp [win64Arg, h1, h3, hk], ?_⟩
      simp [hoff]; omega
    · have hmax : max i 4 = i := by omega
      simp only [hk, if_false, ne_eq, not_true_eq_false]
      refine ⟨by simp [win64Arg, h1, h3, hk, hoff, hmax], ?_⟩
      simp [hoff]; omega

theorem win64_loop (va : Bool) : ∀ (ts : List Nat) (s : St) (older : List Nat), s.stackOffset = 8 * max older.length 4 →
    (∀ t ∈ ts, win64Dom t = true) →
    (x86ArgLoop ccWin64 va 8 older.length s ts).2 = argsFrom .win64 va older ts ∧
    (x86ArgLoop ccWin64 va 8 older.length s ts).1.stackOffset = 8 * max (older.length + ts.length) 4 := by
  intro ts
  induction ts with
  | nil => intro s older h _; exact ⟨rfl, by simpa [x86ArgLoop] using h⟩
  | cons t ts ih =>
    intro s older hI hd
    obtain ⟨hv, hI'⟩ := win64_step older.length s t hI (hd t (by simp))
    obtain ⟨ha, hI''⟩ := ih (x86WinValue ccWin64 older.length s t).1 (t :: older) (by simpa using hI') (fun u hu => hd u (by simp [hu]))
    have hstrat : (ccWin64.strategy = 1 || ccWin64.strategy = 2) = true := by decide
    have harch : ccWin64.arch = .x64 := rfl
    simp only [x86ArgLoop, hstrat, harch, unpack_x64, packLoop_single, if_true]
    simp only [List.length_cons] at ha hI''
    refine ⟨?_, ?_⟩
    · simp only [argsFrom]; simp [ha, hv]
    · simp [hI'']; omega

end AsmjitVerif.C06
