/- C20 helper lemmas: physical registers and anonymous labels are readable names (the hypotheses of the memory-operand theorems). -/
import AsmjitVerif.Lemmas.FormatX86MemFinal

namespace AsmjitVerif.Lemmas.FormatX86Mem
open AsmjitVerif.Format AsmjitVerif.FormatText AsmjitVerif.Lemmas.FormatLex AsmjitVerif.Lemmas.FormatNum
open AsmjitVerif.Gen.FormatTabs

set_option maxRecDepth 1000000

def cleanChar (c : Char) : Bool :=
  c != '+' && c != '-' && c != '*' && c != ' ' && c != '[' && c != ']' && c != ',' && c != '!' && c != '{' && c != '}'

def nameLikeB (t : Str) : Bool := !t.isEmpty && t.all cleanChar && !startsWithDigit t && t.head? != some '&'

theorem nameLike_of_B (t : Str) (h : nameLikeB t = true) : NameLike t := by
  simp only [nameLikeB, Bool.and_eq_true, Bool.not_eq_true', List.all_eq_true, bne_iff_ne, ne_eq] at h
  obtain ⟨⟨⟨h1, h2⟩, h3⟩, h4⟩ := h
  refine ⟨by intro e; subst e; simp at h1, ?_, h3, h4⟩
  intro c hc
  have := h2 c hc
  simp only [cleanChar, Bool.and_eq_true, bne_iff_ne, ne_eq] at this
  obtain ⟨⟨⟨⟨⟨⟨⟨⟨⟨a1, a2⟩, a3⟩, a4⟩, a5⟩, a6⟩, a7⟩, a8⟩, a9⟩, a10⟩ := this
  exact ⟨a1, a2, a3, a4, a5, a6, a7, a8, a9, a10⟩

theorem x86_names_like : ∀ p ∈ x86Regs, nameLikeB p.2.2 = true := by decide +kernel
theorem a64_names_like : ∀ p ∈ a64Regs, nameLikeB p.2.2 = true := by decide +kernel
theorem x86_names_printed : ∀ p ∈ x86Regs, x86PhysRegName p.1 p.2.1 = p.2.2 := by decide +kernel
theorem x86_names_read : ∀ p ∈ x86Regs, lookupName x86Regs p.2.2 = some (p.1, p.2.1) := by decide +kernel
theorem x86_ids_small : ∀ p ∈ x86Regs, p.2.1 < 256 := by decide +kernel

theorem virtLookup_small (env : Env) (id : Nat) (h : id < 256) : virtLookup env id = none := by
  have : isVirtId id = false := by
    unfold isVirtId kVirtIdMin
    have h' : ¬ (256 ≤ id) := by omega
    simp [h']
  simp [virtLookup, this]

/-- every architecturally named x86 register is a readable name, whatever the flags and the emitter -/
theorem x86_phys_regOK (flags : Nat) (env : Env) (harch : env.arch ≠ Arch.a64) (t id : Nat) (n : Str) (hp : (t, id, n) ∈ x86Regs) :
    RegOK env (x86FormatRegister flags env t id) t id := by
  have hsmall := x86_ids_small _ hp
  have hvl := virtLookup_small env id hsmall
  have htxt : x86FormatRegister flags env t id = n := by
    simp only [x86FormatRegister, hvl]; exact x86_names_printed _ hp
  have harchregs : archRegs env = x86Regs := by
    unfold archRegs; cases h : env.arch <;> simp_all
  rw [htxt]
  refine ⟨nameLike_of_B n (x86_names_like _ hp), .phys t id, ?_, ?_⟩
  · simp [parseReg, harchregs, x86_names_read _ hp]
  · simp [denoteReg, hvl, regAgrees]

end AsmjitVerif.Lemmas.FormatX86Mem
