/- helper lemmas about the bit operations of Model/X86RW.lean (used by Props/C12.lean) -/
import AsmjitVerif.Model.X86RW
namespace Lemmas.X86RW
open Model.X86RW

theorem has_lor_self (x f : Nat) (hf : f ≠ 0) : has (Nat.lor x f) f = true := by
  unfold has
  have : Nat.land (Nat.lor x f) f = f := by
    show (x ||| f) &&& f = f
    apply Nat.eq_of_testBit_eq; intro i
    simp only [Nat.testBit_and, Nat.testBit_or]
    cases x.testBit i <;> cases f.testBit i <;> rfl
  have h2 : (x ||| f) &&& f = f := this
  simp only [bne_iff_ne, ne_eq]
  show ¬ ((x ||| f) &&& f = 0)
  rw [h2]; exact hf

theorem testBit_mask64 (i : Nat) : mask64.testBit i = decide (i < 64) := by
  have : mask64 = 2 ^ 64 - 1 := by decide
  rw [this, Nat.testBit_two_pow_sub_one]
theorem testBit_ff (i : Nat) : (0xFF : Nat).testBit i = decide (i < 8) := by
  have : (0xFF : Nat) = 2 ^ 8 - 1 := by decide
  rw [this, Nat.testBit_two_pow_sub_one]

end Lemmas.X86RW
