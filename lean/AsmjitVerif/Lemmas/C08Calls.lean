/- C08: front-end lemmas shared by serialize_replays and serialize_groups: how one emitter call changes the specification state,
   stated as "nodes appended to the document + calls they replay as", against the Assembler-side semantics of Spec/BuilderCalls.lean. -/
import AsmjitVerif.Lemmas.C08Replay
import AsmjitVerif.Spec.BuilderCalls

namespace AsmjitVerif.Builder
open Spec

theorem normOps_eq (ops : List Operand) : normOps ops = normalizeOps ops := rfl

/-- the tables of the Builder front end agree with the Assembler-side state -/
structure FRel (t : Spec.St) (a : ASt) : Prop where
  regSize : t.f.regSize = a.regSize
  nLabels : t.f.labelNodes.length = a.nLabels
  nSections : t.f.nSections = a.nSections
  opts : t.f.opts = a.opts
  extra : t.f.extra = a.extra
  cmt : t.f.cmt = a.cmt
  fresh : ∀ n ∈ t.d.items, n < t.f.nodes.length
  lab : ∀ l, l < a.nLabels → ∃ n, t.f.labelNodes.getD l none = some n ∧ n < t.f.nodes.length ∧ nodeAt t.f n = .label l
  bound : ∀ l n, l < a.nLabels → t.f.labelNodes.getD l none = some n → (n ∈ t.d.items ↔ l ∈ a.bound)
  bnd : ∀ l ∈ a.bound, l < a.nLabels

/-- payload of old nodes is not disturbed by appending to the store -/
theorem nodeAt_prefix (f f' : Front) (ext : List Node) (h : f'.nodes = f.nodes ++ ext) (n : Nat) (hn : n < f.nodes.length) :
    nodeAt f' n = nodeAt f n := by
  simp [nodeAt, h, List.getD_eq_getElem?_getD, List.getElem?_append_left hn]

theorem lin_prefix (t : Spec.St) (f' : Front) (ext : List Node) (h : f'.nodes = t.f.nodes ++ ext)
    (hf : ∀ n ∈ t.d.items, n < t.f.nodes.length) :
    t.d.items.map (fun n => (nodeAt f' n).toCall) = linearize t := by
  simp only [linearize]
  apply List.map_congr_left
  intro n hn
  rw [nodeAt_prefix _ _ ext h n (hf n hn)]

/-- adding a node that is not linked, with the gap at the end -/
theorem doc_add_end (d : Doc) (n : Nat) (hn : n ∉ d.items) (hg : d.gap = d.items.length) :
    d.apply (.add n) = { d with items := d.items ++ [n], gap := d.items.length + 1 } := by
  simp only [Doc.apply]
  rw [if_neg (by simp [Doc.has, hn]), hg, List.insertIdx_length_self]

end AsmjitVerif.Builder
