/- C07 helper lemmas for the AArch64 prolog / epilog: `stp/ldp` steps and the pair-slot bracket. -/
import AsmjitVerif.Lemmas.FrameX86
namespace AsmjitVerif.Frame

theorem reg_setReg (s : St) (g r v g' r' : Nat) :
    (s.setReg g r v).reg g' r' = if g' = g ∧ r' = r then v else s.reg g' r' := by
  unfold St.setReg St.reg
  by_cases hg : g = 0
  · subst hg
    by_cases hg' : g' = 0
    · subst hg'; simp [setGp_gp]
    · simp [hg']
  · by_cases hg' : g' = 0
    · subst hg'
      have : ¬ (0 = g) := fun h => hg h.symm
      simp [hg, this]
    · simp [hg, hg', setX_x]

@[simp] theorem setReg_mem (s : St) (g r v : Nat) : (s.setReg g r v).mem = s.mem := by
  unfold St.setReg; split <;> rfl
@[simp] theorem setReg_ret (s : St) (g r v : Nat) : (s.setReg g r v).ret = s.ret := by
  unfold St.setReg; split <;> rfl

/-- registers of a slot with their byte offset inside the slot -/
def pRegs (p : PSlot) : List (Nat × Nat) :=
  (p.2.2.1, 0) :: (match p.2.2.2.1 with | some r2 => [(r2, p.2.1)] | none => [])
def pBytes (p : PSlot) : Nat := p.2.1 * (pRegs p).length
def pKeys (p : PSlot) : List (Nat × Nat) := (pRegs p).map fun rd => (p.1, rd.1)
def keysOf (items : List (PSlot × Bool)) : List (Nat × Nat) := items.flatMap fun it => pKeys it.1

def stFix (p : PSlot) : Instr := Instr.stp p.1 p.2.1 p.2.2.1 p.2.2.2.1 31 (toI32 p.2.2.2.2) .fixed
def ldFix (p : PSlot) : Instr := Instr.ldp p.1 p.2.1 p.2.2.1 p.2.2.2.1 31 (toI32 p.2.2.2.2) .fixed
def stItem (it : PSlot × Bool) : List Instr := stFix it.1 :: (if it.2 then [Instr.mov 29 31] else [])

/-- memory after storing the registers of `p` at address `a` -/
def pStore (s : St) (p : PSlot) (a : Nat) : Mem :=
  let m1 := storeBytes s.mem a p.2.1 (s.reg p.1 p.2.2.1)
  match p.2.2.2.1 with
  | some r2 => storeBytes m1 (a + p.2.1) p.2.1 (s.reg p.1 r2)
  | none => m1

/-- state after loading the registers of `p` from address `a` of memory `m` -/
def pLoad (s : St) (m : Mem) (p : PSlot) (a : Nat) : St :=
  let s1 := s.setReg p.1 p.2.2.1 (loadBytes m a p.2.1)
  match p.2.2.2.1 with
  | some r2 => s1.setReg p.1 r2 (loadBytes m (a + p.2.1) p.2.1)
  | none => s1

theorem pStore_other (s : St) (p : PSlot) (a x : Nat) (h : x < a ∨ a + pBytes p ≤ x) : pStore s p a x = s.mem x := by
  obtain ⟨g, sz, r1, r2, off⟩ := p
  unfold pStore pBytes pRegs at *
  cases r2 with
  | none =>
    simp only [List.length_cons, List.length_nil] at h
    dsimp only at h ⊢
    exact storeBytes_other _ _ _ _ _ (by omega)
  | some r2 =>
    simp only [List.length_cons, List.length_nil] at h
    dsimp only at h ⊢
    have : sz * (0 + 1 + 1) = sz + sz := by omega
    rw [this] at h
    rw [storeBytes_other _ _ _ _ _ (by omega), storeBytes_other _ _ _ _ _ (by omega)]

/-- every register of the slot reads back (in the bytes of its view) -/
theorem pStore_load (s : St) (p : PSlot) (a : Nat) (rd : Nat × Nat) (h : rd ∈ pRegs p) :
    loadBytes (pStore s p a) (a + rd.2) p.2.1 = s.reg p.1 rd.1 % 256 ^ p.2.1 := by
  obtain ⟨g, sz, r1, r2, off⟩ := p
  unfold pStore pRegs at *
  cases r2 with
  | none =>
    simp only [List.mem_cons, List.not_mem_nil, or_false] at h
    subst h
    dsimp only
    exact loadBytes_store_same _ _ _ _
  | some r2 =>
    simp only [List.mem_cons, List.not_mem_nil, or_false] at h
    rcases h with h | h <;> subst h <;> dsimp only
    · rw [loadBytes_store_other _ _ _ _ _ _ (by omega)]
      exact loadBytes_store_same _ _ _ _
    · exact loadBytes_store_same _ _ _ _

theorem spAccessOk_a64 (s : St) (h : s.gp 31 % 16 = 0) : spAccessOk .a64 s 31 = true := by
  simp [spAccessOk, Arch.isA64, Arch.spId, h]

theorem step_stFix (p : PSlot) (s : St) (hr : s.ret = none) (hal : s.gp 31 % 16 = 0) (hoff : p.2.2.2.2 < 2 ^ 31) :
    step .a64 (stFix p) s = some { s with mem := pStore s p (s.gp 31 + p.2.2.2.2) } := by
  obtain ⟨g, sz, r1, r2, off⟩ := p
  simp only [stFix, step, isSome_false_of_none hr, Bool.false_eq_true, if_false, spAccessOk_a64 s hal, Bool.not_true,
    toI32_small off hoff, addrOf_nat, Option.bind_some]
  cases r2 <;> simp [pStore]

theorem step_ldFix (p : PSlot) (s : St) (hr : s.ret = none) (hal : s.gp 31 % 16 = 0) (hoff : p.2.2.2.2 < 2 ^ 31) :
    step .a64 (ldFix p) s = some (pLoad s s.mem p (s.gp 31 + p.2.2.2.2)) := by
  obtain ⟨g, sz, r1, r2, off⟩ := p
  simp only [ldFix, step, isSome_false_of_none hr, Bool.false_eq_true, if_false, spAccessOk_a64 s hal, Bool.not_true,
    toI32_small off hoff, addrOf_nat, Option.bind_some]
  cases r2 <;> simp [pLoad]

def itemsAsc : Nat → List (PSlot × Bool) → Prop
  | _, [] => True
  | lo, it :: rest => lo ≤ it.1.2.2.2.2 ∧ itemsAsc (it.1.2.2.2.2 + pBytes it.1) rest

def itemsEnd : Nat → List (PSlot × Bool) → Nat
  | lo, [] => lo
  | _, it :: rest => itemsEnd (it.1.2.2.2.2 + pBytes it.1) rest

theorem itemsEnd_ge : ∀ (items : List (PSlot × Bool)) (lo : Nat), itemsAsc lo items → lo ≤ itemsEnd lo items := by
  intro items
  induction items with
  | nil => intro lo _; exact Nat.le_refl _
  | cons it rest ih =>
    intro lo h
    have := ih _ h.2
    simp only [itemsEnd]
    have := h.1
    omega

/-- `mov x29, sp` may only follow a store when no later slot saves x29 -/
def mvOk : List (PSlot × Bool) → Prop
  | [] => True
  | it :: rest => (it.2 = true → (0, 29) ∉ keysOf rest) ∧ mvOk rest

theorem pLoad_reg (s : St) (m : Mem) (p : PSlot) (a : Nat) (hnd : (pKeys p).Nodup) :
    (∀ rd ∈ pRegs p, (pLoad s m p a).reg p.1 rd.1 = loadBytes m (a + rd.2) p.2.1)
    ∧ (∀ g r, (g, r) ∉ pKeys p → (pLoad s m p a).reg g r = s.reg g r)
    ∧ (pLoad s m p a).mem = s.mem ∧ (pLoad s m p a).ret = s.ret := by
  obtain ⟨g, sz, r1, r2, off⟩ := p
  unfold pLoad pRegs pKeys at *
  cases r2 with
  | none =>
    dsimp only at hnd ⊢
    refine ⟨?_, ?_, by simp, by simp⟩
    · intro rd hrd
      simp only [pRegs, List.mem_cons, List.not_mem_nil, or_false] at hrd
      subst hrd
      rw [reg_setReg]; simp
    · intro g' r' hk
      simp only [pRegs, List.map_cons, List.map_nil, List.mem_cons, List.not_mem_nil, or_false] at hk
      rw [reg_setReg, if_neg]
      intro ⟨h1, h2⟩; exact hk (by rw [h1, h2])
  | some r2 =>
    dsimp only at hnd ⊢
    simp only [pRegs, List.map_cons, List.map_nil, List.nodup_cons, List.mem_cons, List.not_mem_nil, or_false,
      not_false_eq_true, List.nodup_nil, and_true] at hnd
    have hne : r1 ≠ r2 := fun h => hnd (by rw [h])
    refine ⟨?_, ?_, by simp, by simp⟩
    · intro rd hrd
      simp only [pRegs, List.mem_cons, List.not_mem_nil, or_false] at hrd
      rcases hrd with hrd | hrd <;> subst hrd
      · rw [reg_setReg, if_neg (by intro ⟨_, h⟩; exact hne h), reg_setReg]; simp
      · rw [reg_setReg]; simp
    · intro g' r' hk
      simp only [pRegs, List.map_cons, List.map_nil, List.mem_cons, List.not_mem_nil, or_false] at hk
      rw [reg_setReg, if_neg (by intro ⟨h1, h2⟩; exact hk (Or.inr (by rw [h1, h2]))),
        reg_setReg, if_neg (by intro ⟨h1, h2⟩; exact hk (Or.inl (by rw [h1, h2])))]

theorem pLoad_gp31 (s : St) (m : Mem) (p : PSlot) (a : Nat) (h : (0, 31) ∉ pKeys p) : (pLoad s m p a).gp 31 = s.gp 31 := by
  have hnd := h
  obtain ⟨g, sz, r1, r2, off⟩ := p
  unfold pLoad pKeys pRegs at *
  have hreg : ∀ t : St, t.gp 31 = t.reg 0 31 := fun t => by simp [St.reg]
  cases r2 with
  | none =>
    dsimp only at h ⊢
    simp only [List.map_cons, List.map_nil, List.mem_cons, List.not_mem_nil, or_false] at h
    rw [hreg, reg_setReg, if_neg (by intro ⟨h1, h2⟩; exact h (by rw [← h1, ← h2])), ← hreg]
  | some r2 =>
    dsimp only at h ⊢
    simp only [List.map_cons, List.map_nil, List.mem_cons, List.not_mem_nil, or_false] at h
    rw [hreg, reg_setReg, if_neg (by intro ⟨h1, h2⟩; exact h (Or.inr (by rw [← h1, ← h2]))),
      reg_setReg, if_neg (by intro ⟨h1, h2⟩; exact h (Or.inl (by rw [← h1, ← h2]))), ← hreg]

theorem reg_setGp (s : St) (r v g' r' : Nat) :
    (s.setGp r v).reg g' r' = if g' = 0 ∧ r' = r then v else s.reg g' r' := by
  have := reg_setReg s 0 r v g' r'
  simpa [St.setReg] using this

/-- **pair-slot bracket (AArch64).** Storing register pairs into ascending slots relative to `sp = Q`
(with `mov x29, sp` allowed after a store once x29 is no longer to be saved), then anything that keeps `sp`
and the slot bytes, then loading the pairs in reverse order restores every saved register. -/
theorem a64_bracket (Q : Nat) (hQ : Q % 16 = 0) (items : List (PSlot × Bool)) : ∀ (lo : Nat) (s : St),
    itemsAsc lo items → (keysOf items).Nodup → (0, 31) ∉ keysOf items → mvOk items →
    (∀ it ∈ items, it.1.2.2.2.2 + pBytes it.1 < 2 ^ 31) → s.ret = none → s.gp 31 = Q →
    ∃ t1, run .a64 (items.flatMap stItem) s = some t1
      ∧ t1.gp 31 = Q ∧ (∀ r, (r ≠ 29 ∨ ∀ it ∈ items, it.2 = false) → t1.gp r = s.gp r) ∧ t1.x = s.x ∧ t1.ret = none
      ∧ (t1.gp 29 = s.gp 29 ∨ t1.gp 29 = Q)
      ∧ (∀ x, x < Q + lo ∨ Q + itemsEnd lo items ≤ x → t1.mem x = s.mem x)
      ∧ ∀ t2 : St, t2.gp 31 = Q → t2.ret = none →
          (∀ x, Q + lo ≤ x → x < Q + itemsEnd lo items → t2.mem x = t1.mem x) →
          ∃ t3, run .a64 (items.reverse.map (fun it => ldFix it.1)) t2 = some t3 ∧ t3.mem = t2.mem ∧ t3.ret = none
            ∧ (∀ it ∈ items, ∀ rd ∈ pRegs it.1, t3.reg it.1.1 rd.1 = s.reg it.1.1 rd.1 % 256 ^ it.1.2.1)
            ∧ (∀ g r, (g, r) ∉ keysOf items → t3.reg g r = t2.reg g r) := by
  induction items with
  | nil =>
    intro lo s _ _ _ _ _ hret hsp
    refine ⟨s, by simp [run], hsp, fun _ _ => rfl, rfl, hret, Or.inl rfl, fun _ _ => rfl, ?_⟩
    intro t2 _ h2 _
    exact ⟨t2, by simp [run], rfl, h2, by simp, fun _ _ _ => rfl⟩
  | cons it rest ih =>
    intro lo s hasc hnd h31 hmv hoff hret hsp
    obtain ⟨p, mv⟩ := it
    obtain ⟨hlo, hasc'⟩ := hasc
    obtain ⟨hmv0, hmv'⟩ := hmv
    have hkeys : keysOf ((p, mv) :: rest) = pKeys p ++ keysOf rest := by simp [keysOf]
    rw [hkeys] at hnd h31
    rw [List.nodup_append] at hnd
    obtain ⟨hndp, hndr, hdisj⟩ := hnd
    have h31p : (0, 31) ∉ pKeys p := fun h => h31 (List.mem_append_left _ h)
    have h31r : (0, 31) ∉ keysOf rest := fun h => h31 (List.mem_append_right _ h)
    have hoffp : p.2.2.2.2 + pBytes p < 2 ^ 31 := hoff (p, mv) (by simp)
    have hend := itemsEnd_ge rest _ hasc'
    dsimp only at hlo hasc' hmv0 hend
    -- the store
    let s' : St := { s with mem := pStore s p (Q + p.2.2.2.2) }
    have hst : step .a64 (stFix p) s = some s' := by
      rw [step_stFix p s hret (by rw [hsp]; exact hQ) (by omega), hsp]
    -- the optional mov
    have hmov : ∃ s'', run .a64 (if mv then [Instr.mov 29 31] else []) s' = some s'' ∧ s''.mem = s'.mem ∧ s''.x = s.x
        ∧ s''.ret = none ∧ s''.gp 31 = Q ∧ (∀ r, (r ≠ 29 ∨ mv = false) → s''.gp r = s.gp r)
        ∧ (∀ g r, ((g, r) ≠ (0, 29) ∨ mv = false) → s''.reg g r = s.reg g r)
        ∧ (s''.gp 29 = s.gp 29 ∨ s''.gp 29 = Q) := by
      cases mv with
      | false =>
        exact ⟨s', by simp [run], rfl, rfl, hret, hsp, fun _ _ => rfl, fun _ _ _ => rfl, Or.inl rfl⟩
      | true =>
        refine ⟨s'.setGp 29 (s'.gp 31), run_one _ _ _ _ (step_mov _ 29 31 s' hret), rfl, rfl, hret, ?_, ?_, ?_,
          Or.inr (by simp only [setGp_gp, if_true]; exact hsp)⟩
        · simp only [setGp_gp]; rw [if_neg (by omega)]; exact hsp
        · intro r hr
          rcases hr with hr | hr
          · simp only [setGp_gp]; rw [if_neg hr]
          · exact absurd hr (by simp)
        · intro g r hgr
          rcases hgr with hgr | hgr
          · rw [reg_setGp, if_neg (by intro ⟨h1, h2⟩; exact hgr (by rw [h1, h2]))]; rfl
          · exact absurd hgr (by simp)
    obtain ⟨s'', rmov, m''mem, m''x, m''ret, m''sp, m''gp, m''reg, m''29⟩ := hmov
    have hregrest : ∀ g r, (g, r) ∈ keysOf rest → s''.reg g r = s.reg g r := by
      intro g r hgr
      apply m''reg
      cases hm : mv with
      | false => exact Or.inr rfl
      | true =>
        left; intro h; rw [h] at hgr; exact hmv0 hm hgr
    obtain ⟨t1, rrest, t1sp, t1gp, t1x, t1ret, t129, t1mem, hload⟩ :=
      ih (p.2.2.2.2 + pBytes p) s'' hasc' hndr h31r hmv' (fun it hit => hoff it (List.mem_cons_of_mem _ hit)) m''ret m''sp
    have h29 : t1.gp 29 = s.gp 29 ∨ t1.gp 29 = Q := by
      rcases t129 with h | h
      · rcases m''29 with h2 | h2
        · exact Or.inl (h.trans h2)
        · exact Or.inr (h.trans h2)
      · exact Or.inr h
    refine ⟨t1, ?_, t1sp, ?_, by rw [t1x, m''x], t1ret, h29, ?_, ?_⟩
    · rw [List.flatMap_cons, run_append]
      show (run Arch.a64 (stFix p :: (if mv then [Instr.mov 29 31] else [])) s).bind _ = _
      simp only [run, hst, Option.bind_some]
      rw [rmov, Option.bind_some]; exact rrest
    · intro r hr
      rw [t1gp r (by
        rcases hr with hr | hr
        · exact Or.inl hr
        · exact Or.inr (fun it hit => hr it (List.mem_cons_of_mem _ hit)))]
      apply m''gp
      rcases hr with hr | hr
      · exact Or.inl hr
      · exact Or.inr (hr (p, mv) (by simp))
    · intro x hx
      simp only [itemsEnd] at hx
      rw [t1mem x (by omega), m''mem]
      exact pStore_other s p _ x (by omega)
    · intro t2 h2sp h2ret h2mem
      simp only [itemsEnd] at h2mem
      obtain ⟨t3', rl, t3'mem, t3'ret, t3'in, t3'out⟩ :=
        hload t2 h2sp h2ret (fun x h1 h2 => h2mem x (by omega) h2)
      have t3'sp : t3'.gp 31 = Q := by
        have := t3'out 0 31 h31r
        simp only [St.reg, if_true] at this
        rw [this]; exact h2sp
      have hld : step .a64 (ldFix p) t3' = some (pLoad t3' t3'.mem p (Q + p.2.2.2.2)) := by
        rw [step_ldFix p t3' t3'ret (by rw [t3'sp]; exact hQ) (by omega), t3'sp]
      obtain ⟨pl1, pl2, pl3, pl4⟩ := pLoad_reg t3' t3'.mem p (Q + p.2.2.2.2) hndp
      refine ⟨pLoad t3' t3'.mem p (Q + p.2.2.2.2), ?_, by rw [pl3, t3'mem], by rw [pl4, t3'ret], ?_, ?_⟩
      · rw [List.reverse_cons, List.map_append, run_append, rl, Option.bind_some]
        exact run_one _ _ _ _ hld
      · intro it hit rd hrd
        rcases List.mem_cons.mp hit with hit | hit
        · subst hit
          dsimp only at hrd ⊢
          rw [pl1 rd hrd, ← pStore_load s p (Q + p.2.2.2.2) rd hrd]
          apply loadBytes_congr
          intro x hx1 hx2
          have hrdle : rd.2 + p.2.1 ≤ pBytes p := by
            obtain ⟨g, sz, r1, r2, off⟩ := p
            unfold pBytes pRegs at *
            cases r2 with
            | none =>
              simp only [List.mem_cons, List.not_mem_nil, or_false] at hrd; subst hrd
              simp
            | some r2 =>
              simp only [List.mem_cons, List.not_mem_nil, or_false] at hrd
              dsimp only
              simp only [List.length_cons, List.length_nil]
              rcases hrd with hrd | hrd <;> subst hrd <;> dsimp only <;> omega
          rw [t3'mem, h2mem x (by omega) (by omega), t1mem x (Or.inl (by omega)), m''mem]
        · have hk : (it.1.1, rd.1) ∈ keysOf rest := by
            unfold keysOf; rw [List.mem_flatMap]
            exact ⟨it, hit, by unfold pKeys; rw [List.mem_map]; exact ⟨rd, hrd, rfl⟩⟩
          have hnp : (it.1.1, rd.1) ∉ pKeys p := fun h => hdisj _ h _ hk rfl
          rw [pl2 _ _ hnp, t3'in it hit rd hrd, hregrest _ _ hk]
      · intro g r hgr
        rw [hkeys, List.mem_append] at hgr
        rw [pl2 g r (fun h => hgr (Or.inl h)), t3'out g r (fun h => hgr (Or.inr h))]

/-! ### the pair that carries the `sp` adjustment (pre / post index) and the `sub/add` of the frame -/

def stPre (total : Nat) (p : PSlot) : Instr := Instr.stp p.1 p.2.1 p.2.2.1 p.2.2.2.1 31 (-(toI32 total)) .pre
def ldPost (total : Nat) (p : PSlot) : Instr := Instr.ldp p.1 p.2.1 p.2.2.1 p.2.2.2.1 31 (toI32 total) .post

theorem step_stPre (total : Nat) (p : PSlot) (s : St) (hr : s.ret = none) (hal : s.gp 31 % 16 = 0)
    (ht : total < 2 ^ 31) (hroom : total ≤ s.gp 31) :
    step .a64 (stPre total p) s = some (({ s with mem := pStore s p (s.gp 31 - total) }).setGp 31 (s.gp 31 - total)) := by
  obtain ⟨g, sz, r1, r2, off⟩ := p
  simp only [stPre, step, isSome_false_of_none hr, Bool.false_eq_true, if_false, spAccessOk_a64 s hal, Bool.not_true,
    toI32_small total ht, addrOf_neg _ _ hroom, Option.bind_some]
  cases r2 <;> simp [pStore]

theorem step_ldPost (total : Nat) (p : PSlot) (s : St) (hr : s.ret = none) (hal : s.gp 31 % 16 = 0) (ht : total < 2 ^ 31) :
    step .a64 (ldPost total p) s = some (pLoad (s.setGp 31 (s.gp 31 + total)) s.mem p (s.gp 31)) := by
  obtain ⟨g, sz, r1, r2, off⟩ := p
  simp only [ldPost, step, isSome_false_of_none hr, Bool.false_eq_true, if_false, spAccessOk_a64 s hal, Bool.not_true,
    toI32_small total ht, addrOf_nat, Option.bind_some]
  cases r2 <;> simp [pLoad]

theorem adj_split (adj : Nat) (h : adj ≤ 0xFFFFFF) : (adj &&& 0xFFF) + (adj &&& 0xFFF000) = adj := by
  have h1 : adj &&& 0xFFF = adj % 2 ^ 12 := Nat.and_two_pow_sub_one_eq_mod adj 12
  have h2 : adj &&& 0xFFF000 = adj - adj % 2 ^ 12 := and_neg_pow2_n 24 adj 12 (by omega) (by omega)
  rw [h1, h2]
  have := Nat.mod_le adj (2 ^ 12)
  omega

/-- `sub sp, sp, #adj` in one or two instructions -/
theorem run_a64_sub (adj : Nat) (s : St) (hr : s.ret = none) (hroom : adj ≤ s.gp 31) (l : List Instr)
    (h : a64Adjust adj (Instr.sub 31) = some l) :
    ∃ t, run .a64 l s = some t ∧ t.gp 31 = s.gp 31 - adj ∧ (∀ r, r ≠ 31 → t.gp r = s.gp r) ∧ t.x = s.x ∧ t.mem = s.mem
      ∧ t.ret = none := by
  unfold a64Adjust at h
  split at h
  · rename_i h0
    injection h with h; subst h
    exact ⟨s, rfl, by omega, fun _ _ => rfl, rfl, rfl, hr⟩
  · split at h
    · injection h with h; subst h
      refine ⟨_, run_one _ _ _ _ (step_sub _ 31 adj s hr hroom), by simp, fun r hr' => by simp [hr'], rfl, rfl, hr⟩
    · split at h
      · rename_i _ _ hle
        injection h with h; subst h
        have hs := adj_split adj hle
        have h1 := step_sub .a64 31 (adj &&& 0xFFF) s hr (by omega)
        have h2 := step_sub .a64 31 (adj &&& 0xFFF000) (s.setGp 31 (s.gp 31 - (adj &&& 0xFFF))) hr (by simp; omega)
        refine ⟨(s.setGp 31 (s.gp 31 - (adj &&& 0xFFF))).setGp 31
          ((s.setGp 31 (s.gp 31 - (adj &&& 0xFFF))).gp 31 - (adj &&& 0xFFF000)), ?_, ?_,
          fun r hr' => by simp [hr'], rfl, rfl, hr⟩
        · show (step .a64 _ s).bind (fun s' => (step .a64 _ s').bind (run .a64 [])) = _
          rw [h1]; simp only [Option.bind_some]; rw [h2]; rfl
        · simp only [setGp_gp, if_true]; omega
      · exact absurd h (by simp)

/-- `add sp, sp, #adj` in one or two instructions -/
theorem run_a64_add (adj : Nat) (s : St) (hr : s.ret = none) (l : List Instr)
    (h : a64Adjust adj (Instr.add 31) = some l) :
    ∃ t, run .a64 l s = some t ∧ t.gp 31 = s.gp 31 + adj ∧ (∀ r, r ≠ 31 → t.gp r = s.gp r) ∧ t.x = s.x ∧ t.mem = s.mem
      ∧ t.ret = none := by
  unfold a64Adjust at h
  split at h
  · rename_i h0
    injection h with h; subst h
    exact ⟨s, rfl, by omega, fun _ _ => rfl, rfl, rfl, hr⟩
  · split at h
    · injection h with h; subst h
      refine ⟨_, run_one _ _ _ _ (step_add _ 31 adj s hr), by simp, fun r hr' => by simp [hr'], rfl, rfl, hr⟩
    · split at h
      · rename_i _ _ hle
        injection h with h; subst h
        have hs := adj_split adj hle
        have h1 := step_add .a64 31 (adj &&& 0xFFF) s hr
        have h2 := step_add .a64 31 (adj &&& 0xFFF000) (s.setGp 31 (s.gp 31 + (adj &&& 0xFFF))) hr
        refine ⟨(s.setGp 31 (s.gp 31 + (adj &&& 0xFFF))).setGp 31
          ((s.setGp 31 (s.gp 31 + (adj &&& 0xFFF))).gp 31 + (adj &&& 0xFFF000)), ?_, ?_,
          fun r hr' => by simp [hr'], rfl, rfl, hr⟩
        · show (step .a64 _ s).bind (fun s' => (step .a64 _ s').bind (run .a64 [])) = _
          rw [h1]; simp only [Option.bind_some]; rw [h2]; rfl
        · simp only [setGp_gp, if_true]; omega
      · exact absurd h (by simp)

end AsmjitVerif.Frame
