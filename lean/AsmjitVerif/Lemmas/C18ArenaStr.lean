/-
C18 – `Arena::dup` and `ArenaString<N>::set_data` (Model/ArenaStr.lean): functional correctness for all inputs and
a refinement theorem (an `ArenaString` behaves like the byte list last stored successfully, always NUL terminated).
-/
import AsmjitVerif.Model.ArenaStr
namespace AsmjitVerif.ArenaStr
open AsmjitVerif.Arena

/-! ### `dup` with the allocator answer as a parameter (keeps `allocOneshot` out of `whnf`) -/

/-- body of `dup` behind the emptiness test, the allocator answer being a parameter -/
def dupWith (r : State × Option Loc) (bytes : List Nat) (nt : Bool) : State × Option (Loc × Nat × List Nat) :=
  match r with
  | (a', none) => (a', none)
  | (a', some p) =>
    (a', some (p, alignUp (bytes.length + (if nt then 1 else 0)) 8,
      bytes ++ (List.replicate (alignUp (bytes.length + (if nt then 1 else 0)) 8 - 8) 0xCD
        ++ List.replicate 8 0).drop bytes.length))

theorem dup_eq (a : State) (bytes : List Nat) (nt : Bool) :
    dup a bytes nt = if bytes.isEmpty then (a, none)
      else dupWith (allocOneshot a (alignUp (bytes.length + (if nt then 1 else 0)) 8)) bytes nt := rfl

theorem dup_nil (a : State) (nt : Bool) : dup a [] nt = (a, none) := rfl

theorem alignUp8 (x : Nat) : alignUp x 8 % 8 = 0 ∧ x ≤ alignUp x 8 ∧ alignUp x 8 < x + 8 := by
  unfold alignUp; omega

/-- contents of a duplicated block -/
theorem dup_block (bytes : List Nat) (A : Nat) (hA : bytes.length ≤ A) (h8 : 8 ≤ A) (hA2 : A - 8 ≤ bytes.length) :
    let blk := bytes ++ (List.replicate (A - 8) 0xCD ++ List.replicate 8 0).drop bytes.length
    blk.length = A ∧ blk.take bytes.length = bytes ∧ (∀ i, bytes.length ≤ i → i < A → blk.getD i 1 = 0) := by
  intro blk
  refine ⟨?_, ?_, ?_⟩
  · simp only [blk, List.length_append, List.length_drop, List.length_replicate]; omega
  · simp [blk]
  · intro i h1 h2
    simp only [blk, List.getD_eq_getElem?_getD]
    rw [List.getElem?_append_right h1, List.getElem?_drop,
      List.getElem?_append_right (by simp only [List.length_replicate]; omega)]
    simp only [List.length_replicate]
    rw [List.getElem?_replicate, if_pos (by omega)]
    rfl

/-- `Arena::dup`: a successful call returns a fresh one-shot allocation of the 8-aligned size that starts with the
data and is zero from there on (terminator and padding) -/
theorem dup_spec {a a' : State} {bytes : List Nat} {nt : Bool} {p : Loc} {allocSize : Nat} {blk : List Nat}
    (h : dup a bytes nt = (a', some (p, allocSize, blk))) :
    bytes ≠ [] ∧ allocSize % 8 = 0 ∧ bytes.length + (if nt then 1 else 0) ≤ allocSize ∧
    allocSize < bytes.length + (if nt then 1 else 0) + 8 ∧ blk.length = allocSize ∧
    blk.take bytes.length = bytes ∧ (∀ i, bytes.length ≤ i → i < allocSize → blk.getD i 1 = 0) ∧
    allocOneshot a allocSize = (a', some p) := by
  rw [dup_eq] at h
  by_cases hb : bytes.isEmpty = true
  · rw [if_pos hb] at h; cases h
  · rw [if_neg hb] at h
    generalize hao : allocOneshot a (alignUp (bytes.length + (if nt then 1 else 0)) 8) = ao at h
    obtain ⟨a2, op⟩ := ao
    cases op with
    | none => simp only [dupWith] at h; cases h
    | some q =>
      simp only [dupWith] at h
      have hne : bytes ≠ [] := by intro e; subst e; exact hb rfl
      have hlen : 0 < bytes.length := List.length_pos_iff.mpr hne
      generalize hk : (if nt then 1 else 0 : Nat) = k at h hao ⊢
      have hk1 : k ≤ 1 := by subst hk; cases nt <;> simp
      have hal := alignUp8 (bytes.length + k)
      generalize hA : alignUp (bytes.length + k) 8 = A at h hao hal
      injection h with h1 h2
      injection h2 with h2
      injection h2 with h2 h3
      injection h3 with h3 h4
      subst h1 h2 h3 h4
      have hb := dup_block bytes A (by omega) (by omega) (by omega)
      exact ⟨hne, hal.1, hal.2.1, hal.2.2, hb.1, hb.2.1, hb.2.2, hao⟩

example : (dup (Arena.init 1024 0) [65, 66, 67] true).2 = some (.managed 0 0, 8, [65, 66, 67, 0, 0, 0, 0, 0]) := by decide
example : (dup (Arena.init 1024 0) [1, 2, 3, 4, 5, 6, 7, 8, 9] false).2 =
    some (.managed 0 0, 16, [1, 2, 3, 4, 5, 6, 7, 8, 9, 0, 0, 0, 0, 0, 0, 0]) := by decide
example : (dup (Arena.init 1024 0 (mallocMax := 0)) [65] true).2 = none := by decide

/-! ### `set_data` -/

/-- `set_data` with the answer of `dup` as a parameter -/
def setDataWith (r : State × Option (Loc × Nat × List Nat)) (a : State) (s : AStr) (bytes : List Nat) :
    Option (State × AStr × Err) :=
  if bytes.length ≤ s.maxEmbedded then
    if bytes.length + 1 ≤ s.embedded.length then
      some (a, { s with size := bytes.length % u32,
                        embedded := bytes ++ 0 :: s.embedded.drop (bytes.length + 1), ext := none }, .ok)
    else none
  else
    match r with
    | (a', none) => some (a', s, .oom)
    | (a', some blk) => some (a', { s with size := bytes.length % u32, ext := some blk }, .ok)

theorem setData_eq (a : State) (s : AStr) (bytes : List Nat) :
    setData a s bytes = setDataWith (dup a bytes true) a s bytes := rfl

/-- `ArenaString::set_data`: never writes outside the object; on `oom` the string is unchanged; on success it holds
exactly the bytes, NUL terminated, embedded iff they fit (`size ≤ kWholeSize - 5`) -/
theorem setData_spec (a : State) (s : AStr) (bytes : List Nat)
    (hw : s.embedded.length = s.whole - 4) (h16 : 16 ≤ s.whole) (h32 : bytes.length < u32) :
    ∃ a' s' e, setData a s bytes = some (a', s', e) ∧ (e = .oom → s' = s) ∧
      (e = .ok → content s' = bytes ∧ terminated s' = true ∧ s'.size = bytes.length ∧ s'.whole = s.whole ∧
        s'.embedded.length = s.embedded.length ∧ (s'.isEmbedded = true ↔ bytes.length ≤ s.whole - 5)) := by
  rw [setData_eq]
  generalize hd : dup a bytes true = r
  have hmod : bytes.length % u32 = bytes.length := Nat.mod_eq_of_lt h32
  unfold setDataWith
  rw [hmod]
  by_cases hemb : bytes.length ≤ s.maxEmbedded
  · have hemb' : bytes.length ≤ s.whole - 5 := hemb
    rw [if_pos hemb, if_pos (by omega)]
    refine ⟨_, _, _, rfl, fun h => (by cases h), fun _ => ?_⟩
    refine ⟨?_, ?_, rfl, rfl, ?_, ?_⟩
    · simp [content, AStr.isEmbedded, AStr.maxEmbedded, hemb']
    · simp [terminated, AStr.isEmbedded, AStr.maxEmbedded, hemb']
    · simp only [List.length_append, List.length_cons, List.length_drop]; omega
    · simp [AStr.isEmbedded, AStr.maxEmbedded, hemb']
  · have hemb' : ¬ bytes.length ≤ s.whole - 5 := hemb
    rw [if_neg hemb]
    obtain ⟨a2, o⟩ := r
    cases o with
    | none => exact ⟨_, _, _, rfl, fun _ => rfl, fun h => by cases h⟩
    | some b =>
      obtain ⟨p, A, blk⟩ := b
      have hs := dup_spec hd
      simp only [if_true] at hs
      refine ⟨_, _, _, rfl, fun h => (by cases h), fun _ => ?_⟩
      have h0 := hs.2.2.2.2.2.2.1 bytes.length (Nat.le_refl _) (by omega)
      rw [List.getD_eq_getElem?_getD] at h0
      refine ⟨?_, ?_, rfl, rfl, rfl, ?_⟩
      · simp [content, AStr.isEmbedded, AStr.maxEmbedded, hemb']; exact hs.2.2.2.2.2.1
      · simp [terminated, AStr.isEmbedded, AStr.maxEmbedded, hemb']; exact h0
      · simp [AStr.isEmbedded, AStr.maxEmbedded, hemb']

/-- embedded stores cannot fail -/
theorem setData_embedded (a : State) (s : AStr) (bytes : List Nat)
    (hw : s.embedded.length = s.whole - 4) (h16 : 16 ≤ s.whole) (hfit : bytes.length ≤ s.whole - 5) :
    ∃ s', setData a s bytes = some (a, s', .ok) := by
  rw [setData_eq]
  unfold setDataWith
  have : bytes.length ≤ s.maxEmbedded := hfit
  have h1 : bytes.length + 1 ≤ s.embedded.length := by omega
  rw [if_pos this, if_pos h1]
  exact ⟨_, rfl⟩

/-- error code of an answer of `set_data` -/
def errOf (r : Option (State × AStr × Err)) : Option Err := r.map (·.2.2)

example : ∃ a' s', setData (Arena.init 1024 0) (new 16) [65, 66, 67] = some (a', s', .ok) ∧ s'.whole = 16 ∧
    s'.size = 3 ∧ s'.embedded = [65, 66, 67, 0, 0, 0, 0, 0, 0, 0, 0, 0] ∧ s'.ext = none ∧ s'.isEmbedded = true ∧
    content s' = [65, 66, 67] ∧ terminated s' = true := by
  refine ⟨_, _, rfl, by decide⟩
example : ∃ a' s', setData (Arena.init 1024 0) (new 16) (List.replicate 20 65) = some (a', s', .ok) ∧
    s'.isEmbedded = false ∧ content s' = List.replicate 20 65 ∧ terminated s' = true ∧
    s'.ext = some (.managed 0 0, 24, List.replicate 20 65 ++ [0, 0, 0, 0]) := by
  refine ⟨_, _, rfl, by decide⟩
example : errOf (setData (Arena.init 1024 0 (mallocMax := 0)) (new 16) (List.replicate 20 65)) = some .oom := by
  decide
/-- the hypothesis on the embedded buffer is needed: a too short buffer makes the model report an out-of-object write -/
example : errOf (setData (Arena.init 1024 0) { whole := 16, embedded := [0, 0] } [65, 66, 67]) = none := by decide

/-! ### An `ArenaString` refines "the byte list stored last" -/

/-- runs `set_data` for every operation; the arena an operation sees is arbitrary (an oracle: whatever other users of
the arena did in between, including reset); returns the final string and the error code of every operation -/
def runOps (s : AStr) : List (State × List Nat) → Option (AStr × List Err)
  | [] => some (s, [])
  | (a, b) :: rest =>
    match setData a s b with
    | none => none
    | some (_, s', e) =>
      match runOps s' rest with
      | none => none
      | some (s'', es) => some (s'', e :: es)

/-- the abstract value: the bytes of the last operation that answered `ok` (`init` if none did) -/
def lastOk (init : List Nat) : List (List Nat × Err) → List Nat
  | [] => init
  | (b, .ok) :: rest => lastOk b rest
  | (_, .oom) :: rest => lastOk init rest

/-- one step of `runOps`, the answer of `set_data` being a parameter -/
def stepWith (r : Option (State × AStr × Err)) (k : AStr → Option (AStr × List Err)) : Option (AStr × List Err) :=
  match r with
  | none => none
  | some (_, s', e) =>
    match k s' with
    | none => none
    | some (s'', es) => some (s'', e :: es)

theorem runOps_cons (s : AStr) (a : State) (b : List Nat) (rest : List (State × List Nat)) :
    runOps s ((a, b) :: rest) = stepWith (setData a s b) (fun s' => runOps s' rest) := rfl

/-- invariant of an `ArenaString` object -/
def Inv (s : AStr) : Prop := s.embedded.length = s.whole - 4 ∧ 16 ≤ s.whole ∧ terminated s = true

theorem new_inv (n : Nat) : Inv (new n) ∧ content (new n) = [] ∧ (new n).isEmbedded = true ∧ (new n).size = 0 := by
  have h16 : 16 ≤ max n 16 := Nat.le_max_right _ _
  have hie : (new n).isEmbedded = true := by
    simp [new, AStr.isEmbedded, AStr.maxEmbedded]
  refine ⟨⟨?_, h16, ?_⟩, ?_, hie, rfl⟩
  · simp only [new, List.length_replicate]
  · simp only [terminated, hie, if_true]
    simp only [new, List.getD_eq_getElem?_getD]
    rw [List.getElem?_replicate, if_pos (by omega)]; rfl
  · simp only [content, hie, if_true]; simp [new]

theorem runOps_inv (ops : List (State × List Nat)) :
    ∀ (s : AStr), Inv s → (∀ op ∈ ops, op.2.length < u32) →
    ∃ s' es, runOps s ops = some (s', es) ∧ es.length = ops.length ∧ Inv s' ∧ s'.whole = s.whole ∧
      content s' = lastOk (content s) ((ops.map (·.2)).zip es) := by
  induction ops with
  | nil => intro s hs _; exact ⟨s, [], rfl, rfl, hs, rfl, rfl⟩
  | cons op rest ih =>
    intro s hs hb
    obtain ⟨a, b⟩ := op
    obtain ⟨a', s1, e, h1, hoom, hok⟩ := setData_spec a s b hs.1 hs.2.1 (hb (a, b) (List.mem_cons_self ..))
    rw [runOps_cons, h1]
    have hs1 : Inv s1 ∧ s1.whole = s.whole ∧ content s1 = lastOk (content s) [(b, e)] := by
      cases e with
      | oom => rw [hoom rfl]; exact ⟨hs, rfl, rfl⟩
      | ok =>
        have h := hok rfl
        exact ⟨⟨by rw [h.2.2.2.2.1, h.2.2.2.1]; exact hs.1, by rw [h.2.2.2.1]; exact hs.2.1, h.2.1⟩, h.2.2.2.1, h.1⟩
    obtain ⟨s2, es, h2, hlen, hinv2, hwh, hc⟩ := ih s1 hs1.1 (fun op hop => hb op (List.mem_cons_of_mem _ hop))
    refine ⟨s2, e :: es, ?_, ?_, hinv2, by rw [hwh, hs1.2.1], ?_⟩
    · simp only [stepWith, h2]
    · simp only [List.length_cons, hlen]
    · rw [hc, hs1.2.2]
      simp only [List.map_cons, List.zip_cons_cons]
      cases e <;> rfl

/-- **Refinement**: starting from a fresh `ArenaString<N>` and running any sequence of `set_data` calls (each shorter
than 2^32, each against an arbitrary arena state), the model never writes outside the object, and at the end
`data()` is the byte list of the last call that returned `kErrorOk` (empty if none), followed by a NUL. -/
theorem arena_string_refines_bytes (n : Nat) (ops : List (State × List Nat))
    (hb : ∀ op ∈ ops, op.2.length < u32) :
    ∃ s' es, runOps (new n) ops = some (s', es) ∧ es.length = ops.length ∧
      content s' = lastOk [] ((ops.map (·.2)).zip es) ∧ terminated s' = true ∧
      s'.whole = max n 16 ∧ s'.embedded.length = max n 16 - 4 := by
  obtain ⟨hinv, hc, -, -⟩ := new_inv n
  obtain ⟨s', es, h1, h2, h3, h4, h5⟩ := runOps_inv ops (new n) hinv hb
  have hw : s'.whole = max n 16 := h4
  exact ⟨s', es, h1, h2, by rw [h5, hc], h3.2.2, hw, by rw [h3.1, hw]⟩

/-- the initial object is an empty, terminated, embedded string -/
theorem new_spec (n : Nat) : content (new n) = [] ∧ terminated (new n) = true ∧ (new n).isEmbedded = true :=
  ⟨(new_inv n).2.1, (new_inv n).1.2.2, (new_inv n).2.2.1⟩

example : ∃ s', runOps (new 16)
      [(Arena.init 1024 0, [1, 2, 3]), (Arena.init 1024 0 (mallocMax := 0), List.replicate 20 7),
       (Arena.init 1024 0, List.replicate 20 9), (Arena.init 1024 0 (mallocMax := 0), List.replicate 30 8)]
      = some (s', [.ok, .oom, .ok, .oom]) ∧ content s' = List.replicate 20 9 ∧ terminated s' = true := by
  refine ⟨_, rfl, by decide⟩
example : lastOk [] [([1], .ok), ([2, 3], .oom)] = [1] := by decide

end AsmjitVerif.ArenaStr
