/-
Helper lemmas for Props/C03.lean / Props/C04.lean: which parts of the CodeHolder state each model function touches,
and the bookkeeping of the fixup lists.
-/
import AsmjitVerif.Model.Prog
namespace AsmjitVerif.CodeHolder
open AsmjitVerif.Offset

/-- number of fixups hanging on (unbound) labels -/
def pendingOnLabels : List LabelEntry → Nat
  | [] => 0
  | .unbound fx :: rest => fx.length + pendingOnLabels rest
  | .bound _ _ :: rest => pendingOnLabels rest

/-- all fixups that are still waiting: on labels + on the cross-section list -/
def pending (s : State) : Nat := pendingOnLabels s.labels + s.fixups.length

def weight : LabelEntry → Nat
  | .unbound fx => fx.length
  | .bound _ _ => 0

theorem pendingOnLabels_cons (e : LabelEntry) (ls : List LabelEntry) :
    pendingOnLabels (e :: ls) = weight e + pendingOnLabels ls := by
  cases e <;> simp [pendingOnLabels, weight]

theorem pendingOnLabels_append (a b : List LabelEntry) :
    pendingOnLabels (a ++ b) = pendingOnLabels a + pendingOnLabels b := by
  induction a with
  | nil => simp [pendingOnLabels]
  | cons e rest ih => simp [pendingOnLabels_cons, ih]; omega

theorem pendingOnLabels_set (ls : List LabelEntry) (l : Nat) (old new : LabelEntry) (h : ls[l]? = some old) :
    pendingOnLabels (ls.set l new) + weight old = pendingOnLabels ls + weight new := by
  induction ls generalizing l with
  | nil => simp at h
  | cons e rest ih =>
    cases l with
    | zero =>
      simp at h
      subst h
      simp [pendingOnLabels_cons]; omega
    | succ k =>
      simp at h
      have := ih k h
      simp [pendingOnLabels_cons]; omega

/-! ### frame facts: functions that do not touch labels / fixups / count -/

@[simp] theorem emit_labels (s : State) (bs : Bytes) : (s.emit bs).labels = s.labels := rfl
@[simp] theorem emit_fixups (s : State) (bs : Bytes) : (s.emit bs).fixups = s.fixups := rfl
@[simp] theorem emit_count (s : State) (bs : Bytes) : (s.emit bs).count = s.count := rfl
@[simp] theorem emit_cur (s : State) (bs : Bytes) : (s.emit bs).cur = s.cur := rfl
@[simp] theorem emit_arch (s : State) (bs : Bytes) : (s.emit bs).arch = s.arch := rfl
@[simp] theorem newReloc_labels (s : State) (r : Reloc) : (newReloc s r).1.labels = s.labels := rfl
@[simp] theorem newReloc_fixups (s : State) (r : Reloc) : (newReloc s r).1.fixups = s.fixups := rfl
@[simp] theorem newReloc_count (s : State) (r : Reloc) : (newReloc s r).1.count = s.count := rfl
@[simp] theorem newReloc_cur (s : State) (r : Reloc) : (newReloc s r).1.cur = s.cur := rfl

theorem addAddress_core (s : State) (a : BitVec 64) :
    (addAddress s a).labels = s.labels ∧ (addAddress s a).fixups = s.fixups ∧ (addAddress s a).count = s.count := by
  unfold addAddress
  split
  · simp
  · cases h : s.addrTabSec <;> simp

/-! ### the fixup loops -/

/-- every fixup of a `bind_label` loop is either resolved or kept -/
theorem bindStep_total (l toSec : Nat) (toOff : BitVec 64) (acc : Acc) (f : Fixup) :
    (bindStep l toSec toOff acc f).kept.length + (bindStep l toSec toOff acc f).resolved = acc.kept.length + acc.resolved + 1 := by
  unfold bindStep
  split
  · simp; omega
  · split
    · simp; omega
    · dsimp only
      split <;> simp <;> omega

theorem bindLoop_total (l toSec : Nat) (toOff : BitVec 64) (fx : List Fixup) (acc : Acc) :
    (fx.foldl (bindStep l toSec toOff) acc).kept.length + (fx.foldl (bindStep l toSec toOff) acc).resolved
      = acc.kept.length + acc.resolved + fx.length := by
  induction fx generalizing acc with
  | nil => simp
  | cons f rest ih =>
    simp only [List.foldl_cons, List.length_cons]
    rw [ih, bindStep_total]; omega

theorem resolveStep_total (labels : List LabelEntry) (acc : Acc) (f : Fixup) :
    (resolveStep labels acc f).kept.length + (resolveStep labels acc f).resolved = acc.kept.length + acc.resolved + 1 := by
  unfold resolveStep
  split
  · dsimp only [addOverflow]
    split
    · simp; omega
    · split <;> simp <;> omega
  · simp; omega

theorem resolveLoop_total (labels : List LabelEntry) (fx : List Fixup) (acc : Acc) :
    (fx.foldl (resolveStep labels) acc).kept.length + (fx.foldl (resolveStep labels) acc).resolved
      = acc.kept.length + acc.resolved + fx.length := by
  induction fx generalizing acc with
  | nil => simp
  | cons f rest ih =>
    simp only [List.foldl_cons, List.length_cons]
    rw [ih, resolveStep_total]; omega

end AsmjitVerif.CodeHolder
