/- Inv is preserved by `bind_label`: each fixup of the label patches only its own field. -/
import AsmjitVerif.Lemmas.RefInvFix
namespace AsmjitVerif.CodeHolder
open AsmjitVerif.Offset

theorem modifySec_get_same (a : List Section) (i : Nat) (f : Section → Section) (sec : Section) (h : a[i]? = some sec) :
    (modifySec a i f)[i]? = some (f sec) := by
  unfold modifySec; rw [h]; simp [getElem?_lt h]

theorem modifySec_get_ne (a : List Section) (i j : Nat) (f : Section → Section) (h : i ≠ j) :
    (modifySec a i f)[j]? = a[j]? := by
  unfold modifySec; split
  · exact List.getElem?_set_ne h
  · rfl

/-- `write_offset` keeps the buffer size and touches only the bytes of the value -/
theorem writeOffset_frame (f : OffsetFormat) (hsz : f.valueSize = 1 ∨ f.valueSize = 4) (buf buf' : Bytes) (pos : Nat) (off : BitVec 64)
    (hw : writeOffset buf pos off f = some buf') :
    buf'.length = buf.length ∧
    ∀ i, (i < pos + f.valueOffset ∨ pos + f.valueOffset + f.valueSize ≤ i) → buf'[i]? = buf[i]? := by
  unfold writeOffset at hw
  rcases hsz with h | h <;> rw [h] at hw ⊢ <;> dsimp only at hw <;>
    (cases hm : encodeOffset32 f off with
     | none => rw [hm] at hw; simp at hw
     | some m =>
       rw [hm] at hw
       cases hl : loadLE buf (pos + f.valueOffset) _ with
       | none => rw [hl] at hw; simp at hw
       | some old =>
         rw [hl] at hw; dsimp only at hw
         exact ⟨storeLE_length _ _ _ _ _ hw, storeLE_frame _ _ _ _ _ hw⟩)


theorem loadLE_isSome (n : Nat) : ∀ (buf : Bytes) (p : Nat), p + n ≤ buf.length → ∃ v, loadLE buf p n = some v := by
  induction n with
  | zero => intro buf p _; exact ⟨0, rfl⟩
  | succ k ih =>
    intro buf p h
    obtain ⟨r, hr⟩ := ih buf (p + 1) (by omega)
    have hp : p < buf.length := by omega
    refine ⟨(buf[p]).toNat + 256 * r, ?_⟩
    simp only [loadLE, hr]
    rw [List.getElem?_eq_getElem hp]

theorem storeLE_isSome (n : Nat) : ∀ (buf : Bytes) (p v : Nat), p + n ≤ buf.length → ∃ b, storeLE buf p v n = some b := by
  induction n with
  | zero => intro buf p v _; exact ⟨buf, rfl⟩
  | succ k ih =>
    intro buf p v h
    have hp : p < buf.length := by omega
    simp only [storeLE, hp, if_true]
    exact ih _ _ _ (by simp; omega)

/-- inside the buffer `write_offset` fails only because the codec refuses the displacement -/
theorem writeOffset_none_encode (f : OffsetFormat) (hsz : f.valueSize = 1 ∨ f.valueSize = 4) (buf : Bytes) (pos : Nat) (off : BitVec 64)
    (hb : pos + f.valueOffset + f.valueSize ≤ buf.length) (hw : writeOffset buf pos off f = none) :
    encodeOffset32 f off = none := by
  unfold writeOffset at hw
  obtain ⟨old, ho⟩ := loadLE_isSome f.valueSize buf (pos + f.valueOffset) hb
  cases hm : encodeOffset32 f off with
  | none => rfl
  | some m =>
    exfalso
    rcases hsz with h | h <;> rw [h] at hw ho hb <;> dsimp only at hw <;> rw [hm, ho] at hw <;> dsimp only at hw
    · obtain ⟨b, hb'⟩ := storeLE_isSome 1 buf (pos + f.valueOffset) (old ||| m.toNat % 2 ^ (8 * 1)) hb
      rw [hb'] at hw; cases hw
    · obtain ⟨b, hb'⟩ := storeLE_isSome 4 buf (pos + f.valueOffset) (old ||| m.toNat % 2 ^ (8 * 4)) hb
      rw [hb'] at hw; cases hw

theorem writeOffset_some_encode (f : OffsetFormat) (hsz : f.valueSize = 1 ∨ f.valueSize = 4) (buf buf' : Bytes) (pos : Nat) (off : BitVec 64)
    (hw : writeOffset buf pos off f = some buf') : encodeOffset32 f off ≠ none := by
  intro hm
  unfold writeOffset at hw
  rcases hsz with h | h <;> rw [h] at hw <;> dsimp only at hw <;> rw [hm] at hw <;> simp at hw

/-- a successful patch of reference `w` leaves the field of every disjoint reference `g` alone -/
theorem field_setBuf_disjoint (secs : List Section) (sec : Section) (buf' : Bytes) (w g : GRef) (disp : BitVec 64)
    (hw : w.fmt ∈ fixupFormats) (hs : secs[w.sec]? = some sec)
    (hwr : writeOffset sec.buf w.offset disp w.fmt = some buf') (hd : D g w) :
    field (setBuf secs w.sec buf') g = field secs g := by
  have hsz := fmt_size_pos hw
  have hfr := writeOffset_frame w.fmt hsz.2.2 _ _ _ _ hwr
  rw [hsz.2.1, Nat.add_zero] at hfr
  unfold field setBuf
  by_cases hgs : g.sec = w.sec
  · rw [hgs, modifySec_get_same _ _ _ _ hs, hs]
    simp only [Option.bind_some]
    apply loadLE_congr
    intro i h1 h2
    apply hfr.2
    rcases hd with h | h | h
    · exact absurd hgs h
    · omega
    · omega
  · rw [modifySec_get_ne _ _ _ _ (Ne.symm hgs)]

/-- the patched reference itself: zero before, designates the displacement afterwards -/
theorem field_setBuf_own (secs : List Section) (sec : Section) (buf' : Bytes) (w : GRef) (disp : BitVec 64)
    (hw : w.fmt ∈ fixupFormats) (hs : secs[w.sec]? = some sec)
    (hwr : writeOffset sec.buf w.offset disp w.fmt = some buf') (hz : FieldZero secs w) :
    Decodes (setBuf secs w.sec buf') w disp := by
  have hsz := fmt_size_pos hw
  obtain ⟨old, ho, hzero⟩ := hz
  unfold field at ho; rw [hs] at ho; simp only [Option.bind_some] at ho
  obtain ⟨new, hn, hdec, _, _⟩ := patched_field_designates w.fmt hw sec.buf buf' w.offset disp old hwr
    (by rw [hsz.2.1, Nat.add_zero]; exact ho) hzero
  rw [hsz.2.1, Nat.add_zero] at hn
  refine ⟨new, ?_, hdec⟩
  unfold field setBuf
  rw [modifySec_get_same _ _ _ _ hs]
  exact hn

/-- same shape: same number of sections, same buffer sizes -/
def SameShape (a b : List Section) : Prop :=
  a.length = b.length ∧ ∀ (i : Nat) (sec : Section), a[i]? = some sec → ∃ sec' : Section, b[i]? = some sec' ∧ sec'.buf.length = sec.buf.length

theorem SameShape.refl (a : List Section) : SameShape a a := ⟨rfl, fun _ sec h => ⟨sec, h, rfl⟩⟩
theorem SameShape.trans {a b c : List Section} (h1 : SameShape a b) (h2 : SameShape b c) : SameShape a c := by
  refine ⟨h1.1.trans h2.1, ?_⟩
  intro i sec h
  obtain ⟨s1, hs1, e1⟩ := h1.2 i sec h
  obtain ⟨s2, hs2, e2⟩ := h2.2 i s1 hs1
  exact ⟨s2, hs2, e2.trans e1⟩

theorem InB.shape {a b : List Section} (h : SameShape a b) {g : GRef} (hg : InB a g) : InB b g := by
  obtain ⟨sec, hs, hb⟩ := hg
  obtain ⟨s', hs', he⟩ := h.2 _ _ hs
  exact ⟨s', hs', by rw [he]; exact hb⟩

theorem sameShape_setBuf (secs : List Section) (i : Nat) (sec : Section) (buf' : Bytes) (hs : secs[i]? = some sec)
    (hl : buf'.length = sec.buf.length) : SameShape secs (setBuf secs i buf') := by
  refine ⟨by unfold setBuf; rw [modifySec_length], ?_⟩
  intro j secj hj
  unfold setBuf
  by_cases hij : i = j
  · subst hij
    rw [hs] at hj; cases hj
    exact ⟨_, modifySec_get_same _ _ _ _ hs, hl⟩
  · exact ⟨secj, by rw [modifySec_get_ne _ _ _ _ hij]; exact hj, rfl⟩

/-- what one iteration of the bind loop does, seen from the references -/
structure StepSpec (l toSec : Nat) (toOff : BitVec 64) (acc acc' : Acc) (f : Fixup) : Prop where
  shape : SameShape acc.secs acc'.secs
  frame : ∀ g, (f.lr = none → D g (f.toG l)) → field acc'.secs g = field acc.secs g
  own   : f.lr = none → FieldZero acc.secs (f.toG l) →
            (f.sec = toSec ∧ encodeOffset32 f.fmt (toOff - BitVec.ofNat 64 f.offset + f.rel) ≠ none ∧
              Decodes acc'.secs (f.toG l) (toOff - BitVec.ofNat 64 f.offset + f.rel)) ∨
            (({ f with lr := some l } : Fixup) ∈ acc'.kept ∧ FieldZero acc'.secs (f.toG l))
  keptMono : ∀ k ∈ acc.kept, k ∈ acc'.kept
  keptNew  : ∀ k ∈ acc'.kept, k ∈ acc.kept ∨ (f.lr = none ∧ k = { f with lr := some l } ∧
               (f.sec ≠ toSec ∨ encodeOffset32 f.fmt (toOff - BitVec.ofNat 64 f.offset + f.rel) = none))

theorem bindStep_spec (l toSec : Nat) (toOff : BitVec 64) (acc : Acc) (f : Fixup)
    (hf : f.lr = none → f.fmt ∈ fixupFormats) (hb : f.lr = none → InB acc.secs (f.toG l)) :
    StepSpec l toSec toOff acc (bindStep l toSec toOff acc f) f := by
  unfold bindStep
  cases hlr : f.lr with
  | some rid =>
    dsimp only
    exact ⟨SameShape.refl _, fun _ _ => rfl, fun h => absurd (hlr.symm.trans h) (by simp), fun _ h => h, fun _ h => .inl h⟩
  | none =>
    dsimp only
    by_cases hsec : f.sec ≠ toSec
    · rw [if_pos hsec]
      refine ⟨SameShape.refl _, fun _ _ => rfl, fun _ hz => .inr ⟨by simp, hz⟩, fun k h => by simp [h], ?_⟩
      intro k hk; simp at hk
      rcases hk with hk | hk
      · exact .inl hk
      · exact .inr ⟨hlr, hk, .inl hsec⟩
    · rw [if_neg hsec]
      have hsec' : f.sec = toSec := Classical.not_not.mp hsec
      obtain ⟨sec, hs0, hbnd⟩ := hb hlr
      have hs : acc.secs[toSec]? = some sec := by rw [← hsec']; exact hs0
      have hfm := hf hlr
      have hsz := fmt_size_pos hfm
      rw [hs]
      simp only [Option.bind_some]
      cases hw : writeOffset sec.buf f.offset (toOff - BitVec.ofNat 64 f.offset + f.rel) f.fmt with
      | none =>
        dsimp only
        have henc := writeOffset_none_encode f.fmt hsz.2.2 sec.buf f.offset _ (by rw [hsz.2.1]; exact hbnd) hw
        refine ⟨SameShape.refl _, fun _ _ => rfl, fun _ hz => .inr ⟨by simp, hz⟩, fun k h => by simp [h], ?_⟩
        intro k hk; simp at hk
        rcases hk with hk | hk
        · exact .inl hk
        · exact .inr ⟨hlr, hk, .inr henc⟩
      | some buf' =>
        dsimp only
        have hs' : acc.secs[(f.toG l).sec]? = some sec := hs0
        have hfr := writeOffset_frame f.fmt hsz.2.2 _ _ _ _ hw
        refine ⟨sameShape_setBuf _ _ _ _ hs hfr.1, ?_, ?_, fun _ h => h, fun _ h => .inl h⟩
        · intro g hd
          have := field_setBuf_disjoint acc.secs sec buf' (f.toG l) g _ hfm hs' hw (hd hlr)
          rw [show (f.toG l).sec = toSec from hsec'] at this
          exact this
        · intro _ hz
          left
          refine ⟨hsec', writeOffset_some_encode f.fmt hsz.2.2 _ _ _ _ hw, ?_⟩
          have := field_setBuf_own acc.secs sec buf' (f.toG l) _ hfm hs' hw hz
          rw [show (f.toG l).sec = toSec from hsec'] at this
          exact this

/-- the whole loop -/
structure LoopSpec (l toSec : Nat) (toOff : BitVec 64) (acc acc' : Acc) (fx : List Fixup) : Prop where
  shape : SameShape acc.secs acc'.secs
  frame : ∀ g, (∀ f ∈ fx, f.lr = none → D g (f.toG l)) → field acc'.secs g = field acc.secs g
  own   : ∀ f ∈ fx, f.lr = none → FieldZero acc.secs (f.toG l) →
            (f.sec = toSec ∧ encodeOffset32 f.fmt (toOff - BitVec.ofNat 64 f.offset + f.rel) ≠ none ∧
              Decodes acc'.secs (f.toG l) (toOff - BitVec.ofNat 64 f.offset + f.rel)) ∨
            (({ f with lr := some l } : Fixup) ∈ acc'.kept ∧ FieldZero acc'.secs (f.toG l))
  keptMono : ∀ k ∈ acc.kept, k ∈ acc'.kept
  keptNew  : ∀ k ∈ acc'.kept, k ∈ acc.kept ∨ ∃ f ∈ fx, f.lr = none ∧ k = { f with lr := some l } ∧
               (f.sec ≠ toSec ∨ encodeOffset32 f.fmt (toOff - BitVec.ofNat 64 f.offset + f.rel) = none)

theorem fieldZero_congr {a b : List Section} {g : GRef} (h : field b g = field a g) (hz : FieldZero a g) : FieldZero b g := by
  obtain ⟨o, h1, h2⟩ := hz; exact ⟨o, by rw [h]; exact h1, h2⟩

theorem decodes_congr {a b : List Section} {g : GRef} {d : BitVec 64} (h : field b g = field a g) (hz : Decodes a g d) : Decodes b g d := by
  obtain ⟨o, h1, h2⟩ := hz; exact ⟨o, by rw [h]; exact h1, h2⟩

theorem filter_none_cons (f : Fixup) (rest : List Fixup) (h : f.lr = none) :
    (f :: rest).filter (fun f => f.lr.isNone) = f :: rest.filter (fun f => f.lr.isNone) := by simp [h]

theorem mem_filter_none {f : Fixup} {fx : List Fixup} (h : f ∈ fx) (hn : f.lr = none) : f ∈ fx.filter (fun f => f.lr.isNone) := by
  rw [List.mem_filter]; exact ⟨h, by simp [hn]⟩

theorem bindLoop_spec (l toSec : Nat) (toOff : BitVec 64) : ∀ (fx : List Fixup) (acc : Acc),
    (∀ f ∈ fx, f.lr = none → f.fmt ∈ fixupFormats) →
    (∀ f ∈ fx, f.lr = none → InB acc.secs (f.toG l)) →
    (fx.filter (fun f => f.lr.isNone)).Pairwise Df →
    LoopSpec l toSec toOff acc (fx.foldl (bindStep l toSec toOff) acc) fx := by
  intro fx
  induction fx with
  | nil =>
    intro acc _ _ _
    exact ⟨SameShape.refl _, fun _ _ => rfl, fun _ h => absurd h (by simp), fun _ h => h, fun _ h => .inl h⟩
  | cons f0 rest ih =>
    intro acc hfm hinb hpw
    have st := bindStep_spec l toSec toOff acc f0 (hfm f0 List.mem_cons_self) (hinb f0 List.mem_cons_self)
    have hpw' : (rest.filter (fun f => f.lr.isNone)).Pairwise Df := by
      cases h0 : f0.lr with
      | none => rw [filter_none_cons _ _ h0, List.pairwise_cons] at hpw; exact hpw.2
      | some _ => simpa [h0] using hpw
    have lp := ih (bindStep l toSec toOff acc f0) (fun f hf => hfm f (List.mem_cons_of_mem _ hf))
      (fun f hf hn => (hinb f (List.mem_cons_of_mem _ hf) hn).shape st.shape) hpw'
    -- f0 (if patchable) is disjoint from every patchable fixup of the rest
    have hd0 : f0.lr = none → ∀ f ∈ rest, f.lr = none → D (f0.toG l) (f.toG l) := by
      intro h0 f hf hn
      rw [filter_none_cons _ _ h0, List.pairwise_cons] at hpw
      exact hpw.1 f (mem_filter_none hf hn)
    simp only [List.foldl_cons]
    refine ⟨st.shape.trans lp.shape, ?_, ?_, fun k h => lp.keptMono k (st.keptMono k h), ?_⟩
    · intro g hg
      rw [lp.frame g (fun f hf hn => hg f (List.mem_cons_of_mem _ hf) hn)]
      exact st.frame g (fun hn => hg f0 List.mem_cons_self hn)
    · intro f hf hn hz
      simp only [List.mem_cons] at hf
      rcases hf with rfl | hf
      · -- the step for f itself, then the rest leaves it alone
        have hrest : field (rest.foldl (bindStep l toSec toOff) (bindStep l toSec toOff acc f)).secs (f.toG l) =
            field (bindStep l toSec toOff acc f).secs (f.toG l) := lp.frame _ (fun f' hf' hn' => hd0 hn f' hf' hn')
        rcases st.own hn hz with ⟨h1, he, h2⟩ | ⟨h1, h2⟩
        · exact .inl ⟨h1, he, decodes_congr hrest h2⟩
        · exact .inr ⟨lp.keptMono _ h1, fieldZero_congr hrest h2⟩
      · -- f is in the rest: the step for f0 leaves it alone
        have hz1 : FieldZero (bindStep l toSec toOff acc f0).secs (f.toG l) :=
          fieldZero_congr (st.frame _ (fun h0 => D_symm (hd0 h0 f hf hn))) hz
        exact lp.own f hf hn hz1
    · intro k hk
      rcases lp.keptNew k hk with h | ⟨f, hf, hn, he, hr⟩
      · rcases st.keptNew k h with h | ⟨hn, he, hr⟩
        · exact .inl h
        · exact .inr ⟨f0, List.mem_cons_self, hn, he, hr⟩
      · exact .inr ⟨f, List.mem_cons_of_mem _ hf, hn, he, hr⟩

/-- the kept fixups never overlap -/
theorem bindLoop_kept_pairwise (l toSec : Nat) (toOff : BitVec 64) : ∀ (fx : List Fixup) (acc : Acc),
    (fx.filter (fun f => f.lr.isNone)).Pairwise Df → acc.kept.Pairwise Df →
    (∀ a ∈ acc.kept, ∀ f ∈ fx, f.lr = none → Df a f) →
    (fx.foldl (bindStep l toSec toOff) acc).kept.Pairwise Df := by
  intro fx
  induction fx with
  | nil => intro acc _ h _; exact h
  | cons f0 rest ih =>
    intro acc hpw hk hx
    simp only [List.foldl_cons]
    have hpw' : (rest.filter (fun f => f.lr.isNone)).Pairwise Df := by
      cases h0 : f0.lr with
      | none => rw [filter_none_cons _ _ h0, List.pairwise_cons] at hpw; exact hpw.2
      | some _ => simpa [h0] using hpw
    have hx' : ∀ a ∈ acc.kept, ∀ f ∈ rest, f.lr = none → Df a f := fun a ha f hf => hx a ha f (List.mem_cons_of_mem _ hf)
    -- the step either keeps `kept` or appends `{f0 with lr := some l}` (only when f0.lr = none)
    have key : (bindStep l toSec toOff acc f0).kept = acc.kept ∨
        (f0.lr = none ∧ (bindStep l toSec toOff acc f0).kept = acc.kept ++ [{ f0 with lr := some l }]) := by
      unfold bindStep
      cases hlr : f0.lr with
      | some _ => exact .inl rfl
      | none =>
        dsimp only
        split
        · exact .inr ⟨rfl, rfl⟩
        · split
          · exact .inl rfl
          · exact .inr ⟨rfl, rfl⟩
    rcases key with he | ⟨h0, he⟩
    · exact ih _ hpw' (by rw [he]; exact hk) (by rw [he]; exact hx')
    · apply ih _ hpw'
      · rw [he, List.pairwise_append]
        refine ⟨hk, by simp, ?_⟩
        intro a ha b hb
        simp only [List.mem_singleton] at hb; subst hb
        exact hx a ha f0 List.mem_cons_self h0
      · rw [he]
        intro a ha f hf hn
        simp only [List.mem_append, List.mem_singleton] at ha
        rcases ha with ha | rfl
        · exact hx' a ha f hf hn
        · rw [filter_none_cons _ _ h0, List.pairwise_cons] at hpw
          exact hpw.1 f (mem_filter_none hf hn)

theorem toFixup_toG (g : GRef) (x : Option Nat) : (g.toFixup x).toG g.label = g := by
  cases g; rfl

/-- distinct logged references are disjoint -/
theorem ghost_disjoint {s : State} (h : Inv s) {a b : GRef} (ha : a ∈ s.ghost) (hb : b ∈ s.ghost) (hne : a ≠ b) : D a b := by
  rcases pairwise_mem (fun _ _ => D_symm) h.disj ha hb with h | h
  · exact absurd h hne
  · exact h

theorem inv_bindLabel (s : State) (l sec : Nat) (off : BitVec 64) (h : Inv s) : Inv (bindLabel s l sec off).1 := by
  have hwf := bindLabel_fixupsWF s l sec off h.wf
  unfold bindLabel at hwf ⊢
  cases hle : s.labels[l]? with
  | none => exact h
  | some le =>
    rw [hle] at hwf
    dsimp only at hwf ⊢
    by_cases hs : sec ≥ s.secs.length
    · simp only [hs, if_true]; exact h
    · simp only [hs, if_false] at hwf ⊢
      cases le with
      | bound _ _ => exact h
      | unbound fx =>
        dsimp only at hwf ⊢
        split
        · exact h
        rename_i hval
        simp only [hval] at hwf
        have hlab := h.lab l fx hle
        have hfm : ∀ f ∈ fx, f.lr = none → f.fmt ∈ fixupFormats := fun f hf hn => h.fmts _ (hlab.1 f hf hn)
        have LS := bindLoop_spec l sec off fx { secs := s.secs, relocs := s.relocs, kept := [], resolved := 0, err := .ok } hfm
          (fun f hf hn => h.inb _ (hlab.1 f hf hn)) hlab.2
        have KP := bindLoop_kept_pairwise l sec off fx { secs := s.secs, relocs := s.relocs, kept := [], resolved := 0, err := .ok }
          hlab.2 (by simp) (by intro a ha; cases ha)
        have hllt : l < s.labels.length := getElem?_lt hle
        have hgetl : (s.labels.set l (LabelEntry.bound sec off))[l]? = some (LabelEntry.bound sec off) := by simp [hllt]
        -- a logged reference of another label is disjoint from every patchable fixup of this label
        have hother : ∀ g ∈ s.ghost, g.label ≠ l → ∀ f ∈ fx, f.lr = none → D g (f.toG l) := by
          intro g hg hne f hf hn
          exact ghost_disjoint h hg (hlab.1 f hf hn) (fun e => hne (by rw [e]; rfl))
        refine ⟨by rw [← LS.shape.1]; exact h.cur, h.fmts, fun g hg => (h.inb g hg).shape LS.shape, h.disj, ?_, ?_, ?_, hwf⟩
        · -- status
          intro g hg
          by_cases hgl : g.label = l
          · -- a reference to the label being bound: it was pending on the label's own list
            have hpend : g.toFixup none ∈ fx ∧ FieldZero s.secs g := by
              rcases h.status g hg with ⟨hp, hz⟩ | ⟨_, loff, hb, _⟩
              · rcases hp with ⟨fx', h1, h2⟩ | h1
                · rw [hgl, hle] at h1; cases h1; exact ⟨h2, hz⟩
                · obtain ⟨k, ksec, koff, hk1, hk2⟩ := h.wf _ h1
                  simp only [GRef.toFixup, Option.some.injEq] at hk1
                  rw [← hk1, hgl, hle] at hk2; cases hk2
              · rw [hgl, hle] at hb; cases hb
            have hG : (g.toFixup none).toG l = g := by rw [← hgl]; exact toFixup_toG g none
            have hown := LS.own (g.toFixup none) hpend.1 rfl (by rw [hG]; exact hpend.2)
            rw [hG] at hown
            rcases hown with ⟨h1, henc, h2⟩ | ⟨h1, h2⟩
            · right
              refine ⟨?_, off, ?_, h2⟩
              · -- no longer on any list
                rintro (⟨fx', hx1, _⟩ | hx1)
                · replace hx1 : (s.labels.set l (LabelEntry.bound sec off))[g.label]? = some (LabelEntry.unbound fx') := hx1
                  rw [hgl, hgetl] at hx1; cases hx1
                · replace hx1 : g.toFixup (some g.label) ∈ (fx.foldl (bindStep l sec off)
                      { secs := s.secs, relocs := s.relocs, kept := [], resolved := 0, err := .ok }).kept ++ s.fixups := hx1
                  rw [List.mem_append] at hx1
                  rcases hx1 with hx1 | hx1
                  · rcases LS.keptNew _ hx1 with h0 | ⟨f', _, hn', he', hr⟩
                    · cases h0
                    · have e := toFixup_some_eq he'
                      -- f' has the fields of g: same section as the label, and its displacement was accepted
                      have e1 : f'.sec = g.sec := by rw [e]; rfl
                      have e2 : f'.fmt = g.fmt := by rw [e]; rfl
                      have e3 : f'.offset = g.offset := by rw [e]; rfl
                      have e4 : f'.rel = g.rel := by rw [e]; rfl
                      rcases hr with hr | hr
                      · exact hr (e1.trans h1)
                      · rw [e2, e3, e4] at hr; exact henc hr
                  · obtain ⟨k, ksec, koff, hk1, hk2⟩ := h.wf _ hx1
                    simp only [GRef.toFixup, Option.some.injEq] at hk1
                    rw [← hk1, hgl, hle] at hk2; cases hk2
              · show (s.labels.set l _)[g.label]? = _
                rw [hgl, hgetl]
                have : g.sec = sec := h1
                rw [this]
            · left
              refine ⟨.inr ?_, h2⟩
              show g.toFixup (some g.label) ∈ _ ++ s.fixups
              apply List.mem_append_left
              rw [hgl]
              exact h1
          · refine status_mono ?_ ?_ ?_ (LS.frame g (hother g hg hgl)) (h.status g hg)
            · rintro (⟨fx', h1, h2⟩ | h1)
              · exact .inl ⟨fx', by show (s.labels.set l _)[g.label]? = _; rw [List.getElem?_set_ne (Ne.symm hgl)]; exact h1, h2⟩
              · exact .inr (List.mem_append_right _ h1)
            · rintro (⟨fx', h1, h2⟩ | h1)
              · replace h1 : (s.labels.set l (LabelEntry.bound sec off))[g.label]? = some (LabelEntry.unbound fx') := h1
                rw [List.getElem?_set_ne (Ne.symm hgl)] at h1
                exact .inl ⟨fx', h1, h2⟩
              · replace h1 : g.toFixup (some g.label) ∈ (fx.foldl (bindStep l sec off)
                    { secs := s.secs, relocs := s.relocs, kept := [], resolved := 0, err := .ok }).kept ++ s.fixups := h1
                rw [List.mem_append] at h1
                rcases h1 with h1 | h1
                · rcases LS.keptNew _ h1 with h0 | ⟨f', _, _, he', _⟩
                  · cases h0
                  · have : (g.toFixup (some g.label)).lr = some l := by rw [he']
                    simp only [GRef.toFixup, Option.some.injEq] at this
                    exact absurd this hgl
                · exact .inr h1
            · intro bsec boff hb
              show (s.labels.set l _)[g.label]? = _
              rw [List.getElem?_set_ne (Ne.symm hgl)]; exact hb
        · -- lab
          intro l' fx' hl'
          replace hl' : (s.labels.set l (LabelEntry.bound sec off))[l']? = some (LabelEntry.unbound fx') := hl'
          by_cases hll : l = l'
          · subst hll; rw [hgetl] at hl'; cases hl'
          · rw [List.getElem?_set_ne hll] at hl'
            exact h.lab l' fx' hl'
        · -- glob
          have hk : ∀ k ∈ (fx.foldl (bindStep l sec off) { secs := s.secs, relocs := s.relocs, kept := [], resolved := 0, err := .ok }).kept,
              ∃ f ∈ fx, f.lr = none ∧ k = { f with lr := some l } := by
            intro k hk
            rcases LS.keptNew k hk with h0 | ⟨f, hf, hn, he, _⟩
            · cases h0
            · exact ⟨f, hf, hn, he⟩
          constructor
          · intro k hkm
            show ∃ l', k.lr = some l' ∧ k.toG l' ∈ s.ghost
            have hkm' : k ∈ (fx.foldl (bindStep l sec off) { secs := s.secs, relocs := s.relocs, kept := [], resolved := 0, err := .ok }).kept ++ s.fixups := hkm
            rw [List.mem_append] at hkm'
            rcases hkm' with hkm' | hkm'
            · obtain ⟨f, hf, hn, he⟩ := hk k hkm'
              subst he
              exact ⟨l, rfl, hlab.1 f hf hn⟩
            · exact h.glob.1 k hkm'
          · show (_ ++ s.fixups).Pairwise Df
            rw [List.pairwise_append]
            refine ⟨KP, h.glob.2, ?_⟩
            intro a ha b hb
            obtain ⟨f, hf, hn, he⟩ := hk a ha
            obtain ⟨l', hl1, hl2⟩ := h.glob.1 b hb
            obtain ⟨k, ksec, koff, hk1, hk2⟩ := h.wf b hb
            have hne : l' ≠ l := by
              intro e
              rw [hl1] at hk1; cases hk1
              rw [e, hle] at hk2; cases hk2
            subst he
            have : D (f.toG l) (b.toG l') := ghost_disjoint h (hlab.1 f hf hn) hl2 (fun e => hne (by
              have := congrArg GRef.label e; exact this.symm))
            exact this

end AsmjitVerif.CodeHolder
