/- C16: the step function of Model/Reuse.lean respects the observation for the code-generation operations. -/
import AsmjitVerif.Lemmas.ReuseGen
namespace AsmjitVerif.Reuse

theorem World.obs_obs (w : World) : w.obs.obs = w.obs := by
  simp [World.obs, List.map_map, Function.comp_def, Emitter.obs_obs, Holder.obs_obs]

/-- "this world transformer with an answer respects the observation" at one world -/
def RespAt (w : World) (F : World → World × String) : Prop :=
  (F w).1.obs = (F w.obs).1.obs ∧ (F w).2 = (F w.obs).2

theorem same_resp (w : World) (s : String) : (w, s).1.obs = (w.obs, s).1.obs ∧ (w, s).2 = (w.obs, s).2 :=
  ⟨(World.obs_obs w).symm, rfl⟩

theorem setE_resp (w : World) (i : Nat) (e1 e2 : Emitter) (he : e1.obs = e2.obs) : (w.setE i e1).obs = (w.obs.setE i e2).obs :=
  mk_setE_obs w.es w.h w.h.obs i e1 e2 (Holder.obs_obs w.h).symm he

theorem viaAsm_resp2 (es : List Emitter) (h1 h2 : Holder) (hh : h1.obs = h2.obs) (i : Nat) (e : Emitter)
    (f : Holder → Cur → Holder × Cur × String) (hf : ∀ c, Resp (fun h => f h c)) (hk : e.kind = .asm) :
    ((World.mk h1 es).viaAsm i e f).1.obs = ((World.mk h2 (es.map Emitter.obs)).viaAsm i e.obs f).1.obs ∧
      ((World.mk h1 es).viaAsm i e f).2 = ((World.mk h2 (es.map Emitter.obs)).viaAsm i e.obs f).2 := by
  have hr := Resp.congr (hf e.cur) hh
  simp only [World.viaAsm, cur_obs e hk]
  have hc : (f h1 e.cur).2.1 = (f h2 e.cur).2.1 := congrArg Prod.fst hr.2
  have herr : (f h1 e.cur).2.2 = (f h2 e.cur).2.2 := congrArg Prod.snd hr.2
  refine ⟨?_, herr⟩
  exact mk_setE_obs es (f h1 e.cur).1 (f h2 e.cur).1 i (e.setCur (f h1 e.cur).2.1) (e.obs.setCur (f h2 e.cur).2.1) hr.1
    (by rw [hc]; exact setCur_resp e _)

theorem viaAsm_resp (w : World) (i : Nat) (e : Emitter) (f : Holder → Cur → Holder × Cur × String)
    (hf : ∀ c, Resp (fun h => f h c)) (hk : e.kind = .asm) :
    (w.viaAsm i e f).1.obs = (w.obs.viaAsm i e.obs f).1.obs ∧ (w.viaAsm i e f).2 = (w.obs.viaAsm i e.obs f).2 :=
  viaAsm_resp2 w.es w.h w.h.obs (Holder.obs_obs w.h).symm i e f hf hk

theorem lbl_resp (w : World) (i : Nat) (e : Emitter) (name : List Nat) :
    let F := fun (w : World) (e : Emitter) =>
      ((({ w with h := (w.h.newLabel name).1 } : World).setE i
        (if e.kind = .asm then e else match (w.h.newLabel name).2 with
          | some id => { e with labelNodes := id + 1 }
          | none => e)), labelAns (w.h.newLabel name).2)
    (F w e).1.obs = (F w.obs e.obs).1.obs ∧ (F w e).2 = (F w.obs e.obs).2 := by
  intro F
  have hr := newLabel_resp name w.h
  simp only [] at hr
  have hr2 : (w.h.newLabel name).2 = (w.obs.h.newLabel name).2 := hr.2
  simp only [F, ← hr2]
  refine ⟨?_, trivial⟩
  apply mk_setE_obs w.es _ _ i _ _ hr.1
  have hko := Emitter.obs_kind e
  by_cases hk : e.kind = .asm
  · rw [if_pos hk, if_pos (hko ▸ hk)]; exact (Emitter.obs_obs e).symm
  · rw [if_neg hk, if_neg (hko ▸ hk)]
    cases (w.h.newLabel name).2 with
    | none => exact (Emitter.obs_obs e).symm
    | some id => exact upd_labelNodes_resp e _ hk

theorem labels_len_obs (w : World) : w.obs.h.labels.length = w.h.labels.length := rfl
theorem secs_len_obs (w : World) : w.obs.h.secs.length = w.h.secs.length := rfl

/-- a generation operation on an attached emitter respects the observation -/
theorem genAttached_resp (w : World) (i : Nat) (e : Emitter) (op : Op) :
    (w.genAttached i e op).1.obs = (w.obs.genAttached i e.obs op).1.obs ∧ (w.genAttached i e op).2 = (w.obs.genAttached i e.obs op).2 := by
  have hko := Emitter.obs_kind e
  have pos : e.kind = .asm → e.obs.kind = .asm := fun h => hko.trans h
  have neg : ¬ e.kind = .asm → ¬ e.obs.kind = .asm := fun h h' => h (hko.symm.trans h')
  cases op
  case label j => exact lbl_resp w i e []
  case nlabel j name => exact lbl_resp w i e name
  case bind j id =>
    simp only [World.genAttached]
    by_cases hk : e.kind = .asm
    · rw [if_pos hk, if_pos (pos hk)]
      exact viaAsm_resp w i e (asmBind · · id) (fun c => asmBind_resp c id) hk
    · rw [if_neg hk, if_neg (neg hk), labels_len_obs]
      by_cases hc : id ≥ w.h.labels.length
      · rw [if_pos hc, if_pos hc]; exact same_resp w _
      · rw [if_neg hc, if_neg hc]
        refine ⟨setE_resp w i _ _ ?_, rfl⟩
        rw [labelNodes_obs e hk]
        have h1 := addNode_resp ({ e with labelNodes := max e.labelNodes (id + 1) }) (.label id) hk
        have h2 := addNode_resp ({ e.obs with labelNodes := max e.labelNodes (id + 1) }) (.label id) (neg hk)
        exact h1.trans ((congrArg (fun x => (Emitter.addNode x (.label id)).obs) (upd_labelNodes_resp e _ hk)).trans h2.symm)
  case raw j bs =>
    simp only [World.genAttached]
    by_cases hk : e.kind = .asm
    · rw [if_pos hk, if_pos (pos hk)]
      exact viaAsm_resp w i e (asmRaw · · bs) (fun c => asmRaw_resp c bs) hk
    · rw [if_neg hk, if_neg (neg hk)]
      exact ⟨setE_resp w i _ _ (addNode_resp e _ hk), rfl⟩
  case jmp j id =>
    simp only [World.genAttached]
    by_cases hk : e.kind = .asm
    · rw [if_pos hk, if_pos (pos hk)]
      exact viaAsm_resp w i e (asmJmp · · id) (fun c => asmJmp_resp c id) hk
    · rw [if_neg hk, if_neg (neg hk), instOpts_obs]
      refine ⟨setE_resp w i _ _ ?_, rfl⟩
      have h1 := addNode_resp ({ e with instOpts := 0, comment := false }) (.jmp id e.instOpts) hk
      have h2 := addNode_resp ({ e.obs with instOpts := 0, comment := false }) (.jmp id e.instOpts) (neg hk)
      exact h1.trans ((congrArg (fun x => (Emitter.addNode x (.jmp id e.instOpts)).obs) (clearOneShot_resp e)).trans h2.symm)
  case elabel j id sz =>
    simp only [World.genAttached]
    by_cases hk : e.kind = .asm
    · rw [if_pos hk, if_pos (pos hk)]
      exact viaAsm_resp w i e (asmElabel · · id sz) (fun c => asmElabel_resp c id sz) hk
    · rw [if_neg hk, if_neg (neg hk)]
      by_cases hl : id ≥ w.h.labels.length
      · have hl' : id ≥ w.obs.h.labels.length := hl
        rw [if_pos hl, if_pos hl']; exact same_resp w _
      · have hl' : ¬ id ≥ w.obs.h.labels.length := hl
        rw [if_neg hl, if_neg hl']
        by_cases hc : (!(sz == 0 || sz == 1 || sz == 2 || sz == 4 || sz == 8)) = true
        · rw [if_pos hc, if_pos hc]; exact same_resp w _
        · rw [if_neg hc, if_neg hc]
          exact ⟨setE_resp w i _ _ (addNode_resp e _ hk), rfl⟩
  case switch j s =>
    simp only [World.genAttached]
    by_cases hc : s ≥ w.h.secs.length
    · have hc' : s ≥ w.obs.h.secs.length := hc
      rw [if_pos hc, if_pos hc']; exact same_resp w _
    · have hc' : ¬ s ≥ w.obs.h.secs.length := hc
      rw [if_neg hc, if_neg hc']
      by_cases hk : e.kind = .asm
      · rw [if_pos hk, if_pos (pos hk)]
        exact viaAsm_resp w i e (asmSwitch · · s) (fun c => asmSwitch_resp c s) hk
      · rw [if_neg hk, if_neg (neg hk)]
        exact ⟨setE_resp w i _ _ (bldSwitch_resp e _ hk), rfl⟩
  case finalize j =>
    simp only [World.genAttached]
    by_cases hk : e.kind = .asm
    · rw [if_pos hk, if_pos (pos hk)]
      exact same_resp w _
    · rw [if_neg hk, if_neg (neg hk), nodes_obs e hk]
      have hr := serialize_resp e.nodes { sec := 0, off := (w.h.secBytes 0).length, opts := 0, cmt := false } w.h
      exact ⟨mk_obs w.es _ _ hr.1, congrArg (fun t : Cur × String => t.2) hr.2⟩
  case «section» j name =>
    simp only [World.genAttached]
    have hr := newSection_resp name w.h
    have hr1 : (w.h.newSection name).1.obs = (w.obs.h.newSection name).1.obs := hr.1
    have hr2 : (w.h.newSection name).2 = (w.obs.h.newSection name).2 := hr.2
    rcases hs : w.h.newSection name with ⟨h1, r1⟩
    rcases hs' : w.obs.h.newSection name with ⟨h2, r2⟩
    rw [hs, hs'] at hr1 hr2
    simp only at hr1 hr2
    subst hr2
    cases r1 with
    | none => exact same_resp w _
    | some s =>
      simp only []
      by_cases hk : e.kind = .asm
      · rw [if_pos hk, if_pos (pos hk)]
        have := viaAsm_resp2 w.es h1 h2 hr1 i e (asmSwitch · · s) (fun c => asmSwitch_resp c s) hk
        exact ⟨this.1, rfl⟩
      · rw [if_neg hk, if_neg (neg hk)]
        exact ⟨mk_setE_obs w.es h1 h2 i _ _ hr1 (bldSwitch_resp e _ hk), rfl⟩
  all_goals exact same_resp w _

/-- the common shape of the generation operations in `World.step` -/
theorem grp_resp (w : World) (i : Nat) (o : Op) (s : Emitter → String) (hs : ∀ e, s e.obs = s e) :
    let F := fun (w : World) => (match w.es[i]? with
      | none => (w, "bad-emitter")
      | some e => if e.code = true then w.genAttached i e o else (w, s e) : World × String)
    (F w).1.obs = (F w.obs).1.obs ∧ (F w).2 = (F w.obs).2 := by
  intro F
  simp only [F]
  rw [obs_es_getElem? w i]
  cases w.es[i]? with
  | none => exact same_resp w _
  | some e =>
    simp only [Option.map]
    rw [Emitter.obs_code e, hs e]
    by_cases hc : e.code = true
    · rw [if_pos hc, if_pos hc]; exact genAttached_resp w i e o
    · rw [if_neg hc, if_neg hc]; exact same_resp w _

/-- **every code-generation operation respects the observation** (single-world form) -/
theorem gen_step_resp (w : World) (op : Op) (hop : op.lifecycle = false) :
    (w.step op).1.obs = (w.obs.step op).1.obs ∧ (w.step op).2 = (w.obs.step op).2 := by
  cases op <;> simp only [Op.lifecycle, Bool.true_eq_false] at hop
  case opt i bits =>
    simp only [World.step]
    rw [obs_es_getElem? w i]
    cases w.es[i]? with
    | none => exact same_resp w _
    | some e => exact ⟨setE_resp w i _ _ (by rw [instOpts_obs]; exact upd_opts_resp e _), rfl⟩
  case cmt i =>
    simp only [World.step]
    rw [obs_es_getElem? w i]
    cases w.es[i]? with
    | none => exact same_resp w _
    | some e => exact ⟨setE_resp w i _ _ (upd_cmt_resp e _), rfl⟩
  case vreg i =>
    simp only [World.step]
    rw [obs_es_getElem? w i]
    cases w.es[i]? with
    | none => exact same_resp w _
    | some e =>
      simp only [Option.map]
      have hko := Emitter.obs_kind e
      have hco := Emitter.obs_code e
      by_cases hk : (e.kind != .cmp) = true
      · rw [if_pos hk, if_pos (show (e.obs.kind != .cmp) = true by rw [hko]; exact hk)]; exact same_resp w _
      · rw [if_neg hk, if_neg (show ¬ (e.obs.kind != .cmp) = true by rw [hko]; exact hk)]
        have hk' : e.kind = .cmp := by simpa using hk
        by_cases hc : (!e.code) = true
        · rw [if_pos hc, if_pos (show (!e.obs.code) = true by rw [hco]; exact hc)]; exact same_resp w _
        · rw [if_neg hc, if_neg (show ¬ (!e.obs.code) = true by rw [hco]; exact hc), vregs_obs e hk']
          exact ⟨setE_resp w i _ _ (upd_vregs_resp e _ hk'), rfl⟩
  case jann i =>
    simp only [World.step]
    rw [obs_es_getElem? w i]
    cases w.es[i]? with
    | none => exact same_resp w _
    | some e =>
      simp only [Option.map]
      have hko := Emitter.obs_kind e
      by_cases hk : (e.kind != .cmp) = true
      · rw [if_pos hk, if_pos (show (e.obs.kind != .cmp) = true by rw [hko]; exact hk)]; exact same_resp w _
      · rw [if_neg hk, if_neg (show ¬ (e.obs.kind != .cmp) = true by rw [hko]; exact hk)]
        have hk' : e.kind = .cmp := by simpa using hk
        rw [janns_obs e hk']
        exact ⟨setE_resp w i _ _ (upd_janns_resp e _ hk'), rfl⟩
  case label i => exact grp_resp w i (.label i) (fun _ => "L-") (fun _ => rfl)
  case nlabel i n => exact grp_resp w i (.nlabel i n) (fun _ => "L-") (fun _ => rfl)
  case bind i id => exact grp_resp w i (.bind i id) (fun _ => "NotInitialized") (fun _ => rfl)
  case raw i bs => exact grp_resp w i (.raw i bs) (fun _ => "NotInitialized") (fun _ => rfl)
  case jmp i id => exact grp_resp w i (.jmp i id) (fun _ => "NotInitialized") (fun _ => rfl)
  case elabel i id sz => exact grp_resp w i (.elabel i id sz) (fun _ => "NotInitialized") (fun _ => rfl)
  case «section» i n => exact grp_resp w i (.section i n) (fun _ => "NotInitialized") (fun _ => rfl)
  case switch i s => exact grp_resp w i (.switch i s) (fun _ => "NotInitialized") (fun _ => rfl)
  case finalize i =>
    exact grp_resp w i (.finalize i) (fun e => if e.kind = .asm then "ok" else "NotInitialized")
      (fun e => by rw [Emitter.obs_kind e])

end AsmjitVerif.Reuse
