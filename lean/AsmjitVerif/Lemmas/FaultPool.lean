/- C15: `FaultPool.addF` with the oracle that never fails is C19's `ConstPool.add`; a failed `addF` changes nothing. -/
import AsmjitVerif.Model.FaultPool
import AsmjitVerif.Lemmas.Fault
namespace AsmjitVerif.FaultPool
open AsmjitVerif AsmjitVerif.ConstPool AsmjitVerif.Fault
set_option maxHeartbeats 800000

theorem allocGap_nil (gp : Nat) : (allocGap [] gp).1 = [] ∧ (allocGap [] gp).2.2 = true := by
  unfold allocGap; split <;> simp [req]

theorem addGapAuxF_nil : ∀ (fuel gp : Nat) (gaps : List (List Gap)) (off size : Nat),
    (addGapAuxF fuel [] gp gaps off size).1 = [] ∧ (addGapAuxF fuel [] gp gaps off size).2.2 = addGapAux fuel gaps off size
  | 0, gp, gaps, off, size => by simp [addGapAuxF, addGapAux]
  | fuel + 1, gp, gaps, off, size => by
    unfold addGapAuxF addGapAux
    split
    · simp
    · have h := allocGap_nil gp
      generalize allocGap [] gp = r at h
      obtain ⟨o1, gp1, b⟩ := r
      simp only at h
      obtain ⟨rfl, rfl⟩ := h
      simp only
      exact addGapAuxF_nil fuel gp1 _ _ _

theorem addGapF_nil (gp : Nat) (gaps : List (List Gap)) (off size : Nat) :
    (addGapF [] gp gaps off size).1 = [] ∧ (addGapF [] gp gaps off size).2.2 = addGap gaps off size :=
  addGapAuxF_nil size gp gaps off size

theorem gapLoopF_nil (size ti : Nat) : ∀ (iters gp : Nat) (gaps : List (List Gap)) (offset : Option Nat),
    (gapLoopF size ti iters [] gp gaps offset).1 = [] ∧
    ((gapLoopF size ti iters [] gp gaps offset).2.2.1, (gapLoopF size ti iters [] gp gaps offset).2.2.2) = gapLoop size ti iters gaps offset
  | 0, gp, gaps, offset => by simp [gapLoopF, gapLoop]
  | iters + 1, gp, gaps, offset => by
    unfold gapLoopF gapLoop
    cases hg : getAt gaps ti with
    | nil => simp only; exact gapLoopF_nil size ti iters gp gaps offset
    | cons gap next =>
      simp only
      by_cases hpos : gap.size - size > 0
      · have h := addGapF_nil (gp + 1) (setAt gaps ti next) gap.offset (gap.size - size)
        generalize addGapF [] (gp + 1) (setAt gaps ti next) gap.offset (gap.size - size) = r at h
        obtain ⟨o1, gp1, gaps1⟩ := r
        simp only at h
        obtain ⟨rfl, rfl⟩ := h
        simp only [hpos, if_true]
        exact gapLoopF_nil size ti iters gp1 _ _
      · simp only [hpos, if_false]
        exact gapLoopF_nil size ti iters (gp + 1) _ _

theorem allocOffsetF_nil (s : FPool) (size ti : Nat) :
    (allocOffsetF [] s size ti).1 = [] ∧
    ((allocOffsetF [] s size ti).2.2.1, (allocOffsetF [] s size ti).2.2.2.1, (allocOffsetF [] s size ti).2.2.2.2) = allocOffset s.p size ti := by
  unfold allocOffsetF allocOffset
  have h := gapLoopF_nil size ti (6 - ti) s.gapPool s.p.gaps none
  generalize gapLoopF size ti (6 - ti) [] s.gapPool s.p.gaps none = r at h
  obtain ⟨o1, gp1, gaps1, off1⟩ := r
  simp only at h
  obtain ⟨rfl, h2⟩ := h
  rw [← h2]
  cases off1 with
  | some off => simp
  | none =>
    simp only
    split
    · rename_i hd
      have h3 := addGapF_nil gp1 gaps1 s.p.size (alignUpDiff s.p.size size)
      generalize addGapF [] gp1 gaps1 s.p.size (alignUpDiff s.p.size size) = r2 at h3
      obtain ⟨o2, gp2, gaps2⟩ := r2
      simp only at h3
      obtain ⟨rfl, rfl⟩ := h3
      simp [hd]
    · rename_i hd
      simp [hd]

theorem shareLevelF_nil (data : Bytes) (offset smaller ti : Nat) : ∀ (l : List Nat) (tr : List (List Node)),
    shareLevelF data offset smaller ti l [] tr =
      ([], l.foldl (fun tr i =>
        let piece := (data.drop (i * smaller)).take smaller
        match treeGet (getAt tr ti) piece with
        | some _ => tr
        | none => setAt tr ti (treeInsert { data := piece, offset := offset + i * smaller, shared := true } (getAt tr ti))) tr, true)
  | [], tr => by simp [shareLevelF]
  | i :: rest, tr => by
    unfold shareLevelF
    simp only [List.foldl_cons]
    split
    · rename_i n hn
      rw [shareLevelF_nil data offset smaller ti rest tr]
      simp [hn]
    · rename_i hn
      simp only [req]
      rw [shareLevelF_nil data offset smaller ti rest _]
      simp [hn]

theorem shareLoopF_nil (data : Bytes) (offset : Nat) : ∀ (ti smaller pCount : Nat) (tree : List (List Node)),
    shareLoopF data offset ti smaller pCount [] tree = ([], shareLoop data offset ti smaller pCount tree)
  | 0, _, _, tree => by simp [shareLoopF, shareLoop]
  | ti + 1, smaller, pCount, tree => by
    unfold shareLoopF shareLoop
    split
    · simp only
      rw [shareLevelF_nil]
      simp only
      rw [shareLoopF_nil data offset ti]
      rfl
    · rfl

/-- C19's result type inside C15's -/
def ofResult : ConstPool.Result → Res
  | .ok o => .ok o
  | .invalidArgument => .invalidArgument

/-- `addF_nofault`: with the oracle that never fails, `addF` IS C19's `ConstPool.add` (so every theorem of Props/C19.lean
speaks about the failure-free runs of this model) -/
theorem addF_nofault (s : FPool) (data : Bytes) :
    (addF [] s data).1 = [] ∧ (addF [] s data).2.1.p = (ConstPool.add s.p data).1 ∧
    (addF [] s data).2.2 = ofResult (ConstPool.add s.p data).2 := by
  unfold addF ConstPool.add
  simp only
  by_cases h1 : data.length = 0 ∨ data.length > kMaxSize
  · rw [if_pos h1, if_pos h1]; exact ⟨rfl, rfl, rfl⟩
  · rw [if_neg h1, if_neg h1]
    by_cases h2 : 2 ^ ctz data.length ≠ data.length
    · rw [if_pos h2, if_pos h2]; exact ⟨rfl, rfl, rfl⟩
    · rw [if_neg h2, if_neg h2]
      cases ht : treeGet (getAt s.p.tree (ctz data.length)) data with
      | some node => exact ⟨rfl, rfl, rfl⟩
      | none =>
        simp only [req]
        have h := allocOffsetF_nil s data.length (ctz data.length)
        generalize allocOffsetF [] s data.length (ctz data.length) = r at h
        obtain ⟨o2, gp2, gaps2, off, nsz⟩ := r
        simp only at h
        obtain ⟨rfl, h3⟩ := h
        simp only
        rw [shareLoopF_nil]
        simp only [← h3, ofResult]
        exact ⟨trivial, trivial, trivial⟩

/-- shape of an out-of-memory answer of `addF`: it is the node request that failed, and the state is returned untouched -/
theorem addF_oom_shape (o o' : Oracle) (s s' : FPool) (data : Bytes) (h : addF o s data = (o', s', .oom)) :
    s' = s ∧ req o = (true, o') := by
  unfold addF at h
  simp only at h
  by_cases h1 : data.length = 0 ∨ data.length > kMaxSize
  · rw [if_pos h1] at h; cases h
  · rw [if_neg h1] at h
    by_cases h2 : 2 ^ ctz data.length ≠ data.length
    · rw [if_pos h2] at h; cases h
    · rw [if_neg h2] at h
      cases ht : treeGet (getAt s.p.tree (ctz data.length)) data with
      | some node => rw [ht] at h; cases h
      | none =>
        rw [ht] at h
        simp only at h
        rcases hr : req o with ⟨b, o1⟩
        rw [hr] at h
        cases b
        · simp only at h; cases h
        · simp only at h; cases h; exact ⟨rfl, rfl⟩

/-- `addF_fail_atomic`: under every oracle an add answered out of memory has changed NOTHING (trees, gaps, size, alignment,
gap free list) - the node is requested first -/
theorem addF_fail_atomic (o o' : Oracle) (s s' : FPool) (data : Bytes) (h : addF o s data = (o', s', .oom)) : s' = s :=
  (addF_oom_shape o o' s s' data h).1

/-- a failed add consumed an injected failure -/
theorem addF_oom_consumes (o o' : Oracle) (s s' : FPool) (data : Bytes) (h : addF o s data = (o', s', .oom)) :
    faults o' < faults o :=
  req_true_faults o o' (addF_oom_shape o o' s s' data h).2

end AsmjitVerif.FaultPool
