/- C19 invariant, part 2: node insertion, shared sub-constants, `add` preserves `Inv`. -/
import AsmjitVerif.Lemmas.ConstPoolGaps
namespace AsmjitVerif.ConstPool
open Spec

theorem NS_ins_shared {t : List (List Node)} {j i : Nat} {m n : Node} (hm : m.shared = true) :
    NS (ins t j m) i n ↔ NS t i n := by
  unfold NS; rw [mem_ins]
  constructor
  · rintro ⟨⟨_, rfl⟩ | h, hs⟩
    · rw [hm] at hs; exact absurd hs (by decide)
    · exact ⟨h, hs⟩
  · rintro ⟨h, hs⟩; exact ⟨Or.inr h, hs⟩

theorem NS_ins_of {t : List (List Node)} {j i : Nat} {m n : Node} (h : NS t i n) : NS (ins t j m) i n :=
  ⟨(mem_ins t j i m n).2 (Or.inr h.1), h.2⟩

theorem histNode_ins {t : List (List Node)} {j : Nat} {m : Node} {hist : List Entry}
    (hnone : treeGet (getAt t j) m.data = none)
    (h : ∀ e ∈ hist, ∃ i n, i < 7 ∧ e.data.length = 2 ^ i ∧ treeGet (getAt t i) e.data = some n ∧ n.offset = e.offset) :
    ∀ e ∈ hist, ∃ i n, i < 7 ∧ e.data.length = 2 ^ i ∧ treeGet (getAt (ins t j m) i) e.data = some n ∧ n.offset = e.offset := by
  intro e he
  obtain ⟨i, n, hi, hl, hget, hoff⟩ := h e he
  refine ⟨i, n, hi, hl, ?_, hoff⟩
  rw [treeGet_ins_of_ne]; exact hget
  by_cases hij : i = j
  · right; intro hd; subst hij; rw [hd] at hnone; rw [hnone] at hget; exact absurd hget (by simp)
  · left; exact hij

/-- registering a shared sub-constant that lies inside a storage-owning node keeps the tree invariant -/
theorem TreeInv.ins_shared {t : List (List Node)} {size align : Nat} {hist : List Entry} {j : Nat} {m : Node}
    (h : TreeInv t size align hist) (hm : m.shared = true) (hok : NodeOk size align j m)
    (hnone : treeGet (getAt t j) m.data = none)
    (hpar : ∃ i n, NS t i n ∧ n.offset ≤ m.offset ∧ m.offset + 2 ^ j ≤ n.offset + 2 ^ i ∧
      m.data = (n.data.drop (m.offset - n.offset)).take (2 ^ j)) :
    TreeInv (ins t j m) size align hist := by
  refine ⟨?_, ?_, ?_, histNode_ins hnone h.histNode, ?_⟩
  · intro i n hn
    rcases (mem_ins t j i m n).1 hn with ⟨rfl, rfl⟩ | hold
    · exact hok
    · exact h.ok i n hold
  · intro i k a b ha hb
    exact h.disj i k a b ((NS_ins_shared hm).1 ha) ((NS_ins_shared hm).1 hb)
  · intro k x hx hxs
    rcases (mem_ins t j k m x).1 hx with ⟨rfl, rfl⟩ | hold
    · obtain ⟨i, n, hns, r⟩ := hpar
      exact ⟨i, n, NS_ins_of hns, r⟩
    · obtain ⟨i, n, hns, r⟩ := h.shared k x hold hxs
      exact ⟨i, n, NS_ins_of hns, r⟩
  · intro i n hns; exact h.nodeHist i n ((NS_ins_shared hm).1 hns)

/-- inserting the storage-owning node of a new constant into a free range -/
theorem TreeInv.ins_nonshared {t : List (List Node)} {size size' align : Nat} {hist : List Entry} {ti off : Nat} {data : Bytes}
    (h : TreeInv t size align hist) (hsz : size ≤ size') (hti : ti < 7) (hlen : data.length = 2 ^ ti)
    (hal : 2 ^ ti ∣ off) (hfit : off + 2 ^ ti ≤ size')
    (hnone : treeGet (getAt t ti) data = none)
    (hfree : ∀ j n, NS t j n → off + 2 ^ ti ≤ n.offset ∨ n.offset + 2 ^ j ≤ off) :
    TreeInv (ins t ti { data := data, offset := off, shared := false }) size' (max align (2 ^ ti)) (⟨data, off⟩ :: hist) := by
  have hns : ∀ i n, NS (ins t ti { data := data, offset := off, shared := false }) i n →
      (i = ti ∧ n = { data := data, offset := off, shared := false }) ∨ NS t i n := by
    intro i n hn
    rcases (mem_ins _ _ _ _ _).1 hn.1 with h1 | h1
    · exact Or.inl h1
    · exact Or.inr ⟨h1, hn.2⟩
  refine ⟨?_, ?_, ?_, ?_, ?_⟩
  · intro i n hn
    rcases (mem_ins _ _ _ _ _).1 hn with ⟨rfl, rfl⟩ | hold
    · exact ⟨hti, hlen, hal, hfit, Nat.le_max_right _ _⟩
    · have := h.ok i n hold
      exact ⟨this.idx, this.len, this.al, Nat.le_trans this.fit hsz, Nat.le_trans this.le (Nat.le_max_left _ _)⟩
  · intro i j a b ha hb
    rcases hns i a ha with ⟨rfl, rfl⟩ | ha'
    · rcases hns j b hb with ⟨rfl, rfl⟩ | hb'
      · left; exact ⟨rfl, rfl⟩
      · right; exact hfree j b hb'
    · rcases hns j b hb with ⟨rfl, rfl⟩ | hb'
      · right; have := hfree i a ha'; simp only; omega
      · exact h.disj i j a b ha' hb'
  · intro k x hx hxs
    rcases (mem_ins _ _ _ _ _).1 hx with ⟨_, rfl⟩ | hold
    · simp at hxs
    · obtain ⟨i, n, hn, r⟩ := h.shared k x hold hxs
      exact ⟨i, n, NS_ins_of hn, r⟩
  · intro e he
    rcases List.mem_cons.1 he with rfl | he'
    · exact ⟨ti, _, hti, hlen, treeGet_ins_self t ti { data := data, offset := off, shared := false } hnone, rfl⟩
    · exact histNode_ins (m := { data := data, offset := off, shared := false }) hnone h.histNode e he'
  · intro i n hn
    rcases hns i n hn with ⟨_, rfl⟩ | hold
    · exact List.mem_cons_self
    · exact List.mem_cons_of_mem _ (h.nodeHist i n hold)

/-! ### shared sub-constant registration -/

/-- what the share loop maintains: the tree invariant and the presence of the new storage-owning node -/
def ShareP (tb : List (List Node)) (size align : Nat) (hist : List Entry) (ti0 : Nat) (n0 : Node) (t : List (List Node)) : Prop :=
  TreeInv t size align hist ∧ NS t ti0 n0 ∧ ∀ j n, NS t j n → NS tb j n

theorem shareLevel_spec {tb : List (List Node)} {size align : Nat} {hist : List Entry} {ti0 : Nat} {data : Bytes} {off : Nat}
    (hlen : data.length = 2 ^ ti0) (j pCount : Nat) (hj : j < ti0) (hti0 : ti0 < 7) (hp : pCount * 2 ^ j = 2 ^ ti0)
    (t : List (List Node)) (hP : ShareP tb size align hist ti0 { data := data, offset := off, shared := false } t) :
    ShareP tb size align hist ti0 { data := data, offset := off, shared := false } (shareLevel data off (2 ^ j) j pCount t) := by
  unfold shareLevel
  have gen : ∀ (l : List Nat) (t : List (List Node)), (∀ i ∈ l, i < pCount) →
      ShareP tb size align hist ti0 { data := data, offset := off, shared := false } t →
      ShareP tb size align hist ti0 { data := data, offset := off, shared := false }
        (l.foldl (fun tr i =>
          match treeGet (getAt tr j) ((data.drop (i * 2 ^ j)).take (2 ^ j)) with
          | some _ => tr
          | none => setAt tr j (treeInsert { data := (data.drop (i * 2 ^ j)).take (2 ^ j), offset := off + i * 2 ^ j, shared := true } (getAt tr j))) t) := by
    intro l
    induction l with
    | nil => intro t _ h; exact h
    | cons i l ih =>
      intro t hl hP
      simp only [List.foldl_cons]
      apply ih _ (fun x hx => hl x (List.mem_cons_of_mem _ hx))
      split
      · exact hP
      · rename_i hnone
        obtain ⟨hT, hN, hB⟩ := hP
        have hi : i < pCount := hl i List.mem_cons_self
        have hn0 := hT.ok ti0 _ hN.1
        have hSdvd : 2 ^ j ∣ 2 ^ ti0 := Nat.pow_dvd_pow 2 (Nat.le_of_lt hj)
        have hSle : 2 ^ j ≤ 2 ^ ti0 := Nat.pow_le_pow_right (by decide) (Nat.le_of_lt hj)
        generalize hS : 2 ^ j = S at *
        have hiS : i * S + S ≤ 2 ^ ti0 := by
          have := Nat.mul_le_mul_right S (show i + 1 ≤ pCount by omega)
          rw [Nat.add_mul, Nat.one_mul] at this; omega
        have hfit0 : off + 2 ^ ti0 ≤ size := hn0.fit
        have hle0 : 2 ^ ti0 ≤ align := hn0.le
        have hal0 : 2 ^ ti0 ∣ off := hn0.al
        have hok : NodeOk size align j { data := (data.drop (i * S)).take S, offset := off + i * S, shared := true } := by
          refine ⟨by omega, ?_, ?_, ?_, ?_⟩
          · simp only [List.length_take, List.length_drop, hlen, hS]; omega
          · rw [hS]; exact Nat.dvd_add (Nat.dvd_trans hSdvd hal0) (Nat.dvd_mul_left _ _)
          · simp only [hS]; omega
          · rw [hS]; omega
        have : ShareP tb size align hist ti0 { data := data, offset := off, shared := false }
            (ins t j { data := (data.drop (i * S)).take S, offset := off + i * S, shared := true }) := by
          refine ⟨hT.ins_shared rfl hok hnone ⟨ti0, _, hN, ?_, ?_, ?_⟩, (NS_ins_shared rfl).2 hN,
            fun k x hx => hB k x ((NS_ins_shared rfl).1 hx)⟩
          · simp
          · simp only [hS]; omega
          · simp only [hS, Nat.add_sub_cancel_left]
        exact this
  exact gen _ t (fun i hi => List.mem_range.1 hi) hP

theorem shareLoop_spec {tb : List (List Node)} {size align : Nat} {hist : List Entry} {ti0 : Nat} {data : Bytes} {off : Nat}
    (hlen : data.length = 2 ^ ti0) (hti0 : ti0 < 7) : ∀ (ti pCount : Nat) (t : List (List Node)), ti ≤ ti0 →
    pCount * 2 ^ ti = 2 ^ ti0 →
    ShareP tb size align hist ti0 { data := data, offset := off, shared := false } t →
    ShareP tb size align hist ti0 { data := data, offset := off, shared := false } (shareLoop data off ti (2 ^ ti) pCount t) := by
  intro ti
  induction ti with
  | zero => intro pCount t _ _ h; simp only [shareLoop]; exact h
  | succ ti ih =>
    intro pCount t hle hp hP
    rw [shareLoop]
    split
    · have h2 : 2 ^ (ti + 1) / 2 = 2 ^ ti := by rw [Nat.pow_succ]; exact Nat.mul_div_cancel _ (by decide)
      simp only [h2]
      have hp' : pCount * 2 * 2 ^ ti = 2 ^ ti0 := by rw [← hp, Nat.pow_succ, Nat.mul_assoc, Nat.mul_comm 2]
      apply ih (pCount * 2) _ (by omega) hp'
      exact shareLevel_spec hlen ti (pCount * 2) (by omega) hti0 hp' t hP
    · exact hP

/-! ### `add` -/

theorem add_invalid (s : Pool) (d : Bytes) (h : Spec.validSize d.length = false) : add s d = (s, .invalidArgument) := by
  have : ¬ (¬ (d.length = 0 ∨ d.length > kMaxSize) ∧ 2 ^ ctz d.length = d.length) := fun hc => by
    have := (validSize_iff d.length).2 hc; rw [h] at this; exact absurd this (by decide)
  unfold add
  by_cases h1 : d.length = 0 ∨ d.length > kMaxSize
  · simp only [h1, if_true]
  · simp only [h1, if_false]
    have h2 : 2 ^ ctz d.length ≠ d.length := fun e => this ⟨h1, e⟩
    simp only [ne_eq, h2, not_false_eq_true, if_true]

/-- a lookup hit: the pool is untouched and the stored offset is returned -/
theorem add_hit (s : Pool) (d : Bytes) (i : Nat) (hi : i < 7) (hl : d.length = 2 ^ i) (n : Node)
    (hget : treeGet (getAt s.tree i) d = some n) : add s d = (s, .ok n.offset) := by
  unfold add
  have h1 : ¬ (2 ^ i = 0 ∨ 2 ^ i > kMaxSize) := by
    have : 0 < 2 ^ i := Nat.two_pow_pos i
    have : 2 ^ i ≤ 2 ^ 6 := Nat.pow_le_pow_right (by decide) (by omega)
    simp only [kMaxSize]; omega
  simp only [hl, h1, if_false, ctz_pow i hi, ne_eq, not_true_eq_false, hget]

theorem add_miss (s : Pool) (d : Bytes) (i : Nat) (hi : i < 7) (hl : d.length = 2 ^ i)
    (hget : treeGet (getAt s.tree i) d = none) :
    add s d = ({ tree := shareLoop d (allocOffset s (2 ^ i) i).2.1 i (2 ^ i) 1
                    (ins s.tree i { data := d, offset := (allocOffset s (2 ^ i) i).2.1, shared := false }),
                 gaps := (allocOffset s (2 ^ i) i).1, size := (allocOffset s (2 ^ i) i).2.2,
                 alignment := max s.alignment (2 ^ i),
                 minItemSize := if s.minItemSize = 0 then 2 ^ i else min s.minItemSize (2 ^ i) },
               .ok (allocOffset s (2 ^ i) i).2.1) := by
  unfold add
  have h1 : ¬ (2 ^ i = 0 ∨ 2 ^ i > kMaxSize) := by
    have : 0 < 2 ^ i := Nat.two_pow_pos i
    have : 2 ^ i ≤ 2 ^ 6 := Nat.pow_le_pow_right (by decide) (by omega)
    simp only [kMaxSize]; omega
  simp only [hl, h1, if_false, ctz_pow i hi, ne_eq, not_true_eq_false, hget, ins]

theorem pow_max (a i : Nat) (h : a = 0 ∨ ∃ k, a = 2 ^ k) : max a (2 ^ i) = 0 ∨ ∃ k, max a (2 ^ i) = 2 ^ k := by
  right
  rcases h with rfl | ⟨k, rfl⟩
  · exact ⟨i, by simp⟩
  · by_cases hk : k ≤ i
    · exact ⟨i, Nat.max_eq_right (Nat.pow_le_pow_right (by decide) hk)⟩
    · exact ⟨k, Nat.max_eq_left (Nat.pow_le_pow_right (by decide) (by omega))⟩

/-- The heart of C19: an accepted `add` keeps the invariant, with the new constant in the ghost history. -/
theorem add_inv (s : Pool) (hist : List Entry) (d : Bytes) (hinv : Inv s hist) (hv : Spec.validSize d.length = true) :
    ∃ off, (add s d).2 = .ok off ∧ Inv (add s d).1 (⟨d, off⟩ :: hist) ∧
      s.size ≤ (add s d).1.size ∧ s.alignment ≤ (add s d).1.alignment := by
  obtain ⟨i, hi, hl, _⟩ := validSize_pow d.length hv
  cases hget : treeGet (getAt s.tree i) d with
  | some n =>
    rw [add_hit s d i hi hl n hget]
    refine ⟨n.offset, rfl, ⟨?_, hinv.gaps, hinv.pow⟩, Nat.le_refl _, Nat.le_refl _⟩
    have hT := hinv.tree
    refine ⟨hT.ok, hT.disj, hT.shared, ?_, fun j m hm => List.mem_cons_of_mem _ (hT.nodeHist j m hm)⟩
    intro e he
    rcases List.mem_cons.1 he with rfl | he'
    · exact ⟨i, n, hi, hl, hget, rfl⟩
    · exact hT.histNode e he'
  | none =>
    rw [add_miss s d i hi hl hget]
    obtain ⟨hG, hsz, hal, hfree⟩ := allocOffset_spec s hist i hinv
    generalize allocOffset s (2 ^ i) i = a at *
    have hT1 := hinv.tree.ins_nonshared (off := a.2.1) (data := d) hsz hi hl hal hfree.fit hget hfree.node
    have hN1 : NS (ins s.tree i { data := d, offset := a.2.1, shared := false }) i { data := d, offset := a.2.1, shared := false } :=
      ⟨(mem_ins _ _ _ _ _).2 (Or.inl ⟨rfl, rfl⟩), rfl⟩
    have hP := shareLoop_spec (tb := ins s.tree i { data := d, offset := a.2.1, shared := false })
      (size := a.2.2) (align := max s.alignment (2 ^ i)) (hist := ⟨d, a.2.1⟩ :: hist)
      (off := a.2.1) hl hi i 1 _ (Nat.le_refl _) (Nat.one_mul _) ⟨hT1, hN1, fun _ _ h => h⟩
    refine ⟨a.2.1, rfl, ⟨hP.1, ?_, pow_max _ _ hinv.pow⟩, hsz, Nat.le_max_left _ _⟩
    refine ⟨hG.geom, ?_, hG.pair, hG.cross⟩
    intro k g j n hg hn
    have hn' := hP.2.2 j n hn
    rcases (mem_ins _ _ _ _ _).1 hn'.1 with ⟨rfl, rfl⟩ | hold
    · have := hfree.gap k g hg; simp only; omega
    · exact hG.node k g j n hg ⟨hold, hn'.2⟩

end AsmjitVerif.ConstPool
