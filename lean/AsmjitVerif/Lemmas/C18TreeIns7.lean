/-
C18 — ArenaTree insert, part 7: the quiet iterations in the three modes (`F`: right below a flipped node;
`D1`: right below the root of a double rotation, where `g` and `t` are stale; `N`: no flip needed).  Core-only.
-/
import AsmjitVerif.Lemmas.C18TreeIns6
namespace AsmjitVerif.Tree.Ins
open AsmjitVerif.Tree AsmjitVerif.Tree.Spec

theorem nrr_kids {Q : T} (hn : Q.noRedRed) (hr : Q.isRed = true) (d : Bool) : (childD Q d).isRed = false := by
  cases Q with
  | nil => cases hr
  | node i k c l r =>
    cases c
    · cases hr
    · simp only [T.noRedRed] at hn
      cases d
      · exact (hn.1 trivial).1
      · exact (hn.1 trivial).2

theorem step_F {C : Cfg} {fuel : Nat} (ih : LoopIH C fuel) (hs : Sorted C.K0) (hk : C.k ∉ C.K0)
    {ctx : List Frame} {Q : T} {h : Tree} {g p tt q : Nat} {dir last : Bool}
    (core : CoreH C C.K0 C.I0 h (plug ctx Q)) (fresh : Fresh C h) (bnd : Bnd C.k ctx) (col : Col (plug ctx Q))
    (hq : Rep h q Q) (hm : ModeOK C.k .F ctx Q g p tt dir last) (hf : FuelOK .F (fuel + 1) Q) :
    Post C (insertLoop (fuel + 1) h C.node g p tt q dir last) := by
  obtain ⟨vp, vg, hw, hQ, hblack, hkids⟩ := hm
  obtain ⟨m, hb, hfu⟩ := hf
  have hge := ctx_idx_ge core.rep
  refine quiet_continue ih .N hs hk core fresh bnd col hq hQ ?_ ?_ ⟨?_, ?_, ?_, ?_⟩ ?_
  · rw [hkids.1]; exact fun e => nomatch e.1
  · rw [hblack]; exact fun e => nomatch e.1
  · exact vp_desc ctx Q q _ (Rep_rootIdx hq)
  · exact vg_desc _ vp
  · exact vt_desc _ vg hw hge
  · simp only [colN, descF, hblack]
    refine ⟨fun _ => ?_, fun e => nomatch e⟩
    exact ((blackKids_iff Q _).1 hkids).2
  · obtain ⟨m', e, hc⟩ := (bh_childD hQ hb (decide (rkey Q < C.k))).2 hblack
    have : m' = m := by omega
    subst this
    refine ⟨m', hc, ?_⟩
    rw [((blackKids_iff Q _).1 hkids).1]
    simp only [Bool.false_eq_true, if_false]; omega

theorem step_D1 {C : Cfg} {fuel : Nat} (ih : LoopIH C fuel) (hs : Sorted C.K0) (hk : C.k ∉ C.K0)
    {ctx : List Frame} {Q : T} {h : Tree} {g p tt q : Nat} {dir last : Bool}
    (core : CoreH C C.K0 C.I0 h (plug ctx Q)) (fresh : Fresh C h) (bnd : Bnd C.k ctx) (col : Col (plug ctx Q))
    (hq : Rep h q Q) (hm : ModeOK C.k .D1 ctx Q g p tt dir last) (hf : FuelOK .D1 (fuel + 1) Q) :
    Post C (insertLoop (fuel + 1) h C.node g p tt q dir last) := by
  obtain ⟨vp, hg0, hctx, htb, hred, hkids, hcf⟩ := hm
  obtain ⟨m, hb, hfu⟩ := hf
  have hge := ctx_idx_ge core.rep
  have hQ := ne_nil_of_red hred
  cases ctx with
  | nil => exact absurd rfl hctx
  | cons f fs =>
  simp only [VP] at vp
  simp only [topBlack] at htb
  have hp2 : 2 ≤ p := by rw [vp.1]; exact hge f.idx (by simp [ctxIdxs])
  have hpr : isRed h p = false := by rw [vp.1, isRed_top core.rep]; exact htb
  refine quiet_continue ih .F hs hk core fresh bnd col hq hQ ?_ ?_ ⟨?_, ?_, ?_, hcf⟩ ?_
  · rw [hkids.1]; exact fun e => nomatch e.1
  · rw [hpr]; exact fun e => nomatch e.2
  · exact vp_desc _ Q q _ (Rep_rootIdx hq)
  · exact vg_desc _ vp
  · intro e; omega
  · have hc := (bh_childD hQ hb (decide (rkey Q < C.k))).1 hred
    exact ⟨m, hc, by omega⟩

theorem step_N_quiet {C : Cfg} {fuel : Nat} (ih : LoopIH C fuel) (hs : Sorted C.K0) (hk : C.k ∉ C.K0)
    {ctx : List Frame} {Q : T} {h : Tree} {g p tt q : Nat} {dir last : Bool}
    (core : CoreH C C.K0 C.I0 h (plug ctx Q)) (fresh : Fresh C h) (bnd : Bnd C.k ctx) (col : Col (plug ctx Q))
    (hq : Rep h q Q) (hm : ModeOK C.k .N ctx Q g p tt dir last) (hf : FuelOK .N (fuel + 1) Q)
    (hQ : Q ≠ .nil) (hnf : ¬((childD Q false).isRed = true ∧ (childD Q true).isRed = true)) :
    Post C (insertLoop (fuel + 1) h C.node g p tt q dir last) := by
  obtain ⟨vp, vg, vt, cn⟩ := hm
  obtain ⟨n, hb, hfu⟩ := hf
  have hge := ctx_idx_ge core.rep
  have nrrQ := nrr_plug_sub col.1
  have hnv : ¬(Q.isRed = true ∧ isRed h p = true) := by
    rintro ⟨hr, hp⟩
    cases ctx with
    | nil => simp only [VP] at vp; rw [vp] at hp; simp [isRed] at hp
    | cons f fs =>
      simp only [VP] at vp
      rw [vp.1, isRed_top core.rep] at hp
      have := nrr_plug_sub (ctx := fs) col.1
      simp only [Frame.fill, nrr_nodeD] at this
      rw [(this.1 hp).1] at hr; cases hr
  refine quiet_continue ih .N hs hk core fresh bnd col hq hQ hnf hnv ⟨?_, ?_, ?_, ?_⟩ ?_
  · exact vp_desc _ Q q _ (Rep_rootIdx hq)
  · exact vg_desc _ vp
  · exact vt_desc _ vg (vt_weak vg vt hge) hge
  · simp only [colN, descF]
    refine ⟨?_, ?_⟩
    · intro hc
      cases hd : decide (rkey Q < C.k)
      · rw [hd] at hc
        simp only [Bool.not_false]
        cases hx : (childD Q true).isRed
        · rfl
        · exact absurd ⟨hc, hx⟩ hnf
      · rw [hd] at hc
        simp only [Bool.not_true]
        cases hx : (childD Q false).isRed
        · rfl
        · exact absurd ⟨hx, hc⟩ hnf
    · intro hr
      cases ctx with
      | nil => simp only [colN] at cn; rw [cn.2] at hr; cases hr
      | cons f fs => simp only [colN] at cn; exact ⟨f, fs, rfl, cn.1 hr⟩
  · cases hr : Q.isRed
    · obtain ⟨m, e, hc⟩ := (bh_childD hQ hb (decide (rkey Q < C.k))).2 hr
      refine ⟨m, hc, ?_⟩
      rw [hr] at hfu
      simp only [Bool.false_eq_true, if_false] at hfu
      split <;> omega
    · have hc := (bh_childD hQ hb (decide (rkey Q < C.k))).1 hr
      refine ⟨n, hc, ?_⟩
      rw [nrr_kids nrrQ hr]
      rw [hr] at hfu
      simp only [Bool.false_eq_true, if_false, if_true] at hfu ⊢
      omega

end AsmjitVerif.Tree.Ins
