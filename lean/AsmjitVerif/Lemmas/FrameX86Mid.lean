/- C07: well-formedness facts of an x86 frame (`X86WF`) and the middle part of prolog / epilog. -/
import AsmjitVerif.Lemmas.FrameX86
namespace AsmjitVerif.Frame

/-- What the x86 prolog / epilog rely on. Every field is a fact about the numbers the frame reports;
`x86_wf_of_finalize` (Props/C07.lean) derives them for the frames `FuncFrame::finalize` produces. -/
structure X86WF (f : Frame) : Prop where
  arch : f.arch = .x86 ∨ f.arch = .x64
  kA : ∃ k, k ≤ 7 ∧ f.finalAlign = 2 ^ k
  gp16 : f.saved 0 < 2 ^ 16
  noSp : (f.saved 0).testBit 4 = false
  fpSaved : f.hasFP = true → (f.saved 0).testBit 5 = true
  ppSize : f.ppSize = f.arch.W * f.nSaved 0
  xSize : f.xSize = 16 * f.nSaved 1 + 8 * f.nSaved 2 + 8 * f.nSaved 3
  keep : f.srSize 1 = 16 ∧ f.srSize 2 = 8 ∧ f.srSize 3 = 8
  localFits : f.localEnd ≤ f.xOff
  da : f.daOff ≠ invalidOff → f.xOff + f.xSize ≤ f.daOff ∧ f.daOff + f.arch.W ≤ f.ppOff
  noDa : f.daOff = invalidOff → f.xOff + f.xSize ≤ f.ppOff
  daIff : f.daOff ≠ invalidOff ↔ (f.hasDA = true ∧ f.hasFP = false)
  total : f.ppOff + f.ppSize = f.finalSize
  adjPlain : f.hasDA = false → f.stackAdj = f.ppOff ∧ f.saOffSp = f.finalSize + f.arch.W
  adjDA : f.hasDA = true → f.stackAdj % f.finalAlign = 0 ∧ f.ppOff ≤ f.stackAdj ∧ f.saOffSp = invalidOff
            ∧ f.stackAdj < f.ppOff + f.finalAlign
  aligned : f.usesStack = true → (f.finalSize + f.arch.W) % f.finalAlign = 0
  vecAligned : f.alignedVecSR = true → f.xOff % 16 = 0 ∧ 16 ∣ f.finalAlign ∧ f.usesStack = true
  noDaNat : f.hasDA = false → f.finalAlign = f.natAlign
  small : f.finalSize + f.arch.W < 2 ^ 30 ∧ f.stackAdj < 2 ^ 30
  saValid : f.saRegId ≠ 0xFF
  saDA : f.hasDA = true → f.saRegId ≠ 4
  saDirty : f.saRegId ≠ 4 → (f.dirty 0).testBit f.saRegId = true
  saOffSa : f.saOffSa = if f.hasFP then 2 * f.arch.W else f.arch.W + f.ppSize

theorem X86WF.W (f : Frame) (wf : X86WF f) : f.arch.W = 4 ∨ f.arch.W = 8 := by
  rcases wf.arch with h | h <;> simp [h, Arch.W]
theorem X86WF.notA64 (f : Frame) (wf : X86WF f) : f.arch.isA64 = false := by
  rcases wf.arch with h | h <;> simp [h, Arch.isA64]
theorem X86WF.spId (f : Frame) (wf : X86WF f) : f.arch.spId = 4 := by
  rcases wf.arch with h | h <;> simp [h, Arch.spId]

/-- prolog part 1 of the middle: `mov sa, sp|bp`; `and sp, -A`; `sub sp, adj` -/
theorem x86_mid_sp (f : Frame) (wf : X86WF f) (t1 : St) (P : Nat)
    (hret : t1.ret = none) (hsp : t1.gp 4 = P)
    (hroom : f.stackAdj + f.finalAlign ≤ P) (hbits : P < 256 ^ f.arch.W) :
    ∃ u, run f.arch (x86SaMov f ++ (x86And f ++ x86Sub f)) t1 = some u
      ∧ u.ret = none ∧ u.mem = t1.mem ∧ u.x = t1.x
      ∧ u.gp 4 = (if f.hasDA then P - P % f.finalAlign - f.stackAdj else P - f.stackAdj)
      ∧ (∀ r, r ≠ 4 → r ≠ f.saRegId → u.gp r = t1.gp r)
      ∧ (f.saRegId ≠ 4 → u.gp f.saRegId = if f.hasFP then t1.gp 5 else P) := by
  obtain ⟨k, hk, hA⟩ := wf.kA
  have hW := wf.W
  -- sa mov
  have h1 : ∃ u1, run f.arch (x86SaMov f) t1 = some u1 ∧ u1.ret = none ∧ u1.mem = t1.mem ∧ u1.x = t1.x
      ∧ u1.gp 4 = P ∧ (∀ r, r ≠ 4 → r ≠ f.saRegId → u1.gp r = t1.gp r)
      ∧ (f.saRegId ≠ 4 → u1.gp f.saRegId = if f.hasFP then t1.gp 5 else P) := by
    unfold x86SaMov
    by_cases hsa : f.saRegId = 4
    · refine ⟨t1, by simp [hsa, run], hret, rfl, rfl, hsp, fun _ _ _ => rfl, fun h => absurd hsa h⟩
    · rw [if_pos ⟨wf.saValid, hsa⟩]
      by_cases hfp : f.hasFP = true
      · by_cases h5 : f.saRegId = 5
        · refine ⟨t1, by simp [hfp, h5, run], hret, rfl, rfl, hsp, fun _ _ _ => rfl, fun _ => by simp [hfp, h5]⟩
        · refine ⟨t1.setGp f.saRegId (t1.gp 5), ?_, hret, rfl, rfl, ?_, ?_, ?_⟩
          · simp only [hfp, if_true, h5, ne_eq, not_false_eq_true]
            exact run_one _ _ _ _ (step_mov _ _ _ _ hret)
          · simp only [setGp_gp]; rw [if_neg (fun h => hsa h.symm)]; exact hsp
          · intro r _ hr; simp only [setGp_gp]; rw [if_neg hr]
          · intro _; simp [hfp]
      · have hfp' : f.hasFP = false := by cases h : f.hasFP <;> simp_all
        refine ⟨t1.setGp f.saRegId (t1.gp 4), ?_, hret, rfl, rfl, ?_, ?_, ?_⟩
        · simp only [hfp', Bool.false_eq_true, if_false]
          exact run_one _ _ _ _ (step_mov _ _ _ _ hret)
        · simp only [setGp_gp]; rw [if_neg (fun h => hsa h.symm)]; exact hsp
        · intro r _ hr; simp only [setGp_gp]; rw [if_neg hr]
        · intro _; simp [hfp', hsp]
  obtain ⟨u1, r1, u1ret, u1mem, u1x, u1sp, u1gp, u1sa⟩ := h1
  -- and
  have h2 : ∃ u2, run f.arch (x86And f) u1 = some u2 ∧ u2.ret = none ∧ u2.mem = u1.mem ∧ u2.x = u1.x
      ∧ u2.gp 4 = (if f.hasDA then P - P % f.finalAlign else P) ∧ (∀ r, r ≠ 4 → u2.gp r = u1.gp r) := by
    unfold x86And
    by_cases hda : f.hasDA = true
    · refine ⟨u1.setGp 4 (u1.gp 4 - u1.gp 4 % 2 ^ k), ?_, u1ret, rfl, rfl, ?_, ?_⟩
      · rw [if_pos hda, hA]
        exact run_one _ _ _ _ (step_and _ hW k hk u1 u1ret (by rw [u1sp]; exact hbits))
      · simp [hda, u1sp, hA]
      · intro r hr; simp [hr]
    · have hda' : f.hasDA = false := by cases h : f.hasDA <;> simp_all
      exact ⟨u1, by simp [hda', run], u1ret, rfl, rfl, by simp [hda', u1sp], fun _ _ => rfl⟩
  obtain ⟨u2, r2, u2ret, u2mem, u2x, u2sp, u2gp⟩ := h2
  have hmodle : P % f.finalAlign ≤ P := Nat.mod_le _ _
  have hmodlt : P % f.finalAlign < f.finalAlign := Nat.mod_lt _ (by rw [hA]; exact Nat.two_pow_pos k)
  -- sub
  have h3 : ∃ u3, run f.arch (x86Sub f) u2 = some u3 ∧ u3.ret = none ∧ u3.mem = u2.mem ∧ u3.x = u2.x
      ∧ u3.gp 4 = u2.gp 4 - f.stackAdj ∧ (∀ r, r ≠ 4 → u3.gp r = u2.gp r) := by
    unfold x86Sub
    by_cases hadj : f.stackAdj = 0
    · exact ⟨u2, by simp [hadj, run], u2ret, rfl, rfl, by simp [hadj], fun _ _ => rfl⟩
    · refine ⟨u2.setGp 4 (u2.gp 4 - f.stackAdj), ?_, u2ret, rfl, rfl, by simp, fun r hr => by simp [hr]⟩
      rw [if_pos hadj]
      apply run_one
      apply step_sub _ _ _ _ u2ret
      rw [u2sp]; split <;> omega
  obtain ⟨u3, r3, u3ret, u3mem, u3x, u3sp, u3gp⟩ := h3
  refine ⟨u3, ?_, u3ret, by rw [u3mem, u2mem, u1mem], by rw [u3x, u2x, u1x], ?_, ?_, ?_⟩
  · rw [run_append, r1, Option.bind_some, run_append, r2, Option.bind_some, r3]
  · rw [u3sp, u2sp]; split <;> rfl
  · intro r h4 hsa; rw [u3gp r h4, u2gp r h4, u1gp r h4 hsa]
  · intro hsa; rw [u3gp _ hsa, u2gp _ hsa]; exact u1sa hsa

theorem xStores_eq (f : Frame) : x86XStores f = (xSlots f).map stXof := by
  unfold x86XStores
  apply List.map_congr_left
  intro p _; obtain ⟨mn, id, off⟩ := p; rfl

theorem xLoads_eq (f : Frame) : x86XLoads f = (xSlots f).map ldXof := by
  unfold x86XLoads
  apply List.map_congr_left
  intro p _; obtain ⟨mn, id, off⟩ := p; rfl

/-- body `sp` of an x86 frame entered with `sp = P` after the push sequence -/
def x86BodySp (f : Frame) (P : Nat) : Nat :=
  if f.hasDA then P - P % f.finalAlign - f.stackAdj else P - f.stackAdj

/-- **The middle part.** From the state after the `push` loop (`sp = P`) the rest of the prolog establishes
the body `sp`, the SA register, the DA slot and the non-GP saves, all strictly below `P`; and after any
continuation that keeps `sp`, the frame pointer and the bytes from the save area up to `P`, the first part
of the epilog restores the non-GP registers and brings `sp` back to `P`. -/
theorem x86_mid (f : Frame) (wf : X86WF f) (t1 : St) (P : Nat)
    (hret : t1.ret = none) (hsp : t1.gp 4 = P)
    (hfp : f.hasFP = true → f.arch.W ≤ f.ppSize ∧ t1.gp 5 + f.arch.W = P + f.ppSize)
    (hroom : f.stackAdj + f.finalAlign ≤ P) (hbits : P < 256 ^ f.arch.W)
    (hal : f.alignedVecSR = true → x86BodySp f P % 16 = 0) :
    ∃ s1, run f.arch (x86SaMov f ++ (x86And f ++ (x86Sub f ++ (x86DaStore f ++ x86XStores f)))) t1 = some s1
      ∧ s1.ret = none ∧ s1.x = t1.x ∧ s1.gp 4 = x86BodySp f P
      ∧ (∀ r, r ≠ 4 → r ≠ f.saRegId → s1.gp r = t1.gp r)
      ∧ (f.saRegId ≠ 4 → s1.gp f.saRegId = if f.hasFP then t1.gp 5 else P)
      ∧ (∀ x, x < x86BodySp f P + f.xOff ∨ P ≤ x → s1.mem x = t1.mem x)
      ∧ x86BodySp f P + f.stackAdj ≤ P
      ∧ ∀ s2 : St, s2.gp 4 = x86BodySp f P → s2.ret = none →
          (∀ x, x86BodySp f P + f.xOff ≤ x → x < P → s2.mem x = s1.mem x) →
          (f.hasFP = true → s2.gp 5 = t1.gp 5) →
          ∃ t2, run f.arch (x86XLoads f ++ (x86Cleanup f ++ x86RestoreSp f)) s2 = some t2
            ∧ t2.gp 4 = P ∧ (∀ r, r ≠ 4 → t2.gp r = s2.gp r) ∧ t2.mem = s2.mem ∧ t2.ret = none
            ∧ (∀ p ∈ xSlots f, t2.x p.1.group p.2.1 = t1.x p.1.group p.2.1 % 256 ^ p.1.size)
            ∧ (∀ g i, (g, i) ∉ xKeys f → t2.x g i = s2.x g i) := by
  obtain ⟨k, hk, hA⟩ := wf.kA
  have hW := wf.W
  have ha64 := wf.notA64
  obtain ⟨hsm1, hsm2⟩ := wf.small
  have hApos : 0 < f.finalAlign := by rw [hA]; exact Nat.two_pow_pos k
  have hmodle : P % f.finalAlign ≤ P := Nat.mod_le _ _
  have hmodlt : P % f.finalAlign < f.finalAlign := Nat.mod_lt _ hApos
  obtain ⟨u3, r3, u3ret, u3mem, u3x, u3sp, u3gp, u3sa⟩ := x86_mid_sp f wf t1 P hret hsp hroom hbits
  have hSP : u3.gp 4 = x86BodySp f P := u3sp
  generalize hS : x86BodySp f P = S at *
  have hSadj : S + f.stackAdj ≤ P := by
    rw [← hS]; unfold x86BodySp; split <;> omega
  have hSadjEq : f.hasDA = false → S + f.stackAdj = P := by
    intro h; rw [← hS]; unfold x86BodySp; simp only [h, Bool.false_eq_true, if_false]; omega
  -- layout facts
  have hxs := wf.xSize
  have htot := wf.total
  have hppadj : f.ppOff ≤ f.stackAdj := by
    cases hda : f.hasDA with
    | false => rw [(wf.adjPlain hda).1]; exact Nat.le_refl _
    | true => exact (wf.adjDA hda).2.1
  have hxend : f.xOff + f.xSize ≤ f.stackAdj := by
    by_cases h : f.daOff = invalidOff
    · have := wf.noDa h; omega
    · have := wf.da h; omega
  -- DA store
  have h4 : ∃ u4, run f.arch (x86DaStore f) u3 = some u4 ∧ u4.ret = none ∧ u4.gp = u3.gp ∧ u4.x = u3.x
      ∧ (∀ x, x < S + f.xOff + f.xSize ∨ P ≤ x → u4.mem x = u3.mem x)
      ∧ (f.daOff ≠ invalidOff → loadBytes u4.mem (S + f.daOff) f.arch.W = P ∧ (∀ x, x < S + f.daOff → u4.mem x = u3.mem x)) := by
    unfold x86DaStore
    by_cases hd : f.daOff = invalidOff
    · refine ⟨u3, by simp [hd, run], u3ret, rfl, rfl, fun _ _ => rfl, fun h => absurd hd h⟩
    · obtain ⟨hda, hnfp⟩ := wf.daIff.mp hd
      obtain ⟨d1, d2⟩ := wf.da hd
      have hsa4 := wf.saDA hda
      have hsareg : x86SaReg f = f.saRegId := by unfold x86SaReg; rw [if_pos ⟨wf.saValid, hsa4⟩]
      have hsaval : u3.gp f.saRegId = P := by rw [u3sa hsa4]; simp [hnfp]
      rw [if_pos ⟨hda, hd⟩, toI32_small f.daOff (by omega), hsareg]
      refine ⟨_, run_one _ _ _ _ (step_stGp _ ha64 _ _ _ _ u3ret), u3ret, rfl, rfl, ?_, ?_⟩
      · intro x hx
        simp only [hSP, hsaval]
        exact storeBytes_other _ _ _ _ _ (by omega)
      · intro _
        simp only [hSP, hsaval]
        refine ⟨?_, fun x hx => storeBytes_other _ _ _ _ _ (by omega)⟩
        rw [loadBytes_store_same, Nat.mod_eq_of_lt hbits]
  obtain ⟨u4, r4, u4ret, u4gp, u4x, u4mem, u4da⟩ := h4
  -- the save slots
  obtain ⟨sl1, sl2, sl3, sl4⟩ := xSlots_spec f (by omega)
  rw [← hxs] at sl2 sl4
  have hal' : ∀ p ∈ xSlots f, p.1.aligned = true → (S + p.2.2) % 16 = 0 := by
    intro p hp hpa
    obtain ⟨_, _, q3, _⟩ := sl4 p hp
    obtain ⟨hv, i, hi⟩ := q3 hpa
    have h1 := hal hv
    have h2 := (wf.vecAligned hv).1
    rw [hi]; omega
  have hoffs : ∀ p ∈ xSlots f, p.2.2 < 2 ^ 31 := by
    intro p hp
    obtain ⟨_, q2, _, _⟩ := sl4 p hp
    omega
  obtain ⟨s1, r5, s1gp, s1x, s1ret, s1mem, hloads⟩ :=
    xsave_bracket f.arch S (xSlots f) f.xOff u4 sl1 (by rw [sl3]; exact xKeys_nodup f) u4ret
      (by rw [u4gp]; exact hSP) hal' hoffs
  rw [sl2] at s1mem hloads
  refine ⟨s1, ?_, s1ret, by rw [s1x, u4x, u3x], by rw [s1gp, u4gp]; exact hSP, ?_, ?_, ?_, hSadj, ?_⟩
  · rw [← List.append_assoc, ← List.append_assoc, run_append, List.append_assoc, r3, Option.bind_some, run_append, r4,
      Option.bind_some, xStores_eq]
    exact r5
  · intro r h4 hsa; rw [s1gp, u4gp]; exact u3gp r h4 hsa
  · intro hsa; rw [s1gp, u4gp]; exact u3sa hsa
  · intro x hx
    rw [s1mem x (by omega), u4mem x (by omega), u3mem]
  · intro s2 h2sp h2ret h2mem h2fp
    obtain ⟨t3, r6, t3gp, t3mem, t3ret, t3in, t3out⟩ :=
      hloads s2 h2sp h2ret (fun x hx1 hx2 => h2mem x hx1 (by omega))
    have r7 : run f.arch (x86Cleanup f) t3 = some t3 := by
      apply run_nops _ _ _ _ t3ret
      intro i hi
      unfold x86Cleanup at hi
      rw [List.mem_append] at hi
      rcases hi with hi | hi <;> split at hi <;> simp at hi <;> exact ⟨_, hi⟩
    -- restoring sp
    have h8 : ∃ t2, run f.arch (x86RestoreSp f) t3 = some t2 ∧ t2.gp 4 = P ∧ (∀ r, r ≠ 4 → t2.gp r = t3.gp r)
        ∧ t2.mem = t3.mem ∧ t2.x = t3.x ∧ t2.ret = none := by
      unfold x86RestoreSp
      by_cases hfpc : f.hasFP = true
      · obtain ⟨f1, f2⟩ := hfp hfpc
        have hbp : t3.gp 5 = t1.gp 5 := by rw [t3gp]; exact h2fp hfpc
        have hcnt : toI32 (u32 (f.ppSize + 2 ^ 32 - f.arch.W)) = ((f.ppSize - f.arch.W : Nat) : Int) := by
          have : u32 (f.ppSize + 2 ^ 32 - f.arch.W) = f.ppSize - f.arch.W := by
            unfold u32
            have : f.ppSize + 2 ^ 32 - f.arch.W = (f.ppSize - f.arch.W) + 2 ^ 32 := by omega
            rw [this, Nat.add_mod_right, Nat.mod_eq_of_lt (by omega)]
          rw [this, toI32_small _ (by omega)]
        simp only [hfpc, if_true, hcnt]
        by_cases hc0 : ((f.ppSize - f.arch.W : Nat) : Int) = 0
        · rw [if_pos hc0]
          refine ⟨_, run_one _ _ _ _ (step_mov _ 4 5 _ t3ret), ?_, fun r hr => by simp [hr], rfl, rfl, t3ret⟩
          simp only [setGp_gp, if_true]; rw [hbp]; omega
        · rw [if_neg hc0]
          refine ⟨_, run_one _ _ _ _ (step_lea_neg _ 4 5 _ _ t3ret (by rw [hbp]; omega)), ?_,
            fun r hr => by simp [hr], rfl, rfl, t3ret⟩
          simp only [setGp_gp, if_true]; rw [hbp]; omega
      · have hfpc' : f.hasFP = false := by cases h : f.hasFP <;> simp_all
        simp only [hfpc', Bool.false_eq_true, if_false]
        by_cases hd : f.daOff = invalidOff
        · have hnda : f.hasDA = false := by
            cases h : f.hasDA with
            | false => rfl
            | true => exact absurd (wf.daIff.mpr ⟨h, hfpc'⟩) (by simp [hd])
          have hSe := hSadjEq hnda
          rw [if_neg (fun h => h.2 hd)]
          by_cases hadj : f.stackAdj = 0
          · refine ⟨t3, by simp [hadj, run], by rw [t3gp, h2sp]; omega, fun _ _ => rfl, rfl, rfl, t3ret⟩
          · rw [if_pos hadj, toI32_small _ (by omega)]
            refine ⟨_, run_one _ _ _ _ (step_add _ 4 _ _ t3ret), ?_, fun r hr => by simp [hr], rfl, rfl, t3ret⟩
            simp only [setGp_gp, if_true]; rw [t3gp, h2sp]; exact hSe
        · obtain ⟨hda, _⟩ := wf.daIff.mp hd
          obtain ⟨d1, d2⟩ := wf.da hd
          obtain ⟨da1, da2⟩ := u4da hd
          rw [if_pos ⟨hda, hd⟩, toI32_small f.daOff (by omega)]
          refine ⟨_, run_one _ _ _ _ (step_ldGp _ ha64 4 4 _ _ t3ret), ?_, fun r hr => by simp [hr], rfl, rfl, t3ret⟩
          simp only [setGp_gp, if_true]
          rw [t3gp, h2sp, t3mem, ← da1]
          apply loadBytes_congr
          intro x hx1 hx2
          rw [h2mem x (by omega) (by omega)]
          exact s1mem x (Or.inr (by omega))
    obtain ⟨t2, r8, t2sp, t2gp, t2mem, t2x, t2ret⟩ := h8
    refine ⟨t2, ?_, t2sp, ?_, by rw [t2mem, t3mem], t2ret, ?_, ?_⟩
    · rw [run_append, xLoads_eq, r6, Option.bind_some, run_append, r7, Option.bind_some, r8]
    · intro r hr; rw [t2gp r hr, t3gp]
    · intro p hp; rw [t2x, t3in p hp, u4x, u3x]
    · intro g i hgi; rw [t2x]; exact t3out g i (by rw [sl3]; exact hgi)

end AsmjitVerif.Frame
