/- C08 helper lemmas for remove_nodes (range removal): the recursive walkers against take/drop. -/
import AsmjitVerif.Lemmas.C08List

namespace AsmjitVerif.Builder

theorem mem_of_ne_head {x a : Nat} {xs : List Nat} (h : a ∈ x :: xs) (hx : x ≠ a) : a ∈ xs := by
  rcases List.mem_cons.mp h with h | h
  · exact absurd h.symm hx
  · exact h

theorem suffixFrom_eq (l : List Nat) (a : Nat) (h : a ∈ l) : suffixFrom l a = l.drop (l.idxOf a) := by
  induction l with
  | nil => simp at h
  | cons x xs ih =>
    by_cases hx : x = a
    · subst hx; simp [suffixFrom, idxOf_cons_self]
    · simp [suffixFrom, hx, idxOf_cons_ne _ hx, ih (mem_of_ne_head h hx)]

theorem suffixFrom_not_mem (l : List Nat) (a : Nat) (h : a ∉ l) : suffixFrom l a = [] := by
  induction l with
  | nil => simp [suffixFrom]
  | cons x xs ih =>
    have hx : x ≠ a := fun e => h (by simp [e])
    simp [suffixFrom, hx, ih (fun e => h (List.mem_cons_of_mem _ e))]

theorem dropThrough_eq (l : List Nat) (b : Nat) (h : b ∈ l) : dropThrough l b = l.drop (l.idxOf b + 1) := by
  induction l with
  | nil => simp at h
  | cons x xs ih =>
    by_cases hx : x = b
    · subst hx; simp [dropThrough, idxOf_cons_self]
    · simp [dropThrough, hx, idxOf_cons_ne _ hx, ih (mem_of_ne_head h hx)]

theorem takeThrough_eq (l : List Nat) (b : Nat) (h : b ∈ l) : takeThrough l b = l.take (l.idxOf b + 1) := by
  induction l with
  | nil => simp at h
  | cons x xs ih =>
    by_cases hx : x = b
    · subst hx; simp [takeThrough, idxOf_cons_self]
    · simp [takeThrough, hx, idxOf_cons_ne _ hx, ih (mem_of_ne_head h hx)]

theorem removeRangeL_eq (l : List Nat) (a b : Nat) (ha : a ∈ l) (hb : b ∈ l) (hij : l.idxOf a < l.idxOf b) :
    removeRangeL l a b = l.take (l.idxOf a) ++ l.drop (l.idxOf b + 1) := by
  induction l with
  | nil => simp at ha
  | cons x xs ih =>
    by_cases hx : x = a
    · subst hx
      simp [removeRangeL, idxOf_cons_self, dropThrough_eq _ _ hb]
    · have hxb : x ≠ b := by
        intro e; subst e
        simp [idxOf_cons_self] at hij
      have ha' := mem_of_ne_head ha hx
      have hb' := mem_of_ne_head hb hxb
      have hij' : xs.idxOf a < xs.idxOf b := by
        simpa [idxOf_cons_ne _ hx, idxOf_cons_ne _ hxb] using hij
      simp [removeRangeL, hx, idxOf_cons_ne _ hx, idxOf_cons_ne _ hxb, ih ha' hb' hij']

theorem mem_drop_iff (l : List Nat) (k x : Nat) (hd : l.Nodup) : x ∈ l.drop k ↔ x ∈ l ∧ k ≤ l.idxOf x := by
  induction l generalizing k with
  | nil => simp
  | cons y ys ih =>
    have hy : y ∉ ys := (List.nodup_cons.mp hd).1
    have hd' : ys.Nodup := (List.nodup_cons.mp hd).2
    cases k with
    | zero => simp
    | succ k =>
      by_cases hyx : y = x
      · subst hyx
        simp [idxOf_cons_self, (ih k hd'), hy]
      · simp [idxOf_cons_ne _ hyx, ih k hd', Ne.symm hyx]

theorem mem_take_iff (l : List Nat) (k x : Nat) : x ∈ l.take k ↔ x ∈ l ∧ l.idxOf x < k := by
  induction l generalizing k with
  | nil => simp
  | cons y ys ih =>
    cases k with
    | zero => simp
    | succ k =>
      by_cases hyx : y = x
      · subst hyx; simp [idxOf_cons_self]
      · simp [idxOf_cons_ne _ hyx, ih k, Ne.symm hyx]

theorem idxOf_drop (l : List Nat) (k x : Nat) (hx : x ∈ l) (hk : k ≤ l.idxOf x) : (l.drop k).idxOf x = l.idxOf x - k := by
  induction l generalizing k with
  | nil => simp at hx
  | cons y ys ih =>
    cases k with
    | zero => simp
    | succ k =>
      by_cases hyx : y = x
      · subst hyx; simp [idxOf_cons_self] at hk
      · have hk' : k ≤ ys.idxOf x := by simpa [idxOf_cons_ne _ hyx] using hk
        simp [idxOf_cons_ne _ hyx, ih k (mem_of_ne_head hx hyx) hk']

/-- position of an element in front of the removed block is unchanged -/
theorem idxOf_take_append (l r : List Nat) (i x : Nat) (h : l.idxOf x < i) (hx : x ∈ l) :
    (l.take i ++ r).idxOf x = l.idxOf x := by
  induction l generalizing i with
  | nil => simp at hx
  | cons y ys ih =>
    cases i with
    | zero => omega
    | succ i =>
      by_cases hyx : y = x
      · subst hyx; simp [idxOf_cons_self]
      · have h' : ys.idxOf x < i := by simpa [idxOf_cons_ne _ hyx] using h
        simp [idxOf_cons_ne _ hyx, ih i h' (mem_of_ne_head hx hyx)]

/-- position of an element behind the removed block moves down by the block length -/
theorem idxOf_cut (l : List Nat) (i j x : Nat) (hd : l.Nodup) (hx : x ∈ l) (hij : i ≤ j) (hj : j < l.idxOf x) :
    (l.take i ++ l.drop (j + 1)).idxOf x = l.idxOf x - (j + 1 - i) := by
  induction l generalizing i j with
  | nil => simp at hx
  | cons y ys ih =>
    have hy : y ∉ ys := (List.nodup_cons.mp hd).1
    have hd' : ys.Nodup := (List.nodup_cons.mp hd).2
    by_cases hyx : y = x
    · subst hyx; simp [idxOf_cons_self] at hj
    · have hx' := mem_of_ne_head hx hyx
      rw [idxOf_cons_ne _ hyx] at hj ⊢
      cases i with
      | zero =>
        simp only [List.take_zero, List.nil_append, List.drop_succ_cons]
        rw [idxOf_drop _ _ _ hx' (by omega)]
        omega
      | succ i =>
        cases j with
        | zero => omega
        | succ j =>
          simp only [List.take_succ_cons, List.cons_append, List.drop_succ_cons]
          rw [idxOf_cons_ne _ hyx, ih i j hd' hx' (by omega) (by omega)]
          omega

end AsmjitVerif.Builder
