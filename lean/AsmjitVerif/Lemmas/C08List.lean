/- C08 helper lemmas: the recursive list surgery of the model against positional list operations. -/
import AsmjitVerif.Model.Builder
import AsmjitVerif.Spec.Builder

namespace AsmjitVerif.Builder

theorem idxOf_cons_ne {x c : Nat} (xs : List Nat) (h : x ≠ c) : (x :: xs).idxOf c = xs.idxOf c + 1 := by
  have : (x == c) = false := by simpa using h
  simp [List.idxOf_cons, this]

theorem idxOf_cons_self (x : Nat) (xs : List Nat) : (x :: xs).idxOf x = 0 := by
  simp [List.idxOf_cons]

theorem insertAfter_eq (l : List Nat) (c n : Nat) (h : c ∈ l) :
    insertAfter l c n = l.insertIdx (l.idxOf c + 1) n := by
  induction l with
  | nil => simp at h
  | cons x xs ih =>
    by_cases hx : x = c
    · subst hx; simp [insertAfter, idxOf_cons_self]
    · have hc : c ∈ xs := by
        rcases List.mem_cons.mp h with h | h
        · exact absurd h.symm hx
        · exact h
      simp [insertAfter, hx, idxOf_cons_ne xs hx, ih hc]

theorem insertBefore_eq (l : List Nat) (r n : Nat) (h : r ∈ l) :
    insertBefore l r n = l.insertIdx (l.idxOf r) n := by
  induction l with
  | nil => simp at h
  | cons x xs ih =>
    by_cases hx : x = r
    · subst hx; simp [insertBefore, idxOf_cons_self]
    · have hc : r ∈ xs := by
        rcases List.mem_cons.mp h with h | h
        · exact absurd h.symm hx
        · exact h
      simp [insertBefore, hx, idxOf_cons_ne xs hx, ih hc]

theorem idxOf_insertIdx_self (l : List Nat) (k n : Nat) (hn : n ∉ l) (hk : k ≤ l.length) :
    (l.insertIdx k n).idxOf n = k := by
  induction l generalizing k with
  | nil =>
    have : k = 0 := by simpa using hk
    subst this; simp [idxOf_cons_self]
  | cons x xs ih =>
    cases k with
    | zero => simp [idxOf_cons_self]
    | succ k =>
      have hx : x ≠ n := fun h => hn (by simp [h])
      have hn' : n ∉ xs := fun h => hn (by simp [h])
      have hk' : k ≤ xs.length := by simpa using hk
      simp [List.insertIdx_succ_cons, idxOf_cons_ne _ hx, ih k hn' hk']

theorem idxOf_insertIdx_other (l : List Nat) (k n x : Nat) (hx : x ∈ l) (hne : x ≠ n) (hk : k ≤ l.length) :
    (l.insertIdx k n).idxOf x = if k ≤ l.idxOf x then l.idxOf x + 1 else l.idxOf x := by
  induction l generalizing k with
  | nil => simp at hx
  | cons y ys ih =>
    cases k with
    | zero => simp [idxOf_cons_ne _ (Ne.symm hne)]
    | succ k =>
      have hk' : k ≤ ys.length := by simpa using hk
      by_cases hy : y = x
      · subst hy; simp [List.insertIdx_succ_cons, idxOf_cons_self]
      · have hx' : x ∈ ys := by
          rcases List.mem_cons.mp hx with h | h
          · exact absurd h.symm hy
          · exact h
        simp only [List.insertIdx_succ_cons, idxOf_cons_ne _ hy, ih k hx' hk']
        split <;> split <;> omega

theorem idxOf_erase (l : List Nat) (n x : Nat) (hne : x ≠ n) :
    (l.erase n).idxOf x = if l.idxOf n < l.idxOf x then l.idxOf x - 1 else l.idxOf x := by
  induction l with
  | nil => simp
  | cons y ys ih =>
    by_cases hy : y = n
    · subst hy; simp [idxOf_cons_self, idxOf_cons_ne _ (Ne.symm hne)]
    · by_cases hyx : y = x
      · subst hyx; simp [List.erase_cons, hy, idxOf_cons_self]
      · have e1 : (y :: ys).erase n = y :: ys.erase n := by simp [List.erase_cons, hy]
        rw [e1, idxOf_cons_ne _ hyx, idxOf_cons_ne _ hyx, idxOf_cons_ne _ hy, ih]
        split <;> split <;> omega

theorem take_drop_erase (l : List Nat) (n : Nat) (h : n ∈ l) :
    l.take (l.idxOf n) ++ l.drop (l.idxOf n + 1) = l.erase n := by
  induction l with
  | nil => simp at h
  | cons y ys ih =>
    by_cases hy : y = n
    · subst hy; simp [idxOf_cons_self]
    · have h' : n ∈ ys := by
        rcases List.mem_cons.mp h with h | h
        · exact absurd h.symm hy
        · exact h
      simp [idxOf_cons_ne _ hy, hy, List.erase_cons, ih h']

theorem idxOf_inj (l : List Nat) (a b : Nat) (ha : a ∈ l) (hb : b ∈ l) (h : l.idxOf a = l.idxOf b) : a = b := by
  induction l with
  | nil => simp at ha
  | cons y ys ih =>
    by_cases hya : y = a <;> by_cases hyb : y = b
    · exact hya.symm.trans hyb
    · subst hya; simp [idxOf_cons_self, idxOf_cons_ne _ hyb] at h
    · subst hyb; simp [idxOf_cons_self, idxOf_cons_ne _ hya] at h
    · have ha' : a ∈ ys := by
        rcases List.mem_cons.mp ha with h | h
        · exact absurd h.symm hya
        · exact h
      have hb' : b ∈ ys := by
        rcases List.mem_cons.mp hb with h | h
        · exact absurd h.symm hyb
        · exact h
      simp [idxOf_cons_ne _ hya, idxOf_cons_ne _ hyb] at h
      exact ih ha' hb' h

theorem prevOf_not_mem (l : List Nat) (n : Nat) (h : n ∉ l) : prevOf l n = none := by
  induction l with
  | nil => simp [prevOf]
  | cons x xs ih =>
    cases xs with
    | nil => simp [prevOf]
    | cons y rest =>
      have hy : y ≠ n := fun e => h (by simp [e])
      have h' : n ∉ y :: rest := fun e => h (List.mem_cons_of_mem _ e)
      simp [prevOf, hy, ih h']

/-- `prev` of a linked node: nothing in front of the first node, otherwise the node one position earlier -/
theorem prevOf_spec (l : List Nat) (n : Nat) (hd : l.Nodup) (hn : n ∈ l) :
    match prevOf l n with
    | none => l.idxOf n = 0
    | some p => p ∈ l ∧ p ≠ n ∧ l.idxOf p + 1 = l.idxOf n := by
  induction l with
  | nil => simp at hn
  | cons x xs ih =>
    cases xs with
    | nil =>
      have : n = x := by simpa using hn
      subst this; simp [prevOf, idxOf_cons_self]
    | cons y rest =>
      have hxn : x ∉ y :: rest := (List.nodup_cons.mp hd).1
      have hd' : (y :: rest).Nodup := (List.nodup_cons.mp hd).2
      by_cases hy : y = n
      · subst hy
        have hxy : x ≠ y := fun e => hxn (by simp [e])
        simp [prevOf, idxOf_cons_self, idxOf_cons_ne _ hxy, hxy]
      · by_cases hx : x = n
        · subst hx
          simp [prevOf, hy, prevOf_not_mem _ _ hxn, idxOf_cons_self]
        · have hn' : n ∈ y :: rest := by
            rcases List.mem_cons.mp hn with h | h
            · exact absurd h.symm hx
            · exact h
          have := ih hd' hn'
          simp only [prevOf, hy, if_false]
          cases hp : prevOf (y :: rest) n with
          | none =>
            rw [hp] at this
            simp [idxOf_cons_ne _ hy] at this
          | some p =>
            rw [hp] at this
            obtain ⟨hp1, hp2, hp3⟩ := this
            have hxp : x ≠ p := fun e => hxn (e ▸ hp1)
            refine ⟨List.mem_cons_of_mem _ hp1, hp2, ?_⟩
            rw [idxOf_cons_ne _ hxp, idxOf_cons_ne _ hx]
            omega

theorem filter_insertAfter (p : Nat → Bool) (l : List Nat) (c n : Nat) (h : p n = false) :
    (insertAfter l c n).filter p = l.filter p := by
  induction l with
  | nil => simp [insertAfter]
  | cons x xs ih =>
    by_cases hx : x = c
    · simp [insertAfter, hx, List.filter_cons, h]
    · simp [insertAfter, hx, List.filter_cons, ih]

theorem filter_insertBefore (p : Nat → Bool) (l : List Nat) (c n : Nat) (h : p n = false) :
    (insertBefore l c n).filter p = l.filter p := by
  induction l with
  | nil => simp [insertBefore]
  | cons x xs ih =>
    by_cases hx : x = c
    · simp [insertBefore, hx, List.filter_cons, h]
    · simp [insertBefore, hx, List.filter_cons, ih]

theorem filter_erase (p : Nat → Bool) (l : List Nat) (n : Nat) (h : p n = false) :
    (l.erase n).filter p = l.filter p := by
  induction l with
  | nil => simp
  | cons x xs ih =>
    by_cases hx : x = n
    · subst hx; simp [List.filter_cons, h]
    · simp [List.erase_cons, hx, List.filter_cons, ih]

theorem nodup_insertIdx (l : List Nat) (k n : Nat) (hd : l.Nodup) (hn : n ∉ l) : (l.insertIdx k n).Nodup := by
  induction l generalizing k with
  | nil => cases k <;> simp [List.insertIdx]
  | cons x xs ih =>
    cases k with
    | zero => simp [List.nodup_cons, hn, hd]
    | succ k =>
      have hx : x ∉ xs := (List.nodup_cons.mp hd).1
      have hd' : xs.Nodup := (List.nodup_cons.mp hd).2
      have hn' : n ∉ xs := fun h => hn (List.mem_cons_of_mem _ h)
      have hxn : x ≠ n := fun e => hn (by simp [e])
      rw [List.insertIdx_succ_cons, List.nodup_cons]
      refine ⟨?_, ih k hd' hn'⟩
      intro hmem
      by_cases hk : k ≤ xs.length
      · rcases (List.mem_insertIdx hk).mp hmem with h | h
        · exact hxn h
        · exact hx h
      · rw [List.insertIdx_of_length_lt (by omega)] at hmem
        exact hx hmem

end AsmjitVerif.Builder
