/-
Bridge between the class models (BitVec words) and the database-driven spec (`Spec/A64Decode.lean`, Nat fields):
the end-to-end step "accepted word is described by the generated database form" for the register-only classes.
-/
import Std.Tactic.BVDecide
import AsmjitVerif.Model.A64Asm
import AsmjitVerif.Spec.A64Decode
namespace AsmjitVerif.C02
open AsmjitVerif.A64 AsmjitVerif.A64Asm AsmjitVerif.A64Spec

/-- template match and field extraction of the packed word, in BitVec (all opcode constants / masks / registers) -/
theorem rrr_fields (opc x rd rn rm mask value : BitVec 32)
    (hc : opc &&& 0x001F03FF#32 = 0#32) (hm : mask &&& 0x001F03FF#32 = 0#32) (hv : (opc ||| (x <<< 31)) &&& mask = value)
    (h0 : rd.ult 32#32 = true) (h1 : rn.ult 32#32 = true) (h2 : rm.ult 32#32 = true) :
    (opc ||| (x <<< 31) ||| (rm <<< 16) ||| (rn <<< 5) ||| (rd <<< 0)) &&& mask = value ∧
    ((opc ||| (x <<< 31) ||| (rm <<< 16) ||| (rn <<< 5) ||| (rd <<< 0)) >>> 0) &&& 31#32 = rd ∧
    ((opc ||| (x <<< 31) ||| (rm <<< 16) ||| (rn <<< 5) ||| (rd <<< 0)) >>> 5) &&& 31#32 = rn ∧
    ((opc ||| (x <<< 31) ||| (rm <<< 16) ||| (rn <<< 5) ||| (rd <<< 0)) >>> 16) &&& 31#32 = rm := by
  bv_decide

theorem toNat_field (w : BitVec 32) (p : Nat) : (w.toNat >>> p) % 2 ^ 5 = ((w >>> p) &&& 31#32).toNat := by
  simp [BitVec.toNat_and, BitVec.toNat_ushiftRight]
  exact (Nat.and_two_pow_sub_one_eq_mod _ 5).symm

theorem toNat_and_mask (w : BitVec 32) (m : Nat) (hm : m < 2 ^ 32) : w.toNat &&& m = (w &&& BitVec.ofNat 32 m).toNat := by
  simp [BitVec.toNat_and, BitVec.toNat_ofNat, Nat.mod_eq_of_lt hm]

theorem ofNat_mod32_ult (n : Nat) : (BitVec.ofNat 32 (n % 32)).ult 32#32 = true := by
  simp [BitVec.ult, BitVec.toNat_ofNat]; omega

theorem ofNat_mod32_toNat (n : Nat) : (BitVec.ofNat 32 (n % 32)).toNat = n % 32 := by
  simp [BitVec.toNat_ofNat]; omega

/-- the database form is the three-register form of opcode constant `opcx` (sf included): operand specs, field
positions, template; everything decidable so that it can be checked row by row over the regenerated database -/
def isRRRForm (f : Form) (wa wb wc : GpW) (spa spb spc : Bool) (opcx : BitVec 32) : Bool :=
  f.ops == [.gp wa "Rd" spa, .gp wb "Rn" spb, .gp wc "Rm" spc] &&
  f.fields.filter (·.name == "Rd") == [⟨"Rd", [⟨0, 0, 5⟩]⟩] &&
  f.fields.filter (·.name == "Rn") == [⟨"Rn", [⟨5, 0, 5⟩]⟩] &&
  f.fields.filter (·.name == "Rm") == [⟨"Rm", [⟨16, 0, 5⟩]⟩] &&
  f.freeFields.isEmpty && decide (f.mask < 2 ^ 32) && decide (f.value < 2 ^ 32) &&
  (BitVec.ofNat 32 f.mask &&& 0x001F03FF#32 == 0#32) && (opcx &&& BitVec.ofNat 32 f.mask == BitVec.ofNat 32 f.value)

/-- what the spec demands of a general-purpose register operand -/
def gpOk (w : GpW) (sp : Bool) (r : Reg) : Prop :=
  gpWidthOk w r = true ∧ r.et = 0 ∧ r.hasIdx = false ∧ gpNumber r sp = some (r.id % 32)

theorem matchOp_gp (c : Ctx) (wd : GpW) (fld : String) (sp : Bool) (r : Reg) (rest : List Operand)
    (hfield : c.get fld = some (r.id % 32)) (h : gpOk wd sp r) :
    matchOp c (.gp wd fld sp) (.reg r :: rest) = some rest := by
  obtain ⟨a1, a2, a3, a4⟩ := h
  simp [matchOp, hfield, a1, a2, a3, a4]

theorem ctx_get_single (fields : List Field) (w : Nat) (pc : BitVec 64) (nm : String) (fld : String) (p : Nat)
    (h : fields.filter (·.name == fld) = [⟨fld, [⟨p, 0, 5⟩]⟩]) :
    ({ fields := fields, w := w, pc := pc, name := nm } : Ctx).get fld = some ((w >>> p) % 2 ^ 5) := by
  simp [Ctx.get, fieldGet, h, Field.get]

theorem rrr_describes (f : Form) (wa wb wc : GpW) (spa spb spc : Bool) (opc x : BitVec 32) (o0 o1 o2 : Reg) (pc : BitVec 64)
    (hf : isRRRForm f wa wb wc spa spb spc (opc ||| (x <<< 31)) = true)
    (hc : opc &&& 0x001F03FF#32 = 0#32)
    (h0 : gpOk wa spa o0) (h1 : gpOk wb spb o1) (h2 : gpOk wc spc o2) :
    describes f [.reg o0, .reg o1, .reg o2] pc
      (opc ||| (x <<< 31) ||| (BitVec.ofNat 32 (o2.id % 32) <<< 16) ||| (BitVec.ofNat 32 (o1.id % 32) <<< 5) ||| (BitVec.ofNat 32 (o0.id % 32) <<< 0)) = true := by
  simp only [isRRRForm, Bool.and_eq_true, beq_iff_eq, decide_eq_true_eq] at hf
  obtain ⟨⟨⟨⟨⟨⟨⟨⟨hops, hRd⟩, hRn⟩, hRm⟩, _hfree⟩, hmlt⟩, hvlt⟩, hm⟩, hv⟩ := hf
  obtain ⟨k1, k2, k3, k4⟩ := rrr_fields opc x (BitVec.ofNat 32 (o0.id % 32)) (BitVec.ofNat 32 (o1.id % 32)) (BitVec.ofNat 32 (o2.id % 32))
    (BitVec.ofNat 32 f.mask) (BitVec.ofNat 32 f.value) hc hm hv (ofNat_mod32_ult _) (ofNat_mod32_ult _) (ofNat_mod32_ult _)
  obtain ⟨a1, a2, a3, a4⟩ := h0
  obtain ⟨b1, b2, b3, b4⟩ := h1
  obtain ⟨c1, c2, c3, c4⟩ := h2
  generalize hw : (opc ||| (x <<< 31) ||| (BitVec.ofNat 32 (o2.id % 32) <<< 16) ||| (BitVec.ofNat 32 (o1.id % 32) <<< 5) ||| (BitVec.ofNat 32 (o0.id % 32) <<< 0)) = w at *
  have t : w.toNat &&& f.mask = f.value := by
    rw [toNat_and_mask w f.mask hmlt, k1]; simp [BitVec.toNat_ofNat, Nat.mod_eq_of_lt hvlt]
  have f0 : (w.toNat >>> 0) % 2 ^ 5 = o0.id % 32 := by rw [toNat_field, k2, ofNat_mod32_toNat]
  have f5 : (w.toNat >>> 5) % 2 ^ 5 = o1.id % 32 := by rw [toNat_field, k3, ofNat_mod32_toNat]
  have f16 : (w.toNat >>> 16) % 2 ^ 5 = o2.id % 32 := by rw [toNat_field, k4, ofNat_mod32_toNat]
  have g0 := ctx_get_single f.fields w.toNat pc f.name "Rd" 0 hRd
  have g5 := ctx_get_single f.fields w.toNat pc f.name "Rn" 5 hRn
  have g16 := ctx_get_single f.fields w.toNat pc f.name "Rm" 16 hRm
  rw [f0] at g0; rw [f5] at g5; rw [f16] at g16
  have m0 := matchOp_gp _ wa "Rd" spa o0 [.reg o1, .reg o2] g0 ⟨a1, a2, a3, a4⟩
  have m1 := matchOp_gp _ wb "Rn" spb o1 [.reg o2] g5 ⟨b1, b2, b3, b4⟩
  have m2 := matchOp_gp _ wc "Rm" spc o2 [] g16 ⟨c1, c2, c3, c4⟩
  simp only [describes, Form.matchesTemplate, t, hops, matchOps, m0, m1, m2]
  simp

/-! ### four-register forms (Rd, Rn, Rm, Ra) -/

theorem rrrr_fields (opc x rd rn rm ra mask value : BitVec 32)
    (hc : opc &&& 0x001F7FFF#32 = 0#32) (hm : mask &&& 0x001F7FFF#32 = 0#32) (hv : (opc ||| (x <<< 31)) &&& mask = value)
    (h0 : rd.ult 32#32 = true) (h1 : rn.ult 32#32 = true) (h2 : rm.ult 32#32 = true) (h3 : ra.ult 32#32 = true) :
    (opc ||| (x <<< 31) ||| (rm <<< 16) ||| (ra <<< 10) ||| (rn <<< 5) ||| (rd <<< 0)) &&& mask = value ∧
    ((opc ||| (x <<< 31) ||| (rm <<< 16) ||| (ra <<< 10) ||| (rn <<< 5) ||| (rd <<< 0)) >>> 0) &&& 31#32 = rd ∧
    ((opc ||| (x <<< 31) ||| (rm <<< 16) ||| (ra <<< 10) ||| (rn <<< 5) ||| (rd <<< 0)) >>> 5) &&& 31#32 = rn ∧
    ((opc ||| (x <<< 31) ||| (rm <<< 16) ||| (ra <<< 10) ||| (rn <<< 5) ||| (rd <<< 0)) >>> 16) &&& 31#32 = rm ∧
    ((opc ||| (x <<< 31) ||| (rm <<< 16) ||| (ra <<< 10) ||| (rn <<< 5) ||| (rd <<< 0)) >>> 10) &&& 31#32 = ra := by
  bv_decide

def isRRRRForm (f : Form) (wa wb wc wd : GpW) (spa spb spc spd : Bool) (opcx : BitVec 32) : Bool :=
  f.ops == [.gp wa "Rd" spa, .gp wb "Rn" spb, .gp wc "Rm" spc, .gp wd "Ra" spd] &&
  f.fields.filter (·.name == "Rd") == [⟨"Rd", [⟨0, 0, 5⟩]⟩] &&
  f.fields.filter (·.name == "Rn") == [⟨"Rn", [⟨5, 0, 5⟩]⟩] &&
  f.fields.filter (·.name == "Rm") == [⟨"Rm", [⟨16, 0, 5⟩]⟩] &&
  f.fields.filter (·.name == "Ra") == [⟨"Ra", [⟨10, 0, 5⟩]⟩] &&
  f.freeFields.isEmpty && decide (f.mask < 2 ^ 32) && decide (f.value < 2 ^ 32) &&
  (BitVec.ofNat 32 f.mask &&& 0x001F7FFF#32 == 0#32) && (opcx &&& BitVec.ofNat 32 f.mask == BitVec.ofNat 32 f.value)

theorem rrrr_describes (f : Form) (wa wb wc wd : GpW) (spa spb spc spd : Bool) (opc x : BitVec 32) (o0 o1 o2 o3 : Reg) (pc : BitVec 64)
    (hf : isRRRRForm f wa wb wc wd spa spb spc spd (opc ||| (x <<< 31)) = true)
    (hc : opc &&& 0x001F7FFF#32 = 0#32)
    (h0 : gpOk wa spa o0) (h1 : gpOk wb spb o1) (h2 : gpOk wc spc o2) (h3 : gpOk wd spd o3) :
    describes f [.reg o0, .reg o1, .reg o2, .reg o3] pc
      (opc ||| (x <<< 31) ||| (BitVec.ofNat 32 (o2.id % 32) <<< 16) ||| (BitVec.ofNat 32 (o3.id % 32) <<< 10) |||
       (BitVec.ofNat 32 (o1.id % 32) <<< 5) ||| (BitVec.ofNat 32 (o0.id % 32) <<< 0)) = true := by
  simp only [isRRRRForm, Bool.and_eq_true, beq_iff_eq, decide_eq_true_eq] at hf
  obtain ⟨⟨⟨⟨⟨⟨⟨⟨⟨hops, hRd⟩, hRn⟩, hRm⟩, hRa⟩, _hfree⟩, hmlt⟩, hvlt⟩, hm⟩, hv⟩ := hf
  obtain ⟨k1, k2, k3, k4, k5⟩ := rrrr_fields opc x (BitVec.ofNat 32 (o0.id % 32)) (BitVec.ofNat 32 (o1.id % 32)) (BitVec.ofNat 32 (o2.id % 32))
    (BitVec.ofNat 32 (o3.id % 32)) (BitVec.ofNat 32 f.mask) (BitVec.ofNat 32 f.value) hc hm hv
    (ofNat_mod32_ult _) (ofNat_mod32_ult _) (ofNat_mod32_ult _) (ofNat_mod32_ult _)
  generalize hw : (opc ||| (x <<< 31) ||| (BitVec.ofNat 32 (o2.id % 32) <<< 16) ||| (BitVec.ofNat 32 (o3.id % 32) <<< 10) |||
       (BitVec.ofNat 32 (o1.id % 32) <<< 5) ||| (BitVec.ofNat 32 (o0.id % 32) <<< 0)) = w at *
  have t : w.toNat &&& f.mask = f.value := by
    rw [toNat_and_mask w f.mask hmlt, k1]; simp [BitVec.toNat_ofNat, Nat.mod_eq_of_lt hvlt]
  have f0 : (w.toNat >>> 0) % 2 ^ 5 = o0.id % 32 := by rw [toNat_field, k2, ofNat_mod32_toNat]
  have f5 : (w.toNat >>> 5) % 2 ^ 5 = o1.id % 32 := by rw [toNat_field, k3, ofNat_mod32_toNat]
  have f16 : (w.toNat >>> 16) % 2 ^ 5 = o2.id % 32 := by rw [toNat_field, k4, ofNat_mod32_toNat]
  have f10 : (w.toNat >>> 10) % 2 ^ 5 = o3.id % 32 := by rw [toNat_field, k5, ofNat_mod32_toNat]
  have g0 := ctx_get_single f.fields w.toNat pc f.name "Rd" 0 hRd
  have g5 := ctx_get_single f.fields w.toNat pc f.name "Rn" 5 hRn
  have g16 := ctx_get_single f.fields w.toNat pc f.name "Rm" 16 hRm
  have g10 := ctx_get_single f.fields w.toNat pc f.name "Ra" 10 hRa
  rw [f0] at g0; rw [f5] at g5; rw [f16] at g16; rw [f10] at g10
  have m0 := matchOp_gp _ wa "Rd" spa o0 [.reg o1, .reg o2, .reg o3] g0 h0
  have m1 := matchOp_gp _ wb "Rn" spb o1 [.reg o2, .reg o3] g5 h1
  have m2 := matchOp_gp _ wc "Rm" spc o2 [.reg o3] g16 h2
  have m3 := matchOp_gp _ wd "Ra" spd o3 [] g10 h3
  simp only [describes, Form.matchesTemplate, t, hops, matchOps, m0, m1, m2, m3]
  simp

/-! ### generic helpers for fields of other widths and immediate operand kinds -/

theorem toNat_fieldN (w : BitVec 32) (p s : Nat) (hs : s ≤ 31) :
    (w.toNat >>> p) % 2 ^ s = ((w >>> p) &&& BitVec.ofNat 32 (2 ^ s - 1)).toNat := by
  have h1 : 2 ^ s - 1 < 2 ^ 32 := by
    have : 2 ^ s ≤ 2 ^ 31 := Nat.pow_le_pow_right (by decide) hs
    omega
  simp [BitVec.toNat_and, BitVec.toNat_ushiftRight, BitVec.toNat_ofNat, Nat.mod_eq_of_lt h1]

theorem ctx_get_one (fields : List Field) (w : Nat) (pc : BitVec 64) (nm : String) (fld : String) (p s : Nat)
    (h : fields.filter (·.name == fld) = [⟨fld, [⟨p, 0, s⟩]⟩]) :
    ({ fields := fields, w := w, pc := pc, name := nm } : Ctx).get fld = some ((w >>> p) % 2 ^ s) := by
  simp [Ctx.get, fieldGet, h, Field.get]

theorem matchOp_cond (c : Ctx) (fld : String) (v : BitVec 64) (p : Nat) (rest : List Operand)
    (hlt : v.toNat < 16) (hfield : c.get fld = some (condField v.toNat)) :
    matchOp c (.cond fld false) (.imm v p :: rest) = some rest := by
  simp [matchOp, hfield, hlt]

/-! ### conditional select (Rd, Rn, Rm, cond) -/

theorem csel_fields (opc x rd rn rm cond mask value : BitVec 32)
    (hc : opc &&& 0x001FF3FF#32 = 0#32) (hm : mask &&& 0x001FF3FF#32 = 0#32) (hv : (opc ||| (x <<< 31)) &&& mask = value)
    (h0 : rd.ult 32#32 = true) (h1 : rn.ult 32#32 = true) (h2 : rm.ult 32#32 = true) (h3 : cond.ult 16#32 = true) :
    (opc ||| (x <<< 31) ||| (rm <<< 16) ||| (cond <<< 12) ||| (rn <<< 5) ||| (rd <<< 0)) &&& mask = value ∧
    ((opc ||| (x <<< 31) ||| (rm <<< 16) ||| (cond <<< 12) ||| (rn <<< 5) ||| (rd <<< 0)) >>> 0) &&& 31#32 = rd ∧
    ((opc ||| (x <<< 31) ||| (rm <<< 16) ||| (cond <<< 12) ||| (rn <<< 5) ||| (rd <<< 0)) >>> 5) &&& 31#32 = rn ∧
    ((opc ||| (x <<< 31) ||| (rm <<< 16) ||| (cond <<< 12) ||| (rn <<< 5) ||| (rd <<< 0)) >>> 16) &&& 31#32 = rm ∧
    ((opc ||| (x <<< 31) ||| (rm <<< 16) ||| (cond <<< 12) ||| (rn <<< 5) ||| (rd <<< 0)) >>> 12) &&& 15#32 = cond := by
  bv_decide

def isCSelForm (f : Form) (wd : GpW) (opcx : BitVec 32) : Bool :=
  f.ops == [.gp wd "Rd" false, .gp wd "Rn" false, .gp wd "Rm" false, .cond "cond" false] &&
  f.fields.filter (·.name == "Rd") == [⟨"Rd", [⟨0, 0, 5⟩]⟩] &&
  f.fields.filter (·.name == "Rn") == [⟨"Rn", [⟨5, 0, 5⟩]⟩] &&
  f.fields.filter (·.name == "Rm") == [⟨"Rm", [⟨16, 0, 5⟩]⟩] &&
  f.fields.filter (·.name == "cond") == [⟨"cond", [⟨12, 0, 4⟩]⟩] &&
  f.freeFields.isEmpty && decide (f.mask < 2 ^ 32) && decide (f.value < 2 ^ 32) &&
  (BitVec.ofNat 32 f.mask &&& 0x001FF3FF#32 == 0#32) && (opcx &&& BitVec.ofNat 32 f.mask == BitVec.ofNat 32 f.value)

theorem csel_describes (f : Form) (wd : GpW) (opc x : BitVec 32) (o0 o1 o2 : Reg) (cond : BitVec 64) (p : Nat) (pc : BitVec 64)
    (hf : isCSelForm f wd (opc ||| (x <<< 31)) = true) (hc : opc &&& 0x001FF3FF#32 = 0#32)
    (h0 : gpOk wd false o0) (h1 : gpOk wd false o1) (h2 : gpOk wd false o2) (hcond : cond.toNat < 16) :
    describes f [.reg o0, .reg o1, .reg o2, .imm cond p] pc
      (opc ||| (x <<< 31) ||| (BitVec.ofNat 32 (o2.id % 32) <<< 16) ||| (BitVec.ofNat 32 (condField cond.toNat) <<< 12) |||
       (BitVec.ofNat 32 (o1.id % 32) <<< 5) ||| (BitVec.ofNat 32 (o0.id % 32) <<< 0)) = true := by
  simp only [isCSelForm, Bool.and_eq_true, beq_iff_eq, decide_eq_true_eq] at hf
  obtain ⟨⟨⟨⟨⟨⟨⟨⟨⟨hops, hRd⟩, hRn⟩, hRm⟩, hCo⟩, _hfree⟩, hmlt⟩, hvlt⟩, hm⟩, hv⟩ := hf
  have hcf : condField cond.toNat < 16 := by unfold condField; omega
  have hcu : (BitVec.ofNat 32 (condField cond.toNat)).ult 16#32 = true := by
    simp [BitVec.ult, BitVec.toNat_ofNat]; omega
  obtain ⟨k1, k2, k3, k4, k5⟩ := csel_fields opc x (BitVec.ofNat 32 (o0.id % 32)) (BitVec.ofNat 32 (o1.id % 32)) (BitVec.ofNat 32 (o2.id % 32))
    (BitVec.ofNat 32 (condField cond.toNat)) (BitVec.ofNat 32 f.mask) (BitVec.ofNat 32 f.value) hc hm hv
    (ofNat_mod32_ult _) (ofNat_mod32_ult _) (ofNat_mod32_ult _) hcu
  generalize hw : (opc ||| (x <<< 31) ||| (BitVec.ofNat 32 (o2.id % 32) <<< 16) ||| (BitVec.ofNat 32 (condField cond.toNat) <<< 12) |||
       (BitVec.ofNat 32 (o1.id % 32) <<< 5) ||| (BitVec.ofNat 32 (o0.id % 32) <<< 0)) = w at *
  have t : w.toNat &&& f.mask = f.value := by
    rw [toNat_and_mask w f.mask hmlt, k1]; simp [BitVec.toNat_ofNat, Nat.mod_eq_of_lt hvlt]
  have f0 : (w.toNat >>> 0) % 2 ^ 5 = o0.id % 32 := by rw [toNat_field, k2, ofNat_mod32_toNat]
  have f5 : (w.toNat >>> 5) % 2 ^ 5 = o1.id % 32 := by rw [toNat_field, k3, ofNat_mod32_toNat]
  have f16 : (w.toNat >>> 16) % 2 ^ 5 = o2.id % 32 := by rw [toNat_field, k4, ofNat_mod32_toNat]
  have f12 : (w.toNat >>> 12) % 2 ^ 4 = condField cond.toNat := by
    rw [toNat_fieldN w 12 4 (by decide)]
    have : (BitVec.ofNat 32 (2 ^ 4 - 1)) = 15#32 := by decide
    rw [this, k5]; simp [BitVec.toNat_ofNat]; omega
  have g0 := ctx_get_single f.fields w.toNat pc f.name "Rd" 0 hRd
  have g5 := ctx_get_single f.fields w.toNat pc f.name "Rn" 5 hRn
  have g16 := ctx_get_single f.fields w.toNat pc f.name "Rm" 16 hRm
  have g12 := ctx_get_one f.fields w.toNat pc f.name "cond" 12 4 hCo
  rw [f0] at g0; rw [f5] at g5; rw [f16] at g16; rw [f12] at g12
  have m0 := matchOp_gp _ wd "Rd" false o0 [.reg o1, .reg o2, .imm cond p] g0 h0
  have m1 := matchOp_gp _ wd "Rn" false o1 [.reg o2, .imm cond p] g5 h1
  have m2 := matchOp_gp _ wd "Rm" false o2 [.imm cond p] g16 h2
  have m3 := matchOp_cond _ "cond" cond p [] hcond g12
  simp only [describes, Form.matchesTemplate, t, hops, matchOps, m0, m1, m2, m3]
  simp

/-! ### ADD/SUB (immediate): Rd, Rn, imm12 at 10, sh at 22 -/

theorem addsub_imm_fields (opc x sh imm rd rn mask value : BitVec 32)
    (hc : opc &&& 0x007FFFFF#32 = 0#32) (hm : mask &&& 0x007FFFFF#32 = 0#32) (hv : (opc ||| (x <<< 31)) &&& mask = value)
    (h0 : rd.ult 32#32 = true) (h1 : rn.ult 32#32 = true) (h2 : sh.ult 2#32 = true) (h3 : imm.ult 4096#32 = true) :
    (opc ||| (x <<< 31) ||| (sh <<< 22) ||| (imm <<< 10) ||| (rn <<< 5) ||| (rd <<< 0)) &&& mask = value ∧
    ((opc ||| (x <<< 31) ||| (sh <<< 22) ||| (imm <<< 10) ||| (rn <<< 5) ||| (rd <<< 0)) >>> 0) &&& 31#32 = rd ∧
    ((opc ||| (x <<< 31) ||| (sh <<< 22) ||| (imm <<< 10) ||| (rn <<< 5) ||| (rd <<< 0)) >>> 5) &&& 31#32 = rn ∧
    ((opc ||| (x <<< 31) ||| (sh <<< 22) ||| (imm <<< 10) ||| (rn <<< 5) ||| (rd <<< 0)) >>> 10) &&& 4095#32 = imm ∧
    ((opc ||| (x <<< 31) ||| (sh <<< 22) ||| (imm <<< 10) ||| (rn <<< 5) ||| (rd <<< 0)) >>> 22) &&& 1#32 = sh := by
  bv_decide

def isAddSubImmForm (f : Form) (wd : GpW) (spd spn : Bool) (opcx : BitVec 32) : Bool :=
  f.ops == [.gp wd "Rd" spd, .gp wd "Rn" spn, .addSubImm "immZ" "n"] &&
  f.fields.filter (·.name == "Rd") == [⟨"Rd", [⟨0, 0, 5⟩]⟩] &&
  f.fields.filter (·.name == "Rn") == [⟨"Rn", [⟨5, 0, 5⟩]⟩] &&
  f.fields.filter (·.name == "immZ") == [⟨"immZ", [⟨10, 0, 12⟩]⟩] &&
  f.fields.filter (·.name == "n") == [⟨"n", [⟨22, 0, 1⟩]⟩] &&
  f.freeFields.isEmpty && decide (f.mask < 2 ^ 32) && decide (f.value < 2 ^ 32) &&
  (BitVec.ofNat 32 f.mask &&& 0x007FFFFF#32 == 0#32) && (opcx &&& BitVec.ofNat 32 f.mask == BitVec.ofNat 32 f.value)

/-- the operand tail of ADD/SUB (immediate) as the spec reads it: `#imm` alone, or `#imm, lsl #(0|12)` -/
def addSubTailOk (field sh : Nat) (tail : List Operand) : Prop :=
  match tail with
  | [.imm v _] => v.toNat = field * (if sh == 1 then 4096 else 1)
  | [.imm v _, .imm s ps] => ps = sopLSL ∧ (s.toNat = 0 ∨ s.toNat = 12) ∧ v.toNat * 2 ^ s.toNat = field * (if sh == 1 then 4096 else 1)
  | _ => False

theorem matchOp_addSubImm (c : Ctx) (field sh : Nat) (tail : List Operand)
    (hi : c.get "immZ" = some field) (hs : c.get "n" = some sh) (ht : addSubTailOk field sh tail) :
    matchOp c (.addSubImm "immZ" "n") tail = some [] := by
  unfold addSubTailOk at ht
  match tail, ht with
  | [.imm v p], ht => simp [matchOp, hi, hs, ht]
  | [.imm v p, .imm s ps], ⟨h1, h2, h3⟩ =>
    simp only [matchOp, hi, hs]
    rcases h2 with h2 | h2 <;> simp [h1, h2, h3] <;> simp [h2] at h3 <;> omega

theorem addsub_imm_describes (f : Form) (wd : GpW) (spd spn : Bool) (opc x : BitVec 32) (o0 o1 : Reg) (field sh : Nat)
    (tail : List Operand) (pc : BitVec 64)
    (hf : isAddSubImmForm f wd spd spn (opc ||| (x <<< 31)) = true) (hc : opc &&& 0x007FFFFF#32 = 0#32)
    (h0 : gpOk wd spd o0) (h1 : gpOk wd spn o1) (hfld : field < 4096) (hsh : sh < 2) (ht : addSubTailOk field sh tail) :
    describes f (.reg o0 :: .reg o1 :: tail) pc
      (opc ||| (x <<< 31) ||| (BitVec.ofNat 32 sh <<< 22) ||| (BitVec.ofNat 32 field <<< 10) |||
       (BitVec.ofNat 32 (o1.id % 32) <<< 5) ||| (BitVec.ofNat 32 (o0.id % 32) <<< 0)) = true := by
  simp only [isAddSubImmForm, Bool.and_eq_true, beq_iff_eq, decide_eq_true_eq] at hf
  obtain ⟨⟨⟨⟨⟨⟨⟨⟨⟨hops, hRd⟩, hRn⟩, hIm⟩, hN⟩, _hfree⟩, hmlt⟩, hvlt⟩, hm⟩, hv⟩ := hf
  have hu1 : (BitVec.ofNat 32 sh).ult 2#32 = true := by simp [BitVec.ult, BitVec.toNat_ofNat]; omega
  have hu2 : (BitVec.ofNat 32 field).ult 4096#32 = true := by simp [BitVec.ult, BitVec.toNat_ofNat]; omega
  obtain ⟨k1, k2, k3, k4, k5⟩ := addsub_imm_fields opc x (BitVec.ofNat 32 sh) (BitVec.ofNat 32 field) (BitVec.ofNat 32 (o0.id % 32))
    (BitVec.ofNat 32 (o1.id % 32)) (BitVec.ofNat 32 f.mask) (BitVec.ofNat 32 f.value) hc hm hv (ofNat_mod32_ult _) (ofNat_mod32_ult _) hu1 hu2
  generalize hw : (opc ||| (x <<< 31) ||| (BitVec.ofNat 32 sh <<< 22) ||| (BitVec.ofNat 32 field <<< 10) |||
       (BitVec.ofNat 32 (o1.id % 32) <<< 5) ||| (BitVec.ofNat 32 (o0.id % 32) <<< 0)) = w at *
  have t : w.toNat &&& f.mask = f.value := by
    rw [toNat_and_mask w f.mask hmlt, k1]; simp [BitVec.toNat_ofNat, Nat.mod_eq_of_lt hvlt]
  have f0 : (w.toNat >>> 0) % 2 ^ 5 = o0.id % 32 := by rw [toNat_field, k2, ofNat_mod32_toNat]
  have f5 : (w.toNat >>> 5) % 2 ^ 5 = o1.id % 32 := by rw [toNat_field, k3, ofNat_mod32_toNat]
  have f10 : (w.toNat >>> 10) % 2 ^ 12 = field := by
    rw [toNat_fieldN w 10 12 (by decide), show (BitVec.ofNat 32 (2 ^ 12 - 1)) = 4095#32 from rfl, k4]
    simp [BitVec.toNat_ofNat]; omega
  have f22 : (w.toNat >>> 22) % 2 ^ 1 = sh := by
    rw [toNat_fieldN w 22 1 (by decide), show (BitVec.ofNat 32 (2 ^ 1 - 1)) = 1#32 from rfl, k5]
    simp [BitVec.toNat_ofNat]; omega
  have g0 := ctx_get_single f.fields w.toNat pc f.name "Rd" 0 hRd
  have g5 := ctx_get_single f.fields w.toNat pc f.name "Rn" 5 hRn
  have g10 := ctx_get_one f.fields w.toNat pc f.name "immZ" 10 12 hIm
  have g22 := ctx_get_one f.fields w.toNat pc f.name "n" 22 1 hN
  rw [f0] at g0; rw [f5] at g5; rw [f10] at g10; rw [f22] at g22
  have m0 := matchOp_gp _ wd "Rd" spd o0 (.reg o1 :: tail) g0 h0
  have m1 := matchOp_gp _ wd "Rn" spn o1 tail g5 h1
  have m2 := matchOp_addSubImm _ field sh tail g10 g22 ht
  have hshape : (∃ v p, tail = [.imm v p]) ∨ (∃ v p s ps, tail = [.imm v p, .imm s ps]) := by
    unfold addSubTailOk at ht
    split at ht
    · exact Or.inl ⟨_, _, rfl⟩
    · exact Or.inr ⟨_, _, _, _, rfl⟩
    · exact absurd ht (by simp)
  rcases hshape with ⟨v, p, rfl⟩ | ⟨v, p, s, ps, rfl⟩
  · simp only [describes, Form.matchesTemplate, t, hops, matchOps, m0, m1, m2]
    simp
  · simp only [describes, Form.matchesTemplate, t, hops, matchOps, m0, m1, m2]
    simp

/-! ### bit-field move family: sf at 31, N at 22 (= sf), immr at 16, imms at 10, Rn, Rd -/

theorem bitfield_fields (opc x immr imms rd rn mask value : BitVec 32)
    (hc : opc &&& 0x003FFFFF#32 = 0#32) (hm : mask &&& 0x003FFFFF#32 = 0#32) (hv : (opc ||| (x <<< 31) ||| (x <<< 22)) &&& mask = value)
    (hx : x.ult 2#32 = true) (h0 : rd.ult 32#32 = true) (h1 : rn.ult 32#32 = true) (h2 : immr.ult 64#32 = true) (h3 : imms.ult 64#32 = true) :
    (opc ||| (x <<< 31) ||| (x <<< 22) ||| (immr <<< 16) ||| (imms <<< 10) ||| (rn <<< 5) ||| (rd <<< 0)) &&& mask = value ∧
    ((opc ||| (x <<< 31) ||| (x <<< 22) ||| (immr <<< 16) ||| (imms <<< 10) ||| (rn <<< 5) ||| (rd <<< 0)) >>> 0) &&& 31#32 = rd ∧
    ((opc ||| (x <<< 31) ||| (x <<< 22) ||| (immr <<< 16) ||| (imms <<< 10) ||| (rn <<< 5) ||| (rd <<< 0)) >>> 5) &&& 31#32 = rn ∧
    ((opc ||| (x <<< 31) ||| (x <<< 22) ||| (immr <<< 16) ||| (imms <<< 10) ||| (rn <<< 5) ||| (rd <<< 0)) >>> 16) &&& 63#32 = immr ∧
    ((opc ||| (x <<< 31) ||| (x <<< 22) ||| (immr <<< 16) ||| (imms <<< 10) ||| (rn <<< 5) ||| (rd <<< 0)) >>> 10) &&& 63#32 = imms := by
  bv_decide

def isBitfieldForm (f : Form) (wd : GpW) (tailSpecs : List OpSpec) (opcx : BitVec 32) : Bool :=
  f.ops == [.gp wd "Rd" false, .gp wd "Rn" false] ++ tailSpecs &&
  f.fields.filter (·.name == "Rd") == [⟨"Rd", [⟨0, 0, 5⟩]⟩] &&
  f.fields.filter (·.name == "Rn") == [⟨"Rn", [⟨5, 0, 5⟩]⟩] &&
  f.fields.filter (·.name == "immr") == [⟨"immr", [⟨16, 0, 6⟩]⟩] &&
  f.fields.filter (·.name == "imms") == [⟨"imms", [⟨10, 0, 6⟩]⟩] &&
  f.freeFields.isEmpty && !(tailSpecs.any (·.isPartial)) && decide (f.mask < 2 ^ 32) && decide (f.value < 2 ^ 32) &&
  (BitVec.ofNat 32 f.mask &&& 0x003FFFFF#32 == 0#32) && (opcx &&& BitVec.ofNat 32 f.mask == BitVec.ofNat 32 f.value)

theorem matchOp_immU1 (c : Ctx) (fld : String) (v : BitVec 64) (p : Nat) (rest : List Operand) (hfield : c.get fld = some v.toNat) :
    matchOp c (.immU fld 1) (.imm v p :: rest) = some rest := by
  simp [matchOp, hfield]

/-- generic: a form of the bit-field family describes `Rd, Rn, <tail>` when the tail operands are matched by the tail specs
from the two fields immr / imms -/
theorem bitfield_describes (f : Form) (wd : GpW) (tailSpecs : List OpSpec) (opc x : BitVec 32) (o0 o1 : Reg) (immr imms : Nat)
    (tail : List Operand) (pc : BitVec 64)
    (hf : isBitfieldForm f wd tailSpecs (opc ||| (x <<< 31) ||| (x <<< 22)) = true) (hc : opc &&& 0x003FFFFF#32 = 0#32) (hx : x.ult 2#32 = true)
    (h0 : gpOk wd false o0) (h1 : gpOk wd false o1) (hr : immr < 64) (hs : imms < 64)
    (hnn : ∀ t rest, tail = t :: rest → t ≠ .none)
    (htail : ∀ c : Ctx, c.get "immr" = some immr → c.get "imms" = some imms → matchOps c tailSpecs tail = true) :
    describes f (.reg o0 :: .reg o1 :: tail) pc
      (opc ||| (x <<< 31) ||| (x <<< 22) ||| (BitVec.ofNat 32 immr <<< 16) ||| (BitVec.ofNat 32 imms <<< 10) |||
       (BitVec.ofNat 32 (o1.id % 32) <<< 5) ||| (BitVec.ofNat 32 (o0.id % 32) <<< 0)) = true := by
  simp only [isBitfieldForm, Bool.and_eq_true, beq_iff_eq, decide_eq_true_eq] at hf
  obtain ⟨⟨⟨⟨⟨⟨⟨⟨⟨⟨hops, hRd⟩, hRn⟩, hIr⟩, hIs⟩, _hfree⟩, _⟩, hmlt⟩, hvlt⟩, hm⟩, hv⟩ := hf
  have hu1 : (BitVec.ofNat 32 immr).ult 64#32 = true := by simp [BitVec.ult, BitVec.toNat_ofNat]; omega
  have hu2 : (BitVec.ofNat 32 imms).ult 64#32 = true := by simp [BitVec.ult, BitVec.toNat_ofNat]; omega
  obtain ⟨k1, k2, k3, k4, k5⟩ := bitfield_fields opc x (BitVec.ofNat 32 immr) (BitVec.ofNat 32 imms) (BitVec.ofNat 32 (o0.id % 32))
    (BitVec.ofNat 32 (o1.id % 32)) (BitVec.ofNat 32 f.mask) (BitVec.ofNat 32 f.value) hc hm hv hx (ofNat_mod32_ult _) (ofNat_mod32_ult _) hu1 hu2
  generalize hw : (opc ||| (x <<< 31) ||| (x <<< 22) ||| (BitVec.ofNat 32 immr <<< 16) ||| (BitVec.ofNat 32 imms <<< 10) |||
       (BitVec.ofNat 32 (o1.id % 32) <<< 5) ||| (BitVec.ofNat 32 (o0.id % 32) <<< 0)) = w at *
  have t : w.toNat &&& f.mask = f.value := by
    rw [toNat_and_mask w f.mask hmlt, k1]; simp [BitVec.toNat_ofNat, Nat.mod_eq_of_lt hvlt]
  have f0 : (w.toNat >>> 0) % 2 ^ 5 = o0.id % 32 := by rw [toNat_field, k2, ofNat_mod32_toNat]
  have f5 : (w.toNat >>> 5) % 2 ^ 5 = o1.id % 32 := by rw [toNat_field, k3, ofNat_mod32_toNat]
  have f16 : (w.toNat >>> 16) % 2 ^ 6 = immr := by
    rw [toNat_fieldN w 16 6 (by decide), show (BitVec.ofNat 32 (2 ^ 6 - 1)) = 63#32 from rfl, k4]
    simp [BitVec.toNat_ofNat]; omega
  have f10 : (w.toNat >>> 10) % 2 ^ 6 = imms := by
    rw [toNat_fieldN w 10 6 (by decide), show (BitVec.ofNat 32 (2 ^ 6 - 1)) = 63#32 from rfl, k5]
    simp [BitVec.toNat_ofNat]; omega
  have g0 := ctx_get_single f.fields w.toNat pc f.name "Rd" 0 hRd
  have g5 := ctx_get_single f.fields w.toNat pc f.name "Rn" 5 hRn
  have g16 := ctx_get_one f.fields w.toNat pc f.name "immr" 16 6 hIr
  have g10 := ctx_get_one f.fields w.toNat pc f.name "imms" 10 6 hIs
  rw [f0] at g0; rw [f5] at g5; rw [f16] at g16; rw [f10] at g10
  have m0 := matchOp_gp _ wd "Rd" false o0 (.reg o1 :: tail) g0 h0
  have m1 := matchOp_gp _ wd "Rn" false o1 tail g5 h1
  have m2 := htail _ g16 g10
  have hstrip : (match tail with | .none :: _ => [] | o => o) = tail := by
    cases tail with
    | nil => rfl
    | cons t rest =>
      have := hnn t rest rfl
      cases t <;> first | rfl | exact absurd rfl this
  simp only [describes, Form.matchesTemplate, t, hops, List.cons_append, List.nil_append, matchOps, m0, m1]
  cases tailSpecs with
  | nil => simpa [matchOps] using m2
  | cons s ss =>
    simp only [matchOps] at m2 ⊢
    simpa using m2

end AsmjitVerif.C02
