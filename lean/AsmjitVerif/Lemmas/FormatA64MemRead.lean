/- C20 helper lemmas: the reader on the glued pieces of an AArch64 memory operand. -/
import AsmjitVerif.Lemmas.FormatA64Mem

namespace AsmjitVerif.Lemmas.FormatA64Mem
open AsmjitVerif.Format AsmjitVerif.FormatText AsmjitVerif.Lemmas.FormatLex AsmjitVerif.Lemmas.FormatNum
open AsmjitVerif.Lemmas.FormatX86Mem

/-! ### tokens are free of the AArch64 address punctuation -/

theorem name_clean {t : Str} (h : NameLike t) : ∀ c ∈ t, isA64MemDelim c = false := by
  intro c hc
  obtain ⟨_, _, _, h4, h5, h6, h7, h8, _⟩ := h.clean c hc
  simp [isA64MemDelim, h4, h5, h6, h7, h8]

theorem digit_clean64 : ∀ d : Fin 16, isA64MemDelim (digitChar d.val) = false := by decide

theorem uint_clean (n base : Nat) (hb : base = 10 ∨ base = 16) : ∀ c ∈ uintStr n base, isA64MemDelim c = false := by
  unfold uintStr
  apply digitsLoop_chars base (fun c => isA64MemDelim c = false) (by omega)
  intro d hd
  exact digit_clean64 ⟨d, by omega⟩

theorem numTok_clean (hex : Bool) (u : Nat) : ∀ c ∈ numTok hex u, isA64MemDelim c = false := by
  unfold numTok intStr
  intro c hc
  split at hc
  · simp only [List.cons_append, List.nil_append, List.mem_cons] at hc
    rcases hc with h | h | h
    · subst h; decide
    · subst h; decide
    · exact uint_clean _ 16 (Or.inr rfl) c h
  · split at hc
    · simp only [List.mem_cons] at hc
      rcases hc with h | h
      · subst h; decide
      · exact uint_clean _ 10 (Or.inl rfl) c h
    · exact uint_clean _ 10 (Or.inl rfl) c hc

theorem isNumberTok_numTok (hex : Bool) (u : Nat) : isNumberTok (numTok hex u) = true := by
  unfold numTok intStr
  split
  · rfl
  · split
    · simp [isNumberTok, startsWithDigit_uintStr]
    · simp [isNumberTok, startsWithDigit_uintStr]

theorem shiftop_facts : ∀ k ∈ List.range 14,
    shiftOpOfName (armShiftOp k) = some k ∧ (∀ c ∈ armShiftOp k, isA64MemDelim c = false) := by decide

theorem name_not_number {t : Str} (h : NameLike t) : isNumberTok t = false := by
  unfold isNumberTok
  have h1 := h.nodigit
  cases t with
  | nil => exact absurd rfl h.ne
  | cons c r =>
    have hc : c ≠ '-' := (h.clean c (List.mem_cons_self ..)).2.1
    simp [h1, hc]

/-! ### the base -/

structure WFA64Mem (env : Env) (m : A64Mem) : Prop where
  base : match m.base with
    | .none => False
    | .label id => LabelOK env id
    | .reg t id => RegOK env (armFormatRegister env t id) t id
  index : match m.index with
    | none => True
    | some (t, id) => RegOK env (armFormatRegister env t id) t id
  form :
    (m.index = none ∧ m.shift = 0 ∧ m.shiftOp = 0 ∧ m.mode ≤ 2) ∨
    (m.index ≠ none ∧ offVal m = 0 ∧ m.mode = 0 ∧ m.shiftOp < 14 ∧ m.shift < two64) ∨
    (m.index ≠ none ∧ offVal m = 0 ∧ m.mode = 2 ∧ m.shiftOp = 0 ∧ m.shift = 0)

def baseRes (env : Env) (m : A64Mem) : PMem :=
  match m.base with
  | .reg t id => { terms := [(rdReg env (armFormatRegister env t id), 1)], home := m.home }
  | .label id => { label := some id }
  | .none => {}

theorem base_read (env : Env) (m : A64Mem) (wf : WFA64Mem env m) :
    interpA64Base env (baseTok env m) = some (baseRes env m) ∧ (∀ c ∈ baseTok env m, isA64MemDelim c = false) := by
  have hb := wf.base
  unfold baseTok a64MemBaseText baseRes
  cases hbase : m.base with
  | none => rw [hbase] at hb; exact absurd hb id
  | label id =>
    rw [hbase] at hb
    refine ⟨?_, name_clean hb.like⟩
    simp [interpA64Base, splitAmp_plain _ hb.like.noamp, hb.noreg, hb.reads]
  | reg t id =>
    rw [hbase] at hb
    by_cases hh : m.home = true
    · simp only [hh, if_true]
      refine ⟨by simp [interpA64Base, splitAmp, hb.eq.1], ?_⟩
      intro c hc
      simp only [List.mem_cons] at hc
      rcases hc with e | e
      · subst e; decide
      · exact name_clean hb.like c e
    · have hf : m.home = false := by simpa using hh
      simp only [hf, Bool.false_eq_true, if_false]
      exact ⟨by simp [interpA64Base, splitAmp_plain _ hb.like.noamp, hb.eq.1], name_clean hb.like⟩

theorem read_of_pieces (flags : Nat) (env : Env) (m : A64Mem) (ps : List Piece) (pm : PMem)
    (hp : pieces flags env m = ps) (hok : TailOK isA64MemDelim ps) (hi : interpA64Pieces env ps = some pm) :
    parseA64Mem env (a64FormatMem flags env m) = some pm := by
  rw [a64FormatMem_eq, hp]
  unfold parseA64Mem
  rw [lex_pieces _ _ (PiecesOK_of_tail _ _ hok)]
  exact hi

def idxTerms (env : Env) (m : A64Mem) : List (PReg × Nat) :=
  match m.index with | some (t, id) => [(rdReg env (armFormatRegister env t id), 1)] | none => []

def finalRes (env : Env) (m : A64Mem) : PMem :=
  { baseRes env m with terms := (baseRes env m).terms ++ idxTerms env m, disp := offVal m, shiftOp := m.shiftOp,
                       shift := m.shift, mode := m.mode }

theorem baseRes_fields (env : Env) (m : A64Mem) :
    (baseRes env m).disp = 0 ∧ (baseRes env m).shiftOp = 0 ∧ (baseRes env m).shift = 0 := by
  unfold baseRes; cases m.base <;> simp

theorem offVal_lt (m : A64Mem) : offVal m < two64 := effOff_lt _ _

/-- offset forms: `[b]`, `[b, off]`, `[b]!`, `[b, off]!`, `[b], off` -/
theorem read_offset_form (flags : Nat) (env : Env) (m : A64Mem) (wf : WFA64Mem env m)
    (hidx : m.index = none) (hs : m.shift = 0) (hso : m.shiftOp = 0) (hm : m.mode ≤ 2) :
    parseA64Mem env (a64FormatMem flags env m) = some (finalRes env m) := by
  obtain ⟨hB, hBc⟩ := base_read env m wf
  have hT := numTok_clean (hasBit flags ffHexOffsets) (offVal m)
  have hTn := isNumberTok_numTok (hasBit flags ffHexOffsets) (offVal m)
  have hTp := parseNumber64_numTok (hasBit flags ffHexOffsets) (offVal m) (offVal_lt m)
  have hmode : m.mode = 0 ∨ m.mode = 1 ∨ m.mode = 2 := by omega
  obtain ⟨hf1, hf2, hf3⟩ := baseRes_fields env m
  rcases hmode with h | h | h
  · by_cases h0 : offVal m = 0
    · apply read_of_pieces flags env m [(some '[', baseTok env m), (some ']', [])]
      · simp [pieces, hidx, hs, hso, h, h0, shiftShown, offPiecesOf]
      · simp only [TailOK]; exact ⟨by decide, hBc, by decide, by simp, trivial⟩
      · simp [interpA64Pieces, hB, interpA64Tail, interpA64Close, finalRes, idxTerms, hidx, hs, hso, h, h0, hf1, hf2, hf3]
    · apply read_of_pieces flags env m
        [(some '[', baseTok env m), (some ',', []), (some ' ', numTok (hasBit flags ffHexOffsets) (offVal m)), (some ']', [])]
      · simp [pieces, hidx, hs, hso, h, h0, shiftShown, offPiecesOf]
      · simp only [TailOK]; exact ⟨by decide, hBc, by decide, by simp, by decide, hT, by decide, by simp, trivial⟩
      · simp [interpA64Pieces, hB, interpA64Tail, interpA64Close, finalRes, idxTerms, hidx, hs, hso, h, hTn, hTp, hf1, hf2, hf3]
  · by_cases h0 : offVal m = 0
    · apply read_of_pieces flags env m [(some '[', baseTok env m), (some ']', []), (some '!', [])]
      · simp [pieces, hidx, hs, hso, h, h0, shiftShown, offPiecesOf]
      · simp only [TailOK]; exact ⟨by decide, hBc, by decide, by simp, by decide, by simp, trivial⟩
      · simp [interpA64Pieces, hB, interpA64Tail, interpA64Close, finalRes, idxTerms, hidx, hs, hso, h, h0, hf1, hf2, hf3]
    · apply read_of_pieces flags env m
        [(some '[', baseTok env m), (some ',', []), (some ' ', numTok (hasBit flags ffHexOffsets) (offVal m)), (some ']', []), (some '!', [])]
      · simp [pieces, hidx, hs, hso, h, h0, shiftShown, offPiecesOf]
      · simp only [TailOK]; exact ⟨by decide, hBc, by decide, by simp, by decide, hT, by decide, by simp, by decide, by simp, trivial⟩
      · simp [interpA64Pieces, hB, interpA64Tail, interpA64Close, finalRes, idxTerms, hidx, hs, hso, h, hTn, hTp, hf1, hf2, hf3]
  · apply read_of_pieces flags env m
      [(some '[', baseTok env m), (some ']', []), (some ',', []), (some ' ', numTok (hasBit flags ffHexOffsets) (offVal m))]
    · simp [pieces, hidx, hs, hso, h, shiftShown, offPiecesOf]
    · simp only [TailOK]; exact ⟨by decide, hBc, by decide, by simp, by decide, by simp, by decide, hT, trivial⟩
    · simp [interpA64Pieces, hB, interpA64Tail, interpA64Close, finalRes, idxTerms, hidx, hs, hso, h, hTn, hTp, hf1, hf2, hf3]

theorem uint_dec_clean_parse (n : Nat) (h : n < two64) :
    (∀ c ∈ uintStr n 10, isA64MemDelim c = false) ∧ parseDec (uintStr n 10) = some n :=
  ⟨uint_clean n 10 (Or.inl rfl), parseDec_uintStr n h⟩

/-- register-index forms: `[b, x]`, `[b, x ext]`, `[b, x ext n]` -/
theorem read_index_form (flags : Nat) (env : Env) (m : A64Mem) (wf : WFA64Mem env m) (t id : Nat)
    (hidx : m.index = some (t, id)) (h0 : offVal m = 0) (hmode : m.mode = 0) (hso : m.shiftOp < 14) (hs : m.shift < two64) :
    parseA64Mem env (a64FormatMem flags env m) = some (finalRes env m) := by
  obtain ⟨hB, hBc⟩ := base_read env m wf
  obtain ⟨hf1, hf2, hf3⟩ := baseRes_fields env m
  have hi := wf.index
  rw [hidx] at hi
  have hX := name_clean hi.like
  have hXn := name_not_number hi.like
  have hXr := hi.eq.1
  obtain ⟨hop, hopc⟩ := shiftop_facts m.shiftOp (by simp; exact hso)
  obtain ⟨hnc, hnp⟩ := uint_dec_clean_parse m.shift hs
  by_cases hsh : m.shift = 0
  · by_cases hz : m.shiftOp = 0
    · apply read_of_pieces flags env m
        [(some '[', baseTok env m), (some ',', []), (some ' ', armFormatRegister env t id), (some ']', [])]
      · simp [pieces, hidx, hsh, hz, hmode, h0, shiftShown, offPiecesOf]
      · simp only [TailOK]; exact ⟨by decide, hBc, by decide, by simp, by decide, hX, by decide, by simp, trivial⟩
      · simp [interpA64Pieces, hB, interpA64Tail, interpA64Shift, interpA64Close, finalRes, idxTerms, hidx, hsh, hz, hmode, h0,
          hXn, hXr, hf1, hf2, hf3]
    · apply read_of_pieces flags env m
        [(some '[', baseTok env m), (some ',', []), (some ' ', armFormatRegister env t id), (some ' ', armShiftOp m.shiftOp), (some ']', [])]
      · simp [pieces, hidx, hsh, hz, hmode, h0, shiftShown, offPiecesOf]
      · simp only [TailOK]
        exact ⟨by decide, hBc, by decide, by simp, by decide, hX, by decide, hopc, by decide, by simp, trivial⟩
      · simp [interpA64Pieces, hB, interpA64Tail, interpA64Shift, interpA64Close, finalRes, idxTerms, hidx, hsh, hmode, h0,
          hXn, hXr, hop, hf1, hf2, hf3]
  · apply read_of_pieces flags env m
      [(some '[', baseTok env m), (some ',', []), (some ' ', armFormatRegister env t id), (some ' ', armShiftOp m.shiftOp),
       (some ' ', uintStr m.shift), (some ']', [])]
    · simp [pieces, hidx, hsh, hmode, h0, shiftShown, offPiecesOf]
    · simp only [TailOK]
      exact ⟨by decide, hBc, by decide, by simp, by decide, hX, by decide, hopc, by decide, hnc, by decide, by simp, trivial⟩
    · simp [interpA64Pieces, hB, interpA64Tail, interpA64Shift, interpA64Close, finalRes, idxTerms, hidx, hmode, h0,
        hXn, hXr, hop, hnp, hf1, hf2, hf3]

/-- post-index by register: `[b], x` -/
theorem read_postreg_form (flags : Nat) (env : Env) (m : A64Mem) (wf : WFA64Mem env m) (t id : Nat)
    (hidx : m.index = some (t, id)) (h0 : offVal m = 0) (hmode : m.mode = 2) (hso : m.shiftOp = 0) (hs : m.shift = 0) :
    parseA64Mem env (a64FormatMem flags env m) = some (finalRes env m) := by
  obtain ⟨hB, hBc⟩ := base_read env m wf
  obtain ⟨hf1, hf2, hf3⟩ := baseRes_fields env m
  have hi := wf.index
  rw [hidx] at hi
  have hX := name_clean hi.like
  have hXn := name_not_number hi.like
  have hXr := hi.eq.1
  apply read_of_pieces flags env m
    [(some '[', baseTok env m), (some ']', []), (some ',', []), (some ' ', armFormatRegister env t id)]
  · simp [pieces, hidx, hs, hso, hmode, h0, shiftShown, offPiecesOf]
  · simp only [TailOK]; exact ⟨by decide, hBc, by decide, by simp, by decide, by simp, by decide, hX, trivial⟩
  · simp [interpA64Pieces, hB, interpA64Tail, interpA64Shift, interpA64Close, finalRes, idxTerms, hidx, hs, hso, hmode, h0,
      hXn, hXr, hf1, hf2, hf3]

theorem a64_mem_read (flags : Nat) (env : Env) (m : A64Mem) (wf : WFA64Mem env m) :
    parseA64Mem env (a64FormatMem flags env m) = some (finalRes env m) := by
  rcases wf.form with ⟨h1, h2, h3, h4⟩ | ⟨h1, h2, h3, h4, h5⟩ | ⟨h1, h2, h3, h4, h5⟩
  · exact read_offset_form flags env m wf h1 h2 h3 h4
  · cases hidx : m.index with
    | none => exact absurd hidx h1
    | some p => obtain ⟨t, id⟩ := p; exact read_index_form flags env m wf t id hidx h2 h3 h4 h5
  · cases hidx : m.index with
    | none => exact absurd hidx h1
    | some p => obtain ⟨t, id⟩ := p; exact read_postreg_form flags env m wf t id hidx h2 h3 h4 h5

theorem a64_mem_agrees (env : Env) (m : A64Mem) (wf : WFA64Mem env m) :
    memAgrees (denoteA64Mem env m) (finalRes env m) = true := by
  have hb := wf.base
  have hi := wf.index
  unfold memAgrees denoteA64Mem finalRes baseRes idxTerms offVal
  cases hbase : m.base with
  | none => rw [hbase] at hb; exact absurd hb id
  | label id =>
    cases hidx : m.index with
    | none => simp
    | some q => obtain ⟨t, i⟩ := q; rw [hidx] at hi; simp [hi.eq.2]
  | reg t id =>
    rw [hbase] at hb
    cases hidx : m.index with
    | none => simp [hb.eq.2]
    | some q => obtain ⟨t', i⟩ := q; rw [hidx] at hi; simp [hb.eq.2, hi.eq.2]

/-! ### physical AArch64 registers are readable names -/

set_option maxRecDepth 1000000 in
theorem a64_names_printed : ∀ p ∈ a64Regs, armFormatRegister { arch := .a64, labels := none, vregs := none } p.1 p.2.1 = p.2.2 := by
  decide +kernel
set_option maxRecDepth 1000000 in
theorem a64_names_read : ∀ p ∈ a64Regs, lookupName a64Regs p.2.2 = some (p.1, p.2.1) := by decide +kernel
set_option maxRecDepth 1000000 in
theorem a64_ids_small : ∀ p ∈ a64Regs, p.2.1 < 256 := by decide +kernel

theorem arm_reg_env (env : Env) (harch : env.arch = Arch.a64) (t id : Nat) (hs : id < 256) :
    armFormatRegister env t id = armFormatRegister { arch := .a64, labels := none, vregs := none } t id := by
  simp [armFormatRegister, armRegBase, virtLookup_small _ _ hs, harch]

theorem a64_phys_regOK (env : Env) (harch : env.arch = Arch.a64) (t id : Nat) (n : Str) (hp : (t, id, n) ∈ a64Regs) :
    RegOK env (armFormatRegister env t id) t id := by
  have hsmall := a64_ids_small _ hp
  have hvl := virtLookup_small env id hsmall
  have htxt : armFormatRegister env t id = n := by
    rw [arm_reg_env env harch t id hsmall]; exact a64_names_printed _ hp
  have harchregs : archRegs env = a64Regs := by unfold archRegs; rw [harch]
  rw [htxt]
  refine ⟨nameLike_of_B n (a64_names_like _ hp), .phys t id, ?_, ?_⟩
  · simp [parseReg, harchregs, a64_names_read _ hp]
  · simp [denoteReg, hvl, regAgrees]

end AsmjitVerif.Lemmas.FormatA64Mem
