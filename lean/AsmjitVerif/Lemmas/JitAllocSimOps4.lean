/- C09 refinement (model run ⊑ monitor): `JudgeOk` for write. -/
import AsmjitVerif.Lemmas.JitAllocSimTags
namespace AsmjitVerif.JitAlloc
open Spec

theorem writeMem_toGB (a : Alloc) (blk off size byte : Nat) : (a.writeMem blk off size byte).blocks.map toGB = a.blocks.map toGB := by
  simp only [Alloc.writeMem, Alloc.modifyBlock, List.map_map]
  apply List.map_congr_left
  intro y _
  simp only [Function.comp]
  split <;> rfl

theorem judge_write {g : Ghost} {s : St} (hS : Sim g s) (hG : Good s) (h byte : Nat) : JudgeOk g s (.write h byte) := by
  have hget := hS.getH h
  cases hx : g.tab[h]? with
  | none =>
    rw [hx] at hget
    simp only [Option.map_none] at hget
    exact ⟨g, by simp [step, judge, hget, hx], by simp only [step, hget]; exact hS⟩
  | some x =>
    rw [hx] at hget
    simp only [Option.map_some] at hget
    cases hl : x.live with
    | false =>
      have hl' : (toH x).live = false := hl
      exact ⟨g, by simp [step, judge, hget, hx, hl, hl'], by simp only [step, hget, hl']; exact hS⟩
    | true =>
      have hl' : (toH x).live = true := hl
      refine ⟨{ g with tab := setTab g.tab h fun x => { x with tag := some (byte % 256) } }, by simp [step, judge, hget, hx, hl, hl'], ?_⟩
      simp only [step, hget, hl', Bool.not_true, Bool.false_eq_true, if_false]
      have t := Trans.write (s := s) h (toH x) (byte % 256) hget hl'
      refine sim_update hS hG.inv hG.mem t rfl (by rw [setTab_map_tag]; exact hS.tab) (by rw [writeMem_toGB]; exact hS.blocks) ?_
      intro i x' hx' hlx'
      simp only [getElem?_setTab] at hx'
      cases hgi : g.tab[i]? with
      | none => rw [hgi] at hx'; simp at hx'
      | some y =>
        rw [hgi] at hx'
        simp only [Option.map_some, Option.some.injEq] at hx'
        by_cases c : i = h
        · subst c
          rw [hx] at hgi; cases hgi
          simp only [if_true] at hx'
          subst hx'
          exact ⟨x, rfl, hl, rfl, Or.inr ⟨byte % 256, rfl, rfl⟩⟩
        · simp only [c, if_false] at hx'
          subst hx'
          refine ⟨y, rfl, hlx', rfl, Or.inl ⟨?_, rfl⟩⟩
          intro b hb
          simp only [Option.some.injEq, Prod.mk.injEq] at hb
          exact c hb.1.symm

end AsmjitVerif.JitAlloc
