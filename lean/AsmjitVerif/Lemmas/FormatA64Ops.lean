/- C20 helper lemmas: AArch64 operands as comma items; the memory operand's two chunks; operand kinds read back. -/
import AsmjitVerif.Lemmas.FormatA64Line

namespace AsmjitVerif.Lemmas.FormatA64Line
open AsmjitVerif.Format AsmjitVerif.FormatText AsmjitVerif.Lemmas.FormatLex AsmjitVerif.Lemmas.FormatNum
open AsmjitVerif.Lemmas.FormatX86Mem AsmjitVerif.Lemmas.FormatA64Mem AsmjitVerif.Lemmas.FormatOpKinds

/-! ### the memory operand as one or two comma chunks -/

def hasItem (m : A64Mem) : Bool := m.index.isSome || decide (offVal m ≠ 0) || decide (m.mode = 2)

def openText (env : Env) (m : A64Mem) : Str := '[' :: (a64MemBaseText env m ++ (if m.mode = 2 then [']'] else []))
def itemText (flags : Nat) (env : Env) (m : A64Mem) : Str :=
  match m.index with
  | some (t, id) => armFormatRegister env t id
  | none => numTok (hasBit flags ffHexOffsets) (offVal m)
def closeText (m : A64Mem) : Str := a64MemShiftText m ++ (if m.mode ≠ 2 then [']'] else []) ++ (if m.mode = 1 then ['!'] else [])

theorem mem_split (flags : Nat) (env : Env) (m : A64Mem) (wf : WFA64Mem env m) :
    a64FormatMem flags env m =
      if hasItem m then openText env m ++ ',' :: ' ' :: (itemText flags env m ++ closeText m)
      else openText env m ++ closeText m := by
  have hoff : a64MemOffText flags m = a64MemOffTextOf flags m (offVal m) := rfl
  unfold a64FormatMem hasItem openText itemText closeText a64MemIndexText
  rw [hoff]
  unfold a64MemOffTextOf numTok
  rcases wf.form with ⟨h1, h2, h3, h4⟩ | ⟨h1, h2, h3, h4, h5⟩ | ⟨h1, h2, h3, h4, h5⟩
  · simp only [h1, Option.isSome_none, Bool.false_or, Option.isNone_none, and_true]
    by_cases hs : (offVal m ≠ 0 ∨ m.mode = 2)
    · have : (decide (offVal m ≠ 0) || decide (m.mode = 2)) = true := by simpa using hs
      simp [hs, this]
    · have : (decide (offVal m ≠ 0) || decide (m.mode = 2)) = false := by simpa using hs
      simp [hs, this]
  · cases hidx : m.index with
    | none => exact absurd hidx h1
    | some p => obtain ⟨t, id⟩ := p; simp [h2, h3]
  · cases hidx : m.index with
    | none => exact absurd hidx h1
    | some p => obtain ⟨t, id⟩ := p; simp [h2, h3]

/-! ### operands as items -/

def itemOf (flags : Nat) (env : Env) : Operand → Item
  | .a64mem m =>
    if hasItem m then .two (openText env m) (itemText flags env m ++ closeText m) else .one (openText env m ++ closeText m)
  | op => .one (a64FormatOperand flags env op)

/-- `[b]`: a memory operand of one chunk that is not closed by `!` (it must be the last operand) -/
def plainMem : Operand → Prop
  | .a64mem m => hasItem m = false ∧ m.mode ≠ 1
  | _ => False

structure OpOKA (flags : Nat) (env : Env) (op : Operand) : Prop where
  text : (itemOf flags env op).text = a64FormatOperand flags env op
  chunks : ∀ c ∈ (itemOf flags env op).chunks, c ≠ [] ∧ ',' ∉ c
  shape : match itemOf flags env op with
    | .two a _ => opensGroup a
    | .one s => ¬ opensGroup s ∨ plainMem op
  reads : ∃ r, parseA64Op env (a64FormatOperand flags env op) = some r ∧ opAgrees env op r = true

def rdOpA (flags : Nat) (env : Env) (op : Operand) : POp := (parseA64Op env (a64FormatOperand flags env op)).getD (.label 0)

theorem OpOKA.eq {flags : Nat} {env : Env} {op : Operand} (h : OpOKA flags env op) :
    parseA64Op env (a64FormatOperand flags env op) = some (rdOpA flags env op) ∧ opAgrees env op (rdOpA flags env op) = true := by
  obtain ⟨r, hr, ha⟩ := h.reads
  simp [rdOpA, hr, ha]

theorem like_nospace {t : Str} (h : NameLike t) : ∀ c ∈ t, notSpace c = true := by
  intro c hc
  have := (h.clean c hc).2.2.2.1
  simp [notSpace, this]

theorem like_heads {t : Str} (h : NameLike t) : t.head? ≠ some '[' ∧ t.head? ≠ some '{' := by
  cases t with
  | nil => simp
  | cons c r =>
    have hc := h.clean c (List.mem_cons_self ..)
    exact ⟨by simpa using hc.2.2.2.2.1, by simpa using hc.2.2.2.2.2.2.2.2.1⟩

theorem dropWhile_all' (p : Char → Bool) (t : Str) (h : ∀ c ∈ t, p c = true) : t.dropWhile p = [] ∧ t.takeWhile p = t := by
  have := takeWhile_append_stop p t [] h (Or.inl rfl)
  rw [List.append_nil] at this
  exact ⟨this.2, this.1⟩

/-- a plain (scalar) register operand -/
theorem reg_opOKA (flags : Nat) (env : Env) (t id : Nat) (h : RegOK env (armFormatRegister env t id) t id)
    (hdot : '.' ∉ armFormatRegister env t id) : OpOKA flags env (.reg t id 0 none) := by
  have htxt : a64FormatOperand flags env (.reg t id 0 none) = armFormatRegister env t id := rfl
  obtain ⟨hc, hb, hd, hm⟩ := like_facts h.like
  obtain ⟨hh1, hh2⟩ := like_heads h.like
  have hsp := dropWhile_all' notSpace _ (like_nospace h.like)
  have hbr := dropWhile_all' notOpenBracket (armFormatRegister env t id) (fun c hc' => by
    have : c ≠ '[' := fun e => hb (e ▸ hc'); simp [notOpenBracket, this])
  have hdt := dropWhile_all' notDot (armFormatRegister env t id) (fun c hc' => by
    have : c ≠ '.' := fun e => hdot (e ▸ hc'); simp [notDot, this])
  have hnum := AsmjitVerif.Lemmas.FormatA64Mem.name_not_number h.like
  refine ⟨rfl, ?_, ?_, POp.reg (rdReg env (armFormatRegister env t id)) none none, ?_, ?_⟩
  · intro c hcm
    simp only [itemOf, Item.chunks, List.mem_singleton] at hcm
    subst hcm
    rw [htxt]
    exact ⟨h.like.ne, fun hm' => (hc ',' hm').1 rfl⟩
  · simp only [itemOf]
    left
    rw [htxt]
    exact fun ho => hh1 ho.1
  · rw [htxt]
    simp [parseA64Op, hh1, hh2, hsp.1, parseA64Word, hnum, parseA64Reg, hbr.1, hbr.2, readElemIndex, hdt.1, h.eq.1]
  · simp [opAgrees, h.eq.2]

theorem shiftop_word_facts : ∀ k ∈ List.range 14,
    armShiftOp k ≠ [] ∧ shiftOpOfName (armShiftOp k) = some k ∧
    ∀ c ∈ armShiftOp k, notSpace c = true ∧ c ≠ ',' ∧ c ≠ '[' ∧ c ≠ '{' := by decide

theorem numTok_facts (hex : Bool) (u : Nat) :
    numTok hex u ≠ [] ∧ ∀ c ∈ numTok hex u, notSpace c = true ∧ c ≠ ',' ∧ c ≠ '[' ∧ c ≠ '{' :=
  ⟨numTok_ne hex u, numTok_chars (fun c => notSpace c = true ∧ c ≠ ',' ∧ c ≠ '[' ∧ c ≠ '{') (by decide) (by decide) (by decide) (by decide) hex u⟩

theorem head_of_chars (t : Str) (hne : t ≠ []) (P : Char → Prop) (h : ∀ c ∈ t, P c) : ∃ c r, t = c :: r ∧ P c := by
  cases t with
  | nil => exact absurd rfl hne
  | cons c r => exact ⟨c, r, rfl, h c (List.mem_cons_self ..)⟩

/-- an immediate, with or without shift/extend modifier (`12`, `-5`, `0xFF`, `lsl 12`, `uxtw 2`) -/
theorem imm_opOKA (flags : Nat) (env : Env) (u pred : Nat) (hu : u < two64) (hp : pred < 14) : OpOKA flags env (.imm u pred) := by
  obtain ⟨hNne, hNc⟩ := numTok_facts (hasBit flags ffHexImms) u
  have hNnum := AsmjitVerif.Lemmas.FormatA64Mem.isNumberTok_numTok (hasBit flags ffHexImms) u
  have hNp := parseNumber64_numTok (hasBit flags ffHexImms) u hu
  have hNsp := dropWhile_all' notSpace _ (fun c hc => (hNc c hc).1)
  obtain ⟨c0, r0, hN0, hc0⟩ := head_of_chars _ hNne _ hNc
  by_cases h0 : pred = 0
  · subst h0
    have htxt : a64FormatOperand flags env (.imm u 0) = numTok (hasBit flags ffHexImms) u := by
      simp [a64FormatOperand, imm_text flags u hu]
    have hh : (numTok (hasBit flags ffHexImms) u).head? ≠ some '[' ∧ (numTok (hasBit flags ffHexImms) u).head? ≠ some '{' := by
      rw [hN0]; exact ⟨by simpa using hc0.2.2.1, by simpa using hc0.2.2.2⟩
    refine ⟨rfl, ?_, ?_, .imm u 0, ?_, by simp [opAgrees, Nat.mod_eq_of_lt hu]⟩
    · intro c hcm
      simp only [itemOf, Item.chunks, List.mem_singleton] at hcm
      subst hcm; rw [htxt]
      exact ⟨hNne, fun hm => (hNc ',' hm).2.1 rfl⟩
    · simp only [itemOf]; left; rw [htxt]; exact fun ho => hh.1 ho.1
    · rw [htxt]
      simp [parseA64Op, hh.1, hh.2, hNsp.1, parseA64Word, hNnum, hNp]
  · obtain ⟨hSne, hSn, hSc⟩ := shiftop_word_facts pred (by simp; exact hp)
    obtain ⟨c1, r1, hS0, hc1⟩ := head_of_chars _ hSne _ hSc
    have htxt : a64FormatOperand flags env (.imm u pred) = armShiftOp pred ++ ' ' :: numTok (hasBit flags ffHexImms) u := by
      simp [a64FormatOperand, imm_text flags u hu, h0]
    have hh : (armShiftOp pred ++ ' ' :: numTok (hasBit flags ffHexImms) u).head? ≠ some '[' ∧
        (armShiftOp pred ++ ' ' :: numTok (hasBit flags ffHexImms) u).head? ≠ some '{' := by
      rw [hS0]; exact ⟨by simpa using hc1.2.2.1, by simpa using hc1.2.2.2⟩
    have hsplit := takeWhile_append_stop notSpace (armShiftOp pred) (' ' :: numTok (hasBit flags ffHexImms) u)
      (fun c hc => (hSc c hc).1) (Or.inr ⟨' ', _, rfl, by decide⟩)
    refine ⟨rfl, ?_, ?_, .imm u pred, ?_, by simp [opAgrees, Nat.mod_eq_of_lt hu]⟩
    · intro c hcm
      simp only [itemOf, Item.chunks, List.mem_singleton] at hcm
      subst hcm; rw [htxt]
      refine ⟨by simp, ?_⟩
      intro hm
      rcases List.mem_append.mp hm with e | e
      · exact (hSc ',' e).2.1 rfl
      · simp only [List.mem_cons] at e
        rcases e with e | e
        · exact absurd e (by decide)
        · exact (hNc ',' e).2.1 rfl
    · simp only [itemOf]; left; rw [htxt]; exact fun ho => hh.1 ho.1
    · rw [htxt]
      unfold parseA64Op
      rw [if_neg hh.1, if_neg hh.2, hsplit.2]
      simp only [hNnum, if_true, hsplit.1, hSn, Option.bind_some, h0, if_false, hNp, Option.map_some]

/-- a label operand: readable, and its text is not also a register reading (`parseA64Reg` = none: decidable no-collision) -/
theorem label_opOKA (flags : Nat) (env : Env) (id : Nat) (h : LabelOK env id)
    (hnr : parseA64Reg env (formatLabel env id) = none) : OpOKA flags env (.label id) := by
  have htxt : a64FormatOperand flags env (.label id) = formatLabel env id := rfl
  obtain ⟨hc, hb, hd, hm⟩ := like_facts h.like
  obtain ⟨hh1, hh2⟩ := like_heads h.like
  have hsp := dropWhile_all' notSpace _ (like_nospace h.like)
  have hnum := AsmjitVerif.Lemmas.FormatA64Mem.name_not_number h.like
  refine ⟨rfl, ?_, ?_, .label id, ?_, by simp [opAgrees]⟩
  · intro c hcm
    simp only [itemOf, Item.chunks, List.mem_singleton] at hcm
    subst hcm; rw [htxt]
    exact ⟨h.like.ne, fun hm' => (hc ',' hm').1 rfl⟩
  · simp only [itemOf]; left; rw [htxt]; exact fun ho => hh1 ho.1
  · rw [htxt]
    simp [parseA64Op, hh1, hh2, hsp.1, parseA64Word, hnum, hnr, h.reads]

/-! ### memory operands -/

theorem delim_facts {c : Char} (h : isA64MemDelim c = false) : c ≠ ',' ∧ c ≠ '!' := by
  constructor <;> (intro e; subst e; simp [isA64MemDelim] at h)

theorem open_chars (env : Env) (m : A64Mem) (wf : WFA64Mem env m) : ∀ c ∈ openText env m, c ≠ ',' ∧ c ≠ '!' := by
  obtain ⟨_, hBc⟩ := base_read env m wf
  intro c hc
  unfold openText at hc
  simp only [List.mem_cons, List.mem_append] at hc
  rcases hc with e | e | e
  · subst e; decide
  · exact delim_facts (hBc c e)
  · split at e
    · simp only [List.mem_singleton] at e; subst e; decide
    · simp at e

theorem shift_chars (m : A64Mem) (hso : m.shiftOp < 14) : ∀ c ∈ a64MemShiftText m, c ≠ ',' := by
  obtain ⟨_, hopc⟩ := shiftop_facts m.shiftOp (by simp; exact hso)
  intro c hc
  unfold a64MemShiftText at hc
  split at hc
  · simp only [List.mem_append, List.mem_singleton] at hc
    rcases hc with (e | e) | e
    · subst e; decide
    · split at e
      · exact (delim_facts (hopc c e)).1
      · simp at e
    · split at e
      · simp only [List.mem_append, List.mem_singleton] at e
        rcases e with e | e
        · subst e; decide
        · exact (delim_facts (uint_clean _ 10 (Or.inl rfl) c e)).1
      · simp at e
  · simp at hc

theorem close_chars (m : A64Mem) (hso : m.shiftOp < 14) : ∀ c ∈ closeText m, c ≠ ',' := by
  intro c hc
  unfold closeText at hc
  simp only [List.mem_append] at hc
  rcases hc with (e | e) | e
  · exact shift_chars m hso c e
  · split at e
    · simp only [List.mem_singleton] at e; subst e; decide
    · simp at e
  · split at e
    · simp only [List.mem_singleton] at e; subst e; decide
    · simp at e

theorem item_chars (flags : Nat) (env : Env) (m : A64Mem) (wf : WFA64Mem env m) :
    itemText flags env m ≠ [] ∧ ∀ c ∈ itemText flags env m, c ≠ ',' := by
  have hi := wf.index
  unfold itemText
  cases hidx : m.index with
  | none =>
    simp only
    exact ⟨numTok_ne _ _, fun c hc => (delim_facts (numTok_clean _ _ c hc)).1⟩
  | some p =>
    obtain ⟨t, id⟩ := p
    rw [hidx] at hi
    simp only
    exact ⟨hi.like.ne, fun c hc => (delim_facts (name_clean hi.like c hc)).1⟩

theorem form_shiftop (env : Env) (m : A64Mem) (wf : WFA64Mem env m) : m.shiftOp < 14 := by
  rcases wf.form with ⟨_, _, h, _⟩ | ⟨_, _, _, h, _⟩ | ⟨_, _, _, h, _⟩ <;> omega

theorem mem_opOKA (flags : Nat) (env : Env) (m : A64Mem) (wf : WFA64Mem env m) : OpOKA flags env (.a64mem m) := by
  have htxt : a64FormatOperand flags env (.a64mem m) = a64FormatMem flags env m := rfl
  have hso := form_shiftop env m wf
  have hO := open_chars env m wf
  have hC := close_chars m hso
  obtain ⟨hIne, hI⟩ := item_chars flags env m wf
  have hhead : (a64FormatMem flags env m).head? = some '[' := by unfold a64FormatMem; simp
  have hOne : openText env m ≠ [] := by unfold openText; simp
  have hOhead : (openText env m).head? = some '[' := by unfold openText; rfl
  refine ⟨?_, ?_, ?_, .mem (finalRes env m), ?_, ?_⟩
  · rw [htxt, mem_split flags env m wf]
    by_cases hi : hasItem m = true
    · simp only [itemOf, hi, if_true, Item.text]
    · have hi' : hasItem m = false := by simpa using hi
      simp only [itemOf, hi', Bool.false_eq_true, if_false, Item.text]
  · intro c hcm
    by_cases hi : hasItem m = true
    · simp only [itemOf, hi, if_true, Item.chunks, List.mem_cons, List.not_mem_nil, or_false] at hcm
      rcases hcm with e | e
      · subst e; exact ⟨hOne, fun hm => (hO ',' hm).1 rfl⟩
      · subst e
        refine ⟨by simp [hIne], ?_⟩
        intro hm
        rcases List.mem_append.mp hm with h | h
        · exact hI ',' h rfl
        · exact hC ',' h rfl
    · have hi' : hasItem m = false := by simpa using hi
      simp only [itemOf, hi', Bool.false_eq_true, if_false, Item.chunks, List.mem_singleton] at hcm
      subst hcm
      refine ⟨by simp [hOne], ?_⟩
      intro hm
      rcases List.mem_append.mp hm with h | h
      · exact (hO ',' h).1 rfl
      · exact hC ',' h rfl
  · by_cases hi : hasItem m = true
    · simp only [itemOf, hi, if_true]
      refine ⟨hOhead, ?_⟩
      intro hl
      have := List.mem_of_getLast? hl
      exact (hO '!' this).2 rfl
    · have hi' : hasItem m = false := by simpa using hi
      simp only [itemOf, hi', Bool.false_eq_true, if_false]
      by_cases h1 : m.mode = 1
      · left
        intro ho
        apply ho.2
        have e : openText env m ++ closeText m = (openText env m ++ a64MemShiftText m ++ [']']) ++ ['!'] := by
          simp [closeText, h1]
        rw [e, List.getLast?_concat]
      · right
        exact ⟨hi', h1⟩
  · rw [htxt]
    simp [parseA64Op, hhead, a64_mem_read flags env m wf]
  · simp only [opAgrees]; exact a64_mem_agrees env m wf

end AsmjitVerif.Lemmas.FormatA64Line
