/- C15 helper lemmas, part 3: fault accounting - failures are only consumed, an out-of-memory answer consumed one. -/
import AsmjitVerif.Lemmas.FaultRef
namespace AsmjitVerif.Fault
open AsmjitVerif
set_option maxHeartbeats 800000

theorem req_le (o o1 : Oracle) (b : Bool) (h : req o = (b, o1)) : faults o1 ≤ faults o := req_faults_le o o1 b h
theorem req_lt (o o1 : Oracle) (h : req o = (true, o1)) : faults o1 < faults o := req_true_faults o o1 h
theorem reserveAdd_le (o o1 : Oracle) (size cap n item c : Nat) (b : Bool)
    (h : reserveAdd o size cap n item = (o1, c, b)) : faults o1 ≤ faults o := (reserveAdd_faults _ _ _ _ _ _ _ _ h).1
theorem reserveAdd_lt (o o1 : Oracle) (size cap n item c : Nat)
    (h : reserveAdd o size cap n item = (o1, c, false)) : faults o1 < faults o := (reserveAdd_faults _ _ _ _ _ _ _ _ h).2 rfl

attribute [grind →] req_le req_lt reserveAdd_le reserveAdd_lt

theorem newSection_faults (o o' : Oracle) (s s' : St) (nm : List Nat) (al : Nat) (ord : Int) (e : Err)
    (h : newSection o s nm al ord = (o', s', e)) : faults o' ≤ faults o ∧ (e = .oom → faults o' < faults o) := by
  unfold newSection at h
  repeat' split at h
  all_goals (cases h; grind)

theorem ensureSpace_faults (o o1 : Oracle) (size cap n c : Nat) (b : Bool)
    (h : ensureSpace o size cap n = (o1, c, b)) : faults o1 ≤ faults o ∧ (b = false → faults o1 < faults o) := by
  unfold ensureSpace at h
  repeat' split at h
  all_goals (cases h; grind)
theorem ensureSpace_le (o o1 : Oracle) (size cap n c : Nat) (b : Bool)
    (h : ensureSpace o size cap n = (o1, c, b)) : faults o1 ≤ faults o := (ensureSpace_faults _ _ _ _ _ _ _ h).1
theorem ensureSpace_lt (o o1 : Oracle) (size cap n c : Nat)
    (h : ensureSpace o size cap n = (o1, c, false)) : faults o1 < faults o := (ensureSpace_faults _ _ _ _ _ _ _ h).2 rfl

theorem strReserve_faults (o o1 : Oracle) (size cap n c : Nat) (b : Bool)
    (h : strReserve o size cap n = (o1, c, b)) : faults o1 ≤ faults o ∧ (b = false → faults o1 < faults o) := by
  unfold strReserve at h
  repeat' split at h
  all_goals (cases h; grind)
theorem strReserve_le (o o1 : Oracle) (size cap n c : Nat) (b : Bool)
    (h : strReserve o size cap n = (o1, c, b)) : faults o1 ≤ faults o := (strReserve_faults _ _ _ _ _ _ _ h).1
theorem strReserve_lt (o o1 : Oracle) (size cap n c : Nat)
    (h : strReserve o size cap n = (o1, c, false)) : faults o1 < faults o := (strReserve_faults _ _ _ _ _ _ _ h).2 rfl

set_option maxRecDepth 100000 in
theorem hashInsert_le (o : Oracle) (c : Caps) (n : Nat) : faults (hashInsert o c n).1 ≤ faults o := by
  unfold hashInsert
  rcases hr : req o with ⟨b, o1⟩
  have hle := req_le _ _ _ hr
  cases b <;> (dsimp only; repeat' split) <;> first | exact Nat.le_refl _ | exact hle

attribute [grind →] ensureSpace_le ensureSpace_lt strReserve_le strReserve_lt

/-- shape of the fault accounting of one call: failures are only consumed, an out-of-memory answer consumed one -/
abbrev Acct (o o' : Oracle) (e : Err) : Prop := faults o' ≤ faults o ∧ (e = .oom → faults o' < faults o)

theorem newLabel_faults (o o' : Oracle) (s s' : St) (e : Err) (h : newLabel o s = (o', s', e)) : Acct o o' e := by
  unfold newLabel at h
  repeat' split at h
  all_goals (cases h; grind)

theorem newNamed_faults (o o' : Oracle) (s s' : St) (nm : List Nat) (t p : Nat) (e : Err)
    (h : newNamed o s nm t p = (o', s', e)) : Acct o o' e := by
  unfold newNamed at h
  repeat' split at h
  all_goals (first | (cases h; grind) | skip)
  all_goals (cases h)
  all_goals (refine ⟨Nat.le_trans (hashInsert_le _ _ _) ?_, by simp⟩; grind)

theorem newReloc_faults (o o' : Oracle) (s s' : St) (t : Nat) (e : Err) (h : newReloc o s t = (o', s', e)) : Acct o o' e := by
  unfold newReloc at h
  repeat' split at h
  all_goals (cases h; grind)

theorem exprTail_faults (s : St) (sc : Section) (cap1 : Nat) (r : Oracle × St × Err) (o0 o' : Oracle) (s' : St) (e : Err)
    (hr : Acct o0 r.1 r.2.2) (h : exprTail s sc cap1 r = (o', s', e)) : Acct o0 o' e := by
  obtain ⟨o2, s2, e2⟩ := r
  unfold exprTail at h
  simp only at h hr
  repeat' split at h
  all_goals (cases h; grind)

theorem exprReloc_faults (o o' : Oracle) (s s' : St) (e : Err) (h : exprReloc o s = (o', s', e)) : Acct o o' e := by
  unfold exprReloc at h
  repeat' split at h
  all_goals (first | (cases h; grind) | skip)
  rename_i hes
  have h1 := ensureSpace_le _ _ _ _ _ _ _ hes
  dsimp only at h
  generalize hnr : newReloc _ _ _ = r at h
  obtain ⟨o2, s2, e2⟩ := r
  have h2 := newReloc_faults _ _ _ _ _ _ hnr
  have := exprTail_faults _ _ _ (o2, s2, e2) _ _ _ _ h2 h
  grind

theorem newFixup_faults (o o' : Oracle) (s s' : St) (e : Err) (h : newFixup o s = (o', s', e)) : Acct o o' e := by
  unfold newFixup at h
  repeat' split at h
  all_goals (cases h; grind)

theorem freeFixup_faults (o o' : Oracle) (s s' : St) (e : Err) (h : freeFixup o s = (o', s', e)) : Acct o o' e := by
  unfold freeFixup at h
  repeat' split at h
  all_goals (cases h; grind)

theorem emit_faults (o o' : Oracle) (s s' : St) (a b : Nat) (e : Err) (h : emit o s a b = (o', s', e)) : Acct o o' e := by
  unfold emit at h
  repeat' split at h
  all_goals (cases h; grind)

theorem inst_faults (o o' : Oracle) (s s' : St) (a b : Nat) (e : Err) (h : inst o s a b = (o', s', e)) : Acct o o' e := by
  unfold inst at h
  repeat' split at h
  all_goals (cases h; grind)

theorem jmpf_faults (o o' : Oracle) (s s' : St) (a : Nat) (e : Err) (h : jmpf o s a = (o', s', e)) : Acct o o' e := by
  unfold jmpf at h
  repeat' split at h
  all_goals (cases h; grind)

theorem vappend_faults (o o' : Oracle) (s s' : St) (x : Nat) (e : Err) (h : vappend o s x = (o', s', e)) : Acct o o' e := by
  unfold vappend at h
  repeat' split at h
  all_goals (cases h; grind)

theorem vreserve_faults (o o' : Oracle) (s s' : St) (x : Nat) (e : Err) (h : vreserve o s x = (o', s', e)) : Acct o o' e := by
  unfold vreserve at h
  repeat' split at h
  all_goals (cases h; grind)

theorem sappend_faults (o o' : Oracle) (s s' : St) (a b : Nat) (e : Err) (h : sappend o s a b = (o', s', e)) : Acct o o' e := by
  unfold sappend at h
  repeat' split at h
  all_goals (cases h; grind)

/-- `new_section` with valid arguments answers ok or out of memory -/
theorem newSection_valid_err (o o1 : Oracle) (s s1 : St) (nm : List Nat) (al : Nat) (ord : Int) (e : Err)
    (hal : al = 0 ∨ isPow2 al = true) (hnm : nm.length ≤ 35)
    (h : newSection o s nm al ord = (o1, s1, e)) : e = .ok ∨ e = .oom := by
  by_cases he : e = .oom
  · right; exact he
  · left
    have := newSection_ref _ _ _ _ _ _ _ _ h he
    simp [specStep, hal, Nat.not_lt.mpr hnm] at this
    exact this.2

theorem ensureAddrTab_acct (o : Oracle) (s : St) :
    faults (ensureAddrTab o s).1 ≤ faults o ∧ ((ensureAddrTab o s).2.2 = none → faults (ensureAddrTab o s).1 < faults o) := by
  unfold ensureAddrTab
  split
  · simp
  · generalize hns : newSection o s _ 8 2147483647 = r
    obtain ⟨o1, s1, e⟩ := r
    have hacc := newSection_faults _ _ _ _ _ _ _ _ hns
    have hv := newSection_valid_err _ _ _ _ _ _ _ _ (Or.inr (by decide)) (by decide) hns
    unfold ensureTail
    rcases hv with rfl | rfl
    · simp; exact hacc.1
    · simp; exact ⟨hacc.1, hacc.2 rfl⟩

theorem addAddr_faults (o o' : Oracle) (s s' : St) (a : Nat) (e : Err) (h : addAddr o s a = (o', s', e)) : Acct o o' e := by
  unfold addAddr at h
  split at h
  · cases h; simp [Acct]
  · have hacc := ensureAddrTab_acct o s
    generalize ensureAddrTab o s = r at h hacc
    obtain ⟨o1, s1, oid⟩ := r
    unfold addAddrTail at h
    simp only at h hacc
    repeat' split at h
    all_goals (cases h; grind)

/-- fault accounting of every modelled operation -/
theorem step_faults (op : Op) (o o' : Oracle) (s s' : St) (e : Err) (h : step op o s = (o', s', e)) : Acct o o' e := by
  cases op <;> simp only [step] at h
  case newSection n a r => exact newSection_faults _ _ _ _ _ _ _ _ h
  case newLabel => exact newLabel_faults _ _ _ _ _ h
  case newNamed n t p => exact newNamed_faults _ _ _ _ _ _ _ _ h
  case newReloc t => exact newReloc_faults _ _ _ _ _ _ h
  case exprReloc => exact exprReloc_faults _ _ _ _ _ h
  case newFixup => exact newFixup_faults _ _ _ _ _ h
  case freeFixup => exact freeFixup_faults _ _ _ _ _ h
  case addAddr a => exact addAddr_faults _ _ _ _ _ _ h
  case emit a b => exact emit_faults _ _ _ _ _ _ _ h
  case inst a b => exact inst_faults _ _ _ _ _ _ _ h
  case jmpf a => exact jmpf_faults _ _ _ _ _ _ h
  case vappend x => exact vappend_faults _ _ _ _ _ _ h
  case vreserve n => exact vreserve_faults _ _ _ _ _ _ h
  case sappend n c => exact sappend_faults _ _ _ _ _ _ _ h

/-- refinement of every modelled operation -/
theorem step_ref (op : Op) (o o' : Oracle) (s s' : St) (e : Err) (h : step op o s = (o', s', e)) (he : e ≠ .oom) :
    (s'.v, e) = specStep op s.v := by
  cases op <;> simp only [step] at h
  case newSection n a r => exact newSection_ref _ _ _ _ _ _ _ _ h he
  case newLabel => exact newLabel_ref _ _ _ _ _ h he
  case newNamed n t p => exact newNamed_ref _ _ _ _ _ _ _ _ h he
  case newReloc t => exact newReloc_ref _ _ _ _ _ _ h he
  case exprReloc => exact exprReloc_ref _ _ _ _ _ h he
  case newFixup => exact newFixup_ref _ _ _ _ _ h he
  case freeFixup => exact freeFixup_ref _ _ _ _ _ h he
  case addAddr a => exact addAddr_ref _ _ _ _ _ _ h he
  case emit a b => exact emit_ref _ _ _ _ _ _ _ h he
  case inst a b => exact inst_ref _ _ _ _ _ _ _ h he
  case jmpf a => exact jmpf_ref _ _ _ _ _ _ h he
  case vappend x => exact vappend_ref _ _ _ _ _ _ h he
  case vreserve n => exact vreserve_ref _ _ _ _ _ _ h he
  case sappend n c => exact sappend_ref _ _ _ _ _ _ _ h he

end AsmjitVerif.Fault
