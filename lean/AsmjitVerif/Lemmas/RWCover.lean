/- helper lemmas about the monitor Spec/RWCover.lean -/
import AsmjitVerif.Spec.RWCover
namespace Lemmas.RWCover
open Spec.RWCover

/-- no operand is a written general-purpose register: the only clause of the monitor that looks at the mode is then idle -/
def noGpWrite (ds : List DbOp) : Bool := ds.all fun d => !(d.kind == 1 && d.gp && d.write)
theorem zextOk_mode_irrelevant (a b : Bool) (d : DbOp) (i : ImplOp) (h : (d.kind == 1 && d.gp && d.write) = false) :
    zextOk a d i = zextOk b d i := by simp [zextOk, h]
theorem opsOk_mode_irrelevant (l a b : Bool) : ∀ (ds : List DbOp) (is : List ImplOp), noGpWrite ds = true → opsOk l a ds is = opsOk l b ds is
  | [], [], _ => rfl
  | [], _ :: _, _ => rfl
  | _ :: _, [], _ => rfl
  | d :: ds, i :: is, h => by
    simp only [noGpWrite, List.all_cons, Bool.and_eq_true, Bool.not_eq_true'] at h
    have ih := opsOk_mode_irrelevant l a b ds is (by simpa [noGpWrite] using h.2)
    simp only [opsOk, opOk, ih, zextOk_mode_irrelevant a b d i h.1]

end Lemmas.RWCover
