/- C07 helper lemmas for the x86 prolog / epilog: single steps, the slot list of a frame, and the middle
part (everything between the `push` loop and the `pop` loop). -/
import AsmjitVerif.Lemmas.FrameSlots
import AsmjitVerif.Lemmas.FrameArith
namespace AsmjitVerif.Frame

theorem isSome_false_of_none {s : St} (h : s.ret = none) : s.ret.isSome = false := by rw [h]; rfl

theorem run_one (a : Arch) (i : Instr) (s s' : St) (h : step a i s = some s') : run a [i] s = some s' := by
  simp [run, h]

theorem run_opt (a : Arch) (c : Prop) [Decidable c] (i : Instr) (s s' : St) (h : c → step a i s = some s') :
    run a (if c then [i] else []) s = some (if c then s' else s) := by
  by_cases hc : c
  · simp [hc, run, h hc]
  · simp [hc, run]

theorem run_nops (a : Arch) (l : List Instr) (h : ∀ i ∈ l, ∃ n, i = Instr.nop n) (s : St) (hr : s.ret = none) :
    run a l s = some s := by
  induction l with
  | nil => rfl
  | cons i l ih =>
    obtain ⟨n, rfl⟩ := h i (by simp)
    have : step a (Instr.nop n) s = some s := by
      simp only [step, isSome_false_of_none hr, Bool.false_eq_true, if_false]
    simp only [run, this, Option.bind_some]
    exact ih (fun i hi => h i (List.mem_cons_of_mem _ hi))

theorem step_mov (a : Arch) (d r : Nat) (s : St) (hr : s.ret = none) :
    step a (Instr.mov d r) s = some (s.setGp d (s.gp r)) := by
  simp only [step, isSome_false_of_none hr, Bool.false_eq_true, if_false]

theorem step_sub (a : Arch) (r n : Nat) (s : St) (hr : s.ret = none) (h : n ≤ s.gp r) :
    step a (Instr.sub r (n : Int)) s = some (s.setGp r (s.gp r - n)) := by
  simp only [step, isSome_false_of_none hr, Bool.false_eq_true, if_false, addrOf_neg _ _ h, Option.map_some]

theorem step_add (a : Arch) (r n : Nat) (s : St) (hr : s.ret = none) :
    step a (Instr.add r (n : Int)) s = some (s.setGp r (s.gp r + n)) := by
  simp only [step, isSome_false_of_none hr, Bool.false_eq_true, if_false, addrOf_nat, Option.map_some]

theorem step_lea_neg (a : Arch) (d b n : Nat) (s : St) (hr : s.ret = none) (h : n ≤ s.gp b) :
    step a (Instr.lea d b (-(n : Int))) s = some (s.setGp d (s.gp b - n)) := by
  simp only [step, isSome_false_of_none hr, Bool.false_eq_true, if_false, addrOf_neg _ _ h, Option.map_some]

theorem spAccessOk_x86 (a : Arch) (h : a.isA64 = false) (s : St) (b : Nat) : spAccessOk a s b = true := by
  simp [spAccessOk, h]

theorem step_stGp (a : Arch) (ha : a.isA64 = false) (b off r : Nat) (s : St) (hr : s.ret = none) :
    step a (Instr.stGp b (off : Int) r) s = some { s with mem := storeBytes s.mem (s.gp b + off) a.W (s.gp r) } := by
  simp only [step, isSome_false_of_none hr, Bool.false_eq_true, if_false, spAccessOk_x86 a ha, Bool.not_true,
    addrOf_nat, Option.map_some]

theorem step_ldGp (a : Arch) (ha : a.isA64 = false) (d b off : Nat) (s : St) (hr : s.ret = none) :
    step a (Instr.ldGp d b (off : Int)) s = some (s.setGp d (loadBytes s.mem (s.gp b + off) a.W)) := by
  simp only [step, isSome_false_of_none hr, Bool.false_eq_true, if_false, spAccessOk_x86 a ha, Bool.not_true,
    addrOf_nat, Option.map_some]

/-- `and r, -2^k` at `n` bits clears the low `k` bits -/
theorem and_neg_pow2_n (n y k : Nat) (hy : y < 2 ^ n) (hk : k ≤ n) :
    y &&& (2 ^ n - 2 ^ k) = y - y % 2 ^ k := by
  have h : 2 ^ n - 2 ^ k = 2 ^ k * (2 ^ (n - k) - 1) := by
    rw [Nat.mul_sub, ← Nat.pow_add, Nat.mul_one]
    congr 2; omega
  have hr : y - y % 2 ^ k = 2 ^ k * (y / 2 ^ k) := by
    have := Nat.div_add_mod y (2 ^ k); omega
  apply Nat.eq_of_testBit_eq
  intro i
  rw [Nat.testBit_and, h, hr, Nat.testBit_two_pow_mul, Nat.testBit_two_pow_mul, Nat.testBit_two_pow_sub_one,
    Nat.testBit_div_two_pow]
  by_cases h1 : k ≤ i
  · by_cases h2 : i - k < n - k
    · simp [h1, h2]
    · have : y < 2 ^ i := Nat.lt_of_lt_of_le hy (Nat.pow_le_pow_right (by omega) (by omega))
      simp [h1, h2, Nat.testBit_lt_two_pow this]
  · simp [h1]

theorem immBits_neg (W A : Nat) (hW : W = 4 ∨ W = 8) (hA : 0 < A ∧ A ≤ 128) :
    immBits W (-(toI32 A)) = 2 ^ (8 * W) - A := by
  rw [toI32_small A (by omega)]
  unfold immBits
  rcases hW with h | h <;> subst h <;> simp only [Nat.reduceMul, Nat.reducePow] <;> omega

theorem step_and (a : Arch) (hW : a.W = 4 ∨ a.W = 8) (k : Nat) (hk : k ≤ 7) (s : St) (hr : s.ret = none)
    (hsp : s.gp 4 < 256 ^ a.W) :
    step a (Instr.andImm 4 (-(toI32 (2 ^ k)))) s = some (s.setGp 4 (s.gp 4 - s.gp 4 % 2 ^ k)) := by
  have hpk : 2 ^ k ≤ 128 := by
    have : 2 ^ k ≤ 2 ^ 7 := Nat.pow_le_pow_right (by omega) hk
    omega
  have h256 : 256 ^ a.W = 2 ^ (8 * a.W) := by
    rw [show (256 : Nat) = 2 ^ 8 by rfl, ← Nat.pow_mul]
  simp only [step, isSome_false_of_none hr, Bool.false_eq_true, if_false]
  rw [immBits_neg a.W (2 ^ k) hW ⟨Nat.two_pow_pos k, hpk⟩]
  rw [and_neg_pow2_n (8 * a.W) (s.gp 4) k (by rw [← h256]; exact hsp) (by omega)]

/-! ### the save slots of a frame -/

theorem xInfo_facts (f : Frame) :
    (xInfo f 1).group = 1 ∧ (xInfo f 1).size = 16 ∧ (xInfo f 1).aligned = f.alignedVecSR
    ∧ (xInfo f 2).group = 2 ∧ (xInfo f 2).size = 8 ∧ (xInfo f 2).aligned = false
    ∧ (xInfo f 3).group = 3 ∧ (xInfo f 3).size = 8 ∧ (xInfo f 3).aligned = false := by
  unfold xInfo xmmMov
  cases f.alignedVecSR <;> cases f.avx <;> simp [XMn.group, XMn.size, XMn.aligned]

/-- number of saved registers of a group -/
def Frame.nSaved (f : Frame) (g : Nat) : Nat := (bitsAsc (f.saved g) 32).length

theorem nSaved_le (f : Frame) (g : Nat) : f.nSaved g ≤ 32 := bitsAsc_length_le _ _

def xKeys (f : Frame) : List (Nat × Nat) :=
  (bitsAsc (f.saved 1) 32).map (fun id => (1, id)) ++ ((bitsAsc (f.saved 2) 32).map (fun id => (2, id))
    ++ (bitsAsc (f.saved 3) 32).map (fun id => (3, id)))

theorem xKeys_nodup (f : Frame) : (xKeys f).Nodup := by
  unfold xKeys
  have h (g : Nat) : ((bitsAsc (f.saved g) 32).map (fun id => (g, id))).Nodup := by
    rw [List.Nodup, List.pairwise_map]
    exact List.Pairwise.imp (fun hab h => hab (Prod.mk.inj h).2) (bitsAsc_nodup _ _)
  rw [List.nodup_append, List.nodup_append]
  refine ⟨h 1, ⟨h 2, h 3, ?_⟩, ?_⟩
  · intro x hx y hy
    rw [List.mem_map] at hx hy
    obtain ⟨_, _, rfl⟩ := hx
    obtain ⟨_, _, rfl⟩ := hy
    intro h; exact absurd (Prod.mk.inj h).1 (by decide)
  · intro x hx y hy
    rw [List.mem_map] at hx
    obtain ⟨_, _, rfl⟩ := hx
    rw [List.mem_append, List.mem_map, List.mem_map] at hy
    rcases hy with ⟨_, _, rfl⟩ | ⟨_, _, rfl⟩ <;> intro h <;> exact absurd (Prod.mk.inj h).1 (by decide)

theorem mem_xKeys (f : Frame) (g r : Nat) :
    (g, r) ∈ xKeys f ↔ (g = 1 ∨ g = 2 ∨ g = 3) ∧ r < 32 ∧ (f.saved g).testBit r = true := by
  unfold xKeys
  simp only [List.mem_append, List.mem_map, Prod.mk.injEq, mem_bitsAsc]
  constructor
  · rintro (⟨i, ⟨h1, h2⟩, rfl, rfl⟩ | ⟨i, ⟨h1, h2⟩, rfl, rfl⟩ | ⟨i, ⟨h1, h2⟩, rfl, rfl⟩) <;> simp [h1, h2]
  · rintro ⟨hg | hg | hg, h1, h2⟩ <;> subst hg
    · exact Or.inl ⟨r, ⟨h1, h2⟩, rfl, rfl⟩
    · exact Or.inr (Or.inl ⟨r, ⟨h1, h2⟩, rfl, rfl⟩)
    · exact Or.inr (Or.inr ⟨r, ⟨h1, h2⟩, rfl, rfl⟩)

theorem xSlots_spec (f : Frame) (hsmall : f.xOff < 2 ^ 30) :
    slotsAscending f.xOff (xSlots f)
    ∧ slotsEnd f.xOff (xSlots f) = f.xOff + (16 * f.nSaved 1 + 8 * f.nSaved 2 + 8 * f.nSaved 3)
    ∧ (xSlots f).map slotKey = xKeys f
    ∧ ∀ p ∈ xSlots f, f.xOff ≤ p.2.2 ∧ p.2.2 + p.1.size ≤ f.xOff + (16 * f.nSaved 1 + 8 * f.nSaved 2 + 8 * f.nSaved 3)
        ∧ (p.1.aligned = true → f.alignedVecSR = true ∧ ∃ i, p.2.2 = f.xOff + i * 16)
        ∧ p.1.size = (if p.1.group = 1 then 16 else 8) := by
  obtain ⟨g1, z1, l1, g2, z2, l2, g3, z3, l3⟩ := xInfo_facts f
  have n1 := nSaved_le f 1
  have n2 := nSaved_le f 2
  have n3 := nSaved_le f 3
  unfold Frame.nSaved at n1 n2 n3 ⊢
  obtain ⟨a1, a2, a3, a4⟩ := groupSlots_spec (xInfo f 1) (bitsAsc (f.saved 1) 32) f.xOff (by rw [z1]; omega)
  obtain ⟨b1, b2, b3, b4⟩ := groupSlots_spec (xInfo f 2) (bitsAsc (f.saved 2) 32)
    (f.xOff + 16 * (bitsAsc (f.saved 1) 32).length) (by rw [z2]; omega)
  obtain ⟨c1, c2, c3, c4⟩ := groupSlots_spec (xInfo f 3) (bitsAsc (f.saved 3) 32)
    (f.xOff + 16 * (bitsAsc (f.saved 1) 32).length + 8 * (bitsAsc (f.saved 2) 32).length) (by rw [z3]; omega)
  rw [z1] at a2 a4
  rw [z2] at b2 b4
  rw [z3] at c2 c4
  have e1 : slotsEnd f.xOff (groupSlots (xInfo f 1) (bitsAsc (f.saved 1) 32) f.xOff)
      = f.xOff + 16 * (bitsAsc (f.saved 1) 32).length := by rw [a2]; omega
  have e2 : slotsEnd (f.xOff + 16 * (bitsAsc (f.saved 1) 32).length)
      (groupSlots (xInfo f 2) (bitsAsc (f.saved 2) 32) (f.xOff + 16 * (bitsAsc (f.saved 1) 32).length))
      = f.xOff + 16 * (bitsAsc (f.saved 1) 32).length + 8 * (bitsAsc (f.saved 2) 32).length := by rw [b2]; omega
  unfold xSlots
  simp only
  refine ⟨?_, ?_, ?_, ?_⟩
  · apply slotsAscending_append
    · apply slotsAscending_append _ _ _ a1
      rw [e1]; exact b1
    · rw [slotsEnd_append, e1, e2]; exact c1
  · rw [slotsEnd_append, slotsEnd_append, e1, e2, c2]; omega
  · rw [List.map_append, List.map_append, a3, b3, c3, g1, g2, g3, List.append_assoc]; rfl
  · intro p hp
    rw [List.mem_append, List.mem_append] at hp
    rcases hp with (hp | hp) | hp
    · obtain ⟨q1, q2, q3, i, q4⟩ := a4 p hp
      rw [q1, z1, g1, l1]
      refine ⟨q2, by omega, fun h => ⟨h, i, by rw [q4]⟩, by simp⟩
    · obtain ⟨q1, q2, q3, i, q4⟩ := b4 p hp
      rw [q1, z2, g2, l2]
      refine ⟨by omega, by omega, fun h => absurd h (by simp), by simp⟩
    · obtain ⟨q1, q2, q3, i, q4⟩ := c4 p hp
      rw [q1, z3, g3, l3]
      refine ⟨by omega, by omega, fun h => absurd h (by simp), by simp⟩

end AsmjitVerif.Frame
