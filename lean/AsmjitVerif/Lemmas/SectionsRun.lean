/- Every operation preserves the table invariant; hence every reachable table satisfies it. -/
import AsmjitVerif.Lemmas.SectionsInv
namespace AsmjitVerif.Sections

theorem relocOne_keys (base atOffset : Nat) (st : RelocState) (re : Reloc) :
    AllRel SameKeys st.secs (relocOne base atOffset st re).1.secs := by
  unfold relocOne
  split
  · exact SameKeys.refl_all _
  · dsimp only
    split
    · exact SameKeys.refl_all _
    · split
      · exact modifySec_keys _ _ _ (fun s => ⟨rfl, rfl, rfl⟩)
      · split
        · exact SameKeys.refl_all _
        · rename_i ent _
          have hst1 : (if ent.slot.isNone then { st with entries := assignSlot st.entries re.payload st.count, count := st.count + 1 } else st : RelocState).secs = st.secs := by
            split <;> rfl
          split
          · rw [hst1]; exact SameKeys.refl_all _
          · split
            · rw [hst1]; exact SameKeys.refl_all _
            · dsimp only
              rw [hst1]
              exact modifySec_keys _ _ _ (fun s => ⟨rfl, rfl, rfl⟩)

theorem relocLoop_keys (base atOffset : Nat) (st : RelocState) (res : List Reloc) :
    AllRel SameKeys st.secs (relocLoop base atOffset st res).1.secs := by
  induction res generalizing st with
  | nil => exact SameKeys.refl_all _
  | cons re rest ih =>
    unfold relocLoop
    have h1 := relocOne_keys base atOffset st re
    split
    · rename_i st' heq
      rw [heq] at h1
      exact SameKeys.trans_all h1 (ih st')
    · rename_i st' e heq
      rw [heq] at h1
      exact h1

theorem relocate_keys (h : Holder) (base : Nat) : AllRel SameKeys h.secs (relocate h base).1.secs := by
  unfold relocate
  split
  · exact SameKeys.refl_all _
  · have hk := relocLoop_keys base (((h.addrTab.bind (findSec h.secs)).map (·.offset)).getD 0)
      { secs := h.secs, entries := h.entries, count := 0, table := zeros (((h.addrTab.bind (findSec h.secs)).map (·.vsize)).getD 0) } h.relocs
    dsimp only at hk ⊢
    split
    · rename_i st e heq
      rw [heq] at hk; exact hk
    · rename_i st heq
      rw [heq] at hk
      split
      · exact hk
      · split
        · exact SameKeys.trans_all hk (modifySec_keys _ _ _ (fun s => ⟨rfl, rfl, rfl⟩))
        · exact SameKeys.trans_all hk (modifySec_keys _ _ _ (fun s => ⟨rfl, rfl, rfl⟩))

theorem ensureAddrTab_inv (h : Holder) (hi : InvS h.secs) : InvS (ensureAddrTab h).1.secs := by
  unfold ensureAddrTab
  split
  · exact hi
  · have := newSection_inv h ".addrtab" 8 2147483647 (by omega) hi
    split
    · rename_i h' id heq; rw [heq] at this; exact this
    · rename_i h' e heq; rw [heq] at this; exact this

theorem addAddress_inv (h : Holder) (addr : Nat) (hi : InvS h.secs) : InvS (addAddress h addr).secs := by
  unfold addAddress
  split
  · exact hi
  · simp only []
    exact InvS.transfer (modifySec_keys _ _ _ (fun s => ⟨rfl, rfl, rfl⟩)) (ensureAddrTab_inv h hi)

theorem init_inv : InvS init.secs := by
  refine ⟨?_, ?_, ?_, ?_⟩
  · simp [init, OrderSorted]
  · simp [init, textSection]
  · simp [init]
  · exact ⟨textSection, [], rfl, rfl, rfl, rfl, by simp⟩

/-- a reused holder carries the table of a fresh one -/
theorem reinit_eq_init (h : Holder) : reinit h = init := rfl

theorem step_inv (h : Holder) (op : Op) (hi : InvS h.secs) : InvS (step h op).secs := by
  cases op with
  | newSection n a o =>
    exact newSection_inv h n a o.toInt (by have := BitVec.le_toInt o; simp at this; omega) hi
  | appendData id b =>
    simp only [step]; unfold appendData
    split
    · exact hi
    · exact InvS.transfer (modifySec_keys _ _ _ (fun s => ⟨rfl, rfl, rfl⟩)) hi
  | setVsize id v =>
    simp only [step]; unfold setVsize
    split
    · exact hi
    · exact InvS.transfer (modifySec_keys _ _ _ (fun s => ⟨rfl, rfl, rfl⟩)) hi
  | addAddress a => exact addAddress_inv h _ hi
  | emitCall id j a =>
    simp only [step]; unfold emitCall
    split
    · exact hi
    · exact InvS.transfer (modifySec_keys _ _ _ (fun s => ⟨rfl, rfl, rfl⟩)) (addAddress_inv h _ hi)
  | flatten =>
    simp only [step]; unfold flatten
    split
    · exact InvS.transfer (assign_keys 0 h.secs) hi
    · exact hi
  | relocate b => exact InvS.transfer (relocate_keys h b) hi
  | reinit => exact init_inv

theorem run_inv (ops : List Op) : InvS (run ops).secs := by
  unfold run
  suffices ∀ h, InvS h.secs → InvS (ops.foldl step h).secs from this init init_inv
  induction ops with
  | nil => intro h hi; exact hi
  | cons op rest ih => intro h hi; exact ih _ (step_inv h op hi)

end AsmjitVerif.Sections
