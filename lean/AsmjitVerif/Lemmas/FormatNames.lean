/- C20 helper lemmas: anonymous labels and virtual registers are readable names (instances of LabelOK / RegOK). -/
import AsmjitVerif.Lemmas.FormatLabels

namespace AsmjitVerif.Lemmas.FormatNames
open AsmjitVerif.Format AsmjitVerif.FormatText AsmjitVerif.Lemmas.FormatLex AsmjitVerif.Lemmas.FormatNum
open AsmjitVerif.Lemmas.FormatX86Mem AsmjitVerif.Lemmas.FormatLabels
open AsmjitVerif.Gen.FormatTabs

set_option maxRecDepth 1000000

theorem lookupName_none (tbl : List (Nat × Nat × Str)) (s : Str) (h : ∀ p ∈ tbl, p.2.2 ≠ s) : lookupName tbl s = none := by
  unfold lookupName
  have : tbl.find? (fun x => match x with | (_, _, n) => n == s) = none := by
    rw [List.find?_eq_none]
    intro p hp
    obtain ⟨t, i, n⟩ := p
    simpa using h (t, i, n) hp
  rw [this]; rfl

theorem arch_names_chars : ∀ p ∈ x86Regs ++ a64Regs, '@' ∉ p.2.2 ∧ '%' ∉ p.2.2 ∧ p.2.2.head? ≠ some 'L' := by decide +kernel

theorem archRegs_sub (env : Env) : ∀ p ∈ archRegs env, p ∈ x86Regs ++ a64Regs := by
  intro p hp
  unfold archRegs at hp
  cases h : env.arch <;> simp_all

theorem lookup_arch_none_of_char (env : Env) (s : Str) (c : Char) (hc : c = '@' ∨ c = '%') (hs : c ∈ s) :
    lookupName (archRegs env) s = none := by
  apply lookupName_none
  intro p hp e
  have := arch_names_chars p (archRegs_sub env p hp)
  rcases hc with h | h <;> subst h <;> rw [e] at this
  · exact this.1 hs
  · exact this.2.1 hs

theorem dec_digit_clean : ∀ d : Fin 10, cleanChar (digitChar d.val) = true := by decide

theorem uint_cleanChar (n : Nat) : ∀ c ∈ uintStr n 10, cleanChar c = true := by
  unfold uintStr
  exact digitsLoop_chars 10 (fun c => cleanChar c = true) (by omega) (fun d hd => dec_digit_clean ⟨d, hd⟩) 64 n

theorem nameLike_of_parts (t : Str) (hne : t ≠ []) (hc : ∀ c ∈ t, cleanChar c = true) (hd : startsWithDigit t = false)
    (ha : t.head? ≠ some '&') : NameLike t := by
  apply nameLike_of_B
  have hall : t.all cleanChar = true := by simp only [List.all_eq_true]; exact hc
  have hemp : t.isEmpty = false := by cases t <;> simp_all
  simp [nameLikeB, hall, hemp, hd, ha]

theorem cleanChar_of_like {t : Str} (h : NameLike t) : ∀ c ∈ t, cleanChar c = true := by
  intro c hc
  obtain ⟨a1, a2, a3, a4, a5, a6, a7, a8, a9, a10⟩ := h.clean c hc
  simp [cleanChar, a1, a2, a3, a4, a5, a6, a7, a8, a9, a10]

/-! ### anonymous labels -/

theorem anon_like (id : Nat) : NameLike ('L' :: uintStr id 10) := by
  apply nameLike_of_parts
  · simp
  · intro c hc
    simp only [List.mem_cons] at hc
    rcases hc with e | e
    · subst e; decide
    · exact uint_cleanChar id c e
  · rfl
  · simp

theorem virtIndex_none (env : Env) (s : Str) (hp : s.head? ≠ some '%') (hv : ∀ v ∈ env.vregs.getD [], v.name ≠ s) :
    virtIndexByName env s = none := by
  unfold virtIndexByName
  split
  · simp at hp
  · rw [List.find?_eq_none]
    intro i _
    cases hi : (env.vregs.getD [])[i]? with
    | none => simp
    | some v =>
      have hm : v ∈ env.vregs.getD [] := List.mem_of_getElem? hi
      have := hv v hm
      simp [this]

/-- an anonymous label `L<id>` is a name, is no register, and reads back — provided no virtual register was given that very name -/
theorem anon_noreg (env : Env) (id : Nat) (hv : ∀ v ∈ env.vregs.getD [], v.name ≠ 'L' :: uintStr id 10) :
    parseReg env ('L' :: uintStr id 10) = none := by
  have h1 : lookupName (archRegs env) ('L' :: uintStr id 10) = none := by
    apply lookupName_none
    intro p hp e
    have := (arch_names_chars p (archRegs_sub env p hp)).2.2
    rw [e] at this
    simp at this
  simp [parseReg, h1, splitAt_none '@' _ (L_no_at id), virtIndex_none env _ (by simp) hv]

theorem anon_labelOK (env : Env) (id : Nat) (hid : id < two64)
    (hanon : env.labels = none ∨ ∃ ls le, env.labels = some ls ∧ ls[id]? = some le ∧ le.name = [])
    (hv : ∀ v ∈ env.vregs.getD [], v.name ≠ 'L' :: uintStr id 10) : LabelOK env id := by
  have htext : formatLabel env id = 'L' :: uintStr id 10 := by
    rcases hanon with h | ⟨ls, le, h1, h2, h3⟩
    · simp [formatLabel, h]
    · simp [formatLabel, h1, h2, h3]
  have hread : parseLabel env (formatLabel env id) = some id := by
    rcases hanon with h | ⟨ls, le, h1, h2, h3⟩
    · exact label_read_nocode env id h hid
    · exact label_read env ls id le h1 ⟨h2, hid, Or.inl h3⟩
  refine ⟨?_, ?_, hread⟩
  · rw [htext]; exact anon_like id
  · rw [htext]; exact anon_noreg env id hv

/-- any label the table describes (all five printed forms): readable as soon as its text is name-like and is no register's name -/
theorem labelOK_of_wf (env : Env) (ls : List LabelEntry) (id : Nat) (le : LabelEntry) (hl : env.labels = some ls)
    (wf : LabelWF ls id le) (hlike : nameLikeB (formatLabel env id) = true) (hnoreg : parseReg env (formatLabel env id) = none) :
    LabelOK env id :=
  ⟨nameLike_of_B _ hlike, hnoreg, label_read env ls id le hl wf⟩

/-! ### virtual registers -/

theorem type_suffix_facts : ∀ t ∈ List.range 32, x86TypeIndex t ≠ 0 →
    (∀ c ∈ cstrAt x86TypeStrings (x86TypeIndex t), cleanChar c = true) ∧
    x86TypeOfName (cstrAt x86TypeStrings (x86TypeIndex t)) = some t := by decide +kernel

theorem virtLookup_some (env : Env) (id : Nat) (v : VirtReg) (idx : Nat) (h : virtLookup env id = some (v, idx)) :
    (env.vregs.getD [])[idx]? = some v ∧ idx < (env.vregs.getD []).length := by
  unfold virtLookup at h
  split at h
  · cases hv : env.vregs with
    | none => simp [hv] at h
    | some vs =>
      simp only [hv, Option.map_eq_some_iff, Prod.mk.injEq] at h
      obtain ⟨a, ha, rfl, rfl⟩ := h
      simp only [Option.getD_some]
      exact ⟨ha, (List.getElem?_eq_some_iff.mp ha).1⟩
  · simp at h

/-- the name part of a virtual register: its own name, or `%<index>` -/
structure VirtNameOK (env : Env) (v : VirtReg) (idx : Nat) : Prop where
  small : idx < two64
  named : v.name = [] ∨
    (NameLike v.name ∧ '@' ∉ v.name ∧ v.name.head? ≠ some '%' ∧ lookupName (archRegs env) v.name = none ∧
     virtIndexByName env v.name = some idx)

theorem virt_name_facts (env : Env) (id : Nat) (v : VirtReg) (idx : Nat) (hv : virtLookup env id = some (v, idx))
    (ok : VirtNameOK env v idx) :
    NameLike (formatVirtRegName v idx) ∧ '@' ∉ formatVirtRegName v idx ∧
    lookupName (archRegs env) (formatVirtRegName v idx) = none ∧ virtIndexByName env (formatVirtRegName v idx) = some idx := by
  obtain ⟨hget, hlen⟩ := virtLookup_some env id v idx hv
  unfold formatVirtRegName
  rcases ok.named with h0 | ⟨hl, hat, hpc, hlk, hvi⟩
  · simp only [h0, List.length_nil, ne_eq, not_true_eq_false, if_false]
    refine ⟨?_, ?_, ?_, ?_⟩
    · apply nameLike_of_parts
      · simp
      · intro c hc
        simp only [List.mem_cons] at hc
        rcases hc with e | e
        · subst e; decide
        · exact uint_cleanChar idx c e
      · rfl
      · simp
    · intro h
      simp only [List.mem_cons] at h
      rcases h with e | e
      · exact absurd e (by decide)
      · exact (uint_dec_chars idx _ e).2.2.1 rfl
    · exact lookup_arch_none_of_char env _ '%' (Or.inr rfl) (List.mem_cons_self ..)
    · have hall : (uintStr idx 10).all Char.isDigit = true := by
        simp only [List.all_eq_true]; intro c hc; exact (uint_dec_chars idx c hc).1
      have hne : (uintStr idx 10).isEmpty = false := by
        have := digitsLoop_ne_nil 10 63 idx
        unfold uintStr; cases h : digitsLoop 10 64 idx [] <;> simp_all
      have hge : (env.vregs.getD [])[idx]'hlen = v := (List.getElem?_eq_some_iff.mp hget).2
      simp [virtIndexByName, hall, hne, parseDec_uintStr idx ok.small, hlen, hget, h0, hge]
  · have hlen' : v.name.length ≠ 0 := by
      have := hl.ne; cases h : v.name <;> simp_all
    simp only [hlen', ne_eq, not_false_eq_true, if_true]
    exact ⟨hl, hat, hlk, hvi⟩

/-- x86: a valid virtual register — plain, `%index`, and with the `@type` suffix of kRegType / kRegCasts — is a readable name -/
theorem x86_virt_regOK (flags : Nat) (env : Env) (t id : Nat) (v : VirtReg) (idx : Nat)
    (hv : virtLookup env id = some (v, idx)) (ok : VirtNameOK env v idx) (ht : t ≤ 31) :
    RegOK env (x86FormatRegister flags env t id) t id := by
  obtain ⟨hlike, hat, hlk, hvi⟩ := virt_name_facts env id v idx hv ok
  have hden : denoteReg env t id = .virt idx (some t) := by simp [denoteReg, hv]
  unfold x86FormatRegister
  simp only [hv]
  split
  · rename_i hs
    obtain ⟨hsc, hsn⟩ := type_suffix_facts t (by simp; omega) hs.2.2
    refine ⟨?_, .virt idx (some t), ?_, by simp [hden, regAgrees]⟩
    · apply nameLike_of_parts
      · have := hlike.ne; simp [this]
      · intro c hc
        simp only [List.mem_append, List.mem_cons] at hc
        rcases hc with e | e | e
        · exact cleanChar_of_like hlike c e
        · subst e; decide
        · exact hsc c e
      · have := hlike.nodigit
        cases hn : formatVirtRegName v idx with
        | nil => exact absurd hn hlike.ne
        | cons c r => rw [hn] at this; simpa [startsWithDigit] using this
      · have := hlike.noamp
        cases hn : formatVirtRegName v idx with
        | nil => exact absurd hn hlike.ne
        | cons c r => rw [hn] at this; simpa using this
    · have h1 : lookupName (archRegs env) (formatVirtRegName v idx ++ '@' :: cstrAt x86TypeStrings (x86TypeIndex t)) = none :=
        lookup_arch_none_of_char env _ '@' (Or.inl rfl) (by simp)
      simp [parseReg, h1, splitAt_append '@' _ _ hat, hvi, hsn]
  · simp only [List.append_nil]
    refine ⟨hlike, .virt idx none, ?_, by simp [hden, regAgrees]⟩
    simp [parseReg, hlk, splitAt_none '@' _ hat, hvi]

/-- AArch64: a valid virtual register (scalar form) is a readable name -/
theorem a64_virt_regOK (env : Env) (t id : Nat) (v : VirtReg) (idx : Nat)
    (hv : virtLookup env id = some (v, idx)) (ok : VirtNameOK env v idx) :
    RegOK env (armFormatRegister env t id) t id := by
  obtain ⟨hlike, hat, hlk, hvi⟩ := virt_name_facts env id v idx hv ok
  have hden : denoteReg env t id = .virt idx (some t) := by simp [denoteReg, hv]
  have htxt : armFormatRegister env t id = formatVirtRegName v idx := by
    simp [armFormatRegister, armRegBase, hv]
  rw [htxt]
  refine ⟨hlike, .virt idx none, ?_, by simp [hden, regAgrees]⟩
  simp [parseReg, hlk, splitAt_none '@' _ hat, hvi]

end AsmjitVerif.Lemmas.FormatNames
