/- Block-level invariant of the JIT allocator (C09) and its preservation by every block operation. -/
import AsmjitVerif.Lemmas.JitAllocBits
namespace AsmjitVerif.JitAlloc

/-- What the two bit vectors of a block contain, against the set `S` of spans the caller holds in it (`S s n`: a live span of `n`
granules starts at granule `s`). -/
structure BCore (b : Block) (S : Nat → Nat → Prop) : Prop where
  area : 0 < b.areaSize
  lenU : b.used.length = b.areaSize
  lenS : b.stop.length = b.areaSize
  used : ∀ i, i < b.areaSize → (bit b.used i = true ↔ (b.pad = true ∧ i = 0) ∨ ∃ s n, S s n ∧ s ≤ i ∧ i < s + n)
  stop : ∀ i, i < b.areaSize → (bit b.stop i = true ↔ (b.pad = true ∧ i = 0) ∨ ∃ s n, S s n ∧ i + 1 = s + n)
  inside : ∀ s n, S s n → b.padN ≤ s ∧ 0 < n ∧ s + n ≤ b.areaSize
  disj : ∀ s n s' n', S s n → S s' n' → (s = s' ∧ n = n') ∨ s + n ≤ s' ∨ s' + n' ≤ s

/-- Invariant of one block: the bit vectors (`BCore`) and the meaning of kFlagIncremental (`incr`). -/
structure BInv (b : Block) (S : Nat → Nat → Prop) : Prop extends BCore b S where
  incr : b.incremental = true → b.searchStart ≤ b.areaSize ∧ (∀ i, b.searchStart ≤ i → bit b.used i = false) ∧
           b.largest = b.areaSize - b.searchStart ∧ b.areaUsed = b.searchStart

theorem BCore.of_eq {b b' : Block} {S} (h : BCore b S) (h1 : b'.areaSize = b.areaSize) (h2 : b'.used = b.used)
    (h3 : b'.stop = b.stop) (h4 : b'.pad = b.pad) : BCore b' S := by
  have h5 : b'.padN = b.padN := by simp [Block.padN, h4]
  exact ⟨h1 ▸ h.area, by rw [h1, h2]; exact h.lenU, by rw [h1, h3]; exact h.lenS, by rw [h1, h2, h4]; exact h.used,
    by rw [h1, h3, h4]; exact h.stop, by rw [h1, h5]; exact h.inside, h.disj⟩

theorem BInv.congr {b : Block} {S S' : Nat → Nat → Prop} (h : BInv b S) (e : ∀ s n, S s n ↔ S' s n) : BInv b S' := by
  have : S = S' := by funext s n; exact propext (e s n)
  exact this ▸ h

theorem padN_le_one (b : Block) : b.padN ≤ 1 := by unfold Block.padN; split <;> omega
theorem padN_pos (b : Block) (h : b.pad = true) : b.padN = 1 := by simp [Block.padN, h]
theorem padN_zero (b : Block) (h : b.pad = false) : b.padN = 0 := by simp [Block.padN, h]

/-! ### field projections of the block operations -/

@[simp] theorem markAllocated_used (b : Block) (s e : Nat) : (b.markAllocated s e).used = setRange b.used s e true := by
  unfold Block.markAllocated; simp only; split <;> rfl
@[simp] theorem markAllocated_stop (b : Block) (s e : Nat) : (b.markAllocated s e).stop = b.stop.set (e - 1) true := by
  unfold Block.markAllocated; simp only; split <;> rfl
@[simp] theorem markAllocated_areaSize (b : Block) (s e : Nat) : (b.markAllocated s e).areaSize = b.areaSize := by
  unfold Block.markAllocated; simp only; split <;> rfl
@[simp] theorem markAllocated_pad (b : Block) (s e : Nat) : (b.markAllocated s e).pad = b.pad := by
  unfold Block.markAllocated; simp only; split <;> rfl
@[simp] theorem markAllocated_id (b : Block) (s e : Nat) : (b.markAllocated s e).id = b.id := by
  unfold Block.markAllocated; simp only; split <;> rfl
@[simp] theorem markAllocated_pool (b : Block) (s e : Nat) : (b.markAllocated s e).pool = b.pool := by
  unfold Block.markAllocated; simp only; split <;> rfl
@[simp] theorem markAllocated_blockSize (b : Block) (s e : Nat) : (b.markAllocated s e).blockSize = b.blockSize := by
  unfold Block.markAllocated; simp only; split <;> rfl
@[simp] theorem markAllocated_areaUsed (b : Block) (s e : Nat) : (b.markAllocated s e).areaUsed = b.areaUsed + (e - s) := by
  unfold Block.markAllocated; simp only; split <;> rfl
@[simp] theorem markAllocated_padN (b : Block) (s e : Nat) : (b.markAllocated s e).padN = b.padN := by
  simp [Block.padN]

@[simp] theorem markReleased_used (b : Block) (s e : Nat) : (b.markReleased s e).used = setRange b.used s e false := by
  unfold Block.markReleased; simp only; repeat (first | rfl | split)
@[simp] theorem markReleased_stop (b : Block) (s e : Nat) : (b.markReleased s e).stop = b.stop.set (e - 1) false := by
  unfold Block.markReleased; simp only; repeat (first | rfl | split)
@[simp] theorem markReleased_areaSize (b : Block) (s e : Nat) : (b.markReleased s e).areaSize = b.areaSize := by
  unfold Block.markReleased; simp only; repeat (first | rfl | split)
@[simp] theorem markReleased_pad (b : Block) (s e : Nat) : (b.markReleased s e).pad = b.pad := by
  unfold Block.markReleased; simp only; repeat (first | rfl | split)
@[simp] theorem markReleased_id (b : Block) (s e : Nat) : (b.markReleased s e).id = b.id := by
  unfold Block.markReleased; simp only; repeat (first | rfl | split)
@[simp] theorem markReleased_pool (b : Block) (s e : Nat) : (b.markReleased s e).pool = b.pool := by
  unfold Block.markReleased; simp only; repeat (first | rfl | split)
@[simp] theorem markReleased_blockSize (b : Block) (s e : Nat) : (b.markReleased s e).blockSize = b.blockSize := by
  unfold Block.markReleased; simp only; repeat (first | rfl | split)
@[simp] theorem markReleased_areaUsed (b : Block) (s e : Nat) : (b.markReleased s e).areaUsed = b.areaUsed - (e - s) := by
  unfold Block.markReleased; simp only; repeat (first | rfl | split)
@[simp] theorem markReleased_padN (b : Block) (s e : Nat) : (b.markReleased s e).padN = b.padN := by
  simp [Block.padN]

@[simp] theorem markShrunk_used (b : Block) (s e : Nat) : (b.markShrunk s e).used = setRange b.used s e false := by
  unfold Block.markShrunk; simp only; split <;> rfl
@[simp] theorem markShrunk_stop (b : Block) (s e : Nat) : (b.markShrunk s e).stop = (b.stop.set (e - 1) false).set (s - 1) true := by
  unfold Block.markShrunk; simp only; split <;> rfl
@[simp] theorem markShrunk_areaSize (b : Block) (s e : Nat) : (b.markShrunk s e).areaSize = b.areaSize := by
  unfold Block.markShrunk; simp only; split <;> rfl
@[simp] theorem markShrunk_pad (b : Block) (s e : Nat) : (b.markShrunk s e).pad = b.pad := by
  unfold Block.markShrunk; simp only; split <;> rfl
@[simp] theorem markShrunk_id (b : Block) (s e : Nat) : (b.markShrunk s e).id = b.id := by
  unfold Block.markShrunk; simp only; split <;> rfl
@[simp] theorem markShrunk_pool (b : Block) (s e : Nat) : (b.markShrunk s e).pool = b.pool := by
  unfold Block.markShrunk; simp only; split <;> rfl
@[simp] theorem markShrunk_blockSize (b : Block) (s e : Nat) : (b.markShrunk s e).blockSize = b.blockSize := by
  unfold Block.markShrunk; simp only; split <;> rfl
@[simp] theorem markShrunk_areaUsed (b : Block) (s e : Nat) : (b.markShrunk s e).areaUsed = b.areaUsed - (e - s) := by
  unfold Block.markShrunk; simp only; split <;> rfl
@[simp] theorem markShrunk_padN (b : Block) (s e : Nat) : (b.markShrunk s e).padN = b.padN := by
  simp [Block.padN]

/-! ### preservation by the block operations -/


theorem BInv.clear (b : Block) (h : 0 < b.areaSize) : BInv b.clear (fun _ _ => False) := by
  refine ⟨⟨h, by simp [Block.clear], by simp [Block.clear], ?_, ?_, by simp, by simp⟩, ?_⟩
  · intro i hi
    simp [Block.clear, bit_replicate_set]
    constructor <;> (intro hh; simp [hh, h])
  · intro i hi
    simp [Block.clear, bit_replicate_set]
    constructor <;> (intro hh; simp [hh, h])
  · intro _
    simp only [Block.clear]
    refine ⟨by have := padN_le_one b; simp [Block.padN] at *; split <;> omega, ?_, by simp, by simp⟩
    intro i hi
    simp [bit_replicate_set]
    intro h0 _
    subst h0
    simp [Block.padN] at hi
    cases hp : b.pad <;> simp_all

/-- a block that does not fit only refreshes its search cache -/
theorem BInv.tryAlloc_none {b b' : Block} {S} {k : Nat} (h : BInv b S) (ht : b.tryAlloc k = (b', none)) : BInv b' S := by
  unfold Block.tryAlloc at ht
  split at ht
  · simp at ht
  · rename_i hfast
    split at ht
    · rename_i havail
      split at ht
      · split at ht
        · simp at ht
        · split at ht
          · -- cache refreshed
            simp at ht
            subst ht
            by_cases hi : b.incremental = true
            · exfalso
              obtain ⟨h1, h2, h3, h4⟩ := h.incr hi
              simp [hi] at hfast
              omega
            · exact ⟨h.toBCore.of_eq rfl rfl rfl rfl, by intro hh; simp at hh; exact absurd hh hi⟩
          · simp at ht; exact ht ▸ h
      · simp at ht; exact ht ▸ h
    · simp at ht; exact ht ▸ h

/-- marking a free range allocated adds exactly that span -/
theorem BInv.markAllocated {b : Block} {S} {idx k : Nat} (h : BCore b S) (hk : 0 < k) (hend : idx + k ≤ b.areaSize)
    (hfree : ∀ j, idx ≤ j → j < idx + k → bit b.used j = false)
    (hincr : (b.markAllocated idx (idx + k)).incremental = true →
      (b.markAllocated idx (idx + k)).searchStart ≤ b.areaSize ∧
      (∀ i, (b.markAllocated idx (idx + k)).searchStart ≤ i → idx + k ≤ i ∧ bit b.used i = false) ∧
      (b.markAllocated idx (idx + k)).largest = b.areaSize - (b.markAllocated idx (idx + k)).searchStart ∧
      b.areaUsed + k = (b.markAllocated idx (idx + k)).searchStart) :
    BInv (b.markAllocated idx (idx + k)) (fun s n => S s n ∨ (s = idx ∧ n = k)) ∧ b.padN ≤ idx ∧
      ∀ s n, S s n → s + n ≤ idx ∨ idx + k ≤ s := by
  have hpad : b.padN ≤ idx := by
    by_cases hp : b.pad = true
    · have := (h.used 0 h.area).mpr (Or.inl ⟨hp, rfl⟩)
      have hp1 := padN_pos b hp
      by_cases h0 : idx = 0
      · have := hfree 0 (by omega) (by omega); simp_all
      · omega
    · simp at hp; simp [padN_zero b hp]
  have hdis : ∀ s n, S s n → s + n ≤ idx ∨ idx + k ≤ s := by
    intro s n hS
    obtain ⟨h1, h2, h3⟩ := h.inside s n hS
    by_cases c1 : s + n ≤ idx
    · exact Or.inl c1
    by_cases c2 : idx + k ≤ s
    · exact Or.inr c2
    exfalso
    have hu := (h.used (max s idx) (by omega)).mpr (Or.inr ⟨s, n, hS, by omega, by omega⟩)
    have hf := hfree (max s idx) (by omega) (by omega)
    simp [hu] at hf
  refine ⟨⟨⟨by simpa using h.area, by simp [length_setRange, h.lenU], by simp [h.lenS], ?_, ?_, ?_, ?_⟩, ?_⟩, hpad, hdis⟩
  · intro i hi
    simp at hi
    simp only [markAllocated_used, markAllocated_pad, bit_setRange, h.lenU]
    by_cases hr : idx ≤ i ∧ i < idx + k
    · simp [hr, hi]
      exact Or.inr ⟨idx, k, Or.inr ⟨rfl, rfl⟩, hr.1, hr.2⟩
    · have : ¬(idx ≤ i ∧ i < idx + k ∧ i < b.areaSize) := by omega
      simp only [this, if_false]
      rw [h.used i hi]
      constructor
      · rintro (hp | ⟨s, n, hS, a, c⟩)
        · exact Or.inl hp
        · exact Or.inr ⟨s, n, Or.inl hS, a, c⟩
      · rintro (hp | ⟨s, n, hS | ⟨rfl, rfl⟩, a, c⟩)
        · exact Or.inl hp
        · exact Or.inr ⟨s, n, hS, a, c⟩
        · omega
  · intro i hi
    simp at hi
    simp only [markAllocated_stop, markAllocated_pad, bit_set, h.lenS]
    by_cases hr : i = idx + k - 1
    · simp [hr]
      constructor
      · intro _; exact Or.inr ⟨idx, k, Or.inr ⟨rfl, rfl⟩, by omega⟩
      · intro _; omega
    · have : ¬(i = idx + k - 1 ∧ i < b.areaSize) := by omega
      simp only [this, if_false]
      rw [h.stop i hi]
      constructor
      · rintro (hp | ⟨s, n, hS, a⟩)
        · exact Or.inl hp
        · exact Or.inr ⟨s, n, Or.inl hS, a⟩
      · rintro (hp | ⟨s, n, hS | ⟨rfl, rfl⟩, a⟩)
        · exact Or.inl hp
        · exact Or.inr ⟨s, n, hS, a⟩
        · omega
  · rintro s n (hS | ⟨rfl, rfl⟩)
    · simpa using h.inside s n hS
    · simp; omega
  · rintro s n s' n' (hS | ⟨rfl, rfl⟩) (hS' | ⟨rfl, rfl⟩)
    · exact h.disj s n s' n' hS hS'
    · have := hdis s n hS; omega
    · have := hdis s' n' hS'; omega
    · exact Or.inl ⟨rfl, rfl⟩
  · intro hi
    obtain ⟨a, c, d, e⟩ := hincr hi
    refine ⟨by simpa using a, ?_, by simpa using d, by simp; omega⟩
    intro i hi2
    obtain ⟨c1, c2⟩ := c i hi2
    simp only [markAllocated_used, bit_setRange]
    have : ¬(idx ≤ i ∧ i < idx + k ∧ i < b.used.length) := by omega
    simp [this, c2]


/-- the block that fits: committing the found range adds exactly that span -/
theorem BInv.tryAlloc_some {b b' : Block} {S} {k idx : Nat} (h : BInv b S) (hk : 0 < k) (ht : b.tryAlloc k = (b', some idx)) :
    BInv (b'.commit idx k) (fun s n => S s n ∨ (s = idx ∧ n = k)) ∧ b.padN ≤ idx ∧ idx + k ≤ b.areaSize ∧
      (∀ s n, S s n → s + n ≤ idx ∨ idx + k ≤ s) := by
  unfold Block.tryAlloc at ht
  split at ht
  · -- incremental fast path
    rename_i hfast
    simp at hfast ht
    obtain ⟨hb, hidx⟩ := ht
    subst hb hidx
    obtain ⟨h1, h2, h3, h4⟩ := h.incr hfast.1
    have hend : b.searchStart + k ≤ b.areaSize := by omega
    unfold Block.commit
    have := BInv.markAllocated (b := { b with largest := b.largest - k, empty := false }) (S := S) (idx := b.searchStart) (k := k)
      (h.toBCore.of_eq rfl rfl rfl rfl) hk hend (fun j a _ => h2 j a) (by
        intro hi
        have e1 : b.searchStart + k - b.searchStart = k := by omega
        unfold Block.markAllocated at hi ⊢
        simp only [e1] at hi ⊢
        by_cases hfull : b.areaSize - (b.areaUsed + k) = 0
        · simp [hfull] at hi
        · simp only [hfull, if_false, if_true]
          refine ⟨hend, ?_, by omega, by omega⟩
          intro i hi2; exact ⟨hi2, h2 i (by omega)⟩)
    exact ⟨this.1, this.2.1, hend, this.2.2⟩
  · rename_i hfast
    split at ht
    · rename_i havail
      split at ht
      · split at ht
        · rename_i idx' hscan
          simp at ht
          obtain ⟨hb, hidx⟩ := ht
          subst hb hidx
          have hinc : b.incremental = false := by
            by_cases hi : b.incremental = true
            · exfalso
              obtain ⟨h1, h2, h3, h4⟩ := h.incr hi
              simp [hi] at hfast
              omega
            · simpa using hi
          obtain ⟨s1, s2, s3, s4⟩ := scan_found b.used b.searchStart b.searchEnd k idx' hk hscan
          have hend : idx' + k ≤ b.areaSize := by rw [← h.lenU]; exact s3
          unfold Block.commit
          have := BInv.markAllocated (b := { b with empty := false }) (S := S) (idx := idx') (k := k)
            (h.toBCore.of_eq rfl rfl rfl rfl) hk hend s4 (by
              intro hi
              exfalso
              unfold Block.markAllocated at hi
              simp only at hi
              split at hi <;> simp [hinc] at hi)
          exact ⟨this.1, this.2.1, hend, this.2.2⟩
        · split at ht <;> simp at ht
      · simp at ht
    · simp at ht



/-- the stop bit found from the first granule of a live span is the span's last granule -/
theorem BCore.indexOfStop {b : Block} {S} {s0 n0 : Nat} (h : BCore b S) (hS : S s0 n0) :
    indexOfStop b.stop s0 = s0 + n0 - 1 := by
  obtain ⟨i1, i2, i3⟩ := h.inside s0 n0 hS
  apply indexOfStop_eq _ _ _ (by omega) (by rw [h.lenS]; omega)
  · exact (h.stop (s0 + n0 - 1) (by omega)).mpr (Or.inr ⟨s0, n0, hS, by omega⟩)
  · intro k hk1 hk2
    cases hb : bit b.stop k
    · rfl
    · exfalso
      rcases (h.stop k (by omega)).mp hb with ⟨hp, rfl⟩ | ⟨s, n, hS', e⟩
      · have := padN_pos b hp; omega
      · obtain ⟨j1, j2, j3⟩ := h.inside s n hS'
        rcases h.disj s n s0 n0 hS' hS with ⟨rfl, rfl⟩ | c | c <;> omega

/-- releasing a live span removes exactly that span -/
theorem BInv.markReleased {b : Block} {S} {s0 n0 : Nat} (h : BInv b S) (hS : S s0 n0) :
    BInv (b.markReleased s0 (s0 + n0)) (fun s n => S s n ∧ ¬(s = s0 ∧ n = n0)) := by
  obtain ⟨i1, i2, i3⟩ := h.inside s0 n0 hS
  have e1 : s0 + n0 - s0 = n0 := by omega
  refine ⟨⟨by simpa using h.area, by simp [length_setRange, h.lenU], by simp [h.lenS], ?_, ?_, ?_, ?_⟩, ?_⟩
  · intro i hi
    simp at hi
    simp only [markReleased_used, markReleased_pad, bit_setRange, h.lenU]
    by_cases hr : s0 ≤ i ∧ i < s0 + n0
    · have : (s0 ≤ i ∧ i < s0 + n0 ∧ i < b.areaSize) := by omega
      simp only [this]
      constructor
      · intro hh; simp at hh
      · rintro (⟨hp, rfl⟩ | ⟨s, n, ⟨hS', hne⟩, a, c⟩)
        · have := padN_pos b hp; omega
        · exfalso
          rcases h.disj s n s0 n0 hS' hS with ⟨rfl, rfl⟩ | d | d
          · exact hne ⟨rfl, rfl⟩
          · omega
          · omega
    · have : ¬(s0 ≤ i ∧ i < s0 + n0 ∧ i < b.areaSize) := by omega
      simp only [this, if_false]
      rw [h.used i hi]
      constructor
      · rintro (hp | ⟨s, n, hS', a, c⟩)
        · exact Or.inl hp
        · exact Or.inr ⟨s, n, ⟨hS', by rintro ⟨rfl, rfl⟩; omega⟩, a, c⟩
      · rintro (hp | ⟨s, n, ⟨hS', _⟩, a, c⟩)
        · exact Or.inl hp
        · exact Or.inr ⟨s, n, hS', a, c⟩
  · intro i hi
    simp at hi
    simp only [markReleased_stop, markReleased_pad, bit_set, h.lenS]
    by_cases hr : i = s0 + n0 - 1
    · subst hr
      simp only [hi, and_self, if_true]
      constructor
      · intro hh; simp at hh
      · rintro (⟨hp, h0⟩ | ⟨s, n, ⟨hS', hne⟩, a⟩)
        · have := padN_pos b hp; omega
        · exfalso
          obtain ⟨j1, j2, j3⟩ := h.inside s n hS'
          rcases h.disj s n s0 n0 hS' hS with ⟨rfl, rfl⟩ | d | d
          · exact hne ⟨rfl, rfl⟩
          · omega
          · omega
    · have : ¬(i = s0 + n0 - 1 ∧ i < b.areaSize) := by omega
      simp only [this, if_false]
      rw [h.stop i hi]
      constructor
      · rintro (hp | ⟨s, n, hS', a⟩)
        · exact Or.inl hp
        · exact Or.inr ⟨s, n, ⟨hS', by rintro ⟨rfl, rfl⟩; omega⟩, a⟩
      · rintro (hp | ⟨s, n, ⟨hS', _⟩, a⟩)
        · exact Or.inl hp
        · exact Or.inr ⟨s, n, hS', a⟩
  · rintro s n ⟨hS', _⟩
    simpa using h.inside s n hS'
  · rintro s n s' n' ⟨hS1, _⟩ ⟨hS2, _⟩
    exact h.disj s n s' n' hS1 hS2
  · intro hi
    unfold Block.markReleased at hi ⊢
    simp only [e1] at hi ⊢
    by_cases hA : (b.incremental && b.searchStart == s0 + n0) = true
    · simp only [hA, if_true] at hi ⊢
      simp at hA
      obtain ⟨h1, h2, h3, h4⟩ := h.incr hA.1
      refine ⟨by omega, ?_, by omega, by omega⟩
      intro i hi2
      simp only [bit_setRange]
      have := h.lenU
      have := hA.2
      split
      · rfl
      · exact h2 i (by omega)
    · exfalso
      simp only [hA] at hi
      by_cases hB : b.areaUsed - n0 = b.padN <;> simp [hB] at hi



/-- shrinking a live span to its first `m` granules replaces the span by its prefix -/
theorem BInv.markShrunk {b : Block} {S} {s0 n0 m : Nat} (h : BInv b S) (hS : S s0 n0) (hm : 0 < m) (hmn : m < n0) :
    BInv (b.markShrunk (s0 + m) (s0 + n0)) (fun s n => (S s n ∧ ¬(s = s0 ∧ n = n0)) ∨ (s = s0 ∧ n = m)) := by
  obtain ⟨i1, i2, i3⟩ := h.inside s0 n0 hS
  have e1 : s0 + n0 - (s0 + m) = n0 - m := by omega
  have hother : ∀ s n, S s n → ¬(s = s0 ∧ n = n0) → s + n ≤ s0 ∨ s0 + n0 ≤ s := by
    intro s n hS' hne
    rcases h.disj s n s0 n0 hS' hS with ⟨rfl, rfl⟩ | d | d
    · exact absurd ⟨rfl, rfl⟩ hne
    · exact Or.inl d
    · exact Or.inr d
  refine ⟨⟨by simpa using h.area, by simp [length_setRange, h.lenU], by simp [h.lenS], ?_, ?_, ?_, ?_⟩, ?_⟩
  · intro i hi
    simp at hi
    simp only [markShrunk_used, markShrunk_pad, bit_setRange, h.lenU]
    by_cases hr : s0 + m ≤ i ∧ i < s0 + n0
    · have : (s0 + m ≤ i ∧ i < s0 + n0 ∧ i < b.areaSize) := by omega
      simp only [this]
      constructor
      · intro hh; simp at hh
      · rintro (⟨hp, rfl⟩ | ⟨s, n, ⟨hS', hne⟩ | ⟨rfl, rfl⟩, a, c⟩)
        · omega
        · have := hother s n hS' hne; omega
        · omega
    · have : ¬(s0 + m ≤ i ∧ i < s0 + n0 ∧ i < b.areaSize) := by omega
      simp only [this, if_false]
      rw [h.used i hi]
      constructor
      · rintro (hp | ⟨s, n, hS', a, c⟩)
        · exact Or.inl hp
        · by_cases hne : s = s0 ∧ n = n0
          · obtain ⟨rfl, rfl⟩ := hne
            exact Or.inr ⟨s, m, Or.inr ⟨rfl, rfl⟩, a, by omega⟩
          · exact Or.inr ⟨s, n, Or.inl ⟨hS', hne⟩, a, c⟩
      · rintro (hp | ⟨s, n, ⟨hS', _⟩ | ⟨rfl, rfl⟩, a, c⟩)
        · exact Or.inl hp
        · exact Or.inr ⟨s, n, hS', a, c⟩
        · exact Or.inr ⟨s, n0, hS, a, by omega⟩
  · intro i hi
    simp at hi
    simp only [markShrunk_stop, markShrunk_pad, bit_set, List.length_set, h.lenS]
    by_cases hr : i = s0 + m - 1
    · subst hr
      simp only [hi, and_self, if_true, true_iff]
      exact Or.inr ⟨s0, m, Or.inr ⟨rfl, rfl⟩, by omega⟩
    · have : ¬(i = s0 + m - 1 ∧ i < b.areaSize) := by omega
      simp only [this, if_false]
      by_cases hr2 : i = s0 + n0 - 1
      · subst hr2
        simp only [hi, and_self, if_true]
        constructor
        · intro hh; simp at hh
        · rintro (⟨hp, h0⟩ | ⟨s, n, ⟨hS', hne⟩ | ⟨rfl, rfl⟩, a⟩)
          · omega
          · obtain ⟨j1, j2, j3⟩ := h.inside s n hS'
            have := hother s n hS' hne; omega
          · omega
      · have : ¬(i = s0 + n0 - 1 ∧ i < b.areaSize) := by omega
        simp only [this, if_false]
        rw [h.stop i hi]
        constructor
        · rintro (hp | ⟨s, n, hS', a⟩)
          · exact Or.inl hp
          · exact Or.inr ⟨s, n, Or.inl ⟨hS', by rintro ⟨rfl, rfl⟩; omega⟩, a⟩
        · rintro (hp | ⟨s, n, ⟨hS', _⟩ | ⟨rfl, rfl⟩, a⟩)
          · exact Or.inl hp
          · exact Or.inr ⟨s, n, hS', a⟩
          · omega
  · rintro s n (⟨hS', _⟩ | ⟨rfl, rfl⟩)
    · simpa using h.inside s n hS'
    · simp; omega
  · rintro s n s' n' (⟨hS1, hn1⟩ | ⟨rfl, rfl⟩) (⟨hS2, hn2⟩ | ⟨rfl, rfl⟩)
    · exact h.disj s n s' n' hS1 hS2
    · have := hother s n hS1 hn1; omega
    · have := hother s' n' hS2 hn2; omega
    · exact Or.inl ⟨rfl, rfl⟩
  · intro hi
    unfold Block.markShrunk at hi ⊢
    simp only [e1] at hi ⊢
    by_cases hA : (b.incremental && b.searchStart == s0 + n0) = true
    · simp only [hA, if_true] at hi ⊢
      simp at hA
      obtain ⟨h1, h2, h3, h4⟩ := h.incr hA.1
      refine ⟨by omega, ?_, by omega, by omega⟩
      intro i hi2
      simp only [bit_setRange]
      have := h.lenU
      have := hA.2
      split
      · rfl
      · exact h2 i (by omega)
    · exfalso
      simp [hA] at hi

/-- a fresh block after the first allocation (`alloc`'s new-block path) -/
theorem BInv.newBlock_commit (b : Block) (k : Nat) (hk : 0 < k) (hfit : b.padN + k ≤ b.areaSize) :
    BInv (({ b.clear with searchStart := b.clear.searchStart + k, largest := b.clear.largest - k }).markAllocated
      b.clear.padN (b.clear.padN + k)) (fun s n => s = b.padN ∧ n = k) := by
  have h0 : 0 < b.areaSize := by omega
  have hc := BInv.clear b h0
  have hp : b.clear.padN = b.padN := rfl
  have hinc := hc.incr (by simp [Block.clear])
  have := BInv.markAllocated (b := { b.clear with searchStart := b.clear.searchStart + k, largest := b.clear.largest - k })
    (S := fun _ _ => False) (idx := b.clear.padN) (k := k) (hc.toBCore.of_eq rfl rfl rfl rfl) hk (by show b.clear.padN + k ≤ b.areaSize; rw [hp]; exact hfit)
    (by intro j a _; exact hinc.2.1 j a)
    (by
      intro hi
      have e1 : b.clear.padN + k - b.clear.padN = k := by omega
      unfold Block.markAllocated at hi ⊢
      simp only [e1] at hi ⊢
      by_cases hfull : b.clear.areaSize - (b.clear.areaUsed + k) = 0
      · simp [hfull] at hi
      · simp only [hfull, if_false]
        have e2 : b.clear.searchStart = b.clear.padN := rfl
        have e3 : b.clear.areaUsed = b.clear.padN := rfl
        have e4 : b.clear.largest = b.clear.areaSize - b.clear.padN := rfl
        have e5 : b.clear.areaSize = b.areaSize := rfl
        have e6 : ¬(b.clear.searchStart + k = b.clear.padN) := by omega
        simp only [e6, if_false]
        refine ⟨by omega, ?_, by omega, by omega⟩
        intro i hi2
        exact ⟨by omega, hinc.2.1 i (by omega)⟩)
  exact this.1.congr (by intro s n; simp [hp])

/-! ### accounting -/

/-- accounting of one block: `area_used` is the number of set `used` bits; an empty-flagged block holds nothing -/
structure BCnt (b : Block) : Prop where
  cnt : b.areaUsed = b.used.count true
  emp : b.empty = true → b.areaUsed = b.padN

theorem no_spans_of_unused {b : Block} {S} (hI : BCore b S) (hC : BCnt b) (h : b.areaUsed = b.padN) : ∀ s n, ¬ S s n := by
  intro s n hS
  obtain ⟨i1, i2, i3⟩ := hI.inside s n hS
  have hs := (hI.used s (by omega)).mpr (Or.inr ⟨s, n, hS, by omega, by omega⟩)
  have hc := hC.cnt
  by_cases hp : b.pad = true
  · have h0 := (hI.used 0 hI.area).mpr (Or.inl ⟨hp, rfl⟩)
    have hp1 := padN_pos b hp
    have : s = (s - 1) + 1 := by omega
    rw [this] at hs
    have := count_two_of_bits b.used (s - 1) h0 hs
    omega
  · simp at hp
    have := padN_zero b hp
    have := count_pos_of_bit b.used s hs
    omega

theorem BCnt.clear (b : Block) (h0 : 0 < b.areaSize) : BCnt b.clear := by
  constructor
  · simp [Block.clear, count_replicate_set, Block.padN, h0]
  · intro _; rfl

theorem BCnt.tryAlloc_none {b b' : Block} {k : Nat} (h : BCnt b) (ht : b.tryAlloc k = (b', none)) : BCnt b' := by
  unfold Block.tryAlloc at ht
  split at ht
  · simp at ht
  · split at ht
    · split at ht
      · split at ht
        · simp at ht
        · split at ht
          · simp at ht; subst ht; exact ⟨h.cnt, h.emp⟩
          · simp at ht; exact ht ▸ h
      · simp at ht; exact ht ▸ h
    · simp at ht; exact ht ▸ h

theorem BCnt.markAllocated {b : Block} {idx k : Nat} (hc : b.areaUsed = b.used.count true) (hend : idx + k ≤ b.used.length)
    (hfree : ∀ j, idx ≤ j → j < idx + k → bit b.used j = false) : BCnt (b.markAllocated idx (idx + k)) := by
  constructor
  · have := count_setRange_true b.used idx (idx + k) (by omega) hend hfree
    simp [this, hc]
  · intro he
    exfalso
    unfold Block.markAllocated at he
    simp only at he
    split at he <;> simp at he

theorem BCnt.markReleased {b : Block} {S} {s0 n0 : Nat} (hI : BInv b S) (hC : BCnt b) (hS : S s0 n0) :
    BCnt (b.markReleased s0 (s0 + n0)) := by
  obtain ⟨i1, i2, i3⟩ := hI.inside s0 n0 hS
  have hne : b.empty = false := by
    cases he : b.empty
    · rfl
    · exact absurd hS (no_spans_of_unused hI.toBCore hC (hC.emp he) s0 n0)
  have hcount := count_setRange_false b.used s0 (s0 + n0) (by omega) (by rw [hI.lenU]; exact i3) (by
    intro j a c
    exact (hI.used j (by omega)).mpr (Or.inr ⟨s0, n0, hS, a, c⟩))
  have e1 : s0 + n0 - s0 = n0 := by omega
  constructor
  · simp [e1]; have := hC.cnt; omega
  · intro he
    unfold Block.markReleased at he
    simp only [e1, hne] at he
    simp only [markReleased_areaUsed, markReleased_padN, e1]
    by_cases hA : (b.incremental && b.searchStart == s0 + n0) = true
    · simp [hA] at he; exact he
    · simp only [hA] at he
      by_cases hB : b.areaUsed - n0 = b.padN
      · exact hB
      · simp [hB, hne] at he

theorem BCnt.markShrunk {b : Block} {S} {s0 n0 m : Nat} (hI : BInv b S) (hC : BCnt b) (hS : S s0 n0) (hmn : m < n0) :
    BCnt (b.markShrunk (s0 + m) (s0 + n0)) := by
  obtain ⟨i1, i2, i3⟩ := hI.inside s0 n0 hS
  have hne : b.empty = false := by
    cases he : b.empty
    · rfl
    · exact absurd hS (no_spans_of_unused hI.toBCore hC (hC.emp he) s0 n0)
  have hcount := count_setRange_false b.used (s0 + m) (s0 + n0) (by omega) (by rw [hI.lenU]; exact i3) (by
    intro j a c
    exact (hI.used j (by omega)).mpr (Or.inr ⟨s0, n0, hS, by omega, c⟩))
  have e1 : s0 + n0 - (s0 + m) = n0 - m := by omega
  constructor
  · simp [e1]; have := hC.cnt; omega
  · intro he
    exfalso
    unfold Block.markShrunk at he
    simp only at he
    split at he <;> simp [hne] at he

end AsmjitVerif.JitAlloc

namespace AsmjitVerif.JitAlloc

theorem BCnt.tryAlloc_some {b b' : Block} {S} {k idx : Nat} (hI : BInv b S) (hC : BCnt b) (hk : 0 < k)
    (ht : b.tryAlloc k = (b', some idx)) : BCnt (b'.commit idx k) := by
  unfold Block.tryAlloc at ht
  split at ht
  · rename_i hfast
    simp at hfast ht
    obtain ⟨hb, hidx⟩ := ht
    subst hb hidx
    obtain ⟨h1, h2, h3, h4⟩ := hI.incr hfast.1
    unfold Block.commit
    exact BCnt.markAllocated (b := { b with largest := b.largest - k, empty := false }) hC.cnt
      (by show b.searchStart + k ≤ b.used.length; rw [hI.lenU]; omega) (fun j a _ => h2 j a)
  · split at ht
    · split at ht
      · split at ht
        · rename_i idx' hscan
          simp at ht
          obtain ⟨hb, hidx⟩ := ht
          subst hb hidx
          obtain ⟨s1, s2, s3, s4⟩ := scan_found b.used b.searchStart b.searchEnd k idx' hk hscan
          unfold Block.commit
          exact BCnt.markAllocated (b := { b with empty := false }) hC.cnt s3 s4
        · split at ht <;> simp at ht
      · simp at ht
    · simp at ht

end AsmjitVerif.JitAlloc

namespace AsmjitVerif.JitAlloc

/-! ### locating a span from any of its granules (query) -/


/-- length of the longest suffix of `l` whose elements satisfy `p` -/
theorem takeWhile_reverse_length {α} (p : α → Bool) (pre suf : List α) (hs : ∀ x ∈ suf, p x = true)
    (hp : pre = [] ∨ ∃ h : pre ≠ [], p (pre.getLast h) = false) :
    ((pre ++ suf).reverse.takeWhile p).length = suf.length := by
  rw [List.reverse_append]
  rw [List.takeWhile_append_of_pos (by intro x hx; exact hs x (List.mem_reverse.mp hx))]
  rcases hp with rfl | ⟨hne, hl⟩
  · simp
  · have : pre.reverse.takeWhile p = [] := by
      cases hr : pre.reverse with
      | nil => simp
      | cons y ys =>
        have hy : y = pre.getLast hne := by
          have := List.head_reverse (l := pre) (by simpa using hne)
          simp [hr] at this
          exact this
        simp [List.takeWhile_cons, hy, hl]
    simp [this]





theorem bit_eq_getElem (l : List Bool) (i : Nat) (h : i < l.length) : bit l i = l[i] := by
  simp [bit, List.getD, h]

theorem spanStart_eq (used stop : List Bool) (idx s0 : Nat) (hs : s0 ≤ idx) (hlenU : idx ≤ used.length) (hlenS : idx ≤ stop.length)
    (hin : ∀ i, s0 ≤ i → i < idx → bit used i = true ∧ bit stop i = false)
    (hb : s0 = 0 ∨ (bit used (s0 - 1) = false ∨ bit stop (s0 - 1) = true)) : spanStart used stop idx = s0 := by
  unfold spanStart
  have hl : ((used.take idx).zip (stop.take idx)).length = idx := by simp; omega
  have hget : ∀ i (hi : i < ((used.take idx).zip (stop.take idx)).length),
      ((used.take idx).zip (stop.take idx))[i] = (bit used i, bit stop i) := by
    intro i hi
    rw [hl] at hi
    simp [List.getElem_zip, bit_eq_getElem used i (by omega), bit_eq_getElem stop i (by omega)]
  have hsplit := (List.take_append_drop s0 ((used.take idx).zip (stop.take idx))).symm
  have key := takeWhile_reverse_length (fun (x : Bool × Bool) => x.1 && !x.2)
    (((used.take idx).zip (stop.take idx)).take s0) (((used.take idx).zip (stop.take idx)).drop s0) (by
      intro x hx
      obtain ⟨k, hk, rfl⟩ := List.mem_iff_getElem.mp hx
      simp only [List.length_drop, hl] at hk
      rw [List.getElem_drop, hget]
      obtain ⟨a, b⟩ := hin (s0 + k) (by omega) (by omega)
      simp [a, b]) (by
      by_cases h0 : s0 = 0
      · left; simp [h0]
      · right
        have hne : ((used.take idx).zip (stop.take idx)).take s0 ≠ [] := by
          intro hnil
          have := congrArg List.length hnil
          rw [List.length_take, hl] at this
          simp at this; omega
        refine ⟨hne, ?_⟩
        rw [List.getLast_eq_getElem]
        simp only [List.length_take, hl, List.getElem_take]
        have e : min s0 idx - 1 = s0 - 1 := by omega
        rw [hget]
        simp only [e]
        rcases hb with hb | hb | hb
        · omega
        · simp [hb]
        · simp [hb])
  rw [← hsplit] at key
  rw [key]
  simp only [List.length_drop, hl]
  omega





/-- from any granule of a live span `query`'s three look-ups find the span: the granule is used, the next stop bit is the span's
last granule, the walk back ends at its first granule -/
theorem BCore.locate {b : Block} {S} {s0 n0 idx : Nat} (h : BCore b S) (hS : S s0 n0) (h1 : s0 ≤ idx) (h2 : idx < s0 + n0) :
    bit b.used idx = true ∧ JitAlloc.indexOfStop b.stop idx = s0 + n0 - 1 ∧ spanStart b.used b.stop idx = s0 := by
  obtain ⟨i1, i2, i3⟩ := h.inside s0 n0 hS
  have nostop : ∀ k, s0 ≤ k → k < s0 + n0 - 1 → bit b.stop k = false := by
    intro k hk1 hk2
    cases hb : bit b.stop k
    · rfl
    · exfalso
      rcases (h.stop k (by omega)).mp hb with ⟨hp, rfl⟩ | ⟨s, n, hS', e⟩
      · have := padN_pos b hp; omega
      · obtain ⟨j1, j2, j3⟩ := h.inside s n hS'
        rcases h.disj s n s0 n0 hS' hS with ⟨rfl, rfl⟩ | c | c <;> omega
  refine ⟨(h.used idx (by omega)).mpr (Or.inr ⟨s0, n0, hS, h1, h2⟩), ?_, ?_⟩
  · apply indexOfStop_eq _ _ _ (by omega) (by rw [h.lenS]; omega)
    · exact (h.stop (s0 + n0 - 1) (by omega)).mpr (Or.inr ⟨s0, n0, hS, by omega⟩)
    · intro k hk1 hk2; exact nostop k (by omega) hk2
  · apply spanStart_eq _ _ _ _ h1 (by rw [h.lenU]; omega) (by rw [h.lenS]; omega)
    · intro i a c
      exact ⟨(h.used i (by omega)).mpr (Or.inr ⟨s0, n0, hS, a, by omega⟩), nostop i a (by omega)⟩
    · by_cases h0 : s0 = 0
      · exact Or.inl h0
      · right
        cases hu : bit b.used (s0 - 1)
        · exact Or.inl rfl
        · right
          rcases (h.used (s0 - 1) (by omega)).mp hu with ⟨hp, e0⟩ | ⟨s, n, hS', a, c⟩
          · exact (h.stop (s0 - 1) (by omega)).mpr (Or.inl ⟨hp, e0⟩)
          · apply (h.stop (s0 - 1) (by omega)).mpr
            refine Or.inr ⟨s, n, hS', ?_⟩
            rcases h.disj s n s0 n0 hS' hS with ⟨rfl, rfl⟩ | d | d <;> omega



end AsmjitVerif.JitAlloc
