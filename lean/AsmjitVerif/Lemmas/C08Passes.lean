/- C08: finalize of a Compiler = passes (GlobalConstPoolPass links the pending global pool behind the last node) + serialize_to. -/
import AsmjitVerif.Lemmas.C08Sim
import AsmjitVerif.Lemmas.C08Section

namespace AsmjitVerif.Builder
open Spec

theorem init_sim_c (r : Nat) (c : Bool) : Sim (Builder.St.init r c) (Spec.St.init r c) := by
  refine ⟨rfl, ?_, ?_⟩
  · simp [Builder.St.init, Spec.St.init, MList.abs, absCursor]
  · refine ⟨by simp [Builder.St.init], ?_, ?_⟩
    · intro x hx; simp [Builder.St.init] at hx ⊢; exact hx.symm
    · intro _ s hs _
      simp [Builder.St.init] at hs
      subst hs
      simp [Builder.St.init, lookupNext, succIn, MList.isSec]

/-- the passes preserve the simulation: model and specification link the pool the same way -/
theorem sim_passes (s : Builder.St) (t : Spec.St) (h : Sim s t) : Sim (runPasses s) (Spec.runPasses t) := by
  have hl : s.l.list = t.d.items := congrArg Doc.items h.doc
  unfold runPasses Spec.runPasses
  rw [← h.front, ← hl]
  cases hg : s.f.gpool with
  | none => exact h
  | some n =>
    cases hlast : s.l.list.getLast? with
    | none => exact h
    | some r =>
      have := refine_act s.l (.addAfter n r) h.inv
      exact ⟨by simp [h.front], by simp only; rw [this.2, h.doc], this.1⟩

/-- reachable specification states: no item twice, the gap inside the document -/
theorem spec_wf (s : Builder.St) (t : Spec.St) (h : Sim s t) : t.d.items.Nodup ∧ t.d.gap ≤ t.d.items.length := by
  have hl : s.l.list = t.d.items := congrArg Doc.items h.doc
  have hgp : absCursor s.l.list s.l.cursor = t.d.gap := congrArg Doc.gap h.doc
  refine ⟨hl ▸ h.inv.nodup, ?_⟩
  rw [← hgp, ← hl]
  cases hc : s.l.cursor with
  | none => simp [absCursor]
  | some c =>
    have := idxOf_lt _ _ (h.inv.cur c hc)
    simp only [absCursor]; omega

/-- GlobalConstPoolPass on the document: the pending pool becomes the LAST item and the gap does not move - wherever the gap is -/
theorem pool_goes_last (t : Spec.St) (n : Nat) (hnd : t.d.items.Nodup) (hgap : t.d.gap ≤ t.d.items.length)
    (hg : t.f.gpool = some n) (hn : n ∉ t.d.items) (hne : t.d.items ≠ []) :
    (Spec.runPasses t).d.items = t.d.items ++ [n] ∧ (Spec.runPasses t).d.gap = t.d.gap ∧
    (Spec.runPasses t).f.nodes = t.f.nodes ∧ (Spec.runPasses t).f.gpool = none := by
  obtain ⟨r, hr⟩ : ∃ r, t.d.items.getLast? = some r := by
    cases hl : t.d.items.getLast? with
    | none => exact absurd (List.getLast?_eq_none_iff.mp hl) hne
    | some r => exact ⟨r, rfl⟩
  have hrm : r ∈ t.d.items := by
    obtain ⟨ys, hys⟩ := List.getLast?_eq_some_iff.mp hr
    rw [hys]; simp
  have hpos : t.d.items.idxOf r + 1 = t.d.items.length := idxOf_getLast _ _ hnd hr
  simp only [Spec.runPasses, hg, hr]
  simp only [Doc.apply]
  rw [if_neg (by simp [Doc.has, hn, hrm])]
  simp only [Doc.insertAt, Doc.pos, hpos, List.insertIdx_length_self]
  refine ⟨trivial, ?_, trivial, trivial⟩
  rw [if_neg (by omega)]

end AsmjitVerif.Builder
