/- C20 helper lemmas: the machine-code column of finish_formatted_line read back by Spec.parseColumn. -/
import AsmjitVerif.Lemmas.FormatNum

namespace AsmjitVerif.Lemmas.FormatColumn
open AsmjitVerif.Format AsmjitVerif.FormatText AsmjitVerif.Lemmas.FormatNum

theorem parseColumn_hexByte (b : Nat) (hb : b < 256) (tail : Str) :
    parseColumn (hexByte b ++ tail) = (parseColumn tail).map (some b :: ·) := by
  have h1 : (b / 16) % 16 < 16 := Nat.mod_lt _ (by omega)
  have h2 : b % 16 < 16 := Nat.mod_lt _ (by omega)
  have e1 := hexVal_digit ⟨(b / 16) % 16, h1⟩
  have e2 := hexVal_digit ⟨b % 16, h2⟩
  have n1 := digit_ne_dot ⟨(b / 16) % 16, h1⟩
  simp only [hexByte, List.cons_append, List.nil_append]
  rw [parseColumn]
  · rw [e1, e2]
    have hv : (b / 16) % 16 * 16 + b % 16 = b := by omega
    cases parseColumn tail with
    | none => rfl
    | some r => simp [hv]
  · intro ha _
    exact n1 ha

theorem parseColumn_hex (bs : List Nat) (hb : ∀ b ∈ bs, b < 256) (tail : Str) :
    parseColumn (appendHex bs ++ tail) = (parseColumn tail).map (bs.map some ++ ·) := by
  induction bs with
  | nil => simp [appendHex]
  | cons b rest ih =>
    have hb' : ∀ x ∈ rest, x < 256 := fun x hx => hb x (List.mem_cons_of_mem _ hx)
    have : appendHex (b :: rest) ++ tail = hexByte b ++ (appendHex rest ++ tail) := by simp [appendHex]
    rw [this, parseColumn_hexByte b (hb b (List.mem_cons_self ..)), ih hb']
    cases parseColumn tail <;> simp

theorem parseColumn_dots (r : Nat) (tail : Str) :
    parseColumn (List.replicate (r * 2) '.' ++ tail) = (parseColumn tail).map (List.replicate r none ++ ·) := by
  induction r with
  | zero => simp
  | succ k ih =>
    have : List.replicate ((k + 1) * 2) '.' ++ tail = '.' :: '.' :: (List.replicate (k * 2) '.' ++ tail) := by
      have : (k + 1) * 2 = k * 2 + 1 + 1 := by omega
      rw [this, List.replicate_succ, List.replicate_succ]; rfl
    rw [this, parseColumn, ih]
    cases parseColumn tail <;> simp [List.replicate_succ]

end AsmjitVerif.Lemmas.FormatColumn
