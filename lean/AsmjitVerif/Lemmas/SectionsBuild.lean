/- The build phase (everything before flatten/relocate) establishes what the first relocation needs. -/
import AsmjitVerif.Lemmas.SectionsReloc
namespace AsmjitVerif.Sections

/-- operations of the build phase: no flatten, no relocate, and the virtual size of the address-table section itself is
    left to `add_address_to_address_table` -/
def okOp (h : Holder) : Op → Prop
  | .setVsize id _ => h.addrTab ≠ some id
  | .flatten => False
  | .relocate _ => False
  | _ => True

def BuildOK : Holder → List Op → Prop
  | _, [] => True
  | h, op :: rest => okOp h op ∧ BuildOK (step h op) rest

structure BInv (h : Holder) (n : Nat) : Prop where
  inv : InvS h.secs
  slots : ∀ e ∈ h.entries, e.slot = none
  len : h.entries.length ≤ n
  noTab : h.addrTab = none → h.entries = []
  tab : ∀ id, h.addrTab = some id → id < h.secs.length ∧ ∀ s ∈ h.secs, s.id = id → s.vsize = 8 * h.entries.length

theorem BInv.mono {h : Holder} {n m : Nat} (hb : BInv h n) (hnm : n ≤ m) : BInv h m :=
  ⟨hb.inv, hb.slots, Nat.le_trans hb.len hnm, hb.noTab, hb.tab⟩

theorem mem_modifySec {secs : List Section} {id : Nat} {f : Section → Section} {s' : Section} (h : s' ∈ modifySec secs id f) :
    ∃ s ∈ secs, s' = if s.id == id then f s else s := by
  unfold modifySec at h
  obtain ⟨s, hs, rfl⟩ := List.mem_map.mp h
  exact ⟨s, hs, rfl⟩

/-- a `modifySec` that keeps (id, order, align) and does not touch the virtual size of the address-table section -/
theorem BInv.modify {h : Holder} {n : Nat} (hb : BInv h n) (id : Nat) (f : Section → Section)
    (hk : ∀ s, SameKeys s (f s)) (hv : (∀ s, (f s).vsize = s.vsize) ∨ h.addrTab ≠ some id) :
    BInv { h with secs := modifySec h.secs id f } n := by
  have hkeys := modifySec_keys h.secs id f hk
  refine ⟨InvS.transfer hkeys hb.inv, hb.slots, hb.len, hb.noTab, ?_⟩
  intro aid haid
  obtain ⟨h1, h2⟩ := hb.tab aid haid
  refine ⟨by show aid < (modifySec h.secs id f).length; rw [hkeys.length_eq]; exact h1, ?_⟩
  intro s' hs' hid'
  obtain ⟨s, hs, rfl⟩ := mem_modifySec hs'
  by_cases hc : (s.id == id) = true
  · rw [if_pos hc] at hid' ⊢
    have hsid : s.id = aid := by rw [← (hk s).1]; exact hid'
    rcases hv with hv | hv
    · rw [hv s]; exact h2 s hs hsid
    · exfalso; apply hv
      have : s.id = id := by simpa using hc
      rw [haid, ← hsid, this]
  · rw [if_neg hc] at hid' ⊢
    exact h2 s hs hid'

theorem newSection_binv {h : Holder} {n : Nat} (hb : BInv h n) (name : String) (align : BitVec 32) (order : Int)
    (ho : -2147483648 ≤ order) : BInv (newSection h name align order).1 n := by
  have hinv := newSection_inv h name align order ho hb.inv
  unfold newSection at hinv ⊢
  split
  · exact hb
  · split
    · exact hb
    · rename_i h1 h2
      rw [if_neg h1, if_neg h2] at hinv
      refine ⟨hinv, hb.slots, hb.len, hb.noTab, ?_⟩
      intro aid haid
      obtain ⟨h1, h2⟩ := hb.tab aid haid
      dsimp only
      rw [length_insertByOrder]
      refine ⟨by omega, ?_⟩
      intro s hs hid
      rcases mem_insertByOrder.mp hs with rfl | hs
      · simp at hid; omega
      · exact h2 s hs hid

/-- the section `ensure_address_table_section` creates -/
def addrTabSection (n : Nat) : Section :=
  { id := n, order := 2147483647, align := 8, offset := sizeMax, vsize := 0, name := ".addrtab", data := [] }

theorem newSection_addrtab (h : Holder) :
    newSection h ".addrtab" 8 2147483647 =
      ({ h with secs := insertByOrder (addrTabSection h.secs.length) h.secs }, .ok h.secs.length) := by
  unfold newSection
  have h1 : isZeroOrPow2 (8 : BitVec 32) = true := by decide
  have h2 : ¬ (".addrtab".length > maxSectionNameSize) := by decide
  simp only [h1, Bool.not_true, Bool.false_eq_true, if_false, h2]
  rfl

theorem addAddress_binv {h : Holder} {n : Nat} (hb : BInv h n) (addr : Nat) (hn : 8 * (n + 1) < U64) :
    BInv (addAddress h addr) (n + 1) := by
  unfold addAddress
  split
  · exact hb.mono (by omega)
  · unfold ensureAddrTab
    cases hat : h.addrTab with
    | some id =>
      dsimp only
      obtain ⟨h1, h2⟩ := hb.tab id hat
      have hkeys := modifySec_keys h.secs id (fun s => { s with vsize := (s.vsize + 8) % U64 }) (fun s => ⟨rfl, rfl, rfl⟩)
      refine ⟨InvS.transfer hkeys hb.inv, ?_, ?_, ?_, ?_⟩
      · intro e he
        rcases List.mem_append.mp he with he | he
        · exact hb.slots e he
        · simp at he; rw [he]
      · simp only [List.length_append, List.length_singleton]; have := hb.len; omega
      · intro hc; rw [hat] at hc; cases hc
      · intro aid haid
        rw [hat] at haid; cases haid
        refine ⟨by show id < (modifySec h.secs id _).length; rw [hkeys.length_eq]; exact h1, ?_⟩
        intro s' hs' hid'
        obtain ⟨s, hs, rfl⟩ := mem_modifySec hs'
        by_cases hc : (s.id == id) = true
        · rw [if_pos hc]
          have hsid : s.id = id := by simpa using hc
          show (s.vsize + 8) % U64 = 8 * (h.entries ++ [({ addr := addr, slot := none } : AddrEntry)]).length
          rw [h2 s hs hsid, List.length_append, List.length_singleton]
          have := hb.len
          rw [Nat.mod_eq_of_lt (by omega)]; omega
        · rw [if_neg hc] at hid'
          exfalso; apply hc; simpa using hid'
    | none =>
      rw [newSection_addrtab]
      dsimp only
      have hnil := hb.noTab hat
      have hinv0 := newSection_inv h ".addrtab" 8 2147483647 (by omega) hb.inv
      rw [newSection_addrtab] at hinv0
      dsimp only at hinv0
      have hkeys := modifySec_keys (insertByOrder (addrTabSection h.secs.length) h.secs) h.secs.length
          (fun s => { s with vsize := (s.vsize + 8) % U64 }) (fun s => ⟨rfl, rfl, rfl⟩)
      refine ⟨InvS.transfer hkeys hinv0, ?_, ?_, ?_, ?_⟩
      · intro e he
        rw [hnil] at he; simp at he; rw [he]
      · rw [hnil]; simp
      · intro hc; cases hc
      · intro aid haid
        cases haid
        refine ⟨by
          show h.secs.length < (modifySec _ _ _).length
          rw [hkeys.length_eq, length_insertByOrder]; omega, ?_⟩
        intro s' hs' hid'
        obtain ⟨s, hs, rfl⟩ := mem_modifySec hs'
        by_cases hc : (s.id == h.secs.length) = true
        · rw [if_pos hc]
          rcases mem_insertByOrder.mp hs with rfl | hs
          · rw [hnil]; simp [U64, addrTabSection]
          · have := hb.inv.ids s hs
            have : s.id = h.secs.length := by simpa using hc
            omega
        · rw [if_neg hc] at hid'
          exfalso; apply hc; simpa using hid'

theorem init_binv : BInv init 0 :=
  ⟨init_inv, by simp [init], by simp [init], by simp [init], by intro id h; simp [init] at h⟩

theorem step_binv {h : Holder} {n : Nat} (hb : BInv h n) (op : Op) (hok : okOp h op) (hn : 8 * (n + 1) < U64) :
    BInv (step h op) (n + 1) := by
  cases op with
  | newSection nm a o =>
    exact (newSection_binv hb nm a o.toInt (by have := BitVec.le_toInt o; simp at this; omega)).mono (Nat.le_succ n)
  | appendData id b =>
    simp only [step]; unfold appendData
    split
    · exact hb.mono (by omega)
    · dsimp only
      exact (hb.modify id (fun s => { s with data := s.data ++ b }) (fun s => ⟨rfl, rfl, rfl⟩) (Or.inl fun s => rfl)).mono (Nat.le_succ n)
  | setVsize id v =>
    simp only [step]; unfold setVsize
    split
    · exact hb.mono (by omega)
    · dsimp only
      exact (hb.modify id (fun s => { s with vsize := v % U64 }) (fun s => ⟨rfl, rfl, rfl⟩) (Or.inr hok)).mono (Nat.le_succ n)
  | addAddress a => exact addAddress_binv hb _ hn
  | emitCall id j a =>
    simp only [step]; unfold emitCall
    split
    · exact hb.mono (by omega)
    · have h1 := addAddress_binv hb (a % U64) hn
      have h2 := h1.modify id (fun s => { s with data := s.data ++ [0x40, if j then 0xE9 else 0xE8, 0, 0, 0, 0] })
        (fun s => ⟨rfl, rfl, rfl⟩) (Or.inl fun s => rfl)
      exact ⟨h2.inv, h2.slots, h2.len, h2.noTab, h2.tab⟩
  | flatten => exact absurd hok (by simp [okOp])
  | relocate b => exact absurd hok (by simp [okOp])
  | reinit => exact init_binv.mono (Nat.zero_le _)

theorem foldl_binv (ops : List Op) (h : Holder) (n : Nat) (hb : BInv h n) (hok : BuildOK h ops) (hn : 8 * (n + ops.length + 1) < U64) :
    BInv (ops.foldl step h) (n + ops.length) := by
  induction ops generalizing h n with
  | nil => simpa using hb
  | cons op rest ih =>
    simp only [List.foldl_cons, List.length_cons] at hn ⊢
    have := ih (step h op) (n + 1) (step_binv hb op hok.1 (by omega)) hok.2 (by omega)
    have he : n + (rest.length + 1) = n + 1 + rest.length := by omega
    rw [he]; exact this

/-- what the first relocation needs holds after every build history -/
theorem build_addrTabOK (ops : List Op) (hok : BuildOK init ops) (hl : ops.length < 2 ^ 60) : AddrTabOK (run ops) := by
  have hb := foldl_binv ops init 0 init_binv hok (by unfold U64; omega)
  refine ⟨hb.slots, ?_⟩
  intro id hid s hs hsid
  have := (hb.tab id hid).2 s hs hsid
  unfold Section.realSize
  unfold run; omega

/-- … and still after a `flatten` of the built table -/
theorem flatten_addrTabOK (h : Holder) (hinv : InvS h.secs) (hat : AddrTabOK h) : AddrTabOK (flatten h).1 := by
  unfold flatten
  split
  · rename_i hc
    have hfit := (flattenCheck_iff 0 h.secs hinv.pre (by unfold U64; omega)).mp hc
    obtain ⟨_, _, hC, _⟩ := assign_good 0 h.secs hinv.pre hfit
    refine ⟨hat.1, ?_⟩
    intro id hid s' hs' hsid
    obtain ⟨a, ha, hab⟩ := hC.mem_right s' hs'
    have := hat.2 id hid a ha (by rw [← hab.1]; exact hsid)
    have := hab.2.2.2.2.2.1
    show 8 * h.entries.length ≤ s'.realSize
    omega
  · exact hat

end AsmjitVerif.Sections
