/-
C01 helper lemmas, spec side: LEGACY-space forms with a MEMORY operand - the parser on [seg]? [67]? [66|F3|F2]? [REX]? escape opcode ModRM
SIB? disp imm*, and the shape lemmas of the monitor ([reg, MEM] / [MEM, reg] / [reg, MEM, imm8]).
-/
import AsmjitVerif.Lemmas.X86ParseMem
import AsmjitVerif.Lemmas.X86ParseLeg8
set_option linter.constructorNameAsVariable false
set_option linter.unusedSimpArgs false
set_option linter.unusedVariables false
namespace AsmjitVerif.Lemmas.X86Parse
open Spec.X86

/-- at most three legacy prefix bytes (segment override, 67, one of 66 / F3 / F2) -/
def PfxList3 (fw : Bool) (pfx : List (BitVec 8)) : Prop :=
  PfxList fw pfx ∨ (∃ a b c, pfx = [a, b, c] ∧ isLegacyPrefix a fw = true ∧ isLegacyPrefix b fw = true ∧ isLegacyPrefix c fw = true)

/-- legacy memory form (64-bit mode) -/
theorem parse_legacy_mem (r : Rule) (pfx : List (BitVec 8)) (rex : Option (BitVec 8)) (o mb : BitVec 8) (sib : Option (BitVec 8)) (disp imm : List (BitVec 8))
    (hpfx : PfxList3 (r.pp &&& 8 != 0) pfx)
    (hs : r.space = 0) (hfw : r.pp &&& 8 = 0) (hmap : r.map < 4) (hmk : r.modKind ≠ 0)
    (hrex : ∀ b, rex = some b → b.toNat / 16 = 4 ∧ isLegacyPrefix b false = false)
    (ho : r.map = 0 → isLegacyPrefix o false = false ∧ (rex = none → o.toNat / 16 ≠ 4))
    (hmod : bits mb 6 2 ≠ 3) (hsib : (bits mb 0 3 == 4) = sib.isSome) (hdl : disp.length = dispLen mb sib)
    (hlen : imm.length = r.immBytes + r.relBytes) (hmoff : r.moff = false) :
    parse true r (pfx ++ (rex.toList ++ (legacyEscape r.map ++ o :: mb :: (sib.toList ++ disp ++ imm)))) =
      .ok { prefixes := pfx, rex := rex,
            W := rexBit rex 3, R := rexBit rex 2, X := rexBit rex 1, B := rexBit rex 0,
            map := r.map, opcode := o, modrm := some mb, sib := sib, dispSize := disp.length, disp := leNat disp, addr16 := false, imm := imm,
            length := pfx.length + rex.toList.length + (legacyEscape r.map).length + 2 + sib.toList.length + disp.length + imm.length } := by
  have hmap' : r.map = 0 ∨ r.map = 1 ∨ r.map = 2 ∨ r.map = 3 := by omega
  have hmk' : (r.modKind != 0) = true := by simpa using hmk
  have hfw' : (r.pp &&& 8 != 0) = false := by simp [hfw]
  rw [hfw'] at hpfx
  cases rex with
  | none =>
    rcases hmap' with m | m | m | m
    · obtain ⟨ho1, ho2⟩ := ho m
      have ho2' := ho2 rfl
      rcases hpfx with (h | ⟨a, h, ha⟩ | ⟨a, b, h, ha, hb⟩) | ⟨a, b, c, h, ha, hb, hc⟩ <;> subst h <;>
        (simp [-List.append_assoc, parse, takePrefixes, isLP_0F, rexBit, legacyEscape, parseModRM_mem _ mb sib disp imm hmod hsib hdl, bind, Except.bind, pure, Except.pure,
          m, hs, hfw, hmk', hlen, hmoff, ho1, ho2', *]; cases sib <;> simp <;> omega)
    all_goals
      rcases hpfx with (h | ⟨a, h, ha⟩ | ⟨a, b, h, ha, hb⟩) | ⟨a, b, c, h, ha, hb, hc⟩ <;> subst h <;>
        (simp [-List.append_assoc, parse, takePrefixes, isLP_0F, rexBit, legacyEscape, parseModRM_mem _ mb sib disp imm hmod hsib hdl, bind, Except.bind, pure, Except.pure,
          m, hs, hfw, hmk', hlen, hmoff, *]; cases sib <;> simp <;> omega)
  | some b =>
    obtain ⟨hb1, hb2⟩ := hrex b rfl
    rcases hmap' with m | m | m | m
    all_goals
      rcases hpfx with (h | ⟨a', h, ha⟩ | ⟨a', b', h, ha, hb⟩) | ⟨a', b', c', h, ha, hb, hc⟩ <;> subst h <;>
        (simp [-List.append_assoc, parse, takePrefixes, isLP_0F, rexBit, legacyEscape, parseModRM_mem _ mb sib disp imm hmod hsib hdl, bind, Except.bind, pure, Except.pure,
          m, hs, hfw, hmk', hlen, hmoff, hb1, hb2, *]; cases sib <;> simp <;> omega)

/-- what the parser returned for a legacy MEMORY form -/
structure LegParsedM (rule : Rule) (p : Parsed) (mb : BitVec 8) (pfx : List (BitVec 8)) : Prop where
  hvk : p.vexKind = 0
  hpfx : p.prefixes = pfx
  hmodrm : p.modrm = some mb
  hmod : bits mb 6 2 ≠ 3
  hop : p.opcode.toNat = rule.opcode
  hw : wWant rule = 2 ∨ p.W = (wWant rule == 1)
  hR' : p.R' = false

/-- the legacy prefixes are exactly the ones the form (`pp`) and the memory operand ask for -/
structure PfxCountsL (pfx : List (BitVec 8)) (m : MemOp) (pp : Nat) : Prop where
  c66 : pfx.count 0x66#8 = (if pp == 1 then 1 else 0)
  cF3 : pfx.count 0xF3#8 = (if pp == 2 then 1 else 0)
  cF2 : pfx.count 0xF2#8 = (if pp == 3 then 1 else 0)
  cF0 : pfx.count 0xF0#8 = 0
  c9B : pfx.count 0x9B#8 = 0
  cseg : pfx.filter isSegByte = (match segPrefix m.seg with | some s => [s] | Option.none => [])
  c67 : pfx.count 0x67#8 ≤ 1
  ccont : pfx.contains 0x67#8 = (wantedAddrSize true m != 64)

/-- rule side for legacy memory forms; `d` = the ModRM.reg digit of the form (8: none, `/r`) -/
structure LegRuleMD (rule : Rule) (nimm pp d : Nat) : Prop where
  hs : rule.space = 0
  hpp8 : rule.pp &&& 8 = 0
  h66 : (rule.pp &&& 1 != 0 || rule.osz == 16) = (pp == 1)
  hF3 : (rule.pp &&& 2 != 0) = (pp == 2)
  hF2 : (rule.pp &&& 4 != 0) = (pp == 3)
  hpplt : pp < 4
  hri : rule.ri = false
  hmk : rule.modKind = 1 ∨ rule.modKind = 3
  hmr : rule.modr = d
  hmrm : rule.modrm = 8
  himm : rule.immBytes = nimm
  hrel : rule.relBytes = 0
  hmoff : rule.moff = false
  ha67 : rule.a67 = false
  hrev : rule.immRev = false

abbrev LegRuleM (rule : Rule) (nimm pp : Nat) : Prop := LegRuleMD rule nimm pp 8

/-- legacy shape [reg, MEM] -/
theorem leg_rm_mem_formOk (ctx : Spec.X86.Ctx) (rule : Rule) (p : Parsed) (mb : BitVec 8) (bytes pfx : List (BitVec 8)) (pp : Nat)
    (k0 : RegKind) (f0 f1 : FormOp) (i0 : Nat) (m : MemOp)
    (hm64 : ctx.mode64 = true) (hmode : (rule.modes &&& 2 != 0) = true) (hk0 : PlainKind k0)
    (R : LegRuleM rule 0 pp) (hf0 : f0.role = .reg) (hf1 : f1.role = .rm)
    (K : PfxCountsL pfx m pp) (hvs : vsibOf m = .none) (hbc : m.bcst = 0)
    (hal : alignOps rule.oszEff rule.ops [.reg k0 i0, .mem m] = some [(f0, some (.reg k0 i0)), (f1, some (.mem m))])
    (hparse : parse true rule bytes = .ok p) (P : LegParsedM rule p mb pfx)
    (hreg : regNum false p.R (bits mb 3 3) = i0)
    (hcm : checkMem ctx rule p m = .ok ()) :
    formOk ctx rule [.reg k0 i0, .mem m] {} bytes = true := by
  obtain ⟨hvk, hpfx, hmodrm, hmod, hop, hw, hR'⟩ := P
  obtain ⟨hs, hpp8, h66, hF3, hF2, hpplt, hri, hmk, hmr, hmrm, himm, hrel, hmoff, ha67, hrev⟩ := R
  obtain ⟨c66, cF3, cF2, cF0, c9B, cseg, c67, ccont⟩ := K
  have hleg : isLegacySpace rule = true := by simp [isLegacySpace, hs]
  have hmod' : (bits mb 6 2 == 3) = false := by simpa using hmod
  simp only [formOk, conds, hm64, hal, hparse, ↓reduceIte, hmode]
  simp only [allOk_cons, allOk_append, decorConds, headConds, prefixConds, modrmConds, operandConds, opConds, tailConds, hf0, hf1,
    regConds_plain _ _ _ _ _ hk0, allOk_nil, memOperandOf, implMemOf, usesVvvv, memDestOf, hcm, Spec.X86.ofExcept,
    hasBcst, hleg, hri, hmodrm, hpfx, hvk, c66, cF3, cF2, cF0, c9B, cseg, ccont, h66, hF3, hF2, hR', List.foldl, List.find?]
  simp [hop, hreg, hmod', hmr, hmrm, hs, hpp8, ha67, hbc, hvs, hm64, allOk]
  and_intros
  all_goals first
    | exact hw
    | exact c67
    | rfl
    | (cases segPrefix m.seg <;> rfl)
    | (refine Or.inr ?_; simpa using ccont)
    | (rcases hmk with h | h <;> omega)
    | omega
    | simp_all
/-- legacy shape [MEM, reg] -/
theorem leg_mr_mem_formOk (ctx : Spec.X86.Ctx) (rule : Rule) (p : Parsed) (mb : BitVec 8) (bytes pfx : List (BitVec 8)) (pp : Nat)
    (k0 : RegKind) (f0 f1 : FormOp) (i0 : Nat) (m : MemOp)
    (hm64 : ctx.mode64 = true) (hmode : (rule.modes &&& 2 != 0) = true) (hk0 : PlainKind k0)
    (R : LegRuleM rule 0 pp) (hf0 : f0.role = .rm) (hf1 : f1.role = .reg)
    (K : PfxCountsL pfx m pp) (hvs : vsibOf m = .none) (hbc : m.bcst = 0)
    (hal : alignOps rule.oszEff rule.ops [.mem m, .reg k0 i0] = some [(f0, some (.mem m)), (f1, some (.reg k0 i0))])
    (hparse : parse true rule bytes = .ok p) (P : LegParsedM rule p mb pfx)
    (hreg : regNum false p.R (bits mb 3 3) = i0)
    (hcm : checkMem ctx rule p m = .ok ()) :
    formOk ctx rule [.mem m, .reg k0 i0] {} bytes = true := by
  obtain ⟨hvk, hpfx, hmodrm, hmod, hop, hw, hR'⟩ := P
  obtain ⟨hs, hpp8, h66, hF3, hF2, hpplt, hri, hmk, hmr, hmrm, himm, hrel, hmoff, ha67, hrev⟩ := R
  obtain ⟨c66, cF3, cF2, cF0, c9B, cseg, c67, ccont⟩ := K
  have hleg : isLegacySpace rule = true := by simp [isLegacySpace, hs]
  have hmod' : (bits mb 6 2 == 3) = false := by simpa using hmod
  simp only [formOk, conds, hm64, hal, hparse, ↓reduceIte, hmode]
  simp only [allOk_cons, allOk_append, decorConds, headConds, prefixConds, modrmConds, operandConds, opConds, tailConds, hf0, hf1,
    regConds_plain _ _ _ _ _ hk0, allOk_nil, memOperandOf, implMemOf, usesVvvv, memDestOf, hcm, Spec.X86.ofExcept,
    hasBcst, hleg, hri, hmodrm, hpfx, hvk, c66, cF3, cF2, cF0, c9B, cseg, ccont, h66, hF3, hF2, hR', List.foldl, List.find?]
  simp [hop, hreg, hmod', hmr, hmrm, hs, hpp8, ha67, hbc, hvs, hm64, allOk]
  and_intros
  all_goals first
    | exact hw
    | exact c67
    | rfl
    | (cases segPrefix m.seg <;> rfl)
    | (refine Or.inr ?_; simpa using ccont)
    | (rcases hmk with h | h <;> omega)
    | omega
    | simp_all
/-- legacy shape [MEM] (one memory operand; `/r` with a free reg field, or an opcode-extension digit `/d`) -/
theorem leg_m_mem_formOk (ctx : Spec.X86.Ctx) (rule : Rule) (p : Parsed) (mb : BitVec 8) (bytes pfx : List (BitVec 8)) (pp d : Nat)
    (f0 : FormOp) (m : MemOp)
    (hm64 : ctx.mode64 = true) (hmode : (rule.modes &&& 2 != 0) = true)
    (R : LegRuleMD rule 0 pp d) (hdig : d < 8 → bits mb 3 3 = d) (hf0 : f0.role = .rm)
    (K : PfxCountsL pfx m pp) (hvs : vsibOf m = .none) (hbc : m.bcst = 0)
    (hal : alignOps rule.oszEff rule.ops [.mem m] = some [(f0, some (.mem m))])
    (hparse : parse true rule bytes = .ok p) (P : LegParsedM rule p mb pfx)
    (hcm : checkMem ctx rule p m = .ok ()) :
    formOk ctx rule [.mem m] {} bytes = true := by
  obtain ⟨hvk, hpfx, hmodrm, hmod, hop, hw, hR'⟩ := P
  obtain ⟨hs, hpp8, h66, hF3, hF2, hpplt, hri, hmk, hmr, hmrm, himm, hrel, hmoff, ha67, hrev⟩ := R
  obtain ⟨c66, cF3, cF2, cF0, c9B, cseg, c67, ccont⟩ := K
  have hleg : isLegacySpace rule = true := by simp [isLegacySpace, hs]
  have hmod' : (bits mb 6 2 == 3) = false := by simpa using hmod
  simp only [formOk, conds, hm64, hal, hparse, ↓reduceIte, hmode]
  simp only [allOk_cons, allOk_append, decorConds, headConds, prefixConds, modrmConds, operandConds, opConds, tailConds, hf0,
    allOk_nil, memOperandOf, implMemOf, usesVvvv, memDestOf, hcm, Spec.X86.ofExcept,
    hasBcst, hleg, hri, hmodrm, hpfx, hvk, c66, cF3, cF2, cF0, c9B, cseg, ccont, h66, hF3, hF2, hR', List.foldl, List.find?]
  simp [hop, hmod', hmr, hmrm, hs, hpp8, ha67, hbc, hvs, hm64, allOk]
  and_intros
  all_goals first
    | exact hw
    | exact c67
    | rfl
    | (cases segPrefix m.seg <;> rfl)
    | (refine Or.inr ?_; simpa using ccont)
    | (rcases hmk with h | h <;> omega)
    | (intro hh; have := hdig hh; omega)
    | (intro hh; exact hdig hh)
    | omega
    | simp_all
/-- legacy shape [MEM, imm] (digit form, immediate of any width: its own conditions are the hypothesis `hic`) -/
theorem leg_mi_mem_formOk (ctx : Spec.X86.Ctx) (rule : Rule) (p : Parsed) (mb : BitVec 8) (bytes pfx : List (BitVec 8)) (pp d nimm : Nat)
    (f0 f3 : FormOp) (m : MemOp) (v : BitVec 64)
    (hm64 : ctx.mode64 = true) (hmode : (rule.modes &&& 2 != 0) = true)
    (R : LegRuleMD rule nimm pp d) (hdig : d < 8 → bits mb 3 3 = d) (hf0 : f0.role = .rm)
    (hic : allOk (opConds ctx rule p 0 f3 (.imm v)).1 = true)
    (K : PfxCountsL pfx m pp) (hvs : vsibOf m = .none) (hbc : m.bcst = 0)
    (hal : alignOps rule.oszEff rule.ops [.mem m, .imm v] = some [(f0, some (.mem m)), (f3, some (.imm v))])
    (hparse : parse true rule bytes = .ok p) (P : LegParsedM rule p mb pfx)
    (hcm : checkMem ctx rule p m = .ok ()) :
    formOk ctx rule [.mem m, .imm v] {} bytes = true := by
  obtain ⟨hvk, hpfx, hmodrm, hmod, hop, hw, hR'⟩ := P
  obtain ⟨hs, hpp8, h66, hF3, hF2, hpplt, hri, hmk, hmr, hmrm, himm, hrel, hmoff, ha67, hrev⟩ := R
  obtain ⟨c66, cF3, cF2, cF0, c9B, cseg, c67, ccont⟩ := K
  have hleg : isLegacySpace rule = true := by simp [isLegacySpace, hs]
  have hmod' : (bits mb 6 2 == 3) = false := by simpa using hmod
  have h2 : (opConds ctx rule p 0 f0 (.mem m)).2 = 0 := by simp [opConds, hf0, hmodrm]
  simp only [formOk, conds, hm64, hal, hparse, ↓reduceIte, hmode]
  simp only [operandConds, h2]
  generalize opConds ctx rule p 0 f3 (.imm v) = X at hic ⊢
  simp only [allOk_cons, allOk_append, decorConds, headConds, prefixConds, modrmConds, operandConds, opConds, tailConds, hf0,
    allOk_nil, memOperandOf, implMemOf, usesVvvv, memDestOf, hcm, hic, Spec.X86.ofExcept,
    hasBcst, hleg, hri, hmodrm, hpfx, hvk, c66, cF3, cF2, cF0, c9B, cseg, ccont, h66, hF3, hF2, hR', List.foldl, List.find?]
  simp [hop, hmod', hmr, hmrm, hs, hpp8, ha67, hbc, hvs, hm64, allOk]
  and_intros
  all_goals first
    | exact hw
    | exact c67
    | rfl
    | (cases segPrefix m.seg <;> rfl)
    | (refine Or.inr ?_; simpa using ccont)
    | (rcases hmk with h | h <;> omega)
    | (intro hh; have := hdig hh; omega)
    | (intro hh; exact hdig hh)
    | omega
    | simp_all
/-- legacy shape [MEM, register not encoded] (shift by CL: the fixed register has role none; `hic`: its conditions) -/
theorem leg_mreg_mem_formOk (ctx : Spec.X86.Ctx) (rule : Rule) (p : Parsed) (mb : BitVec 8) (bytes pfx : List (BitVec 8)) (pp d nimm : Nat)
    (f0 f3 : FormOp) (m : MemOp) (k1 : RegKind) (i1 : Nat)
    (hm64 : ctx.mode64 = true) (hmode : (rule.modes &&& 2 != 0) = true)
    (R : LegRuleMD rule nimm pp d) (hdig : d < 8 → bits mb 3 3 = d) (hf0 : f0.role = .rm)
    (hic : allOk (opConds ctx rule p 0 f3 (.reg k1 i1)).1 = true)
    (K : PfxCountsL pfx m pp) (hvs : vsibOf m = .none) (hbc : m.bcst = 0)
    (hal : alignOps rule.oszEff rule.ops [.mem m, .reg k1 i1] = some [(f0, some (.mem m)), (f3, some (.reg k1 i1))])
    (hparse : parse true rule bytes = .ok p) (P : LegParsedM rule p mb pfx)
    (hcm : checkMem ctx rule p m = .ok ()) :
    formOk ctx rule [.mem m, .reg k1 i1] {} bytes = true := by
  obtain ⟨hvk, hpfx, hmodrm, hmod, hop, hw, hR'⟩ := P
  obtain ⟨hs, hpp8, h66, hF3, hF2, hpplt, hri, hmk, hmr, hmrm, himm, hrel, hmoff, ha67, hrev⟩ := R
  obtain ⟨c66, cF3, cF2, cF0, c9B, cseg, c67, ccont⟩ := K
  have hleg : isLegacySpace rule = true := by simp [isLegacySpace, hs]
  have hmod' : (bits mb 6 2 == 3) = false := by simpa using hmod
  have h2 : (opConds ctx rule p 0 f0 (.mem m)).2 = 0 := by simp [opConds, hf0, hmodrm]
  simp only [formOk, conds, hm64, hal, hparse, ↓reduceIte, hmode]
  simp only [operandConds, h2]
  generalize opConds ctx rule p 0 f3 (.reg k1 i1) = X at hic ⊢
  simp only [allOk_cons, allOk_append, decorConds, headConds, prefixConds, modrmConds, operandConds, opConds, tailConds, hf0,
    allOk_nil, memOperandOf, implMemOf, usesVvvv, memDestOf, hcm, hic, Spec.X86.ofExcept,
    hasBcst, hleg, hri, hmodrm, hpfx, hvk, c66, cF3, cF2, cF0, c9B, cseg, ccont, h66, hF3, hF2, hR', List.foldl, List.find?]
  simp [hop, hmod', hmr, hmrm, hs, hpp8, ha67, hbc, hvs, hm64, allOk]
  and_intros
  all_goals first
    | exact hw
    | exact c67
    | rfl
    | (cases segPrefix m.seg <;> rfl)
    | (refine Or.inr ?_; simpa using ccont)
    | (rcases hmk with h | h <;> omega)
    | (intro hh; have := hdig hh; omega)
    | (intro hh; exact hdig hh)
    | omega
    | simp_all
/-- legacy shape [reg, MEM, imm8] -/
theorem leg_rmi_mem_formOk (ctx : Spec.X86.Ctx) (rule : Rule) (p : Parsed) (mb : BitVec 8) (bytes pfx : List (BitVec 8)) (pp : Nat)
    (k0 : RegKind) (f0 f1 : FormOp) (i0 : Nat) (m : MemOp)
    (hm64 : ctx.mode64 = true) (hmode : (rule.modes &&& 2 != 0) = true) (hk0 : PlainKind k0)
    (R : LegRuleM rule 1 pp) (f3 : FormOp) (v : BitVec 64) (hf3 : f3.role = .imm) (hib : immBitsOf f3 = 8) (hsg : (immSignOf f3 == 1) = false)
    (himmp : p.imm = [BitVec.ofNat 8 v.toNat]) (hf0 : f0.role = .reg) (hf1 : f1.role = .rm)
    (K : PfxCountsL pfx m pp) (hvs : vsibOf m = .none) (hbc : m.bcst = 0)
    (hal : alignOps rule.oszEff rule.ops [.reg k0 i0, .mem m, .imm v] = some [(f0, some (.reg k0 i0)), (f1, some (.mem m)), (f3, some (.imm v))])
    (hparse : parse true rule bytes = .ok p) (P : LegParsedM rule p mb pfx)
    (hreg : regNum false p.R (bits mb 3 3) = i0)
    (hcm : checkMem ctx rule p m = .ok ()) :
    formOk ctx rule [.reg k0 i0, .mem m, .imm v] {} bytes = true := by
  obtain ⟨hvk, hpfx, hmodrm, hmod, hop, hw, hR'⟩ := P
  obtain ⟨hs, hpp8, h66, hF3, hF2, hpplt, hri, hmk, hmr, hmrm, himm, hrel, hmoff, ha67, hrev⟩ := R
  obtain ⟨c66, cF3, cF2, cF0, c9B, cseg, c67, ccont⟩ := K
  have hleg : isLegacySpace rule = true := by simp [isLegacySpace, hs]
  have hmod' : (bits mb 6 2 == 3) = false := by simpa using hmod
  simp only [formOk, conds, hm64, hal, hparse, ↓reduceIte, hmode]
  simp only [allOk_cons, allOk_append, decorConds, headConds, prefixConds, modrmConds, operandConds, opConds, tailConds, hf0, hf1, hf3, hib, hsg, himmp, immBytesOf, hrev, Bool.false_and, Bool.false_eq_true,
    regConds_plain _ _ _ _ _ hk0, allOk_nil, memOperandOf, implMemOf, usesVvvv, memDestOf, hcm, Spec.X86.ofExcept,
    hasBcst, hleg, hri, hmodrm, hpfx, hvk, c66, cF3, cF2, cF0, c9B, cseg, ccont, h66, hF3, hF2, hR', List.foldl, List.find?]
  simp [hop, hreg, hmod', hmr, hmrm, hs, hpp8, ha67, hbc, hvs, hm64, allOk, leBytes]
  and_intros
  all_goals first
    | exact hw
    | exact c67
    | rfl
    | (cases segPrefix m.seg <;> rfl)
    | (refine Or.inr ?_; simpa using ccont)
    | (rcases hmk with h | h <;> omega)
    | omega
    | simp_all

end AsmjitVerif.Lemmas.X86Parse
