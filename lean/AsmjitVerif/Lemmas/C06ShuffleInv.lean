/- C06 part 2 – the invariant of the register phase of emit_args_assignment and the step lemma of the `EmitMove:` block. -/
import AsmjitVerif.Lemmas.C06ShuffleBase
namespace AsmjitVerif.C06S
open AsmjitVerif.CallConv AsmjitVerif.Shuffle AsmjitVerif.Machine

theorem getD_set_eq {α} (l : List α) (i : Nat) (x d : α) (h : i < l.length) : (l.set i x).getD i d = x := by
  simp [List.getD_eq_getElem?_getD, h]
theorem getD_set_ne {α} (l : List α) (i j : Nat) (x d : α) (h : i ≠ j) : (l.set i x).getD j d = l.getD j d := by
  simp [List.getD_eq_getElem?_getD, List.getElem?_set_ne h]

/-! ### context accessors -/
theorem w_setW_eq (c : Ctx) (g : Nat) (w : WorkData) (h : g < c.wd.length) : (c.setW g w).w g = w := by
  unfold Ctx.setW Ctx.w; exact getD_set_eq _ _ _ _ h
theorem w_setW_ne (c : Ctx) (g g' : Nat) (w : WorkData) (h : g ≠ g') : (c.setW g w).w g' = c.w g' := by
  unfold Ctx.setW Ctx.w; exact getD_set_ne _ _ _ _ _ h
theorem var_setW (c : Ctx) (g : Nat) (w : WorkData) (j : Nat) : (c.setW g w).var j = c.var j := rfl
theorem w_setVar (c : Ctx) (i : Nat) (x : Var) (g : Nat) : (c.setVar i x).w g = c.w g := rfl
theorem var_setVar_eq (c : Ctx) (i : Nat) (x : Var) (h : i < c.vars.length) : (c.setVar i x).var i = x := by
  unfold Ctx.setVar Ctx.var; exact getD_set_eq _ _ _ _ h
theorem var_setVar_ne (c : Ctx) (i j : Nat) (x : Var) (h : i ≠ j) : (c.setVar i x).var j = c.var j := by
  unfold Ctx.setVar Ctx.var; exact getD_set_ne _ _ _ _ _ h

def physAt (c : Ctx) (g r : Nat) : Option Nat := (c.w g).phys.getD r none

def vloc (v : Var) : Loc := .reg (groupOf v.cur.regType) v.cur.regId
def oloc (v : Var) : Loc := .reg (groupOf v.out.regType) v.out.regId

/-- the instruction `emit_arg_move` selects for (destination register type/type, source register type/type) and registers
    `d ← s` is a plain two-register move inside the group whose effect turns the token `tok` into destination form
    (`true` when nothing is selected: an error is no claim) -/
def moveOkAt (cfg : Cfg) (vis : List VarInfo) (rtD tD rtS tS : Nat) (tok : Tok) (d s : Nat) : Bool :=
  match argMove cfg rtD d tD (.reg rtS s) tS with
  | none => true
  | some i =>
    match i.ops with
    | [.reg rd d', .reg rs s'] =>
      d' == d && s' == s && groupOf rd == groupOf rtD && groupOf rs == groupOf rtS && i.name != .xchg &&
        (match effect i.name rd (regBytes rs) with
         | some (k, c, w) => (moveTok vis tok k c w).dv
         | none => false)
    | _ => false

/-- what `xchg` does to a token, by the width of the exchange -/
def swapTok (vis : List VarInfo) (rt : Nat) (t : Tok) : Tok :=
  if regBytes rt ≤ 4 then moveTok vis t .zero 4 8 else moveTok vis t .none 8 8

/-- the register type of the exchange: the wider of the two, at least 32 bits -/
def swapRt (a b : Nat) : Nat := let hi := max a b; if 2 ≤ hi && hi ≤ 4 then 5 else hi

structure Params where
  cfg : Cfg
  f : FrameIn
  n : Nat
  src0 : List FuncValue
  out0 : List FuncValue
  vis : List VarInfo
  M0 : State

def Params.src (p : Params) (i : Nat) : FuncValue := p.src0.getD i (.ofType 0)
def Params.out (p : Params) (i : Nat) : FuncValue := p.out0.getD i (.ofType 0)

/-- hypotheses on the typed move selection (`first`, `again`) and on the inputs (`visOk`, `swapInt`): see `Props/C06.lean` -/
structure Hyp (p : Params) : Prop where
  first : ∀ i d s, i < p.n → d < 32 → s < 32 → (p.src i).isReg = true →
    moveOkAt p.cfg p.vis (p.out i).regType (p.out i).typeId (p.src i).regType (p.src i).typeId (initTok p.vis i) d s = true
  again : ∀ i d s b, i < p.n → d < 32 → s < 32 →
    moveOkAt p.cfg p.vis (p.out i).regType (p.out i).typeId (p.out i).regType (p.out i).typeId ⟨i, b, true⟩ d s = true
  /-- the variable infos the machine judges with are those of the sources / destinations -/
  visOk : ∀ i, i < p.n → p.vis[i]? = some ⟨(p.src i).typeId, (p.out i).typeId⟩
  /-- register-resident variables of a group with an exchange instruction (x86 GP) are integers that fit their registers -/
  swapInt : ∀ i, i < p.n → (p.src i).isReg = true → hasSwap p.cfg.arch (groupOf (p.out i).regType) = true →
    isInt (p.src i).typeId = true ∧ isAbstract (p.src i).typeId = false ∧
    isInt (p.out i).typeId = true ∧ isAbstract (p.out i).typeId = false ∧
    tySize (p.src i).typeId ≤ regBytes (p.src i).regType ∧ tySize (p.out i).typeId ≤ regBytes (p.out i).regType

/-- the token a variable's current register holds -/
def Form (p : Params) (i : Nat) (v : Var) (tok : Tok) : Prop :=
  (v.cur.typeId = (p.src i).typeId ∧ v.cur.regType = (p.src i).regType ∧ tok.sv = true ∧
    ((initTok p.vis i).dv = true → tok.dv = true)) ∨
  (v.cur.typeId = v.out.typeId ∧ v.cur.regType = v.out.regType ∧ tok.dv = true)

structure VarOK (p : Params) (c : Ctx) (M : State) (i : Nat) (v : Var) : Prop where
  out : v.out = p.out i
  curReg : v.cur.isReg = true
  notStk : v.cur.isStack = false
  outReg : v.out.isReg = true
  outInit : v.outInit = true
  grp : groupOf v.cur.regType = groupOf v.out.regType
  grpLt : groupOf v.out.regType < 4
  curLt : v.cur.regId < 32
  outLt : v.out.regId < 32
  phys : physAt c (groupOf v.cur.regType) v.cur.regId = some i
  tok : ∃ tok, M.get (vloc v) = some tok ∧ tok.var = i ∧ (v.done = false → Form p i v tok) ∧
        (v.done = true → v.cur.regId = v.out.regId ∧ tok.dv = true)
  /-- a register variable that is not done arrived in a register (stack arguments are loaded straight into their destination) -/
  srcReg : v.done = false → (p.src i).isReg = true

/-- a variable that still sits in its incoming stack slot (phase 3 loads it): never touched, token in source form -/
structure StkOK (p : Params) (M : State) (i : Nat) (v : Var) : Prop where
  out : v.out = p.out i
  cur : v.cur = p.src i
  isStk : v.cur.isStack = true
  direct : v.cur.isIndirect = false
  notDone : v.done = false
  outReg : v.out.isReg = true
  outInit : v.outInit = true
  grpLt : groupOf v.out.regType < 4
  outLt : v.out.regId < 32
  tok : M.get (.argStack v.cur.stackOffset) = some (initTok p.vis i)

structure WF (p : Params) (e : Emit) (M : State) : Prop where
  len : e.ctx.vars.length = p.n
  wdlen : e.ctx.wd.length = 4
  physlen : ∀ g, g < 4 → (e.ctx.w g).phys.length = 32
  runs : run p.vis p.f p.cfg.arch p.M0 e.out = some M
  var : ∀ i, i < p.n → (e.ctx.var i).cur.isReg = true → VarOK p e.ctx M i (e.ctx.var i)
  stk : ∀ i, i < p.n → (e.ctx.var i).cur.isReg = false → StkOK p M i (e.ctx.var i)
  inv : ∀ g r j, g < 4 → r < 32 → physAt e.ctx g r = some j →
    j < p.n ∧ groupOf (e.ctx.var j).cur.regType = g ∧ (e.ctx.var j).cur.regId = r ∧ (e.ctx.var j).cur.isReg = true

theorem moveTok_var (vis : List VarInfo) (t : Tok) (k : Ext) (c w : Nat) : (moveTok vis t k c w).var = t.var := by
  unfold moveTok; split <;> rfl

theorem moveOkAt_elim {cfg : Cfg} {vis : List VarInfo} {rtD tD rtS tS : Nat} {tok : Tok} {d s : Nat} {ins : Inst}
    (h : moveOkAt cfg vis rtD tD rtS tS tok d s = true) (hm : argMove cfg rtD d tD (.reg rtS s) tS = some ins) :
    ∃ rd rs k c w, ins.ops = [.reg rd d, .reg rs s] ∧ groupOf rd = groupOf rtD ∧ groupOf rs = groupOf rtS ∧
      (ins.name == Mn.xchg) = false ∧ effect ins.name rd (regBytes rs) = some (k, c, w) ∧ (moveTok vis tok k c w).dv = true := by
  unfold moveOkAt at h
  rw [hm] at h
  simp only at h
  split at h
  · rename_i rd d' rs s' hops
    simp only [Bool.and_eq_true, beq_iff_eq, bne_iff_ne, ne_eq] at h
    obtain ⟨⟨⟨⟨⟨hd, hs⟩, hgd⟩, hgs⟩, hx⟩, he⟩ := h
    split at he
    · rename_i k c w heff
      exact ⟨rd, rs, k, c, w, by rw [hops, hd, hs], hgd, hgs, by simpa using hx, heff, he⟩
    · exact absurd he (by simp)
  · exact absurd h (by simp)

theorem reassign_getD (w : WorkData) (i new old r : Nat) (hn : new < w.phys.length) (ho : old < w.phys.length) :
    (w.reassign i new old).phys.getD r none =
      if r = new then some i else if r = old then none else w.phys.getD r none := by
  unfold WorkData.reassign
  by_cases h1 : r = new
  · subst h1; simp only [if_true]; exact getD_set_eq _ _ _ _ (by simpa using hn)
  · simp only [h1, if_false]
    rw [getD_set_ne _ _ _ _ _ (fun h => h1 h.symm)]
    by_cases h2 : r = old
    · subst h2; simp only [if_true]; exact getD_set_eq _ _ _ _ ho
    · simp only [h2, if_false]; exact getD_set_ne _ _ _ _ _ (fun h => h2 h.symm)

theorem moveTok_dv_mono (vis : List VarInfo) (i : Nat) (k : Ext) (c w : Nat)
    (h : (moveTok vis ⟨i, true, false⟩ k c w).dv = true) : (moveTok vis ⟨i, true, true⟩ k c w).dv = true := by
  unfold moveTok at h ⊢
  cases hv : vis[i]? with
  | none => simp [hv] at h
  | some vi =>
    simp only [hv] at h ⊢
    simp at h ⊢
    obtain ⟨⟨hnr, hk⟩, h2⟩ := h
    right; rw [← hk]; exact ⟨⟨by rw [hk]; exact hnr, rfl⟩, h2⟩

theorem moveOkAt_mono {cfg : Cfg} {vis : List VarInfo} {rtD tD rtS tS i d s : Nat}
    (h : moveOkAt cfg vis rtD tD rtS tS ⟨i, true, false⟩ d s = true) : moveOkAt cfg vis rtD tD rtS tS ⟨i, true, true⟩ d s = true := by
  unfold moveOkAt at h ⊢
  cases hm : argMove cfg rtD d tD (.reg rtS s) tS with
  | none => rfl
  | some ins =>
    rw [hm] at h; simp only at h ⊢
    split
    · rename_i rd d' rs s' hops
      rw [hops] at h
      simp only [Bool.and_eq_true] at h ⊢
      refine ⟨h.1, ?_⟩
      have h2 := h.2
      split at h2
      · rename_i k c w heff; exact moveTok_dv_mono vis i k c w h2
      · exact absurd h2 (by simp)
    · rename_i hno
      split at h
      · rename_i rd d' rs s' hops; exact absurd hops (hno rd d' rs s')
      · exact absurd h (by simp)

/-- a token in source form (possibly already in destination form) is handled like the initial token -/
theorem moveOkAt_of_form {cfg : Cfg} {vis : List VarInfo} {rtD tD rtS tS i d s : Nat} (tok : Tok)
    (h0 : moveOkAt cfg vis rtD tD rtS tS (initTok vis i) d s = true)
    (htv : tok.var = i) (hsv : tok.sv = true) (hdv0 : (initTok vis i).dv = true → tok.dv = true) :
    moveOkAt cfg vis rtD tD rtS tS tok d s = true := by
  obtain ⟨tv, tsv, tdv⟩ := tok
  simp only at htv hsv hdv0
  subst htv hsv
  have hi0 : initTok vis tv = ⟨tv, true, (initTok vis tv).dv⟩ := rfl
  rw [hi0] at h0
  generalize (initTok vis tv).dv = d0 at h0 hdv0
  cases d0 with
  | true => rw [hdv0 rfl]; exact h0
  | false =>
    cases tdv with
    | false => exact h0
    | true => exact moveOkAt_mono h0

end AsmjitVerif.C06S
