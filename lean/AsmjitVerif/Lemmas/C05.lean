/- Helper lemmas for C05 (validator soundness): the relation transformers of `Model/RAIR.lean` are sound
   w.r.t. the instruction semantics. -/
import AsmjitVerif.Model.RAIR

namespace AsmjitVerif.RAIR

variable {Val : Type}

/-- `E` holds between the registers of the two programs -/
def Holds (E : Rel) (rP rQ : Loc → Val) : Prop := ∀ l v, (l, v) ∈ E → rQ l = rP v

theorem contains_pair {E : Rel} {x : Loc × Loc} (h : E.contains x = true) : x ∈ E := by
  simpa using h

theorem subE_sound {E' E : Rel} (h : subE E' E = true) : ∀ x, x ∈ E' → x ∈ E := by
  intro x hx
  unfold subE at h
  rcases Bool.or_eq_true _ _ |>.mp h with h | h
  · have : E' = E := by simpa using h
    exact this ▸ hx
  · rw [List.all_eq_true] at h
    exact contains_pair (h x hx)

theorem Holds.sub {E' E : Rel} {rP rQ : Loc → Val} (h : subE E' E = true) (hE : Holds E rP rQ) : Holds E' rP rQ :=
  fun l v hm => hE l v (subE_sound h _ hm)

theorem nodupB_sound : ∀ {ls : List Loc}, nodupB ls = true → ls.Nodup
  | [], _ => List.nodup_nil
  | a :: as, h => by
    simp only [nodupB, Bool.and_eq_true, Bool.not_eq_true'] at h
    have h1 : a ∉ as := by
      intro hm
      have : as.contains a = true := by simpa using hm
      rw [this] at h; exact absurd h.1 (by decide)
    exact List.nodup_cons.mpr ⟨h1, nodupB_sound h.2⟩

theorem readsOK_sound {E : Rel} {rP rQ : Loc → Val} (hE : Holds E rP rQ) :
    ∀ {rsP rsQ : List Loc}, readsOK E rsP rsQ = true → rsQ.map rQ = rsP.map rP := by
  intro rsP
  induction rsP with
  | nil =>
    intro rsQ h
    cases rsQ with
    | nil => rfl
    | cons b bs => simp [readsOK] at h
  | cons a as ih =>
    intro rsQ h
    cases rsQ with
    | nil => simp [readsOK] at h
    | cons b bs =>
      simp only [readsOK, List.length_cons, Bool.and_eq_true, List.zip_cons_cons, List.all_cons] at h
      obtain ⟨hl, hab, hrest⟩ := h
      have hlen : (as.length == bs.length) = true := by simpa using hl
      have := ih (rsQ := bs) (by simp only [readsOK, Bool.and_eq_true]; exact ⟨hlen, hrest⟩)
      simp only [List.map_cons, this, hE b a (contains_pair hab)]

theorem upd_same (r : Loc → Val) (l : Loc) (x : Val) : upd r l x l = x := by simp [upd]
theorem upd_other (r : Loc → Val) {l k : Loc} (x : Val) (h : k ≠ l) : upd r l x k = r k := by simp [upd, h]

theorem assign_not_mem : ∀ (ls : List Loc) (r : Loc → Val) (f : Nat → Val) (l : Loc), l ∉ ls → assign r ls f l = r l
  | [], _, _, _, _ => rfl
  | a :: as, r, f, l, h => by
    simp only [List.mem_cons, not_or] at h
    rw [assign, assign_not_mem as _ _ l h.2, upd_other _ _ h.1]

/-- corresponding written locations receive the same value -/
theorem assign_zip : ∀ (wsQ wsP : List Loc) (rQ rP : Loc → Val) (f : Nat → Val) (l v : Loc),
    wsQ.Nodup → wsP.Nodup → (l, v) ∈ wsQ.zip wsP → assign rQ wsQ f l = assign rP wsP f v
  | [], _, _, _, _, _, _, _, _, h => by simp at h
  | _ :: _, [], _, _, _, _, _, _, _, h => by simp at h
  | a :: as, b :: bs, rQ, rP, f, l, v, hq, hp, h => by
    rw [List.nodup_cons] at hq hp
    simp only [List.zip_cons_cons, List.mem_cons, Prod.mk.injEq] at h
    rcases h with ⟨rfl, rfl⟩ | h
    · rw [assign, assign, assign_not_mem _ _ _ _ hq.1, assign_not_mem _ _ _ _ hp.1, upd_same, upd_same]
    · rw [assign, assign]
      exact assign_zip as bs _ _ _ l v hq.2 hp.2 h

theorem mem_kill {E : Rel} {ls vs : List Loc} {l v : Loc} (h : (l, v) ∈ kill E ls vs) :
    (l, v) ∈ E ∧ l ∉ ls ∧ v ∉ vs := by
  simp only [kill, List.mem_filter, Bool.and_eq_true, Bool.not_eq_true'] at h
  refine ⟨h.1, ?_, ?_⟩
  · intro hm
    have : ls.contains l = true := by simpa using hm
    rw [this] at h; exact absurd h.2.1 (by decide)
  · intro hm
    have : vs.contains v = true := by simpa using hm
    rw [this] at h; exact absurd h.2.2 (by decide)

/-- twin instructions: after both wrote the same values, the transformed relation holds -/
theorem twinE_sound {E : Rel} {rP rQ : Loc → Val} (hE : Holds E rP rQ)
    (wsQ csQ wsP csP : List Loc) (f jQ jP : Nat → Val) (hq : wsQ.Nodup) (hp : wsP.Nodup) :
    Holds (twinE E wsQ csQ wsP csP) (assign (assign rP csP jP) wsP f) (assign (assign rQ csQ jQ) wsQ f) := by
  intro l v hm
  simp only [twinE, List.mem_append] at hm
  rcases hm with hm | hm
  · exact assign_zip wsQ wsP _ _ f l v hq hp hm
  · obtain ⟨hin, hl, hv⟩ := mem_kill hm
    simp only [List.mem_append, not_or] at hl hv
    rw [assign_not_mem _ _ _ _ hl.1, assign_not_mem _ _ _ _ hl.2, assign_not_mem _ _ _ _ hv.1,
      assign_not_mem _ _ _ _ hv.2]
    exact hE l v hin

/-- inserted instruction that only writes / clobbers -/
theorem killE_sound {E : Rel} {rP rQ : Loc → Val} (hE : Holds E rP rQ) (ws cs : List Loc) (f j : Nat → Val) :
    Holds (kill E (ws ++ cs) []) rP (assign (assign rQ cs j) ws f) := by
  intro l v hm
  obtain ⟨hin, hl, _⟩ := mem_kill hm
  simp only [List.mem_append, not_or] at hl
  rw [assign_not_mem _ _ _ _ hl.1, assign_not_mem _ _ _ _ hl.2]
  exact hE l v hin

theorem moveE_sound (vsz : Loc → Nat) {E : Rel} {rP rQ : Loc → Val} (hE : Holds E rP rQ) (dst src size : Nat) :
    Holds (moveE vsz E dst src size) rP (upd rQ dst (rQ src)) := by
  intro l v hm
  unfold moveE at hm
  split at hm
  · next h => subst h; by_cases hl : l = dst
              · subst hl; rw [upd_same]; exact hE _ _ hm
              · rw [upd_other _ _ hl]; exact hE _ _ hm
  · simp only [List.mem_append, List.mem_map, List.mem_filter, Bool.and_eq_true, beq_iff_eq, decide_eq_true_eq,
      Prod.mk.injEq, bne_iff_ne, ne_eq] at hm
    rcases hm with ⟨x, ⟨hx, hx1, _⟩, rfl, rfl⟩ | ⟨hin, hne⟩
    · rw [upd_same, ← hx1]; exact hE _ _ hx
    · rw [upd_other _ _ hne]; exact hE _ _ hin

theorem twinMove_sound {E : Rel} {rP rQ : Loc → Val} (hE : Holds E rP rQ) (dQ sQ dP sP : Loc)
    (hs : (sQ, sP) ∈ E) :
    Holds (twinMoveE E dQ dP sP) (upd rP dP (rP sP)) (upd rQ dQ (rQ sQ)) := by
  intro l v hm
  simp only [twinMoveE, List.mem_cons, Prod.mk.injEq, List.mem_append, List.mem_map, List.mem_filter, Bool.and_eq_true,
    bne_iff_ne, ne_eq, beq_iff_eq] at hm
  rcases hm with ⟨rfl, rfl⟩ | ⟨x, ⟨hx, hx1, hx2⟩, rfl, rfl⟩ | hm
  · rw [upd_same, upd_same]; exact hE _ _ hs
  · rw [upd_same, upd_other _ _ hx1, ← hx2]; exact hE _ _ hx
  · obtain ⟨hin, hl, hv⟩ := mem_kill hm
    simp only [List.mem_singleton] at hl hv
    rw [upd_other _ _ hl, upd_other _ _ hv]; exact hE _ _ hin

theorem swapE_sound (vsz : Loc → Nat) {E : Rel} {rP rQ : Loc → Val} (hE : Holds E rP rQ) (a b : Loc) (size : Nat) :
    Holds (swapE vsz E a b size) rP (upd (upd rQ a (rQ b)) b (rQ a)) := by
  intro l v hm
  simp only [swapE, List.mem_map, Prod.mk.injEq] at hm
  obtain ⟨⟨xl, xv⟩, hx, rfl, rfl⟩ := hm
  have := hE _ _ (List.mem_filter.mp hx).1
  unfold swapLoc
  by_cases h1 : xl = a
  · subst h1
    simp only [if_true]
    rw [upd_same]; exact this
  · by_cases h2 : xl = b
    · subst h2
      have hab : a ≠ xl := fun h => h1 h.symm
      simp only [h1, if_false, if_true]
      rw [upd_other _ _ hab, upd_same]; exact this
    · simp only [h1, h2, if_false]
      rw [upd_other _ _ h2, upd_other _ _ h1]; exact this

theorem preMoveE_sound {E : Rel} {rP rQ : Loc → Val} (hE : Holds E rP rQ) (dP sP : Loc) :
    Holds (preMoveE E dP sP) (upd rP dP (rP sP)) rQ := by
  intro l v hm
  unfold preMoveE at hm
  split at hm
  · next h => subst h; by_cases hv : v = dP
              · subst hv; rw [upd_same]; exact hE _ _ hm
              · rw [upd_other _ _ hv]; exact hE _ _ hm
  · simp only [List.mem_append, List.mem_map, List.mem_filter, beq_iff_eq, Prod.mk.injEq, bne_iff_ne, ne_eq] at hm
    rcases hm with ⟨x, ⟨hx, hx2⟩, rfl, rfl⟩ | ⟨hin, hne⟩
    · rw [upd_same, ← hx2]; exact hE _ _ hx
    · rw [upd_other _ _ hne]; exact hE _ _ hin

end AsmjitVerif.RAIR
