/- C07 helper lemmas: bit iteration order, the pop loop, and the layout of the non-GP save slots. -/
import AsmjitVerif.Lemmas.FrameMachine
namespace AsmjitVerif.Frame

theorem mem_bitsAsc (m n r : Nat) : r ∈ bitsAsc m n ↔ r < n ∧ m.testBit r = true := by
  unfold bitsAsc
  rw [List.mem_filter, List.mem_range]

theorem bitsAsc_nodup (m n : Nat) : (bitsAsc m n).Nodup := by
  unfold bitsAsc
  exact List.Nodup.sublist List.filter_sublist List.nodup_range

theorem bitsAsc_length_le (m n : Nat) : (bitsAsc m n).length ≤ n := by
  unfold bitsAsc
  have := List.length_filter_le (fun i => m.testBit i) (List.range n)
  rw [List.length_range] at this
  exact this

/-- the `pop` loop (ids 15 … 0) is the reverse of the `push` loop when no register above 15 is saved -/
theorem popOrder_eq_reverse (m : Nat) (h : m < 2 ^ 16) : x86PopOrder m = (bitsAsc m 32).reverse := by
  unfold x86PopOrder bitsAsc
  rw [List.filter_reverse]
  congr 1
  have h32 : List.range 32 = List.range 16 ++ (List.range 16).map (16 + ·) := by decide
  rw [h32, List.filter_append]
  have : ((List.range 16).map (16 + ·)).filter (fun i => m.testBit i) = [] := by
    rw [List.filter_eq_nil_iff]
    intro i hi
    rw [List.mem_map] at hi
    obtain ⟨j, _, rfl⟩ := hi
    have : m < 2 ^ (16 + j) := Nat.lt_of_lt_of_le h (Nat.pow_le_pow_right (by omega) (by omega))
    simp [Nat.testBit_lt_two_pow this]
  rw [this, List.append_nil]

theorem testBit_clearBit5 (m i : Nat) (hi : i < 32) : (clearBit m 5).testBit i = (m.testBit i && (i != 5)) := by
  unfold clearBit
  rw [Nat.testBit_and]
  congr 1
  have : ∀ j, j < 32 → Nat.testBit (2 ^ 32 - 1 - 2 ^ 5) j = (j != 5) := by decide
  exact this i hi

/-- clearing the (set) frame-pointer bit removes exactly one register from the push loop -/
theorem bitsAsc_clearBit5_length (m : Nat) (h : m.testBit 5 = true) :
    (bitsAsc (clearBit m 5) 32).length + 1 = (bitsAsc m 32).length := by
  unfold bitsAsc
  have h32 : List.range 32 = List.range 5 ++ 5 :: (List.range 26).map (6 + ·) := by decide
  rw [h32]
  simp only [List.filter_append, List.filter_cons, List.length_append]
  have e1 : (List.range 5).filter (fun i => (clearBit m 5).testBit i) = (List.range 5).filter (fun i => m.testBit i) := by
    apply List.filter_congr
    intro i hi
    rw [List.mem_range] at hi
    rw [testBit_clearBit5 m i (by omega)]
    have : (i != 5) = true := by simp; omega
    rw [this, Bool.and_true]
  have e2 : ((List.range 26).map (6 + ·)).filter (fun i => (clearBit m 5).testBit i)
      = ((List.range 26).map (6 + ·)).filter (fun i => m.testBit i) := by
    apply List.filter_congr
    intro i hi
    rw [List.mem_map] at hi
    obtain ⟨j, hj, rfl⟩ := hi
    rw [List.mem_range] at hj
    rw [testBit_clearBit5 m (6 + j) (by omega)]
    have : ((6 + j) != 5) = true := by simp; omega
    rw [this, Bool.and_true]
  have e3 : (clearBit m 5).testBit 5 = false := by rw [testBit_clearBit5 m 5 (by omega)]; simp
  rw [e1, e2, e3, h]
  simp only [Bool.false_eq_true, if_false, if_true, List.length_cons]
  omega

theorem mem_bitsAsc_clearBit5 (m r : Nat) : r ∈ bitsAsc (clearBit m 5) 32 ↔ r ∈ bitsAsc m 32 ∧ r ≠ 5 := by
  rw [mem_bitsAsc, mem_bitsAsc]
  constructor
  · rintro ⟨h1, h2⟩
    rw [testBit_clearBit5 m r h1] at h2
    simp only [Bool.and_eq_true, bne_iff_ne, ne_eq] at h2
    exact ⟨⟨h1, h2.1⟩, h2.2⟩
  · rintro ⟨⟨h1, h2⟩, h3⟩
    refine ⟨h1, ?_⟩
    rw [testBit_clearBit5 m r h1, h2]
    simp [h3]

/-! ### slots -/

theorem slotsAscending_append : ∀ (l1 l2 : List Slot) (lo : Nat),
    slotsAscending lo l1 → slotsAscending (slotsEnd lo l1) l2 → slotsAscending lo (l1 ++ l2) := by
  intro l1
  induction l1 with
  | nil => intro l2 lo _ h; exact h
  | cons p l1 ih =>
    intro l2 lo h1 h2
    obtain ⟨mn, id, off⟩ := p
    exact ⟨h1.1, ih l2 _ h1.2 h2⟩

theorem slotsEnd_append : ∀ (l1 l2 : List Slot) (lo : Nat),
    slotsEnd lo (l1 ++ l2) = slotsEnd (slotsEnd lo l1) l2 := by
  intro l1
  induction l1 with
  | nil => intro l2 lo; rfl
  | cons p l1 ih =>
    intro l2 lo
    obtain ⟨mn, id, off⟩ := p
    exact ih l2 _

/-- one group: ascending from `off`, ends at `off + n * size`, keys are (group, id) in order, and every
slot is `off + i * size` for some `i` -/
theorem groupSlots_spec (mn : XMn) : ∀ (ids : List Nat) (off : Nat), off + ids.length * mn.size < 2 ^ 32 →
    slotsAscending off (groupSlots mn ids off)
    ∧ slotsEnd off (groupSlots mn ids off) = off + ids.length * mn.size
    ∧ (groupSlots mn ids off).map slotKey = ids.map (fun id => (mn.group, id))
    ∧ ∀ p ∈ groupSlots mn ids off, p.1 = mn ∧ off ≤ p.2.2 ∧ p.2.2 + mn.size ≤ off + ids.length * mn.size
        ∧ ∃ i, p.2.2 = off + i * mn.size := by
  intro ids
  induction ids with
  | nil => intro off _; simp [groupSlots, slotsAscending, slotsEnd]
  | cons id ids ih =>
    intro off h
    have hl : (id :: ids).length * mn.size = ids.length * mn.size + mn.size := by
      rw [List.length_cons, Nat.add_mul, Nat.one_mul]
    rw [hl] at h ⊢
    have hu : u32 off = off := Nat.mod_eq_of_lt (by omega)
    obtain ⟨a1, a2, a3, a4⟩ := ih (off + mn.size) (by omega)
    simp only [groupSlots, hu]
    refine ⟨⟨Nat.le_refl _, a1⟩, ?_, ?_, ?_⟩
    · simp only [slotsEnd]; rw [a2]; omega
    · simp only [List.map_cons, a3]; rfl
    · intro p hp
      rcases List.mem_cons.mp hp with hp | hp
      · subst hp
        exact ⟨rfl, Nat.le_refl _, by simp only; omega, 0, by simp⟩
      · obtain ⟨b1, b2, b3, i, b4⟩ := a4 p hp
        refine ⟨b1, by omega, by omega, i + 1, ?_⟩
        rw [b4, Nat.add_mul, Nat.one_mul]; omega

end AsmjitVerif.Frame
