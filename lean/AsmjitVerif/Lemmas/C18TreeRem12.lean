/-
C18 — ArenaTree::remove, part 12: abstract facts about `absStep` needed for the replace loop: shape of the new
context, directions agree with key comparison (BST), the searched node stays below the hole until found.
-/
import AsmjitVerif.Lemmas.C18TreeRem11
namespace AsmjitVerif.Tree.Rem
open AsmjitVerif.Tree AsmjitVerif.Tree.Spec

/-- every frame's direction is the result of the key comparison with the searched key -/
def DirOK (kn : Nat) (ctx : List Frame) : Prop := ∀ F ∈ ctx, F.d = decide (F.k < kn)
/-- strictly ascending keys of an (index, key) sequence -/
def KSorted (l : List (Nat × Nat)) : Prop := l.Pairwise (fun a b => a.2 < b.2)

theorem _root_.AsmjitVerif.Tree.Spec.T.root_mem_io (t : T) (hn : t.isNil = false) : (t.rootIdx, t.key) ∈ t.io := by
  rw [T.io_eq t hn]; simp

theorem _root_.AsmjitVerif.Tree.Spec.T.child_io_sub (t : T) (d : Bool) : ∀ p ∈ (t.child d).io, p ∈ t.io := by
  cases t with
  | nil => intro p hp; simp [T.child, T.io] at hp
  | node i k c l r => intro p hp; cases d <;> simp [T.child, T.io] at hp ⊢ <;> simp [hp]

theorem plug_sub_sorted (ctx : List Frame) (s : T) (h : KSorted (plug ctx s).io) : KSorted s.io := by
  obtain ⟨L, R, e⟩ := plug_io_split ctx
  rw [e] at h
  exact h.sublist (by simp)

theorem plug_sub_mem (ctx : List Frame) (s : T) : ∀ p ∈ s.io, p ∈ (plug ctx s).io := by
  obtain ⟨L, R, e⟩ := plug_io_split ctx
  intro p hp; rw [e]; simp [hp]

/-- anything on the `!d` side of a node agrees with the node's direction -/
theorem sib_dir {kn i k : Nat} {c d : Bool} {A B : T} (hs : KSorted (mkT i k c d A B).io)
    (hd : d = decide (k < kn)) (p : Nat × Nat) (hp : p ∈ B.io) : d = decide (p.2 < kn) := by
  unfold KSorted at hs
  cases d
  · simp only [mkT_io, Bool.false_eq_true, if_false, List.pairwise_append, List.pairwise_cons] at hs
    have := hs.2.1.1 p hp
    have hk : ¬ k < kn := by simpa using hd.symm
    simp only [Bool.false_eq, decide_eq_false_iff_not]; omega
  · simp only [mkT_io, if_true, List.pairwise_append, List.pairwise_cons] at hs
    have := hs.2.2 p hp (i, k) (by simp)
    have hk : k < kn := by simpa using hd.symm
    simp only [Bool.true_eq, decide_eq_true_eq]; omega

/-- shape of the new context -/
theorem absStep_shape_nil (kn : Nat) (S : T) : ∃ qF A', (absStep kn [] S).1 = qF :: A' ∧ qF.i = S.rootIdx ∧
    A'.length ≤ 1 := by
  simp only [absStep]
  split
  · split
    · exact ⟨_, [_], rfl, rfl, by simp⟩
    · exact ⟨_, [], rfl, rfl, by simp⟩
  · exact ⟨_, [], rfl, rfl, by simp⟩

theorem absStep_shape_cons (kn : Nat) (P : Frame) (up : List Frame) (S : T) : ∃ qF A' P' ins,
    (absStep kn (P :: up) S).1 = qF :: (A' ++ P' :: (ins ++ up)) ∧ qF.i = S.rootIdx ∧ P'.i = P.i ∧
    A'.length + ins.length ≤ 1 := by
  simp only [absStep]
  split
  · split
    · exact ⟨_, [_], P, [], rfl, rfl, rfl, by simp⟩
    · split
      · exact ⟨_, [], P, [], rfl, rfl, rfl, by simp⟩
      · split
        · exact ⟨_, [], _, [], rfl, rfl, rfl, by simp⟩
        · split
          · exact ⟨_, [], _, [_], rfl, rfl, rfl, by simp⟩
          · exact ⟨_, [], _, [_], rfl, rfl, rfl, by simp⟩
  · exact ⟨_, [], P, [], rfl, rfl, rfl, by simp⟩

theorem DirOK_cons (kn : Nat) (F : Frame) (l : List Frame) :
    DirOK kn (F :: l) ↔ F.d = decide (F.k < kn) ∧ DirOK kn l := by
  unfold DirOK; exact List.forall_mem_cons

/-- the step keeps "direction = key comparison" (uses the BST order of the whole tree) -/
theorem absStep_dirOK (kn : Nat) (ctx : List Frame) (S : T) (hS : S.isNil = false) (hd : DirOK kn ctx)
    (hs : KSorted (plug ctx S).io) : DirOK kn (absStep kn ctx S).1 := by
  have hsS := plug_sub_sorted ctx S hs
  simp only [absStep]
  split
  · split
    · rename_i _ hr
      have hSo := T.isRed_notNil hr
      rw [T.eq_mkT S hS (decide (S.key < kn))] at hsS
      have := sib_dir hsS rfl _ (T.root_mem_io _ hSo)
      simp only [DirOK_cons]
      exact ⟨trivial, this, hd⟩
    · split
      · simp only [DirOK_cons]; exact ⟨trivial, hd⟩
      · rename_i P up
        have hP := ((DirOK_cons kn P up).mp hd)
        have hsP : KSorted (mkT P.i P.k P.c P.d S P.sib).io := plug_sub_sorted up _ hs
        split
        · simp only [DirOK_cons]; exact ⟨trivial, hP⟩
        · rename_i hsn
          have hsn : P.sib.isNil = false := by simpa using hsn
          split
          · simp only [DirOK_cons]; exact ⟨trivial, hP.1, hP.2⟩
          · split
            · rename_i hx
              have := sib_dir hsP hP.1 _ (T.child_io_sub _ _ _ (T.root_mem_io _ (T.isRed_notNil hx)))
              simp only [DirOK_cons]; exact ⟨trivial, hP.1, this, hP.2⟩
            · have := sib_dir hsP hP.1 _ (T.root_mem_io _ hsn)
              simp only [DirOK_cons]; exact ⟨trivial, hP.1, this, hP.2⟩
  · simp only [DirOK_cons]; exact ⟨trivial, hd⟩

/-- until found, the searched node stays in the subtree the loop descends into -/
theorem search_descends {kn node : Nat} {S : T} (hS : S.isNil = false) (hs : KSorted S.io)
    (hk : ∀ p ∈ S.io, p.1 = node → p.2 = kn) (hm : node ∈ S.idxs) (hne : S.rootIdx ≠ node) :
    node ∈ (S.child (decide (S.key < kn))).idxs := by
  rw [← T.io_idxs] at hm ⊢
  obtain ⟨p, hp, hp1⟩ := List.mem_map.mp hm
  have hp2 := hk p hp hp1
  have e := T.io_eq S hS
  rw [e] at hp hs
  unfold KSorted at hs
  simp only [List.pairwise_append, List.pairwise_cons] at hs
  simp only [List.mem_append, List.mem_cons] at hp
  rcases hp with hp | hp | hp
  · have := hs.2.2 p hp (S.rootIdx, S.key) (by simp)
    have hd : decide (S.key < kn) = false := by simp; omega
    rw [hd]; exact List.mem_map.mpr ⟨p, hp, hp1⟩
  · rw [hp] at hp1; exact absurd hp1 hne
  · have := hs.2.1.1 p hp
    have hd : decide (S.key < kn) = true := by simp; omega
    rw [hd]; exact List.mem_map.mpr ⟨p, hp, hp1⟩

end AsmjitVerif.Tree.Rem
