/- C06 part 2 – register AND stack arguments into registers, every covered kind, x86 and AArch64: no hypothesis on the code's choices. -/
import AsmjitVerif.Lemmas.C06ShuffleLoadCore
namespace AsmjitVerif.C06S
open AsmjitVerif.CallConv AsmjitVerif.Shuffle AsmjitVerif.Machine

/-- kinds of stack arguments loaded into registers (`st`: type in the slot, `dt`/`rtD`: destination type / register type) -/
def KindOkStk (a : Arch) (st dt rtD : Nat) : Prop :=
  (st ∈ intTys ∧ dt ∈ intTys ∧ rtD ∈ [5, 6]) ∨
  (st ∈ fvTys ∧ dt ∈ fvTys ∧ rtD ∈ vecRts a) ∨
  (a ≠ .a64 ∧ st ∈ maskTys ∧ dt ∈ maskTys ∧ rtD = 16) ∨
  (a ≠ .a64 ∧ st ∈ mmTys ∧ dt ∈ mmTys ∧ rtD = 28)

def TypedSrcs (a : Arch) (vals : Vals) : Prop :=
  ∀ i, i < vals.length →
    ((srcAt vals i).isReg = true →
      KindOk a (srcAt vals i).typeId (srcAt vals i).regType (patchRegDst (dstAt vals i)).typeId (dstAt vals i).regType) ∧
    ((srcAt vals i).isReg = false →
      KindOkStk a (srcAt vals i).typeId (patchRegDst (dstAt vals i)).typeId (dstAt vals i).regType)

theorem memCfg_of (cfg : Cfg) (h : cfg ∈ x86Cfgs) :
    ({ arch := .x64, avx := cfg.avx, stackAlign := cfg.stackAlign } : Cfg) ∈ memCfgs := by
  have hall : ∀ c ∈ x86Cfgs, (c.stackAlign = 4 ∨ c.stackAlign = 16) := by decide
  rcases hall cfg h with h4 | h16 <;> cases hb : cfg.avx <;> simp [memCfgs, *]

/-- `Hyp3.load` for every covered kind -/
theorem typed_load_ok (cfg : Cfg) (hcfg : cfg ∈ x86Cfgs ∨ cfg.arch = .a64) (vis : List VarInfo) (i dt st rtD : Nat)
    (hk : KindOkStk cfg.arch st dt rtD) (hvi : vis[i]? = some ⟨st, dt⟩) (d base : Nat) (off : Int) :
    loadOkAt cfg vis rtD dt st (initTok vis i) d base off = true := by
  have harch : cfg ∈ x86Cfgs → cfg.arch ≠ .a64 := by
    have hall : ∀ c ∈ x86Cfgs, c.arch ≠ .a64 := by decide
    exact hall cfg
  rw [initTok_single vis i _ hvi]
  rcases hcfg with hc | hc
  · have hx := harch hc
    rw [loadOkAt_x86 cfg hx, selLoadOk_single _ vis i _ hvi, x86Sel_cfg_mem]
    obtain ⟨c1, c2, c3, c4⟩ := x86_load_core _ (memCfg_of cfg hc)
    rcases hk with ⟨hst, hdt, hrd⟩ | ⟨hst, hdt, hrd⟩ | ⟨_, hst, hdt, rfl⟩ | ⟨_, hst, hdt, rfl⟩
    · exact c1 dt hdt st hst rtD hrd
    · obtain ⟨h0, h1, h2, h3⟩ := fv_facts dt hdt
      rw [x86Sel_vec_dst_mem _ _ _ _ h0 h1 h2 h3]
      have hg := vecRts_group hrd
      have := c2 dt hdt st hst
      unfold selLoadOk at this ⊢
      have h11 : groupOf 11 = 1 := by decide
      simpa only [hg, h11] using this
    · exact c3 dt hdt st hst
    · exact c4 dt hdt st hst
  · rw [loadOkAt_a64 cfg hc, selLoadOk_single _ vis i _ hvi]
    obtain ⟨c1, c2⟩ := a64_load_core
    rcases hk with ⟨hst, hdt, hrd⟩ | ⟨hst, hdt, hrd⟩ | ⟨hx, _⟩ | ⟨hx, _⟩
    · exact c1 dt hdt st hst rtD hrd
    · obtain ⟨h0, _, _, _⟩ := fv_facts dt hdt
      rw [a64Sel_dst rtD dt _ st h0]
      have hg := vecRts_group hrd
      have := c2 dt hdt st hst
      unfold selLoadOk at this ⊢
      have h11 : groupOf 11 = 1 := by decide
      simpa only [hg, h11] using this
    · exact absurd hc hx
    · exact absurd hc hx

theorem dstReg_of (vals : Vals) (hr : SrcDst vals) (i : Nat) (hi : i < vals.length) : (dstAt vals i).isReg = true := by
  rcases (hr.pair i hi).2 with h | h
  · exact h.dstReg
  · exact h.dstReg

theorem params_vis2 (cfg : Cfg) (f : FrameIn) (vals : Vals) (hr : SrcDst vals) (i : Nat) (hi : i < vals.length) :
    (paramsOf cfg f vals).vis[i]? = some ⟨(srcAt vals i).typeId, (patchRegDst (dstAt vals i)).typeId⟩ := by
  have hdd := (hr.pair i hi).1
  have hdr := dstReg_of vals hr i hi
  have hg : vals.getD i dfltVal = vals[i] := by simp [List.getD_eq_getElem?_getD, hi]
  show (vals.map varInfoOf)[i]? = _
  rw [List.getElem?_map, List.getElem?_eq_getElem hi]
  simp only [Option.map_some, Option.some.injEq]
  have h2 : vals[i].2 = some (dstAt vals i) := by rw [← hg]; exact hdd
  have h1 : vals[i].1 = srcAt vals i := by unfold srcAt; rw [hg]
  unfold varInfoOf
  rw [h2]
  simp only [h1, patchRegDst, hdr, if_true]
  by_cases h0 : (dstAt vals i).typeId = 0 <;> simp [h0]

theorem doneInitOk2_of_typed (a : Arch) (vals : Vals) (hr : SrcDst vals) (ht : TypedSrcs a vals) : DoneInitOk2 vals := by
  intro i hi hreg hdone
  have hvis := params_vis2 { arch := .x64 } ⟨false, false, 0, 0, 0, [], []⟩ vals hr i hi
  have hvis' : (vals.map varInfoOf)[i]? = some ⟨(srcAt vals i).typeId, (patchRegDst (dstAt vals i)).typeId⟩ := hvis
  rw [initTok_single _ i _ hvis']
  rcases (ht i hi).1 hreg with ⟨hst, _, hdt, hrd, _, _⟩ | ⟨hst, hdt, _, hrd⟩ | ⟨_, hst, hdt, _, hrd⟩ | ⟨_, hst, hdt, _, hrd⟩
  · simp only [doneAtInit, group_gp hrd, ne_eq, not_true_eq_false, if_false, Bool.and_eq_true] at hdone
    exact int_done_none _ hdt _ hst hdone.2
  · have hg : groupOf (dstAt vals i).regType ≠ 0 := by rw [vecRts_group hrd]; decide
    simp only [doneAtInit, hg, ne_eq, not_false_eq_true, if_true, Bool.and_eq_true, Bool.not_eq_true'] at hdone
    exact nongp_done_none.1 _ hdt _ hst hdone.2
  · exact nongp_done_none.2.1 _ hdt _ hst
  · exact nongp_done_none.2.2 _ hdt _ hst

theorem hyp_of_typed_srcs (cfg : Cfg) (hcfg : cfg ∈ x86Cfgs ∨ cfg.arch = .a64) (f : FrameIn) (vals : Vals) (hr : SrcDst vals)
    (ht : TypedSrcs cfg.arch vals) : Hyp (paramsOf cfg f vals) := by
  refine ⟨?_, ?_, ?_, ?_⟩
  · intro i d s hi _ _ hreg
    have hi' : i < vals.length := hi
    rw [params_src cfg f vals i hi'] at hreg
    rw [params_src cfg f vals i hi', params_out cfg f vals i hi', patch_regType]
    exact (typed_moves_ok cfg hcfg _ i _ _ _ _ ((ht i hi').1 hreg) (params_vis2 cfg f vals hr i hi') d s).1
  · intro i d s b hi _ _
    have hi' : i < vals.length := hi
    rw [params_out cfg f vals i hi', patch_regType]
    have hvis := params_vis2 cfg f vals hr i hi'
    cases hreg : (srcAt vals i).isReg with
    | true => exact (typed_moves_ok cfg hcfg _ i _ _ _ _ ((ht i hi').1 hreg) hvis d s).2 b
    | false =>
      rcases (ht i hi').2 hreg with ⟨hst, hdt, hrd⟩ | ⟨hst, hdt, hrd⟩ | ⟨hx, hst, hdt, hrd⟩ | ⟨hx, hst, hdt, hrd⟩
      · rcases hcfg with hc | hc
        · exact (x86_int_moves_ok cfg hc _ i _ _ _ _ hdt hst hrd hrd hvis d s).2 b
        · exact (a64_int_moves_ok cfg hc _ i _ _ _ _ hdt hst hrd hrd hvis d s).2 b
      · exact (typed_moves_ok cfg hcfg _ i _ _ _ _ (Or.inr (Or.inl ⟨hst, hdt, hrd, hrd⟩)) hvis d s).2 b
      · exact (typed_moves_ok cfg hcfg _ i _ _ _ _ (Or.inr (Or.inr (Or.inl ⟨hx, hst, hdt, hrd, hrd⟩))) hvis d s).2 b
      · exact (typed_moves_ok cfg hcfg _ i _ _ _ _ (Or.inr (Or.inr (Or.inr ⟨hx, hst, hdt, hrd, hrd⟩))) hvis d s).2 b
  · intro i hi
    have hi' : i < vals.length := hi
    rw [params_src cfg f vals i hi', params_out cfg f vals i hi']
    exact params_vis2 cfg f vals hr i hi'
  · intro i hi hreg hsw
    have hi' : i < vals.length := hi
    rw [params_src cfg f vals i hi', params_out cfg f vals i hi', patch_regType] at *
    have hg : groupOf (dstAt vals i).regType = 0 := by
      simp only [hasSwap, Bool.and_eq_true, decide_eq_true_eq] at hsw; exact hsw.2
    rcases (ht i hi').1 hreg with ⟨hst, hrs, hdt, hrd, hs1, hs2⟩ | ⟨_, _, _, hrd⟩ | ⟨_, _, _, _, hrd⟩ | ⟨_, _, _, _, hrd⟩
    · exact ⟨(int8_facts _ hst).1, (int8_facts _ hst).2, (int8_facts _ hdt).1, (int8_facts _ hdt).2, hs1, hs2⟩
    · rw [vecRts_group hrd] at hg; exact absurd hg (by decide)
    · rw [hrd] at hg; exact absurd hg (by decide)
    · rw [hrd] at hg; exact absurd hg (by decide)

/-- **register and stack arguments into registers, every covered kind, x86 and AArch64, every assignment, from the real entry
    point** – frames whose incoming stack arguments are addressed through sp or the frame pointer -/
theorem shuffle_correct_typed (cfg : Cfg) (hcfg : cfg ∈ x86Cfgs ∨ cfg.arch = .a64) (f : FrameIn) (vals : Vals)
    (hr : SrcDst vals) (ht : TypedSrcs cfg.arch vals) (hsa : (f.da && !f.fp) = false)
    (hnsa : ∀ i, i < vals.length → ¬ ((dstAt vals i).regId = saFixed cfg.arch f ∧ groupOf (dstAt vals i).regType = 0))
    (hok : (emitArgsAssignment cfg f 255 vals).1 = none) :
    judge cfg.arch f vals (emitArgsAssignment cfg f 255 vals).2 = some true := by
  refine shuffle_correct_srcs cfg f vals hr (doneInitOk2_of_typed cfg.arch vals hr ht) hsa
    (hyp_of_typed_srcs cfg hcfg f vals hr ht) ?_ hnsa hok
  intro i d off hi _
  rw [params_src cfg f vals i hi, params_out cfg f vals i hi, patch_regType]
  cases hreg : (srcAt vals i).isReg with
  | false => exact typed_load_ok cfg hcfg _ i _ _ _ ((ht i hi).2 hreg) (params_vis2 cfg f vals hr i hi) d _ off
  | true =>
    -- a register argument is never loaded; the statement still holds for its types
    have hk := (ht i hi).1 hreg
    have hks : KindOkStk cfg.arch (srcAt vals i).typeId (patchRegDst (dstAt vals i)).typeId (dstAt vals i).regType := by
      rcases hk with ⟨hst, _, hdt, hrd, _, _⟩ | ⟨hst, hdt, _, hrd⟩ | ⟨hx, hst, hdt, _, hrd⟩ | ⟨hx, hst, hdt, _, hrd⟩
      · exact Or.inl ⟨hst, hdt, hrd⟩
      · exact Or.inr (Or.inl ⟨hst, hdt, hrd⟩)
      · exact Or.inr (Or.inr (Or.inl ⟨hx, hst, hdt, hrd⟩))
      · exact Or.inr (Or.inr (Or.inr ⟨hx, hst, hdt, hrd⟩))
    exact typed_load_ok cfg hcfg _ i _ _ _ hks (params_vis2 cfg f vals hr i hi) d _ off

end AsmjitVerif.C06S
