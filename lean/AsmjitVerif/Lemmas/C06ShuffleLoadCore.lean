/- C06 part 2 – the loads of phase 3: selection lemmas and finite cores. -/
import AsmjitVerif.Lemmas.C06ShuffleSrc
import AsmjitVerif.Lemmas.C06ShuffleTyped
namespace AsmjitVerif.C06S
open AsmjitVerif.CallConv AsmjitVerif.Shuffle AsmjitVerif.Machine

/-- `loadOkAt` without register id and address: judged on the selection alone -/
def selLoadOk (sel : Option MoveSel) (vis : List VarInfo) (rtD : Nat) (tok : Tok) : Bool :=
  match sel with
  | none => true
  | some m => groupOf m.dstRt == groupOf rtD && !isStoreMn m.name &&
      (match effect m.name m.dstRt m.memSize with
       | some (k, c, w) => (moveTok vis tok k c w).dv
       | none => false)

theorem loadOkAt_x86 (cfg : Cfg) (harch : cfg.arch ≠ .a64) (vis : List VarInfo) (rtD tD tS : Nat) (tok : Tok) (d base : Nat)
    (off : Int) : loadOkAt cfg vis rtD tD tS tok d base off = selLoadOk (x86Sel cfg rtD tD .mem tS) vis rtD tok := by
  unfold loadOkAt selLoadOk argMove x86ArgMove
  simp only [harch, if_false, Opnd.kind]
  cases x86Sel cfg rtD tD .mem tS with
  | none => rfl
  | some m =>
    cases hs : m.srcRt with
    | none => simp [MoveSel.apply, hs, Opnd.withSize] <;> rfl
    | some r => simp [MoveSel.apply, hs, Opnd.withRt, Opnd.withSize] <;> rfl

theorem loadOkAt_a64 (cfg : Cfg) (harch : cfg.arch = .a64) (vis : List VarInfo) (rtD tD tS : Nat) (tok : Tok) (d base : Nat)
    (off : Int) : loadOkAt cfg vis rtD tD tS tok d base off = selLoadOk (a64Sel rtD tD .mem tS) vis rtD tok := by
  unfold loadOkAt selLoadOk argMove a64ArgMove
  simp only [harch, if_true, Opnd.kind]
  cases a64Sel rtD tD .mem tS with
  | none => rfl
  | some m =>
    cases hs : m.srcRt with
    | none => simp [MoveSel.apply, hs, Opnd.withSize] <;> rfl
    | some r => simp [MoveSel.apply, hs, Opnd.withRt, Opnd.withSize] <;> rfl

theorem selLoadOk_single (sel : Option MoveSel) (vis : List VarInfo) (i : Nat) (vi : VarInfo) (h : vis[i]? = some vi) (rtD : Nat)
    (sv dv : Bool) : selLoadOk sel vis rtD ⟨i, sv, dv⟩ = selLoadOk sel [vi] rtD ⟨0, sv, dv⟩ := by
  unfold selLoadOk
  simp only [moveTok_dv_single vis i vi h]

theorem x86Sel_cfg_mem (c : Cfg) (rtD dt st : Nat) :
    x86Sel c rtD dt .mem st = x86Sel { arch := .x64, avx := c.avx, stackAlign := c.stackAlign } rtD dt .mem st := by
  unfold x86Sel v
  rfl

theorem x86Sel_vec_dst_mem (c : Cfg) (rtD dt st : Nat) (h0 : dt ≠ 0) (h1 : isInt dt = false) (h2 : isMmx dt = false)
    (h3 : isMask dt = false) : x86Sel c rtD dt .mem st = x86Sel c 11 dt .mem st := by
  unfold x86Sel
  simp only [h0, h1, h2, h3, if_false, Bool.false_eq_true]

def memCfgs : List Cfg := [false, true].flatMap fun b => [4, 16].map fun sa => { arch := .x64, avx := b, stackAlign := sa }

theorem x86_load_core : ∀ c ∈ memCfgs,
    (∀ dt ∈ intTys, ∀ st ∈ intTys, ∀ rtD ∈ [5, 6],
      selLoadOk (x86Sel c rtD dt .mem st) [⟨st, dt⟩] rtD ⟨0, true, (⟨st, dt⟩ : VarInfo).required == .none⟩ = true) ∧
    (∀ dt ∈ fvTys, ∀ st ∈ fvTys,
      selLoadOk (x86Sel c 11 dt .mem st) [⟨st, dt⟩] 11 ⟨0, true, (⟨st, dt⟩ : VarInfo).required == .none⟩ = true) ∧
    (∀ dt ∈ maskTys, ∀ st ∈ maskTys,
      selLoadOk (x86Sel c 16 dt .mem st) [⟨st, dt⟩] 16 ⟨0, true, (⟨st, dt⟩ : VarInfo).required == .none⟩ = true) ∧
    (∀ dt ∈ mmTys, ∀ st ∈ mmTys,
      selLoadOk (x86Sel c 28 dt .mem st) [⟨st, dt⟩] 28 ⟨0, true, (⟨st, dt⟩ : VarInfo).required == .none⟩ = true) := by
  decide +kernel

theorem a64_load_core :
    (∀ dt ∈ intTys, ∀ st ∈ intTys, ∀ rtD ∈ [5, 6],
      selLoadOk (a64Sel rtD dt .mem st) [⟨st, dt⟩] rtD ⟨0, true, (⟨st, dt⟩ : VarInfo).required == .none⟩ = true) ∧
    (∀ dt ∈ fvTys, ∀ st ∈ fvTys,
      selLoadOk (a64Sel 11 dt .mem st) [⟨st, dt⟩] 11 ⟨0, true, (⟨st, dt⟩ : VarInfo).required == .none⟩ = true) := by
  decide +kernel

end AsmjitVerif.C06S
