/- C20 helper lemmas: the x86 memory operand text as glued pieces, and the reader's steps on it. -/
import AsmjitVerif.Lemmas.FormatLex
import AsmjitVerif.Lemmas.FormatNum

namespace AsmjitVerif.Lemmas.FormatX86Mem
open AsmjitVerif.Format AsmjitVerif.FormatText AsmjitVerif.Lemmas.FormatLex AsmjitVerif.Lemmas.FormatNum
open AsmjitVerif.Gen.FormatTabs

theorem flatten_append : ∀ a b : List Piece, flattenPieces (a ++ b) = flattenPieces a ++ flattenPieces b
  | [], b => by simp [flattenPieces]
  | (some d, t) :: r, b => by simp [flattenPieces, flatten_append r b]
  | (none, t) :: r, b => by simp [flattenPieces, flatten_append r b]

/-! ### the text as pieces -/

def baseTok (flags : Nat) (env : Env) (m : X86Mem) (t id : Nat) : Str :=
  if m.home then '&' :: x86FormatRegister (clearBit flags ffRegCasts) env t id else x86FormatRegister flags env t id

def basePieces (flags : Nat) (env : Env) (m : X86Mem) : List Piece :=
  match m.base with
  | .none => []
  | .label id => [(none, formatLabel env id)]
  | .reg t id => [(none, baseTok flags env m t id)]

def indexPieces (flags : Nat) (env : Env) (m : X86Mem) : List Piece :=
  match m.index with
  | none => []
  | some (t, id) =>
    (x86MemSignAfterBase m, x86FormatRegister flags env t id) ::
      (if m.shift ≠ 0 then [(some '*', uintStr (1 <<< m.shift))] else [])

def dispOff (m : X86Mem) : Nat := effOff (m.base ≠ MemBase.none) m.off
def magOf (off : Nat) : Nat := if off ≥ two63 then two64 - off else off
def dispTokOf (flags off : Nat) : Str :=
  if hasBit flags ffHexOffsets ∧ magOf off > 9 then ['0', 'x'] ++ uintStr (magOf off) 16 else uintStr (magOf off) 10
def dispSignOf (m : X86Mem) (off : Nat) : Option Char := if off ≥ two63 then some '-' else x86MemSignAfterIndex m

def dispPiecesOf (flags : Nat) (m : X86Mem) (off : Nat) : List Piece :=
  if off ≠ 0 ∨ (m.base = MemBase.none ∧ m.index = none) then [(dispSignOf m off, dispTokOf flags off)] else []

def dispPieces (flags : Nat) (m : X86Mem) : List Piece := dispPiecesOf flags m (dispOff m)

def memPieces (flags : Nat) (env : Env) (m : X86Mem) : List Piece :=
  basePieces flags env m ++ indexPieces flags env m ++ dispPieces flags m

theorem base_flatten (flags : Nat) (env : Env) (m : X86Mem) :
    flattenPieces (basePieces flags env m) = x86MemBaseText flags env m := by
  unfold basePieces x86MemBaseText baseTok
  cases m.base <;> simp [flattenPieces]

theorem index_flatten (flags : Nat) (env : Env) (m : X86Mem) :
    flattenPieces (indexPieces flags env m) = x86MemIndexText flags env m := by
  unfold indexPieces x86MemIndexText
  cases m.index with
  | none => simp [flattenPieces]
  | some p =>
    obtain ⟨t, id⟩ := p
    cases x86MemSignAfterBase m <;> by_cases h : m.shift = 0 <;> simp [flattenPieces, h]

theorem disp_flatten_of (flags : Nat) (m : X86Mem) (off : Nat) :
    flattenPieces (dispPiecesOf flags m off) = x86MemDispTextOf flags m off := by
  unfold dispPiecesOf x86MemDispTextOf dispSignOf dispTokOf magOf
  by_cases h : (off ≠ 0 ∨ (m.base = MemBase.none ∧ m.index = none))
  · simp only [h, if_true]
    by_cases hn : off ≥ two63
    · simp [hn, flattenPieces]
    · simp only [hn, if_false]
      cases x86MemSignAfterIndex m <;> simp [flattenPieces]
  · simp [h, flattenPieces]

theorem disp_flatten (flags : Nat) (m : X86Mem) :
    flattenPieces (dispPieces flags m) = x86MemDispText flags m := disp_flatten_of flags m _

theorem x86FormatMem_eq (flags : Nat) (env : Env) (m : X86Mem) :
    x86FormatMem flags env m =
      x86SizeString m.size ++ (x86MemSegText m ++ ('[' :: (x86MemAddrText m ++ (flattenPieces (memPieces flags env m) ++ [']'])))) := by
  unfold x86FormatMem memPieces
  rw [flatten_append, flatten_append, base_flatten, index_flatten, disp_flatten]
  simp

/-! ### the reader's steps on that text -/

theorem ptrL : " ptr ".toList = [' ', 'p', 't', 'r', ' '] := by decide
theorem absL : "abs ".toList = ['a', 'b', 's', ' '] := by decide
theorem relL : "rel ".toList = ['r', 'e', 'l', ' '] := by decide

theorem sizeWords_facts : ∀ p ∈ x86SizeWords,
    x86SizeString p.2 = p.1.toList ++ " ptr ".toList ∧ sizeOfWord p.1.toList = some p.2 ∧
    (∀ c ∈ p.1.toList, isLowerAlpha c = true) := by decide

theorem readSize_word (w0 rest : Str) (hw : ∀ c ∈ w0, isLowerAlpha c = true) :
    readX86Size (w0 ++ (" ptr ".toList ++ rest)) = (sizeOfWord w0, rest) := by
  unfold readX86Size
  have hstop : StopsAt isLowerAlpha (" ptr ".toList ++ rest) :=
    Or.inr ⟨' ', ['p', 't', 'r', ' '] ++ rest, by rw [ptrL]; rfl, by decide⟩
  have h := takeWhile_append_stop isLowerAlpha w0 _ hw hstop
  rw [h.2, h.1, stripPrefix_append]

theorem readSize_none (w : Str) (d : Char) (r : Str) (hw : ∀ c ∈ w, isLowerAlpha c = true)
    (hd : isLowerAlpha d = false) (hd' : d ≠ ' ') : readX86Size (w ++ d :: r) = (some 0, w ++ d :: r) := by
  unfold readX86Size
  have h := takeWhile_append_stop isLowerAlpha w (d :: r) hw (Or.inr ⟨d, r, rfl, hd⟩)
  rw [h.2]
  have : stripPrefix? " ptr ".toList (d :: r) = none := by
    have hne : (' ' == d) = false := by simp; exact fun e => hd' e.symm
    simp [stripPrefix?, ptrL, List.isPrefixOf, hne]
  rw [this]

/-- sizes the syntax can express -/
def ValidSize (n : Nat) : Prop := n = 0 ∨ ∃ p ∈ x86SizeWords, p.2 = n

theorem readSize_spec (n : Nat) (hn : ValidSize n) (w : Str) (d : Char) (r : Str) (hw : ∀ c ∈ w, isLowerAlpha c = true)
    (hd : isLowerAlpha d = false) (hd' : d ≠ ' ') :
    readX86Size (x86SizeString n ++ (w ++ d :: r)) = (some n, w ++ d :: r) := by
  rcases hn with h0 | ⟨p, hp, hpn⟩
  · subst h0
    have : x86SizeString 0 = [] := by decide
    rw [this, List.nil_append]
    exact readSize_none w d r hw hd hd'
  · obtain ⟨h1, h2, h3⟩ := sizeWords_facts p hp
    subst hpn
    rw [h1, List.append_assoc, readSize_word _ _ h3, h2]

theorem segNames_facts : ∀ sg ∈ [1, 2, 3, 4, 5, 6],
    (∀ c ∈ cstrAt x86NameStrings (224 + sg * 4), isLowerAlpha c = true) ∧
    lookupName x86Regs (cstrAt x86NameStrings (224 + sg * 4)) = some (25, sg) := by decide +kernel

theorem readSeg_spec (m : X86Mem) (hseg : m.seg < 7) (X : Str) :
    readX86Seg (x86MemSegText m ++ ('[' :: X)) = (some m.seg, '[' :: X) := by
  unfold x86MemSegText
  by_cases h0 : m.seg = 0
  · simp [h0, readX86Seg, List.dropWhile, isLowerAlpha]
  · have hmem : m.seg ∈ [1, 2, 3, 4, 5, 6] := by simp; omega
    obtain ⟨hl, hlk⟩ := segNames_facts m.seg hmem
    simp only [h0, hseg, ne_eq, not_false_eq_true, and_self, if_true]
    unfold readX86Seg
    have h := takeWhile_append_stop isLowerAlpha (cstrAt x86NameStrings (224 + m.seg * 4)) (':' :: '[' :: X) hl
      (Or.inr ⟨':', '[' :: X, rfl, by decide⟩)
    have e : cstrAt x86NameStrings (224 + m.seg * 4) ++ [':'] ++ '[' :: X =
        cstrAt x86NameStrings (224 + m.seg * 4) ++ (':' :: '[' :: X) := by simp
    rw [e, h.2, h.1, hlk]
    rfl

theorem readAddr_spec (m : X86Mem) (hat : m.addrType ≤ 2) (F : Str) (hF : ' ' ∉ F) :
    readX86AddrType (x86MemAddrText m ++ F) = (m.addrType, F) := by
  have hcases : m.addrType = 0 ∨ m.addrType = 1 ∨ m.addrType = 2 := by omega
  unfold readX86AddrType x86MemAddrText
  rcases hcases with h | h | h <;> rw [h]
  · have h1 := stripPrefix_none_of_not_mem "abs ".toList F ' ' (by decide) hF
    have h2 := stripPrefix_none_of_not_mem "rel ".toList F ' ' (by decide) hF
    show (match stripPrefix? "abs ".toList ([] ++ F), stripPrefix? "rel ".toList ([] ++ F) with
      | some r, _ => (1, r) | _, some r => (2, r) | _, _ => (0, [] ++ F)) = (0, F)
    rw [List.nil_append, h1, h2]
  · show (match stripPrefix? "abs ".toList ("abs ".toList ++ F), stripPrefix? "rel ".toList ("abs ".toList ++ F) with
      | some r, _ => (1, r) | _, some r => (2, r) | _, _ => (0, "abs ".toList ++ F)) = (1, F)
    rw [stripPrefix_append]
  · have h1 : stripPrefix? "abs ".toList ("rel ".toList ++ F) = none := by
      rw [absL, relL]; rfl
    show (match stripPrefix? "abs ".toList ("rel ".toList ++ F), stripPrefix? "rel ".toList ("rel ".toList ++ F) with
      | some r, _ => (1, r) | _, some r => (2, r) | _, _ => (0, "rel ".toList ++ F)) = (2, F)
    rw [h1, stripPrefix_append]

end AsmjitVerif.Lemmas.FormatX86Mem
