/- C07: AArch64 prolog / body / epilog from the well-formedness facts `A64WF`. -/
import AsmjitVerif.Lemmas.FrameA64
namespace AsmjitVerif.Frame

/-- What the AArch64 prolog / epilog rely on: facts about the reported numbers and about the list of
save slots (`a64Items`), for every frame incl. dynamic alignment and any SA register (fixes/C07-8). -/
structure A64WF (f : Frame) : Prop where
  arch : f.arch = .a64
  kA : ∃ k, 4 ≤ k ∧ k ≤ 7 ∧ f.finalAlign = 2 ^ k
  nat : f.natAlign = 16
  /-- a real register: `sp` or x0 … x30 -/
  saValid : f.saRegId ≤ 31
  saDA : f.hasDA = true → f.saRegId ≠ 31
  saDirty : f.saRegId ≠ 31 → (f.dirty 0).testBit f.saRegId = true
  saOffSa : f.saOffSa = f.ppSize
  fpFirst : f.hasFP = true → ∃ it rest, a64Items f = it :: rest ∧ it.2 = true
  cleanup : f.calleeCleanup = 0
  localFits : f.localEnd ≤ f.ppOff
  da : f.daOff ≠ invalidOff → f.localEnd ≤ f.daOff ∧ f.daOff + 8 ≤ f.ppOff
  daIff : f.daOff ≠ invalidOff ↔ (f.hasDA = true ∧ f.hasFP = false)
  adjPlain : f.hasDA = false → f.stackAdj = f.ppOff ∧ f.stackAdj % 16 = 0 ∧ f.saOffSp = f.finalSize ∧ f.finalAlign = 16
  adjDA : f.hasDA = true → f.stackAdj % f.finalAlign = 0 ∧ f.ppOff ≤ f.stackAdj ∧ f.saOffSp = invalidOff
            ∧ f.stackAdj < f.ppOff + f.finalAlign
  total : f.ppOff + f.ppSize = f.finalSize
  pei : a64Total f = f.ppSize ∧ f.ppSize % 16 = 0 ∧ f.finalSize < 2 ^ 30 ∧ f.stackAdj < 2 ^ 30
  first : ∀ it rest, a64Items f = it :: rest → it.1.2.2.2.2 = 0 ∧ itemsAsc (pBytes it.1) rest
            ∧ itemsEnd (pBytes it.1) rest ≤ f.ppSize ∧ 0 < pBytes it.1
  empty : a64Items f = [] → f.ppSize = 0
  nodup : (keysOf (a64Items f)).Nodup
  noSp : (0, 31) ∉ keysOf (a64Items f)
  mv : mvOk (a64Items f)
  keys : ∀ g r, r < 32 → ((g, r) ∈ keysOf (a64Items f) ↔ (g < 2 ∧ (f.saved g).testBit r = true))
  sizes : ∀ it ∈ a64Items f, it.1.2.1 = f.keepBytes it.1.1
  fpMv : (∃ it ∈ a64Items f, it.2 = true) → f.hasFP = true
  fpDirty : f.hasFP = true → (f.dirty 0).testBit 29 = true
  lrPres : (f.preserved 0).testBit 30 = true
  noX : ∀ g, 2 ≤ g → f.saved g = 0

theorem a64St_first (total : Nat) (p : PSlot) (h0 : p.2.2.2.2 = 0) (ht : total ≠ 0) : a64St total p = stPre total p := by
  unfold a64St stPre; rw [if_pos ⟨h0, ht⟩]
theorem a64Ld_first (total : Nat) (p : PSlot) (h0 : p.2.2.2.2 = 0) (ht : total ≠ 0) : a64Ld total p = ldPost total p := by
  unfold a64Ld ldPost; rw [if_pos ⟨h0, ht⟩]
theorem a64St_rest (total : Nat) (p : PSlot) (h0 : p.2.2.2.2 ≠ 0) : a64St total p = stFix p := by
  unfold a64St stFix; rw [if_neg (fun h => h0 h.1)]
theorem a64Ld_rest (total : Nat) (p : PSlot) (h0 : p.2.2.2.2 ≠ 0) : a64Ld total p = ldFix p := by
  unfold a64Ld ldFix; rw [if_neg (fun h => h0 h.1)]

theorem itemsAsc_off_pos : ∀ (rest : List (PSlot × Bool)) (lo : Nat), 0 < lo → itemsAsc lo rest →
    ∀ it ∈ rest, it.1.2.2.2.2 ≠ 0 := by
  intro rest
  induction rest with
  | nil => intro _ _ _ it hit; exact absurd hit (by simp)
  | cons x rest ih =>
    intro lo hlo hasc it hit
    rcases List.mem_cons.mp hit with h | h
    · subst h; have := hasc.1; omega
    · exact ih _ (by have := hasc.1; omega) hasc.2 it h

theorem itemsAsc_bound : ∀ (rest : List (PSlot × Bool)) (lo : Nat), itemsAsc lo rest →
    ∀ it ∈ rest, it.1.2.2.2.2 + pBytes it.1 ≤ itemsEnd lo rest := by
  intro rest
  induction rest with
  | nil => intro _ _ it hit; exact absurd hit (by simp)
  | cons x rest ih =>
    intro lo hasc it hit
    simp only [itemsEnd]
    rcases List.mem_cons.mp hit with h | h
    · subst h; exact itemsEnd_ge rest _ hasc.2
    · exact ih _ hasc.2 it h

theorem flatMap_congr' {α β : Type} (l : List α) (f g : α → List β) (h : ∀ x ∈ l, f x = g x) :
    l.flatMap f = l.flatMap g := by
  induction l with
  | nil => rfl
  | cons a l ih =>
    rw [List.flatMap_cons, List.flatMap_cons, h a (by simp), ih (fun x hx => h x (List.mem_cons_of_mem _ hx))]

theorem stores_cons (f : Frame) (it : PSlot × Bool) (rest : List (PSlot × Bool)) (h : a64Items f = it :: rest)
    (hoff : ∀ x ∈ rest, x.1.2.2.2.2 ≠ 0) (h0 : it.1.2.2.2.2 = 0) (ht : a64Total f ≠ 0) :
    a64Stores f = (stPre (a64Total f) it.1 :: (if it.2 then [Instr.mov 29 31] else [])) ++ rest.flatMap stItem := by
  unfold a64Stores
  rw [h, List.flatMap_cons]
  obtain ⟨p, mv⟩ := it
  congr 1
  · dsimp only at h0 ⊢
    rw [a64St_first _ _ h0 ht]
  · apply flatMap_congr'
    intro x hx
    obtain ⟨q, mq⟩ := x
    unfold stItem
    dsimp only
    rw [a64St_rest _ _ (hoff (q, mq) hx)]

theorem loads_cons (f : Frame) (it : PSlot × Bool) (rest : List (PSlot × Bool)) (h : a64Items f = it :: rest)
    (hoff : ∀ x ∈ rest, x.1.2.2.2.2 ≠ 0) (h0 : it.1.2.2.2.2 = 0) (ht : a64Total f ≠ 0) :
    a64Loads f = rest.reverse.map (fun x => ldFix x.1) ++ [ldPost (a64Total f) it.1] := by
  unfold a64Loads
  rw [h, List.reverse_cons, List.map_append]
  congr 1
  · apply List.map_congr_left
    intro x hx
    rw [List.mem_reverse] at hx
    obtain ⟨q, mq⟩ := x
    exact a64Ld_rest _ _ (hoff (q, mq) hx)
  · obtain ⟨p, mv⟩ := it
    simp only [List.map_cons, List.map_nil]
    dsimp only at h0
    rw [a64Ld_first _ _ h0 ht]

/-- the save area: all stores of the prolog and all loads of the epilog -/
theorem a64_saves (f : Frame) (wf : A64WF f) (s0 : St) (sp0 : Nat) (hsp : s0.gp 31 = sp0)
    (hret0 : s0.ret = none) (hal : sp0 % 16 = 0) (hroom : f.ppSize ≤ sp0) :
    ∃ tS, run .a64 (a64Stores f) s0 = some tS ∧ tS.gp 31 = sp0 - f.ppSize
      ∧ (∀ r, (r ≠ 29 ∨ f.hasFP = false) → r ≠ 31 → tS.gp r = s0.gp r) ∧ tS.x = s0.x ∧ tS.ret = none
      ∧ (f.hasFP = true → tS.gp 29 = sp0 - f.ppSize)
      ∧ (∀ x, x < sp0 - f.ppSize ∨ sp0 ≤ x → tS.mem x = s0.mem x)
      ∧ ∀ t2 : St, t2.gp 31 = sp0 - f.ppSize → t2.ret = none →
          (∀ x, sp0 - f.ppSize ≤ x → x < sp0 → t2.mem x = tS.mem x) →
          ∃ t3, run .a64 (a64Loads f) t2 = some t3 ∧ t3.gp 31 = sp0 ∧ t3.mem = t2.mem ∧ t3.ret = none
            ∧ (∀ it ∈ a64Items f, ∀ rd ∈ pRegs it.1, t3.reg it.1.1 rd.1 = s0.reg it.1.1 rd.1 % 256 ^ it.1.2.1)
            ∧ (∀ g r, (g, r) ∉ keysOf (a64Items f) → (g, r) ≠ (0, 31) → t3.reg g r = t2.reg g r) := by
  obtain ⟨htot, hpp16, hfs, _⟩ := wf.pei
  have hnofp : f.hasFP = false → ∀ it ∈ a64Items f, it.2 = false := by
    intro hfp it hit
    cases hm : it.2 with
    | false => rfl
    | true => have := wf.fpMv ⟨it, hit, hm⟩; rw [hfp] at this; exact absurd this (by simp)
  cases hitems : a64Items f with
  | nil =>
    have hz := wf.empty hitems
    have hnfp : f.hasFP = true → False := by
      intro hfp
      obtain ⟨it, rest, h, _⟩ := wf.fpFirst hfp
      rw [hitems] at h; exact absurd h (by simp)
    refine ⟨s0, ?_, by rw [hsp, hz]; rfl, fun _ _ _ => rfl, rfl, hret0, fun h => absurd h (by intro h; exact hnfp h), fun _ _ => rfl, ?_⟩
    · unfold a64Stores; rw [hitems]; rfl
    · intro t2 h2sp h2ret _
      refine ⟨t2, ?_, by rw [h2sp, hz]; rfl, rfl, h2ret, by simp, fun _ _ _ _ => rfl⟩
      unfold a64Loads; rw [hitems]; rfl
  | cons it0 rest =>
    obtain ⟨p0, mv0⟩ := it0
    obtain ⟨h0, hasc, hend, hpos⟩ := wf.first (p0, mv0) rest hitems
    dsimp only at h0 hasc hend hpos
    have hnd := wf.nodup
    have h31 := wf.noSp
    have hmv := wf.mv
    rw [hitems] at hnd h31 hmv
    have hkeys : keysOf ((p0, mv0) :: rest) = pKeys p0 ++ keysOf rest := by simp [keysOf]
    rw [hkeys] at hnd h31
    rw [List.nodup_append] at hnd
    obtain ⟨hndp, hndr, hdisj⟩ := hnd
    obtain ⟨hmv0, hmvr⟩ := hmv
    have h31p : (0, 31) ∉ pKeys p0 := fun h => h31 (List.mem_append_left _ h)
    have h31r : (0, 31) ∉ keysOf rest := fun h => h31 (List.mem_append_right _ h)
    have hoffne := itemsAsc_off_pos rest _ hpos hasc
    have hbound := itemsAsc_bound rest _ hasc
    have hendge := itemsEnd_ge rest _ hasc
    have htne : a64Total f ≠ 0 := by rw [htot]; omega
    have hppsm : f.ppSize < 2 ^ 30 := by have := wf.total; omega
    generalize hQ : sp0 - f.ppSize = Q at *
    have hQal : Q % 16 = 0 := by
      rw [← hQ]
      have : sp0 - f.ppSize = 16 * (sp0 / 16 - f.ppSize / 16) := by omega
      rw [this, Nat.mul_mod_right]
    -- first store, with the pre-indexed sp adjustment
    let sA : St := ({ s0 with mem := pStore s0 p0 Q }).setGp 31 Q
    have hstA : step .a64 (stPre (a64Total f) p0) s0 = some sA := by
      rw [step_stPre _ p0 s0 hret0 (by rw [hsp]; exact hal) (by rw [htot]; omega) (by rw [htot, hsp]; exact hroom), hsp, htot,
        hQ]
    have hmov : ∃ sB, run .a64 (if mv0 then [Instr.mov 29 31] else []) sA = some sB ∧ sB.mem = sA.mem ∧ sB.x = s0.x
        ∧ sB.ret = none ∧ sB.gp 31 = Q ∧ (∀ r, (r ≠ 29 ∨ mv0 = false) → r ≠ 31 → sB.gp r = s0.gp r)
        ∧ (∀ g r, ((g, r) ≠ (0, 29) ∨ mv0 = false) → (g, r) ≠ (0, 31) → sB.reg g r = s0.reg g r)
        ∧ (mv0 = true → sB.gp 29 = Q) := by
      have hA31 : sA.gp 31 = Q := by simp [sA]
      have hAgp : ∀ r, r ≠ 31 → sA.gp r = s0.gp r := fun r hr => by simp [sA, hr]
      have hAreg : ∀ g r, (g, r) ≠ (0, 31) → sA.reg g r = s0.reg g r := by
        intro g r hgr
        simp only [sA]
        rw [reg_setGp, if_neg (by intro ⟨h1, h2⟩; exact hgr (by rw [h1, h2]))]; rfl
      cases mv0 with
      | false =>
        exact ⟨sA, by simp [run], rfl, rfl, hret0, hA31, fun r _ hr => hAgp r hr, fun g r _ hgr => hAreg g r hgr,
          fun h => absurd h (by simp)⟩
      | true =>
        refine ⟨sA.setGp 29 (sA.gp 31), run_one _ _ _ _ (step_mov _ 29 31 sA hret0), rfl, rfl, hret0, ?_, ?_, ?_,
          fun _ => by simp only [setGp_gp, if_true]; exact hA31⟩
        · simp only [setGp_gp]; rw [if_neg (by omega)]; exact hA31
        · intro r hr hr31
          rcases hr with hr | hr
          · simp only [setGp_gp]; rw [if_neg hr]; exact hAgp r hr31
          · exact absurd hr (by simp)
        · intro g r hgr hgr31
          rcases hgr with hgr | hgr
          · rw [reg_setGp, if_neg (by intro ⟨h1, h2⟩; exact hgr (by rw [h1, h2]))]; exact hAreg g r hgr31
          · exact absurd hgr (by simp)
    obtain ⟨sB, rmov, sBmem, sBx, sBret, sBsp, sBgp, sBreg, sB29⟩ := hmov
    have hregrest : ∀ g r, (g, r) ∈ keysOf rest → sB.reg g r = s0.reg g r := by
      intro g r hgr
      apply sBreg
      · cases hm : mv0 with
        | false => exact Or.inr rfl
        | true => left; intro h; rw [h] at hgr; exact hmv0 hm hgr
      · intro h; rw [h] at hgr; exact h31r hgr
    obtain ⟨tS, rrest, tSsp, tSgp, tSx, tSret, tS29, tSmem, hload⟩ :=
      a64_bracket Q hQal rest (pBytes p0) sB hasc hndr h31r hmvr
        (fun it hit => by have := hbound it hit; omega) sBret sBsp
    have hfp29 : f.hasFP = true → tS.gp 29 = Q := by
      intro hfp
      obtain ⟨it, rest', h, hm⟩ := wf.fpFirst hfp
      rw [hitems] at h
      injection h with h1 _
      have hm0 : mv0 = true := by rw [← h1] at hm; exact hm
      rcases tS29 with h | h
      · rw [h]; exact sB29 hm0
      · exact h
    refine ⟨tS, ?_, tSsp, ?_, by rw [tSx, sBx], tSret, hfp29, ?_, ?_⟩
    · rw [stores_cons f (p0, mv0) rest hitems hoffne h0 htne, run_append]
      show (run .a64 (stPre _ p0 :: (if mv0 then [Instr.mov 29 31] else [])) s0).bind _ = _
      simp only [run, hstA, Option.bind_some]
      rw [rmov, Option.bind_some]; exact rrest
    · intro r hr hr31
      rw [tSgp r (by
        rcases hr with hr | hr
        · exact Or.inl hr
        · exact Or.inr (fun it hit => hnofp hr it (by rw [hitems]; exact List.mem_cons_of_mem _ hit)))]
      apply sBgp r _ hr31
      rcases hr with hr | hr
      · exact Or.inl hr
      · exact Or.inr (hnofp hr (p0, mv0) (by rw [hitems]; simp))
    · intro x hx
      rw [tSmem x (by omega), sBmem]
      simp only [sA, setGp_mem]
      exact pStore_other s0 p0 Q x (by omega)
    · intro t2 h2sp h2ret h2mem
      obtain ⟨t3', rl, t3'mem, t3'ret, t3'in, t3'out⟩ :=
        hload t2 h2sp h2ret (fun x h1 h2 => h2mem x (by omega) (by omega))
      have t3'sp : t3'.gp 31 = Q := by
        have := t3'out 0 31 h31r
        simp only [St.reg, if_true] at this
        rw [this]; exact h2sp
      let t3 : St := pLoad (t3'.setGp 31 (t3'.gp 31 + a64Total f)) t3'.mem p0 (t3'.gp 31)
      have hld : step .a64 (ldPost (a64Total f) p0) t3' = some t3 :=
        step_ldPost _ p0 t3' t3'ret (by rw [t3'sp]; exact hQal) (by rw [htot]; omega)
      obtain ⟨pl1, pl2, pl3, pl4⟩ :=
        pLoad_reg (t3'.setGp 31 (t3'.gp 31 + a64Total f)) t3'.mem p0 (t3'.gp 31) hndp
      refine ⟨t3, ?_, ?_, by simp only [t3]; rw [pl3]; simp [t3'mem], by simp only [t3]; rw [pl4]; exact t3'ret, ?_, ?_⟩
      · rw [loads_cons f (p0, mv0) rest hitems hoffne h0 htne, run_append, rl, Option.bind_some]
        exact run_one _ _ _ _ hld
      · simp only [t3]
        rw [pLoad_gp31 _ _ _ _ h31p]
        simp only [setGp_gp, if_true]
        rw [t3'sp, htot, ← hQ]; omega
      · intro it hit rd hrd
        rcases List.mem_cons.mp hit with hit | hit
        · subst hit
          dsimp only at hrd ⊢
          simp only [t3]
          rw [pl1 rd hrd, t3'sp, ← pStore_load s0 p0 Q rd hrd]
          apply loadBytes_congr
          intro x hx1 hx2
          have hrdle : rd.2 + p0.2.1 ≤ pBytes p0 := by
            obtain ⟨g, sz, r1, r2, off⟩ := p0
            unfold pBytes pRegs at *
            cases r2 with
            | none =>
              simp only [List.mem_cons, List.not_mem_nil, or_false] at hrd; subst hrd
              simp
            | some r2 =>
              simp only [List.mem_cons, List.not_mem_nil, or_false] at hrd
              dsimp only
              simp only [List.length_cons, List.length_nil]
              rcases hrd with hrd | hrd <;> subst hrd <;> dsimp only <;> omega
          rw [t3'mem, h2mem x (by omega) (by omega), tSmem x (Or.inl (by omega)), sBmem]
          simp [sA]
        · have hk : (it.1.1, rd.1) ∈ keysOf rest := by
            unfold keysOf; rw [List.mem_flatMap]
            exact ⟨it, hit, by unfold pKeys; rw [List.mem_map]; exact ⟨rd, hrd, rfl⟩⟩
          have hnp : (it.1.1, rd.1) ∉ pKeys p0 := fun h => hdisj _ h _ hk rfl
          simp only [t3]
          rw [pl2 _ _ hnp]
          have hne31 : (it.1.1, rd.1) ≠ (0, 31) := fun h => h31r (h ▸ hk)
          rw [reg_setGp, if_neg (by intro ⟨h1, h2⟩; exact hne31 (by rw [h1, h2])), t3'in it hit rd hrd, hregrest _ _ hk]
      · intro g r hgr hgr31
        rw [hkeys, List.mem_append] at hgr
        simp only [t3]
        rw [pl2 g r (fun h => hgr (Or.inl h)), reg_setGp, if_neg (by intro ⟨h1, h2⟩; exact hgr31 (by rw [h1, h2])),
          t3'out g r (fun h => hgr (Or.inr h))]

theorem step_and3_sp (sa k : Nat) (hk : k ≤ 7) (s : St) (hr : s.ret = none) (hb : s.gp sa < 2 ^ 64) :
    step .a64 (Instr.and3 31 sa (-(toI32 (2 ^ k)))) s = some (s.setGp 31 (s.gp sa - s.gp sa % 2 ^ k)) := by
  have hpk : 2 ^ k ≤ 128 := by
    have : 2 ^ k ≤ 2 ^ 7 := Nat.pow_le_pow_right (by omega) hk
    omega
  simp only [step, isSome_false_of_none hr, Bool.false_eq_true, if_false]
  rw [show Arch.a64.W = 8 from rfl, immBits_neg 8 (2 ^ k) (Or.inr rfl) ⟨Nat.two_pow_pos k, hpk⟩,
    and_neg_pow2_n (8 * 8) (s.gp sa) k hb (by omega)]

/-- body `sp` of an AArch64 frame whose save area starts at `Q` -/
def a64BodySp (f : Frame) (Q : Nat) : Nat :=
  if f.hasDA then Q - Q % f.finalAlign - f.stackAdj else Q - f.stackAdj

theorem daBase_eq (f : Frame) (h : f.daOff < 2 ^ 32) :
    a64DaBase f = f.daOff - f.daOff % 16 ∧ f.daOff &&& 15 = f.daOff % 16 := by
  constructor
  · unfold a64DaBase
    have : (2 : Nat) ^ 32 - 1 - 15 = 2 ^ 32 - 2 ^ 4 := by decide
    rw [this]
    exact and_neg_pow2 f.daOff 4 h (by omega)
  · exact Nat.and_two_pow_sub_one_eq_mod f.daOff 4

/-- **the part between the save area and the body** (prolog: SA register, dynamic alignment, DA slot, `sub sp`;
epilog: `sp` back to the save area) -/
theorem a64_tail (f : Frame) (wf : A64WF f) (tS : St) (Q : Nat) (hret : tS.ret = none) (hsp : tS.gp 31 = Q)
    (hfp : f.hasFP = true → tS.gp 29 = Q) (hQ16 : Q % 16 = 0)
    (hroom : f.stackAdj + f.finalAlign ≤ Q) (hbits : Q < 2 ^ 64)
    (tail head : List Instr) (htail : a64PrologTail f = some tail) (hhead : a64EpilogHead f = some head) :
    ∃ s1, run .a64 (a64SaMov f ++ tail) tS = some s1 ∧ s1.ret = none ∧ s1.x = tS.x ∧ s1.gp 31 = a64BodySp f Q
      ∧ (∀ r, r ≠ 31 → r ≠ f.saRegId → s1.gp r = tS.gp r)
      ∧ (f.saRegId ≠ 31 → s1.gp f.saRegId = Q)
      ∧ (∀ x, x < a64BodySp f Q + f.localEnd ∨ Q ≤ x → s1.mem x = tS.mem x)
      ∧ a64BodySp f Q % f.finalAlign = 0 ∧ a64BodySp f Q + f.stackAdj ≤ Q
      ∧ (f.hasDA = false → a64BodySp f Q + f.stackAdj = Q)
      ∧ ∀ s2 : St, s2.gp 31 = a64BodySp f Q → s2.ret = none →
          (∀ x, a64BodySp f Q + f.localEnd ≤ x → x < Q → s2.mem x = s1.mem x) →
          (f.hasFP = true → s2.gp 29 = Q) →
          ∃ t2, run .a64 head s2 = some t2 ∧ t2.gp 31 = Q ∧ (∀ r, r ≠ 31 → r ≠ f.saRegId → t2.gp r = s2.gp r)
            ∧ t2.x = s2.x ∧ t2.mem = s2.mem ∧ t2.ret = none := by
  obtain ⟨k, hk4, hk7, hA⟩ := wf.kA
  have hpk : 16 ≤ 2 ^ k ∧ 2 ^ k ≤ 128 := by
    have h1 : 2 ^ 4 ≤ 2 ^ k := Nat.pow_le_pow_right (by omega) hk4
    have h2 : 2 ^ k ≤ 2 ^ 7 := Nat.pow_le_pow_right (by omega) hk7
    omega
  have h16dvd : 16 ∣ 2 ^ k := by
    have : (16 : Nat) = 2 ^ 4 := rfl
    rw [this]; exact Nat.pow_dvd_pow 2 hk4
  obtain ⟨_, _, _, hadjsm⟩ := wf.pei
  have hlocal := wf.localFits
  have hsav := wf.saValid
  -- SA register
  have hM : ∃ tM, run .a64 (a64SaMov f) tS = some tM ∧ tM.ret = none ∧ tM.x = tS.x ∧ tM.mem = tS.mem ∧ tM.gp 31 = Q
      ∧ (∀ r, r ≠ f.saRegId → tM.gp r = tS.gp r) ∧ (f.saRegId ≠ 31 → tM.gp f.saRegId = Q) := by
    unfold a64SaMov a64HasSaReg a64SaReg
    by_cases hsa : f.saRegId = 31
    · refine ⟨tS, ?_, hret, rfl, rfl, hsp, fun _ _ => rfl, fun h => absurd hsa h⟩
      simp [hsa, run]
    · have h255 : f.saRegId ≠ 255 := by omega
      have hhas : (f.saRegId != 255 && f.saRegId != 31) = true := by simp [h255, hsa]
      by_cases hc : f.hasFP = true ∧ f.saRegId = 29
      · refine ⟨tS, ?_, hret, rfl, rfl, hsp, fun _ _ => rfl, fun _ => by rw [hc.2]; exact hfp hc.1⟩
        simp [hc.1, hc.2, run]
      · have hcond : (f.hasFP && f.saRegId == 29) = false := by
          cases h1 : f.hasFP with
          | false => rfl
          | true =>
            have : f.saRegId ≠ 29 := fun h => hc ⟨h1, h⟩
            simp [this]
        refine ⟨tS.setGp f.saRegId (tS.gp 31), ?_, hret, rfl, rfl, ?_, ?_, ?_⟩
        · have hhas' : a64HasSaReg f = true := hhas
          simp only [hhas, hhas', hcond, Bool.not_false, Bool.and_self, if_true]
          exact run_one _ _ _ _ (step_mov _ _ _ _ hret)
        · simp only [setGp_gp]; rw [if_neg (fun h => hsa h.symm)]; exact hsp
        · intro r hr; simp only [setGp_gp]; rw [if_neg hr]
        · intro _; simp only [setGp_gp, if_true]; exact hsp
  obtain ⟨tM, rM, tMret, tMx, tMmem, tMsp, tMgp, tMsa⟩ := hM
  have hApos : 0 < f.finalAlign := by rw [hA]; exact Nat.two_pow_pos k
  have hmodle : Q % f.finalAlign ≤ Q := Nat.mod_le _ _
  have hmodlt : Q % f.finalAlign < f.finalAlign := Nat.mod_lt _ hApos
  cases hda : f.hasDA with
  | false =>
    -- no dynamic alignment: `sub sp` / `add sp`
    obtain ⟨e1, e16, _, hA16⟩ := wf.adjPlain hda
    have hS : a64BodySp f Q = Q - f.stackAdj := by unfold a64BodySp; rw [hda]; rfl
    unfold a64PrologTail at htail
    unfold a64EpilogHead at hhead
    simp only [hda, Bool.false_eq_true, if_false, Bool.false_and] at htail hhead
    obtain ⟨s1, r1, s1sp, s1gp, s1x, s1mem, s1ret⟩ := run_a64_sub f.stackAdj tM tMret (by rw [tMsp]; omega) tail htail
    rw [tMsp] at s1sp
    refine ⟨s1, ?_, s1ret, by rw [s1x, tMx], by rw [hS]; exact s1sp, ?_, ?_, ?_, ?_, by rw [hS]; omega,
      fun _ => by rw [hS]; omega, ?_⟩
    · rw [run_append, rM, Option.bind_some]; exact r1
    · intro r h31 hsa; rw [s1gp r h31]; exact tMgp r hsa
    · intro hsa; rw [s1gp _ hsa]; exact tMsa hsa
    · intro x _; rw [s1mem, tMmem]
    · rw [hS, hA16]; omega
    · intro s2 h2sp h2ret _ _
      obtain ⟨t2, r2, t2sp, t2gp, t2x, t2mem, t2ret⟩ := run_a64_add f.stackAdj s2 h2ret head hhead
      refine ⟨t2, r2, by rw [t2sp, h2sp, hS]; omega, fun r h31 _ => t2gp r h31, t2x, t2mem, t2ret⟩
  | true =>
    obtain ⟨d1, d2, _⟩ := wf.adjDA hda
    have hsa31 := wf.saDA hda
    have hhas : a64HasSaReg f = true := by
      unfold a64HasSaReg
      have : f.saRegId ≠ 255 := by omega
      simp [this, hsa31]
    have hreg : a64SaReg f = f.saRegId := by unfold a64SaReg; rw [hhas]; rfl
    have hS : a64BodySp f Q = Q - Q % f.finalAlign - f.stackAdj := by unfold a64BodySp; rw [hda]; rfl
    have hMsa := tMsa hsa31
    -- `and sp, sa, #-A`
    have rA : step .a64 (Instr.and3 31 (a64SaReg f) (-(toI32 f.finalAlign))) tM
        = some (tM.setGp 31 (Q - Q % f.finalAlign)) := by
      rw [hreg, hA, step_and3_sp f.saRegId k hk7 tM tMret (by rw [hMsa]; exact hbits), hMsa]
    have hQ'A : (Q - Q % f.finalAlign) % f.finalAlign = 0 := by
      have := Nat.div_add_mod Q f.finalAlign
      have e : Q - Q % f.finalAlign = f.finalAlign * (Q / f.finalAlign) := by omega
      rw [e, Nat.mul_mod_right]
    have m16 : ∀ x, x % f.finalAlign = 0 → x % 16 = 0 := by
      intro x hx
      rw [hA] at hx
      exact Nat.mod_eq_zero_of_dvd (Nat.dvd_trans h16dvd (Nat.dvd_of_mod_eq_zero hx))
    have hQ'16 := m16 _ hQ'A
    have hadj16 := m16 _ d1
    have hSA : (Q - Q % f.finalAlign - f.stackAdj) % f.finalAlign = 0 := by
      apply Nat.mod_eq_zero_of_dvd
      exact Nat.dvd_sub (Nat.dvd_of_mod_eq_zero hQ'A) (Nat.dvd_of_mod_eq_zero d1)
    generalize hQ' : Q - Q % f.finalAlign = Q' at *
    have hQ'le : Q' ≤ Q := by omega
    have tAret : (tM.setGp 31 Q').ret = none := tMret
    unfold a64PrologTail at htail
    unfold a64EpilogHead at hhead
    simp only [hda, if_true, hhas, Bool.not_true, Bool.false_eq_true, if_false, Bool.true_and] at htail hhead
    by_cases hd : f.daOff = invalidOff
    · -- frame pointer preserved: no DA slot, the epilog restores sp from x29
      have hfpt : f.hasFP = true := by
        cases h : f.hasFP with
        | true => rfl
        | false => exact absurd (wf.daIff.mpr ⟨hda, h⟩) (by simp [hd])
      simp only [hd, ne_eq, not_true_eq_false, if_false] at htail
      rw [Option.map_eq_some_iff] at htail
      obtain ⟨subs, hsubs, rfl⟩ := htail
      obtain ⟨s1, r1, s1sp, s1gp, s1x, s1mem, s1ret⟩ :=
        run_a64_sub f.stackAdj (tM.setGp 31 Q') tAret (by simp only [setGp_gp, if_true]; omega) subs hsubs
      simp only [setGp_gp, if_true] at s1sp
      refine ⟨s1, ?_, s1ret, by rw [s1x]; exact tMx, by rw [hS]; exact s1sp, ?_, ?_, ?_, by rw [hS]; exact hSA,
        by rw [hS]; omega, fun h => absurd h (by simp), ?_⟩
      · rw [run_append, rM, Option.bind_some]
        show (step .a64 _ tM).bind _ = _
        rw [rA, Option.bind_some]; exact r1
      · intro r h31 hsa
        rw [s1gp r h31]; simp only [setGp_gp, if_neg h31]; exact tMgp r hsa
      · intro hsa
        rw [s1gp _ hsa]; simp only [setGp_gp, if_neg hsa]; exact hMsa
      · intro x _; rw [s1mem]; exact congrFun tMmem x
      · intro s2 h2sp h2ret _ h2fp
        simp only [hfpt, Bool.and_self, if_true] at hhead
        injection hhead with hhead; subst hhead
        refine ⟨s2.setGp 31 (s2.gp 29), run_one _ _ _ _ (step_mov _ 31 29 s2 h2ret), by simp [h2fp hfpt],
          fun r h31 _ => by simp [h31], rfl, rfl, h2ret⟩
    · -- no frame pointer: the unaligned sp goes to the DA slot
      obtain ⟨hnfp⟩ : f.hasFP = false ∧ True := ⟨(wf.daIff.mp hd).2, trivial⟩
      obtain ⟨da1, da2⟩ := wf.da hd
      have hdalt : f.daOff < 2 ^ 32 := by omega
      obtain ⟨hbase, hrem⟩ := daBase_eq f hdalt
      have hr16 := Nat.mod_lt f.daOff (show 0 < 16 by omega)
      have hble : a64DaBase f ≤ f.daOff := by rw [hbase]; omega
      have hb16 : a64DaBase f % 16 = 0 := by rw [hbase]; omega
      have ha1 : u32 (f.stackAdj + 2 ^ 32 - a64DaBase f) = f.stackAdj - a64DaBase f := by
        have : f.stackAdj + 2 ^ 32 - a64DaBase f = (f.stackAdj - a64DaBase f) + 2 ^ 32 := by omega
        unfold u32; rw [this, Nat.add_mod_right, Nat.mod_eq_of_lt (by omega)]
      simp only [hd, ne_eq, not_false_eq_true, if_true, ha1] at htail
      rw [Option.bind_eq_some_iff] at htail
      obtain ⟨sub1, hsub1, htail⟩ := htail
      rw [Option.map_eq_some_iff] at htail
      obtain ⟨sub2, hsub2, rfl⟩ := htail
      obtain ⟨tB, rB, tBsp, tBgp, tBx, tBmem, tBret⟩ :=
        run_a64_sub (f.stackAdj - a64DaBase f) (tM.setGp 31 Q') tAret (by simp only [setGp_gp, if_true]; omega) sub1 hsub1
      simp only [setGp_gp, if_true] at tBsp
      have tBsa : tB.gp f.saRegId = Q := by rw [tBgp _ hsa31]; simp only [setGp_gp, if_neg hsa31]; exact hMsa
      -- the store to the DA slot
      let p : PSlot := (0, 8, f.saRegId, none, f.daOff &&& 15)
      have hstC : step .a64 (Instr.stp 0 8 (a64SaReg f) none 31 (toI32 (f.daOff &&& 15)) .fixed) tB
          = some { tB with mem := storeBytes tB.mem (a64BodySp f Q + f.daOff) 8 Q } := by
        rw [hreg]
        have := step_stFix p tB tBret (by rw [tBsp]; omega) (by show f.daOff &&& 15 < _; rw [hrem]; omega)
        rw [show stFix p = Instr.stp 0 8 f.saRegId none 31 (toI32 (f.daOff &&& 15)) .fixed from rfl] at this
        rw [this]
        have haddr : tB.gp 31 + (f.daOff &&& 15) = a64BodySp f Q + f.daOff := by
          rw [tBsp, hrem, hS, hbase]; omega
        show some { tB with mem := pStore tB p (tB.gp 31 + (f.daOff &&& 15)) } = _
        rw [haddr]
        simp only [pStore, p, St.reg, if_true, tBsa]
      obtain ⟨s1, r1, s1sp, s1gp, s1x, s1mem, s1ret⟩ :=
        run_a64_sub (a64DaBase f) { tB with mem := storeBytes tB.mem (a64BodySp f Q + f.daOff) 8 Q } tBret
          (by show a64DaBase f ≤ tB.gp 31; rw [tBsp]; omega) sub2 hsub2
      have s1sp' : s1.gp 31 = a64BodySp f Q := by
        rw [s1sp]; show tB.gp 31 - a64DaBase f = _; rw [tBsp, hS]; omega
      refine ⟨s1, ?_, s1ret, by rw [s1x]; show tB.x = _; rw [tBx]; exact tMx, s1sp', ?_, ?_, ?_, by rw [hS]; exact hSA,
        by rw [hS]; omega, fun h => absurd h (by simp), ?_⟩
      · rw [run_append, rM, Option.bind_some]
        show (step .a64 _ tM).bind _ = _
        rw [rA, Option.bind_some]
        simp only [List.append_eq, List.nil_append]
        rw [run_append, run_append, rB, Option.bind_some]
        show ((step .a64 _ tB).bind _).bind _ = _
        rw [hstC]; exact r1
      · intro r h31 hsa
        rw [s1gp r h31]; show tB.gp r = _
        rw [tBgp r h31]; simp only [setGp_gp, if_neg h31]; exact tMgp r hsa
      · intro hsa
        rw [s1gp _ hsa]; exact tBsa
      · intro x hx
        rw [s1mem]
        show storeBytes tB.mem (a64BodySp f Q + f.daOff) 8 Q x = _
        rw [storeBytes_other _ _ _ _ _ (by rw [hS] at hx ⊢; omega), tBmem]
        exact congrFun tMmem x
      · intro s2 h2sp h2ret h2mem _
        simp only [hnfp, Bool.and_false, Bool.false_eq_true, if_false, hd, bne_iff_ne, ne_eq, not_false_eq_true,
          decide_true, Bool.and_self, if_true] at hhead
        rw [Option.map_eq_some_iff] at hhead
        obtain ⟨add1, hadd1, rfl⟩ := hhead
        obtain ⟨tD, rD, tDsp, tDgp, tDx, tDmem, tDret⟩ := run_a64_add (a64DaBase f) s2 h2ret add1 hadd1
        rw [h2sp] at tDsp
        have hld := step_ldFix p tD tDret (by rw [tDsp, hS]; omega) (by show f.daOff &&& 15 < _; rw [hrem]; omega)
        rw [show ldFix p = Instr.ldp 0 8 f.saRegId none 31 (toI32 (f.daOff &&& 15)) .fixed from rfl] at hld
        have haddr : tD.gp 31 + (f.daOff &&& 15) = a64BodySp f Q + f.daOff := by
          rw [tDsp, hrem, hbase]; omega
        have hval : loadBytes tD.mem (a64BodySp f Q + f.daOff) 8 = Q := by
          rw [tDmem]
          have : loadBytes s2.mem (a64BodySp f Q + f.daOff) 8
              = loadBytes (storeBytes tB.mem (a64BodySp f Q + f.daOff) 8 Q) (a64BodySp f Q + f.daOff) 8 := by
            apply loadBytes_congr
            intro x hx1 hx2
            rw [h2mem x (by omega) (by rw [hS] at hx2; omega), s1mem]
          rw [this, loadBytes_store_same, Nat.mod_eq_of_lt (by
            have : (256 : Nat) ^ 8 = 2 ^ 64 := by decide
            rw [this]; exact hbits)]
        let tE : St := pLoad tD tD.mem p (tD.gp 31 + (f.daOff &&& 15))
        have tEsa : tE.gp f.saRegId = Q := by
          simp only [tE, pLoad, p, St.setReg, if_true, setGp_gp]
          rw [haddr]; exact hval
        have tEret : tE.ret = none := by simp only [tE, pLoad, p]; rw [setReg_ret]; exact tDret
        refine ⟨tE.setGp 31 (tE.gp f.saRegId), ?_, by simp only [setGp_gp, if_true]; exact tEsa, ?_, ?_, ?_, tEret⟩
        · rw [run_append, rD, Option.bind_some]
          show (step .a64 _ tD).bind _ = _
          rw [hld, Option.bind_some]
          exact run_one _ _ _ _ (step_mov _ 31 _ tE tEret)
        · intro r h31 hsa
          simp only [setGp_gp, if_neg h31, tE, pLoad, p, St.setReg, if_true, if_neg hsa]
          exact tDgp r h31
        · simp only [setGp_x, tE, pLoad, p, St.setReg, if_true]; exact tDx
        · simp only [setGp_mem, tE, pLoad, p]; rw [setReg_mem]; exact tDmem

/-- **AArch64: prolog, any confined body, epilog** - every frame, incl. dynamic alignment and SA registers. -/
theorem a64_main (f : Frame) (wf : A64WF f) (pro epi : List Instr)
    (hpro : a64Prolog f = some pro) (hepi : a64Epilog f = some epi) (s0 : St)
    (hentry : entryOk f s0 = true) (hroom : f.finalSize + 2 * f.finalAlign ≤ s0.gp 31) (hbits : s0.gp 31 < 2 ^ 64)
    (hlr : s0.gp 30 < 256 ^ 8) :
    ∃ s1, run .a64 pro s0 = some s1 ∧ s1.ret = none ∧ bodyEntryOk f s0 s1 = true
      ∧ (∀ x, s0.gp 31 ≤ x → s1.mem x = s0.mem x)
      ∧ ∀ s2, BodyOK f (s0.gp 31) s1 s2 →
          ∃ s3, run .a64 epi s2 = some s3 ∧ exitOk f s0 s3 = true ∧ s3.mem = s2.mem := by
  have harch := wf.arch
  have hN := wf.nat
  have htot := wf.total
  obtain ⟨hpei, hpp16, hfs, hadjsm⟩ := wf.pei
  obtain ⟨k, hk4, hk7, hA⟩ := wf.kA
  have hpk : 2 ^ k ≤ 128 := by
    have : 2 ^ k ≤ 2 ^ 7 := Nat.pow_le_pow_right (by omega) hk7
    omega
  have hret0 : s0.ret = none := by
    unfold entryOk at hentry
    simp only [Bool.and_eq_true, Option.isNone_iff_eq_none] at hentry
    exact hentry.1
  have hent : s0.gp 31 % 16 = 0 := by
    unfold entryOk at hentry
    simp only [Bool.and_eq_true, beq_iff_eq, harch, Arch.spId, Arch.retSize, Arch.lrId, hN, Nat.add_zero] at hentry
    exact hentry.2
  generalize hsp0 : s0.gp 31 = sp0 at *
  unfold a64Prolog at hpro
  unfold a64Epilog at hepi
  rw [Option.map_eq_some_iff] at hpro hepi
  obtain ⟨tail, htail, rfl⟩ := hpro
  obtain ⟨head, hhead, rfl⟩ := hepi
  have r0 : run .a64 (a64Bti f) s0 = some s0 := by
    apply run_nops _ _ _ _ hret0
    intro i hi; unfold a64Bti at hi; split at hi <;> simp at hi; exact ⟨_, hi⟩
  obtain ⟨tS, rS, tSsp, tSgp, tSx, tSret, tSfp, tSmem, hloads⟩ := a64_saves f wf s0 sp0 hsp0 hret0 hent (by omega)
  generalize hQ : sp0 - f.ppSize = Q at *
  have hQsp0 : Q + f.ppSize = sp0 := by omega
  have hQ16 : Q % 16 = 0 := by omega
  have hadjle : f.stackAdj ≤ f.ppOff + f.finalAlign := by
    cases hda : f.hasDA with
    | false => rw [(wf.adjPlain hda).1]; omega
    | true =>
      have := (wf.adjDA hda).2.2.2; omega
  obtain ⟨s1, r1, s1ret, s1x, s1sp, s1gp, s1sa, s1mem, s1al, s1le, s1eq, hhd⟩ :=
    a64_tail f wf tS Q tSret tSsp tSfp hQ16 (by omega) (by omega) tail head htail hhead
  generalize hS : a64BodySp f Q = S at *
  have hlocal := wf.localFits
  have hppadj : f.ppOff ≤ f.stackAdj := by
    cases hda : f.hasDA with
    | false => rw [(wf.adjPlain hda).1]; exact Nat.le_refl _
    | true => exact (wf.adjDA hda).2.1
  refine ⟨s1, ?_, s1ret, ?_, ?_, ?_⟩
  · rw [run_append, r0, Option.bind_some, run_append, rS, Option.bind_some]; exact r1
  · unfold bodyEntryOk
    simp only [harch, Arch.spId, hsp0, saBase, Arch.retSize, Arch.lrId, Nat.add_zero,
      Bool.and_eq_true, Bool.or_eq_true, Bool.not_eq_true', beq_iff_eq]
    refine ⟨⟨Or.inr (by rw [s1sp]; exact s1al), ?_⟩, ?_⟩
    · by_cases hsa : f.saRegId = 31
      · have hnda : f.hasDA = false := by
          cases h : f.hasDA with
          | false => rfl
          | true => exact absurd hsa (wf.saDA h)
        rw [if_pos hsa, beq_iff_eq, s1sp, (wf.adjPlain hnda).2.2.1]
        have e1 := (wf.adjPlain hnda).1
        have := s1eq hnda; omega
      · rw [if_neg hsa, beq_iff_eq, s1sa hsa, wf.saOffSa]; omega
    · cases hda : f.hasDA with
      | true => exact Or.inl (wf.adjDA hda).2.2.1
      | false =>
        right
        rw [s1sp, (wf.adjPlain hda).2.2.1]
        have e1 := (wf.adjPlain hda).1
        have := s1eq hda; omega
  · intro x hx
    rw [s1mem x (Or.inr (by omega)), tSmem x (Or.inr hx)]
  · intro s2 hbody
    obtain ⟨b_sp, b_mem, b_gp, b_x, b_ret⟩ := hbody
    simp only [harch, Arch.spId] at b_sp b_mem
    rw [s1sp] at b_sp b_mem
    have hbodymem : ∀ x, S + f.localEnd ≤ x → x < sp0 → s2.mem x = s1.mem x := by
      intro x h1 h2
      apply b_mem x h1
      simp only [saBase, harch, Arch.retSize, Arch.lrId, Nat.add_zero]
      omega
    have hfp29 : f.hasFP = true → s2.gp 29 = Q := by
      intro hfp
      have hw : f.bodyMayWrite 0 29 = false := by
        unfold Frame.bodyMayWrite
        simp [harch, Arch.fpId, Arch.spId, hfp]
      rw [b_gp 29 hw]
      by_cases hsa : f.saRegId = 29
      · have := s1sa (by rw [hsa]; omega); rw [hsa] at this; exact this
      · rw [s1gp 29 (by omega) (fun h => hsa h.symm)]; exact tSfp hfp
    obtain ⟨t2, r2, ht2sp, t2gp, t2x, t2mem, t2ret⟩ :=
      hhd s2 b_sp b_ret (fun x h1 h2 => hbodymem x h1 (by omega)) hfp29
    obtain ⟨t3, r3, t3sp, t3mem, t3ret, t3in, t3out⟩ :=
      hloads t2 ht2sp t2ret (fun x h1 h2 => by
        rw [t2mem, hbodymem x (by unfold Frame.localEnd at hlocal ⊢; omega) h2, s1mem x (Or.inr h1)])
    let s3 : St := { t3 with ret := some (t3.gp 30) }
    have r4 : run .a64 [Instr.retReg 30] t3 = some s3 := by
      apply run_one
      simp only [step, isSome_false_of_none t3ret, Bool.false_eq_true, if_false]
      rfl
    -- what a register holds at the end, by cases on whether it is saved
    have hfinal : ∀ g r, r < 32 → (g, r) ≠ (0, 31) → ((f.preserved g).testBit r = true) →
        t3.reg g r % 256 ^ f.keepBytes g = s0.reg g r % 256 ^ f.keepBytes g := by
      intro g r hr hne hpres
      by_cases hkey : (g, r) ∈ keysOf (a64Items f)
      · unfold keysOf at hkey
        rw [List.mem_flatMap] at hkey
        obtain ⟨it, hit, hk⟩ := hkey
        unfold pKeys at hk
        rw [List.mem_map] at hk
        obtain ⟨rd, hrd, hrdeq⟩ := hk
        obtain ⟨e1, e2⟩ := Prod.mk.inj hrdeq
        have := t3in it hit rd hrd
        rw [e1, e2] at this
        rw [this, wf.sizes it hit, e1, Nat.mod_mod]
      · have hnd : (f.dirty g).testBit r = false := by
          cases hd : (f.dirty g).testBit r with
          | false => rfl
          | true =>
            exfalso
            by_cases hg2 : g < 2
            · exact hkey ((wf.keys g r hr).mpr ⟨hg2, by unfold Frame.saved; rw [Nat.testBit_and, hd, hpres]; rfl⟩)
            · have := wf.noX g (by omega)
              unfold Frame.saved at this
              have h2 : (f.dirty g &&& f.preserved g).testBit r = true := by rw [Nat.testBit_and, hd, hpres]; rfl
              rw [this] at h2; simp at h2
        have hw : f.bodyMayWrite g r = false := by unfold Frame.bodyMayWrite; rw [hnd]; rfl
        rw [t3out g r hkey hne]
        by_cases hg0 : g = 0
        · subst hg0
          have hr31 : r ≠ 31 := fun h => hne (by rw [h])
          simp only [St.reg, if_true]
          have hrsa : r ≠ f.saRegId := by
            intro h
            have := wf.saDirty (by rw [← h]; exact hr31)
            rw [← h, hnd] at this; exact absurd this (by simp)
          rw [t2gp r hr31 hrsa, b_gp r hw, s1gp r hr31 hrsa]
          rw [tSgp r (by
            by_cases h29 : r = 29
            · right
              cases hfp : f.hasFP with
              | false => rfl
              | true => have := wf.fpDirty hfp; rw [← h29, hnd] at this; exact absurd this (by simp)
            · exact Or.inl h29) hr31]
        · simp only [St.reg, if_neg hg0]
          rw [t2x, b_x g r hg0 hw, s1x, tSx]
    refine ⟨s3, ?_, ?_, by simp only [s3]; rw [t3mem, t2mem]⟩
    · rw [run_append, r2, Option.bind_some, run_append, r3, Option.bind_some]; exact r4
    · unfold exitOk
      simp only [harch, Arch.spId, hsp0, Arch.retSize, Arch.lrId, Nat.add_zero, wf.cleanup, Bool.and_eq_true, beq_iff_eq,
        List.all_eq_true, List.mem_range, Bool.or_eq_true, Bool.not_eq_true', returnAddress]
      refine ⟨⟨?_, ?_⟩, ?_⟩
      · simp only [s3]
        congr 1
        have h := hfinal 0 30 (by omega) (by simp) wf.lrPres
        simp only [St.reg, if_true, Frame.keepBytes, harch, Arch.W] at h
        have hk : (0, 30) ∈ keysOf (a64Items f) ∨ (0, 30) ∉ keysOf (a64Items f) := Classical.em _
        rcases hk with hk | hk
        · -- restored from its slot: the loaded value is below 2^64
          unfold keysOf at hk
          rw [List.mem_flatMap] at hk
          obtain ⟨it, hit, hk⟩ := hk
          unfold pKeys at hk
          rw [List.mem_map] at hk
          obtain ⟨rd, hrd, hrdeq⟩ := hk
          obtain ⟨e1, e2⟩ := Prod.mk.inj hrdeq
          have := t3in it hit rd hrd
          rw [e1, e2, wf.sizes it hit, e1] at this
          simp only [St.reg, if_true, Frame.keepBytes, harch, Arch.W] at this
          rw [this, Nat.mod_eq_of_lt hlr]
        · have h2 := t3out 0 30 hk (by simp)
          simp only [St.reg, if_true] at h2
          have hnd : (f.dirty 0).testBit 30 = false := by
            cases hd : (f.dirty 0).testBit 30 with
            | false => rfl
            | true =>
              exact absurd ((wf.keys 0 30 (by omega)).mpr ⟨by omega, by
                unfold Frame.saved; rw [Nat.testBit_and, hd, wf.lrPres]; rfl⟩) hk
          have hw : f.bodyMayWrite 0 30 = false := by unfold Frame.bodyMayWrite; rw [hnd]; rfl
          have h30sa : (30 : Nat) ≠ f.saRegId := by
            intro h
            have := wf.saDirty (by rw [← h]; omega)
            rw [← h, hnd] at this; exact absurd this (by simp)
          rw [h2, t2gp 30 (by omega) h30sa, b_gp 30 hw, s1gp 30 (by omega) h30sa, tSgp 30 (Or.inl (by omega)) (by omega)]
      · simp only [s3]; exact t3sp
      · intro g hg r hr
        by_cases hcs' : f.calleeSaved g r = false
        · exact Or.inl hcs'
        have hcs : f.calleeSaved g r = true := by
          cases h : f.calleeSaved g r with
          | true => rfl
          | false => exact absurd h hcs'
        right
        unfold Frame.calleeSaved at hcs
        simp only [Bool.and_eq_true, Bool.not_eq_true', harch, Arch.spId] at hcs
        obtain ⟨hpres, hnsp⟩ := hcs
        have hne : (g, r) ≠ (0, 31) := by
          intro h
          obtain ⟨h1, h2⟩ := Prod.mk.inj h
          subst h1; subst h2
          simp at hnsp
        have hs3 : s3.reg g r = t3.reg g r := rfl
        rw [hs3]
        exact hfinal g r hr hne hpres

end AsmjitVerif.Frame
