/-
Lemmas for C13 (name lookup): `compare_string_views` is the strict lexicographic order, the binary search of
`find_instruction` / `find_alias` finds every member of a strictly increasing range and never returns a non-member.
-/
import AsmjitVerif.Spec.InstName
namespace AsmjitVerif.InstName

/-! ### compare_string_views -/

theorem cmp_refl (a : List Nat) : cmpViews a a = 0 := by
  induction a with
  | nil => simp [cmpViews]
  | cons x xs ih => simp [cmpViews, ih]

theorem cmp_swap (a b : List Nat) : cmpViews b a = - cmpViews a b := by
  induction a generalizing b with
  | nil => cases b <;> simp [cmpViews]
  | cons x xs ih =>
    cases b with
    | nil => simp [cmpViews]
    | cons y ys =>
      simp only [cmpViews]
      by_cases h : x = y
      · subst h; simp [ih]
      · have h' : ¬ y = x := fun e => h e.symm
        simp [h, h']; omega

theorem cmp_eq_zero {a b : List Nat} (h : cmpViews a b = 0) : a = b := by
  induction a generalizing b with
  | nil => cases b with
    | nil => rfl
    | cons y ys => simp [cmpViews] at h; omega
  | cons x xs ih =>
    cases b with
    | nil => simp [cmpViews] at h; omega
    | cons y ys =>
      simp only [cmpViews] at h
      by_cases e : x = y
      · subst e; simp at h; rw [ih h]
      · simp [e] at h; omega

/-- `compare_string_views(a, b) < 0` is the textbook strict lexicographic order -/
theorem cmp_neg_iff_lexLt (a b : List Nat) : cmpViews a b < 0 ↔ lexLt a b = true := by
  induction a generalizing b with
  | nil => cases b <;> simp [cmpViews, lexLt] <;> omega
  | cons x xs ih =>
    cases b with
    | nil => simp [cmpViews, lexLt] <;> omega
    | cons y ys =>
      simp only [cmpViews, lexLt]
      by_cases e : x = y
      · subst e; simp [ih]
      · simp [e]; omega

theorem lexLt_trans {a b c : List Nat} (h1 : lexLt a b = true) (h2 : lexLt b c = true) : lexLt a c = true := by
  induction a generalizing b c with
  | nil => cases c with
    | nil => cases b <;> simp [lexLt] at h1 h2
    | cons z zs => simp [lexLt]
  | cons x xs ih =>
    cases b with
    | nil => simp [lexLt] at h1
    | cons y ys =>
      cases c with
      | nil => simp [lexLt] at h2
      | cons z zs =>
        simp only [lexLt, Bool.or_eq_true, decide_eq_true_eq, Bool.and_eq_true, beq_iff_eq] at h1 h2 ⊢
        rcases h1 with h1 | ⟨e1, h1⟩ <;> rcases h2 with h2 | ⟨e2, h2⟩
        · left; omega
        · left; omega
        · left; omega
        · right; exact ⟨by omega, ih h1 h2⟩

theorem lexLt_irrefl (a : List Nat) : lexLt a a = false := by
  induction a with
  | nil => rfl
  | cons x xs ih => simp [lexLt, ih]

/-! ### the binary search loop -/

/-- a result is a member of the searched range and has exactly the searched name -/
theorem bsearch_sound (key : Nat → List Nat) (s : List Nat) :
    ∀ fuel base lim r, bsearch key s fuel base lim = some r → base ≤ r ∧ r < base + lim ∧ key r = s := by
  intro fuel
  induction fuel with
  | zero => intro base lim r h; simp [bsearch] at h
  | succ f ih =>
    intro base lim r h
    unfold bsearch at h
    by_cases hl : lim = 0
    · simp [hl] at h
    · simp only [hl, if_false] at h
      by_cases h1 : cmpViews s (key (base + lim / 2)) < 0
      · simp only [h1, if_true] at h
        obtain ⟨a1, a2, a3⟩ := ih _ _ _ h
        exact ⟨by omega, by omega, a3⟩
      · simp only [h1, if_false] at h
        by_cases h2 : cmpViews s (key (base + lim / 2)) > 0
        · simp only [h2, if_true] at h
          obtain ⟨a1, a2, a3⟩ := ih _ _ _ h
          exact ⟨by omega, by omega, a3⟩
        · simp only [h2, if_false] at h
          have hz : cmpViews s (key (base + lim / 2)) = 0 := by omega
          have e := cmp_eq_zero hz
          simp at h
          subst h
          exact ⟨by omega, by omega, e.symm⟩

/-- over a strictly increasing range the loop finds every member -/
theorem bsearch_finds (key : Nat → List Nat) (s : List Nat) :
    ∀ fuel base lim t, lim ≤ fuel → base ≤ t → t < base + lim → key t = s →
      (∀ i j, base ≤ i → i < j → j < base + lim → cmpViews (key i) (key j) < 0) →
      bsearch key s fuel base lim = some t := by
  intro fuel
  induction fuel with
  | zero => intro base lim t hf hb ht; omega
  | succ f ih =>
    intro base lim t hf hb ht hk hs
    unfold bsearch
    have hl : lim ≠ 0 := by omega
    simp only [hl, if_false]
    rcases Nat.lt_trichotomy t (base + lim / 2) with hlt | heq | hgt
    · have : cmpViews s (key (base + lim / 2)) < 0 := by rw [← hk]; exact hs _ _ hb hlt (by omega)
      simp only [this, if_true]
      exact ih _ _ _ (by omega) hb hlt hk (fun i j hi hij hj => hs i j hi hij (by omega))
    · have : cmpViews s (key (base + lim / 2)) = 0 := by rw [← hk, heq]; exact cmp_refl _
      simp [this, heq]
    · have h0 : cmpViews (key (base + lim / 2)) (key t) < 0 := hs _ _ (by omega) hgt ht
      have h1 : cmpViews s (key (base + lim / 2)) > 0 := by rw [← hk, cmp_swap]; omega
      have h2 : ¬ cmpViews s (key (base + lim / 2)) < 0 := by omega
      simp only [h2, if_false, h1, if_true]
      exact ih _ _ _ (by omega) (by omega) (by omega) hk (fun i j hi hij hj => hs i j (by omega) hij (by omega))

/-! ### sorted ranges of the printed names -/

theorem sortedFrom_spec (p : List Nat) (l : List (List Nat)) (h : sortedFrom p l = true) :
    (∀ x ∈ l, lexLt p x = true) ∧ l.Pairwise (fun a b => lexLt a b = true) := by
  induction l generalizing p with
  | nil => simp
  | cons x r ih =>
    simp only [sortedFrom, Bool.and_eq_true] at h
    have ⟨h1, h2⟩ := ih x h.2
    refine ⟨?_, ?_⟩
    · intro y hy
      rcases List.mem_cons.mp hy with e | hm
      · subst e; exact h.1
      · exact lexLt_trans h.1 (h1 y hm)
    · exact List.pairwise_cons.mpr ⟨h1, h2⟩

theorem sortedList_pairwise (l : List (List Nat)) (h : sortedList l = true) : l.Pairwise (fun a b => lexLt a b = true) := by
  cases l with
  | nil => simp
  | cons x r => exact List.pairwise_cons.mpr (sortedFrom_spec x r h)

theorem rangeSorted_spec (names : List (List Nat)) (lo hi : Nat) (h : rangeSorted names lo hi = true) :
    ∀ i j, lo ≤ i → i < j → j < hi → lexLt (names.getD i []) (names.getD j []) = true := by
  simp only [rangeSorted, Bool.and_eq_true, decide_eq_true_eq] at h
  have hp := sortedList_pairwise _ h.2
  rw [List.pairwise_iff_getElem] at hp
  intro i j hli hij hj
  have hlen : ((names.drop lo).take (hi - lo)).length = hi - lo := by simp; omega
  have := hp (i - lo) (j - lo) (by omega) (by omega) (by omega)
  simp only [List.getElem_take, List.getElem_drop] at this
  have ei : lo + (i - lo) = i := by omega
  have ej : lo + (j - lo) = j := by omega
  simp only [ei, ej] at this
  rw [List.getD_eq_getElem?_getD, List.getD_eq_getElem?_getD, List.getElem?_eq_getElem (by omega), List.getElem?_eq_getElem (by omega)]
  simpa using this

/-! ### find_instruction over checked tables -/

theorem decode_at (T : NameTables) (names : List (List Nat)) (h : decodeOk T names = true) (i : Nat) (hi : i < T.count) :
    decodeToBuffer (T.nametab.getD i 0) false T.strtab = names.getD i [] := by
  simp only [decodeOk, Bool.and_eq_true, beq_iff_eq, List.all_eq_true] at h
  obtain ⟨⟨hn, ht⟩, hall⟩ := h
  have hz : i < (List.zip T.nametab names).length := by simp [List.length_zip]; omega
  have := hall ((List.zip T.nametab names)[i]) (List.getElem_mem hz)
  simp only [List.getElem_zip] at this
  have e := this
  rw [List.getD_eq_getElem?_getD, List.getD_eq_getElem?_getD, List.getElem?_eq_getElem (by omega), List.getElem?_eq_getElem (by omega)]
  simpa using e

theorem names_length (T : NameTables) (names : List (List Nat)) (h : decodeOk T names = true) : names.length = T.count := by
  simp only [decodeOk, Bool.and_eq_true, beq_iff_eq] at h; exact h.1.1

theorem getD_map_names (names : List (List Nat)) (l : List Nat) (i : Nat) (h : i < l.length) :
    (l.map fun id => names.getD id []).getD i [] = names.getD l[i] [] := by
  rw [List.getD_eq_getElem?_getD, List.getElem?_map, List.getElem?_eq_getElem h]; rfl

/-- a search position denotes an instruction id whose printed name is the position's name -/
theorem posNames_getD (T : NameTables) (names : List (List Nat)) (hd : decodeOk T names = true) (hs : sortedIdsOk T = true)
    (i : Nat) (hi : i < (posNames T names).length) :
    idAt T i < T.count ∧ (posNames T names).getD i [] = names.getD (idAt T i) [] := by
  have hlen := names_length T names hd
  unfold posNames at hi ⊢
  unfold idAt
  unfold sortedIdsOk at hs
  by_cases hl : T.sortedIds = []
  · rw [if_pos hl] at hi ⊢
    rw [if_pos hl]
    exact ⟨by omega, rfl⟩
  · rw [if_neg hl] at hi ⊢
    rw [if_neg hl]
    simp only [List.length_map] at hi
    have hmem : T.sortedIds[i] ∈ T.sortedIds := List.getElem_mem hi
    have hlt := (List.all_eq_true.mp hs) _ hmem
    have e1 : T.sortedIds.getD i 0 = T.sortedIds[i] := by
      rw [List.getD_eq_getElem?_getD, List.getElem?_eq_getElem hi]; rfl
    rw [e1, getD_map_names names _ i hi]
    exact ⟨by simpa using hlt, rfl⟩

theorem keyOf_eq (T : NameTables) (names : List (List Nat)) (h : decodeOk T names = true) (hs : sortedIdsOk T = true)
    (i : Nat) (hi : i < (posNames T names).length) : keyOf T i = (posNames T names).getD i [] := by
  have ⟨h1, h2⟩ := posNames_getD T names h hs i hi
  unfold keyOf
  rw [h2, decode_at T names h _ h1]

theorem findInstruction_cons (T : NameTables) (c : Nat) (cs : List Nat) :
    findInstruction T (c :: cs) =
      if c < 97 ∨ c > 122 then 0 else
      if (T.spans.getD (c - 97) (0, 0)).1 = 0 then 0 else
      match bsearch (keyOf T) (c :: cs) ((T.spans.getD (c - 97) (0, 0)).2 - (T.spans.getD (c - 97) (0, 0)).1)
        (T.spans.getD (c - 97) (0, 0)).1 ((T.spans.getD (c - 97) (0, 0)).2 - (T.spans.getD (c - 97) (0, 0)).1) with
      | some i => idAt T i
      | none => 0 := rfl

/-- whatever `find_instruction` returns prints exactly the searched name -/
theorem findInstruction_sound (T : NameTables) (names : List (List Nat)) (hd : decodeOk T names = true) (hs : sortedIdsOk T = true)
    (hspans : ∀ p, (T.spans.getD p (0, 0)).2 ≤ (posNames T names).length)
    (s : List Nat) (hr : findInstruction T s ≠ 0) :
    findInstruction T s < T.count ∧ names.getD (findInstruction T s) [] = s := by
  cases s with
  | nil => exact absurd rfl hr
  | cons c cs =>
    rw [findInstruction_cons] at hr ⊢
    have hsp := hspans (c - 97)
    generalize T.spans.getD (c - 97) (0, 0) = sp at hr hsp ⊢
    obtain ⟨st, en⟩ := sp
    simp only at hr hsp ⊢
    split at hr
    · exact absurd rfl hr
    · split at hr
      · exact absurd rfl hr
      · rename_i hc h0
        rw [if_neg hc, if_neg h0]
        cases hb : bsearch (keyOf T) (c :: cs) (en - st) st (en - st) with
        | none => rw [hb] at hr; exact absurd rfl hr
        | some i =>
          have ⟨b1, b2, b3⟩ := bsearch_sound _ _ _ _ _ _ hb
          have hi : i < (posNames T names).length := by omega
          have ⟨p1, p2⟩ := posNames_getD T names hd hs i hi
          show idAt T i < T.count ∧ names.getD (idAt T i) [] = c :: cs
          exact ⟨p1, by rw [← p2, ← keyOf_eq T names hd hs i hi]; exact b3⟩

/-- `find_instruction` finds the id at search position `pos` by its printed name when the span of its first letter is
    strictly increasing (`pn` = `posNames T names`) -/
theorem findInstruction_finds (T : NameTables) (names : List (List Nat)) (hd : decodeOk T names = true) (hs : sortedIdsOk T = true)
    (pos : Nat) (hin : idInSpan T (posNames T names) pos = true) (hsp : spanOk T (posNames T names) (letterOf (posNames T names) pos) = true) :
    findInstruction T ((posNames T names).getD pos []) = idAt T pos := by
  unfold idInSpan at hin
  unfold letterOf at hsp
  cases hn : (posNames T names).getD pos [] with
  | nil => rw [hn] at hin; exact absurd hin (by simp)
  | cons c cs =>
    rw [hn] at hin hsp
    simp only [Bool.and_eq_true, decide_eq_true_eq] at hin hsp
    obtain ⟨⟨⟨⟨⟨c1, c2⟩, _⟩, c3⟩, c4⟩, _⟩ := hin
    have hcc : 97 ≤ c ∧ c ≤ 122 := ⟨c1, c2⟩
    simp only [hcc, and_self, if_true] at hsp
    simp only [spanOk, Bool.and_eq_true, bne_iff_ne, ne_eq, decide_eq_true_eq] at hsp
    obtain ⟨⟨s1, s2⟩, s3⟩ := hsp
    have hrs := rangeSorted_spec _ _ _ s3
    have hcount : (T.spans.getD (c - 97) (0, 0)).2 ≤ (posNames T names).length := by
      simp only [rangeSorted, Bool.and_eq_true, decide_eq_true_eq] at s3
      exact s3.1
    rw [findInstruction_cons]
    generalize T.spans.getD (c - 97) (0, 0) = sp at *
    obtain ⟨st, en⟩ := sp
    simp only at *
    have hc : ¬ (c < 97 ∨ c > 122) := by omega
    rw [if_neg hc, if_neg s1]
    have hf := bsearch_finds (keyOf T) (c :: cs) (en - st) st (en - st) pos (Nat.le_refl _) c3 (by omega)
      (by rw [keyOf_eq T names hd hs pos (by omega)]; exact hn)
      (by
        intro i j hi hij hj
        rw [keyOf_eq T names hd hs i (by omega), keyOf_eq T names hd hs j (by omega), cmp_neg_iff_lexLt]
        exact hrs i j hi hij (by omega))
    rw [hf]

end AsmjitVerif.InstName
