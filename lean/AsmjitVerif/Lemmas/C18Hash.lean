/-
Reciprocal-multiplication lemma behind `ArenaHashBase::_calc_mod` and its instantiation on every row of the
prime table regenerated from arenahash.cpp (`Gen/HashPrimes.lean`).

`recip_div`: if `m * d = 2^s + e` with (H2) `e * N ≤ 2 * 2^s` and (H3) `e * ((N / d) * d - 1) < 2^s`
then `x * m / 2^s = x / d` for every `x < N`.  (The textbook condition `e * N ≤ 2^s` is NOT met by two rows of the
table, 42543269 and 196630033; they are still exact because the largest `x < 2^32` with `x % d = d - 1` is small
enough — that is what H3 says.)
-/
import AsmjitVerif.Model.Hash
namespace AsmjitVerif.Hash

theorem recip_core (d e s N x : Nat) (hd : 0 < d) (hx : x < N)
    (h2 : e * N ≤ 2 * 2 ^ s) (h3 : e * ((N / d) * d - 1) < 2 ^ s) :
    e * x < 2 ^ s * (d - x % d) := by
  have hr : x % d < d := Nat.mod_lt _ hd
  have hpos : 0 < 2 ^ s := Nat.pow_pos (by decide)
  by_cases hlast : x % d = d - 1
  · -- x is of the form (q+1)*d - 1, hence at most (N/d)*d - 1
    have hx1 : x + 1 = d * (x / d + 1) := by
      have := Nat.div_add_mod x d
      rw [Nat.mul_add, Nat.mul_one]; omega
    have hle : x / d + 1 ≤ N / d := by
      rw [Nat.le_div_iff_mul_le hd]
      rw [Nat.mul_comm]; omega
    have hle2 : d * (x / d + 1) ≤ d * (N / d) := Nat.mul_le_mul_left d hle
    have hxle : x ≤ (N / d) * d - 1 := by rw [Nat.mul_comm (N / d) d]; omega
    have h4 : e * x ≤ e * ((N / d) * d - 1) := Nat.mul_le_mul_left e hxle
    have h5 : d - x % d = 1 := by omega
    rw [h5, Nat.mul_one]; omega
  · have h5 : 2 ≤ d - x % d := by omega
    have h6 : 2 ^ s * 2 ≤ 2 ^ s * (d - x % d) := Nat.mul_le_mul_left _ h5
    by_cases he : e = 0
    · subst he; simp; omega
    · have h7 : e * x < e * N := Nat.mul_lt_mul_of_pos_left hx (Nat.pos_of_ne_zero he)
      omega

theorem recip_div (d m e s N x : Nat) (hd : 0 < d) (hx : x < N) (hm : m * d = 2 ^ s + e)
    (h2 : e * N ≤ 2 * 2 ^ s) (h3 : e * ((N / d) * d - 1) < 2 ^ s) :
    x * m / 2 ^ s = x / d := by
  have hcore := recip_core d e s N x hd hx h2 h3
  have hdm := Nat.div_add_mod x d
  have hr : x % d < d := Nat.mod_lt _ hd
  -- d * (x * m) = x * 2^s + e * x
  have hmul : d * (x * m) = x * 2 ^ s + e * x := by
    calc d * (x * m) = x * (m * d) := by rw [Nat.mul_comm d, Nat.mul_assoc]
      _ = x * (2 ^ s + e) := by rw [hm]
      _ = x * 2 ^ s + e * x := by rw [Nat.mul_add, Nat.mul_comm x e]
  apply Nat.div_eq_of_lt_le
  · -- (x / d) * 2^s ≤ x * m
    apply Nat.le_of_mul_le_mul_left _ hd
    have h1 : d * (x / d * 2 ^ s) = (d * (x / d)) * 2 ^ s := by rw [Nat.mul_assoc]
    have h2' : d * (x / d) * 2 ^ s ≤ x * 2 ^ s := Nat.mul_le_mul_right _ (by omega)
    omega
  · -- x * m < (x / d + 1) * 2^s
    apply Nat.lt_of_mul_lt_mul_left (a := d)
    have h1 : d * ((x / d + 1) * 2 ^ s) = 2 ^ s * (d * (x / d) + d) := by
      rw [Nat.mul_comm (x / d + 1), ← Nat.mul_assoc, Nat.mul_comm d (2 ^ s), Nat.mul_assoc, Nat.mul_add, Nat.mul_one]
    have h3' : 2 ^ s * (d * (x / d) + d) = 2 ^ s * x + 2 ^ s * (d - x % d) := by
      rw [← Nat.mul_add]; congr 1; omega
    rw [h1, h3', hmul, Nat.mul_comm x (2 ^ s)]
    omega

/-- the decidable side condition checked on every generated row -/
def rowOk (row : Nat × Nat × Nat × Nat) : Bool :=
  let (d, m, s, g) := row
  let N := 2 ^ 32
  decide (0 < d ∧ d < N ∧ m < N ∧ s < 64 ∧ 2 ^ s ≤ m * d ∧
          (m * d - 2 ^ s) * N ≤ 2 * 2 ^ s ∧ (m * d - 2 ^ s) * ((N / d) * d - 1) < 2 ^ s ∧
          g = d * 9 / 10 ∧ g < d)

/-- `_calc_mod` is the remainder, for any row that passes `rowOk` and any 32-bit hash -/
theorem calcModRaw_eq_mod (d m s g h : Nat) (hrow : rowOk (d, m, s, g) = true) (hh : h < 2 ^ 32) :
    calcModRaw d m s h = h % d := by
  simp only [rowOk, decide_eq_true_eq] at hrow
  obtain ⟨hd, hdN, hmN, hs, hge, h2, h3, _, _⟩ := hrow
  have hq : h * m / 2 ^ s = h / d :=
    recip_div d m (m * d - 2 ^ s) s (2 ^ 32) h hd hh (by omega) h2 h3
  have hprod : h * m < 2 ^ 64 := by
    have : h * m < 2 ^ 32 * 2 ^ 32 := Nat.mul_lt_mul'' hh hmN
    simpa using this
  have hdm := Nat.div_add_mod h d
  have hqle : h / d ≤ h := Nat.div_le_self _ _
  have hqd : h / d * d ≤ h := by rw [Nat.mul_comm]; omega
  unfold calcModRaw
  simp only [Arena.u64, Arena.u32]
  rw [Nat.mod_eq_of_lt hprod, Nat.shiftRight_eq_div_pow, hq, Nat.mod_eq_of_lt (by omega : h / d < 2 ^ 32),
      Nat.mod_eq_of_lt (by omega : h / d * d < 2 ^ 32)]
  have hmod : h % d < 2 ^ 32 := by have := Nat.mod_lt h hd; omega
  have : h + 2 ^ 32 - h / d * d = 2 ^ 32 + h % d := by rw [Nat.mul_comm] at hqd ⊢; omega
  rw [this, Nat.add_mod_left, Nat.mod_eq_of_lt hmod]

end AsmjitVerif.Hash
