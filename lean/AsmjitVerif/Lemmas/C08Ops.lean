/- C08 helper lemmas: operand capture/replay and serialize_to against an arbitrary destination. -/
import AsmjitVerif.Model.Builder
import AsmjitVerif.Spec.Builder

namespace AsmjitVerif.Builder

/-- what survives capture: slot `i` keeps its operand iff `i < op_count` (independent description) -/
def normalizeOps (ops : List Operand) : List Operand :=
  (List.range 6).map fun i => if i < opCountFromArgs ops then getOp ops i else noneOp

/-- an operand list `_emit` does not truncate: nothing behind a none 4th/5th operand -/
def CanonicalOps (_a _b _c d e f : Operand) : Prop :=
  (d.isNone → e.isNone ∧ f.isNone) ∧ (e.isNone → f.isNone)

theorem isNone_iff (o : Operand) : o.isNone = true ↔ o = noneOp := by
  simp [Operand.isNone, noneOp]

@[simp] theorem isNone_noneOp : Operand.isNone noneOp = true := by decide

theorem replay_store_eq (a b c d e f : Operand) :
    replayOps (opCountFromArgs [a, b, c, d, e, f]) (storeOps [a, b, c, d, e, f]) = normalizeOps [a, b, c, d, e, f] := by
  simp only [replayOps, storeOps, normalizeOps, opCountFromArgs, getOp, capacityOf]
  cases hd : d.isNone <;> cases he : e.isNone <;> cases hf : f.isNone <;>
  cases ha : a.isNone <;> cases hb : b.isNone <;> cases hc : c.isNone <;>
  simp [hd, he, hf, ha, hb, hc, List.range, List.range.loop]

theorem normalize_canonical (a b c d e f : Operand) (h : CanonicalOps a b c d e f) :
    normalizeOps [a, b, c, d, e, f] = [a, b, c, d, e, f] := by
  obtain ⟨h1, h2⟩ := h
  have ea := isNone_iff a
  have eb := isNone_iff b
  have ec := isNone_iff c
  have ed := isNone_iff d
  have ee := isNone_iff e
  have ef := isNone_iff f
  simp only [normalizeOps, opCountFromArgs, getOp]
  cases hd : d.isNone <;> cases he : e.isNone <;> cases hf : f.isNone <;>
  cases ha : a.isNone <;> cases hb : b.isNone <;> cases hc : c.isNone <;>
  simp_all [List.range, List.range.loop]

/-- issuing calls one after the other, ignoring errors -/
def issueAll {σ : Type} (dst : σ → Call → σ × Option String) (s : σ) (cs : List Call) : σ :=
  cs.foldl (fun st c => (dst st c).1) s

theorem serializeTo_ok {σ : Type} (dst : σ → Call → σ × Option String) :
    ∀ (cs : List Call) (s s' : σ), serializeTo dst s cs = (s', none) →
      s' = issueAll dst s cs ∧ ∀ pre c post, cs = pre ++ c :: post → (dst (issueAll dst s pre) c).2 = none := by
  intro cs
  induction cs with
  | nil =>
    intro s s' h
    simp [serializeTo] at h
    refine ⟨by simp [issueAll, h], ?_⟩
    intro pre c post hc
    simp at hc
  | cons c cs ih =>
    intro s s' h
    simp only [serializeTo] at h
    split at h
    · simp at h
    · rename_i st' heq
      obtain ⟨h1, h2⟩ := ih st' s' h
      have hfst : (dst s c).1 = st' := by rw [heq]
      have hsnd : (dst s c).2 = none := by rw [heq]
      refine ⟨by simp [issueAll, hfst] at h1 ⊢; exact h1, ?_⟩
      intro pre c' post hc
      cases pre with
      | nil =>
        simp at hc
        obtain ⟨rfl, _⟩ := hc
        simpa [issueAll] using hsnd
      | cons p pre' =>
        simp at hc
        obtain ⟨rfl, rfl⟩ := hc
        have := h2 pre' c' post rfl
        simpa [issueAll, hfst] using this

theorem serializeTo_err {σ : Type} (dst : σ → Call → σ × Option String) :
    ∀ (cs : List Call) (s s' : σ) (e : String), serializeTo dst s cs = (s', some e) →
      ∃ pre c post, cs = pre ++ c :: post ∧
        (∀ p q r, pre = p ++ q :: r → (dst (issueAll dst s p) q).2 = none) ∧
        dst (issueAll dst s pre) c = (s', some e) := by
  intro cs
  induction cs with
  | nil => intro s s' e h; simp [serializeTo] at h
  | cons c cs ih =>
    intro s s' e h
    simp only [serializeTo] at h
    split at h
    · rename_i st' e' heq
      simp at h
      obtain ⟨rfl, rfl⟩ := h
      refine ⟨[], c, cs, by simp, ?_, by simpa [issueAll] using heq⟩
      intro p q r hp
      simp at hp
    · rename_i st' heq
      obtain ⟨pre, c', post, hcs, hpre, hc'⟩ := ih st' s' e h
      have hfst : (dst s c).1 = st' := by rw [heq]
      have hsnd : (dst s c).2 = none := by rw [heq]
      refine ⟨c :: pre, c', post, by simp [hcs], ?_, by simpa [issueAll, hfst] using hc'⟩
      intro p q r hp
      cases p with
      | nil =>
        simp at hp
        obtain ⟨rfl, _⟩ := hp
        simpa [issueAll] using hsnd
      | cons p0 p' =>
        simp at hp
        obtain ⟨rfl, rfl⟩ := hp
        have := hpre p' q r rfl
        simpa [issueAll, hfst] using this

end AsmjitVerif.Builder
