/- C16: the second invariant - every emitter on the attachment list carries exactly what `on_attach` derived from the
   holder's environment, and the list has no duplicates - needed to state "reinit = fresh holder with the same emitters
   attached" for every reachable world. -/
import AsmjitVerif.Lemmas.ReuseInv
namespace AsmjitVerif.Reuse

def alignOf (a : Option Arch) : Nat := if a == some .a64 then 4 else 1

/-- what `on_attach` fixed on an emitter, relative to the holder's architecture (a predicate on `Emitter.tag`) -/
def TagOk (arch : Option Arch) (t : (Bool × Kind × Bool) × (Option Arch × Nat × Bool)) : Prop :=
  t.1.1 = true ∧ t.2.1 = arch ∧ t.2.2.1 = alignOf arch ∧ t.2.2.2 = (t.1.2.1 == Kind.asm && arch == some Arch.x86) ∧
    archOk t.1.2.2 arch = true

structure InvA (w : World) : Prop where
  att : ∀ i, i ∈ w.h.attached → ∃ e, w.es[i]? = some e ∧ TagOk w.h.arch e.tag
  nd : w.h.attached.Nodup

theorem tag_obs (e : Emitter) : e.obs.tag = e.tag := by
  cases e with | mk k _ _ _ _ _ _ _ _ _ _ _ _ _ _ _ _ _ _ _ _ _ _ => cases k <;> rfl

theorem invA_of_sim (a b : World) (h : Sim a b) (ha : InvA a) : InvA b := by
  obtain ⟨hh, _⟩ := sim_parts' h
  have hatt : a.h.attached = b.h.attached := by have := congrArg Holder.attached hh; exact this
  have harch : a.h.arch = b.h.arch := by have := congrArg Holder.arch hh; exact this
  refine ⟨?_, hatt ▸ ha.nd⟩
  intro i hi
  obtain ⟨ea, h1, h2⟩ := ha.att i (hatt ▸ hi)
  have := sim_getElem?' h i
  rw [h1] at this
  cases hb : b.es[i]? with
  | none => simp [hb] at this
  | some eb =>
    simp [hb] at this
    refine ⟨eb, rfl, ?_⟩
    rw [← harch, ← tag_obs eb, ← this, tag_obs]; exact h2

theorem invA_frame (w w' : World) (i : Nat) (e : Emitter) (hA : InvA w) (hi : w.es[i]? = some e) (hf : FrameAt w w' i e) : InvA w' := by
  obtain ⟨hcfg, e', hes, htag⟩ := hf
  have hatt : w'.h.attached = w.h.attached := congrArg Prod.snd hcfg
  have harch : w'.h.arch = w.h.arch := congrArg Prod.fst hcfg
  refine ⟨?_, hatt ▸ hA.nd⟩
  intro j hj
  rw [hatt] at hj
  obtain ⟨e0, h1, h2⟩ := hA.att j hj
  rw [hes, updAt_getElem?, harch]
  by_cases hji : j = i
  · subst hji
    rw [hi] at h1; cases h1
    exact ⟨e', by simp [hi], htag ▸ h2⟩
  · exact ⟨e0, by simp [hji, h1], h2⟩

theorem getElem?_of_map_eq' {β : Type} (g : Emitter → β) (l1 l2 : List Emitter) (h : l1.map g = l2.map g) (j : Nat) (b : Emitter)
    (hb : l2[j]? = some b) : ∃ a, l1[j]? = some a ∧ g a = g b := by
  have := congrArg (fun l => l[j]?) h
  simp only [List.getElem?_map, hb, Option.map_some] at this
  cases ha : l1[j]? with
  | none => simp [ha] at this
  | some a => simp [ha] at this; exact ⟨a, rfl, this⟩

theorem onReinit_tag (e : Emitter) : e.onReinit.tag = e.tag := by
  cases e with | mk k _ _ _ _ _ _ _ _ _ _ _ _ _ _ _ _ _ _ _ _ _ _ => cases k <;> rfl

theorem clean_invalidRex (e : Emitter) (h : Clean e) : e.invalidRex = false := by
  have := congrArg Emitter.invalidRex h
  cases e with | mk k _ _ _ _ _ _ _ _ _ _ _ _ _ _ _ _ _ _ _ _ _ _ => cases k <;> simpa [Emitter.obs] using this

/-- (a Builder/Compiler never touches the REX policy bit; a clean one has it clear) -/
theorem onAttach_tagOk (h : Holder) (e : Emitter) (hok : archOk e.fam64 h.arch = true) (hr : e.invalidRex = false) :
    TagOk h.arch (e.onAttach h).tag := by
  cases e with | mk k _ _ _ _ _ _ _ _ _ _ _ _ _ _ _ _ _ _ _ _ _ _ =>
  cases k <;> simp_all [TagOk, Emitter.tag, Emitter.onAttach, Emitter.settingsUpdated, Emitter.updateForced, alignOf]

theorem invA_fresh (fam : Bool) : InvA (freshOf fam) := by
  refine ⟨fun i hi => ?_, ?_⟩ <;> cases fam <;> simp_all [freshOf, World.fresh, World.freshA64]

theorem invA_step (w : World) (op : Op) (hw : Inv w) (hA : InvA w) : InvA (w.step op).1 := by
  have symm : ∀ w' : World, Sim w' w → InvA w' := fun w' h => invA_of_sim w w' h.symm hA
  have setE : ∀ (i : Nat) (e e' : Emitter), w.es[i]? = some e → e'.tag = e.tag → InvA (w.setE i e') :=
    fun i e e' hi ht => invA_frame w _ i e hA hi (frame_setE w w.h i e e' rfl ht)
  have grp : ∀ (i : Nat) (o : Op) (s : Emitter → String),
      InvA (match w.es[i]? with
        | none => (w, "bad-emitter")
        | some e => if e.code = true then w.genAttached i e o else (w, s e) : World × String).1 := by
    intro i o s
    cases hi : w.es[i]? with
    | none => exact hA
    | some e =>
      simp only []
      by_cases hc : e.code = true
      · rw [if_pos hc]; exact invA_frame w _ i e hA hi (genAttached_frame w i e o hi)
      · rw [if_neg hc]; exact hA
  cases op
  case world f st => exact invA_of_sim (freshOf f) _ (by cases f <;> rfl) (invA_fresh f)
  case init a =>
    simp only [World.step, World.init]
    split
    · exact hA
    · rename_i hn
      have hn' : w.h.arch = none := by cases h : w.h.arch <;> simp_all
      have := un_attached w hw.un hn'
      exact ⟨fun i hi => by simp [this, Holder.alloc] at hi, by simp [this, Holder.alloc]⟩
  case initb a b =>
    simp only [World.step, World.init]
    split
    · exact hA
    · rename_i hn
      have hn' : w.h.arch = none := by cases h : w.h.arch <;> simp_all
      have := un_attached w hw.un hn'
      exact ⟨fun i hi => by simp [this, Holder.alloc] at hi, by simp [this, Holder.alloc]⟩
  case relocate b =>
    simp only [World.step]
    split
    · exact hA
    · exact ⟨hA.att, hA.nd⟩
  case reset hard =>
    simp only [World.step, World.reset]
    split
    · exact hA
    · exact ⟨fun i hi => by simp at hi, by simp⟩
  case reinit =>
    simp only [World.step, World.reinit]
    split
    · exact hA
    · have htag := applyAll_map_proj Emitter.tag Emitter.onReinit onReinit_tag w.h.attached w.es
      refine ⟨?_, hA.nd⟩
      intro i hi
      obtain ⟨e, h1, h2⟩ := hA.att i hi
      obtain ⟨e', h3, h4⟩ := getElem?_of_map_eq' Emitter.tag _ _ htag i e h1
      exact ⟨e', h3, by rw [h4]; exact h2⟩
  case attach i =>
    simp only [World.step, World.attach]
    cases hi : w.es[i]? with
    | none => exact hA
    | some e =>
      simp only []
      split
      · exact hA
      · split
        · exact hA
        · rename_i hok hc
          have hok' : archOk e.fam64 w.h.arch = true := by simpa using hok
          have hc' : e.code = false := by simpa using hc
          have hni : i ∉ w.h.attached := by
            intro hm
            obtain ⟨e0, h1, h2⟩ := hA.att i hm
            rw [hi] at h1; cases h1
            have := h2.1
            simp [Emitter.tag, hc'] at this
          refine ⟨?_, ?_⟩
          · intro j hj
            have hj' : j ∈ w.h.attached ++ [i] := hj
            show ∃ x, (updAt w.es i (Emitter.onAttach w.h))[j]? = some x ∧ TagOk w.h.arch x.tag
            rw [updAt_getElem?]
            by_cases hji : j = i
            · subst hji
              exact ⟨e.onAttach w.h, by simp [hi], onAttach_tagOk w.h e hok' (clean_invalidRex e (hw.dc j e hi hni))⟩
            · have : j ∈ w.h.attached := by simpa [hji] using hj'
              obtain ⟨e0, h1, h2⟩ := hA.att j this
              exact ⟨e0, by simp [hji, h1], h2⟩
          · show (w.h.attached ++ [i]).Nodup
            exact List.nodup_append.mpr ⟨hA.nd, by simp, by intro a ha b hb; simp at hb; subst hb; intro h; exact hni (h ▸ ha)⟩
  case detach i =>
    simp only [World.step, World.detach]
    cases hi : w.es[i]? with
    | none => exact hA
    | some e =>
      simp only []
      split
      · exact hA
      · refine ⟨?_, hA.nd.filter _⟩
        intro j hj
        have hj' : j ∈ w.h.attached.filter (· != i) := hj
        simp at hj'
        obtain ⟨e0, h1, h2⟩ := hA.att j hj'.1
        show ∃ x, (updAt w.es i Emitter.onDetach)[j]? = some x ∧ TagOk w.h.arch x.tag
        rw [updAt_getElem?]
        exact ⟨e0, by simp [hj'.2, h1], h2⟩
  case dump => exact hA
  case hlogger on => exact symm _ (logging_unobs w on 0).1
  case elogger i on => exact symm _ (logging_unobs w on i).2.1
  case diag i on => exact symm _ (logging_unobs w on i).2.2
  case opt i bits =>
    simp only [World.step]
    cases hi : w.es[i]? with
    | none => exact hA
    | some e => exact setE i e _ hi rfl
  case cmt i =>
    simp only [World.step]
    cases hi : w.es[i]? with
    | none => exact hA
    | some e => exact setE i e _ hi rfl
  case jann i =>
    simp only [World.step]
    cases hi : w.es[i]? with
    | none => exact hA
    | some e =>
      simp only []
      split
      · exact hA
      · exact setE i e _ hi rfl
  case vreg i =>
    simp only [World.step]
    cases hi : w.es[i]? with
    | none => exact hA
    | some e =>
      simp only []
      split
      · exact hA
      · split
        · exact hA
        · exact setE i e _ hi rfl
  case label i => exact grp i (.label i) (fun _ => "L-")
  case nlabel i n => exact grp i (.nlabel i n) (fun _ => "L-")
  case bind i id => exact grp i (.bind i id) (fun _ => "NotInitialized")
  case raw i bs => exact grp i (.raw i bs) (fun _ => "NotInitialized")
  case jmp i id => exact grp i (.jmp i id) (fun _ => "NotInitialized")
  case elabel i id sz => exact grp i (.elabel i id sz) (fun _ => "NotInitialized")
  case «section» i n => exact grp i (.section i n) (fun _ => "NotInitialized")
  case switch i s => exact grp i (.switch i s) (fun _ => "NotInitialized")
  case finalize i => exact grp i (.finalize i) (fun e => if e.kind = .asm then "ok" else "NotInitialized")

theorem invA_run (h : List Op) : ∀ w, Inv w → InvA w → WFHist w h → InvA (w.run h) := by
  induction h with
  | nil => intro w _ hA _; exact hA
  | cons op r ih =>
    intro w hw hA hwf
    exact ih _ (inv_step w op hw hwf.1) (invA_step w op hw hA) hwf.2

/-- with a duplicate-free list the walk applies the handler exactly once to every listed emitter -/
theorem applyAll_getElem?_mem_nodup (f : Emitter → Emitter) (att : List Nat) (hnd : att.Nodup) : ∀ (es : List Emitter) (j : Nat), j ∈ att →
    (applyAll f es att)[j]? = (es[j]?).map f := by
  induction att with
  | nil => intro es j hj; simp at hj
  | cons i r ih =>
    intro es j hj
    have hir : i ∉ r := (List.nodup_cons.mp hnd).1
    have hr : r.Nodup := (List.nodup_cons.mp hnd).2
    simp only [applyAll]
    by_cases hji : j = i
    · subst hji
      rw [applyAll_getElem?_not_mem _ _ _ _ hir, updAt_getElem?]; simp
    · have : j ∈ r := by simpa [hji] using hj
      rw [ih hr _ j this, updAt_getElem?]; simp [hji]

end AsmjitVerif.Reuse
