/-
C18 — ArenaTree insert, part 2: direction-parametric nodes (`nodeD`), zipper contexts (`Frame`, `plug`) and their
key / index / colour / representation lemmas.  Core-only.
-/
import AsmjitVerif.Lemmas.C18TreeIns
namespace AsmjitVerif.Tree.Ins
open AsmjitVerif.Tree AsmjitVerif.Tree.Spec

/-- `nodeD d i k c a b`: node whose child in direction `d` (`true` = right) is `a`, the other child is `b` -/
def nodeD (d : Bool) (i k : Nat) (c : Bool) (a b : T) : T := if d then .node i k c b a else .node i k c a b

theorem nodeD_not (d : Bool) (i k : Nat) (c : Bool) (a b : T) : nodeD (!d) i k c a b = nodeD d i k c b a := by
  cases d <;> rfl

theorem node_eq_nodeD (d : Bool) (i k : Nat) (c : Bool) (l r : T) :
    T.node i k c l r = nodeD d i k c (if d then r else l) (if d then l else r) := by
  cases d <;> rfl

theorem keys_nodeD (d : Bool) (i k : Nat) (c : Bool) (a b : T) :
    (nodeD d i k c a b).keys = if d then b.keys ++ k :: a.keys else a.keys ++ k :: b.keys := by
  cases d <;> rfl

theorem idxs_nodeD (d : Bool) (i k : Nat) (c : Bool) (a b : T) :
    (nodeD d i k c a b).idxs = if d then b.idxs ++ i :: a.idxs else a.idxs ++ i :: b.idxs := by
  cases d <;> rfl

theorem mem_idxs_nodeD {d : Bool} {i k : Nat} {c : Bool} {a b : T} {x : Nat} :
    x ∈ (nodeD d i k c a b).idxs ↔ x = i ∨ x ∈ a.idxs ∨ x ∈ b.idxs := by
  cases d <;> simp [nodeD, T.idxs] <;> (constructor <;> (intro h; rcases h with h | h | h <;> simp [h]))

theorem idxs_nodeD_perm (d : Bool) (i k : Nat) (c : Bool) (a b : T) :
    (nodeD d i k c a b).idxs.Perm (i :: (a.idxs ++ b.idxs)) := by
  cases d
  · simp only [nodeD, T.idxs, Bool.false_eq_true, if_false]
    exact List.perm_middle
  · simp only [nodeD, T.idxs, if_true]
    exact List.perm_middle.trans (List.Perm.cons _ List.perm_append_comm)

theorem isRed_nodeD (d : Bool) (i k : Nat) (c : Bool) (a b : T) : (nodeD d i k c a b).isRed = c := by
  cases d <;> cases c <;> rfl

theorem rootIdx_nodeD (d : Bool) (i k : Nat) (c : Bool) (a b : T) : (nodeD d i k c a b).rootIdx = i := by
  cases d <;> rfl

theorem nrr_nodeD (d : Bool) (i k : Nat) (c : Bool) (a b : T) :
    (nodeD d i k c a b).noRedRed ↔ (c = true → a.isRed = false ∧ b.isRed = false) ∧ a.noRedRed ∧ b.noRedRed := by
  cases d <;> simp only [nodeD, T.noRedRed, Bool.false_eq_true, if_false, if_true]
  constructor
  · rintro ⟨h1, h2, h3⟩; exact ⟨fun e => ⟨(h1 e).2, (h1 e).1⟩, h3, h2⟩
  · rintro ⟨h1, h2, h3⟩; exact ⟨fun e => ⟨(h1 e).2, (h1 e).1⟩, h3, h2⟩

theorem blackH_nodeD_red (d : Bool) (i k : Nat) (a b : T) (n : Nat) :
    (nodeD d i k true a b).blackH n ↔ a.blackH n ∧ b.blackH n := by
  cases d <;> simp only [nodeD, Bool.false_eq_true, if_false, if_true]
  · constructor
    · intro h; cases h with | red h1 h2 => exact ⟨h1, h2⟩
    · rintro ⟨h1, h2⟩; exact .red h1 h2
  · constructor
    · intro h; cases h with | red h1 h2 => exact ⟨h2, h1⟩
    · rintro ⟨h1, h2⟩; exact .red h2 h1

theorem blackH_nodeD_black (d : Bool) (i k : Nat) (a b : T) (n : Nat) :
    (nodeD d i k false a b).blackH n ↔ ∃ m, n = m + 1 ∧ a.blackH m ∧ b.blackH m := by
  cases d <;> simp only [nodeD, Bool.false_eq_true, if_false, if_true]
  · constructor
    · intro h; cases h with | black h1 h2 => exact ⟨_, rfl, h1, h2⟩
    · rintro ⟨m, rfl, h1, h2⟩; exact .black h1 h2
  · constructor
    · intro h; cases h with | black h1 h2 => exact ⟨_, rfl, h2, h1⟩
    · rintro ⟨m, rfl, h1, h2⟩; exact .black h2 h1

theorem blackH_unique {t : T} {a b : Nat} (ha : t.blackH a) (hb : t.blackH b) : a = b := by
  induction ha generalizing b with
  | nil => cases hb; rfl
  | red h1 _ ih1 _ => cases hb with | red g1 _ => exact ih1 g1
  | black h1 _ ih1 _ => cases hb with | black g1 _ => rw [ih1 g1]

theorem child_eq (h : Tree) (n : Nat) (d : Bool) : child h n d = if d then (nd h n).r else (nd h n).l := rfl

theorem Rep_nodeD {h : Tree} {n : Nat} {d : Bool} {i k : Nat} {c : Bool} {a b : T} :
    Rep h n (nodeD d i k c a b) ↔
      n = i ∧ 2 ≤ n ∧ n < h.nodes.size ∧ (nd h n).key = k ∧ (nd h n).red = c ∧
      Rep h (child h n d) a ∧ Rep h (child h n (!d)) b := by
  cases d <;> simp only [nodeD, child_eq, Bool.false_eq_true, if_false, if_true, Bool.not_false, Bool.not_true]
  · constructor
    · intro r; cases r with | node h2 hlt hk hc rl rr => exact ⟨rfl, h2, hlt, hk, hc, rl, rr⟩
    · rintro ⟨rfl, h2, hlt, hk, hc, rl, rr⟩; exact .node h2 hlt hk hc rl rr
  · constructor
    · intro r; cases r with | node h2 hlt hk hc rl rr => exact ⟨rfl, h2, hlt, hk, hc, rr, rl⟩
    · rintro ⟨rfl, h2, hlt, hk, hc, rr, rl⟩; exact .node h2 hlt hk hc rl rr

/-! ### contexts -/

/-- one step of the path from the root to the hole: node `idx` whose child in direction `dir` is the hole -/
structure Frame where
  idx : Nat
  key : Nat
  red : Bool
  dir : Bool
  sib : T

def Frame.fill (f : Frame) (s : T) : T := nodeD f.dir f.idx f.key f.red s f.sib

/-- innermost frame first -/
def plug : List Frame → T → T
  | [], s => s
  | f :: fs, s => plug fs (f.fill s)

def keysL : List Frame → List Nat
  | [] => []
  | f :: fs => keysL fs ++ (if f.dir then f.sib.keys ++ [f.key] else [])

def keysR : List Frame → List Nat
  | [] => []
  | f :: fs => (if f.dir then [] else f.key :: f.sib.keys) ++ keysR fs

def ctxIdxs : List Frame → List Nat
  | [] => []
  | f :: fs => f.idx :: (f.sib.idxs ++ ctxIdxs fs)

theorem keys_plug (ctx : List Frame) (Q : T) : (plug ctx Q).keys = keysL ctx ++ Q.keys ++ keysR ctx := by
  induction ctx generalizing Q with
  | nil => simp [plug, keysL, keysR]
  | cons f fs ih =>
    simp only [plug, ih, Frame.fill, keys_nodeD, keysL, keysR]
    cases f.dir <;> simp

theorem idxs_plug_perm (ctx : List Frame) (Q : T) : (plug ctx Q).idxs.Perm (Q.idxs ++ ctxIdxs ctx) := by
  induction ctx generalizing Q with
  | nil => simp [plug, ctxIdxs]
  | cons f fs ih =>
    simp only [plug, ctxIdxs]
    refine (ih _).trans ?_
    have h1 := idxs_nodeD_perm f.dir f.idx f.key f.red Q f.sib
    refine (List.Perm.append_right _ h1).trans ?_
    simp only [List.cons_append, List.append_assoc]
    exact List.perm_middle.symm

theorem mem_idxs_plug {ctx : List Frame} {Q : T} {x : Nat} :
    x ∈ (plug ctx Q).idxs ↔ x ∈ Q.idxs ∨ x ∈ ctxIdxs ctx := by
  rw [(idxs_plug_perm ctx Q).mem_iff, List.mem_append]

theorem idxs_plug_congr (ctx : List Frame) {Q Q' : T} (hp : Q'.idxs.Perm Q.idxs) :
    (plug ctx Q').idxs.Perm (plug ctx Q).idxs :=
  (idxs_plug_perm ctx Q').trans ((List.Perm.append_right _ hp).trans (idxs_plug_perm ctx Q).symm)

theorem keys_plug_congr (ctx : List Frame) {Q Q' : T} (hp : Q'.keys = Q.keys) :
    (plug ctx Q').keys = (plug ctx Q).keys := by
  rw [keys_plug, keys_plug, hp]

theorem nrr_plug_sub {ctx : List Frame} {Q : T} (h : (plug ctx Q).noRedRed) : Q.noRedRed := by
  induction ctx generalizing Q with
  | nil => exact h
  | cons f fs ih =>
    have := ih h
    simp only [Frame.fill, nrr_nodeD] at this
    exact this.2.1

theorem nrr_plug_replace {ctx : List Frame} {Q Q' : T} (h : (plug ctx Q).noRedRed) (hq : Q'.noRedRed)
    (hc : Q'.isRed = true → Q.isRed = true) : (plug ctx Q').noRedRed := by
  induction ctx generalizing Q Q' with
  | nil => exact hq
  | cons f fs ih =>
    have h1 := nrr_plug_sub (ctx := fs) h
    simp only [plug]
    refine ih h ?_ ?_
    · simp only [Frame.fill, nrr_nodeD] at h1 ⊢
      refine ⟨fun e => ⟨?_, (h1.1 e).2⟩, hq, h1.2.2⟩
      have := (h1.1 e).1
      cases hr : Q'.isRed
      · rfl
      · rw [hc hr] at this; exact this
    · simp only [Frame.fill, isRed_nodeD]; exact id

theorem bh_plug_sub {ctx : List Frame} {Q : T} {n : Nat} (h : (plug ctx Q).blackH n) : ∃ m, Q.blackH m := by
  induction ctx generalizing Q n with
  | nil => exact ⟨n, h⟩
  | cons f fs ih =>
    obtain ⟨m, hm⟩ := ih h
    simp only [Frame.fill] at hm
    cases hr : f.red
    · rw [hr, blackH_nodeD_black] at hm
      obtain ⟨m', _, h1, _⟩ := hm
      exact ⟨m', h1⟩
    · rw [hr, blackH_nodeD_red] at hm
      exact ⟨m, hm.1⟩

theorem bh_plug_replace {ctx : List Frame} {Q Q' : T} {n : Nat} (h : (plug ctx Q).blackH n)
    (hq : ∀ m, Q.blackH m → Q'.blackH m) : (plug ctx Q').blackH n := by
  induction ctx generalizing Q Q' n with
  | nil => exact hq n h
  | cons f fs ih =>
    simp only [plug]
    refine ih h ?_
    intro m hm
    simp only [Frame.fill] at hm ⊢
    cases hr : f.red
    · rw [hr] at hm; rw [blackH_nodeD_black] at hm ⊢
      obtain ⟨m', e, h1, h2⟩ := hm
      exact ⟨m', e, hq _ h1, h2⟩
    · rw [hr] at hm; rw [blackH_nodeD_red] at hm ⊢
      exact ⟨hq _ hm.1, hm.2⟩

theorem rep_plug_sub {h : Tree} {r : Nat} {ctx : List Frame} {Q : T} (hr : Rep h r (plug ctx Q)) :
    ∃ q, Rep h q Q := by
  induction ctx generalizing Q with
  | nil => exact ⟨r, hr⟩
  | cons f fs ih =>
    obtain ⟨q, hq⟩ := ih hr
    simp only [Frame.fill, Rep_nodeD] at hq
    exact ⟨_, hq.2.2.2.2.2.1⟩

/-- replace the subtree in the hole: the context cells are unchanged and the new subtree sits at the same index -/
theorem rep_plug_replace {h h' : Tree} {r : Nat} {ctx : List Frame} {Q Q' : T} (hr : Rep h r (plug ctx Q))
    (hc : ∀ i ∈ ctxIdxs ctx, nd h' i = nd h i) (hs : h.nodes.size ≤ h'.nodes.size)
    (hq : ∀ q, Rep h q Q → Rep h' q Q') : Rep h' r (plug ctx Q') := by
  induction ctx generalizing Q Q' with
  | nil => exact hq r hr
  | cons f fs ih =>
    simp only [plug]
    refine ih hr (fun i hi => hc i (by simp [ctxIdxs, hi])) ?_
    intro q rq
    simp only [Frame.fill, Rep_nodeD] at rq ⊢
    obtain ⟨e, h2, hlt, hk, hcl, ra, rb⟩ := rq
    have hn : nd h' q = nd h q := hc q (by simp [ctxIdxs, e])
    refine ⟨e, h2, by omega, by rw [hn]; exact hk, by rw [hn]; exact hcl, ?_, ?_⟩
    · simp only [child_eq, hn]; simp only [child_eq] at ra; exact hq _ ra
    · simp only [child_eq, hn]; simp only [child_eq] at rb
      exact Rep_frame rb (fun i hi => hc i (by simp [ctxIdxs, hi])) hs

end AsmjitVerif.Tree.Ins
