/- C09 refinement (model run ⊑ monitor): simulation relation `Sim` between the monitor ghost state and the model state, and the bundle `Good` of all model invariants. -/
import AsmjitVerif.Lemmas.JitAllocBytes
import AsmjitVerif.Lemmas.JitAllocContents
import AsmjitVerif.Lemmas.JitAllocStats
import AsmjitVerif.Spec.JitAlloc
namespace AsmjitVerif.JitAlloc
open Spec

def toH (x : GH) : Handle := { live := x.live, blk := x.blk, off := x.off, size := x.size }
def toGB (b : Block) : GBlock := { id := b.id, pool := b.pool, size := b.blockSize }

/-- all model-side invariants of a reachable state -/
structure Good (s : St) : Prop where
  inv : Inv s
  win : AWin s.a
  cnt : CInv s
  pool : PInv s.a
  emp : AEmp s.a
  mem : AMem s.a
  div : ADiv s.a
  bytes : GInv s
  cdiv : CfgDiv s.a.cfg
  gran : s.a.cfg.gran ≤ 1024

/-- the ghost state of the monitor mirrors the model state -/
structure Sim (g : Ghost) (s : St) : Prop where
  cfg : g.cfg = s.a.cfg
  tab : g.tab.map toH = s.tab
  blocks : g.blocks = s.a.blocks.map toGB
  tags : ∀ (i : Nat) (x : GH), g.tab[i]? = some x → x.live = true → ∀ b ∈ s.a.blocks, b.id = x.blk →
    ∀ k, inSpan (s.a.cfg.poolGran b.pool) (toH x) k →
      (match x.tag with
       | some t => memAt b k = t
       | none => s.a.cfg.fillUnused = true → memAt b k = patColour s.a.cfg)

theorem Sim.getH {g : Ghost} {s : St} (h : Sim g s) (i : Nat) : s.tab[i]? = (g.tab[i]?).map toH := by
  rw [← h.tab, List.getElem?_map]

theorem Sim.liveCount {g : Ghost} {s : St} (h : Sim g s) : g.liveCount = JitAlloc.liveCount s.tab := by
  rw [← h.tab]
  unfold Ghost.liveCount JitAlloc.liveCount
  rw [List.countP_map]
  rfl

theorem Sim.liveBytes {g : Ghost} {s : St} (h : Sim g s) : g.liveBytes = JitAlloc.liveBytes s.tab := by
  rw [← h.tab]
  unfold Ghost.liveBytes JitAlloc.liveBytes
  rw [List.map_map]
  rfl

/-- the ghost's live spans in a block are the model's `Spans` -/
theorem Sim.spans {g : Ghost} {s : St} (h : Sim g s) (id gp st n : Nat) :
    Spans s.tab id gp st n ↔ ∃ x ∈ g.liveIn id, x.off = st * gp ∧ x.size = n * gp := by
  unfold Spans Ghost.liveIn
  constructor
  · rintro ⟨i, hd, h1, h2, h3, h4, h5⟩
    rw [h.getH] at h1
    cases hx : g.tab[i]? with
    | none => rw [hx] at h1; simp at h1
    | some x =>
      rw [hx] at h1
      simp at h1
      subst h1
      refine ⟨x, ?_, h4, h5⟩
      simp only [List.mem_filter]
      exact ⟨List.mem_of_getElem? hx, by simpa [toH] using ⟨h2, h3⟩⟩
  · rintro ⟨x, hx, h4, h5⟩
    simp only [List.mem_filter] at hx
    obtain ⟨i, hi⟩ := List.getElem?_of_mem hx.1
    have hl : x.live = true ∧ x.blk = id := by simpa using hx.2
    exact ⟨i, toH x, by rw [h.getH, hi]; rfl, hl.1, hl.2, h4, h5⟩

theorem Sim.liveIn_empty {g : Ghost} {s : St} (h : Sim g s) (hI : Inv s) {b : Block} (hb : b ∈ s.a.blocks) :
    (g.liveIn b.id).isEmpty = true ↔ ∀ st n, ¬ Spans s.tab b.id (s.a.cfg.poolGran b.pool) st n := by
  constructor
  · intro he st n hS
    obtain ⟨x, hx, _⟩ := (h.spans _ _ _ _).mp hS
    rw [List.isEmpty_iff] at he
    rw [he] at hx; simp at hx
  · intro hno
    rw [List.isEmpty_iff]
    cases hl : g.liveIn b.id with
    | nil => rfl
    | cons x xs =>
      exfalso
      have hx : x ∈ g.liveIn b.id := by rw [hl]; simp
      -- x is a live handle of the model in block b: it is granule aligned
      have hx' := hx
      simp only [Ghost.liveIn, List.mem_filter] at hx'
      obtain ⟨i, hi⟩ := List.getElem?_of_mem hx'.1
      have hlive : x.live = true ∧ x.blk = b.id := by simpa using hx'.2
      have hm : s.tab[i]? = some (toH x) := by rw [h.getH, hi]; rfl
      obtain ⟨b2, hb2, e2, st, n, o1, o2⟩ := hI.owned i (toH x) hm hlive.1
      have : b2 = b := block_unique hI hb2 hb (by rw [e2]; exact hlive.2)
      subst this
      exact hno st n ⟨i, toH x, hm, hlive.1, hlive.2, o1, o2⟩

end AsmjitVerif.JitAlloc
