/- C15: theorems about `Model/FaultMore.lean` (hash insert/rehash, bit set resize, JIT block resources). -/
import AsmjitVerif.Model.FaultMore
import AsmjitVerif.Lemmas.C18HashMap
import AsmjitVerif.Lemmas.FaultAcct
namespace AsmjitVerif.FaultMore
open AsmjitVerif AsmjitVerif.Fault
set_option maxHeartbeats 800000

/-! ## ArenaHash -/

theorem hashInsertF_nofault (a : Arena.State) (t : Hash.Table) (n : Hash.Node) :
    (hashInsertF [] a t n).1 = [] ∧ ((hashInsertF [] a t n).2.1, (hashInsertF [] a t n).2.2.1) = Hash.insert a t n ∧
    (hashInsertF [] a t n).2.2.2 = false := by
  unfold hashInsertF Hash.insert hashLink
  simp only [req]
  split
  · split <;> simp
  · simp

/-- under EVERY oracle `_insert` keeps the table invariant (every node reachable in bucket `hash % count`) and adds exactly
the node - whether the rehash was refused, failed inside the arena, or succeeded -/
theorem hashInsertF_spec (o : Oracle) (a : Arena.State) (t : Hash.Table) (n : Hash.Node) (hw : Hash.WF t) (hh : n.hash < 2 ^ 32)
    (hfresh : n.uid ∉ (Hash.allNodes t).map Hash.Node.uid) :
    Hash.WF (hashInsertF o a t n).2.2.1 ∧ (Hash.allNodes (hashInsertF o a t n).2.2.1).Perm (n :: Hash.allNodes t) := by
  have h1 := Hash.insert_core t hw n hh hfresh (hashLink t n) (by unfold hashLink; rw [Hash.calcMod_eq t n.hash hw hh])
  unfold hashInsertF
  simp only
  split
  · split
    · rcases req o with ⟨b, o1⟩
      cases b
      · simp only
        have h2 := Hash.rehash_spec a (hashLink t n) (min ((hashLink t n).primeIndex + 2) (Hash.primeCount - 1)) h1.1
        exact ⟨h2.1, h2.2.trans h1.2⟩
      · exact h1
    · exact h1
  · exact h1

/-- a refused rehash: the node is linked, nothing else changed (same bucket array, same arena) - degraded, not broken -/
theorem hashInsertF_refused (o : Oracle) (a : Arena.State) (t : Hash.Table) (n : Hash.Node)
    (h : (hashInsertF o a t n).2.2.2 = true) :
    (hashInsertF o a t n).2.2.1 = hashLink t n ∧ (hashInsertF o a t n).2.1 = a ∧ faults (hashInsertF o a t n).1 < faults o := by
  unfold hashInsertF at h ⊢
  simp only at h ⊢
  split at h
  · split at h
    · rename_i h1 h2
      simp only [h1, h2, if_true]
      rcases hr : req o with ⟨b, o1⟩
      rw [hr] at h
      cases b
      · simp at h
      · simp only; exact ⟨trivial, trivial, req_true_faults o o1 hr⟩
    · simp at h
  · simp at h

/-! ## ArenaBitSet -/

theorem bitsResizeF_nofault (a : Arena.State) (b : Bits.BitSet) (newSize ideal : Nat) (v : Bool) :
    bitsResizeF [] a b newSize ideal v = ([], Bits.resizeI a b newSize ideal v) := by
  unfold bitsResizeF; split <;> simp [req]

/-- `_resize` whose arena request is refused: kOutOfMemory, arena and bit set exactly as before -/
theorem bitsResizeF_fail_atomic (o o1 : Oracle) (a : Arena.State) (b : Bits.BitSet) (newSize ideal : Nat) (v : Bool)
    (hn : bitsNeedsAlloc b newSize ideal = true) (hr : req o = (true, o1)) :
    bitsResizeF o a b newSize ideal v = (o1, some (a, b, .oom)) := by
  unfold bitsResizeF; simp [hn, hr]

/-- no request is made when the capacity suffices: such a resize cannot fail for lack of memory through the oracle -/
theorem bitsResizeF_no_request (o : Oracle) (a : Arena.State) (b : Bits.BitSet) (newSize ideal : Nat) (v : Bool)
    (hn : bitsNeedsAlloc b newSize ideal = false) :
    bitsResizeF o a b newSize ideal v = (o, Bits.resizeI a b newSize ideal v) := by
  unfold bitsResizeF; simp [hn]

/-! ## JitAllocator_new_block / JitRuntime::_add -/

theorem dualMapF_spec (o : Oracle) (r : Res) :
    ((dualMapF o r).2.2 = false → (dualMapF o r).2.1 = r) ∧
    ((dualMapF o r).2.2 = true → (dualMapF o r).2.1 = { r with maps := r.maps + 2 }) ∧
    faults (dualMapF o r).1 ≤ faults o ∧ ((dualMapF o r).2.2 = false → faults (dualMapF o r).1 < faults o) := by
  obtain ⟨m, f, h⟩ := r
  unfold dualMapF
  repeat' split
  all_goals (simp; grind)

/-- `new_block_fail_atomic`: under EVERY oracle a failed `JitAllocator_new_block` leaves no mapping, no descriptor and no heap
record behind (plain and dual mapping) and consumed an injected failure; a successful one owns exactly its mappings + record -/
theorem newBlockF_spec (dual : Bool) (o : Oracle) (r : Res) :
    ((newBlockF dual o r).2.2 = false → (newBlockF dual o r).2.1 = r ∧ faults (newBlockF dual o r).1 < faults o) ∧
    ((newBlockF dual o r).2.2 = true →
      (newBlockF dual o r).2.1 = { r with maps := r.maps + (if dual then 2 else 1), heap := r.heap + 1 }) := by
  have hd := dualMapF_spec o r
  obtain ⟨m, f, h⟩ := r
  unfold newBlockF
  cases dual
  · simp only [Bool.false_eq_true, if_false]
    repeat' split
    all_goals (simp_all; try grind)
  · simp only [if_true]
    generalize dualMapF o ⟨m, f, h⟩ = d at hd
    obtain ⟨o1, ⟨m1, f1, h1⟩, ok⟩ := d
    simp only at hd
    cases ok
    · simp at hd ⊢; exact ⟨hd.1, hd.2.2⟩
    · simp only [Bool.true_eq_false, if_false]
      have hr1 := hd.2.1 rfl
      simp at hr1
      obtain ⟨rfl, rfl, rfl⟩ := hr1
      have hle := hd.2.2.1
      repeat' split
      all_goals (simp_all; try grind)

/-- `jit_add_fail_atomic`: a failed `JitRuntime::_add` holds no span; its resources are those before the call, or those plus
exactly one complete block that the allocator owns (when the span needed a new block and `relocate_to_base` failed afterwards:
the span is released, the block stays in the pool) - never a stray mapping, descriptor or record -/
theorem jitAddF_fail (dual needBlock relocAllocs : Bool) (o : Oracle) (r : Res) (spans : Nat)
    (h : (jitAddF dual needBlock relocAllocs o r spans).2.2.2 = false) :
    (jitAddF dual needBlock relocAllocs o r spans).2.2.1 = spans ∧
    ((jitAddF dual needBlock relocAllocs o r spans).2.1 = r ∨
     (needBlock = true ∧ (jitAddF dual needBlock relocAllocs o r spans).2.1 =
        { r with maps := r.maps + (if dual then 2 else 1), heap := r.heap + 1 })) := by
  have hb := newBlockF_spec dual o r
  unfold jitAddF at h ⊢
  generalize newBlockF dual o r = m at hb h ⊢
  obtain ⟨o1, r1, ok⟩ := m
  simp only at hb
  cases needBlock <;> cases relocAllocs <;> cases ok <;> simp at h hb ⊢ <;>
    (repeat' split at h) <;> (repeat' split) <;> simp_all

/-- a successful `_add` holds exactly one more span -/
theorem jitAddF_ok (dual needBlock relocAllocs : Bool) (o : Oracle) (r : Res) (spans : Nat)
    (h : (jitAddF dual needBlock relocAllocs o r spans).2.2.2 = true) :
    (jitAddF dual needBlock relocAllocs o r spans).2.2.1 = spans + 1 := by
  unfold jitAddF at h ⊢
  generalize (if needBlock = true then newBlockF dual o r else (o, r, true)) = m at h ⊢
  obtain ⟨o1, r1, ok⟩ := m
  cases ok
  · simp at h
  · simp only [Bool.true_eq_false, if_false] at h ⊢
    cases relocAllocs
    · simp
    · simp only [if_true] at h ⊢
      rcases hr : req o1 with ⟨b, o2⟩
      cases b <;> (try rw [hr] at h) <;> (try rw [hr]) <;> simp at h ⊢

end AsmjitVerif.FaultMore
