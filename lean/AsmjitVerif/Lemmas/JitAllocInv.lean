/- Allocator-level invariant of the JIT allocator model (C09): definition and the scan over the blocks. -/
import AsmjitVerif.Lemmas.JitAllocBlock
namespace AsmjitVerif.JitAlloc

/-- configurations `JitAllocator_new_impl` produces: granularity and block size are positive -/
def WF (c : Config) : Prop := 0 < c.gran ∧ 0 < c.blockSize

theorem poolGran_pos {c : Config} (h : WF c) (p : Nat) : 0 < c.poolGran p := by
  unfold Config.poolGran
  exact Nat.mul_pos h.1 (Nat.pow_pos (by omega))

theorem mkConfig_wf (opts gran blockSize pattern : Nat) : WF (mkConfig opts gran blockSize pattern) := by
  unfold WF mkConfig
  simp only
  constructor
  · split
    · omega
    · rename_i h; simp at h; omega
  · split
    · omega
    · rename_i h; simp at h; omega

/-- `Spans tab id g s n`: the caller holds a live span of `n` granules (of `g` bytes) starting at granule `s` of block `id` -/
def Spans (tab : List Handle) (id g s n : Nat) : Prop :=
  ∃ i : Nat, ∃ h : Handle, tab[i]? = some h ∧ h.live = true ∧ h.blk = id ∧ h.off = s * g ∧ h.size = n * g

/-- The invariant of the allocator together with the table of spans the caller holds. -/
structure Inv (s : St) : Prop where
  wf : WF s.a.cfg
  /-- blocks are kept in creation order; ids are unique -/
  ids : (s.a.blocks.map (·.id)).Pairwise (· < ·)
  fresh : ∀ b ∈ s.a.blocks, b.id < s.a.nextId
  /-- every block's bit vectors, incremental-mode cache and counters describe exactly the live spans of that block -/
  blk : ∀ b ∈ s.a.blocks, BInv b (Spans s.tab b.id (s.a.cfg.poolGran b.pool)) ∧ BCnt b
  /-- every live span lies in an existing block and is granule aligned -/
  owned : ∀ (i : Nat) (h : Handle), s.tab[i]? = some h → h.live = true →
    ∃ b ∈ s.a.blocks, b.id = h.blk ∧ ∃ st n, h.off = st * s.a.cfg.poolGran b.pool ∧ h.size = n * s.a.cfg.poolGran b.pool
  /-- live spans are pairwise disjoint -/
  tdisj : ∀ (i j : Nat) (h1 h2 : Handle), i < j → s.tab[i]? = some h1 → s.tab[j]? = some h2 → h1.live = true → h2.live = true → h1.blk = h2.blk →
    h1.off + h1.size ≤ h2.off ∨ h2.off + h2.size ≤ h1.off

/-! ### `tryAlloc` / `commit` keep the identity of a block -/

theorem tryAlloc_fields {b b' : Block} {k : Nat} {r : Option Nat} (h : b.tryAlloc k = (b', r)) :
    b'.id = b.id ∧ b'.pool = b.pool ∧ b'.blockSize = b.blockSize ∧ b'.areaSize = b.areaSize ∧ b'.pad = b.pad := by
  unfold Block.tryAlloc at h
  split at h
  · simp at h; obtain ⟨rfl, _⟩ := h; simp
  · split at h
    · split at h
      · split at h
        · simp at h; obtain ⟨rfl, _⟩ := h; simp
        · split at h
          · simp at h; obtain ⟨rfl, _⟩ := h; simp
          · simp at h; obtain ⟨rfl, _⟩ := h; simp
      · simp at h; obtain ⟨rfl, _⟩ := h; simp
    · simp at h; obtain ⟨rfl, _⟩ := h; simp

@[simp] theorem commit_id (b : Block) (i k : Nat) : (b.commit i k).id = b.id := by simp [Block.commit]
@[simp] theorem commit_pool (b : Block) (i k : Nat) : (b.commit i k).pool = b.pool := by simp [Block.commit]
@[simp] theorem commit_blockSize (b : Block) (i k : Nat) : (b.commit i k).blockSize = b.blockSize := by simp [Block.commit]
@[simp] theorem commit_areaSize (b : Block) (i k : Nat) : (b.commit i k).areaSize = b.areaSize := by simp [Block.commit]

/-- The block loop of `alloc`: nothing but search caches changes when no block fits; otherwise exactly one block, selected by
`sel`, receives exactly the span `[idx, idx+k)`, which was free, inside the block and behind the padding. -/
theorem scanPass_spec (sel : Block → Bool) (k : Nat) (hk : 0 < k) (T : Nat → Nat → Nat → Nat → Prop) :
    ∀ (bs : List Block), (bs.map (·.id)).Pairwise (· < ·) → (∀ b ∈ bs, BInv b (T b.id b.pool) ∧ BCnt b) →
      (scanPass sel k bs).1.map (fun b => (b.id, b.pool, b.blockSize)) = bs.map (fun b => (b.id, b.pool, b.blockSize)) ∧
      match (scanPass sel k bs).2 with
      | none => ∀ b ∈ (scanPass sel k bs).1, BInv b (T b.id b.pool) ∧ BCnt b
      | some (id, idx, _) =>
        (∃ p, (∃ b0, sel b0 = true ∧ b0.id = id ∧ b0.pool = p) ∧
          (∃ b ∈ (scanPass sel k bs).1, b.id = id ∧ b.pool = p ∧ b.padN ≤ idx ∧ idx + k ≤ b.areaSize) ∧
          (∀ s n, T id p s n → s + n ≤ idx ∨ idx + k ≤ s)) ∧
        (id ∈ bs.map (·.id)) ∧
        ∀ b ∈ (scanPass sel k bs).1, BInv b (fun s n => T b.id b.pool s n ∨ (b.id = id ∧ s = idx ∧ n = k)) ∧ BCnt b := by
  intro bs
  induction bs with
  | nil => intro _ _; simp [scanPass]
  | cons b bs ih =>
    intro hp hinv
    simp only [List.map_cons, List.pairwise_cons] at hp
    have ihr := ih hp.2 (fun x hx => hinv x (List.mem_cons_of_mem _ hx))
    obtain ⟨hIb, hCb⟩ := hinv b List.mem_cons_self
    unfold scanPass
    by_cases hsel : sel b = true
    · simp only [hsel, if_true]
      rcases hta : b.tryAlloc k with ⟨b', _ | idx⟩
      · -- the block does not fit
        simp only
        obtain ⟨f1, f2, f3, f4, f5⟩ := tryAlloc_fields hta
        have hI' := hIb.tryAlloc_none hta
        have hC' := hCb.tryAlloc_none hta
        obtain ⟨r1, r4⟩ := ihr
        refine ⟨by simp [r1, f1, f2, f3], ?_⟩
        split
        · rename_i hnone
          rw [hnone] at r4
          intro x hx
          rcases List.mem_cons.mp hx with hxb | hx
          · rw [hxb, f1, f2]; exact ⟨hI', hC'⟩
          · exact r4 x hx
        · rename_i id idx w hsome
          rw [hsome] at r4
          obtain ⟨⟨p, w1, ⟨c, hc, hc2⟩, w3⟩, hmem, r5⟩ := r4
          refine ⟨⟨p, w1, ⟨c, List.mem_cons_of_mem _ hc, hc2⟩, w3⟩, List.mem_cons_of_mem _ hmem, ?_⟩
          intro x hx
          rcases List.mem_cons.mp hx with hxb | hx
          · rw [hxb, f1, f2]
            have hne : b.id ≠ id := by
              have := hp.1 id hmem
              omega
            exact ⟨hI'.congr (by intro s n; simp [hne]), hC'⟩
          · exact r5 x hx
      · -- the block fits: the range is committed
        simp only
        obtain ⟨f1, f2, f3, f4, f5⟩ := tryAlloc_fields hta
        obtain ⟨g1, g2, g3, g4⟩ := hIb.tryAlloc_some hk hta
        refine ⟨by simp [f1, f2, f3], ⟨b.pool, ⟨b, hsel, rfl, rfl⟩, ⟨b'.commit idx k, List.mem_cons_self, by simp [f1], by simp [f2],
          by simpa [Block.commit, Block.padN, f5] using g2, by simpa [f4] using g3⟩, g4⟩, by simp, ?_⟩
        intro x hx
        rcases List.mem_cons.mp hx with hxb | hx
        · rw [hxb]
          simp only [commit_id, commit_pool, f1, f2]
          refine ⟨g1.congr (by intro s n; simp), ?_⟩
          exact hCb.tryAlloc_some hIb hk hta
        · have hne : x.id ≠ b.id := by
            have := hp.1 x.id (List.mem_map_of_mem hx)
            omega
          obtain ⟨hIx, hCx⟩ := hinv x (List.mem_cons_of_mem _ hx)
          exact ⟨hIx.congr (by intro s n; simp [hne]), hCx⟩
    · simp only [hsel]
      obtain ⟨r1, r4⟩ := ihr
      refine ⟨by simp [r1], ?_⟩
      split
      · rename_i hnone
        simp only [Bool.false_eq_true, if_false] at hnone
        rw [hnone] at r4
        intro x hx
        rcases List.mem_cons.mp hx with hxb | hx
        · rw [hxb]; exact ⟨hIb, hCb⟩
        · exact r4 x hx
      · rename_i id idx w hsome
        simp only [Bool.false_eq_true, if_false] at hsome
        rw [hsome] at r4
        obtain ⟨⟨p, w1, ⟨c, hc, hc2⟩, w3⟩, hmem, r5⟩ := r4
        refine ⟨⟨p, w1, ⟨c, List.mem_cons_of_mem _ hc, hc2⟩, w3⟩, List.mem_cons_of_mem _ hmem, ?_⟩
        intro x hx
        rcases List.mem_cons.mp hx with hxb | hx
        · rw [hxb]
          have hne : b.id ≠ id := by
            have := hp.1 id hmem
            omega
          exact ⟨hIb.congr (by intro s n; simp [hne]), hCb⟩
        · exact r5 x hx

end AsmjitVerif.JitAlloc
