/- The window invariant holds for every block in every reachable state, and the block loop of `alloc` is complete:
   a request is served from an existing block of its pool whenever one has room (C09, "released memory becomes reusable"). -/
import AsmjitVerif.Lemmas.JitAllocWindow
import AsmjitVerif.Lemmas.JitAllocCount
namespace AsmjitVerif.JitAlloc


theorem tryAlloc_used {b b' : Block} {k : Nat} {r : Option Nat} (h : b.tryAlloc k = (b', r)) : b'.used = b.used := by
  unfold Block.tryAlloc at h
  split at h
  · simp at h; obtain ⟨rfl, _⟩ := h; rfl
  · split at h
    · split at h
      · split at h
        · simp at h; obtain ⟨rfl, _⟩ := h; rfl
        · split at h
          · simp at h; obtain ⟨rfl, _⟩ := h; rfl
          · simp at h; obtain ⟨rfl, _⟩ := h; rfl
      · simp at h; obtain ⟨rfl, _⟩ := h; rfl
    · simp at h; obtain ⟨rfl, _⟩ := h; rfl

/-- the block loop keeps the window invariant of every block; when it finds nothing, no selected block had room and the
`used` vectors are untouched -/
theorem scanPass_win (sel : Block → Bool) (k : Nat) (hk : 0 < k) (T : Nat → Nat → Nat → Nat → Prop) :
    ∀ (bs : List Block), (∀ b ∈ bs, BInv b (T b.id b.pool) ∧ BCnt b ∧ BWin b) →
      (∀ b ∈ (scanPass sel k bs).1, BWin b) ∧
      ((scanPass sel k bs).2 = none →
        (∀ b ∈ bs, sel b = true → ¬ HasRun b k) ∧
        (scanPass sel k bs).1.map (fun b => (b.id, b.pool, b.areaSize, b.used)) = bs.map (fun b => (b.id, b.pool, b.areaSize, b.used))) := by
  intro bs
  induction bs with
  | nil => intro _; simp [scanPass]
  | cons b bs ih =>
    intro hinv
    have ihr := ih (fun x hx => hinv x (List.mem_cons_of_mem _ hx))
    obtain ⟨hI, hC, hW⟩ := hinv b List.mem_cons_self
    unfold scanPass
    by_cases hsel : sel b = true
    · simp only [hsel, if_true]
      rcases hta : b.tryAlloc k with ⟨b', _ | idx⟩
      · simp only
        obtain ⟨w1, w2, w3⟩ := BWin.tryAlloc_none hI hC hW hk hta
        obtain ⟨f1, f2, f3, f4, f5⟩ := tryAlloc_fields hta
        refine ⟨?_, ?_⟩
        · intro x hx
          rcases List.mem_cons.mp hx with rfl | hx
          · exact w1
          · exact ihr.1 x hx
        · intro hnone
          obtain ⟨r1, r2⟩ := ihr.2 hnone
          refine ⟨?_, by simp [r2, f1, f2, f4, w2]⟩
          intro x hx hs
          rcases List.mem_cons.mp hx with rfl | hx
          · exact w3
          · exact r1 x hx hs
      · simp only
        refine ⟨?_, by intro h; simp at h⟩
        intro x hx
        rcases List.mem_cons.mp hx with rfl | hx
        · exact BWin.tryAlloc_some hI hC hW hk hta
        · exact (hinv x (List.mem_cons_of_mem _ hx)).2.2
    · simp only [hsel]
      refine ⟨?_, ?_⟩
      · intro x hx
        rcases List.mem_cons.mp hx with rfl | hx
        · exact hW
        · exact ihr.1 x hx
      · intro hnone
        obtain ⟨r1, r2⟩ := ihr.2 hnone
        refine ⟨?_, by simp [r2]⟩
        intro x hx hs
        rcases List.mem_cons.mp hx with rfl | hx
        · exact absurd hs hsel
        · exact r1 x hx hs





/-- every block satisfies the window invariant -/
def AWin (a : Alloc) : Prop := ∀ b ∈ a.blocks, BWin b

theorem release_shape (a : Alloc) (blk off : Nat) (b : Block) (hf : a.findBlock blk = some b) :
    ∀ x ∈ (a.release blk off).1.blocks, x ∈ a.blocks ∨
      ∃ m, x = { b.markReleased (off / a.cfg.poolGran b.pool) (indexOfStop b.stop (off / a.cfg.poolGran b.pool) + 1) with mem := m } := by
  intro x hx
  unfold Alloc.release at hx
  simp only [hf] at hx
  generalize hb' : (if a.cfg.fillUnused = true then
      { b.markReleased (off / a.cfg.poolGran b.pool) (indexOfStop b.stop (off / a.cfg.poolGran b.pool) + 1) with
        mem := setRange (b.markReleased (off / a.cfg.poolGran b.pool) (indexOfStop b.stop (off / a.cfg.poolGran b.pool) + 1)).mem
          (off / a.cfg.poolGran b.pool) (indexOfStop b.stop (off / a.cfg.poolGran b.pool) + 1) (patColour a.cfg) }
    else b.markReleased (off / a.cfg.poolGran b.pool) (indexOfStop b.stop (off / a.cfg.poolGran b.pool) + 1)) = b' at hx
  have hshape : ∃ m, b' = { b.markReleased (off / a.cfg.poolGran b.pool) (indexOfStop b.stop (off / a.cfg.poolGran b.pool) + 1) with mem := m } := by
    rw [← hb']; split
    · exact ⟨_, rfl⟩
    · exact ⟨_, rfl⟩
  have key : ∀ y, y ∈ ({ a with allocCount := a.allocCount - 1 }.modifyBlock blk fun _ => b').blocks →
      y ∈ a.blocks ∨ ∃ m, y = { b.markReleased (off / a.cfg.poolGran b.pool) (indexOfStop b.stop (off / a.cfg.poolGran b.pool) + 1) with mem := m } := by
    intro y hy
    simp only [Alloc.modifyBlock, List.mem_map] at hy
    obtain ⟨z, hz, rfl⟩ := hy
    split
    · exact Or.inr hshape
    · exact Or.inl hz
  split at hx
  · split at hx
    · exact key x (mem_removeBlock.mp hx).1
    · exact key x hx
  · exact key x hx

theorem release_win {a : Alloc} {T} {s0 n0 : Nat} {b : Block} (h : AInv a T) (hw : AWin a) (hb : b ∈ a.blocks)
    (hS : T b.id b.pool s0 n0) : AWin (a.release b.id (s0 * a.cfg.poolGran b.pool)).1 := by
  have hg := poolGran_pos h.wf b.pool
  obtain ⟨hI, hC⟩ := h.blk b hb
  obtain ⟨i1, i2, i3⟩ := hI.inside s0 n0 hS
  have hidx : s0 * a.cfg.poolGran b.pool / a.cfg.poolGran b.pool = s0 := Nat.mul_div_cancel _ hg
  have he : indexOfStop b.stop s0 + 1 = s0 + n0 := by rw [hI.toBCore.indexOfStop hS]; omega
  intro x hx
  rcases release_shape a b.id _ b (findBlock_of_mem h.ids hb) x hx with hx | ⟨m, rfl⟩
  · exact hw x hx
  · rw [hidx, he]
    exact (BWin.markReleased hI (hw b hb) hS).withMem m

theorem shrink_shape (a : Alloc) (blk off newSize : Nat) (b : Block) (hf : a.findBlock blk = some b) :
    ∀ x ∈ (a.shrinkImpl blk off newSize).1.blocks, x ∈ a.blocks ∨ (∃ m, x = { b with mem := m }) ∨
      ∃ m, (indexOfStop b.stop (off / a.cfg.poolGran b.pool) + 1 - off / a.cfg.poolGran b.pool -
          (newSize + a.cfg.poolGran b.pool - 1) / a.cfg.poolGran b.pool ≠ 0) ∧
        ¬ ((newSize + a.cfg.poolGran b.pool - 1) / a.cfg.poolGran b.pool >
          indexOfStop b.stop (off / a.cfg.poolGran b.pool) + 1 - off / a.cfg.poolGran b.pool) ∧
        x = { b.markShrunk (off / a.cfg.poolGran b.pool + (newSize + a.cfg.poolGran b.pool - 1) / a.cfg.poolGran b.pool)
          (indexOfStop b.stop (off / a.cfg.poolGran b.pool) + 1) with mem := m } := by
  intro x hx
  unfold Alloc.shrinkImpl at hx
  simp only [hf] at hx
  split at hx
  · exact Or.inl hx
  · split at hx
    · exact Or.inl hx
    · rename_i hgt
      by_cases hd : indexOfStop b.stop (off / a.cfg.poolGran b.pool) + 1 - off / a.cfg.poolGran b.pool -
          (newSize + a.cfg.poolGran b.pool - 1) / a.cfg.poolGran b.pool ≠ 0
      · simp only [hd, if_true, ne_eq, not_false_eq_true] at hx
        simp only [setPool_blocks, Alloc.modifyBlock, List.mem_map] at hx
        obtain ⟨z, hz, rfl⟩ := hx
        split
        · right; right
          split
          · exact ⟨_, hd, hgt, rfl⟩
          · exact ⟨_, hd, hgt, rfl⟩
        · exact Or.inl hz
      · simp only [hd, if_false] at hx
        simp only [Alloc.modifyBlock, List.mem_map] at hx
        obtain ⟨z, hz, rfl⟩ := hx
        split
        · right; left
          split
          · exact ⟨_, rfl⟩
          · exact ⟨_, rfl⟩
        · exact Or.inl hz

theorem shrink_win {a : Alloc} {T} {s0 n0 : Nat} {b : Block} (h : AInv a T) (hw : AWin a) (hb : b ∈ a.blocks)
    (hS : T b.id b.pool s0 n0) (newSize : Nat) (hns : 0 < newSize) :
    AWin (a.shrinkImpl b.id (s0 * a.cfg.poolGran b.pool) newSize).1 := by
  have hg := poolGran_pos h.wf b.pool
  obtain ⟨hI, hC⟩ := h.blk b hb
  obtain ⟨i1, i2, i3⟩ := hI.inside s0 n0 hS
  have hidx : s0 * a.cfg.poolGran b.pool / a.cfg.poolGran b.pool = s0 := Nat.mul_div_cancel _ hg
  have he : indexOfStop b.stop s0 + 1 = s0 + n0 := by rw [hI.toBCore.indexOfStop hS]; omega
  have hm : 0 < (newSize + a.cfg.poolGran b.pool - 1) / a.cfg.poolGran b.pool := by
    apply Nat.pos_of_ne_zero
    intro h0
    have := Nat.div_eq_zero_iff.mp h0
    omega
  intro x hx
  rcases shrink_shape a b.id _ newSize b (findBlock_of_mem h.ids hb) x hx with hx | ⟨m, rfl⟩ | ⟨m, hd, hgt, rfl⟩
  · exact hw x hx
  · exact (hw b hb).withMem m
  · rw [hidx, he] at hd hgt ⊢
    exact (BWin.markShrunk hI (hw b hb) hS hm (by omega)).withMem m

theorem writeMem_win {a : Alloc} (hw : AWin a) (blk off size byte : Nat) : AWin (a.writeMem blk off size byte) := by
  intro x hx
  simp only [Alloc.writeMem, Alloc.modifyBlock, List.mem_map] at hx
  obtain ⟨y, hy, rfl⟩ := hx
  split
  · exact (hw y hy).withMem _
  · exact hw y hy

theorem reset_win {a : Alloc} {T} (h : AInv a T) (hw : AWin a) (hard : Bool) : AWin (a.reset hard) := by
  intro x hx
  simp only [Alloc.reset] at hx
  obtain ⟨y, hy, hf⟩ := List.mem_filterMap.mp hx
  by_cases hk : a.keeps hard y = true
  · simp [hk] at hf
    rw [← hf]
    unfold wipeOut
    split
    · exact hw y hy
    · have h0 := (h.blk y hy).1.area
      split
      · exact BWin.clear _ h0
      · exact BWin.clear _ h0
  · simp [hk] at hf





/-- window facts about the two passes of the block loop -/
theorem twoPass_win (sel1 sel2 : Block → Bool) (k : Nat) (hk : 0 < k) (T : Nat → Nat → Nat → Nat → Prop)
    (hsel2 : ∀ x y : Block, x.id = y.id → x.pool = y.pool → sel2 x = sel2 y)
    (bs : List Block) (hp : (bs.map (·.id)).Pairwise (· < ·)) (hinv : ∀ b ∈ bs, BInv b (T b.id b.pool) ∧ BCnt b ∧ BWin b)
    (r2 : List Block × Option Found)
    (hr2 : r2 = if (scanPass sel1 k bs).2.isSome then scanPass sel1 k bs else scanPass sel2 k (scanPass sel1 k bs).1) :
    (∀ b ∈ r2.1, BWin b) ∧ (r2.2 = none → ∀ b ∈ bs, (sel1 b = true ∨ sel2 b = true) → ¬ HasRun b k) := by
  have w1 := scanPass_win sel1 k hk T bs hinv
  have s1 := scanPass_spec sel1 k hk T bs hp (fun b hb => ⟨(hinv b hb).1, (hinv b hb).2.1⟩)
  rcases hr : (scanPass sel1 k bs).2 with _ | ⟨id, idx, w⟩
  · simp only [hr, Option.isSome_none, Bool.false_eq_true, if_false] at hr2
    have s12 := s1.2
    rw [hr] at s12
    obtain ⟨n1, m1⟩ := w1.2 hr
    have hinv2 : ∀ b ∈ (scanPass sel1 k bs).1, BInv b (T b.id b.pool) ∧ BCnt b ∧ BWin b :=
      fun b hb => ⟨(s12 b hb).1, (s12 b hb).2, w1.1 b hb⟩
    have w2 := scanPass_win sel2 k hk T (scanPass sel1 k bs).1 hinv2
    subst hr2
    refine ⟨w2.1, ?_⟩
    intro hnone b hb hs
    rcases hs with hs | hs
    · exact n1 b hb hs
    · -- the same block (same id, pool, area, used vector) was looked at by the second pass
      obtain ⟨n2, _⟩ := w2.2 hnone
      obtain ⟨y, hy, e⟩ := exists_of_map_eq m1 b hb
      simp only [Prod.mk.injEq] at e
      obtain ⟨e1, e2, e3, e4⟩ := e
      intro hrun
      have hsel' : sel2 y = true := by rw [hsel2 y b e1 e2]; exact hs
      apply n2 y hy hsel'
      obtain ⟨a, ha1, ha2⟩ := hrun
      exact ⟨a, by rw [e3]; exact ha1, by rw [e4]; exact ha2⟩
  · simp only [hr, Option.isSome_some, if_true] at hr2
    subst hr2
    exact ⟨w1.1, by intro h; rw [hr] at h; simp at h⟩





theorem allocNew_win {a : Alloc} {p n size : Nat} {blocks : List Block} (hwf : WF a.cfg)
    (hfr : ∀ b ∈ a.blocks, b.id < a.nextId)
    (hn : 0 < n) (hsz : size = n * a.cfg.poolGran p)
    (hmap : blocks.map (fun b => (b.id, b.pool, b.blockSize)) = a.blocks.map (fun b => (b.id, b.pool, b.blockSize)))
    (hwb : ∀ b ∈ blocks, BWin b) : AWin (a.allocNew p n size blocks).1 := by
  have hfresh : ∀ x ∈ blocks, x.id < a.nextId := by
    intro x hx
    obtain ⟨y, hy, e⟩ := exists_of_map_eq hmap.symm x hx
    simp at e
    have := hfr y hy
    omega
  let a1 : Alloc := { a with blocks := blocks }
  let bsz := idealBlockSize a1 p size
  let nb := newBlock a1 p bsz
  have hbs := idealBlockSize_ge a1 p size hwf.2
  have hfit : nb.padN + n ≤ nb.areaSize := newBlock_fit a.cfg hwf p n size bsz hsz hbs
  let fb : Block := ({ nb with searchStart := nb.searchStart + n, largest := nb.largest - n }).markAllocated nb.padN (nb.padN + n)
  have hblocks : (a.allocNew p n size blocks).1.blocks = blocks ++ [fb] := by
    unfold Alloc.allocNew
    simp only [Alloc.insertBlock, Alloc.modifyBlock, setPool_blocks, List.map_append, List.map_cons, List.map_nil]
    rw [map_modify_fresh blocks _ _ (by intro x hx; exact hfresh x hx)]
    simp
    rfl
  have hraw : ∃ raw : Block, nb = raw.clear := ⟨_, rfl⟩
  obtain ⟨raw, hrawe⟩ := hraw
  have hfit' : raw.padN + n ≤ raw.areaSize := by
    have e1 : nb.padN = raw.padN := by rw [hrawe]; rfl
    have e2 : nb.areaSize = raw.areaSize := by rw [hrawe]; rfl
    omega
  intro x hx
  rw [hblocks] at hx
  rcases List.mem_append.mp hx with hx | hx
  · exact hwb x hx
  · simp at hx
    rw [hx]
    simp only [fb, hrawe]
    exact BWin.newBlock_commit raw n hn hfit'

theorem allocIn_win {a : Alloc} {T} {size : Nat} (h : AInv a T) (hw : AWin a) (hs0 : size ≠ 0) (hal : size % a.cfg.gran = 0) :
    AWin (a.allocIn size).1 ∧
    ((∃ b ∈ a.blocks, b.pool = sizeToPoolId a.cfg size ∧
        HasRun b ((size + a.cfg.poolGran (sizeToPoolId a.cfg size) - 1) / a.cfg.poolGran (sizeToPoolId a.cfg size))) →
      (a.allocIn size).1.blocks.map (·.id) = a.blocks.map (·.id)) := by
  have hg := poolGran_pos h.wf (sizeToPoolId a.cfg size)
  have hdvd := sizeToPoolId_dvd a.cfg size hal
  have hsz := (ceil_mul_of_dvd size _ hg hdvd).symm
  have hn : 0 < (size + a.cfg.poolGran (sizeToPoolId a.cfg size) - 1) / a.cfg.poolGran (sizeToPoolId a.cfg size) := by
    apply Nat.pos_of_ne_zero
    intro h0
    rw [h0] at hsz
    omega
  have hall : ∀ b ∈ a.blocks, BInv b (T b.id b.pool) ∧ BCnt b ∧ BWin b := fun b hb => ⟨(h.blk b hb).1, (h.blk b hb).2, hw b hb⟩
  have tp := twoPass_spec
    (fun b => b.pool == sizeToPoolId a.cfg size && decide ((a.pool (sizeToPoolId a.cfg size)).cursor.getD 0 ≤ b.id))
    (fun b => b.pool == sizeToPoolId a.cfg size && decide (b.id < (a.pool (sizeToPoolId a.cfg size)).cursor.getD 0))
    _ hn (T := T) a.blocks h.ids h.blk _ rfl
  have tw := twoPass_win
    (fun b => b.pool == sizeToPoolId a.cfg size && decide ((a.pool (sizeToPoolId a.cfg size)).cursor.getD 0 ≤ b.id))
    (fun b => b.pool == sizeToPoolId a.cfg size && decide (b.id < (a.pool (sizeToPoolId a.cfg size)).cursor.getD 0))
    _ hn T (by intro x y e1 e2; simp [e1, e2]) a.blocks h.ids hall _ rfl
  unfold Alloc.allocIn
  simp only
  split
  · rename_i id idx w hr
    rw [hr] at tp
    refine ⟨?_, ?_⟩
    · intro x hx
      simp only [Alloc.allocFound, setPool_blocks] at hx
      exact tw.1 x hx
    · intro _
      simp only [Alloc.allocFound, setPool_blocks]
      exact map_id_of_map_triple tp.1
  · rename_i hr
    rw [hr] at tp
    obtain ⟨hmap, hb⟩ := tp
    refine ⟨?_, ?_⟩
    · exact allocNew_win h.wf h.fresh hn hsz hmap tw.1
    · rintro ⟨b, hb', hp, hrun⟩
      exfalso
      have := tw.2 hr b hb' (by
        simp only [hp, beq_self_eq_true, Bool.true_and, decide_eq_true_eq]
        omega)
      exact this hrun





theorem alloc_win {a : Alloc} {T} (req : Nat) (h : AInv a T) (hw : AWin a) : AWin (a.alloc req).1 := by
  unfold Alloc.alloc
  simp only
  split
  · exact hw
  · split
    · exact hw
    · rename_i hs0 _
      exact (allocIn_win h hw hs0 (alignUp_mod _ _)).1

theorem AWin.step {s : St} (hI : Inv s) (hW : AWin s.a) (op : Op) : AWin (step s op).1.a := by
  have rel : ∀ (s : St), Inv s → AWin s.a → ∀ (j : Nat) (hd : Handle), s.tab[j]? = some hd → hd.live = true →
      ∀ ansOk : Ans,
      AWin (match s.a.release hd.blk hd.off with
        | (a, .ok _) => (({ a := a, tab := killHandle s.tab j } : St), ansOk)
        | (a, .error e) => ({ s with a := a }, Ans.err e)).1.a := by
    intro s hI hW j hd hj hl ansOk
    obtain ⟨b, hb, e, st, n0, o1, o2⟩ := hI.owned j hd hj hl
    have hS : TT s b.id b.pool st n0 := ⟨j, hd, hj, hl, e.symm, o1, o2⟩
    have := release_win hI.toAInv hW hb hS
    rw [e, ← o1] at this
    rcases hr : s.a.release hd.blk hd.off with ⟨a', (e' | u)⟩ <;> (rw [hr] at this; exact this)
  have shr : ∀ (s : St), Inv s → AWin s.a → ∀ (j : Nat) (hd : Handle), s.tab[j]? = some hd → hd.live = true →
      ∀ newSize : Nat, newSize ≠ 0 →
      AWin (match s.a.shrinkImpl hd.blk hd.off newSize with
        | (a, .ok (some sz)) => (({ a := a, tab := setHandleSize s.tab j sz } : St), Ans.size sz)
        | (a, .ok none) => ({ s with a := a }, Ans.size hd.size)
        | (a, .error e) => ({ s with a := a }, Ans.err e)).1.a := by
    intro s hI hW j hd hj hl newSize hns
    obtain ⟨b, hb, e, st, n0, o1, o2⟩ := hI.owned j hd hj hl
    have hS : TT s b.id b.pool st n0 := ⟨j, hd, hj, hl, e.symm, o1, o2⟩
    have := shrink_win hI.toAInv hW hb hS newSize (Nat.pos_of_ne_zero hns)
    rw [e, ← o1] at this
    rcases hr : s.a.shrinkImpl hd.blk hd.off newSize with ⟨a', (e' | (_ | sz))⟩ <;> (rw [hr] at this; exact this)
  cases op with
  | alloc req =>
    have := alloc_win req hI.toAInv hW
    simp only [JitAlloc.step]
    rcases hr : s.a.alloc req with ⟨a', (e | sp)⟩ <;> (rw [hr] at this; exact this)
  | release j =>
    simp only [JitAlloc.step]
    cases hj : s.tab[j]? with
    | none => exact hW
    | some hd =>
      simp only
      cases hl : hd.live with
      | false => simpa using hW
      | true => simp only [Bool.not_true, Bool.false_eq_true, if_false]; exact rel s hI hW j hd hj hl _
  | shrink j newSize =>
    simp only [JitAlloc.step]
    cases hj : s.tab[j]? with
    | none => exact hW
    | some hd =>
      simp only
      cases hl : hd.live with
      | false => simpa using hW
      | true =>
        simp only [Bool.not_true, Bool.false_eq_true, if_false]
        by_cases h0 : newSize = 0
        · simp only [h0, if_true]; exact rel s hI hW j hd hj hl _
        · simp only [h0, if_false]; exact shr s hI hW j hd hj hl newSize h0
  | query j off =>
    simp only [JitAlloc.step]
    cases hj : s.tab[j]? with
    | none => exact hW
    | some hd =>
      simp only
      cases s.a.findBlock hd.blk with
      | none => exact hW
      | some b =>
        simp only
        split
        · exact hW
        · split
          · exact hW
          · split <;> exact hW
  | sstale j newSize =>
    simp only [JitAlloc.step]
    cases hj : s.tab[j]? with
    | none => exact hW
    | some hd =>
      simp only
      split
      · exact hW
      · cases s.a.findBlock hd.blk with
        | none => exact hW
        | some b =>
          simp only
          split
          · exact hW
          · cases hq : s.a.query hd.blk hd.off with
            | ok sp => exact hW
            | error e =>
              simp only
              obtain ⟨e', he'⟩ := shrinkImpl_of_query_error (n := newSize) hq
              rw [he']
              exact hW
  | write j byte =>
    simp only [JitAlloc.step]
    cases hj : s.tab[j]? with
    | none => exact hW
    | some hd =>
      simp only
      split
      · exact hW
      · exact writeMem_win hW _ _ _ _
  | wtrunc j byte newSize =>
    simp only [JitAlloc.step]
    cases hj : s.tab[j]? with
    | none => exact hW
    | some hd =>
      simp only
      cases hl : hd.live with
      | false => simpa using hW
      | true =>
        simp only [Bool.not_true, Bool.false_eq_true, if_false]
        have hI' := hI.writeMem hd.blk hd.off hd.size (byte % 256)
        have hW' := writeMem_win hW hd.blk hd.off hd.size (byte % 256)
        split
        · exact hW'
        · by_cases h0 : newSize = 0
          · simp only [h0, if_true]
            exact rel { s with a := s.a.writeMem hd.blk hd.off hd.size (byte % 256) } hI' hW' j hd hj hl _
          · simp only [h0, if_false]
            exact shr { s with a := s.a.writeMem hd.blk hd.off hd.size (byte % 256) } hI' hW' j hd hj hl newSize h0
  | read j =>
    simp only [JitAlloc.step]
    cases hj : s.tab[j]? with
    | none => exact hW
    | some hd =>
      simp only
      split
      · exact hW
      · split <;> exact hW
  | mem => exact hW
  | sweep => exact hW
  | blocks => exact hW
  | dump => exact hW
  | reset hard => exact reset_win hI.toAInv hW hard
  | isinit => exact hW
  | rforeign k => exact hW
  | qforeign k => exact hW
  | sforeign => exact hW

theorem AWin.finalState {s : St} (hI : Inv s) (hW : AWin s.a) (ops : List Op) : AWin (finalState s ops).a := by
  induction ops generalizing s with
  | nil => exact hW
  | cons op ops ih => exact ih (hI.step op) (AWin.step hI hW op)



end AsmjitVerif.JitAlloc
