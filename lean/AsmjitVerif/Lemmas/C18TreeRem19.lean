/-
C18 — ArenaTree::remove, part 19: colour algebra.  `blackH` as a function (`bhL`, `bal`), colour predicates of
contexts (`cnrr`, `cbal`) with `plug` decomposition lemmas, and the top-down invariant `CInv`.
-/
import AsmjitVerif.Lemmas.C18TreeRem18
namespace AsmjitVerif.Tree.Rem
open AsmjitVerif.Tree AsmjitVerif.Tree.Spec

/-- black height along the left spine -/
def _root_.AsmjitVerif.Tree.Spec.T.bhL : T → Nat
  | .nil => 0
  | .node _ _ c l _ => l.bhL + (if c then 0 else 1)
/-- all root-to-nil paths cross the same number of black nodes -/
def _root_.AsmjitVerif.Tree.Spec.T.bal : T → Prop
  | .nil => True
  | .node _ _ _ l r => l.bal ∧ r.bal ∧ l.bhL = r.bhL

theorem blackH_iff (t : T) (n : Nat) : t.blackH n ↔ t.bal ∧ t.bhL = n := by
  constructor
  · intro h
    induction h with
    | nil => exact ⟨trivial, rfl⟩
    | red hl hr ihl ihr => exact ⟨⟨ihl.1, ihr.1, ihl.2.trans ihr.2.symm⟩, by simp [T.bhL, ihl.2]⟩
    | black hl hr ihl ihr => exact ⟨⟨ihl.1, ihr.1, ihl.2.trans ihr.2.symm⟩, by simp [T.bhL, ihl.2]⟩
  · induction t generalizing n with
    | nil => rintro ⟨_, rfl⟩; exact T.blackH.nil
    | node i k c l r ihl ihr =>
      rintro ⟨⟨bl, br, e⟩, rfl⟩
      cases c
      · exact T.blackH.black (ihl _ ⟨bl, rfl⟩) (ihr _ ⟨br, e.symm⟩)
      · simpa [T.bhL] using T.blackH.red (ihl _ ⟨bl, rfl⟩) (ihr _ ⟨br, e.symm⟩)

theorem exists_blackH_iff (t : T) : (∃ n, t.blackH n) ↔ t.bal := by
  constructor
  · rintro ⟨n, h⟩; exact ((blackH_iff t n).mp h).1
  · intro h; exact ⟨t.bhL, (blackH_iff t _).mpr ⟨h, rfl⟩⟩

@[simp] theorem mkT_isRed (i k : Nat) (c d : Bool) (a b : T) : (mkT i k c d a b).isRed = c := by
  cases d <;> cases c <;> rfl
theorem mkT_nrr (i k : Nat) (c d : Bool) (a b : T) : (mkT i k c d a b).noRedRed ↔
    (c = true → a.isRed = false ∧ b.isRed = false) ∧ a.noRedRed ∧ b.noRedRed := by
  cases d <;> simp only [mkT, T.noRedRed, Bool.false_eq_true, if_false, if_true]
  constructor
  · rintro ⟨h1, h2, h3⟩; exact ⟨fun e => ⟨(h1 e).2, (h1 e).1⟩, h3, h2⟩
  · rintro ⟨h1, h2, h3⟩; exact ⟨fun e => ⟨(h1 e).2, (h1 e).1⟩, h3, h2⟩
theorem mkT_bal (i k : Nat) (c d : Bool) (a b : T) : (mkT i k c d a b).bal ↔ a.bal ∧ b.bal ∧ a.bhL = b.bhL := by
  cases d <;> simp only [mkT, T.bal, Bool.false_eq_true, if_false, if_true]
  constructor
  · rintro ⟨h1, h2, h3⟩; exact ⟨h2, h1, h3.symm⟩
  · rintro ⟨h1, h2, h3⟩; exact ⟨h2, h1, h3.symm⟩
theorem mkT_bhL (i k : Nat) (c d : Bool) (a b : T) (e : a.bhL = b.bhL) :
    (mkT i k c d a b).bhL = a.bhL + (if c then 0 else 1) := by
  cases d <;> simp [mkT, T.bhL, e]

theorem _root_.AsmjitVerif.Tree.Spec.T.setRed_eq_mkT (t : T) (hn : t.isNil = false) (b d : Bool) :
    t.setRed b = mkT t.rootIdx t.key b d (t.child d) (t.child (!d)) := by
  cases t with
  | nil => simp [T.isNil] at hn
  | node i k c l r => cases d <;> simp [mkT, T.rootIdx, T.key, T.child, T.setRed]

theorem _root_.AsmjitVerif.Tree.Spec.T.nil_of_isNil {t : T} (h : t.isNil = true) : t.bhL = 0 := by
  cases t <;> simp_all [T.isNil, T.bhL]

/-- colour facts of a non-nil tree in accessor form -/
theorem _root_.AsmjitVerif.Tree.Spec.T.col_acc (t : T) (hn : t.isNil = false) (d : Bool) :
    (t.noRedRed ↔ (t.isRed = true → (t.child d).isRed = false ∧ (t.child (!d)).isRed = false) ∧
      (t.child d).noRedRed ∧ (t.child (!d)).noRedRed) ∧
    (t.bal ↔ (t.child d).bal ∧ (t.child (!d)).bal ∧ (t.child d).bhL = (t.child (!d)).bhL) ∧
    (t.bal → t.bhL = (t.child d).bhL + (if t.isRed then 0 else 1)) := by
  have e := T.eq_mkT t hn d
  refine ⟨?_, ?_, ?_⟩
  · conv => lhs; rw [e]
    exact mkT_nrr _ _ _ _ _ _
  · conv => lhs; rw [e]
    exact mkT_bal _ _ _ _ _ _
  · intro hb
    have hb' := hb; rw [e, mkT_bal] at hb'
    conv => lhs; rw [e]
    exact mkT_bhL _ _ _ _ _ _ hb'.2.2

/-- colour conditions a context imposes on (the colour / black height of) the subtree in its hole -/
def cnrr : List Frame → Bool → Prop
  | [], _ => True
  | F :: up, r => (F.c = true → r = false ∧ F.sib.isRed = false) ∧ F.sib.noRedRed ∧ cnrr up F.c
def cbal : List Frame → Nat → Prop
  | [], _ => True
  | F :: up, n => F.sib.bal ∧ F.sib.bhL = n ∧ cbal up (n + if F.c then 0 else 1)

theorem cnrr_false {ctx : List Frame} {r : Bool} (h : cnrr ctx r) : cnrr ctx false := by
  cases ctx with
  | nil => trivial
  | cons F up => exact ⟨fun e => ⟨rfl, (h.1 e).2⟩, h.2⟩

theorem plug_nrr (ctx : List Frame) (s : T) : (plug ctx s).noRedRed ↔ s.noRedRed ∧ cnrr ctx s.isRed := by
  induction ctx generalizing s with
  | nil => simp [plug, cnrr]
  | cons F up ih =>
    simp only [plug, ih, mkT_nrr, mkT_isRed, cnrr]
    constructor
    · rintro ⟨⟨h1, h2, h3⟩, h4⟩; exact ⟨h2, h1, h3, h4⟩
    · rintro ⟨h2, h1, h3, h4⟩; exact ⟨⟨h1, h2, h3⟩, h4⟩

theorem plug_bal (ctx : List Frame) (s : T) : (plug ctx s).bal ↔ s.bal ∧ cbal ctx s.bhL := by
  induction ctx generalizing s with
  | nil => simp [plug, cbal]
  | cons F up ih =>
    simp only [plug, ih, mkT_bal, cbal]
    constructor
    · rintro ⟨⟨h1, h2, h3⟩, h4⟩
      rw [mkT_bhL _ _ _ _ _ _ h3] at h4
      exact ⟨h1, h2, h3.symm, h4⟩
    · rintro ⟨h1, h2, h3, h4⟩
      refine ⟨⟨h1, h2, h3.symm⟩, ?_⟩
      rw [mkT_bhL _ _ _ _ _ _ h3.symm]; exact h4

/-- the top-down relaxation: the frame just left is red, or the node below the hole is red, or we are at the root
    and the sibling is black -/
def J : List Frame → T → Prop
  | [], _ => True
  | P :: up, S => P.c = true ∨ S.isRed = true ∨ (up = [] ∧ P.sib.isRed = false)

structure CInv (ctx : List Frame) (S : T) : Prop where
  nrrS : S.noRedRed
  cn : cnrr ctx S.isRed
  balS : S.bal
  cb : cbal ctx S.bhL
  j : J ctx S

theorem CInv.whole {ctx : List Frame} {S : T} (h : CInv ctx S) : (plug ctx S).noRedRed ∧ (plug ctx S).bal :=
  ⟨(plug_nrr ctx S).mpr ⟨h.nrrS, h.cn⟩, (plug_bal ctx S).mpr ⟨h.balS, h.cb⟩⟩

end AsmjitVerif.Tree.Rem
