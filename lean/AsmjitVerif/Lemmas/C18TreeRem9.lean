/-
C18 — ArenaTree::remove, part 9: the unlink step after the push-down loop.
-/
import AsmjitVerif.Lemmas.C18TreeRem8
namespace AsmjitVerif.Tree.Rem
open AsmjitVerif.Tree AsmjitVerif.Tree.Spec

/-- THE UNLINK STEP `p->_set_child(p->right == q, q->child(q->left == nullptr))`: when the loop has stopped
    (`Inv … (F :: up) nil`), the bottom node `q = F.i` is replaced in its parent by its only possible child; the heap
    then represents `plug up F.sib`, no other node is touched. -/
theorem unlink_rep {kn node : Nat} {st : RmState} {F : Frame} {up : List Frame}
    (inv : Inv kn node st (F :: up) .nil) :
    let h' := setChild st.t st.p (child st.t st.p true == st.q) (child st.t st.q (child st.t st.q false == 0))
    Rep h' (nd h' 1).r (plug up F.sib) ∧ h'.nodes.size = st.t.nodes.size ∧ (∀ n, (nd h' n).key = (nd st.t n).key) ∧
    (F.sib.idxs ++ ctxIdxs up).Nodup ∧ F.i ∉ F.sib.idxs ++ ctxIdxs up ∧
    RepC h' up ∧ Rep h' (holeptr h' up) F.sib := by
  intro h'
  obtain ⟨a, b, c, d, e, f, g⟩ := inv.repc
  have hnd := inv.nodup
  simp only [T.idxs, List.nil_append, ctxIdxs, List.nodup_cons] at hnd
  have hq0 : getC (nd st.t F.i) F.d = 0 := inv.reps.isNil_iff.mp rfl
  have hgm := pIdx_mem up
  have hFup : F.i ∉ ctxIdxs up := fun hm => hnd.1 (by simp [hm])
  have hg0 : pIdx up ≠ 0 ∧ pIdx up < st.t.nodes.size := by
    rcases hgm with e1 | e1
    · rw [e1]; have := inv.size1; omega
    · have := g.ge2 _ e1; omega
  have hd2 : (child st.t (pIdx up) true == F.i) = dirOf up := dir2_eq g f a hFup
  have hv : child st.t F.i (child st.t F.i false == 0) = getC (nd st.t F.i) (!F.d) := by
    simp only [child_eq]
    cases hd : F.d
    · rw [hd] at hq0; rw [hq0]; simp
    · rw [hd] at hq0
      by_cases ha : getC (nd st.t F.i) false = 0
      · rw [ha]; simp [hq0, ha]
      · have : (getC (nd st.t F.i) false == 0) = false := by simpa using ha
        rw [this]; simp
  have eh : h' = setChild st.t (pIdx up) (dirOf up) (getC (nd st.t F.i) (!F.d)) := by
    have e1 : gIdx (F :: up) = pIdx up := rfl
    have e2 : pIdx (F :: up) = F.i := rfl
    simp only [h']; rw [inv.hp, inv.hq, e1, e2, hd2, hv]
  have n' := setChild_nd st.t (pIdx up) (dirOf up) (getC (nd st.t F.i) (!F.d)) hg0.1 hg0.2
  rw [← eh] at n'
  have es : h'.nodes.size = st.t.nodes.size := by rw [eh, setChild_size]
  have eg : nd h' (pIdx up) = setC (nd st.t (pIdx up)) (dirOf up) (getC (nd st.t F.i) (!F.d)) := by
    rw [n', if_pos rfl]
  have ekey : ∀ n, (nd h' n).key = (nd st.t n).key := by
    intro n; rw [n' n]; split
    · rename_i e; rw [e]; simp
    · rfl
  have hrc : RepC h' up := by
    apply g.frame_hole es (List.nodup_append.mp hnd.2).2.1
    · intro i hi _; rw [n' i, if_neg hi]
    · rw [ekey]
    · rw [eg]; simp
    · rw [eg]; simp
  have hrs : Rep h' (holeptr h' up) F.sib := by
    simp only [holeptr]; rw [eg]; simp
    apply e.frame es
    intro i hi
    rw [n' i, if_neg]
    rcases hgm with e1 | e1
    · rw [e1]; have := (e.ge2 i hi).1; omega
    · intro e2; exact (List.nodup_append.mp hnd.2).2.2 i hi _ e1 e2
  exact ⟨hrc.plug hrs, es, ekey, hnd.2, hnd.1, hrc, hrs⟩

end AsmjitVerif.Tree.Rem
