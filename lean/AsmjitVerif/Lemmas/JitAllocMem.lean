/- C09: memory of the blocks (one colour per granule): well-formedness, fill pattern of free memory, and the frame property `contents_frame`. -/
import AsmjitVerif.Lemmas.JitAllocTrans
namespace AsmjitVerif.JitAlloc


def memAt (b : Block) (i : Nat) : Nat := b.mem.getD i 0

/-- memory of a block: one colour per granule; with kFillUnusedMemory every granule that is free or the padding carries the pattern -/
structure MemB (cfg : Config) (b : Block) : Prop where
  len : b.mem.length = b.areaSize
  fill : cfg.fillUnused = true → ∀ k, k < b.areaSize → (bit b.used k = false ∨ (b.pad = true ∧ k = 0)) → memAt b k = patColour cfg

theorem getD_setRange (l : List Nat) (a b i v : Nat) :
    (setRange l a b v).getD i 0 = if a ≤ i ∧ i < b ∧ i < l.length then v else l.getD i 0 := by
  unfold setRange
  by_cases h : i < l.length
  · simp [List.getD, h]
  · simp [List.getD, h]

@[simp] theorem markAllocated_mem (b : Block) (s e : Nat) : (b.markAllocated s e).mem = b.mem := by
  unfold Block.markAllocated; simp only; split <;> rfl
@[simp] theorem markReleased_mem (b : Block) (s e : Nat) : (b.markReleased s e).mem = b.mem := by
  unfold Block.markReleased; simp only; repeat (first | rfl | split)
@[simp] theorem markShrunk_mem (b : Block) (s e : Nat) : (b.markShrunk s e).mem = b.mem := by
  unfold Block.markShrunk; simp only; split <;> rfl

theorem tryAlloc_mem {b b' : Block} {k : Nat} {r : Option Nat} (h : b.tryAlloc k = (b', r)) : b'.mem = b.mem := by
  unfold Block.tryAlloc at h
  split at h
  · simp at h; obtain ⟨rfl, _⟩ := h; rfl
  · split at h
    · split at h
      · split at h
        · simp at h; obtain ⟨rfl, _⟩ := h; rfl
        · split at h
          · simp at h; obtain ⟨rfl, _⟩ := h; rfl
          · simp at h; obtain ⟨rfl, _⟩ := h; rfl
      · simp at h; obtain ⟨rfl, _⟩ := h; rfl
    · simp at h; obtain ⟨rfl, _⟩ := h; rfl

theorem commit_mem (b : Block) (idx k : Nat) : (b.commit idx k).mem = b.mem := by simp [Block.commit]

theorem MemB.tryAlloc_none {cfg : Config} {b b' : Block} {k : Nat} (h : MemB cfg b) (ht : b.tryAlloc k = (b', none)) : MemB cfg b' := by
  obtain ⟨_, f2, _, _, f5⟩ := tryAlloc_acct ht
  have fm := tryAlloc_mem ht
  have fu := tryAlloc_used ht
  refine ⟨by rw [fm, f2]; exact h.len, ?_⟩
  intro hf k hk hc
  unfold memAt
  rw [fm]
  rw [f2] at hk
  rw [fu, f5] at hc
  exact h.fill hf k hk hc

theorem MemB.commit {cfg : Config} {b b' : Block} {k idx : Nat} (h : MemB cfg b) (hlen : b.used.length = b.areaSize)
    (ht : b.tryAlloc k = (b', some idx)) : MemB cfg (b'.commit idx k) := by
  obtain ⟨_, f2, _, _, f5⟩ := tryAlloc_acct ht
  have fm := tryAlloc_mem ht
  have fu := tryAlloc_used ht
  refine ⟨by rw [commit_mem, fm]; simp [f2]; exact h.len, ?_⟩
  intro hf j hj hc
  unfold memAt
  rw [commit_mem, fm]
  simp only [commit_areaSize, f2] at hj
  have hpad : (b'.commit idx k).pad = b.pad := by simp [Block.commit, f5]
  have hused : (b'.commit idx k).used = setRange b.used idx (idx + k) true := by simp [Block.commit, fu]
  rw [hpad, hused, bit_setRange, hlen] at hc
  apply h.fill hf j hj
  rcases hc with hc | hc
  · left
    by_cases c : idx ≤ j ∧ j < idx + k ∧ j < b.areaSize
    · simp [c] at hc
    · simpa [c] using hc
  · exact Or.inr hc

/-- every block's memory is well formed -/
def AMem (a : Alloc) : Prop := ∀ b ∈ a.blocks, MemB a.cfg b




/-- blocks after `release`: untouched ones, and the released block with the (optionally filled) memory -/
theorem release_shape2 (a : Alloc) (blk off : Nat) (b : Block) (hf : a.findBlock blk = some b) :
    ∀ x ∈ (a.release blk off).1.blocks, x ∈ a.blocks ∨
      x = { b.markReleased (off / a.cfg.poolGran b.pool) (indexOfStop b.stop (off / a.cfg.poolGran b.pool) + 1) with
            mem := if a.cfg.fillUnused then setRange b.mem (off / a.cfg.poolGran b.pool) (indexOfStop b.stop (off / a.cfg.poolGran b.pool) + 1) (patColour a.cfg)
                   else b.mem } := by
  intro x hx
  unfold Alloc.release at hx
  simp only [hf] at hx
  generalize hb' : (if a.cfg.fillUnused = true then
      { b.markReleased (off / a.cfg.poolGran b.pool) (indexOfStop b.stop (off / a.cfg.poolGran b.pool) + 1) with
        mem := setRange (b.markReleased (off / a.cfg.poolGran b.pool) (indexOfStop b.stop (off / a.cfg.poolGran b.pool) + 1)).mem
          (off / a.cfg.poolGran b.pool) (indexOfStop b.stop (off / a.cfg.poolGran b.pool) + 1) (patColour a.cfg) }
    else b.markReleased (off / a.cfg.poolGran b.pool) (indexOfStop b.stop (off / a.cfg.poolGran b.pool) + 1)) = b' at hx
  have hshape : b' = { b.markReleased (off / a.cfg.poolGran b.pool) (indexOfStop b.stop (off / a.cfg.poolGran b.pool) + 1) with
      mem := if a.cfg.fillUnused then setRange b.mem (off / a.cfg.poolGran b.pool) (indexOfStop b.stop (off / a.cfg.poolGran b.pool) + 1) (patColour a.cfg)
             else b.mem } := by
    rw [← hb']
    cases a.cfg.fillUnused
    · simp only [Bool.false_eq_true, if_false]
      have := markReleased_mem b (off / a.cfg.poolGran b.pool) (indexOfStop b.stop (off / a.cfg.poolGran b.pool) + 1)
      conv => lhs; rw [show b.markReleased (off / a.cfg.poolGran b.pool) (indexOfStop b.stop (off / a.cfg.poolGran b.pool) + 1) =
        { b.markReleased (off / a.cfg.poolGran b.pool) (indexOfStop b.stop (off / a.cfg.poolGran b.pool) + 1) with
          mem := (b.markReleased (off / a.cfg.poolGran b.pool) (indexOfStop b.stop (off / a.cfg.poolGran b.pool) + 1)).mem } from rfl]
      rw [this]
    · simp only [if_true, markReleased_mem]
  have key : ∀ y, y ∈ ({ a with allocCount := a.allocCount - 1 }.modifyBlock blk fun _ => b').blocks → y ∈ a.blocks ∨ y = b' := by
    intro y hy
    simp only [Alloc.modifyBlock, List.mem_map] at hy
    obtain ⟨z, hz, rfl⟩ := hy
    split
    · exact Or.inr rfl
    · exact Or.inl hz
  rw [← hshape]
  split at hx
  · split at hx
    · exact key x (mem_removeBlock.mp hx).1
    · exact key x hx
  · exact key x hx





theorem with_mem_self (y : Block) (m : List Nat) (h : y.mem = m) : y = { y with mem := m } := by subst h; rfl

/-- blocks after `JitAllocatorImpl_shrink`: untouched ones, and the shrunk block (shrunk or not) with the (optionally filled) memory -/
theorem shrink_shape2 (a : Alloc) (blk off newSize : Nat) (b : Block) (hf : a.findBlock blk = some b) :
    ∀ x ∈ (a.shrinkImpl blk off newSize).1.blocks, x ∈ a.blocks ∨
      ∃ b0 : Block, (b0 = b ∨
          ((indexOfStop b.stop (off / a.cfg.poolGran b.pool) + 1 - off / a.cfg.poolGran b.pool -
              (newSize + a.cfg.poolGran b.pool - 1) / a.cfg.poolGran b.pool ≠ 0) ∧
            ¬ ((newSize + a.cfg.poolGran b.pool - 1) / a.cfg.poolGran b.pool >
              indexOfStop b.stop (off / a.cfg.poolGran b.pool) + 1 - off / a.cfg.poolGran b.pool) ∧
            b0 = b.markShrunk (off / a.cfg.poolGran b.pool + (newSize + a.cfg.poolGran b.pool - 1) / a.cfg.poolGran b.pool)
              (indexOfStop b.stop (off / a.cfg.poolGran b.pool) + 1))) ∧
        x = { b0 with mem :=
          (if (decide (newSize < (indexOfStop b.stop (off / a.cfg.poolGran b.pool) + 1 - off / a.cfg.poolGran b.pool) * a.cfg.poolGran b.pool) &&
              a.cfg.fillUnused) = true then
            (setRange b.mem (off / a.cfg.poolGran b.pool + (newSize + a.cfg.poolGran b.pool - 1) / a.cfg.poolGran b.pool)
              (indexOfStop b.stop (off / a.cfg.poolGran b.pool) + 1) (patColour a.cfg))
          else b.mem) } := by
  intro x hx
  unfold Alloc.shrinkImpl at hx
  simp only [hf] at hx
  split at hx
  · exact Or.inl hx
  · split at hx
    · exact Or.inl hx
    · rename_i hgt
      by_cases hd : indexOfStop b.stop (off / a.cfg.poolGran b.pool) + 1 - off / a.cfg.poolGran b.pool -
          (newSize + a.cfg.poolGran b.pool - 1) / a.cfg.poolGran b.pool ≠ 0
      · simp only [hd, if_true, ne_eq, not_false_eq_true] at hx
        simp only [setPool_blocks, Alloc.modifyBlock, List.mem_map] at hx
        obtain ⟨z, hz, rfl⟩ := hx
        split
        · right
          refine ⟨_, Or.inr ⟨hd, hgt, rfl⟩, ?_⟩
          split
          · simp only [markShrunk_mem]
          · exact with_mem_self _ _ (markShrunk_mem _ _ _)
        · exact Or.inl hz
      · simp only [hd, if_false] at hx
        simp only [Alloc.modifyBlock, List.mem_map] at hx
        obtain ⟨z, hz, rfl⟩ := hx
        split
        · right
          refine ⟨b, Or.inl rfl, ?_⟩
          split <;> rfl
        · exact Or.inl hz




/-- blocks after `allocNew`: the given blocks and the fresh block with its first span -/
theorem allocNew_blocks {a : Alloc} {p n size : Nat} {blocks : List Block} (hfr : ∀ x ∈ blocks, x.id < a.nextId) :
    (a.allocNew p n size blocks).1.blocks = blocks ++
      [({ newBlock { a with blocks := blocks } p (idealBlockSize { a with blocks := blocks } p size) with
          searchStart := (newBlock { a with blocks := blocks } p (idealBlockSize { a with blocks := blocks } p size)).searchStart + n
          largest := (newBlock { a with blocks := blocks } p (idealBlockSize { a with blocks := blocks } p size)).largest - n }).markAllocated
        (newBlock { a with blocks := blocks } p (idealBlockSize { a with blocks := blocks } p size)).padN
        ((newBlock { a with blocks := blocks } p (idealBlockSize { a with blocks := blocks } p size)).padN + n)] := by
  unfold Alloc.allocNew
  simp only [Alloc.insertBlock, Alloc.modifyBlock, setPool_blocks, List.map_append, List.map_cons, List.map_nil]
  rw [map_modify_fresh blocks _ _ (by intro x hx; exact hfr x hx)]
  simp

/-- A per-block predicate that survives the cache refresh, is established by a commit and holds for a fresh block holds for every
block after `alloc`. -/
theorem alloc_forall {a : Alloc} {T} (Q : Block → Prop) (req : Nat) (h : AInv a T) (hq : ∀ b ∈ a.blocks, Q b)
    (hnone : ∀ b b' k, BInv b (T b.id b.pool) → BCnt b → Q b → b.tryAlloc k = (b', none) → Q b')
    (hsome : ∀ b b' k idx, 0 < k → BInv b (T b.id b.pool) → BCnt b → Q b → b.tryAlloc k = (b', some idx) → Q (b'.commit idx k))
    (hnew : ∀ (blocks : List Block) (p n size : Nat), (∀ x ∈ blocks, Q x) → 0 < n → size = n * a.cfg.poolGran p → p < a.cfg.poolCount →
      (newBlock { a with blocks := blocks } p (idealBlockSize { a with blocks := blocks } p size)).padN + n ≤
        (newBlock { a with blocks := blocks } p (idealBlockSize { a with blocks := blocks } p size)).areaSize →
      size ≤ 2147483647 →
      Q (({ newBlock { a with blocks := blocks } p (idealBlockSize { a with blocks := blocks } p size) with
          searchStart := (newBlock { a with blocks := blocks } p (idealBlockSize { a with blocks := blocks } p size)).searchStart + n
          largest := (newBlock { a with blocks := blocks } p (idealBlockSize { a with blocks := blocks } p size)).largest - n }).markAllocated
        (newBlock { a with blocks := blocks } p (idealBlockSize { a with blocks := blocks } p size)).padN
        ((newBlock { a with blocks := blocks } p (idealBlockSize { a with blocks := blocks } p size)).padN + n))) :
    ∀ x ∈ (a.alloc req).1.blocks, Q x := by
  unfold Alloc.alloc
  simp only
  split
  · exact hq
  · split
    · exact hq
    · rename_i hs0 hs1
      have hal := alignUp_mod req a.cfg.gran
      generalize alignUp req a.cfg.gran = size at hs0 hs1 hal
      have hsmax : size ≤ 2147483647 := by omega
      have hg := poolGran_pos h.wf (sizeToPoolId a.cfg size)
      have hdvd := sizeToPoolId_dvd a.cfg size hal
      have hsz := (ceil_mul_of_dvd size _ hg hdvd).symm
      have hn : 0 < (size + a.cfg.poolGran (sizeToPoolId a.cfg size) - 1) / a.cfg.poolGran (sizeToPoolId a.cfg size) := by
        apply Nat.pos_of_ne_zero
        intro h0
        rw [h0] at hsz
        omega
      generalize hk : (size + a.cfg.poolGran (sizeToPoolId a.cfg size) - 1) / a.cfg.poolGran (sizeToPoolId a.cfg size) = k at hn hsz
      have pass : ∀ (sel : Block → Bool) (bs : List Block), (∀ b ∈ bs, BInv b (T b.id b.pool) ∧ BCnt b) → (∀ b ∈ bs, Q b) →
          ∀ x ∈ (scanPass sel k bs).1, Q x := by
        intro sel bs hinv hqs
        apply scanPass_forall Q sel _ bs hqs
        · intro b hb b' ht; exact hnone b b' k (hinv b hb).1 (hinv b hb).2 (hqs b hb) ht
        · intro b hb b' idx ht; exact hsome b b' k idx hn (hinv b hb).1 (hinv b hb).2 (hqs b hb) ht
      generalize hs1 : (fun (b : Block) => b.pool == sizeToPoolId a.cfg size && decide ((a.pool (sizeToPoolId a.cfg size)).cursor.getD 0 ≤ b.id)) = sel1
      generalize hs2 : (fun (b : Block) => b.pool == sizeToPoolId a.cfg size && decide (b.id < (a.pool (sizeToPoolId a.cfg size)).cursor.getD 0)) = sel2
      have tp := twoPass_spec sel1 sel2 k hn (T := T) a.blocks h.ids h.blk _ rfl
      have p1 := pass sel1 a.blocks h.blk hq
      have hr2 : ∀ x ∈ (if (scanPass sel1 k a.blocks).2.isSome then scanPass sel1 k a.blocks
          else scanPass sel2 k (scanPass sel1 k a.blocks).1).1, Q x := by
        split
        · exact p1
        · rename_i hnone'
          have s1 := scanPass_spec sel1 k hn T a.blocks h.ids h.blk
          have hn' : (scanPass sel1 k a.blocks).2 = none := by
            cases hh : (scanPass sel1 k a.blocks).2 with
            | none => rfl
            | some v => rw [hh] at hnone'; simp at hnone'
          have s12 := s1.2
          rw [hn'] at s12
          exact pass _ _ s12 p1
      unfold Alloc.allocIn
      simp only [hk, hs1, hs2]
      split
      · intro x hx
        simp only [Alloc.allocFound, setPool_blocks] at hx
        exact hr2 x hx
      · rename_i hr
        rw [hr] at tp
        obtain ⟨hmap, _⟩ := tp
        have hfresh : ∀ x ∈ (if (scanPass sel1 k a.blocks).2.isSome then scanPass sel1 k a.blocks
            else scanPass sel2 k (scanPass sel1 k a.blocks).1).1, x.id < a.nextId := fun x hx => by
          obtain ⟨y, hy, e⟩ := exists_of_map_eq hmap.symm x hx
          simp at e
          have := h.fresh y hy
          omega
        intro x hx
        rw [allocNew_blocks hfresh] at hx
        rcases List.mem_append.mp hx with hx | hx
        · exact hr2 x hx
        · simp only [List.mem_singleton] at hx
          rw [hx]
          have hbs := idealBlockSize_ge { a with blocks := (if (scanPass sel1 k a.blocks).2.isSome then scanPass sel1 k a.blocks
            else scanPass sel2 k (scanPass sel1 k a.blocks).1).1 } (sizeToPoolId a.cfg size) size h.wf.2
          exact hnew _ _ k size hr2 hn hsz (sizeToPoolId_lt _ _) (newBlock_fit a.cfg h.wf _ k size _ hsz hbs) hsmax




theorem memAt_with (b : Block) (m : List Nat) (k : Nat) : memAt { b with mem := m } k = m.getD k 0 := rfl

theorem alloc_cfg (a : Alloc) (req : Nat) : (a.alloc req).1.cfg = a.cfg := by
  unfold Alloc.alloc; simp only
  split
  · rfl
  · split
    · rfl
    · unfold Alloc.allocIn; simp only; split <;> rfl

theorem release_cfg (a : Alloc) (blk off : Nat) : (a.release blk off).1.cfg = a.cfg := by
  unfold Alloc.release
  split
  · rfl
  · simp only; repeat (first | rfl | split)

theorem shrinkImpl_cfg (a : Alloc) (blk off n : Nat) : (a.shrinkImpl blk off n).1.cfg = a.cfg := by
  unfold Alloc.shrinkImpl
  split
  · rfl
  · simp only; repeat (first | rfl | split)

theorem Trans.cfg {s s' : St} {l : TLabel} (t : Trans s l s') : s'.a.cfg = s.a.cfg := by
  cases t with
  | same => rfl
  | allocErr req e h => exact alloc_cfg _ _
  | allocOk req sp h => exact alloc_cfg _ _
  | release j hd h1 h2 h3 => exact release_cfg _ _ _
  | shrinkSome j hd n sz h1 h2 h3 h4 => exact shrinkImpl_cfg _ _ _ _
  | shrinkNone j hd n h1 h2 h3 h4 => exact shrinkImpl_cfg _ _ _ _
  | write j hd byte h1 h2 => rfl
  | reset hard => rfl

theorem Inv.trans {s s' : St} (hI : Inv s) {l : TLabel} (t : Trans s l s') : Inv s' := by
  cases t with
  | same => exact hI
  | allocErr req e h =>
    have := hI.step_alloc req
    simp only [JitAlloc.step] at this
    cases hr : s.a.alloc req with
    | mk a' r =>
      rw [hr] at this h
      cases r with
      | error e' => exact this
      | ok sp => simp at h
  | allocOk req sp h =>
    have := hI.step_alloc req
    simp only [JitAlloc.step] at this
    cases hr : s.a.alloc req with
    | mk a' r =>
      rw [hr] at this h
      cases r with
      | error e' => simp at h
      | ok sp' => simp at h; subst h; exact this
  | release j hd h1 h2 h3 => exact (hI.release_handle h1 h2).2
  | shrinkSome j hd n sz h1 h2 h3 h4 =>
    have := (hI.shrink_handle h1 h2 n (Nat.pos_of_ne_zero h3)).1 (s.a.shrinkImpl hd.blk hd.off n).1 sz (by rw [← h4])
    exact this
  | shrinkNone j hd n h1 h2 h3 h4 =>
    exact (hI.shrink_handle h1 h2 n (Nat.pos_of_ne_zero h3)).2.1 (s.a.shrinkImpl hd.blk hd.off n).1 (by rw [← h4])
  | write j hd byte h1 h2 => exact hI.writeMem _ _ _ _
  | reset hard => exact hI.reset hard

/-- lifting a state predicate that every elementary transition preserves to whole operations and histories -/
theorem lift_step {Q : St → Prop} (hQ : ∀ s s' l, Inv s → Q s → Trans s l s' → Q s') {s : St} (hI : Inv s) (h : Q s) (op : Op) :
    Q (step s op).1 := by
  rcases step_trans hI op with ⟨l, t⟩ | ⟨m, l1, l2, t1, hm, t2⟩
  · exact hQ _ _ _ hI h t
  · exact hQ _ _ _ hm (hQ _ _ _ hI h t1) t2

theorem lift_final {Q : St → Prop} (hQ : ∀ s s' l, Inv s → Q s → Trans s l s' → Q s') {s : St} (hI : Inv s) (h : Q s) (ops : List Op) :
    Q (finalState s ops) := by
  induction ops generalizing s with
  | nil => exact h
  | cons op ops ih => exact ih (hI.step op) (lift_step hQ hI h op)




theorem getD_replicate (n v i : Nat) : (List.replicate n v).getD i 0 = if i < n then v else 0 := by
  simp [List.getD, List.getElem?_replicate]; split <;> simp

theorem memB_fresh (a : Alloc) (blocks : List Block) (p n size : Nat) :
    MemB a.cfg (({ newBlock { a with blocks := blocks } p (idealBlockSize { a with blocks := blocks } p size) with
          searchStart := (newBlock { a with blocks := blocks } p (idealBlockSize { a with blocks := blocks } p size)).searchStart + n
          largest := (newBlock { a with blocks := blocks } p (idealBlockSize { a with blocks := blocks } p size)).largest - n }).markAllocated
        (newBlock { a with blocks := blocks } p (idealBlockSize { a with blocks := blocks } p size)).padN
        ((newBlock { a with blocks := blocks } p (idealBlockSize { a with blocks := blocks } p size)).padN + n)) := by
  constructor
  · simp [JitAlloc.newBlock, Block.clear]
  · intro hf k hk _
    unfold memAt
    simp only [markAllocated_mem, markAllocated_areaSize] at hk ⊢
    simp only [JitAlloc.newBlock, Block.clear] at hk ⊢
    rw [getD_replicate]
    simp [hk, hf]

theorem alloc_amem {a : Alloc} {T} (req : Nat) (h : AInv a T) (hM : AMem a) : AMem (a.alloc req).1 := by
  intro x hx
  rw [alloc_cfg]
  exact alloc_forall (MemB a.cfg) req h hM
    (fun b b' k _ _ hq ht => hq.tryAlloc_none ht)
    (fun b b' k idx _ hI _ hq ht => hq.commit hI.lenU ht)
    (fun blocks p n size _ _ _ _ _ _ => memB_fresh a blocks p n size) x hx

theorem release_amem {a : Alloc} {T} {s0 n0 : Nat} {b : Block} (h : AInv a T) (hM : AMem a) (hb : b ∈ a.blocks)
    (hS : T b.id b.pool s0 n0) : AMem (a.release b.id (s0 * a.cfg.poolGran b.pool)).1 := by
  have hg := poolGran_pos h.wf b.pool
  obtain ⟨hI, hC⟩ := h.blk b hb
  obtain ⟨i1, i2, i3⟩ := hI.inside s0 n0 hS
  have hidx : s0 * a.cfg.poolGran b.pool / a.cfg.poolGran b.pool = s0 := Nat.mul_div_cancel _ hg
  have he : indexOfStop b.stop s0 + 1 = s0 + n0 := by rw [hI.toBCore.indexOfStop hS]; omega
  intro x hx
  rw [release_cfg]
  rcases release_shape2 a b.id _ b (findBlock_of_mem h.ids hb) x hx with hx | rfl
  · exact hM x hx
  · rw [hidx, he]
    have hMb := hM b hb
    constructor
    · show (if a.cfg.fillUnused then setRange b.mem s0 (s0 + n0) (patColour a.cfg) else b.mem).length = _
      split <;> simp [length_setRange, hMb.len]
    · intro hf k hk hc
      simp only [markReleased_areaSize] at hk
      rw [memAt_with]
      simp only [hf, if_true]
      rw [getD_setRange, hMb.len]
      by_cases c : s0 ≤ k ∧ k < s0 + n0 ∧ k < b.areaSize
      · simp [c]
      · simp only [c, if_false]
        apply hMb.fill hf k hk
        simp only [markReleased_used, markReleased_pad, bit_setRange, hI.lenU, c, if_false] at hc
        exact hc

theorem shrink_amem {a : Alloc} {T} {s0 n0 : Nat} {b : Block} (h : AInv a T) (hM : AMem a) (hb : b ∈ a.blocks)
    (hS : T b.id b.pool s0 n0) (newSize : Nat) (hns : 0 < newSize) :
    AMem (a.shrinkImpl b.id (s0 * a.cfg.poolGran b.pool) newSize).1 := by
  have hg := poolGran_pos h.wf b.pool
  obtain ⟨hI, hC⟩ := h.blk b hb
  obtain ⟨i1, i2, i3⟩ := hI.inside s0 n0 hS
  have hidx : s0 * a.cfg.poolGran b.pool / a.cfg.poolGran b.pool = s0 := Nat.mul_div_cancel _ hg
  have he : indexOfStop b.stop s0 + 1 = s0 + n0 := by rw [hI.toBCore.indexOfStop hS]; omega
  have e1 : s0 + n0 - s0 = n0 := by omega
  have hMb := hM b hb
  intro x hx
  rw [shrinkImpl_cfg]
  rcases shrink_shape2 a b.id _ newSize b (findBlock_of_mem h.ids hb) x hx with hx | ⟨b0, hb0, rfl⟩
  · exact hM x hx
  · rw [hidx, he, e1] at hb0 ⊢
    generalize hm : (newSize + a.cfg.poolGran b.pool - 1) / a.cfg.poolGran b.pool = m at hb0 ⊢
    have hlen0 : b0.areaSize = b.areaSize := by
      rcases hb0 with e | ⟨_, _, e⟩
      · rw [e]
      · rw [e]; simp
    constructor
    · show (if _ then setRange b.mem (s0 + m) (s0 + n0) (patColour a.cfg) else b.mem).length = b0.areaSize
      rw [hlen0]; split <;> simp [length_setRange, hMb.len]
    · intro hf k hk hc
      rw [hlen0] at hk
      rw [memAt_with]
      -- a granule that is free afterwards was free before or lies in the filled tail
      rcases hb0 with e | ⟨hd, hgt, e⟩ <;> rw [e] at hc
      · -- nothing was freed
        have hfree := hMb.fill hf k hk hc
        by_cases cc : (decide (newSize < n0 * a.cfg.poolGran b.pool) && a.cfg.fillUnused) = true
        · simp only [cc, if_true]
          rw [getD_setRange]
          split
          · rfl
          · exact hfree
        · simp only [cc]
          exact hfree
      · have hmn : m < n0 := by omega
        have hfillc : (decide (newSize < n0 * a.cfg.poolGran b.pool) && a.cfg.fillUnused) = true := by
          have h1 : newSize ≤ m * a.cfg.poolGran b.pool := by
            have := alignUp_ge newSize (a.cfg.poolGran b.pool) hg
            unfold alignUp at this; rw [hm] at this; exact this
          have h2 : m * a.cfg.poolGran b.pool < n0 * a.cfg.poolGran b.pool := Nat.mul_lt_mul_of_pos_right hmn hg
          simp [hf]; omega
        simp only [hfillc, if_true]
        rw [getD_setRange, hMb.len]
        by_cases c : s0 + m ≤ k ∧ k < s0 + n0 ∧ k < b.areaSize
        · simp [c]
        · simp only [c, if_false]
          apply hMb.fill hf k hk
          simp only [markShrunk_used, markShrunk_pad, bit_setRange, hI.lenU, c, if_false] at hc
          exact hc





theorem reset_amem {a : Alloc} {T} (h : AInv a T) (hM : AMem a) (hard : Bool) : AMem (a.reset hard) := by
  intro x hx
  show MemB a.cfg x
  simp only [Alloc.reset] at hx
  obtain ⟨y, hy, hf⟩ := List.mem_filterMap.mp hx
  by_cases hk : a.keeps hard y = true
  · simp [hk] at hf
    rw [← hf]
    have hMy := hM y hy
    have hIy := (h.blk y hy).1
    unfold wipeOut
    split
    · exact hMy
    · split
      · rename_i hfill
        constructor
        · simp [Block.clear, hMy.len, hIy.lenU]
        · intro _ k hk _
          simp only [Block.clear] at hk
          unfold memAt
          simp only [Block.clear]
          have hkm : k < y.mem.length := by rw [hMy.len]; exact hk
          have hku : k < y.used.length := by rw [hIy.lenU]; exact hk
          have hz : k < (List.zipWith (fun u m => if u = true then patColour a.cfg else m) y.used y.mem).length := by
            simp; omega
          simp only [List.getD, List.getElem?_eq_getElem hz, List.getElem_zipWith, Option.getD_some]
          by_cases hu : y.used[k] = true
          · simp [hu]
          · simp only [hu, Bool.false_eq_true, if_false]
            have := hMy.fill hfill k hk (Or.inl (by rw [bit_eq_getElem y.used k hku]; simpa using hu))
            unfold memAt at this
            simpa [List.getD, List.getElem?_eq_getElem hkm] using this
      · rename_i hfill
        exact ⟨by simp [Block.clear, hMy.len], fun hf' => absurd hf' hfill⟩
  · simp [hk] at hf

theorem write_amem {s : St} (hI : Inv s) (hM : AMem s.a) {j : Nat} {hd : Handle} (hj : s.tab[j]? = some hd) (hl : hd.live = true)
    (byte : Nat) : AMem (s.a.writeMem hd.blk hd.off hd.size byte) := by
  obtain ⟨b, hb, e, st, n, o1, o2⟩ := hI.owned j hd hj hl
  have hg := poolGran_pos hI.wf b.pool
  obtain ⟨hB, _⟩ := hI.blk b hb
  have hS : Spans s.tab b.id (s.a.cfg.poolGran b.pool) st n := ⟨j, hd, hj, hl, e.symm, o1, o2⟩
  obtain ⟨i1, i2, i3⟩ := hB.inside st n hS
  intro x hx
  show MemB s.a.cfg x
  simp only [Alloc.writeMem, Alloc.modifyBlock, List.mem_map] at hx
  obtain ⟨y, hy, rfl⟩ := hx
  split
  · rename_i hid
    have : y = b := block_unique hI hy hb (by rw [hid, e])
    subst this
    have hMy := hM y hb
    have r1 : hd.off / s.a.cfg.poolGran y.pool = st := by rw [o1]; exact Nat.mul_div_cancel _ hg
    have r2 : (hd.off + hd.size) / s.a.cfg.poolGran y.pool = st + n := by
      rw [o1, o2, ← Nat.add_mul]; exact Nat.mul_div_cancel _ hg
    rw [r1, r2]
    constructor
    · show (setRange y.mem st (st + n) byte).length = _
      rw [length_setRange]; exact hMy.len
    · intro hf k hk hc
      rw [memAt_with, getD_setRange]
      by_cases c : st ≤ k ∧ k < st + n ∧ k < y.mem.length
      · exfalso
        have hu := (hB.used k hk).mpr (Or.inr ⟨st, n, hS, c.1, c.2.1⟩)
        rcases hc with hc | ⟨hp, h0⟩
        · have hc' : bit y.used k = false := hc
          rw [hu] at hc'; simp at hc'
        · have hp' : y.pad = true := hp
          have := padN_pos y hp'; omega
      · simp only [c, if_false]
        exact hMy.fill hf k hk hc
  · exact hM y hy

/-- memory well-formedness is preserved by every elementary transition -/
theorem AMem.trans {s s' : St} (hI : Inv s) (hM : AMem s.a) {l : TLabel} (t : Trans s l s') : AMem s'.a := by
  cases t with
  | same => exact hM
  | allocErr req e h => exact alloc_amem req hI.toAInv hM
  | allocOk req sp h => exact alloc_amem req hI.toAInv hM
  | release j hd h1 h2 h3 =>
    obtain ⟨b, hb, e, st, n0, o1, o2⟩ := hI.owned j hd h1 h2
    have hS : TT s b.id b.pool st n0 := ⟨j, hd, h1, h2, e.symm, o1, o2⟩
    have := release_amem hI.toAInv hM hb hS
    rw [e, ← o1] at this; exact this
  | shrinkSome j hd n sz h1 h2 h3 h4 =>
    obtain ⟨b, hb, e, st, n0, o1, o2⟩ := hI.owned j hd h1 h2
    have hS : TT s b.id b.pool st n0 := ⟨j, hd, h1, h2, e.symm, o1, o2⟩
    have := shrink_amem hI.toAInv hM hb hS n (Nat.pos_of_ne_zero h3)
    rw [e, ← o1] at this; exact this
  | shrinkNone j hd n h1 h2 h3 h4 =>
    obtain ⟨b, hb, e, st, n0, o1, o2⟩ := hI.owned j hd h1 h2
    have hS : TT s b.id b.pool st n0 := ⟨j, hd, h1, h2, e.symm, o1, o2⟩
    have := shrink_amem hI.toAInv hM hb hS n (Nat.pos_of_ne_zero h3)
    rw [e, ← o1] at this; exact this
  | write j hd byte h1 h2 => exact write_amem hI hM h1 h2 byte
  | reset hard => exact reset_amem hI.toAInv hM hard




/-- `alloc` does not touch the memory of an existing block -/
theorem alloc_mem_frame {a : Alloc} {T} (req : Nat) (h : AInv a T) {b : Block} (hb : b ∈ a.blocks) :
    ∀ x ∈ (a.alloc req).1.blocks, x.id = b.id → x.mem = b.mem := by
  apply alloc_forall (fun x => x.id = b.id → x.mem = b.mem) req h
  · intro y hy e
    rw [eq_of_id_eq h.ids hy hb e]
  · intro y y' k _ _ hq ht e
    obtain ⟨f1, _⟩ := tryAlloc_fields ht
    rw [tryAlloc_mem ht]; exact hq (by rw [← f1]; exact e)
  · intro y y' k idx _ _ _ hq ht e
    obtain ⟨f1, _⟩ := tryAlloc_fields ht
    rw [commit_mem, tryAlloc_mem ht]; exact hq (by rw [← f1]; simpa using e)
  · intro blocks p n size _ _ _ _ _ _ e
    exfalso
    have := h.fresh b hb
    simp [newBlock, Block.clear] at e
    omega

/-- the granule range of a live handle -/
def inSpan (g : Nat) (hd : Handle) (k : Nat) : Prop := hd.off / g ≤ k ∧ k < (hd.off + hd.size) / g





theorem getElem?_append_old {α} {l : List α} {x y : α} {i : Nat} (h : l[i]? = some y) : (l ++ [x])[i]? = some y := by
  have hi : i < l.length := by
    by_cases c : i < l.length
    · exact c
    · rw [List.getElem?_eq_none (by omega)] at h; simp at h
  rw [List.getElem?_append_left hi]; exact h

/-- **Contents are kept**: across any elementary transition a span that stays live keeps, in every granule it still owns, the colour
it had — unless the transition is the caller's own write over that span (then every granule has the written byte).  Fill ranges of
release / shrink / wipe and writes to other spans never reach into it. -/
theorem contents_frame {s s' : St} (hI : Inv s) (hM : AMem s.a) {l : TLabel} (t : Trans s l s') {i : Nat} {hd hd' : Handle}
    (h : s.tab[i]? = some hd) (hl : hd.live = true) (h' : s'.tab[i]? = some hd') (hl' : hd'.live = true)
    {b : Block} (hb : b ∈ s.a.blocks) (hbid : b.id = hd.blk) :
    hd'.blk = hd.blk ∧ hd'.off = hd.off ∧ hd'.size ≤ hd.size ∧
    ∀ b' ∈ s'.a.blocks, b'.id = hd.blk → b'.pool = b.pool ∧
      ((∀ k, inSpan (s.a.cfg.poolGran b.pool) hd' k → memAt b' k = memAt b k) ∨
       (∃ byte, l = some (i, byte) ∧ ∀ k, inSpan (s.a.cfg.poolGran b.pool) hd' k → memAt b' k = byte)) := by
  have hg := poolGran_pos hI.wf b.pool
  obtain ⟨b0, hb0, e0, st, n, o1, o2⟩ := hI.owned i hd h hl
  have hbb : b0 = b := block_unique hI hb0 hb (by rw [e0, hbid])
  subst hbb
  obtain ⟨hB, _⟩ := hI.blk b0 hb
  have hS : Spans s.tab b0.id (s.a.cfg.poolGran b0.pool) st n := ⟨i, hd, h, hl, e0.symm, o1, o2⟩
  obtain ⟨i1, i2, i3⟩ := hB.inside st n hS
  have r1 : hd.off / s.a.cfg.poolGran b0.pool = st := by rw [o1]; exact Nat.mul_div_cancel _ hg
  have r2 : (hd.off + hd.size) / s.a.cfg.poolGran b0.pool = st + n := by
    rw [o1, o2, ← Nat.add_mul]; exact Nat.mul_div_cancel _ hg
  cases t with
  | same =>
    rw [h] at h'; cases h'
    refine ⟨rfl, rfl, Nat.le_refl _, ?_⟩
    intro b' hb' e
    have := block_unique hI hb' hb (by rw [e, hbid]); subst this
    exact ⟨rfl, Or.inl fun k _ => rfl⟩
  | allocErr req e hh =>
    rw [getElem?_append_old h] at h'; cases h'
    refine ⟨rfl, rfl, Nat.le_refl _, ?_⟩
    intro b' hb' e'
    have ha : (s.a.alloc req).1 = s.a := (alloc_spec req hI.toAInv hI.spans_fresh).1 e hh
    simp only [ha] at hb'
    have := block_unique hI hb' hb (by rw [e', hbid]); subst this
    exact ⟨rfl, Or.inl fun k _ => rfl⟩
  | allocOk req sp hh =>
    rw [getElem?_append_old h] at h'; cases h'
    refine ⟨rfl, rfl, Nat.le_refl _, ?_⟩
    intro b' hb' e'
    have hm := alloc_mem_frame req hI.toAInv hb b' hb' (by rw [e', hbid])
    have post := (alloc_spec req hI.toAInv hI.spans_fresh).2 sp hh
    obtain ⟨_, _, _, _, _, _, _, _, _, hA, _, hpres, _⟩ := post
    obtain ⟨b'', hb'', f1, f2⟩ := hpres b0 hb
    have : b' = b'' := eq_of_id_eq hA.ids hb' hb'' (by rw [e', f1, hbid])
    subst this
    exact ⟨f2, Or.inl fun k _ => by unfold memAt; rw [hm]⟩
  | release j hdj h1 h2 h3 =>
    rw [getElem?_killHandle] at h'
    rw [h] at h'
    simp only [Option.map_some] at h'
    have hij : i ≠ j := by
      intro c; simp [c] at h'; rw [← h'] at hl'; simp at hl'
    simp [hij] at h'; subst h'
    refine ⟨rfl, rfl, Nat.le_refl _, ?_⟩
    intro b' hb' e'
    obtain ⟨bj, hbj, ej, stj, nj, p1, p2⟩ := hI.owned j hdj h1 h2
    have hgj := poolGran_pos hI.wf bj.pool
    have hSj : Spans s.tab bj.id (s.a.cfg.poolGran bj.pool) stj nj := ⟨j, hdj, h1, h2, ej.symm, p1, p2⟩
    obtain ⟨hBj, _⟩ := hI.blk bj hbj
    obtain ⟨k1, k2, k3⟩ := hBj.inside stj nj hSj
    have hidx : hdj.off / s.a.cfg.poolGran bj.pool = stj := by rw [p1]; exact Nat.mul_div_cancel _ hgj
    have he : indexOfStop bj.stop stj + 1 = stj + nj := by rw [hBj.toBCore.indexOfStop hSj]; omega
    have hfb : s.a.findBlock hdj.blk = some bj := by rw [← ej]; exact findBlock_of_mem hI.ids hbj
    rcases release_shape2 s.a hdj.blk hdj.off bj hfb b' hb' with hx | rfl
    · have := block_unique hI hx hb (by rw [e', hbid]); subst this
      exact ⟨rfl, Or.inl fun k _ => rfl⟩
    · -- the released block is the block of span i: the fill range is the other span
      have hsame : bj = b0 := block_unique hI hbj hb (by
        have : (bj.markReleased (hdj.off / s.a.cfg.poolGran bj.pool) (indexOfStop bj.stop (hdj.off / s.a.cfg.poolGran bj.pool) + 1)).id = hd.blk := e'
        simp at this; rw [this, hbid])
      subst hsame
      refine ⟨by simp, Or.inl ?_⟩
      intro k hk
      rw [memAt_with, hidx, he]
      split
      · rw [getD_setRange]
        have hd12 := hB.disj st n stj nj hS hSj
        have hk' : st ≤ k ∧ k < st + n := by unfold inSpan at hk; rw [r1, r2] at hk; exact hk
        have hne : ¬(st = stj ∧ n = nj) := by
          rintro ⟨rfl, rfl⟩
          have := hI.handle_unique h h1 hl h2 (by rw [← e0, ← ej]) (by rw [o1, p1]) (by rw [o2]; exact Nat.mul_pos i2 hg)
            (by rw [p2]; exact Nat.mul_pos i2 hg)
          exact hij this
        have : ¬(stj ≤ k ∧ k < stj + nj ∧ k < bj.mem.length) := by
          rcases hd12 with ⟨a1, a2⟩ | d | d
          · exact absurd ⟨a1, a2⟩ hne
          · omega
          · omega
        simp only [this, if_false]; rfl
      · rfl
  | shrinkSome j hdj nsz sz h1 h2 h3 h4 =>
    obtain ⟨bj, hbj, ej, stj, nj, p1, p2⟩ := hI.owned j hdj h1 h2
    have hgj := poolGran_pos hI.wf bj.pool
    have hSj : Spans s.tab bj.id (s.a.cfg.poolGran bj.pool) stj nj := ⟨j, hdj, h1, h2, ej.symm, p1, p2⟩
    obtain ⟨hBj, _⟩ := hI.blk bj hbj
    obtain ⟨k1, k2, k3⟩ := hBj.inside stj nj hSj
    have hidx : hdj.off / s.a.cfg.poolGran bj.pool = stj := by rw [p1]; exact Nat.mul_div_cancel _ hgj
    have he : indexOfStop bj.stop stj + 1 = stj + nj := by rw [hBj.toBCore.indexOfStop hSj]; omega
    have hfb : s.a.findBlock hdj.blk = some bj := by rw [← ej]; exact findBlock_of_mem hI.ids hbj
    -- the new size is m granules, m < nj
    have spec := shrink_spec hI.toAInv hbj hSj nsz (Nat.pos_of_ne_zero h3) _ _ rfl rfl
    rw [ej, ← p1] at spec
    obtain ⟨hm, c1, c2, c3⟩ := spec
    generalize hmm : (nsz + s.a.cfg.poolGran bj.pool - 1) / s.a.cfg.poolGran bj.pool = m at hm c1 c2 c3
    have hlt : m < nj ∧ sz = m * s.a.cfg.poolGran bj.pool := by
      rcases Nat.lt_trichotomy nj m with c | c | c
      · have := c1 c; rw [this] at h4; simp at h4
      · have := (c2 c.symm).1; rw [this] at h4; simp at h4
      · have := (c3 c).1; rw [this] at h4; simp at h4; exact ⟨c, h4.symm⟩
    rw [getElem?_setHandleSize, h] at h'
    simp only [Option.map_some] at h'
    have hfacts : hd'.blk = hd.blk ∧ hd'.off = hd.off ∧ hd'.size ≤ hd.size ∧ (i = j → hd'.size = sz) ∧ (i ≠ j → hd' = hd) := by
      by_cases c : i = j
      · subst c
        rw [h] at h1; cases h1
        simp at h'; subst h'
        refine ⟨rfl, rfl, ?_, fun _ => rfl, fun hne => absurd rfl hne⟩
        have hbe : bj = b0 := block_unique hI hbj hb (by rw [ej, hbid])
        subst hbe
        have : nj = n := Nat.eq_of_mul_eq_mul_right hg (by rw [← p2, ← o2])
        show sz ≤ hd.size
        rw [hlt.2, o2, ← this]; exact Nat.mul_le_mul_right _ (Nat.le_of_lt hlt.1)
      · simp [c] at h'; subst h'
        exact ⟨rfl, rfl, Nat.le_refl _, fun hh => absurd hh c, fun _ => rfl⟩
    obtain ⟨f1, f2, f3, f4, f5⟩ := hfacts
    refine ⟨f1, f2, f3, ?_⟩
    intro b' hb' e'
    rcases shrink_shape2 s.a hdj.blk hdj.off nsz bj hfb b' hb' with hx | ⟨bq, hbq, rfl⟩
    · have := block_unique hI hx hb (by rw [e', hbid]); subst this
      exact ⟨rfl, Or.inl fun k _ => rfl⟩
    · have hbqid : bq.id = bj.id ∧ bq.pool = bj.pool := by
        rcases hbq with e | ⟨_, _, e⟩ <;> rw [e] <;> simp
      have hsame : bj = b0 := block_unique hI hbj hb (by
        have : bq.id = hd.blk := e'
        rw [← hbqid.1, this, hbid])
      subst hsame
      refine ⟨hbqid.2, Or.inl ?_⟩
      intro k hk
      rw [memAt_with, hidx, he, hmm]
      split
      · rw [getD_setRange]
        have : ¬(stj + m ≤ k ∧ k < stj + nj ∧ k < bj.mem.length) := by
          unfold inSpan at hk
          rw [f2] at hk
          by_cases c : i = j
          · -- the handle's own tail
            subst c
            rw [h] at h1; cases h1
            have e1 : st = stj := Nat.eq_of_mul_eq_mul_right hg (by rw [← o1, ← p1])
            rw [f4 rfl, hlt.2, p1, ← Nat.add_mul, Nat.mul_div_cancel _ hg, Nat.mul_div_cancel _ hg] at hk
            omega
          · rw [f5 c, r1, r2] at hk
            have hne : ¬(st = stj ∧ n = nj) := by
              rintro ⟨rfl, rfl⟩
              have := hI.handle_unique h h1 hl h2 (by rw [← e0, ← ej]) (by rw [o1, p1]) (by rw [o2]; exact Nat.mul_pos i2 hg)
                (by rw [p2]; exact Nat.mul_pos i2 hg)
              exact c this
            rcases hB.disj st n stj nj hS hSj with ⟨a1, a2⟩ | d | d
            · exact absurd ⟨a1, a2⟩ hne
            · omega
            · omega
        simp only [this, if_false]; rfl
      · rfl
  | shrinkNone j hdj nsz h1 h2 h3 h4 =>
    rw [h] at h'; cases h'
    refine ⟨rfl, rfl, Nat.le_refl _, ?_⟩
    obtain ⟨bj, hbj, ej, stj, nj, p1, p2⟩ := hI.owned j hdj h1 h2
    have hgj := poolGran_pos hI.wf bj.pool
    have hSj : Spans s.tab bj.id (s.a.cfg.poolGran bj.pool) stj nj := ⟨j, hdj, h1, h2, ej.symm, p1, p2⟩
    obtain ⟨hBj, _⟩ := hI.blk bj hbj
    obtain ⟨k1, k2, k3⟩ := hBj.inside stj nj hSj
    have hidx : hdj.off / s.a.cfg.poolGran bj.pool = stj := by rw [p1]; exact Nat.mul_div_cancel _ hgj
    have he : indexOfStop bj.stop stj + 1 = stj + nj := by rw [hBj.toBCore.indexOfStop hSj]; omega
    have hfb : s.a.findBlock hdj.blk = some bj := by rw [← ej]; exact findBlock_of_mem hI.ids hbj
    have spec := shrink_spec hI.toAInv hbj hSj nsz (Nat.pos_of_ne_zero h3) _ _ rfl rfl
    rw [ej, ← p1] at spec
    obtain ⟨hm, c1, c2, c3⟩ := spec
    generalize hmm : (nsz + s.a.cfg.poolGran bj.pool - 1) / s.a.cfg.poolGran bj.pool = m at hm c1 c2 c3
    have heq : m = nj := by
      rcases Nat.lt_trichotomy nj m with c | c | c
      · have := c1 c; rw [this] at h4; simp at h4
      · exact c.symm
      · have := (c3 c).1; rw [this] at h4; simp at h4
    intro b' hb' e'
    rcases shrink_shape2 s.a hdj.blk hdj.off nsz bj hfb b' hb' with hx | ⟨bq, hbq, rfl⟩
    · have := block_unique hI hx hb (by rw [e', hbid]); subst this
      exact ⟨rfl, Or.inl fun k _ => rfl⟩
    · have hbqid : bq.id = bj.id ∧ bq.pool = bj.pool := by
        rcases hbq with e | ⟨_, _, e⟩ <;> rw [e] <;> simp
      have hsame : bj = b0 := block_unique hI hbj hb (by
        have : bq.id = hd.blk := e'
        rw [← hbqid.1, this, hbid])
      subst hsame
      refine ⟨hbqid.2, Or.inl ?_⟩
      intro k _
      rw [memAt_with, hidx, he, hmm, heq]
      split
      · rw [getD_setRange]
        have : ¬(stj + nj ≤ k ∧ k < stj + nj ∧ k < bj.mem.length) := by omega
        simp only [this, if_false]; rfl
      · rfl
  | write j hdj byte h1 h2 =>
    rw [h] at h'; cases h'
    refine ⟨rfl, rfl, Nat.le_refl _, ?_⟩
    obtain ⟨bj, hbj, ej, stj, nj, p1, p2⟩ := hI.owned j hdj h1 h2
    have hgj := poolGran_pos hI.wf bj.pool
    have hSj : Spans s.tab bj.id (s.a.cfg.poolGran bj.pool) stj nj := ⟨j, hdj, h1, h2, ej.symm, p1, p2⟩
    intro b' hb' e'
    simp only [Alloc.writeMem, Alloc.modifyBlock, List.mem_map] at hb'
    obtain ⟨y, hy, rfl⟩ := hb'
    have hyh : y.id = hd.blk := by split at e' <;> exact e'
    by_cases hyid : y.id = hdj.blk
    · rw [if_pos hyid]
      have hyb : y = b0 := block_unique hI hy hb (by rw [hyh, hbid])
      subst hyb
      have hjb : bj = y := block_unique hI hbj hy (by rw [ej, hyid])
      subst hjb
      refine ⟨rfl, ?_⟩
      have q1 : hdj.off / s.a.cfg.poolGran bj.pool = stj := by rw [p1]; exact Nat.mul_div_cancel _ hgj
      have q2 : (hdj.off + hdj.size) / s.a.cfg.poolGran bj.pool = stj + nj := by
        rw [p1, p2, ← Nat.add_mul]; exact Nat.mul_div_cancel _ hgj
      have hlen := (hM bj hb).len
      by_cases c : i = j
      · -- the caller's own write
        subst c
        rw [h] at h1; cases h1
        right
        refine ⟨byte, rfl, ?_⟩
        intro k hk
        unfold inSpan at hk
        rw [r1, r2] at hk
        rw [memAt_with, q1, q2, getD_setRange]
        have e1 : st = stj := Nat.eq_of_mul_eq_mul_right hg (by rw [← o1, ← p1])
        have e2 : n = nj := Nat.eq_of_mul_eq_mul_right hg (by rw [← o2, ← p2])
        have : stj ≤ k ∧ k < stj + nj ∧ k < bj.mem.length := by rw [hlen]; omega
        simp only [this, and_self, if_true]
      · left
        intro k hk
        unfold inSpan at hk
        rw [r1, r2] at hk
        rw [memAt_with, q1, q2, getD_setRange]
        have hne : ¬(st = stj ∧ n = nj) := by
          rintro ⟨rfl, rfl⟩
          have := hI.handle_unique h h1 hl h2 (by rw [← e0, ← ej]) (by rw [o1, p1]) (by rw [o2]; exact Nat.mul_pos i2 hg)
            (by rw [p2]; exact Nat.mul_pos i2 hg)
          exact c this
        have : ¬(stj ≤ k ∧ k < stj + nj ∧ k < bj.mem.length) := by
          rcases hB.disj st n stj nj hS hSj with ⟨a1, a2⟩ | d | d
          · exact absurd ⟨a1, a2⟩ hne
          · omega
          · omega
        simp only [this, if_false]; rfl
    · rw [if_neg hyid]
      have hyb : y = b0 := block_unique hI hy hb (by rw [hyh, hbid])
      subst hyb
      exact ⟨rfl, Or.inl fun k _ => rfl⟩
  | reset hard =>
    exfalso
    simp only [List.getElem?_map] at h'
    rw [h] at h'
    simp at h'
    rw [← h'] at hl'; simp at hl'



end AsmjitVerif.JitAlloc
