/- C20 helper lemmas: assembling the whole x86 instruction line — head words, mnemonic, operand list, rounding group. -/
import AsmjitVerif.Lemmas.FormatOpKinds
import AsmjitVerif.Lemmas.FormatMn9

namespace AsmjitVerif.Lemmas.FormatLineFull
open AsmjitVerif.Format AsmjitVerif.FormatText AsmjitVerif.Lemmas.FormatLex AsmjitVerif.Lemmas.FormatNum
open AsmjitVerif.Lemmas.FormatX86Mem AsmjitVerif.Lemmas.FormatLine AsmjitVerif.Lemmas.FormatChunk
open AsmjitVerif.Lemmas.FormatLineParts AsmjitVerif.Lemmas.FormatOpsR AsmjitVerif.Lemmas.FormatOpKinds AsmjitVerif.Lemmas.FormatMn
open AsmjitVerif.Gen.FormatTabs

/-! ### `{k}{z}` and broadcast of the model as the abstract kinds -/

def maskText (flags : Nat) (env : Env) (extra : ExtraReg) : Str := x86FormatRegister flags env extra.type extra.id

def kzOf (flags : Nat) (env : Env) (options : Nat) (extra : ExtraReg) (k : Nat) : KZ :=
  if k = 0 then
    if extra.group = rgMask then (if hasBit options ioZMask then .kz (maskText flags env extra) else .k (maskText flags env extra))
    else if hasBit options ioZMask then .z else .none
  else .none

def bcOf : Operand → Nat
  | .x86mem m => m.bcast
  | _ => 0

theorem kz_text (flags : Nat) (env : Env) (options : Nat) (extra : ExtraReg) (k : Nat) :
    x86KZText flags env options extra k = kzText (kzOf flags env options extra k) := by
  unfold x86KZText kzOf maskText
  by_cases hk : k = 0 <;> by_cases hg : extra.group = rgMask <;> by_cases hz : hasBit options ioZMask = true <;>
    simp [hk, hg, hz, kzText]

theorem bc_text (op : Operand) : x86BcastText op = bcText (bcOf op) := by
  cases op with
  | x86mem m => by_cases h : m.bcast = 0 <;> simp [x86BcastText, bcText, bcOf, h]
  | _ => simp [x86BcastText, bcText, bcOf]

theorem chunk_text (flags : Nat) (env : Env) (options : Nat) (extra : ExtraReg) (k : Nat) (o : Operand) :
    x86ChunkText flags env options extra k o =
      x86FormatOperand flags env o ++ (kzText (kzOf flags env options extra k) ++ bcText (bcOf o)) := by
  unfold x86ChunkText
  rw [kz_text, bc_text, List.append_assoc]

def exOf (flags : Nat) (env : Env) (options : Nat) (extra : ExtraReg) (rk : PReg) (k : Nat) (o : Operand) : POperand :=
  { op := rdOp flags env o, kmask := kzMask (kzOf flags env options extra k) (some rk),
    zeroing := kzZero (kzOf flags env options extra k), bcast := if bcOf o = 0 then 0 else 1 <<< bcOf o }

theorem kzText_nocomma (kz : KZ) (hK : ∀ K, (kz = .k K ∨ kz = .kz K) → NameLike K) : ',' ∉ kzText kz := by
  cases kz with
  | none => simp [kzText]
  | z => decide
  | k K =>
    have := like_notsep (hK K (Or.inl rfl)) ',' (Or.inl rfl)
    simp [kzText, this]
  | kz K =>
    have := like_notsep (hK K (Or.inr rfl)) ',' (Or.inl rfl)
    simp [kzText, this]

theorem bcText_nocomma (b : Nat) : ',' ∉ bcText b := by
  unfold bcText
  split
  · have := uint_notsep (1 <<< b) 10 (Or.inl rfl) ',' (Or.inl rfl)
    simp [this]
  · simp

/-- the four facts the operand-list walk needs about one chunk -/
theorem chunk_hyp (flags : Nat) (env : Env) (options : Nat) (extra : ExtraReg) (rk : PReg) (k : Nat) (o : Operand)
    (hop : OpOK flags env o) (hbc : bcOf o = 0 ∨ bcOf o ∈ [1, 2, 3, 4, 5, 6])
    (hmask : extra.group = rgMask → MaskOK env (maskText flags env extra) rk) :
    readChunk env (x86ChunkText flags env options extra k o) = some (exOf flags env options extra rk k o) ∧
    (x86ChunkText flags env options extra k o).head? ≠ some '{' ∧
    x86ChunkText flags env options extra k o ≠ [] ∧
    ∀ c ∈ x86ChunkText flags env options extra k o, c ≠ ',' := by
  have hkz : ∀ K, (kzOf flags env options extra k = .k K ∨ kzOf flags env options extra k = .kz K) → MaskOK env K rk := by
    intro K h
    unfold kzOf at h
    by_cases hk : k = 0 <;> by_cases hg : extra.group = rgMask <;> by_cases hz : hasBit options ioZMask = true <;>
      simp [hk, hg, hz] at h
    all_goals (subst h; exact hmask hg)
  have hT := hop.eq.1
  have hclean : ∀ c ∈ x86FormatOperand flags env o, c ≠ '{' := fun c hc => (hop.clean c hc).2
  rw [chunk_text]
  refine ⟨chunk_read env _ _ hT hclean _ rk _ hbc hkz, ?_, ?_, ?_⟩
  · cases hx : x86FormatOperand flags env o with
    | nil => exact absurd hx hop.ne
    | cons c r =>
      have := hclean c (by rw [hx]; exact List.mem_cons_self ..)
      simpa using this
  · have := hop.ne
    simp [this]
  · intro c hc e
    subst e
    rcases List.mem_append.mp hc with h | h
    · exact (hop.clean ',' h).1 rfl
    · rcases List.mem_append.mp h with h | h
      · exact kzText_nocomma _ (fun K hK => (hkz K hK).like) h
      · exact bcText_nocomma _ h

/-! ### the rounding group -/

theorem hasBit_or (o a b : Nat) : hasBit o (a ||| b) = (hasBit o a || hasBit o b) := by
  unfold hasBit
  have e : o &&& (a ||| b) = (o &&& a) ||| (o &&& b) := Nat.and_or_distrib_left ..
  rw [e]
  generalize o &&& a = x
  generalize o &&& b = y
  by_cases h1 : x = 0 <;> by_cases h2 : y = 0
  · subst h1; subst h2; simp
  · subst h1; simp [h2]
  · subst h2; simp [h1]
  · have : x ||| y ≠ 0 := fun h => h1 (Nat.or_eq_zero_iff.mp h).1
    have e1 : (x ||| y != 0) = true := by simpa using this
    have e2 : (x != 0) = true := by simpa using h1
    rw [e1, e2]; rfl

def roundText (options : Nat) : Str :=
  if hasBit options (ioER ||| ioSAE) then
    if hasBit options ioER then ", {".toList ++ x86RoundingMode ((options &&& ioERMask) >>> 21) ++ "-sae}".toList
    else ", {sae}".toList
  else []

theorem mode_facts : ∀ bits ∈ [0, 1, 2, 3],
    ", {".toList ++ x86RoundingMode bits ++ "-sae}".toList =
      flattenPieces (roundPieces (some (["rn-sae", "rd-sae", "ru-sae", "rz-sae"].getD bits "?"))) ∧
    ["rn-sae", "rd-sae", "ru-sae", "rz-sae"].getD bits "?" ∈ roundingWords := by decide

theorem round_text (options : Nat) :
    roundText options = flattenPieces (roundPieces (expectedRounding options)) ∧
    (∀ w, expectedRounding options = some w → w ∈ roundingWords) := by
  have hbits : (options &&& ioERMask) >>> 21 ∈ [0, 1, 2, 3] := by
    have h1 : options &&& ioERMask ≤ ioERMask := Nat.and_le_right
    have h2 : (options &&& ioERMask) >>> 21 ≤ ioERMask >>> 21 := by
      rw [Nat.shiftRight_eq_div_pow, Nat.shiftRight_eq_div_pow]; exact Nat.div_le_div_right h1
    have h3 : ioERMask >>> 21 = 3 := by decide
    have : (options &&& ioERMask) >>> 21 ≤ 3 := by omega
    generalize (options &&& ioERMask) >>> 21 = b at this
    simp; omega
  obtain ⟨hm1, hm2⟩ := mode_facts _ hbits
  unfold roundText expectedRounding
  rw [hasBit_or]
  by_cases he : hasBit options ioER = true
  · simp only [he, Bool.true_or, if_true]
    exact ⟨hm1, fun w hw => by simp at hw; rw [← hw]; exact hm2⟩
  · have he' : hasBit options ioER = false := by simpa using he
    by_cases hs : hasBit options ioSAE = true
    · simp only [he', hs, Bool.false_or, if_true, Bool.false_eq_true, if_false]
      exact ⟨by decide, fun w hw => by simp at hw; rw [← hw]; decide⟩
    · have hs' : hasBit options ioSAE = false := by simpa using hs
      simp [he', hs', roundPieces, flattenPieces]

theorem format_eq (flags : Nat) (env : Env) (instId options : Nat) (extra : ExtraReg) (ops : List Operand) :
    x86FormatInstruction flags env instId options extra ops =
      x86FormatHead flags env instId options extra ++ (x86FormatOps flags env options extra 0 ops ++ roundText options) := by
  unfold x86FormatInstruction roundText
  simp

/-! ### the whole line -/

/-- well-formed x86 instruction line -/
structure WFLine (flags : Nat) (env : Env) (instId options : Nat) (extra : ExtraReg) (ops : List Operand) (rk : PReg) (rr : PReg) : Prop where
  idpos : 0 < instId
  idlt : instId < x86InstCount
  nonone : ∀ o ∈ ops, o ≠ Operand.none
  opok : ∀ o ∈ ops, OpOK flags env o
  bcast : ∀ o ∈ ops, bcOf o = 0 ∨ bcOf o ∈ [1, 2, 3, 4, 5, 6]
  mask : extra.group = rgMask → MaskOK env (maskText flags env extra) rk
  rep : extra.isReg = true → (∀ c ∈ repWord flags env extra, notSpace c = true) ∧ isFixed (repWord flags env extra) = false ∧
          readBracedReg env (repWord flags env extra) = some rr
  noround : ops = [] → expectedRounding options = none

theorem instName_ne (flags id : Nat) (h0 : 0 < id) (hid : id < x86InstCount) : x86InstName flags id ≠ [] := by
  unfold x86InstCount at hid
  have hsz := alias_size
  have hlt : id < x86AliasNames.size := by omega
  have m1 : x86InstNames[id]'hid ∈ x86InstNames.toList.drop 1 := by
    have : (x86InstNames.toList.drop 1)[id - 1]'(by simp; omega) = x86InstNames[id]'hid := by
      simp [List.getElem_drop]; congr 1; omega
    rw [← this]; exact List.getElem_mem _
  have m2 : x86AliasNames[id]'hlt ∈ x86AliasNames.toList.drop 1 := by
    have : (x86AliasNames.toList.drop 1)[id - 1]'(by simp; omega) = x86AliasNames[id]'hlt := by
      simp [List.getElem_drop]; congr 1; omega
    rw [← this]; exact List.getElem_mem _
  have k1 := names_nonempty.1 _ m1
  have k2 := names_nonempty.2 _ m2
  unfold x86InstName
  split
  · simpa [Array.getD, hlt] using k2
  · simpa [Array.getD, hid] using k1

def exList (flags : Nat) (env : Env) (options : Nat) (extra : ExtraReg) (rk : PReg) : List Operand → List POperand
  | [] => []
  | op :: rest => exOf flags env options extra rk 0 op ::
      (tailCPs (x86ChunkText flags env options extra) (exOf flags env options extra rk) 1 rest).map Prod.snd

theorem x86_line_read (flags : Nat) (env : Env) (instId options : Nat) (extra : ExtraReg) (ops : List Operand) (rk rr : PReg)
    (wf : WFLine flags env instId options extra ops rk rr) :
    parseX86Inst env (x86FormatInstruction flags env instId options extra ops) =
      some { prefixes := expectedPrefixes options,
             repReg := if hasBit options (ioRep ||| ioRepne) = true ∧ extra.isReg = true then some rr else none,
             mnemonic := (parseMnemonic (x86InstName flags instId)).1, aliases := (parseMnemonic (x86InstName flags instId)).2,
             ops := exList flags env options extra rk ops, rounding := expectedRounding options } := by
  rw [format_eq]
  obtain ⟨hrt, hrw⟩ := round_text options
  obtain ⟨hn1, hn2⟩ := instName_ok flags instId wf.idlt
  have hnne := instName_ne flags instId wf.idpos wf.idlt
  have hrepS : extra.isReg = true → ∀ c ∈ repWord flags env extra, notSpace c = true := fun h => (wf.rep h).1
  have hrepF : extra.isReg = true → isFixed (repWord flags env extra) = false := fun h => (wf.rep h).2.1
  obtain ⟨hf1, hf2⟩ := filter_words flags env options extra hrepF
  -- the operand part
  have hops : (ops = [] ∧ x86FormatOps flags env options extra 0 ops ++ roundText options = []) ∨
      (∃ op rest body, ops = op :: rest ∧ x86FormatOps flags env options extra 0 ops ++ roundText options = ' ' :: body ∧
        ((lexPieces (fun c => c == ',') body.length body).mapM chunkOfPiece).bind (readChunks env) =
          some (exList flags env options extra rk ops, expectedRounding options)) := by
    cases hops : ops with
    | nil =>
      left
      have := wf.noround hops
      simp [x86FormatOps, hrt, this, roundPieces, flattenPieces]
    | cons op rest =>
      right
      have hne : ∀ o ∈ op :: rest, o ≠ Operand.none := fun o ho => wf.nonone o (by rw [hops]; exact ho)
      have hch : ∀ k, ∀ o ∈ op :: rest, _ := fun k o ho =>
        chunk_hyp flags env options extra rk k o (wf.opok o (by rw [hops]; exact ho)) (wf.bcast o (by rw [hops]; exact ho)) wf.mask
      obtain ⟨body, hb1, hb2⟩ := ops_read_round flags env options extra op rest (exOf flags env options extra rk)
        (expectedRounding options) hrw hne hch
      exact ⟨op, rest, body, rfl, by rw [hrt]; exact hb1, hb2⟩
  have hrest : (x86FormatOps flags env options extra 0 ops ++ roundText options = []) ∨
      ∃ r, x86FormatOps flags env options extra 0 ops ++ roundText options = ' ' :: r := by
    rcases hops with ⟨_, h⟩ | ⟨_, _, body, _, h, _⟩
    · exact Or.inl h
    · exact Or.inr ⟨body, h⟩
  have hhw := head_read flags env instId options extra _ wf.idlt hrepS hrest
  unfold parseX86Inst
  simp only [hhw]
  have e1 : (fun w => x86PrefixWordsL.contains w) = isFixed := rfl
  have e2 : (fun w => !x86PrefixWordsL.contains w) = (fun x => !isFixed x) := rfl
  rw [e1, e2, hf1, hf2]
  generalize x86FormatOps flags env options extra 0 ops ++ roundText options = R at hops hrest
  have hstop : StopsAt notSpace R := by
    rcases hrest with h | ⟨r, h⟩
    · exact Or.inl h
    · exact Or.inr ⟨' ', r, h, by decide⟩
  have htd := takeWhile_append_stop notSpace (x86InstName flags instId) R hn2 hstop
  rw [htd.1, htd.2]
  have hemp : (x86InstName flags instId).isEmpty = false := by
    cases h : x86InstName flags instId with
    | nil => exact absurd h hnne
    | cons c r => rfl
  simp only [hemp, Bool.false_eq_true, if_false]
  -- the rep register, then the operand part
  by_cases hc : (hasBit options (ioRep ||| ioRepne) = true ∧ extra.isReg = true)
  · simp only [hc, and_self, if_true, (wf.rep hc.2).2.2, Option.map_some, Option.bind_some]
    rcases hops with ⟨h0, hR⟩ | ⟨op, rest, body, hopsEq, hR, hread⟩
    · subst hR
      simp [h0, exList, wf.noround h0]
    · subst hR
      obtain ⟨chunks, hm, hrc⟩ := Option.bind_eq_some_iff.mp hread
      simp [hm, hrc]
  · simp only [hc, if_false, Option.bind_some]
    rcases hops with ⟨h0, hR⟩ | ⟨op, rest, body, hopsEq, hR, hread⟩
    · subst hR
      simp [h0, exList, wf.noround h0]
    · subst hR
      obtain ⟨chunks, hm, hrc⟩ := Option.bind_eq_some_iff.mp hread
      simp [hm, hrc]

end AsmjitVerif.Lemmas.FormatLineFull
