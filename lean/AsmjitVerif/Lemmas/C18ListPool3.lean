/-
ArenaList sequence theorem `list_refines_list`: every valid sequence of list-client operations (fresh node per
insertion, members addressed by value) keeps the representation predicate `ListPool2.IsList` and the list of values
equals the textbook `runList`; forward and backward walks read it and its reverse.
-/
import AsmjitVerif.Lemmas.C18ListPool2
namespace AsmjitVerif.ListPool2
open AsmjitVerif.ListPool AsmjitVerif.Spec.C18HashList
set_option linter.unusedSimpArgs false

/-! ### the runner -/

/-- walk from `n` along `next` to the first node carrying value `v` (0 = not found) -/
def findVal : Nat → Heap → Nat → Nat → Nat
  | 0, _, _, _ => 0
  | f + 1, h, n, v => if n = 0 then 0 else if (nd h n).val = v then n else findVal f h (link h n true) v

def stepList (st : Heap × DList) : LOp → Heap × DList
  | .append v => addNode (newNode st.1 v).1 st.2 (newNode st.1 v).2 true
  | .prepend v => addNode (newNode st.1 v).1 st.2 (newNode st.1 v).2 false
  | .insertAfter ref v =>
    if findVal st.1.size st.1 st.2.first ref = 0 then st
    else insertNode (newNode st.1 v).1 st.2 (findVal st.1.size st.1 st.2.first ref) (newNode st.1 v).2 true
  | .insertBefore ref v =>
    if findVal st.1.size st.1 st.2.first ref = 0 then st
    else insertNode (newNode st.1 v).1 st.2 (findVal st.1.size st.1 st.2.first ref) (newNode st.1 v).2 false
  | .unlink v =>
    if findVal st.1.size st.1 st.2.first v = 0 then st
    else unlink st.1 st.2 (findVal st.1.size st.1 st.2.first v)
  | .popFirst => if st.2.first = 0 then st else ((popFirst st.1 st.2).1, (popFirst st.1 st.2).2.1)
  | .pop => if st.2.last = 0 then st else ((pop st.1 st.2).1, (pop st.1 st.2).2.1)

def runModel (st : Heap × DList) (ops : List LOp) : Heap × DList := ops.foldl stepList st

/-! ### sizes and values are preserved by every operation -/

theorem val_upd (h : Heap) (c : Nat) (f : LNode → LNode) (hf : ∀ x, (f x).val = x.val) (m : Nat) :
    (nd (upd h c f) m).val = (nd h m).val := by
  rw [nd_upd]; split
  · exact hf _
  · rfl

theorem size_addNode (h : Heap) (l : DList) (n : Nat) (d : Bool) : (addNode h l n d).1.size = h.size := by
  unfold addNode; simp only []; split <;> simp [size_setLink]

theorem size_insertNode (h : Heap) (l : DList) (r n : Nat) (d : Bool) : (insertNode h l r n d).1.size = h.size := by
  by_cases hc : link h r d = 0 <;> simp [insertNode, hc, size_setLink]

theorem val_insertNode (h : Heap) (l : DList) (r n : Nat) (d : Bool) (m : Nat) :
    (nd (insertNode h l r n d).1 m).val = (nd h m).val := by
  by_cases hc : link h r d = 0 <;> simp [insertNode, hc, val_setLink]

theorem size_unlink (h : Heap) (l : DList) (n : Nat) : (unlink h l n).1.size = h.size := by
  by_cases h1 : (nd h n).prev = 0 <;> by_cases h2 : (nd h n).next = 0 <;>
    simp [unlink, h1, h2, size_setLink, size_upd]

theorem val_unlink (h : Heap) (l : DList) (n : Nat) (m : Nat) : (nd (unlink h l n).1 m).val = (nd h m).val := by
  by_cases h1 : (nd h n).prev = 0 <;> by_cases h2 : (nd h n).next = 0 <;>
    simp only [unlink, h1, h2, ne_eq, not_true_eq_false, not_false_eq_true, if_true, if_false] <;>
    (rw [nd_upd]; split <;> simp [val_setLink])

theorem size_popFirst (h : Heap) (l : DList) : (popFirst h l).1.size = h.size := by
  unfold popFirst; simp only []; split <;> simp [size_setLink]

theorem size_pop (h : Heap) (l : DList) : (pop h l).1.size = h.size := by
  unfold pop; simp only []; split <;> simp [size_setLink]

theorem val_pop (h : Heap) (l : DList) (m : Nat) : (nd (pop h l).1 m).val = (nd h m).val := by
  unfold pop; simp only []; split <;> simp [val_setLink]

/-! ### fresh nodes -/

theorem lk_push (h : Heap) (a : LNode) (l : DList) (d : Bool) (m : Nat) (hm : m = 0 ∨ m < h.size) :
    lk (h.push a) l d m = lk h l d m := by
  unfold lk link
  rcases hm with e | e
  · simp [e]
  · rw [nd_push _ _ _ e]

theorem isList_push {h l xs} (hl : IsList h l xs) (a : LNode) : IsList (h.push a) l xs :=
  ⟨hl.nodup, fun x hx => ⟨(hl.mem x hx).1, by rw [Array.size_push]; exact Nat.lt_succ_of_lt (hl.mem x hx).2⟩,
    LL_congr _ _ _ _ 0 0 xs
      (fun m hm => lk_push h a l true m (by rcases hm with e | e; exact Or.inl e; exact Or.inr (hl.mem m e).2))
      (fun m hm => lk_push h a l false m (by rcases hm with e | e; exact Or.inr (hl.mem m e).2; exact Or.inl e))
      hl.ll⟩

structure Fresh (h : Heap) (l : DList) (xs : List Nat) (v : Nat) : Prop where
  isl : IsList (h.push { val := v }) l xs
  n0 : h.size ≠ 0
  lt : h.size < (h.push { val := v }).size
  notin : h.size ∉ xs
  prev : (nd (h.push { val := v }) h.size).prev = 0
  next : (nd (h.push { val := v }) h.size).next = 0
  val : (nd (h.push { val := v }) h.size).val = v
  vals : ∀ x ∈ xs, (nd (h.push { val := v }) x).val = (nd h x).val

theorem fresh {h l xs} (hl : IsList h l xs) (hlen : xs.length + 1 ≤ h.size) (v : Nat) : Fresh h l xs v where
  isl := isList_push hl _
  n0 := by omega
  lt := by rw [Array.size_push]; omega
  notin := fun e => Nat.lt_irrefl _ (hl.mem _ e).2
  prev := by rw [nd_push_self]
  next := by rw [nd_push_self]
  val := by rw [nd_push_self]
  vals := fun x hx => by rw [nd_push _ _ _ (hl.mem x hx).2]

/-! ### lookup by value -/

theorem findVal_spec (h : Heap) (l : DList) (P : Nat → Nat) (xs : List Nat) (p fuel v : Nat)
    (hnz : ∀ x ∈ xs, x ≠ 0) (hll : LL (lk h l true) P p xs 0) (hfuel : xs.length ≤ fuel) :
    (findVal fuel h (xs.headD 0) v = 0 ∧ v ∉ xs.map (fun x => (nd h x).val)) ∨
    (∃ L R, xs = L ++ findVal fuel h (xs.headD 0) v :: R ∧ (nd h (findVal fuel h (xs.headD 0) v)).val = v ∧
      v ∉ L.map (fun x => (nd h x).val)) := by
  induction xs generalizing p fuel with
  | nil => left; cases fuel <;> simp [findVal]
  | cons x xs ih =>
    obtain ⟨_, _, h3⟩ := hll
    have hx0 : x ≠ 0 := hnz x List.mem_cons_self
    cases fuel with
    | zero => simp at hfuel
    | succ fuel =>
      have hnext := LL_head _ _ _ _ _ h3
      simp only [lk, hx0, if_false] at hnext
      by_cases hv : (nd h x).val = v
      · right
        refine ⟨[], xs, ?_, ?_, by simp⟩ <;> simp [findVal, hx0, hv]
      · have := ih x fuel (fun y hy => hnz y (List.mem_cons_of_mem _ hy)) h3 (by simpa using hfuel)
        have he : findVal (fuel + 1) h ((x :: xs).headD 0) v = findVal fuel h (xs.headD 0) v := by
          simp [findVal, hx0, hv, hnext]
        rw [he]
        rcases this with ⟨h1, h2⟩ | ⟨L, R, h1, h2, h4⟩
        · left
          refine ⟨h1, ?_⟩
          simp only [List.map_cons, List.mem_cons, not_or]
          exact ⟨fun e => hv e.symm, h2⟩
        · right
          refine ⟨x :: L, R, by rw [List.cons_append, ← h1], h2, ?_⟩
          simp only [List.map_cons, List.mem_cons, not_or]
          exact ⟨fun e => hv e.symm, h4⟩


/-! ### bridge from the split form to the textbook functions -/

theorem insAfter_split (ref v : Nat) (L R : List Nat) (h : ref ∉ L) :
    insAfter ref v (L ++ ref :: R) = L ++ ref :: v :: R := by
  induction L with
  | nil => simp [insAfter]
  | cons x L ih =>
    have hx : x ≠ ref := fun e => h (e ▸ List.mem_cons_self)
    simp [insAfter, hx, ih (fun e => h (List.mem_cons_of_mem _ e))]

theorem insBefore_split (ref v : Nat) (L R : List Nat) (h : ref ∉ L) :
    insBefore ref v (L ++ ref :: R) = L ++ v :: ref :: R := by
  induction L with
  | nil => simp [insBefore]
  | cons x L ih =>
    have hx : x ≠ ref := fun e => h (e ▸ List.mem_cons_self)
    simp [insBefore, hx, ih (fun e => h (List.mem_cons_of_mem _ e))]

theorem insAfter_absent (ref v : Nat) (vs : List Nat) (h : ref ∉ vs) : insAfter ref v vs = vs := by
  induction vs with
  | nil => rfl
  | cons x vs ih =>
    have hx : x ≠ ref := fun e => h (e ▸ List.mem_cons_self)
    simp [insAfter, hx, ih (fun e => h (List.mem_cons_of_mem _ e))]

theorem insBefore_absent (ref v : Nat) (vs : List Nat) (h : ref ∉ vs) : insBefore ref v vs = vs := by
  induction vs with
  | nil => rfl
  | cons x vs ih =>
    have hx : x ≠ ref := fun e => h (e ▸ List.mem_cons_self)
    simp [insBefore, hx, ih (fun e => h (List.mem_cons_of_mem _ e))]

theorem erase_split (v : Nat) (L R : List Nat) (h : v ∉ L) : (L ++ v :: R).erase v = L ++ R := by
  rw [List.erase_append_right _ h, List.erase_cons_head]

theorem nodup_insert_mid (v : Nat) (A B : List Nat) (hnd : (A ++ B).Nodup) (hv : v ∉ A ++ B) :
    (A ++ v :: B).Nodup :=
  (List.perm_middle.nodup_iff).2 (List.nodup_cons.2 ⟨hv, hnd⟩)

/-! ### the coupling invariant and the step lemma -/

structure Inv (st : Heap × DList) (vs : List Nat) : Prop where
  ex : ∃ xs, IsList st.1 st.2 xs ∧ xs.length + 1 ≤ st.1.size ∧ xs.map (fun x => (nd st.1 x).val) = vs
  nodup : vs.Nodup

theorem step_inv (st : Heap × DList) (vs : List Nat) (op : LOp) (hi : Inv st vs) (hok : lOk vs op) :
    Inv (stepList st op) (lStep vs op) := by
  obtain ⟨h, l⟩ := st
  obtain ⟨⟨xs, hl, hlen, hv⟩, hnd⟩ := hi
  simp only [] at hl hlen hv
  have hfind := fun ref => findVal_spec h l _ xs 0 h.size ref (fun x hx => (hl.mem x hx).1) hl.ll (by omega)
  simp only [← hl.first] at hfind
  cases op with
  | append v =>
    have F := fresh hl hlen v
    have hl' := addNode_append F.isl F.n0 F.lt F.notin F.next
    simp only [stepList, newNode, lStep]
    refine ⟨⟨xs ++ [h.size], hl', ?_, ?_⟩, ?_⟩
    · rw [size_addNode, Array.size_push, List.length_append]; simp; omega
    · simp only [val_addNode, List.map_append, List.map_cons, List.map_nil, F.val, ← hv]
      rw [List.map_congr_left F.vals]
    · rw [List.nodup_append]
      refine ⟨hnd, by simp, ?_⟩
      intro a ha b hb
      rw [List.mem_singleton] at hb
      rw [hb]; exact fun e => hok (e ▸ ha)
  | prepend v =>
    have F := fresh hl hlen v
    have hl' := addNode_prepend F.isl F.n0 F.lt F.notin F.prev
    simp only [stepList, newNode, lStep]
    refine ⟨⟨h.size :: xs, hl', ?_, ?_⟩, List.nodup_cons.2 ⟨hok, hnd⟩⟩
    · rw [size_addNode, Array.size_push, List.length_cons]; omega
    · simp only [val_addNode, List.map_cons, F.val, ← hv]
      rw [List.map_congr_left F.vals]
  | insertAfter ref v =>
    simp only [stepList, newNode, lStep]
    rcases hfind ref with ⟨h0, hnot⟩ | ⟨L, R, hsplit, hval, hL⟩
    · rw [if_pos h0, insAfter_absent _ _ _ (hv ▸ hnot)]
      exact ⟨⟨xs, hl, hlen, hv⟩, hnd⟩
    · generalize findVal h.size h l.first ref = r at hsplit hval ⊢
      subst hsplit
      have hr0 : r ≠ 0 := (hl.mem r (by simp)).1
      rw [if_neg hr0]
      have F := fresh hl hlen v
      have hl' := insertNode_after F.isl F.n0 F.lt F.notin
      have e1 : L.map (fun x => (nd (h.push { val := v }) x).val) = L.map (fun x => (nd h x).val) :=
        List.map_congr_left (fun x hx => F.vals x (by simp [hx]))
      have e2 : R.map (fun x => (nd (h.push { val := v }) x).val) = R.map (fun x => (nd h x).val) :=
        List.map_congr_left (fun x hx => F.vals x (by simp [hx]))
      have e3 : (nd (h.push { val := v }) r).val = ref := by rw [F.vals r (by simp)]; exact hval
      have hvs : vs = L.map (fun x => (nd h x).val) ++ ref :: R.map (fun x => (nd h x).val) := by
        rw [← hv, List.map_append, List.map_cons, hval]
      have hok' : v ∉ vs := hok
      refine ⟨⟨L ++ r :: h.size :: R, hl', ?_, ?_⟩, ?_⟩
      · rw [size_insertNode, Array.size_push]; simp at hlen ⊢; omega
      · simp only [val_insertNode, List.map_append, List.map_cons, F.val, e1, e2, e3]
        rw [hvs, insAfter_split _ _ _ _ hL]
      · rw [hvs, insAfter_split _ _ _ _ hL]
        have := nodup_insert_mid v (L.map (fun x => (nd h x).val) ++ [ref]) (R.map (fun x => (nd h x).val))
          (by simpa [hvs] using hnd) (by simpa [hvs] using hok')
        simpa using this
  | insertBefore ref v =>
    simp only [stepList, newNode, lStep]
    rcases hfind ref with ⟨h0, hnot⟩ | ⟨L, R, hsplit, hval, hL⟩
    · rw [if_pos h0, insBefore_absent _ _ _ (hv ▸ hnot)]
      exact ⟨⟨xs, hl, hlen, hv⟩, hnd⟩
    · generalize findVal h.size h l.first ref = r at hsplit hval ⊢
      subst hsplit
      have hr0 : r ≠ 0 := (hl.mem r (by simp)).1
      rw [if_neg hr0]
      have F := fresh hl hlen v
      have hl' := insertNode_before F.isl F.n0 F.lt F.notin
      have e1 : L.map (fun x => (nd (h.push { val := v }) x).val) = L.map (fun x => (nd h x).val) :=
        List.map_congr_left (fun x hx => F.vals x (by simp [hx]))
      have e2 : R.map (fun x => (nd (h.push { val := v }) x).val) = R.map (fun x => (nd h x).val) :=
        List.map_congr_left (fun x hx => F.vals x (by simp [hx]))
      have e3 : (nd (h.push { val := v }) r).val = ref := by rw [F.vals r (by simp)]; exact hval
      have hvs : vs = L.map (fun x => (nd h x).val) ++ ref :: R.map (fun x => (nd h x).val) := by
        rw [← hv, List.map_append, List.map_cons, hval]
      have hok' : v ∉ vs := hok
      refine ⟨⟨L ++ h.size :: r :: R, hl', ?_, ?_⟩, ?_⟩
      · rw [size_insertNode, Array.size_push]; simp at hlen ⊢; omega
      · simp only [val_insertNode, List.map_append, List.map_cons, F.val, e1, e2, e3]
        rw [hvs, insBefore_split _ _ _ _ hL]
      · rw [hvs, insBefore_split _ _ _ _ hL]
        exact nodup_insert_mid v _ _ (by simpa [hvs] using hnd) (by simpa [hvs] using hok')
  | unlink v =>
    simp only [stepList, lStep]
    rcases hfind v with ⟨h0, hnot⟩ | ⟨L, R, hsplit, hval, hL⟩
    · rw [if_pos h0, List.erase_of_not_mem (hv ▸ hnot)]
      exact ⟨⟨xs, hl, hlen, hv⟩, hnd⟩
    · generalize findVal h.size h l.first v = r at hsplit hval ⊢
      subst hsplit
      have hr0 : r ≠ 0 := (hl.mem r (by simp)).1
      rw [if_neg hr0]
      have hl' := unlink_erase hl
      have hvs : vs = L.map (fun x => (nd h x).val) ++ v :: R.map (fun x => (nd h x).val) := by
        rw [← hv, List.map_append, List.map_cons, hval]
      refine ⟨⟨L ++ R, hl'.1, ?_, ?_⟩, (List.erase_sublist).nodup hnd⟩
      · rw [size_unlink]; simp at hlen ⊢; omega
      · simp only [val_unlink, List.map_append]
        rw [hvs, erase_split _ _ _ hL]
  | popFirst =>
    simp only [stepList, lStep]
    cases xs with
    | nil =>
      have h0 : l.first = 0 := hl.first
      have hvs : vs = [] := by simpa using hv.symm
      rw [if_pos h0, hvs]
      exact ⟨⟨[], hl, hlen, rfl⟩, by simp⟩
    | cons n R =>
      have hn : l.first ≠ 0 := by rw [hl.first]; exact (hl.mem n (by simp)).1
      rw [if_neg hn]
      have hp := popFirst_tail hl
      refine ⟨⟨R, hp.1, ?_, ?_⟩, (List.tail_sublist vs).nodup hnd⟩
      · rw [size_popFirst]; simp at hlen ⊢; omega
      · simp only [val_popFirst]
        rw [← hv]; rfl
  | pop =>
    simp only [stepList, lStep]
    rcases List.eq_nil_or_concat xs with e | ⟨L, n, e⟩
    · subst e
      have h0 : l.last = 0 := hl.last
      have hvs : vs = [] := by simpa using hv.symm
      rw [if_pos h0, hvs]
      exact ⟨⟨[], hl, hlen, rfl⟩, by simp⟩
    · rw [List.concat_eq_append] at e
      subst e
      have hn : l.last ≠ 0 := by
        rw [hl.last]; simp; exact (hl.mem n (by simp)).1
      rw [if_neg hn]
      have hp := pop_dropLast hl
      refine ⟨⟨L, hp.1, ?_, ?_⟩, (List.dropLast_sublist vs).nodup hnd⟩
      · rw [size_pop]; simp at hlen ⊢; omega
      · simp only [val_pop]
        rw [← hv]; simp


theorem run_inv (ops : List LOp) (st : Heap × DList) (vs : List Nat) (hi : Inv st vs) (hv : LValid vs ops) :
    Inv (runModel st ops) (runList vs ops) := by
  induction ops generalizing st vs with
  | nil => exact hi
  | cons op ops ih => exact ih (stepList st op) (lStep vs op) (step_inv st vs op hi hv.1) hv.2

theorem inv_init : Inv (#[{}], {}) [] := ⟨⟨[], isList_empty _, by decide, rfl⟩, List.nodup_nil⟩

/-- MAIN (ArenaList): for every valid operation sequence (all seven operations; fresh values; members addressed by
value; failed preconditions are no-ops) from the empty list over the heap holding only the null node, the model list
is a well-formed doubly linked list (`IsList`: both link directions consistent, ends correct) whose values are exactly
the textbook list; a forward walk from `first` reads it and a backward walk from `last` reads its reverse, for any
fuel ≥ heap size -/
theorem list_refines_list (ops : List LOp) (hv : LValid [] ops) :
    ∃ xs, IsList (runModel (#[{}], {}) ops).1 (runModel (#[{}], {}) ops).2 xs ∧
      xs.map (fun x => (nd (runModel (#[{}], {}) ops).1 x).val) = runList [] ops ∧
      ∀ fuel, (runModel (#[{}], {}) ops).1.size ≤ fuel →
        walk fuel (runModel (#[{}], {}) ops).1 (runModel (#[{}], {}) ops).2.first true = runList [] ops ∧
        walk fuel (runModel (#[{}], {}) ops).1 (runModel (#[{}], {}) ops).2.last false = (runList [] ops).reverse := by
  obtain ⟨⟨xs, hl, hlen, hvals⟩, _⟩ := run_inv ops _ _ inv_init hv
  refine ⟨xs, hl, hvals, fun fuel hf => ?_⟩
  have hfl : xs.length ≤ fuel := by omega
  exact ⟨by rw [walk_forward hl fuel hfl, hvals], by rw [walk_backward hl fuel hfl, hvals]⟩

/-! non-vacuity: a valid sequence using all seven operations (including two no-ops) -/
def demo : List LOp :=
  [.append 1, .prepend 2, .insertAfter 2 3, .insertBefore 1 4, .insertAfter 99 5, .unlink 3, .popFirst, .pop,
   .append 6, .unlink 77]

example : LValid [] demo := by simp [demo, LValid, lOk, lStep, insAfter, insBefore]
example : runList [] demo = [4, 6] := by decide
example : walk 7 (runModel (#[{}], {}) demo).1 (runModel (#[{}], {}) demo).2.first true = [4, 6] ∧
    walk 7 (runModel (#[{}], {}) demo).1 (runModel (#[{}], {}) demo).2.last false = [6, 4] := by decide
example : runList [] (demo.take 5) = [2, 3, 4, 1] := by decide

end AsmjitVerif.ListPool2
