/- C09 refinement (model run ⊑ monitor): effect of release on the ghost block list and table. -/
import AsmjitVerif.Lemmas.JitAllocSimOps4
namespace AsmjitVerif.JitAlloc
open Spec

theorem modify_toGB {bs : List Block} (hp : (bs.map (·.id)).Pairwise (· < ·)) {b b' : Block} (hb : b ∈ bs)
    (h1 : b'.id = b.id) (h2 : b'.pool = b.pool) (h3 : b'.blockSize = b.blockSize) :
    (bs.map fun x => if x.id = b.id then b' else x).map toGB = bs.map toGB := by
  rw [List.map_map]
  apply List.map_congr_left
  intro x hx
  simp only [Function.comp]
  split
  · rename_i e
    have := eq_of_id_eq hp hx hb e
    subst this
    simp [toGB, h1, h2, h3]
  · rfl

theorem modify_filter_toGB {b b' : Block} (h1 : b'.id = b.id) : ∀ (bs : List Block),
    ((bs.map fun x => if x.id = b.id then b' else x).filter (·.id != b.id)).map toGB = (bs.map toGB).filter (·.id != b.id) := by
  intro bs
  induction bs with
  | nil => rfl
  | cons x xs ih =>
    simp only [List.map_cons, List.filter_cons]
    by_cases c : x.id = b.id
    · simp only [c, if_true, h1, bne_self_eq_false, Bool.false_eq_true, if_false, toGB]
      exact ih
    · have c' : (x.id != b.id) = true := by simpa using c
      simp only [c, if_false, c', if_true, toGB, List.map_cons]
      rw [ih]

theorem length_filter_ne {b : Block} : ∀ (bs : List Block), (bs.map (·.id)).Pairwise (· < ·) → b ∈ bs →
    (bs.filter (·.id != b.id)).length + 1 = bs.length := by
  intro bs hp hb
  have h := agg_remove (fun _ => 1) bs hp hb
  rw [agg_one, agg_one] at h
  exact h

end AsmjitVerif.JitAlloc

namespace AsmjitVerif.JitAlloc
open Spec

theorem afterRelease_tab (g : Ghost) (blk : Nat) (st : Stats) : (g.afterRelease blk st).tab = g.tab ∧ (g.afterRelease blk st).cfg = g.cfg := by
  unfold Ghost.afterRelease; split <;> exact ⟨rfl, rfl⟩

theorem sim_release {g : Ghost} {s : St} (hS : Sim g s) (hI : Inv s) (hM : AMem s.a) {j : Nat} {x : GH} (hx : g.tab[j]? = some x)
    (hl : x.live = true) (st : Stats) (hst : st.blocks = (s.a.release x.blk x.off).1.blocks.length) :
    Sim ((g.kill j).afterRelease x.blk st) { a := (s.a.release x.blk x.off).1, tab := killHandle s.tab j } := by
  have hm : s.tab[j]? = some (toH x) := by rw [hS.getH, hx]; rfl
  have hlm : (toH x).live = true := hl
  obtain ⟨b, hb, e, st0, n0, o1, o2⟩ := hI.owned j (toH x) hm hlm
  have hg := poolGran_pos hI.wf b.pool
  have hSp : TT s b.id b.pool st0 n0 := ⟨j, toH x, hm, hlm, e.symm, o1, o2⟩
  obtain ⟨hok, _⟩ := hI.release_handle hm hlm
  have t := Trans.release (s := s) j (toH x) hm hlm hok
  obtain ⟨b', f1, f2, f3, f4, f5, f6, f7, hstruct⟩ := release_struct hI.toAInv hb hSp
  have e' : b.id = x.blk := e
  have o1' : x.off = st0 * s.a.cfg.poolGran b.pool := o1
  rw [← o1'] at hstruct
  obtain ⟨_, _, _, _, _, hlast⟩ := (release_spec hI.toAInv hb hSp).2
  rw [← o1'] at hlast
  rw [← e'] at hst ⊢
  have t' : Trans s none { a := (s.a.release b.id x.off).1, tab := killHandle s.tab j } := by rw [e']; exact t
  obtain ⟨q1, q2⟩ := afterRelease_tab (g.kill j) b.id st
  have hlen : g.blocks.length = s.a.blocks.length := by rw [hS.blocks, List.length_map]
  have hMids : ((s.a.blocks.map fun y => if y.id = b.id then b' else y).map (·.id)).Pairwise (· < ·) := by
    rw [modify_ids f1]; exact hI.ids
  have hb'M : b' ∈ (s.a.blocks.map fun y => if y.id = b.id then b' else y) := List.mem_map.mpr ⟨b, hb, by simp⟩
  -- the ghost's block list after the release
  have hblocks : ((g.kill j).afterRelease b.id st).blocks = (s.a.release b.id x.off).1.blocks.map toGB := by
    rcases hstruct with hs | ⟨hemp, hs⟩
    · rw [hs] at hst ⊢
      rw [List.length_map] at hst
      have hcond : ¬(st.blocks + 1 = (g.kill j).blocks.length) := by
        show ¬(st.blocks + 1 = g.blocks.length); omega
      unfold Ghost.afterRelease
      simp only [hcond, decide_false, Bool.false_and, Bool.false_eq_true, if_false]
      show g.blocks = _
      rw [modify_toGB hI.ids hb f1 f2 f3]; exact hS.blocks
    · rw [hs] at hst ⊢
      have hl1 := length_filter_ne (b := b') _ hMids hb'M
      rw [f1] at hl1
      rw [List.length_map] at hl1
      have hcond : st.blocks + 1 = (g.kill j).blocks.length := by
        show st.blocks + 1 = g.blocks.length; omega
      -- no other live handle is left in the block
      have hempty : ((g.kill j).liveIn b.id).isEmpty = true := by
        rw [List.isEmpty_iff]
        cases hli : (g.kill j).liveIn b.id with
        | nil => rfl
        | cons y ys =>
          exfalso
          have hy : y ∈ (g.kill j).liveIn b.id := by rw [hli]; simp
          simp only [Ghost.liveIn, Ghost.kill, List.mem_filter] at hy
          obtain ⟨i, hi⟩ := List.getElem?_of_mem hy.1
          have hly : y.live = true ∧ y.blk = b.id := by simpa using hy.2
          rw [getElem?_setTab] at hi
          cases hgi : g.tab[i]? with
          | none => rw [hgi] at hi; simp at hi
          | some z =>
            rw [hgi] at hi
            simp only [Option.map_some, Option.some.injEq] at hi
            by_cases c : i = j
            · simp only [c, if_true] at hi; rw [← hi] at hly; simp at hly
            · simp only [c, if_false] at hi
              subst hi
              have hmz : s.tab[i]? = some (toH z) := by rw [hS.getH, hgi]; rfl
              obtain ⟨b2, hb2, e2, st2, n2, p1, p2⟩ := hI.owned i (toH z) hmz hly.1
              have : b2 = b := block_unique hI hb2 hb (by rw [e2]; exact hly.2)
              subst this
              rcases hlast with ⟨w, hw, w1, _⟩ | hlast
              · rw [hs] at hw
                have := (List.mem_filter.mp hw).2
                simp [w1] at this
              · obtain ⟨a1, a2⟩ := hlast st2 n2 ⟨i, toH z, hmz, hly.1, hly.2, p1, p2⟩
                obtain ⟨_, hn0, _⟩ := (hI.blk b2 hb).1.inside st0 n0 hSp
                have := hI.handle_unique hmz hm hly.1 hlm (by rw [← e2, e]) (by rw [p1, o1, a1])
                  (by rw [p2, a2]; exact Nat.mul_pos hn0 hg) (by rw [o2]; exact Nat.mul_pos hn0 hg)
                exact c this
      unfold Ghost.afterRelease
      simp only [hcond, hempty, decide_true, Bool.and_self, if_true]
      show g.blocks.filter (·.id != b.id) = _
      rw [modify_filter_toGB f1, hS.blocks]
  refine sim_update hS hI hM t' q2 ?_ hblocks ?_
  · rw [q1]; show (setTab g.tab j _).map toH = _
    rw [setTab_map_kill, hS.tab]
  · intro i y hy hly
    rw [q1] at hy
    simp only [Ghost.kill, getElem?_setTab] at hy
    cases hgi : g.tab[i]? with
    | none => rw [hgi] at hy; simp at hy
    | some z =>
      rw [hgi] at hy
      simp only [Option.map_some, Option.some.injEq] at hy
      by_cases c : i = j
      · simp only [c, if_true] at hy; rw [← hy] at hly; simp at hly
      · simp only [c, if_false] at hy
        subst hy
        exact ⟨z, rfl, hly, rfl, Or.inl ⟨by intro byte hh; simp at hh, rfl⟩⟩

end AsmjitVerif.JitAlloc
