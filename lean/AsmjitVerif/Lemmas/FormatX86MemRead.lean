/- C20 helper lemmas: the reader's interpretation of the pieces of an x86 address expression. -/
import AsmjitVerif.Lemmas.FormatX86Mem

namespace AsmjitVerif.Lemmas.FormatX86Mem
open AsmjitVerif.Format AsmjitVerif.FormatText AsmjitVerif.Lemmas.FormatLex AsmjitVerif.Lemmas.FormatNum
open AsmjitVerif.Gen.FormatTabs

/-- a text that can stand as a name inside an operand: non-empty, free of the operand syntax's punctuation, not a number -/
structure NameLike (t : Str) : Prop where
  ne : t ≠ []
  clean : ∀ c ∈ t, c ≠ '+' ∧ c ≠ '-' ∧ c ≠ '*' ∧ c ≠ ' ' ∧ c ≠ '[' ∧ c ≠ ']' ∧ c ≠ ',' ∧ c ≠ '!' ∧ c ≠ '{' ∧ c ≠ '}'
  nodigit : startsWithDigit t = false
  noamp : t.head? ≠ some '&'

/-- the register's text is a name and the reader resolves it to (something that agrees with) the register given -/
structure RegOK (env : Env) (txt : Str) (t id : Nat) : Prop where
  like : NameLike txt
  reads : ∃ r, parseReg env txt = some r ∧ regAgrees (denoteReg env t id) r = true

/-- the label's text is a name, is not also a register's name, and the reader resolves it to the label -/
structure LabelOK (env : Env) (id : Nat) : Prop where
  like : NameLike (formatLabel env id)
  noreg : parseReg env (formatLabel env id) = none
  reads : parseLabel env (formatLabel env id) = some id

def rdReg (env : Env) (txt : Str) : PReg := (parseReg env txt).getD (.phys 0 0)

theorem RegOK.eq {env : Env} {txt : Str} {t id : Nat} (h : RegOK env txt t id) :
    parseReg env txt = some (rdReg env txt) ∧ regAgrees (denoteReg env t id) (rdReg env txt) = true := by
  obtain ⟨r, hr, ha⟩ := h.reads
  simp [rdReg, hr, ha]

/-! ### single steps -/

theorem step_name (env : Env) (m : PMem) (sg : Option Char) (tok : Str) (hd : m.done = false)
    (hsg : sg = none ∨ sg = some '+') (hnd : startsWithDigit tok = false) :
    x86MemStep env m (sg, tok) = addX86Term env m tok := by
  unfold x86MemStep
  rcases hsg with h | h <;> simp [hd, hnd, h]

theorem splitAmp_plain (tok : Str) (h : tok.head? ≠ some '&') : splitAmp tok = (false, tok) := by
  unfold splitAmp
  split
  · simp at h
  · rfl

theorem addTerm_reg (env : Env) (m : PMem) (tok : Str) (hl : NameLike tok) (r : PReg) (hr : parseReg env tok = some r)
    (hlen : m.terms.length < 2) :
    addX86Term env m tok = some { m with terms := m.terms ++ [(r, 1)] } := by
  have h2 : ¬ (m.terms.length ≥ 2) := by omega
  simp [addX86Term, splitAmp_plain tok hl.noamp, hr, h2]

theorem addTerm_home (env : Env) (m : PMem) (txt : Str) (r : PReg) (hr : parseReg env txt = some r)
    (ht : m.terms = []) (hlab : m.label = none) :
    addX86Term env m ('&' :: txt) = some { m with terms := [(r, 1)], home := true } := by
  simp [addX86Term, splitAmp, hr, ht, hlab]

theorem addTerm_label (env : Env) (m : PMem) (tok : Str) (hl : NameLike tok) (id : Nat) (hnr : parseReg env tok = none)
    (hlb : parseLabel env tok = some id) (ht : m.terms = []) (hlab : m.label = none) :
    addX86Term env m tok = some { m with label := some id } := by
  simp [addX86Term, splitAmp_plain tok hl.noamp, hnr, hlb, ht, hlab]

theorem step_scale (env : Env) (m : PMem) (ts : List (PReg × Nat)) (r : PReg) (tok : Str) (k : Nat) (hd : m.done = false)
    (hlast : m.terms = ts ++ [(r, 1)]) (hk : parseScale tok = some k) :
    x86MemStep env m (some '*', tok) = some { m with terms := ts ++ [(r, k)] } := by
  unfold x86MemStep
  simp [hd, hlast, hk]

theorem scale_facts : ∀ s ∈ [1, 2, 3], parseScale (uintStr (1 <<< s)) = some (1 <<< s) := by decide

theorem step_disp (env : Env) (m : PMem) (sg : Option Char) (tok : Str) (mag v : Nat) (hd : m.done = false)
    (hsg : sg ≠ some '*') (hdig : startsWithDigit tok = true) (hm : parseMagnitude tok = some mag)
    (hv : signedDisp sg mag = some v) :
    x86MemStep env m (sg, tok) = some { m with disp := v, done := true } := by
  unfold x86MemStep
  simp [hd, hsg, hdig, hm, hv]

/-! ### numbers inside the address -/

theorem dec_digit_isDigit : ∀ d : Fin 10, (digitChar d.val).isDigit = true := by decide

theorem startsWithDigit_uintStr (n : Nat) : startsWithDigit (uintStr n 10) = true := by
  have hne := digitsLoop_ne_nil 10 63 n
  have hall := digitsLoop_chars 10 (fun c => c.isDigit = true) (by omega) (fun d hd => dec_digit_isDigit ⟨d, hd⟩) 64 n
  unfold uintStr
  cases h : digitsLoop 10 64 n [] with
  | nil => exact absurd h hne
  | cons c t => simp [startsWithDigit]; exact hall c (by rw [h]; simp)

theorem effOff_lt (b : Bool) (off : Int) : effOff b off < two64 := by
  unfold effOff toU64
  cases b
  · simp only [Bool.false_eq_true, if_false]
    have : (0 : Int) < (two64 : Nat) := by unfold two64; decide
    have h1 := Int.emod_lt_of_pos off this
    have h2 := Int.emod_nonneg off (by omega : ((two64 : Nat) : Int) ≠ 0)
    omega
  · simp only [if_true]
    have : (0 : Int) < (two32 : Nat) := by unfold two32; decide
    have h1 := Int.emod_lt_of_pos off this
    have h2 := Int.emod_nonneg off (by omega : ((two32 : Nat) : Int) ≠ 0)
    split
    · unfold two64 two31 at *; omega
    · unfold two64 two32 at *; omega

theorem disp_tok_facts (flags off : Nat) (hoff : off < two64) :
    startsWithDigit (dispTokOf flags off) = true ∧ parseMagnitude (dispTokOf flags off) = some (magOf off) := by
  have hmag : magOf off < two64 := by unfold magOf; split <;> (unfold two64 two63 at *; omega)
  unfold dispTokOf
  split
  · exact ⟨rfl, parseMagnitude_hex _ hmag⟩
  · exact ⟨startsWithDigit_uintStr _, parseMagnitude_dec _ hmag⟩

theorem disp_sign_facts (m : X86Mem) (off : Nat) (hoff : off < two64) (h0 : off ≥ two63 → True) :
    signedDisp (dispSignOf m off) (magOf off) = some off ∧ dispSignOf m off ≠ some '*' := by
  unfold dispSignOf magOf signedDisp x86MemSignAfterIndex x86MemSignAfterBase
  by_cases hn : off ≥ two63
  · have h1 : two64 - off ≤ two63 := by unfold two64 two63 at *; omega
    have h2 : two64 - off ≠ 0 := by omega
    have h3 : two64 - (two64 - off) = off := by omega
    simp [hn, h1, h2, h3]
  · simp only [hn, if_false]
    constructor
    · split <;> (split <;> simp_all)
    · split <;> (try split) <;> simp

/-! ### the three stages: base, index, displacement -/

/-- well-formed x86 memory operand: fields the syntax can express, register and label texts the reader can resolve -/
structure WFX86Mem (flags : Nat) (env : Env) (m : X86Mem) : Prop where
  size : ValidSize m.size
  seg : m.seg < 7
  addr : m.addrType ≤ 2
  shift : m.shift ≤ 3
  base : match m.base with
    | .none => True
    | .label id => LabelOK env id
    | .reg t id => RegOK env (x86FormatRegister (if m.home then clearBit flags ffRegCasts else flags) env t id) t id
  index : match m.index with
    | none => True
    | some (t, id) => RegOK env (x86FormatRegister flags env t id) t id

def start (m : X86Mem) : PMem := { size := m.size, seg := m.seg, addrType := m.addrType }

def afterBase (flags : Nat) (env : Env) (m : X86Mem) : PMem :=
  match m.base with
  | .none => start m
  | .label id => { start m with label := some id }
  | .reg t id =>
    if m.home then { start m with terms := [(rdReg env (x86FormatRegister (clearBit flags ffRegCasts) env t id), 1)], home := true }
    else { start m with terms := [(rdReg env (x86FormatRegister flags env t id), 1)] }

def afterIndex (flags : Nat) (env : Env) (m : X86Mem) : PMem :=
  match m.index with
  | none => afterBase flags env m
  | some (t, id) =>
    { afterBase flags env m with
      terms := (afterBase flags env m).terms ++ [(rdReg env (x86FormatRegister flags env t id), 1 <<< m.shift)] }

def afterDisp (flags : Nat) (env : Env) (m : X86Mem) : PMem :=
  if dispOff m ≠ 0 ∨ (m.base = MemBase.none ∧ m.index = none) then { afterIndex flags env m with disp := dispOff m, done := true }
  else afterIndex flags env m

theorem afterBase_facts (flags : Nat) (env : Env) (m : X86Mem) :
    (afterBase flags env m).done = false ∧ (afterBase flags env m).terms.length < 2 := by
  unfold afterBase start
  cases hb : m.base with
  | none => simp
  | label id => simp
  | reg t id => by_cases hh : m.home = true <;> simp [hh]

theorem stage_base (flags : Nat) (env : Env) (m : X86Mem) (wf : WFX86Mem flags env m) :
    (basePieces flags env m).foldlM (x86MemStep env) (start m) = some (afterBase flags env m) := by
  have hb := wf.base
  unfold basePieces afterBase baseTok
  cases hbase : m.base with
  | none => simp
  | label id =>
    rw [hbase] at hb
    simp only [List.foldlM_cons, List.foldlM_nil]
    rw [step_name env _ none _ rfl (Or.inl rfl) hb.like.nodigit,
      addTerm_label env _ _ hb.like id hb.noreg hb.reads rfl rfl]
    rfl
  | reg t id =>
    rw [hbase] at hb
    by_cases hh : m.home = true
    · simp only [hh, if_true] at hb ⊢
      simp only [List.foldlM_cons, List.foldlM_nil]
      rw [step_name env _ none _ rfl (Or.inl rfl) rfl, addTerm_home env _ _ _ hb.eq.1 rfl rfl]
      rfl
    · simp only [hh, if_false, Bool.false_eq_true] at hb ⊢
      simp only [List.foldlM_cons, List.foldlM_nil]
      rw [step_name env _ none _ rfl (Or.inl rfl) hb.like.nodigit,
        addTerm_reg env _ _ hb.like _ hb.eq.1 (by simp [start])]
      rfl

theorem stage_index (flags : Nat) (env : Env) (m : X86Mem) (wf : WFX86Mem flags env m) :
    (indexPieces flags env m).foldlM (x86MemStep env) (afterBase flags env m) = some (afterIndex flags env m) := by
  have hi := wf.index
  obtain ⟨hdone, hlen⟩ := afterBase_facts flags env m
  unfold indexPieces afterIndex
  cases hidx : m.index with
  | none => simp
  | some p =>
    obtain ⟨t, id⟩ := p
    rw [hidx] at hi
    have hsg : x86MemSignAfterBase m = none ∨ x86MemSignAfterBase m = some '+' := by
      unfold x86MemSignAfterBase; split <;> simp
    by_cases hs : m.shift = 0
    · simp only [hs, ne_eq, not_true_eq_false, if_false, List.foldlM_cons, List.foldlM_nil]
      rw [step_name env _ _ _ hdone hsg hi.like.nodigit, addTerm_reg env _ _ hi.like _ hi.eq.1 hlen]
      rfl
    · have hmem : m.shift ∈ [1, 2, 3] := by have := wf.shift; simp; omega
      simp only [hs, ne_eq, not_false_eq_true, if_true, List.foldlM_cons, List.foldlM_nil]
      rw [step_name env _ _ _ hdone hsg hi.like.nodigit, addTerm_reg env _ _ hi.like _ hi.eq.1 hlen]
      simp only [Option.bind_eq_bind, Option.bind_some]
      rw [step_scale env _ (afterBase flags env m).terms _ _ _ (by exact hdone) rfl (scale_facts m.shift hmem)]
      rfl

theorem afterIndex_done (flags : Nat) (env : Env) (m : X86Mem) : (afterIndex flags env m).done = false := by
  unfold afterIndex
  cases m.index <;> simp [(afterBase_facts flags env m).1]

theorem stage_disp (flags : Nat) (env : Env) (m : X86Mem) :
    (dispPieces flags m).foldlM (x86MemStep env) (afterIndex flags env m) = some (afterDisp flags env m) := by
  unfold dispPieces dispPiecesOf afterDisp
  have hoff : dispOff m < two64 := effOff_lt _ _
  by_cases h : (dispOff m ≠ 0 ∨ (m.base = MemBase.none ∧ m.index = none))
  · simp only [h, if_true, List.foldlM_cons, List.foldlM_nil]
    obtain ⟨hd1, hd2⟩ := disp_tok_facts flags (dispOff m) hoff
    obtain ⟨hs1, hs2⟩ := disp_sign_facts m (dispOff m) hoff (fun _ => trivial)
    rw [step_disp env _ _ _ _ _ (afterIndex_done flags env m) hs2 hd1 hd2 hs1]
    rfl
  · simp [h]

theorem interp_pieces (flags : Nat) (env : Env) (m : X86Mem) (wf : WFX86Mem flags env m) :
    interpX86Mem env (memPieces flags env m) (start m) = some (afterDisp flags env m) := by
  unfold interpX86Mem memPieces
  rw [List.foldlM_append, List.foldlM_append, stage_base flags env m wf]
  simp only [Option.bind_eq_bind, Option.bind_some]
  rw [stage_index flags env m wf]
  simp only [Option.bind_some]
  exact stage_disp flags env m

end AsmjitVerif.Lemmas.FormatX86Mem
