/- `copy_flattened_data` / `copy_section_data`: bounds, refusal, and the image byte by byte. -/
import AsmjitVerif.Spec.Sections
namespace AsmjitVerif.Sections

theorem writeAt_isSome {dst : List Byte} {off : Nat} {bytes : List Byte} (h : off + bytes.length ≤ dst.length) :
    ∃ d, writeAt dst off bytes = some d := by
  unfold writeAt; rw [if_pos h]; exact ⟨_, rfl⟩

theorem writeAt_length {dst d : List Byte} {off : Nat} {bytes : List Byte} (h : writeAt dst off bytes = some d) :
    d.length = dst.length := by
  unfold writeAt at h
  split at h
  · cases h; simp; omega
  · cases h

theorem writeAt_inside {dst d : List Byte} {off : Nat} {bytes : List Byte} (h : writeAt dst off bytes = some d) :
    off + bytes.length ≤ dst.length := by
  unfold writeAt at h
  split at h
  · assumption
  · cases h

/-- a write changes exactly the bytes of its range -/
theorem writeAt_get {dst d : List Byte} {off : Nat} {bytes : List Byte} (h : writeAt dst off bytes = some d) (k : Nat) :
    d[k]? = if off ≤ k ∧ k < off + bytes.length then bytes[k - off]? else dst[k]? := by
  unfold writeAt at h
  split at h
  · rename_i hle
    cases h
    by_cases h1 : k < off
    · rw [if_neg (by omega)]
      rw [List.append_assoc, List.getElem?_append_left (by simp; omega), List.getElem?_take, if_pos h1]
    · by_cases h2 : k < off + bytes.length
      · rw [if_pos (by omega)]
        rw [List.append_assoc, List.getElem?_append_right (by simp; omega)]
        simp only [List.length_take, Nat.min_eq_left (show off ≤ dst.length by omega)]
        rw [List.getElem?_append_left (by omega)]
      · rw [if_neg (by omega)]
        rw [List.getElem?_append_right (by simp; omega)]
        simp only [List.length_append, List.length_take, Nat.min_eq_left (show off ≤ dst.length by omega)]
        rw [List.getElem?_drop]
        congr 1; omega
  · cases h

theorem zeros_length (n : Nat) : (zeros n).length = n := by simp [zeros]

theorem zeros_get (n k : Nat) : (zeros n)[k]? = if k < n then some 0 else none := by
  unfold zeros
  rw [List.getElem?_replicate]

/-- `min(dst_size - offset, virtual_size) - buffer_size` does not underflow where the C++ evaluates it -/
theorem padLen_no_underflow (n : Nat) (s : Section) (hfit : s.bufSize ≤ n - s.offset) (hv : s.bufSize < s.vsize) :
    s.bufSize ≤ min (n - s.offset) s.vsize := by omega

theorem padLen_le (n : Nat) (flags : CopyFlags) (s : Section) (hoff : s.offset ≤ n) (hfit : s.bufSize ≤ n - s.offset) :
    s.offset + s.bufSize + padLen n flags s ≤ n := by
  unfold padLen
  split <;> omega

/-- the loop of `copy_flattened_data` never leaves the destination -/
theorem copyLoop_no_fault (flags : CopyFlags) (secs : List Section) (dst : List Byte) (e : Nat) :
    copyLoop flags secs dst e ≠ none := by
  induction secs generalizing dst e with
  | nil => simp [copyLoop]
  | cons s rest ih =>
    unfold copyLoop
    simp only []
    split
    · simp
    · split
      · simp
      · rename_i h1 h2
        obtain ⟨d1, hd1⟩ := writeAt_isSome (dst := dst) (off := s.offset) (bytes := s.data) (by
          have : s.data.length = s.bufSize := rfl
          omega)
        rw [hd1]
        have hl1 := writeAt_length hd1
        have hp := padLen_le dst.length flags s (by omega) (by omega)
        obtain ⟨d2, hd2⟩ := writeAt_isSome (dst := d1) (off := s.offset + s.bufSize) (bytes := zeros (padLen dst.length flags s)) (by
          rw [zeros_length, hl1]; exact hp)
        simp only [hd2]
        exact ih d2 _

/-- what one iteration writes, byte by byte, is what the specification says the section defines -/
theorem copyOne_get (n : Nat) (flags : CopyFlags) (s : Section) (dst d1 d2 : List Byte) (hn : dst.length = n)
    (hfit : s.offset + s.bufSize ≤ n)
    (h1 : writeAt dst s.offset s.data = some d1)
    (h2 : writeAt d1 (s.offset + s.bufSize) (zeros (padLen n flags s)) = some d2) (k : Nat) :
    d2[k]? = match secByte n flags s k with
             | some b => some b
             | none => dst[k]? := by
  rw [writeAt_get h2, writeAt_get h1, zeros_length]
  have hbuf : s.data.length = s.bufSize := rfl
  unfold secByte
  by_cases hk0 : s.offset ≤ k
  · rw [if_pos hk0]
    by_cases hk1 : k < s.offset + s.bufSize
    · have hlt : k - s.offset < s.data.length := by omega
      rw [if_neg (by omega), if_pos (by omega), List.getElem?_eq_getElem hlt]
    · have hnone : s.data[k - s.offset]? = none := List.getElem?_eq_none (by omega)
      rw [hnone]
      simp only []
      unfold padLen
      cases hps : flags.padSection
      · simp only [Bool.false_and, if_false, Bool.false_eq_true]
        rw [if_neg (by omega), if_neg (by omega)]
      · simp only [Bool.true_and]
        by_cases hv : s.bufSize < s.vsize
        · simp only [hv, decide_true, if_true]
          by_cases hk2 : k < s.offset + s.vsize ∧ k < n
          · rw [if_pos (by omega), zeros_get, if_pos (by omega)]
            simp [hk2.1, hk2.2]
          · rw [if_neg (by omega), if_neg (by omega)]
            have : ¬ (k < s.offset + s.vsize ∧ k < n) := hk2
            simp only [Bool.and_eq_true, decide_eq_true_eq, this, if_false]
        · simp only [hv, decide_false, if_false, Bool.false_eq_true]
          rw [if_neg (by omega), if_neg (by omega)]
          have : ¬ k < s.offset + s.vsize := by omega
          simp [this]
  · rw [if_neg hk0, if_neg (by omega), if_neg (by omega)]

/-- the written ranges of the sections of a table are pairwise disjoint -/
def Disj (n : Nat) (flags : CopyFlags) (secs : List Section) : Prop :=
  secs.Pairwise (fun a b => ∀ k, secByte n flags a k ≠ none → secByte n flags b k = none)

theorem secByte_range {n : Nat} {flags : CopyFlags} {s : Section} {k : Nat} (h : secByte n flags s k ≠ none) :
    s.offset ≤ k ∧ k < s.offset + s.realSize := by
  unfold secByte at h
  by_cases hk0 : s.offset ≤ k
  · rw [if_pos hk0] at h
    refine ⟨hk0, ?_⟩
    have hbuf : s.data.length = s.bufSize := rfl
    unfold Section.realSize
    by_cases hk1 : k - s.offset < s.data.length
    · omega
    · rw [List.getElem?_eq_none (by omega)] at h
      simp only [] at h
      split at h
      · rename_i hc
        simp only [Bool.and_eq_true, decide_eq_true_eq] at hc
        omega
      · exact absurd rfl h
  · rw [if_neg hk0] at h; exact absurd rfl h

theorem disj_of_noOverlap (n : Nat) (flags : CopyFlags) (secs : List Section) (h : NoOverlap secs) : Disj n flags secs := by
  unfold Disj
  unfold NoOverlap at h
  refine h.imp ?_
  intro a b hab k hak
  have ha := secByte_range hak
  cases hb : secByte n flags b k with
  | none => rfl
  | some v =>
    have hb' := secByte_range (n := n) (flags := flags) (s := b) (k := k) (by rw [hb]; simp)
    have := hab (by omega)
    omega

/-- the loop of `copy_flattened_data` on a destination that fits: result, `end`, and every byte -/
theorem copyLoop_ok (flags : CopyFlags) (secs : List Section) (dst : List Byte) (e : Nat)
    (hfit : fitsB dst.length secs = true) :
    ∃ d, copyLoop flags secs dst e = some (.ok (d, secs.foldl (fun m s => max m (secExtent dst.length flags s)) e)) ∧
      d.length = dst.length ∧
      (Disj dst.length flags secs → ∀ k, d[k]? = match secs.findSome? (fun s => secByte dst.length flags s k) with
                                                   | some b => some b
                                                   | none => dst[k]?) := by
  induction secs generalizing dst e with
  | nil => exact ⟨dst, by simp [copyLoop], rfl, by intro _ k; simp⟩
  | cons s rest ih =>
    unfold fitsB at hfit
    simp only [List.all_cons, Bool.and_eq_true, decide_eq_true_eq] at hfit
    obtain ⟨hs, hrest⟩ := hfit
    have hbuf : s.data.length = s.bufSize := rfl
    obtain ⟨d1, hd1⟩ := writeAt_isSome (dst := dst) (off := s.offset) (bytes := s.data) (by omega)
    have hl1 := writeAt_length hd1
    have hp := padLen_le dst.length flags s (by omega) (by omega)
    obtain ⟨d2, hd2⟩ := writeAt_isSome (dst := d1) (off := s.offset + s.bufSize) (bytes := zeros (padLen dst.length flags s)) (by
      rw [zeros_length, hl1]; exact hp)
    have hl2 := writeAt_length hd2
    have hrest' : fitsB d2.length rest = true := by rw [hl2, hl1]; exact hrest
    obtain ⟨d, hd, hlen, hget⟩ := ih d2 (max e (s.offset + s.bufSize + padLen dst.length flags s)) hrest'
    refine ⟨d, ?_, by omega, ?_⟩
    · unfold copyLoop
      simp only []
      rw [if_neg (by omega), if_neg (by omega), hd1]
      simp only [hd2]
      rw [hd, hl2, hl1]
      congr 3
      simp only [List.foldl_cons]
      congr 1
      unfold secExtent padLen
      split <;> rename_i hc
      · simp only [Bool.and_eq_true, decide_eq_true_eq] at hc; omega
      · rfl
    · intro hdisj k
      unfold Disj at hdisj
      rw [List.pairwise_cons] at hdisj
      have := hget (by rw [hl2, hl1]; exact hdisj.2) k
      rw [this, hl2, hl1]
      have hone := copyOne_get dst.length flags s dst d1 d2 rfl hs hd1 hd2 k
      simp only [List.findSome?_cons]
      cases hsb : secByte dst.length flags s k with
      | some b =>
        have hnone : rest.findSome? (fun s => secByte dst.length flags s k) = none := by
          rw [List.findSome?_eq_none_iff]
          intro t ht
          exact hdisj.1 t ht k (by rw [hsb]; simp)
        rw [hnone]; simp only []
        rw [hone, hsb]
      | none =>
        simp only []
        rw [hone, hsb]

theorem copyLoop_length (flags : CopyFlags) (secs : List Section) (dst d : List Byte) (e e' : Nat)
    (h : copyLoop flags secs dst e = some (.ok (d, e'))) : d.length = dst.length := by
  induction secs generalizing dst e with
  | nil => simp [copyLoop] at h; rw [h.1]
  | cons s rest ih =>
    unfold copyLoop at h
    simp only [] at h
    split at h
    · cases h
    · split at h
      · cases h
      · split at h
        · cases h
        · rename_i d1 hd1
          split at h
          · cases h
          · rename_i d2 hd2
            have := ih d2 _ h
            rw [this, writeAt_length hd2, writeAt_length hd1]

theorem copyLoop_err (flags : CopyFlags) (secs : List Section) (dst : List Byte) (e : Nat)
    (hfit : fitsB dst.length secs = false) : copyLoop flags secs dst e = some (.error .invalidArgument) := by
  induction secs generalizing dst e with
  | nil => simp [fitsB] at hfit
  | cons s rest ih =>
    unfold fitsB at hfit
    simp only [List.all_cons, Bool.and_eq_false_iff, decide_eq_false_iff_not] at hfit
    unfold copyLoop
    simp only []
    by_cases h1 : s.offset > dst.length
    · rw [if_pos h1]
    · rw [if_neg h1]
      by_cases h2 : dst.length - s.offset < s.bufSize
      · rw [if_pos h2]
      · rw [if_neg h2]
        have hbuf : s.data.length = s.bufSize := rfl
        obtain ⟨d1, hd1⟩ := writeAt_isSome (dst := dst) (off := s.offset) (bytes := s.data) (by omega)
        have hl1 := writeAt_length hd1
        have hp := padLen_le dst.length flags s (by omega) (by omega)
        obtain ⟨d2, hd2⟩ := writeAt_isSome (dst := d1) (off := s.offset + s.bufSize) (bytes := zeros (padLen dst.length flags s)) (by
          rw [zeros_length, hl1]; exact hp)
        rw [hd1]; simp only [hd2]
        apply ih
        rw [writeAt_length hd2, hl1]
        rcases hfit with hfit | hfit
        · omega
        · exact hfit

theorem foldl_max_ge {α : Type} (f : α → Nat) (l : List α) (e : Nat) :
    e ≤ l.foldl (fun m s => max m (f s)) e ∧ ∀ s ∈ l, f s ≤ l.foldl (fun m s => max m (f s)) e := by
  induction l generalizing e with
  | nil => simp
  | cons a rest ih =>
    simp only [List.foldl_cons]
    have := ih (max e (f a))
    refine ⟨by omega, ?_⟩
    intro s hs
    rcases List.mem_cons.mp hs with rfl | hs
    · omega
    · exact this.2 s hs

theorem secByte_lt_extent {n : Nat} {flags : CopyFlags} {s : Section} {k : Nat} (hfit : s.offset + s.bufSize ≤ n)
    (h : secByte n flags s k ≠ none) : k < secExtent n flags s := by
  unfold secByte at h
  unfold secExtent
  have hbuf : s.data.length = s.bufSize := rfl
  by_cases hk0 : s.offset ≤ k
  · rw [if_pos hk0] at h
    by_cases hk1 : k - s.offset < s.data.length
    · by_cases hv : (flags.padSection && decide (s.bufSize < s.vsize)) = true
      · rw [if_pos hv]
        simp only [Bool.and_eq_true, decide_eq_true_eq] at hv
        omega
      · rw [if_neg hv]; omega
    · rw [List.getElem?_eq_none (by omega)] at h
      simp only [] at h
      split at h
      · rename_i hc
        simp only [Bool.and_eq_true, decide_eq_true_eq] at hc
        have hv : (flags.padSection && decide (s.bufSize < s.vsize)) = true := by
          simp only [Bool.and_eq_true, decide_eq_true_eq]; exact ⟨hc.1.1, by omega⟩
        rw [if_pos hv]
        omega
      · exact absurd rfl h
  · rw [if_neg hk0] at h; exact absurd rfl h

/-- `copy_flattened_data` never writes outside the destination — for every table, destination and flag set -/
theorem copyFlattenedSecs_no_fault' (secs : List Section) (dst : List Byte) (flags : CopyFlags) :
    copyFlattenedSecs secs dst flags ≠ .fault := by
  unfold copyFlattenedSecs
  have hnf := copyLoop_no_fault flags secs dst 0
  split
  · contradiction
  · simp
  · rename_i d e heq
    have hl := copyLoop_length flags secs dst d 0 e heq
    split
    · rename_i hc
      simp only [Bool.and_eq_true, decide_eq_true_eq] at hc
      obtain ⟨d', hd'⟩ := writeAt_isSome (dst := d) (off := e) (bytes := zeros (dst.length - e)) (by rw [zeros_length]; omega)
      rw [hd']; simp
    · simp

/-- refusal is exactly "some section's buffer does not lie inside the destination" -/
theorem copyFlattenedSecs_refuses_iff' (secs : List Section) (dst : List Byte) (flags : CopyFlags) :
    (∃ e, copyFlattenedSecs secs dst flags = .error e) ↔ fitsB dst.length secs = false := by
  constructor
  · rintro ⟨e, he⟩
    cases hf : fitsB dst.length secs with
    | false => rfl
    | true =>
      obtain ⟨d, hd, _, _⟩ := copyLoop_ok flags secs dst 0 hf
      unfold copyFlattenedSecs at he
      rw [hd] at he
      simp only [] at he
      split at he
      · split at he <;> cases he
      · cases he
  · intro hf
    refine ⟨.invalidArgument, ?_⟩
    unfold copyFlattenedSecs
    rw [copyLoop_err flags secs dst 0 hf]

/-- the image is exact, byte for byte -/
theorem copyFlattenedSecs_exact' (secs : List Section) (dst : List Byte) (flags : CopyFlags)
    (hfit : fitsB dst.length secs = true) (hno : NoOverlap secs) :
    ∃ d, copyFlattenedSecs secs dst flags = .ok d ∧ d.length = dst.length ∧
      ∀ k, k < dst.length → d[k]? = some (imageByte secs dst.length flags (fun i => dst.getD i 0) k) := by
  obtain ⟨d0, hd0, hl0, hget⟩ := copyLoop_ok flags secs dst 0 hfit
  have hget := hget (disj_of_noOverlap _ _ _ hno)
  have hfits : ∀ s ∈ secs, s.offset + s.bufSize ≤ dst.length := by
    intro s hs
    unfold fitsB at hfit
    rw [List.all_eq_true] at hfit
    simpa using hfit s hs
  have hEnd : ∀ k, dataEnd dst.length flags secs ≤ k → secs.findSome? (fun s => secByte dst.length flags s k) = none := by
    intro k hk
    rw [List.findSome?_eq_none_iff]
    intro s hs
    cases hsb : secByte dst.length flags s k with
    | none => rfl
    | some v =>
      have h1 := secByte_lt_extent (hfits s hs) (k := k) (flags := flags) (by rw [hsb]; simp)
      have h2 := (foldl_max_ge (secExtent dst.length flags) secs 0).2 s hs
      unfold dataEnd at hk
      omega
  have hinit : ∀ k, k < dst.length → dst[k]? = some (dst.getD k 0) := by
    intro k hk
    simp [List.getD_eq_getElem?_getD, List.getElem?_eq_getElem hk]
  unfold copyFlattenedSecs
  rw [hd0]
  simp only []
  split
  · rename_i hc
    simp only [Bool.and_eq_true, decide_eq_true_eq] at hc
    obtain ⟨d', hd'⟩ := writeAt_isSome (dst := d0) (off := secs.foldl (fun m s => max m (secExtent dst.length flags s)) 0)
      (bytes := zeros (dst.length - secs.foldl (fun m s => max m (secExtent dst.length flags s)) 0)) (by rw [zeros_length]; omega)
    rw [hd']
    refine ⟨d', rfl, by rw [writeAt_length hd', hl0], ?_⟩
    intro k hk
    rw [writeAt_get hd', zeros_length]
    unfold imageByte
    by_cases hke : secs.foldl (fun m s => max m (secExtent dst.length flags s)) 0 ≤ k
    · rw [if_pos (by omega), zeros_get, if_pos (by omega), hEnd k hke]
      have hcond : (flags.padTarget && decide (dataEnd dst.length flags secs ≤ k)) = true := by
        simp only [Bool.and_eq_true, decide_eq_true_eq]; exact ⟨hc.2, hke⟩
      simp only [hcond, if_true]
    · rw [if_neg (by omega), hget k]
      cases hfs : secs.findSome? (fun s => secByte dst.length flags s k) with
      | some b => rfl
      | none =>
        simp only []
        have hcond : (flags.padTarget && decide (dataEnd dst.length flags secs ≤ k)) = false := by
          rw [Bool.and_eq_false_iff]; right; rw [decide_eq_false_iff_not]; exact hke
        rw [hcond, hinit k hk]; rfl
  · rename_i hc
    refine ⟨d0, rfl, hl0, ?_⟩
    intro k hk
    rw [hget k]
    unfold imageByte
    cases hfs : secs.findSome? (fun s => secByte dst.length flags s k) with
    | some b => rfl
    | none =>
      simp only []
      simp only [Bool.and_eq_true, decide_eq_true_eq, not_and] at hc
      have hcond : (flags.padTarget && decide (dataEnd dst.length flags secs ≤ k)) = false := by
        rw [Bool.and_eq_false_iff]
        by_cases hpt : flags.padTarget = true
        · -- the flag is set but `end ≥ dst.length`: no byte behind the data
          right
          rw [decide_eq_false_iff_not]
          have hE : ¬ secs.foldl (fun m s => max m (secExtent dst.length flags s)) 0 < dst.length := fun h => hc h hpt
          unfold dataEnd; omega
        · left; simpa using hpt
      rw [hcond, hinit k hk]; rfl

end AsmjitVerif.Sections

namespace AsmjitVerif.Sections

/-! ### copy_section_data -/

/-- the specified result of `copy_section_data`, byte `k` -/
def sectionImageByte (s : Section) (flags : CopyFlags) (init : Nat → Byte) (k : Nat) : Byte :=
  match s.data[k]? with
  | some d => d
  | none => if flags.padSection then 0 else init k

theorem copySection_no_fault' (h : Holder) (dst : List Byte) (id : Nat) (flags : CopyFlags) :
    copySection h dst id flags ≠ .fault := by
  unfold copySection
  split
  · simp
  · split
    · simp
    · rename_i s _
      dsimp only
      split
      · simp
      · rename_i hn
        have hbuf : s.data.length = s.bufSize := rfl
        obtain ⟨d1, hd1⟩ := writeAt_isSome (dst := dst) (off := 0) (bytes := s.data) (by omega)
        rw [hd1]
        dsimp only
        split
        · obtain ⟨d2, hd2⟩ := writeAt_isSome (dst := d1) (off := s.bufSize) (bytes := zeros (dst.length - s.bufSize)) (by
            rw [zeros_length, writeAt_length hd1]; omega)
          rw [hd2]; simp
        · simp

theorem copySection_spec' (h : Holder) (dst : List Byte) (id : Nat) (flags : CopyFlags) (s : Section)
    (hv : h.validId id = true) (hs : findSec h.secs id = some s) :
    (dst.length < s.bufSize → copySection h dst id flags = .error .invalidArgument) ∧
    (s.bufSize ≤ dst.length → ∃ d, copySection h dst id flags = .ok d ∧ d.length = dst.length ∧
        ∀ k, k < dst.length → d[k]? = some (sectionImageByte s flags (fun i => dst.getD i 0) k)) := by
  have hbuf : s.data.length = s.bufSize := rfl
  have hinit : ∀ k, k < dst.length → dst[k]? = some (dst.getD k 0) := by
    intro k hk
    simp [List.getD_eq_getElem?_getD, List.getElem?_eq_getElem hk]
  constructor
  · intro hlt
    unfold copySection
    simp only [hv, Bool.not_true, Bool.false_eq_true, if_false, hs]
    rw [if_pos hlt]
  · intro hle
    obtain ⟨d1, hd1⟩ := writeAt_isSome (dst := dst) (off := 0) (bytes := s.data) (by omega)
    have hl1 := writeAt_length hd1
    unfold copySection
    simp only [hv, Bool.not_true, Bool.false_eq_true, if_false, hs]
    rw [if_neg (by omega), hd1]
    dsimp only
    by_cases hc : (decide (s.bufSize < dst.length) && flags.padSection) = true
    · rw [if_pos hc]
      simp only [Bool.and_eq_true, decide_eq_true_eq] at hc
      obtain ⟨d2, hd2⟩ := writeAt_isSome (dst := d1) (off := s.bufSize) (bytes := zeros (dst.length - s.bufSize)) (by
        rw [zeros_length, hl1]; omega)
      rw [hd2]
      refine ⟨d2, rfl, by rw [writeAt_length hd2, hl1], ?_⟩
      intro k hk
      rw [writeAt_get hd2, writeAt_get hd1, zeros_length]
      unfold sectionImageByte
      by_cases hk1 : k < s.bufSize
      · rw [if_neg (by omega), if_pos (by omega)]
        have : k - 0 = k := by omega
        rw [this, List.getElem?_eq_getElem (by omega)]
      · rw [if_pos (by omega), zeros_get, if_pos (by omega), List.getElem?_eq_none (l := s.data) (by omega)]
        simp [hc.2]
    · rw [if_neg hc]
      refine ⟨d1, rfl, hl1, ?_⟩
      intro k hk
      rw [writeAt_get hd1]
      unfold sectionImageByte
      by_cases hk1 : k < s.bufSize
      · rw [if_pos (by omega)]
        have : k - 0 = k := by omega
        rw [this, List.getElem?_eq_getElem (by omega)]
      · rw [if_neg (by omega), List.getElem?_eq_none (l := s.data) (by omega), hinit k hk]
        simp only [Bool.and_eq_true, decide_eq_true_eq, not_and] at hc
        have hps : flags.padSection = false := by
          cases hp : flags.padSection with
          | false => rfl
          | true => exact absurd hp (hc (by omega))
        simp [hps]

/-! ### the copy loop of JitRuntime::_add -/

theorem writeAt_nil (d : List Byte) (off : Nat) (h : off ≤ d.length) : writeAt d off [] = some d := by
  unfold writeAt
  simp [h]

/-- on a span that holds every section (`offset + real_size ≤ span size`, the two `ASMJIT_ASSERT`s of `_add`) the loop of
    `_add` performs exactly the writes of `copy_flattened_data(kPadSectionBuffer)` -/
theorem jitCopy_eq_copyLoop (l : List Section) (dst : List Byte) (e : Nat)
    (hfit : ∀ s ∈ l, s.offset + s.realSize ≤ dst.length) :
    ∃ d e', copyLoop { padSection := true, padTarget := false } l dst e = some (.ok (d, e')) ∧ jitCopy l dst = some d := by
  induction l generalizing dst e with
  | nil => exact ⟨dst, e, rfl, rfl⟩
  | cons s rest ih =>
    have hs := hfit s (by simp)
    have hbuf : s.data.length = s.bufSize := rfl
    have hreal : s.bufSize ≤ s.realSize ∧ s.vsize ≤ s.realSize := by unfold Section.realSize; omega
    obtain ⟨d1, hd1⟩ := writeAt_isSome (dst := dst) (off := s.offset) (bytes := s.data) (by omega)
    have hl1 := writeAt_length hd1
    unfold copyLoop jitCopy
    dsimp only
    rw [if_neg (by omega), if_neg (by omega), hd1]
    dsimp only
    unfold padLen
    by_cases hv : s.bufSize < s.vsize
    · have hmin : min (dst.length - s.offset) s.vsize - s.bufSize = s.vsize - s.bufSize := by omega
      simp only [hv, decide_true, Bool.and_self, if_true, hmin]
      obtain ⟨d2, hd2⟩ := writeAt_isSome (dst := d1) (off := s.offset + s.bufSize) (bytes := zeros (s.vsize - s.bufSize)) (by
        rw [zeros_length, hl1]; omega)
      rw [hd2]
      dsimp only
      have hl2 := writeAt_length hd2
      obtain ⟨d, e', h1, h2⟩ := ih d2 (max e (s.offset + s.bufSize + (s.vsize - s.bufSize))) (by
        intro t ht; rw [hl2, hl1]; exact hfit t (by simp [ht]))
      exact ⟨d, e', h1, h2⟩
    · simp only [hv, decide_false, Bool.and_false, Bool.false_eq_true, if_false]
      have hz : zeros 0 = [] := rfl
      rw [hz, writeAt_nil d1 _ (by rw [hl1]; omega)]
      dsimp only
      obtain ⟨d, e', h1, h2⟩ := ih d1 (max e (s.offset + s.bufSize + 0)) (by
        intro t ht; rw [hl1]; exact hfit t (by simp [ht]))
      exact ⟨d, e', h1, h2⟩

end AsmjitVerif.Sections
