/- C06: a64 init_func_detail (default and Apple strategies, with fix C06-5) follows AAPCS64 / Apple's rules. -/
import AsmjitVerif.Lemmas.C06Types
namespace AsmjitVerif.C06
open AsmjitVerif.CallConv AsmjitVerif.ABI

/-- the record `CallConv::init` builds on AArch64 for every cdecl-like id -/
def ccA64 (apple : Bool) : CallConv :=
  { arch := .a64, id := 0, strategy := if apple then 3 else 0, srSize := [8, 8, 0, 0], srAlign := [16, 16, 8, 1],
    gpOrder := [0, 1, 2, 3, 4, 5, 6, 7], vecOrder := [0, 1, 2, 3, 4, 5, 6, 7], naturalAlign := 16,
    presGp := maskOf [18, 19, 20, 21, 22, 23, 24, 25, 26, 27, 28, 29, 30], presVec := maskOf [8, 9, 10, 11, 12, 13, 14, 15] }

theorem initCallConv_a64 (e : Env) (ccid : Nat) (apple : Bool)
    (h : convOf e ccid = some (if apple then .apple else .aapcs64)) : initCallConv e ccid = some (ccA64 apple) := by
  obtain ⟨arch, win, darwin⟩ := e
  cases arch
  · simp only [convOf] at h
    repeat' split at h
    all_goals first | contradiction | (cases apple <;> simp at h)
  · simp only [convOf] at h
    repeat' split at h
    all_goals first | contradiction | (cases apple <;> cases win <;> simp at h)
  · simp only [convOf] at h
    split at h
    · rename_i hc
      simp only [initCallConv, initCallConvA64, hc, if_true]
      cases apple <;> cases darwin <;> simp_all [ccA64]
    · contradiction

def a64Dom (t : Nat) : Bool :=
  (isInt t && !isAbstract t) || isF32F64 t || isVec32 t || isVec64 t || isVec128 t || isMask t || isMmx t

structure A64Inv (apple : Bool) (s : St) (older : List Nat) : Prop where
  gp : s.gpPos = min (older.countP isInt) 8
  vec : s.vecPos = min (older.countP a64IsSimd) 8
  off : s.stackOffset = a64StackEnd apple older

theorem orderAt_a64 (k : Nat) :
    orderAt [0, 1, 2, 3, 4, 5, 6, 7] (min k 8) = if k < 8 then k else idBad := by
  by_cases h : k < 8
  · have : k = 0 ∨ k = 1 ∨ k = 2 ∨ k = 3 ∨ k = 4 ∨ k = 5 ∨ k = 6 ∨ k = 7 := by omega
    rcases this with rfl | rfl | rfl | rfl | rfl | rfl | rfl | rfl <;> decide
  · have : min k 8 = 8 := by omega
    simp [this, h]; decide

theorem a64_int_facts : ∀ t ∈ List.range 42, isInt t = true → isAbstract t = false →
    ((if t ≤ tUInt32 then rtGp32 else rtGp64) = gpView t) ∧ max (tySize t) 1 = tySize t ∧ a64IsSimd t = false := by decide +kernel

theorem a64_simd_facts : ∀ t ∈ List.range 101, (isF32F64 t || isVec32 t || isVec64 t || isVec128 t) = true →
    isInt t = false ∧ (isFloat t || isVec t) = true ∧ a64IsSimd t = true ∧ a64FpVecRegType t ≠ 0
    ∧ a64FpVecRegType t = a64SimdView t ∧ max (tySize t) 1 = tySize t := by decide +kernel

theorem a64_none_facts : ∀ t ∈ List.range 101, (isMask t || isMmx t) = true →
    isInt t = false ∧ (isFloat t || isVec t) = false ∧ a64IsSimd t = false := by decide +kernel

theorem a64_dom_int : ∀ t ∈ List.range 101, a64Dom t = true → isInt t = true → isAbstract t = false := by decide +kernel

theorem a64Dom_lt {t : Nat} (h : a64Dom t = true) : t < 101 := by
  simp only [a64Dom, isInt, isF32F64, isVec32, isVec64, isVec128, isMask, isMmx, isAbstract, isBetween, tFloat32, tFloat64,
    Bool.or_eq_true, Bool.and_eq_true, decide_eq_true_eq, Bool.not_eq_true'] at h
  rcases h with (((((⟨h, _⟩ | h | h) | h) | h) | h) | h) | h <;> first | omega | (have := of_decide_eq_true h; omega)

theorem a64_slot (apple : Bool) (t : Nat) (h1 : max (tySize t) 1 = tySize t) :
    max (tySize t) (if (ccA64 apple).strategy = 3 then 1 else 8) = a64SlotSize apple t := by
  cases apple <;> simp [ccA64, a64SlotSize, h1]

theorem a64_step (apple : Bool) (s : St) (older : List Nat) (t : Nat) (hI : A64Inv apple s older) (ht : a64Dom t = true) :
    ∃ s' v, a64Value (ccA64 apple) s t = some (s', v) ∧ v = a64Arg apple older t ∧ A64Inv apple s' (t :: older) := by
  obtain ⟨hgp, hvec, hoff⟩ := hI
  have hm101 : t ∈ List.range 101 := List.mem_range.2 (a64Dom_lt ht)
  have ht0 := ht
  simp only [a64Dom, Bool.or_eq_true, Bool.and_eq_true, Bool.not_eq_true'] at ht
  have hgo : (ccA64 apple).gpOrder = [0, 1, 2, 3, 4, 5, 6, 7] := by cases apple <;> rfl
  have hvo : (ccA64 apple).vecOrder = [0, 1, 2, 3, 4, 5, 6, 7] := by cases apple <;> rfl
  by_cases hi : isInt t = true
  · have hab : isAbstract t = false := a64_dom_int t hm101 ht0 hi
    have hlt42 : t ∈ List.range 42 := by
      simp [isInt, isBetween] at hi; exact List.mem_range.2 (by omega)
    obtain ⟨hview, hmax, hns⟩ := a64_int_facts t hlt42 hi hab
    have hsl := a64_slot apple t hmax
    simp only [a64Value, hi, if_true, hgo, hgp, orderAt_a64, hsl]
    by_cases hk : older.countP isInt < 8
    · have hne : older.countP isInt ≠ idBad := by simp [idBad]; omega
      simp only [hk, if_true, hne, ne_eq, not_false_eq_true]
      refine ⟨_, _, rfl, by simp [a64Arg, hi, hk, hview], ⟨?_, ?_, ?_⟩⟩
      · simp [List.countP_cons, hi]; omega
      · simp [List.countP_cons, hns]; exact hvec
      · simp [a64StackEnd, a64OnStack, hi, hoff]; omega
    · simp only [hk, if_false, ne_eq, not_true_eq_false]
      have hge : older.countP isInt ≥ 8 := by omega
      refine ⟨_, _, rfl, by simp [a64Arg, hi, hk, a64SlotAlign, hoff], ⟨?_, ?_, ?_⟩⟩
      · simp [List.countP_cons, hi]; omega
      · simp [List.countP_cons, hns]; exact hvec
      · simp [a64StackEnd, a64OnStack, hi, hge, a64SlotAlign, hoff]
  · have hi' : isInt t = false := by simpa using hi
    by_cases hs : (isF32F64 t || isVec32 t || isVec64 t || isVec128 t) = true
    · obtain ⟨_, hfv, hsimd, hrt0, hrt, hmax⟩ := a64_simd_facts t hm101 hs
      have hsl := a64_slot apple t hmax
      simp only [a64Value, hi', hfv, if_true, if_false, Bool.false_eq_true, hvo, hvec, orderAt_a64, hsl]
      by_cases hk : older.countP a64IsSimd < 8
      · have hne : older.countP a64IsSimd ≠ idBad := by simp [idBad]; omega
        simp only [hk, if_true, hne, ne_eq, not_false_eq_true, hrt0, if_false]
        refine ⟨_, _, rfl, by simp [a64Arg, hi', hsimd, hk, hrt], ⟨?_, ?_, ?_⟩⟩
        · simp [List.countP_cons, hi']; exact hgp
        · simp [List.countP_cons, hsimd]; omega
        · simp [a64StackEnd, a64OnStack, hi', hsimd, hoff]; omega
      · simp only [hk, if_false, ne_eq, not_true_eq_false]
        have hge : older.countP a64IsSimd ≥ 8 := by omega
        refine ⟨_, _, rfl, by simp [a64Arg, hi', hsimd, hk, a64SlotAlign, hoff], ⟨?_, ?_, ?_⟩⟩
        · simp [List.countP_cons, hi']; exact hgp
        · simp [List.countP_cons, hsimd]; omega
        · simp [a64StackEnd, a64OnStack, hi', hsimd, hge, a64SlotAlign, hoff]
    · have hmm : (isMask t || isMmx t) = true := by
        rcases ht with (((((⟨h, _⟩ | h) | h) | h) | h) | h) | h
        · exact absurd h hi
        all_goals simp_all
      obtain ⟨_, hfv, hsimd⟩ := a64_none_facts t hm101 hmm
      simp only [a64Value, hi', hfv, if_false, Bool.false_eq_true]
      refine ⟨_, _, rfl, by simp [a64Arg, hi', hsimd], ⟨?_, ?_, ?_⟩⟩
      · simp [List.countP_cons, hi']; exact hgp
      · simp [List.countP_cons, hsimd]; exact hvec
      · simp [a64StackEnd, a64OnStack, hi', hsimd, hoff]

theorem a64_loop (apple : Bool) : ∀ (ts : List Nat) (s : St) (older : List Nat), A64Inv apple s older →
    (∀ t ∈ ts, a64Dom t = true) →
    ∃ s' vs, a64ArgLoop (ccA64 apple) s ts = some (s', vs) ∧ vs = argsFrom (if apple then .apple else .aapcs64) false older ts ∧
      A64Inv apple s' (ts.reverse ++ older) := by
  intro ts
  induction ts with
  | nil => intro s older hI _; exact ⟨s, [], rfl, by cases apple <;> rfl, by simpa using hI⟩
  | cons t ts ih =>
    intro s older hI hd
    obtain ⟨s1, v, h1, hv, hI'⟩ := a64_step apple s older t hI (hd t (by simp))
    obtain ⟨s2, vs, h2, hvs, hI''⟩ := ih s1 (t :: older) hI' (fun u hu => hd u (by simp [hu]))
    refine ⟨s2, [v] :: vs, by simp [a64ArgLoop, h1, h2], ?_, by simpa [List.reverse_cons, List.append_assoc] using hI''⟩
    cases apple <;> simp [argsFrom, hv, hvs]

end AsmjitVerif.C06
