/- C08: serialize_groups - in an edit-free run every section's region holds exactly the calls issued while it was current. -/
import AsmjitVerif.Lemmas.C08Zip

namespace AsmjitVerif.Builder
open Spec

/-- invariant of an edit-free run (section re-entry allowed) -/
structure G (t : Spec.St) (a : ASt) (z : Zip) : Prop where
  fr : FRel t a
  items : t.d.items = z.items
  gap : t.d.gap = z.gap
  nodup : t.d.items.Nodup
  secIn : ∀ x, t.d.isSec x = true → x ∈ t.d.items
  heads : ∀ r ∈ z.all, t.d.isSec r.node = true ∧ nodeAt t.f r.node = .section r.sec
  bodies : ∀ r ∈ z.all, ∀ b ∈ r.body, t.d.isSec b = false ∧ ((nodeAt t.f b).toCall).isSection = false
  tabIn : ∀ r ∈ z.all, t.f.sectionNodes.find? (fun e => e.1 == r.sec) = some (r.sec, r.node)
  tabOut : ∀ s e, t.f.sectionNodes.find? (fun e => e.1 == s) = some e → ∃ r ∈ z.all, r.sec = s
  distinct : (z.all.map (·.sec)).Nodup
  cur : a.cur = z.cur.sec
  acur : curAfter 0 a.out = a.cur
  proj : ∀ r ∈ z.all, r.body.map (fun n => (nodeAt t.f n).toCall) = project r.sec 0 a.out
  unent : ∀ s, (∀ r ∈ z.all, r.sec ≠ s) → project s 0 a.out = []

theorem mem_items_of_region (z : Zip) (r : Region) (hr : r ∈ z.all) : r.node ∈ z.items ∧ ∀ b ∈ r.body, b ∈ z.items := by
  rw [← Zip.items_all]
  simp only [flatR, List.mem_flatMap]
  exact ⟨⟨r, hr, by simp [Region.flat]⟩, fun b hb => ⟨r, hr, by simp [Region.flat, hb]⟩⟩

/-- nothing linked: the invariant is kept -/
theorem G_state (t : Spec.St) (a a' : ASt) (z : Zip) (f' : Front) (g : G t a z)
    (hext : ∃ ext, f'.nodes = t.f.nodes ++ ext) (hsn : f'.sectionNodes = t.f.sectionNodes)
    (hout : a'.out = a.out) (hcur : a'.cur = a.cur) (hfr : FRel { f := f', d := t.d } a') :
    G { f := f', d := t.d } a' z := by
  obtain ⟨ext, hext⟩ := hext
  have hst : ∀ n ∈ t.d.items, nodeAt f' n = nodeAt t.f n := fun n hn => nodeAt_prefix _ _ ext hext n (g.fr.fresh n hn)
  refine ⟨hfr, g.items, g.gap, g.nodup, g.secIn, ?_, ?_, ?_, ?_, g.distinct, by rw [hcur]; exact g.cur,
    by rw [hout, hcur]; exact g.acur, ?_, by rw [hout]; exact g.unent⟩
  · intro r hr
    have hm := (mem_items_of_region z r hr).1
    rw [← g.items] at hm
    exact ⟨(g.heads r hr).1, by show nodeAt f' r.node = _; rw [hst _ hm]; exact (g.heads r hr).2⟩
  · intro r hr b hb
    have hm := (mem_items_of_region z r hr).2 b hb
    rw [← g.items] at hm
    exact ⟨(g.bodies r hr b hb).1, by show ((nodeAt f' b).toCall).isSection = _; rw [hst _ hm]; exact (g.bodies r hr b hb).2⟩
  · intro r hr; show f'.sectionNodes.find? _ = _; rw [hsn]; exact g.tabIn r hr
  · intro s e he; exact g.tabOut s e (by rw [← hsn]; exact he)
  · intro r hr
    rw [hout, ← g.proj r hr]
    apply List.map_congr_left
    intro b hb
    have hm := (mem_items_of_region z r hr).2 b hb
    rw [← g.items] at hm
    show (nodeAt f' b).toCall = _
    rw [hst _ hm]

theorem sec_ne_of_nodup (pre post : List Region) (c r : Region) (h : ((pre ++ c :: post).map (·.sec)).Nodup)
    (hr : r ∈ pre ∨ r ∈ post) : r.sec ≠ c.sec := by
  simp only [List.map_append, List.map_cons] at h
  have h' := List.nodup_append.mp h
  rcases hr with hr | hr
  · intro e
    exact h'.2.2 r.sec (List.mem_map_of_mem hr) c.sec (by simp) e
  · intro e
    have := (List.nodup_cons.mp h'.2.1).1
    exact this (e ▸ List.mem_map_of_mem hr)

/-- one node linked at the gap: it joins the focused region, and its call joins that section's projection -/
theorem G_ins (t : Spec.St) (a a' : ASt) (z : Zip) (f' : Front) (n : Nat) (c : Call) (g : G t a z)
    (hext : ∃ ext, f'.nodes = t.f.nodes ++ ext) (hsn : f'.sectionNodes = t.f.sectionNodes)
    (hn : n ∉ t.d.items) (hc : (nodeAt f' n).toCall = c) (hns : c.isSection = false)
    (hout : a'.out = a.out ++ [c]) (hcur : a'.cur = a.cur)
    (hfr : ∀ d' : Doc, (∀ x, x ∈ d'.items ↔ x ∈ t.d.items ∨ x = n) → FRel { f := f', d := d' } a') :
    G { f := f', d := t.d.apply (.add n) } a' (z.push n) := by
  obtain ⟨ext, hext⟩ := hext
  have hst : ∀ m ∈ t.d.items, nodeAt f' m = nodeAt t.f m := fun m hm => nodeAt_prefix _ _ ext hext m (g.fr.fresh m hm)
  have hnd : (t.d.apply (.add n)).items.Nodup := by
    simp only [Doc.apply]
    rw [if_neg (by simp [Doc.has, hn])]
    exact nodup_insertIdx _ _ _ g.nodup hn
  have happ := zip_insert t.d z n g.items g.gap hn
  rw [happ] at hnd ⊢
  have hmem : ∀ x, x ∈ (z.push n).items ↔ x ∈ t.d.items ∨ x = n := by intro x; rw [mem_push, g.items]
  have hnsec : t.d.isSec n = false := by
    cases h : t.d.isSec n with
    | false => rfl
    | true => exact absurd (g.secIn n h) hn
  have hall : (z.push n).all = z.pre ++ { z.cur with body := z.cur.body ++ [n] } :: z.post := rfl
  have hsecs : (z.push n).all.map (·.sec) = z.all.map (·.sec) := by simp [Zip.all, Zip.push]
  have hcall : curAfter 0 a.out = z.cur.sec := by rw [g.acur, g.cur]
  have hprojc : ∀ s, project s 0 (a.out ++ [c]) = project s 0 a.out ++ (if z.cur.sec = s then [c] else []) := by
    intro s
    rw [project_append, hcall, project_cons_nonsec _ _ _ _ hns]; simp [project]
  -- membership in the new region list
  have hcases : ∀ r ∈ (z.push n).all, (r ∈ z.all ∧ (r ∈ z.pre ∨ r ∈ z.post)) ∨ r = { z.cur with body := z.cur.body ++ [n] } := by
    intro r hr
    rw [hall] at hr
    simp only [List.mem_append, List.mem_cons] at hr
    rcases hr with h | h | h
    · exact Or.inl ⟨by simp [Zip.all, h], Or.inl h⟩
    · exact Or.inr h
    · exact Or.inl ⟨by simp [Zip.all, h], Or.inr h⟩
  have hcurmem : z.cur ∈ z.all := by simp [Zip.all]
  refine ⟨hfr _ hmem, rfl, rfl, hnd, ?_, ?_, ?_, ?_, ?_, by rw [hsecs]; exact g.distinct, by rw [hcur]; exact g.cur, ?_, ?_, ?_⟩
  · intro x hx
    exact (hmem x).mpr (Or.inl (g.secIn x hx))
  · intro r hr
    rcases hcases r hr with ⟨hra, _⟩ | rfl
    · have hm := (mem_items_of_region z r hra).1; rw [← g.items] at hm
      exact ⟨(g.heads r hra).1, by show nodeAt f' r.node = _; rw [hst _ hm]; exact (g.heads r hra).2⟩
    · have hm := (mem_items_of_region z z.cur hcurmem).1; rw [← g.items] at hm
      exact ⟨(g.heads z.cur hcurmem).1, by show nodeAt f' z.cur.node = _; rw [hst _ hm]; exact (g.heads z.cur hcurmem).2⟩
  · intro r hr b hb
    rcases hcases r hr with ⟨hra, _⟩ | rfl
    · have hm := (mem_items_of_region z r hra).2 b hb; rw [← g.items] at hm
      exact ⟨(g.bodies r hra b hb).1, by show ((nodeAt f' b).toCall).isSection = _; rw [hst _ hm]; exact (g.bodies r hra b hb).2⟩
    · simp only [List.mem_append, List.mem_singleton] at hb
      rcases hb with hb | rfl
      · have hm := (mem_items_of_region z z.cur hcurmem).2 b hb; rw [← g.items] at hm
        exact ⟨(g.bodies z.cur hcurmem b hb).1, by
          show ((nodeAt f' b).toCall).isSection = _; rw [hst _ hm]; exact (g.bodies z.cur hcurmem b hb).2⟩
      · exact ⟨hnsec, by show ((nodeAt f' b).toCall).isSection = _; rw [hc]; exact hns⟩
  · intro r hr
    show f'.sectionNodes.find? _ = _
    rw [hsn]
    rcases hcases r hr with ⟨hra, _⟩ | rfl
    · exact g.tabIn r hra
    · exact g.tabIn z.cur hcurmem
  · intro s e he
    obtain ⟨r, hr, hrs⟩ := g.tabOut s e (by rw [← hsn]; exact he)
    have : s ∈ (z.push n).all.map (·.sec) := by rw [hsecs]; exact hrs ▸ List.mem_map_of_mem hr
    obtain ⟨r', hr', hrs'⟩ := List.mem_map.mp this
    exact ⟨r', hr', hrs'⟩
  · rw [hout, hcur, curAfter_append, g.acur, curAfter_cons_nonsec _ _ _ hns]; rfl
  · intro r hr
    rw [hout, hprojc]
    rcases hcases r hr with ⟨hra, hpp⟩ | rfl
    · have hne : z.cur.sec ≠ r.sec := (sec_ne_of_nodup z.pre z.post z.cur r g.distinct hpp).symm
      rw [if_neg hne, List.append_nil, ← g.proj r hra]
      apply List.map_congr_left
      intro b hb
      have hm := (mem_items_of_region z r hra).2 b hb; rw [← g.items] at hm
      show (nodeAt f' b).toCall = _; rw [hst _ hm]
    · simp only [List.map_append, List.map_cons, List.map_nil, if_true, hc]
      congr 1
      rw [← g.proj z.cur hcurmem]
      apply List.map_congr_left
      intro b hb
      have hm := (mem_items_of_region z z.cur hcurmem).2 b hb; rw [← g.items] at hm
      show (nodeAt f' b).toCall = _; rw [hst _ hm]
  · intro s hs
    rw [hout, hprojc]
    have hs' : ∀ r ∈ z.all, r.sec ≠ s := by
      intro r hr
      have : r.sec ∈ (z.push n).all.map (·.sec) := by rw [hsecs]; exact List.mem_map_of_mem hr
      obtain ⟨r', hr', hrs'⟩ := List.mem_map.mp this
      rw [← hrs']; exact hs r' hr'
    rw [g.unent s hs', if_neg (hs' z.cur hcurmem)]; rfl

theorem project_snoc_section (s' s : Nat) (out : List Call) : project s' 0 (out ++ [.section s]) = project s' 0 out := by
  rw [project_append]; simp [project]

theorem curAfter_snoc_section (s : Nat) (out : List Call) : curAfter 0 (out ++ [.section s]) = s := by
  rw [curAfter_append]; simp [curAfter]

/-- the `section` call: re-focus an existing region or open a new one at the end -/
theorem G_sec (t : Spec.St) (a : ASt) (z : Zip) (s : Nat) (g : G t a z) :
    ∃ z', G (Spec.step t (.section s)).1 (astep a (.section s)) z' := by
  have fr := g.fr
  rw [spec_step_state]
  by_cases hs : s < a.nSections
  · have hge : ¬ (s ≥ t.f.nSections) := by rw [fr.nSections]; omega
    have ea : astep a (.section s) =
        { (a.emit (.section s)) with cur := s, entered := s :: a.entered, reentered := a.reentered || a.entered.contains s } := by
      simp [astep, hs]
    rw [ea]
    cases hf : t.f.sectionNodes.find? (fun e => e.1 == s) with
    | some e =>
      obtain ⟨r, hr, hrs⟩ := g.tabOut s e hf
      have he : e = (s, r.node) := by
        have := g.tabIn r hr
        rw [hrs, hf] at this
        exact Option.some.inj this
      subst hrs
      obtain ⟨L, R, hsplit⟩ := List.append_of_mem hr
      have hitems : t.d.items = flatR (L ++ r :: R) := by rw [g.items, ← Zip.items_all, hsplit]
      have hRall : ∀ r' ∈ R, r' ∈ z.all := by intro r' h'; rw [hsplit]; simp [h']
      have hre := zip_reenter t.d L R r hitems g.nodup (g.heads r hr).1 (fun b hb => (g.bodies r hr b hb).1)
        (fun r' h' => (g.heads r' (hRall r' h')).1)
      refine ⟨Zip.mk L r R, ?_⟩
      simp only [front, hge, if_false, hf, he, List.foldl_cons, List.foldl_nil]
      rw [hre]
      have hall : (Zip.mk L r R).all = z.all := hsplit.symm
      refine ⟨⟨fr.regSize, fr.nLabels, fr.nSections, fr.opts, fr.extra, fr.cmt, fr.fresh, fr.lab, fr.bound, fr.bnd⟩,
        by show t.d.items = _; rw [← Zip.items_all, hall, Zip.items_all]; exact g.items, rfl, g.nodup, g.secIn,
        by rw [hall]; exact g.heads, by rw [hall]; exact g.bodies, by rw [hall]; exact g.tabIn, by rw [hall]; exact g.tabOut,
        by rw [hall]; exact g.distinct, rfl, ?_, ?_, ?_⟩
      · show curAfter 0 (a.out ++ [.section r.sec]) = r.sec
        exact curAfter_snoc_section _ _
      · intro r' hr'
        rw [hall] at hr'
        show _ = project r'.sec 0 (a.out ++ [.section r.sec])
        rw [project_snoc_section]; exact g.proj r' hr'
      · intro s' hs'
        rw [hall] at hs'
        show project s' 0 (a.out ++ [.section r.sec]) = []
        rw [project_snoc_section]; exact g.unent s' hs'
    | none =>
      have hnone : ∀ r ∈ z.all, r.sec ≠ s := by
        intro r hr e
        have := g.tabIn r hr
        rw [e, hf] at this; simp at this
      have hnot : t.f.nodes.length ∉ t.d.items := fun hm => Nat.lt_irrefl _ (fr.fresh _ hm)
      have hnew := zip_new t.d z s t.f.nodes.length g.items hnot
      refine ⟨Zip.mk z.all ⟨s, t.f.nodes.length, []⟩ [], ?_⟩
      simp only [front, hge, if_false, hf, Front.newNode]
      rw [hnew]
      have hitems' : ∀ x, x ∈ (Zip.mk z.all ⟨s, t.f.nodes.length, []⟩ []).items ↔ x ∈ t.d.items ∨ x = t.f.nodes.length := by
        intro x
        simp only [Zip.items, Region.flat, flatR, List.flatMap_nil, List.append_nil, List.mem_append, List.mem_singleton]
        rw [show List.flatMap Region.flat z.all = flatR z.all from rfl, Zip.items_all, g.items]
      have hst : ∀ m ∈ t.d.items, nodeAt { t.f with nodes := t.f.nodes ++ [Node.section s], sectionNodes := (s, t.f.nodes.length) :: t.f.sectionNodes } m
          = nodeAt t.f m := fun m hm => nodeAt_prefix t.f _ [Node.section s] rfl m (fr.fresh m hm)
      have hnewnode : nodeAt { t.f with nodes := t.f.nodes ++ [Node.section s], sectionNodes := (s, t.f.nodes.length) :: t.f.sectionNodes }
          t.f.nodes.length = .section s := nodeAt_append_new t.f _ _ rfl
      have hall : (Zip.mk z.all ⟨s, t.f.nodes.length, []⟩ []).all = z.all ++ [⟨s, t.f.nodes.length, []⟩] := by simp [Zip.all]
      have hcases : ∀ r ∈ (Zip.mk z.all ⟨s, t.f.nodes.length, []⟩ []).all, r ∈ z.all ∨ r = ⟨s, t.f.nodes.length, []⟩ := by
        intro r hr; rw [hall] at hr; simpa using hr
      have hsecn : ∀ (d' : Doc) (x : Nat), d'.secNodes = t.f.nodes.length :: t.d.secNodes →
          d'.isSec x = (x == t.f.nodes.length || t.d.isSec x) := by
        intro d' x h; simp only [Doc.isSec, h, List.contains_cons]
      refine ⟨FRel_fresh t a _ _ _ (.section s) fr hitems' rfl rfl fr.regSize fr.nSections fr.opts fr.extra fr.cmt rfl rfl,
        rfl, rfl, ?_, ?_, ?_, ?_, ?_, ?_, ?_, rfl, ?_, ?_, ?_⟩
      · show (Zip.mk z.all ⟨s, t.f.nodes.length, []⟩ []).items.Nodup
        have : (Zip.mk z.all ⟨s, t.f.nodes.length, []⟩ []).items = t.d.items ++ [t.f.nodes.length] := by
          simp only [Zip.items, Region.flat, flatR, List.flatMap_nil, List.append_nil]
          rw [show List.flatMap Region.flat z.all = flatR z.all from rfl, Zip.items_all, g.items]
        rw [this, List.nodup_append]
        refine ⟨g.nodup, by simp, ?_⟩
        intro x hx y hy
        simp at hy; subst hy
        exact fun e => hnot (e ▸ hx)
      · intro x hx
        rw [hsecn _ x rfl] at hx
        apply (hitems' x).mpr
        cases hxe : (x == t.f.nodes.length) with
        | true => exact Or.inr (by simpa using hxe)
        | false => rw [hxe] at hx; exact Or.inl (g.secIn x (by simpa using hx))
      · intro r hr
        rcases hcases r hr with hra | rfl
        · have hm := (mem_items_of_region z r hra).1; rw [← g.items] at hm
          refine ⟨by rw [hsecn _ _ rfl]; simp [(g.heads r hra).1], ?_⟩
          show nodeAt _ r.node = _
          rw [hst _ hm]; exact (g.heads r hra).2
        · exact ⟨by rw [hsecn _ _ rfl]; simp, hnewnode⟩
      · intro r hr b hb
        rcases hcases r hr with hra | rfl
        · have hm := (mem_items_of_region z r hra).2 b hb; rw [← g.items] at hm
          have hne : (b == t.f.nodes.length) = false := by
            have := fr.fresh b hm
            simp; omega
          refine ⟨by rw [hsecn _ _ rfl, hne]; simpa using (g.bodies r hra b hb).1, ?_⟩
          show ((nodeAt _ b).toCall).isSection = _
          rw [hst _ hm]; exact (g.bodies r hra b hb).2
        · simp at hb
      · intro r hr
        show List.find? _ ((s, t.f.nodes.length) :: t.f.sectionNodes) = _
        rcases hcases r hr with hra | rfl
        · have hne : (s == r.sec) = false := by simpa using (hnone r hra).symm
          simp only [List.find?_cons, hne]
          exact g.tabIn r hra
        · simp
      · intro s' e he
        change List.find? _ ((s, t.f.nodes.length) :: t.f.sectionNodes) = some e at he
        by_cases hss : s = s'
        · subst hss
          exact ⟨⟨s, t.f.nodes.length, []⟩, by rw [hall]; simp, rfl⟩
        · have hne : (s == s') = false := by simpa using hss
          simp only [List.find?_cons, hne] at he
          obtain ⟨r, hr, hrs⟩ := g.tabOut s' e he
          exact ⟨r, by rw [hall]; simp [hr], hrs⟩
      · rw [hall, List.map_append, List.nodup_append]
        refine ⟨g.distinct, by simp, ?_⟩
        intro x hx y hy
        simp at hy; subst hy
        obtain ⟨r, hr, hrs⟩ := List.mem_map.mp hx
        exact fun e => hnone r hr (hrs.trans e)
      · show curAfter 0 (a.out ++ [.section s]) = s
        exact curAfter_snoc_section _ _
      · intro r hr
        show _ = project r.sec 0 (a.out ++ [.section s])
        rw [project_snoc_section]
        rcases hcases r hr with hra | rfl
        · rw [← g.proj r hra]
          apply List.map_congr_left
          intro b hb
          have hm := (mem_items_of_region z r hra).2 b hb; rw [← g.items] at hm
          show (nodeAt _ b).toCall = _
          rw [hst _ hm]
        · simp [g.unent s hnone]
      · intro s' hs'
        show project s' 0 (a.out ++ [.section s]) = []
        rw [project_snoc_section]
        exact g.unent s' (fun r hr => hs' r (by rw [hall]; simp [hr]))
  · have hge : s ≥ t.f.nSections := by rw [fr.nSections]; omega
    have e : astep a (.section s) = a := by simp [astep, hs]
    rw [e]
    exact ⟨z, by simpa [front, hge] using g⟩

/-- one emitter call (anything but node-list editing and embed_const_pool) keeps the invariant -/
theorem G_step (t : Spec.St) (a : ASt) (z : Zip) (op : Op) (g : G t a z) (hed : isEdit op = false)
    (hcp : ∀ l y b, op ≠ .cpool l y b) : ∃ z', G (Spec.step t op).1 (astep a op) z' := by
  by_cases hsec : ∃ s, op = .section s
  · obtain ⟨s, rfl⟩ := hsec
    exact G_sec t a z s g
  · have hsec' : ∀ s, op ≠ .section s := fun s e => hsec ⟨s, e⟩
    cases op_eff t a op g.fr hed hsec' hcp with
    | state f' hstep hext hsn hout hcur hent hre hfr =>
      rw [hstep]; exact ⟨z, G_state t a _ z f' g hext hsn hout hcur hfr⟩
    | ins f' n c hstep hext hsn hn hc hns hout hcur hent hre hfr =>
      rw [hstep]; exact ⟨z.push n, G_ins t a _ z f' n c g hext hsn hn hc hns hout hcur hfr⟩

/-- emitter calls only -/
def CallsOnly0 (ops : List Op) : Prop := ∀ op ∈ ops, isEdit op = false ∧ ∀ l y b, op ≠ .cpool l y b

theorem G_run0 : ∀ (ops : List Op) (t : Spec.St) (a : ASt) (z : Zip), G t a z → CallsOnly0 ops →
    ∃ z', G (Spec.run t ops) (arun a ops) z' := by
  intro ops
  induction ops with
  | nil => intro t a z g _; exact ⟨z, g⟩
  | cons op rest ih =>
    intro t a z g h
    obtain ⟨z1, g1⟩ := G_step t a z op g (h op (by simp)).1 (h op (by simp)).2
    obtain ⟨z2, g2⟩ := ih _ _ z1 g1 (fun o ho => h o (by simp [ho]))
    exact ⟨z2, by simpa [Spec.run, arun, List.foldl_cons] using g2⟩

theorem G_init (r : Nat) : G (Spec.St.init r) { regSize := r } ⟨[], ⟨0, 0, []⟩, []⟩ := by
  refine ⟨⟨rfl, rfl, rfl, rfl, rfl, rfl, ?_, ?_, ?_, ?_⟩, rfl, rfl, by simp [Spec.St.init], ?_, ?_, ?_, ?_, ?_, by simp [Zip.all], rfl, rfl,
    ?_, ?_⟩
  · intro n h; simp [Spec.St.init] at h ⊢; omega
  · intro l h; simp at h
  · intro l n h; simp at h
  · intro l h; simp at h
  · intro x hx; simp [Spec.St.init, Doc.isSec] at hx ⊢; exact hx
  · intro r hr; simp [Zip.all] at hr; subst hr; simp [Spec.St.init, Doc.isSec, nodeAt]
  · intro r hr b hb; simp [Zip.all] at hr; subst hr; simp at hb
  · intro r hr; simp [Zip.all] at hr; subst hr; simp [Spec.St.init]
  · intro s e he
    simp only [Spec.St.init, List.find?_cons, List.find?_nil] at he
    by_cases h0 : s = 0
    · subst h0; exact ⟨⟨0, 0, []⟩, by simp [Zip.all], rfl⟩
    · have : ((0 : Nat) == s) = false := by simpa using (Ne.symm h0)
      simp [this] at he
  · intro r hr; simp [Zip.all] at hr; subst hr; simp [project]
  · intro s _; simp [project]

/-- the linearisation of a region-structured document is the grouped call list -/
theorem map_flatR (f : Nat → Call) (rs : List Region) (h : ∀ r ∈ rs, f r.node = .section r.sec) :
    (flatR rs).map f = groupCalls (rs.map fun r => (r.sec, r.body.map f)) := by
  induction rs with
  | nil => simp [flatR, groupCalls]
  | cons r rest ih =>
    rw [flatR_cons]
    simp only [Region.flat, List.map_append, List.map_cons, groupCalls, h r (by simp), List.cons_append]
    rw [ih (fun r' hr' => h r' (by simp [hr']))]

/-- per section: what the document linearises to for that section is what the Assembler received for it -/
theorem G_project (t : Spec.St) (a : ASt) (z : Zip) (g : G t a z) (s : Nat) :
    project s 0 (linearize t) = project s 0 (.section 0 :: a.out) := by
  have hlin : linearize t = groupCalls (z.all.map fun r => (r.sec, r.body.map fun n => (nodeAt t.f n).toCall)) := by
    simp only [linearize]
    rw [g.items, ← Zip.items_all]
    exact map_flatR _ _ (fun r hr => by rw [(g.heads r hr).2]; rfl)
  have hnosec : ∀ gr ∈ (z.all.map fun r => (r.sec, r.body.map fun n => (nodeAt t.f n).toCall)), ∀ c ∈ gr.2, c.isSection = false := by
    intro gr hgr c hc
    obtain ⟨r, hr, rfl⟩ := List.mem_map.mp hgr
    obtain ⟨b, hb, rfl⟩ := List.mem_map.mp hc
    exact (g.bodies r hr b hb).2
  rw [hlin, project_groups s _ 0 hnosec]
  have hkeys : ((z.all.map fun r => (r.sec, r.body.map fun n => (nodeAt t.f n).toCall)).map (fun gr => gr.1)).Nodup := by
    simpa [List.map_map, Function.comp_def] using g.distinct
  have hrhs : project s 0 (.section 0 :: a.out) = project s 0 a.out := by simp [project]
  rw [hrhs]
  rcases filter_unique (fun gr : Nat × List Call => gr.1) s _ hkeys with h | ⟨gr, hgr, hk, hf⟩
  · rw [h]
    simp only [List.flatMap_nil]
    symm
    apply g.unent s
    intro r hr e
    have : (r.sec, r.body.map fun n => (nodeAt t.f n).toCall) ∈
        (z.all.map fun r => (r.sec, r.body.map fun n => (nodeAt t.f n).toCall)).filter (fun gr => gr.1 == s) := by
      rw [List.mem_filter]; exact ⟨List.mem_map_of_mem hr, by simp [e]⟩
    rw [h] at this; simp at this
  · rw [hf]
    obtain ⟨r, hr, rfl⟩ := List.mem_map.mp hgr
    simp only [List.flatMap_cons, List.flatMap_nil, List.append_nil]
    simp only at hk
    rw [← hk]; exact g.proj r hr

end AsmjitVerif.Builder
