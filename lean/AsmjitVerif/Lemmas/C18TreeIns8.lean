/-
C18 — ArenaTree insert, part 8: the colour-flip iteration in mode `N` (flip, then no rotation / single rotation /
double rotation, then descend).  Core-only.
-/
import AsmjitVerif.Lemmas.C18TreeIns7
namespace AsmjitVerif.Tree.Ins
open AsmjitVerif.Tree AsmjitVerif.Tree.Spec

theorem red_shape {X : T} (h : X.isRed = true) : ∃ i k l r, X = .node i k true l r := by
  cases X with
  | nil => cases h
  | node i k c l r =>
    cases c
    · cases h
    · exact ⟨i, k, l, r, rfl⟩

theorem step_N_flip {C : Cfg} {fuel : Nat} (ih : LoopIH C fuel) (hs : Sorted C.K0) (hk : C.k ∉ C.K0)
    {ctx : List Frame} {Q : T} {h : Tree} {g p tt q : Nat} {dir last : Bool}
    (core : CoreH C C.K0 C.I0 h (plug ctx Q)) (fresh : Fresh C h) (bnd : Bnd C.k ctx) (col : Col (plug ctx Q))
    (hq : Rep h q Q) (hm : ModeOK C.k .N ctx Q g p tt dir last) (hf : FuelOK .N (fuel + 1) Q)
    (hfl : (childD Q false).isRed = true ∧ (childD Q true).isRed = true) :
    Post C (insertLoop (fuel + 1) h C.node g p tt q dir last) := by
  obtain ⟨vp, vg, vt, cn⟩ := hm
  obtain ⟨n, hb, hfu⟩ := hf
  have hge := ctx_idx_ge core.rep
  have nrrQ := nrr_plug_sub col.1
  -- shape of Q
  cases Q with
  | nil => cases hfl.1
  | node q' kq c L R =>
  simp only [childD, Bool.false_eq_true, if_false, if_true] at hfl
  obtain ⟨ql, kl, LL, LR, rfl⟩ := red_shape hfl.1
  obtain ⟨qr, kr, RL, RR, rfl⟩ := red_shape hfl.2
  have eq' : q' = q := Rep_rootIdx hq
  subst eq'
  obtain ⟨hc, ⟨hLk, nLL, nLR⟩, ⟨hRk, nRL, nRR⟩⟩ := nrrQ
  have hcf : c = false := by
    cases c
    · rfl
    · exact nomatch (hc rfl).1
  subst hcf
  obtain ⟨hLLb, hLRb⟩ := hLk rfl
  obtain ⟨hRLb, hRRb⟩ := hRk rfl
  have hfu' : 3 * n + 1 ≤ fuel + 1 := by simpa [T.isRed] using hfu
  have ndQ := plug_nodup_sub core.nodup
  obtain ⟨ecl, ecr, rq1, so0⟩ := rep_flip hq ndQ
  -- names
  generalize hQ1 : T.node q' kq true (.node ql kl false LL LR) (.node qr kr false RL RR) = Q1 at rq1
  generalize hh1 : makeBlack (makeBlack (makeRed h q') ql) qr = h1 at rq1 so0
  have hq2 : 2 ≤ q' := (Rep_idx_ge hq q' (by simp [T.idxs])).1
  have erec : recolor h C.node p q' dir = (h1, q') := by
    have e1 : isRed h ql = true := by rw [← ecl, isRed_child hq (by simp) false]; rfl
    have e2 : isRed h qr = true := by rw [← ecr, isRed_child hq (by simp) true]; rfl
    simp only [recolor, if_neg (show q' ≠ 0 by omega), e1, e2, Bool.and_self, if_true, ecl, ecr, hh1]
  have hQ1idx : Q1.idxs = (T.node q' kq false (.node ql kl true LL LR) (.node qr kr true RL RR)).idxs := by
    rw [← hQ1]; rfl
  have hQ1keys : Q1.keys = (T.node q' kq false (.node ql kl true LL LR) (.node qr kr true RL RR)).keys := by
    rw [← hQ1]; rfl
  have hS : ∀ i ∈ [q', ql, qr], i ∈ (T.node q' kq false (.node ql kl true LL LR) (.node qr kr true RL RR)).idxs := by
    intro i hi
    simp only [List.mem_cons, List.not_mem_nil, or_false] at hi
    simp only [mem_idxs_node]
    rcases hi with hi | hi | hi <;> simp [hi]
  have hdis := plug_disjoint core.nodup
  have so1 : SameOut (1 :: (plug ctx (T.node q' kq false (.node ql kl true LL LR) (.node qr kr true RL RR))).idxs)
      h h1 := so0.mono (fun i hi => List.mem_cons_of_mem _ (mem_idxs_plug.2 (Or.inl (hS i hi))))
  have eroot : rootOf h1 = rootOf h := by
    simp only [rootOf]
    rw [so0.cells 1 ?_]
    intro e
    have := (Rep_idx_ge hq 1 (hS 1 e)).1
    omega
  have rep1 : Rep h1 (rootOf h1) (plug ctx Q1) := by
    rw [eroot]
    refine rep_plug_replace core.rep ?_ (by rw [so0.size]; exact Nat.le_refl _) ?_
    · intro i hi
      exact so0.cells i (fun e => hdis i (hS i e) hi)
    · intro n' rn'
      have : n' = q' := Rep_idx_unique rn' hq
      rw [this]; exact rq1
  have perm1 : (plug ctx Q1).idxs.Perm
      (plug ctx (T.node q' kq false (.node ql kl true LL LR) (.node qr kr true RL RR))).idxs :=
    idxs_plug_congr ctx (List.Perm.of_eq hQ1idx)
  have keys1 := keys_plug_congr ctx hQ1keys
  have core1 := core.step so1 rep1 perm1 keys1
  have fresh1 := fresh.step core so1
  have red1 : Q1.isRed = true := by rw [← hQ1]; rfl
  have nrr1 : Q1.noRedRed := by
    rw [← hQ1]
    exact ⟨fun _ => ⟨rfl, rfl⟩, ⟨(fun e => nomatch e), nLL, nLR⟩, ⟨(fun e => nomatch e), nRL, nRR⟩⟩
  -- black heights
  cases hb with
  | black hbL hbR =>
  rename_i m
  cases hbL with
  | red hbLL hbLR =>
  cases hbR with
  | red hbRL hbRR =>
  have bhrel : ∀ m', (T.node q' kq false (.node ql kl true LL LR) (.node qr kr true RL RR)).blackH m' →
      Q1.blackH m' := by
    intro m' hm'
    have := blackH_unique hm' (.black (.red hbLL hbLR) (.red hbRL hbRR))
    rw [this, ← hQ1]
    exact .red (.black hbLL hbLR) (.black hbRL hbRR)
  have hkidF : ∀ x, colF (childD Q1 x) ∧ (childD Q1 x).blackH (m + 1) := by
    intro x
    rw [← hQ1]
    cases x
    · exact ⟨⟨by simp [childD], rfl, hLLb, hLRb⟩, .black hbLL hbLR⟩
    · exact ⟨⟨by simp [childD], rfl, hRLb, hRRb⟩, .black hbRL hbRR⟩
  have hrk1 : rkey Q1 = kq := by rw [← hQ1]; rfl
  have hri1 : Q1.rootIdx = q' := by rw [← hQ1]; rfl
  have hQ1nn : Q1 ≠ .nil := ne_nil_of_red red1
  obtain ⟨ctx2, Q2, r2, perm2, keys2, so2, col2, hcases⟩ :=
    fixup_spec (g := g) (p := p) (tt := tt) (dir := dir) (last := last)
      rep1 core1.nodup core1.one rq1 red1 nrr1 col bhrel cn vp vg vt
  have core2 := core1.step so2 r2 perm2 keys2
  have fresh2 := fresh1.step core1 so2
  have hne : q' ≠ C.node := by
    intro e
    have h1' : q' ∈ (plug ctx (T.node q' kq false (.node ql kl true LL LR) (.node qr kr true RL RR))).idxs :=
      mem_idxs_plug.2 (Or.inl (hS q' (by simp)))
    have h2' : C.node ∈
        (plug ctx (T.node q' kq false (.node ql kl true LL LR) (.node qr kr true RL RR))).idxs := by
      rw [← e]; exact h1'
    exact fresh.notin (core.idxs.mem_iff.1 h2')
  have hnk : key (fixup h1 g p tt q' last) C.node = C.k := by simp only [key, fresh2.cell]
  rw [insertLoop_succ]
  simp only [erec, if_neg hne, hnk]
  generalize fixup h1 g p tt q' last = h2 at *
  obtain ⟨n2, rn2⟩ := rep_plug_sub r2
  have sorted2 : Sorted (plug ctx2 Q2).keys := core2.keys ▸ hs
  have notin2 : C.k ∉ (plug ctx2 Q2).keys := core2.keys ▸ hk
  rcases hcases with ⟨_, rfl, rfl, htb⟩ | ⟨pp, kp, A, gg, kg, U, dl, rest, rfl, rfl, rfl⟩ |
      ⟨pp, kp, A, gg, kg, U, d, rest, rfl, rfl, rfl, hAb, hUb⟩
  · -- no rotation
    have en2 : n2 = q' := by rw [← Rep_rootIdx rn2, hri1]
    subst en2
    rw [key_rkey rn2 hQ1nn, hrk1]
    have hpl := plug_desc ctx2 hQ1nn (decide (kq < C.k))
    have hb2 := bnd_descend hQ1nn bnd sorted2 notin2
    rw [hrk1] at hb2
    refine ih .F _ _ h2 _ _ _ _ _ _ (by rw [hpl]; exact core2) fresh2 hb2 (by rw [hpl]; exact col2)
      (rep_childD rn2 hQ1nn _) ⟨?_, ?_, ?_, (hkidF _).1⟩ ⟨m, (hkidF _).2, by omega⟩
    · exact vp_desc _ _ _ _ hri1
    · exact vg_desc _ vp
    · intro hp0
      cases ctx2 with
      | nil =>
        simp only [VG] at vg; simp only [VT] at vt
        simp only [vg, ne_eq, not_true_eq_false, if_false]; exact vt
      | cons f fs =>
        simp only [VP] at vp
        have := hge f.idx (by simp [ctxIdxs])
        omega
  · -- single rotation
    have en2 : n2 = q' := by rw [← Rep_rootIdx rn2, hri1]
    subst en2
    rw [key_rkey rn2 hQ1nn, hrk1]
    have hpl := plug_desc (⟨pp, kp, false, dl, nodeD dl gg kg true A U⟩ :: rest) hQ1nn (decide (kq < C.k))
    have hb2 := bnd_descend hQ1nn (bnd_single (cp' := false) (cg' := true) bnd) sorted2 notin2
    rw [hrk1] at hb2
    simp only [VP] at vp
    refine ih .F _ _ h2 _ _ _ _ _ _ (by rw [hpl]; exact core2) fresh2 hb2 (by rw [hpl]; exact col2)
      (rep_childD rn2 hQ1nn _) ⟨?_, ?_, ?_, (hkidF _).1⟩ ⟨m, (hkidF _).2, by omega⟩
    · exact vp_desc _ _ _ _ hri1
    · exact vg_desc _ (show VP (⟨pp, kp, false, dl, nodeD dl gg kg true A U⟩ :: rest) p dir from vp)
    · intro hp0
      have := hge pp (by simp [ctxIdxs])
      have : p = pp := vp.1
      omega
  · -- double rotation
    rw [hri1, hrk1] at rn2 core2 col2 sorted2 notin2
    generalize hG' : nodeD (!d) gg kg true (childD Q1 d) U = G' at *
    generalize hP' : nodeD d pp kp true (childD Q1 (!d)) A = P' at *
    have hQ2nn : nodeD d q' kq false G' P' ≠ .nil := nodeD_ne_nil _ _ _ _ _ _
    have en2 : n2 = q' := by rw [← Rep_rootIdx rn2, rootIdx_nodeD]
    rw [en2] at rn2
    rw [key_rkey rn2 hQ2nn, rkey_nodeD]
    have hpl := plug_desc ctx2 hQ2nn (decide (kq < C.k))
    have hb2 := bnd_descend hQ2nn (bnd_tail (bnd_tail bnd)) sorted2 notin2
    rw [rkey_nodeD] at hb2
    have dirP : decide (kp < C.k) = d := bnd_dir bnd
    have dirG : decide (kg < C.k) = !d := bnd_dir (bnd_tail bnd)
    simp only [VP] at vp
    have hp0 : p ≠ 0 := by
      have := hge pp (by simp [ctxIdxs])
      have : p = pp := vp.1
      omega
    -- black heights of the rotated subtree
    obtain ⟨nW, hW⟩ := col2.2
    obtain ⟨x, hx⟩ := bh_plug_sub hW
    rw [blackH_nodeD_black] at hx
    obtain ⟨x', _, hxG, hxP⟩ := hx
    have hxG0 := hxG
    rw [← hG', blackH_nodeD_red] at hxG0
    have ex : x' = m + 1 := blackH_unique hxG0.1 (hkidF d).2
    subst ex
    have hchild : (childD (nodeD d q' kq false G' P') (decide (kq < C.k))) = G' ∨
        (childD (nodeD d q' kq false G' P') (decide (kq < C.k))) = P' := by
      rw [childD_nodeD]; split
      · exact Or.inl rfl
      · exact Or.inr rfl
    have hcolG : G'.isRed = true ∧ blackKids G' ∧ colF (childD G' (decide (rkey G' < C.k))) := by
      rw [← hG']
      refine ⟨isRed_nodeD _ _ _ _ _ _, ?_, ?_⟩
      · rw [blackKids_iff _ (!d), childD_nodeD, childD_nodeD]
        simp only [if_true, Bool.not_not]
        refine ⟨(hkidF d).1.2.1, ?_⟩
        cases d <;> exact hUb
      · rw [rkey_nodeD, dirG, childD_nodeD, if_pos rfl]; exact (hkidF d).1
    have hcolP : P'.isRed = true ∧ blackKids P' ∧ colF (childD P' (decide (rkey P' < C.k))) := by
      rw [← hP']
      refine ⟨isRed_nodeD _ _ _ _ _ _, ?_, ?_⟩
      · rw [blackKids_iff _ d, childD_nodeD, childD_nodeD]
        simp only [if_true]
        refine ⟨(hkidF (!d)).1.2.1, ?_⟩
        cases d <;> exact hAb
      · rw [rkey_nodeD, dirP, childD_nodeD, if_pos rfl]; exact (hkidF (!d)).1
    refine ih .D1 _ _ h2 _ _ _ _ _ _ (by rw [hpl]; exact core2) fresh2 hb2 (by rw [hpl]; exact col2)
      (rep_childD rn2 hQ2nn _) ⟨?_, hp0, ?_, ?_, ?_⟩ ?_
    · exact vp_desc _ _ _ _ (rootIdx_nodeD _ _ _ _ _ _)
    · exact List.cons_ne_nil _ _
    · simp only [topBlack, descF, isRed_nodeD]
    · rcases hchild with e | e <;> rw [e]
      · exact hcolG
      · exact hcolP
    · rcases hchild with e | e <;> rw [e]
      · exact ⟨m, hxG, by omega⟩
      · exact ⟨m, hxP, by omega⟩

end AsmjitVerif.Tree.Ins
