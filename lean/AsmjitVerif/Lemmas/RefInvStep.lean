/- Inv is preserved by every operation except resolve / relocate (those are the final phase: Lemmas/RefInvResolve.lean). -/
import AsmjitVerif.Lemmas.RefInvBind
namespace AsmjitVerif.CodeHolder
open AsmjitVerif.Offset

theorem curOff_emit (s : State) (bs : Bytes) (h : s.cur < s.secs.length) : (s.emit bs).curOff = s.curOff + bs.length := by
  unfold State.curOff State.emit
  dsimp only
  have : s.secs[s.cur]? = some (s.secs[s.cur]'h) := by simp [h]
  rw [modifySec_get_same _ _ _ _ this, this]
  simp

/-- a reference site: `lead` bytes, a patchable fixup for the word that starts right after them, `tail` bytes holding that word -/
theorem inv_site (s : State) (h : Inv s) (lead tail : Bytes) (l off : Nat) (rel : BitVec 64) (fmt : OffsetFormat)
    (hoff : off = s.curOff + lead.length) (hf : fmt ∈ fixupFormats)
    (ht : ∃ old0, loadLE tail 0 fmt.valueSize = some old0 ∧ BitVec.ofNat 32 old0 &&& fieldMask32 fmt = 0#32) :
    Inv ((newFixup (s.emit lead) l { sec := s.cur, lr := none, offset := off, rel := rel, fmt := fmt }).emit tail) := by
  apply inv_newFixup_emit _ (h.frame (frame_emit _ _ h.cur))
  · rfl
  · rw [curOff_emit _ _ h.cur]; exact hoff
  · intro _; exact hf
  · intro _; exact ht
  · intro hne; exact absurd rfl hne

theorem frame_newReloc (s : State) (r : Reloc) (h : s.cur < s.secs.length) : Frame s (newReloc s r).1 :=
  frame_of_eq rfl rfl rfl rfl rfl h

theorem frame_newReloc_emit (s : State) (r : Reloc) (bs : Bytes) (h : s.cur < s.secs.length) : Frame s ((newReloc s r).1.emit bs) :=
  (frame_newReloc s r h).trans (frame_emit _ _ h)

theorem frame_exprs_emit (s : State) (r : Reloc) (e : List (Nat × Nat)) (bs : Bytes) (h : s.cur < s.secs.length) :
    Frame s (State.emit { (newReloc s r).1 with exprs := e } bs) :=
  (frame_of_eq (s := s) (s' := { (newReloc s r).1 with exprs := e }) rfl rfl rfl rfl rfl h).trans (frame_emit _ _ h)

theorem tail_zeros (n : Nat) (x : Bytes) (fmt : OffsetFormat) (hn : fmt.valueSize = n) :
    ∃ old0, loadLE (zeros n ++ x) 0 fmt.valueSize = some old0 ∧ BitVec.ofNat 32 old0 &&& fieldMask32 fmt = 0#32 :=
  ⟨0, by rw [hn]; exact loadLE_zeros n n 0 x (by omega), by simp⟩

theorem tail_zeros' (n : Nat) (fmt : OffsetFormat) (hn : fmt.valueSize = n) :
    ∃ old0, loadLE (zeros n) 0 fmt.valueSize = some old0 ∧ BitVec.ofNat 32 old0 &&& fieldMask32 fmt = 0#32 := by
  have := tail_zeros n [] fmt hn
  simpa using this

theorem fmtS1_mem : fmtS 1 ∈ fixupFormats := by simp [fixupFormats]
theorem fmtS4_mem : fmtS 4 ∈ fixupFormats := by simp [fixupFormats]
theorem a64fmt_mem (k : A64Kind) : k.fmt ∈ fixupFormats := by cases k <;> simp [fixupFormats]

theorem a64_tail (k : AKind) :
    ∃ old0, loadLE (leBytes k.opcode.toNat 4) 0 k.kind.fmt.valueSize = some old0 ∧
      BitVec.ofNat 32 old0 &&& fieldMask32 k.kind.fmt = 0#32 := by
  refine ⟨k.opcode.toNat, ?_, ?_⟩ <;> cases k <;> decide

theorem inv_newLabel (s : State) (h : Inv s) : Inv (newLabel s).1 := by
  unfold newLabel
  dsimp only
  have hget : ∀ (i : Nat) (e : LabelEntry), s.labels[i]? = some e → (s.labels ++ [LabelEntry.unbound []])[i]? = some e := by
    intro i e he; rw [List.getElem?_append_left (getElem?_lt he)]; exact he
  refine ⟨h.cur, h.fmts, h.inb, h.disj, ?_, ?_, h.glob, ?_⟩
  · intro g hg
    refine status_mono (s := s) ?_ ?_ ?_ rfl (h.status g hg)
    · rintro (⟨fx, h1, h2⟩ | h1)
      · exact .inl ⟨fx, hget _ _ h1, h2⟩
      · exact .inr h1
    · rintro (⟨fx, h1, h2⟩ | h1)
      · replace h1 : (s.labels ++ [LabelEntry.unbound []])[g.label]? = some (LabelEntry.unbound fx) := h1
        by_cases hlt : g.label < s.labels.length
        · rw [List.getElem?_append_left hlt] at h1; exact .inl ⟨fx, h1, h2⟩
        · rw [List.getElem?_append_right (by omega)] at h1
          cases hx : g.label - s.labels.length with
          | zero => rw [hx] at h1; simp at h1; subst h1; cases h2
          | succ k => rw [hx] at h1; simp at h1
      · exact .inr h1
    · intro sec off hb; exact hget _ _ hb
  · intro l fx hl
    replace hl : (s.labels ++ [LabelEntry.unbound []])[l]? = some (LabelEntry.unbound fx) := hl
    by_cases hlt : l < s.labels.length
    · rw [List.getElem?_append_left hlt] at hl; exact h.lab l fx hl
    · rw [List.getElem?_append_right (by omega)] at hl
      have : fx = [] := by
        cases hx : l - s.labels.length with
        | zero => rw [hx] at hl; simp at hl; exact hl
        | succ k => rw [hx] at hl; simp at hl
      subst this
      exact ⟨fun f hf => absurd hf (by simp), by simp⟩
  · intro f hf
    obtain ⟨k, sec, off, h1, h2⟩ := h.wf f hf
    exact ⟨k, sec, off, h1, hget _ _ h2⟩

theorem secsExt_flattenAssign : ∀ (ord : List Nat) (secs : List Section) (off : BitVec 64) (prev : Option Nat),
    SecsExt secs (flattenAssign secs ord off prev) ∧ (flattenAssign secs ord off prev).length = secs.length := by
  intro ord
  induction ord with
  | nil => intro secs off prev; exact ⟨SecsExt.refl _, rfl⟩
  | cons i rest ih =>
    intro secs off prev
    unfold flattenAssign
    cases hs : secs[i]? with
    | none => exact ih secs off prev
    | some sec =>
      dsimp only
      split
      · have e := secsExt_modifySec secs i (fun s => { s with offset := off }) (fun x => ⟨[], by simp⟩)
        have r := ih (modifySec secs i (fun s => { s with offset := off })) off prev
        exact ⟨e.trans r.1, by rw [r.2, modifySec_length]⟩
      · cases prev with
        | none =>
          dsimp only
          have e := secsExt_modifySec secs i (fun s => { s with offset := alignUp off sec.align }) (fun x => ⟨[], by simp⟩)
          have r := ih (modifySec secs i (fun s => { s with offset := alignUp off sec.align })) (alignUp off sec.align + sec.realSize) (some i)
          exact ⟨e.trans r.1, by rw [r.2, modifySec_length]⟩
        | some p =>
          dsimp only
          have e1 := secsExt_modifySec secs p (fun s => { s with virtSize := alignUp off sec.align - s.offset }) (fun x => ⟨[], by simp⟩)
          have e2 := secsExt_modifySec (modifySec secs p (fun s => { s with virtSize := alignUp off sec.align - s.offset })) i
            (fun s => { s with offset := alignUp off sec.align }) (fun x => ⟨[], by simp⟩)
          have r := ih (modifySec (modifySec secs p (fun s => { s with virtSize := alignUp off sec.align - s.offset })) i
            (fun s => { s with offset := alignUp off sec.align })) (alignUp off sec.align + sec.realSize) (some i)
          exact ⟨(e1.trans e2).trans r.1, by rw [r.2, modifySec_length, modifySec_length]⟩

theorem frame_flatten (s : State) (h : s.cur < s.secs.length) : Frame s (flatten s).1 := by
  unfold flatten
  dsimp only
  split
  · exact Frame.refl h
  · have r := secsExt_flattenAssign (byOrder s.secs) s.secs 0#64 none
    exact ⟨rfl, rfl, rfl, r.1, by show s.cur < (flattenAssign _ _ _ _).length; rw [r.2]; exact h⟩

/-- operations of the assembling phase (everything except the final resolve / relocate) -/
def Op.early : Op → Bool
  | .resolve | .relocate _ => false
  | _ => true

theorem inv_x86MemAbsM (s : State) (sh : AShape) (a : AddrT) (t : BitVec 64) (h : Inv s) : Inv (x86MemAbsM s sh a t).1 := by
  unfold x86MemAbsM
  dsimp only
  repeat' split
  all_goals first
    | exact h
    | exact h.frame (frame_emit _ _ h.cur)
    | exact h.frame (frame_newReloc_emit s _ _ h.cur)

theorem step_inv (s : State) (op : Op) (hop : op.early = true) (h : Inv s) : Inv (step s op).1 := by
  cases op with
  | newLabel => simp only [step]; exact inv_newLabel s h
  | newSection a o =>
    simp only [step]; unfold newSection
    split
    · exact h
    · exact h.frame ⟨rfl, rfl, rfl, secsExt_append _ _, by show s.cur < (s.secs ++ _).length; rw [List.length_append]; have := h.cur; omega⟩
  | «section» id =>
    simp only [step]; unfold switchSection
    split
    · rename_i hc
      exact h.frame ⟨rfl, rfl, rfl, SecsExt.refl _, hc.1⟩
    · exact h
  | bind l => simp only [step]; unfold bind; exact inv_bindLabel _ _ _ _ h
  | align n =>
    simp only [step]; unfold alignZero
    split
    · exact h
    · split
      · exact h
      · exact h.frame (frame_emit _ _ h.cur)
  | embed bs => simp only [step]; unfold embed; exact h.frame (frame_emit _ _ h.cur)
  | jmp k opt l =>
    simp only [step]
    split
    · exact h
    · unfold x86JmpLabel
      cases hl : s.labels[l]? with
      | none => exact h
      | some le =>
        dsimp only
        split
        · -- bound in the current section: direct emission
          unfold emitJmpCallRel
          dsimp only
          repeat' split
          all_goals first
            | exact h
            | exact h.frame (frame_emit _ _ h.cur)
        · repeat' split
          all_goals first
            | exact h
            | exact inv_site s h _ _ l _ _ _ (by simp only [List.length_append, List.length_cons, List.length_nil]; omega) fmtS1_mem (tail_zeros' 1 _ rfl)
            | exact inv_site s h _ _ l _ _ _ (by simp only [List.length_append]; omega) fmtS4_mem (tail_zeros' 4 _ rfl)
  | mem k l d =>
    simp only [step]
    split
    · exact h
    · unfold x86MemLabel
      cases hl : s.labels[l]? with
      | none => exact h
      | some le =>
        dsimp only
        split
        · -- 32-bit: relocation (+ a fixup that only feeds it)
          cases le with
          | bound lsec loff =>
            dsimp only
            exact h.frame (frame_newReloc_emit s _ _ h.cur)
          | unbound fx =>
            dsimp only
            refine inv_newFixup_emit _ (h.frame (frame_newReloc_emit s _ _ h.cur)) _ _ _ rfl ?_ ?_ ?_ ?_
            · exact (curOff_emit (newReloc s _).1 _ h.cur).symm
            · intro hn; cases hn
            · intro hn; cases hn
            · intro _ sec off hb
              have : s.labels[l]? = some (LabelEntry.bound sec off) := hb
              rw [hl] at this; cases this
        · cases le with
          | unbound fx =>
            dsimp only
            split
            · exact h
            · exact inv_site s h _ _ l _ _ _ rfl fmtS4_mem (tail_zeros 4 _ _ rfl)
          | bound lsec loff =>
            dsimp only
            split
            · split
              · exact h
              · exact h.frame (frame_emit _ _ h.cur)
            · split
              · exact h
              · exact inv_site s h _ _ l _ _ _ rfl fmtS4_mem (tail_zeros 4 _ _ rfl)
  | a64 k l a =>
    simp only [step]
    split
    · exact h
    · unfold a64RelLabel
      cases hl : s.labels[l]? with
      | none => exact h
      | some le =>
        dsimp only
        split
        · split
          · exact h.frame (frame_emit _ _ h.cur)
          · exact h
        · apply inv_newFixup_emit _ h
          · rfl
          · rfl
          · intro _; exact a64fmt_mem _
          · intro _; exact a64_tail k
          · intro hne; exact absurd rfl hne
  | elabel l n =>
    simp only [step]; unfold embedLabel
    cases hl : s.labels[l]? with
    | none => exact h
    | some le =>
      cases le with
      | bound lsec loff =>
        dsimp only
        repeat' (first | split | dsimp only)
        all_goals first
          | exact h
          | exact h.frame (frame_newReloc_emit s _ _ h.cur)
      | unbound fx =>
        dsimp only
        repeat' (first | split | dsimp only)
        all_goals first
          | exact h
          | (refine inv_newFixup_emit (newReloc s _).1 (h.frame (frame_newReloc s _ h.cur)) l _ _ ?_ ?_ ?_ ?_ ?_
             · rfl
             · rfl
             · intro hn; cases hn
             · intro hn; cases hn
             · intro _ sec off hb
               have : s.labels[l]? = some (LabelEntry.bound sec off) := hb
               rw [hl] at this; cases this)
  | edelta l b n =>
    simp only [step]; unfold embedLabelDelta
    repeat' (first | split | dsimp only)
    all_goals first
      | exact h
      | exact h.frame (frame_emit _ _ h.cur)
      | exact h.frame (frame_exprs_emit s _ _ _ h.cur)
  | vsize i v =>
    simp only [step]; unfold setVirtSize
    split
    · exact h.frame ⟨rfl, rfl, rfl, secsExt_modifySec _ _ _ (fun x => ⟨[], by simp⟩),
        by show s.cur < (modifySec _ _ _).length; rw [modifySec_length]; exact h.cur⟩
    · exact h
  | flatten => simp only [step]; exact h.frame (frame_flatten s h.cur)
  | resolve => cases hop
  | relocate b => cases hop
  | jmpAbs k opt t =>
    simp only [step]
    split
    · exact h
    · unfold x86JmpAbs emitJmpCallRel
      dsimp only
      have hA := frame_addAddress s t h.cur
      repeat' split
      all_goals first
        | exact h
        | exact h.frame (frame_emit _ _ h.cur)
        | exact h.frame (frame_newReloc_emit s _ _ h.cur)
        | exact h.frame (hA.trans (frame_newReloc_emit _ _ _ hA.cur))
  | a64Abs k t =>
    simp only [step]
    split
    · exact h
    · unfold a64RelAbs
      dsimp only
      repeat' split
      all_goals first
        | exact h
        | exact h.frame (frame_emit _ _ h.cur)
        | exact h.frame (frame_newReloc_emit s _ _ h.cur)

  | memAbs k a t =>
    simp only [step]
    split
    · exact h
    · unfold x86MemAbs
      cases (MKind.ashape s.arch k).moffs with
      | none => exact inv_x86MemAbsM s _ _ _ h
      | some mo =>
        dsimp only
        split
        · exact h.frame (frame_emit _ _ h.cur)
        · exact inv_x86MemAbsM s _ _ _ h

theorem inv_init (arch : Arch) (base : BitVec 64) : Inv (State.init arch base) := by
  refine ⟨by simp [State.init], ?_, ?_, by simp [State.init], ?_, ?_, ?_, ?_⟩
  all_goals simp [State.init, FixupsWF]

theorem run_inv (s : State) (ops : List Op) (hops : ∀ op ∈ ops, op.early = true) (h : Inv s) : Inv (run s ops) := by
  induction ops generalizing s with
  | nil => exact h
  | cons op rest ih =>
    exact ih _ (fun o ho => hops o (List.mem_cons_of_mem _ ho)) (step_inv s op (hops op List.mem_cons_self) h)

end AsmjitVerif.CodeHolder
