/- C09: contents of live spans over whole operations (`contents_step`), fill pattern of every unused granule (`gap_filled`). -/
import AsmjitVerif.Lemmas.JitAllocMem
namespace AsmjitVerif.JitAlloc

theorem Trans.write_tab {s s' : St} {j byte : Nat} (t : Trans s (some (j, byte)) s') : s'.tab = s.tab := by
  cases t with
  | write j hd byte hj hl => rfl

theorem inSpan_mono {g : Nat} {hd hd' : Handle} (ho : hd'.off = hd.off) (hs : hd'.size ≤ hd.size) {k : Nat} (h : inSpan g hd' k) : inSpan g hd k := by
  unfold inSpan at *
  rw [ho] at h
  exact ⟨h.1, Nat.lt_of_lt_of_le h.2 (Nat.div_le_div_right (by omega))⟩

/-- after the caller's write every granule of the span carries the written byte -/
theorem write_self {s : St} (hI : Inv s) (hM : AMem s.a) {j : Nat} {hd : Handle} (hj : s.tab[j]? = some hd) (hl : hd.live = true)
    (byte : Nat) : ∀ b' ∈ (s.a.writeMem hd.blk hd.off hd.size byte).blocks, b'.id = hd.blk →
      ∀ k, inSpan (s.a.cfg.poolGran b'.pool) hd k → memAt b' k = byte := by
  obtain ⟨b, hb, e, st, n, o1, o2⟩ := hI.owned j hd hj hl
  have hg := poolGran_pos hI.wf b.pool
  obtain ⟨hB, _⟩ := hI.blk b hb
  obtain ⟨i1, i2, i3⟩ := hB.inside st n ⟨j, hd, hj, hl, e.symm, o1, o2⟩
  intro b' hb' e' k hk
  simp only [Alloc.writeMem, Alloc.modifyBlock, List.mem_map] at hb'
  obtain ⟨y, hy, rfl⟩ := hb'
  have hyh : y.id = hd.blk := by split at e' <;> exact e'
  have hyb : y = b := block_unique hI hy hb (by rw [hyh, e])
  subst hyb
  rw [if_pos hyh] at hk ⊢
  have q1 : hd.off / s.a.cfg.poolGran y.pool = st := by rw [o1]; exact Nat.mul_div_cancel _ hg
  have q2 : (hd.off + hd.size) / s.a.cfg.poolGran y.pool = st + n := by
    rw [o1, o2, ← Nat.add_mul]; exact Nat.mul_div_cancel _ hg
  have hlen := (hM y hb).len
  unfold inSpan at hk
  simp only at hk
  rw [q1, q2] at hk
  rw [memAt_with, q1, q2, getD_setRange]
  have : st ≤ k ∧ k < st + n ∧ k < y.mem.length := by rw [hlen]; omega
  simp only [this, and_self, if_true]


/-- `contents_frame` with the two cases separated: a transition that is not the caller's write over span `i` keeps every granule
of the span; the caller's write sets every granule to the written byte -/
theorem contents_frame2 {s s' : St} (hI : Inv s) (hM : AMem s.a) {l : TLabel} (t : Trans s l s') {i : Nat} {hd hd' : Handle}
    (h : s.tab[i]? = some hd) (hl : hd.live = true) (h' : s'.tab[i]? = some hd') (hl' : hd'.live = true)
    {b : Block} (hb : b ∈ s.a.blocks) (hbid : b.id = hd.blk) :
    hd'.blk = hd.blk ∧ hd'.off = hd.off ∧ hd'.size ≤ hd.size ∧
    ∀ b' ∈ s'.a.blocks, b'.id = hd.blk → b'.pool = b.pool ∧
      ∀ k, inSpan (s.a.cfg.poolGran b.pool) hd' k →
        ((∀ byte, l ≠ some (i, byte)) → memAt b' k = memAt b k) ∧ (∀ byte, l = some (i, byte) → memAt b' k = byte) := by
  obtain ⟨f1, f2, f3, f4⟩ := contents_frame hI hM t h hl h' hl' hb hbid
  refine ⟨f1, f2, f3, ?_⟩
  intro b' hb' e'
  obtain ⟨p1, p2⟩ := f4 b' hb' e'
  refine ⟨p1, ?_⟩
  intro k hk
  constructor
  · intro hnw
    rcases p2 with p2 | ⟨byte, hb2, _⟩
    · exact p2 k hk
    · exact absurd hb2 (hnw byte)
  · intro byte hw
    subst hw
    cases t with
    | write j hdj byte hj2 hl2 =>
      rw [hj2] at h'
      cases h'
      rw [hj2] at h
      cases h
      apply write_self hI hM hj2 hl2 byte b' hb' e'
      rw [p1]; exact hk

/-- **Contents are kept**: over any operation, every granule of a span that is live before and after keeps its contents, except
under the caller's own write to that span, after which every granule carries the written byte.  (Release / shrink / reset / alloc of
anything else never write into it: their fill ranges lie in the freed range.) -/
theorem contents_step {s : St} (hI : Inv s) (hM : AMem s.a) (op : Op) {i : Nat} {hd hd' : Handle}
    (h : s.tab[i]? = some hd) (hl : hd.live = true) (h' : (step s op).1.tab[i]? = some hd') (hl' : hd'.live = true)
    {b : Block} (hb : b ∈ s.a.blocks) (hbid : b.id = hd.blk) :
    hd'.blk = hd.blk ∧ hd'.off = hd.off ∧ hd'.size ≤ hd.size ∧
    ∀ b' ∈ (step s op).1.a.blocks, b'.id = hd.blk → b'.pool = b.pool ∧
      ∀ k, inSpan (s.a.cfg.poolGran b.pool) hd' k →
        ((∀ byte, op.writes ≠ some (i, byte)) → memAt b' k = memAt b k) ∧ (∀ byte, op.writes = some (i, byte) → memAt b' k = byte) := by
  rcases step_trans_lbl hI op with ⟨l, t, hlab⟩ | ⟨m, j, byte, hw, t1, hIm, t2⟩
  · obtain ⟨f1, f2, f3, f4⟩ := contents_frame2 hI hM t h hl h' hl' hb hbid
    refine ⟨f1, f2, f3, ?_⟩
    intro b' hb' e'
    obtain ⟨p1, p2⟩ := f4 b' hb' e'
    refine ⟨p1, ?_⟩
    intro k hk
    obtain ⟨q1, q2⟩ := p2 k hk
    rcases hlab with e | ⟨e, hdead⟩
    · rw [e] at q1 q2; exact ⟨q1, q2⟩
    · refine ⟨fun _ => q1 (by rw [e]; intro _ hh; cases hh), ?_⟩
      intro byte ew
      have := hdead i byte hd ew h
      rw [hl] at this; cases this
  · have htab := t1.write_tab
    have hm : m.tab[i]? = some hd := by rw [htab]; exact h
    obtain ⟨f1, f2, f3, f4⟩ := contents_frame2 hI hM t1 h hl hm hl hb hbid
    obtain ⟨bm, hbm, ebm, _⟩ := hIm.owned i hd hm hl
    obtain ⟨g1, g2, g3, g4⟩ := contents_frame2 hIm (AMem.trans hI hM t1) t2 hm hl h' hl' hbm ebm
    refine ⟨g1, g2, g3, ?_⟩
    intro b' hb' e'
    obtain ⟨p1, p2⟩ := f4 bm hbm ebm
    obtain ⟨r1, r2⟩ := g4 b' hb' e'
    refine ⟨r1.trans p1, ?_⟩
    intro k hk
    rw [t1.cfg, p1] at r2
    obtain ⟨u1, _⟩ := r2 k hk
    obtain ⟨v1, v2⟩ := p2 k (inSpan_mono g2 g3 hk)
    rw [u1 (by intro _ hh; cases hh), hw]
    exact ⟨v1, v2⟩

/-- with kFillUnusedMemory every granule of a block outside all live spans of that block carries the fill pattern: stated for a
byte range `[lo, hi)` no live span meets -/
theorem gap_filled {s : St} (hI : Inv s) (hM : AMem s.a) (hf : s.a.cfg.fillUnused = true) {b : Block} (hb : b ∈ s.a.blocks)
    {lo hi : Nat} (hfree : ∀ (i : Nat) (x : Handle), s.tab[i]? = some x → x.live = true → x.blk = b.id → x.off + x.size ≤ lo ∨ hi ≤ x.off)
    {k : Nat} (hk : k < b.areaSize) (h1 : lo / s.a.cfg.poolGran b.pool ≤ k) (h2 : k < hi / s.a.cfg.poolGran b.pool) :
    memAt b k = patColour s.a.cfg := by
  have hg := poolGran_pos hI.wf b.pool
  apply (hM b hb).fill hf k hk
  by_cases hu : bit b.used k = true
  · right
    rcases ((hI.blk b hb).1.used k hk).mp hu with hp | ⟨st, n, ⟨i, x, hx, hl, e, o1, o2⟩, c1, c2⟩
    · exact hp
    · exfalso
      rcases hfree i x hx hl e with c | c
      · rw [o1, o2, ← Nat.add_mul] at c
        have : st + n ≤ lo / s.a.cfg.poolGran b.pool := (Nat.le_div_iff_mul_le hg).mpr c
        omega
      · rw [o1] at c
        have : hi / s.a.cfg.poolGran b.pool ≤ st := by
          apply Nat.le_of_lt_succ
          apply Nat.div_lt_of_lt_mul
          rw [Nat.mul_succ, Nat.mul_comm]
          omega
        omega
  · left; simpa using hu

theorem AMem.final {s : St} (hI : Inv s) (hM : AMem s.a) (ops : List Op) : AMem (finalState s ops).a :=
  lift_final (Q := fun s => AMem s.a) (fun _ _ _ hI hQ t => AMem.trans hI hQ t) hI hM ops

theorem AMem.init (cfg : Config) : AMem (St.init cfg).a := by
  intro b hb; simp [St.init, Alloc.init] at hb

end AsmjitVerif.JitAlloc
