/- C06: the default strategy of x86 init_func_detail on x86-64 (SysV) follows the psABI rules – loop invariant and step lemma. -/
import AsmjitVerif.Lemmas.C06Types
namespace AsmjitVerif.C06
open AsmjitVerif.CallConv AsmjitVerif.ABI

/-- the record `CallConv::init` builds for SysV x86-64 (ids 0,1,2,4,5,6,7 on non-Windows, and 32) -/
def ccSysv : CallConv :=
  { arch := .x64, id := 32, srSize := [8, 16, 8, 8], srAlign := [8, 16, 8, 8],
    flags := fFloatsByVec ||| fMmxByXmm ||| fVarArgCompat, naturalAlign := 16, redZone := 128,
    gpOrder := [zdi, zsi, zdx, zcx, 8, 9], vecOrder := [0, 1, 2, 3, 4, 5, 6, 7],
    presGp := maskOf [zbx, zsp, zbp, 12, 13, 14, 15] }

theorem initCallConv_sysv (e : Env) (ccid : Nat) (h : convOf e ccid = some .sysv) : initCallConv e ccid = some ccSysv := by
  obtain ⟨arch, win, darwin⟩ := e
  cases arch <;> simp [convOf] at h
  · -- x86: convOf never answers sysv
    repeat' split at h
    all_goals first | contradiction | (simp at h)
  · simp only [initCallConv, initCallConvX64]
    by_cases h32 : ccid = 32
    · subst h32; cases win <;> rfl
    · simp [h32] at h
      by_cases h33 : ccid = 33
      · simp [h33] at h
      · simp [h33] at h
        obtain ⟨hc, hw⟩ := h
        simp [hc, hw, ccSysv]
  · repeat' split at h
    all_goals first | contradiction | (simp at h)

/-- every concrete type: integers, float, double, long double, `__m64`, vectors, opmasks (with fixes C06-14 and C06-15 nothing is excluded) -/
def sysvDom (t : Nat) : Bool := (isInt t && !isAbstract t) || isF32F64 t || isVec t || isMask t || isMmx t || t = tFloat80

structure SysvInv (s : St) (older : List Nat) : Prop where
  gp : s.gpPos = min (nCls .integer older) 6
  vec : s.vecPos = min (nCls .sse older) 8
  off : s.stackOffset = sysvStackEnd older
  al : 8 ∣ s.stackOffset

theorem orderAt_sysv_gp (k : Nat) :
    orderAt [zdi, zsi, zdx, zcx, 8, 9] (min k 6) = if k < 6 then sysvGp.getD k 0 else idBad := by
  by_cases h : k < 6
  · have : k = 0 ∨ k = 1 ∨ k = 2 ∨ k = 3 ∨ k = 4 ∨ k = 5 := by omega
    rcases this with rfl | rfl | rfl | rfl | rfl | rfl <;> decide
  · have : min k 6 = 6 := by omega
    simp [this, h]; decide

theorem sysvGp_ne_bad (k : Nat) (h : k < 6) : sysvGp.getD k 0 ≠ idBad := by
  have : k = 0 ∨ k = 1 ∨ k = 2 ∨ k = 3 ∨ k = 4 ∨ k = 5 := by omega
  rcases this with rfl | rfl | rfl | rfl | rfl | rfl <;> decide

theorem orderAt_sysv_vec (k : Nat) :
    orderAt [0, 1, 2, 3, 4, 5, 6, 7] (min k 8) = if k < 8 then k else idBad := by
  by_cases h : k < 8
  · have : k = 0 ∨ k = 1 ∨ k = 2 ∨ k = 3 ∨ k = 4 ∨ k = 5 ∨ k = 6 ∨ k = 7 := by omega
    rcases this with rfl | rfl | rfl | rfl | rfl | rfl | rfl | rfl <;> decide
  · have : min k 8 = 8 := by omega
    simp [this, h]; decide


theorem ccSysv_flags : ccSysv.hasFlag fFloatsByVec = true ∧ ccSysv.hasFlag fVecByStackIfVA = false := by decide

theorem sysv_init_inv : SysvInv { stackOffset := ccSysv.spillZone } [] :=
  ⟨by simp [nCls], by simp [nCls], by simp [sysvStackEnd, ccSysv], by simp [ccSysv]⟩


theorem ccSysv_mmx : ccSysv.hasFlag fMmxByXmm = true := by decide

theorem sysv_step_sse (va : Bool) (s : St) (older : List Nat) (t : Nat) (hI : SysvInv s older)
    (hfv : (isF32F64 t || isVec t || isMmx t) = true) (hm101 : t ∈ List.range 101) :
    (x86DefaultValue ccSysv va 8 false s t).2 = sysvArg older t ∧ SysvInv (x86DefaultValue ccSysv va 8 false s t).1 (t :: older) := by
  obtain ⟨hgp, hvec, hoff, hal⟩ := hI
  obtain ⟨hview, hni, hn80, hfv0, hmax, hsz, hfl⟩ := sse_facts t hm101 hfv
  have hfv' : (isFloat t || isVec t || (isMmx t && ccSysv.hasFlag fMmxByXmm)) = true := by
    rw [ccSysv_mmx, Bool.and_true]; exact hfv0
  have hcls : sysvClass t = .sse := by simp [sysvClass, hni, hfv]
  have hflag := ccSysv_flags
  have hreg : (if isFloat t = true then (if (!ccSysv.hasFlag fFloatsByVec || decide (t = tFloat80)) = true then idBad else orderAt ccSysv.vecOrder s.vecPos)
               else (if (va && ccSysv.hasFlag fVecByStackIfVA) = true then idBad else orderAt ccSysv.vecOrder s.vecPos))
              = orderAt ccSysv.vecOrder s.vecPos := by
    simp [hflag.1, hflag.2, hn80]
  simp only [x86DefaultValue, hni, hfv', if_true, if_false, Bool.false_eq_true, hreg]
  simp only [hn80, if_false]
  have hord : orderAt ccSysv.vecOrder s.vecPos = if nCls .sse older < 8 then nCls .sse older else idBad := by
    rw [hvec]; exact orderAt_sysv_vec _
  rw [hord]
  by_cases hk : nCls .sse older < 8
  · have hne : nCls .sse older ≠ idBad := by simp [idBad]; omega
    simp only [hk, if_true, hne, ne_eq, not_false_eq_true]
    refine ⟨by simp [sysvArg, hcls, hk, hview], ⟨?_, ?_, ?_, hal⟩⟩
    · simp [nCls, hcls] at *; exact hgp
    · simp [nCls, hcls] at *; omega
    · simp [sysvStackEnd, sysvOnStack, hcls, hoff]; omega
  · simp only [hk, if_false, ne_eq, not_true_eq_false]
    have hge : nCls .sse older ≥ 8 := by omega
    have hoffeq : (if max (tySize t) 8 ≥ 16 then alignUp s.stackOffset (max (tySize t) 8) else s.stackOffset)
                  = alignUp (sysvStackEnd older) (slotAlign t) := by
      rw [hmax, hoff]
      rcases hsz with h | h | h | h <;> simp [slotAlign, h, alignUp_of_dvd (by decide : 0 < 8) (hoff ▸ hal)]
    refine ⟨?_, ⟨?_, ?_, ?_, ?_⟩⟩
    · simp only [hoffeq]; simp [sysvArg, hcls, hk]
    · simp [nCls, hcls] at *; exact hgp
    · simp [nCls, hcls] at *; omega
    · simp only [hoffeq]; simp [sysvStackEnd, sysvOnStack, hcls, hge, hmax]
    · have hoffeq' : (if slotSize t ≥ 16 then alignUp s.stackOffset (slotSize t) else s.stackOffset)
                  = alignUp (sysvStackEnd older) (slotAlign t) := by rw [← hmax]; exact hoffeq
      simp only [hmax, hoffeq']
      have h1 : 8 ∣ alignUp (sysvStackEnd older) (slotAlign t) := by
        rcases hsz with h | h | h | h
        · simp [slotAlign, h, alignUp_of_dvd (by decide : 0 < 8) (hoff ▸ hal)]; exact hoff ▸ hal
        all_goals (simp only [slotAlign, h]; exact Nat.dvd_trans (by decide) (dvd_alignUp _ _))
      have h2 : 8 ∣ slotSize t := by rcases hsz with h | h | h | h <;> simp [h] <;> decide
      exact Nat.dvd_add h1 h2

/-- one argument: the counter loop answers what the rule says and re-establishes the invariant -/
theorem sysv_step (va : Bool) (s : St) (older : List Nat) (t : Nat) (hI : SysvInv s older) (ht : sysvDom t = true)
    (hlt : t < 101) :
    (x86DefaultValue ccSysv va 8 false s t).2 = sysvArg older t ∧ SysvInv (x86DefaultValue ccSysv va 8 false s t).1 (t :: older) := by
  obtain ⟨hgp, hvec, hoff, hal⟩ := hI
  have hm101 : t ∈ List.range 101 := List.mem_range.2 hlt
  simp only [sysvDom, Bool.or_eq_true, Bool.and_eq_true, Bool.not_eq_true'] at ht
  rcases ht with ((((⟨hi, hab⟩ | hf) | hv) | hm) | hmx) | h80
  · -- integer
    have hlt42 : t ∈ List.range 42 := by
      simp [isInt, isBetween] at hi; exact List.mem_range.2 (by omega)
    obtain ⟨hview, hmax, hss, hsa, _⟩ := int_facts t hlt42 hi hab
    have hcls : sysvClass t = .integer := by simp [sysvClass, hi]
    simp only [x86DefaultValue, hi, if_true, Bool.false_eq_true, if_false, ccSysv, hgp, orderAt_sysv_gp]
    by_cases hk : nCls .integer older < 6
    · have hne := sysvGp_ne_bad _ hk
      simp only [hk, if_true, hne, ne_eq, not_false_eq_true]
      refine ⟨?_, ⟨?_, ?_, ?_, ?_⟩⟩
      · simp [sysvArg, hcls, hk, hview]
      · simp [nCls, List.countP_cons, hcls] at *; omega
      · simp [nCls, List.countP_cons, hcls] at *; exact hvec
      · simp [sysvStackEnd, sysvOnStack, hcls, hk, hoff]; omega
      · exact hal
    · simp only [hk, if_false, ne_eq, not_true_eq_false]
      have hge : nCls .integer older ≥ 6 := by omega
      refine ⟨?_, ⟨?_, ?_, ?_, ?_⟩⟩
      · simp [sysvArg, hcls, hk, hsa, FuncValue.stack, ← hoff, alignUp_of_dvd (by decide : 0 < 8) hal]
      · simp [nCls, List.countP_cons, hcls] at *; omega
      · simp [nCls, List.countP_cons, hcls] at *; exact hvec
      · simp [sysvStackEnd, sysvOnStack, hcls, hge, hsa, hss, ← hoff, alignUp_of_dvd (by decide : 0 < 8) hal, hmax]
      · simp [hmax]; omega
  · -- float / double
    exact sysv_step_sse va s older t ⟨hgp, hvec, hoff, hal⟩ (by simp [hf]) hm101
  · exact sysv_step_sse va s older t ⟨hgp, hvec, hoff, hal⟩ (by simp [hv]) hm101
  · -- opmask types: no location on either side, no counter moves
    obtain ⟨hni, hnf, hnv, hnm, hnff, hn80⟩ := mask_facts t hm101 hm
    have hcls : sysvClass t = .none := by simp [sysvClass, hni, hnff, hnv, hnm, hn80]
    simp only [x86DefaultValue, hni, hnf, hnv, hnm, Bool.or_false, Bool.false_and, if_false, Bool.false_eq_true]
    refine ⟨by simp [sysvArg, hcls], ⟨?_, ?_, ?_, hal⟩⟩
    · simp [nCls, hcls] at *; exact hgp
    · simp [nCls, hcls] at *; exact hvec
    · simp [sysvStackEnd, sysvOnStack, hcls, hoff]
  · -- `__m64`: class SSE (fix C06-14)
    exact sysv_step_sse va s older t ⟨hgp, hvec, hoff, hal⟩ (by simp [hmx]) hm101
  · -- long double: class MEMORY, a 16-byte aligned 16-byte slot (fix C06-15)
    have h80' : t = tFloat80 := of_decide_eq_true h80
    subst h80'
    have hcls : sysvClass tFloat80 = .memory := by decide
    have e1 : isInt tFloat80 = false := by decide
    have e2 : (isFloat tFloat80 || isVec tFloat80 || (isMmx tFloat80 && ccSysv.hasFlag fMmxByXmm)) = true := by decide
    have e3 : isFloat tFloat80 = true := by decide
    have e4 : slotSize tFloat80 = 16 := by decide
    have e5 : slotAlign tFloat80 = 16 := by decide
    simp only [x86DefaultValue, e1, e2, e3, if_true, if_false, Bool.false_eq_true, Bool.or_true, decide_true, ne_eq,
      not_true_eq_false, ge_iff_le, Nat.le_refl]
    refine ⟨by simp [sysvArg, hcls, e5, hoff], ⟨?_, ?_, ?_, ?_⟩⟩
    · simp [nCls, hcls] at *; exact hgp
    · simp [nCls, hcls] at *; exact hvec
    · simp [sysvStackEnd, sysvOnStack, hcls, e4, e5, hoff]
    · exact Nat.dvd_add (Nat.dvd_trans (by decide) (dvd_alignUp _ 16)) (by decide)

theorem sysvDom_lt {t : Nat} (h : sysvDom t = true) : t < 101 := by
  simp only [sysvDom, isInt, isF32F64, isVec, isMask, isMmx, isAbstract, isBetween, tFloat32, tFloat64, tFloat80, Bool.or_eq_true,
    Bool.and_eq_true, decide_eq_true_eq, Bool.not_eq_true'] at h
  rcases h with ((((⟨h, _⟩ | h | h) | h) | h) | h) | h <;> first | omega | (have := of_decide_eq_true h; omega)


/-- the whole argument loop: answers = rules applied position by position; the final counter state is the rules' state -/
theorem sysv_loop (va : Bool) : ∀ (ts : List Nat) (i : Nat) (s : St) (older : List Nat), SysvInv s older →
    (∀ t ∈ ts, sysvDom t = true) →
    (x86ArgLoop ccSysv va 8 i s ts).2 = argsFrom .sysv va older ts ∧
    SysvInv (x86ArgLoop ccSysv va 8 i s ts).1 (ts.reverse ++ older) := by
  intro ts
  induction ts with
  | nil => intro i s older hI _; exact ⟨rfl, by simpa [x86ArgLoop] using hI⟩
  | cons t ts ih =>
    intro i s older hI hd
    have ht := hd t (by simp)
    obtain ⟨hv, hI'⟩ := sysv_step va s older t hI ht (sysvDom_lt ht)
    obtain ⟨ha, hI''⟩ := ih (i + 1) (x86DefaultValue ccSysv va 8 false s t).1 (t :: older) hI' (fun u hu => hd u (by simp [hu]))
    have hstrat : (ccSysv.strategy = 1 || ccSysv.strategy = 2) = false := by decide
    have harch : ccSysv.arch = .x64 := rfl
    have hwos : (decide ([t].length > 1) && (decide (ccSysv.id = 2) || decide (ccSysv.id = 4))) = false := by simp
    simp only [x86ArgLoop, hstrat, harch, unpack_x64, hwos, packLoop, Bool.false_eq_true, if_false]
    refine ⟨?_, ?_⟩
    · simp only [argsFrom]; rw [ha, hv]
    · simpa [List.reverse_cons, List.append_assoc] using hI''

end AsmjitVerif.C06
