/- C09 refinement (model run ⊑ monitor): `Good` is kept by every step and holds initially. -/
import AsmjitVerif.Lemmas.JitAllocSimRel
namespace AsmjitVerif.JitAlloc
open Spec

theorem step_cfg {s : St} (hI : Inv s) (op : Op) : (step s op).1.a.cfg = s.a.cfg := by
  rcases step_trans hI op with ⟨l, t⟩ | ⟨m, l1, l2, t1, _, t2⟩
  · exact t.cfg
  · rw [t2.cfg, t1.cfg]

theorem Good.step {s : St} (hG : Good s) (op : Op) : Good (step s op).1 := by
  have hc := step_cfg hG.inv op
  refine ⟨hG.inv.step op, AWin.step hG.inv hG.win op, CInv.step hG.inv hG.cnt op, PInv.step hG.inv hG.pool op,
    AEmp.step hG.inv hG.emp op, ?_, ?_, ?_, by rw [hc]; exact hG.cdiv, by rw [hc]; exact hG.gran⟩
  · exact lift_step (Q := fun s => AMem s.a) (fun s s' l hI h t => AMem.trans hI h t) hG.inv hG.mem op
  · have := lift_step (Q := fun s => CfgDiv s.a.cfg ∧ ADiv s.a)
      (fun s s' l hI h t => ⟨by rw [t.cfg]; exact h.1, ADiv.trans hI h.1 h.2 t⟩) hG.inv ⟨hG.cdiv, hG.div⟩ op
    exact this.2
  · exact lift_step (Q := GInv) (fun s s' l hI h t => GInv.trans hI h t) hG.inv hG.bytes op

theorem Good.init (cfg : Config) (hwf : WF cfg) (hd : CfgDiv cfg) (hgr : cfg.gran ≤ 1024) : Good (St.init cfg) := by
  refine ⟨Inv.init cfg hwf, ?_, rfl, PInv.init cfg, ?_, ?_, ?_, ?_, hd, hgr⟩
  · intro b hb; simp [St.init, Alloc.init] at hb
  · intro b hb; simp [St.init, Alloc.init] at hb
  · intro b hb; simp [St.init, Alloc.init] at hb
  · intro b hb; simp [St.init, Alloc.init] at hb
  · simp [GInv, St.init, Alloc.init, liveBytes, agg]

theorem Sim.init (cfg : Config) : Sim (Ghost.init cfg) (St.init cfg) := by
  refine ⟨rfl, rfl, rfl, ?_⟩
  intro i x hx
  simp [Ghost.init] at hx

end AsmjitVerif.JitAlloc
