/- `RelocationSummary::code_size_reduction` never overshoots: what `JitRuntime::_add` keeps still holds the final image. -/
import AsmjitVerif.Lemmas.SectionsJit
namespace AsmjitVerif.Sections

theorem idealEnd_append_single (off : Nat) (l : List Section) (s : Section) :
    idealEnd off (l ++ [s]) = if s.realSize ≠ 0 then roundUp (idealEnd off l) s.align + s.realSize else idealEnd off l := by
  induction l generalizing off with
  | nil => simp [idealEnd]
  | cons a rest ih =>
    simp only [List.cons_append]
    unfold idealEnd
    split
    · exact ih _
    · exact ih _

theorem idealEnd_congr {l l' : List Section} (h : AllRel SameSizes l l') (x : Nat) : idealEnd x l' = idealEnd x l := by
  induction h generalizing x with
  | nil => rfl
  | @cons a b l₁ l₂ hr _ ih =>
    unfold idealEnd
    rw [hr.2.2.2.1, hr.2.2.1]
    split
    · exact ih _
    · exact ih _

/-- like `AddrTabOK`, on the virtual size (which is what `relocate_to_base` reads as the reserved size) -/
def AddrTabOKv (h : Holder) : Prop :=
  (∀ e ∈ h.entries, e.slot = none) ∧
  (∀ id, h.addrTab = some id → ∀ s ∈ h.secs, s.id = id → 8 * h.entries.length ≤ s.vsize)

theorem AddrTabOKv.ok {h : Holder} (hv : AddrTabOKv h) : AddrTabOK h := by
  refine ⟨hv.1, ?_⟩
  intro id hid s hs hsid
  have := hv.2 id hid s hs hsid
  unfold Section.realSize; omega

/-- shape of the result of `relocate_to_base`: the reduction is 0, or the tail ran on the last section -/
theorem relocate_cases (h : Holder) (base : Nat) :
    (relocate h base).2.2 = 0 ∨
    ∃ (st : RelocState) (id : Nat), h.addrTab = some id ∧ st.secs.getLast?.map (·.id) = some id ∧
      AllRel SameSizes h.secs st.secs ∧ st.count ≤ h.entries.length ∧
      (relocate h base).1.secs = modifySec st.secs id (fun s =>
          { s with data := (st.table ++ zeros (st.count * 8)).take (st.count * 8), vsize := st.count * 8 }) ∧
      (relocate h base).2.2 = (((findSec st.secs id).map (·.vsize)).getD 0 + U64 - st.count * 8) % U64 := by
  unfold relocate
  split
  · left; rfl
  · have hk := relocLoop_spec base (((h.addrTab.bind (findSec h.secs)).map (·.offset)).getD 0)
      { secs := h.secs, entries := h.entries, count := 0, table := zeros (((h.addrTab.bind (findSec h.secs)).map (·.vsize)).getD 0) } h.relocs
    dsimp only at hk ⊢
    split
    · left; rfl
    · rename_i st heq
      rw [heq] at hk
      dsimp only at hk
      split
      · left; rfl
      · rename_i id hid
        split
        · rename_i hlast
          right
          refine ⟨st, id, hid, ?_, hk.1, by have := countNone_le h.entries; omega, rfl, rfl⟩
          unfold addrTabIsLast at hlast
          dsimp only at hlast
          rw [hid] at hlast
          cases hg : st.secs.getLast? with
          | none => rw [hg] at hlast; simp at hlast
          | some s =>
            rw [hg] at hlast
            simp only [beq_iff_eq] at hlast
            simp [hlast]
        · left; rfl

theorem modifySec_append_last (l : List Section) (a : Section) (id : Nat) (f : Section → Section)
    (hl : ∀ s ∈ l, s.id ≠ id) (ha : a.id = id) : modifySec (l ++ [a]) id f = l ++ [f a] := by
  unfold modifySec
  rw [List.map_append]
  congr 1
  · conv => rhs; rw [← List.map_id l]
    apply List.map_congr_left
    intro s hs
    have := hl s hs
    simp [this]
  · simp [ha]

theorem findSec_append_last (l : List Section) (a : Section) (id : Nat)
    (hl : ∀ s ∈ l, s.id ≠ id) (ha : a.id = id) : findSec (l ++ [a]) id = some a := by
  unfold findSec
  rw [List.find?_append]
  have : l.find? (fun s => s.id == id) = none := by
    rw [List.find?_eq_none]
    intro s hs; have := hl s hs; simpa using this
  rw [this]
  simp [ha]

/-- unless the estimate is saturated, the reported reduction is at most the real reduction -/
theorem relocate_reduction_bound (h : Holder) (hinv : InvS h.secs) (hat : AddrTabOKv h) (base : Nat)
    (hns : idealEnd 0 h.secs < U64) :
    codeSize (relocate h base).1 + (relocate h base).2.2 ≤ codeSize h := by
  have hle := relocate_code_size_le h hinv hat.ok base
  rcases relocate_cases h base with h0 | ⟨st, id, hid, hlast, hss, hcount, hsecs, hred⟩
  · rw [h0]; exact hle
  · -- decompose the table: everything before the address table, then the address table
    cases hg : st.secs.getLast? with
    | none => rw [hg] at hlast; simp at hlast
    | some at_ =>
      rw [hg] at hlast
      have hatid : at_.id = id := by simpa using hlast
      obtain ⟨l, hl⟩ := List.getLast?_eq_some_iff.mp hg
      have hinvst : InvS st.secs := InvS.transfer (sameSizes_keys hss) hinv
      have hnd : ∀ s ∈ l, s.id ≠ id := by
        have := hinvst.nodup
        rw [hl, List.pairwise_append] at this
        intro s hs
        rw [← hatid]
        exact this.2.2 s hs at_ (by simp)
      -- the reserved size is the virtual size of that section, at least 8 bytes per entry
      have hres : 8 * h.entries.length ≤ at_.vsize := by
        have hmem : at_ ∈ st.secs := by rw [hl]; simp
        obtain ⟨a, ha, hab⟩ := hss.mem_right at_ hmem
        have := hat.2 id hid a ha (by rw [← hab.1]; exact hatid)
        rw [hab.2.2.2.2.2]; exact this
      rw [hl, findSec_append_last l at_ id hnd hatid] at hred
      simp only [Option.map_some, Option.getD_some] at hred
      have hred' : (relocate h base).2.2 ≤ at_.vsize - st.count * 8 := by
        rw [hred]
        have : at_.vsize + U64 - st.count * 8 = (at_.vsize - st.count * 8) + U64 := by omega
        rw [this, Nat.add_mod_right]
        exact Nat.mod_le _ _
      -- sizes before and after
      have hcs : codeSize h = idealEnd 0 (l ++ [at_]) := by
        unfold codeSize
        rw [codeSizeOf_eq_spec _ hinv.pre]
        unfold codeSizeSpec
        rw [if_pos hns, ← hl, idealEnd_congr hss]
      have hinv' : InvS (relocate h base).1.secs := InvS.transfer (relocate_keys h base) hinv
      have hle' : idealEnd 0 (relocate h base).1.secs ≤ idealEnd 0 h.secs :=
        idealEnd_mono (relocate_shrinks h hat.ok base) 0 0 (Nat.le_refl _)
      have hcs' : codeSize (relocate h base).1 = idealEnd 0 (relocate h base).1.secs := by
        unfold codeSize
        rw [codeSizeOf_eq_spec _ hinv'.pre]
        unfold codeSizeSpec
        rw [if_pos (by omega)]
      rw [hcs', hcs, hsecs, hl, modifySec_append_last l at_ id _ hnd hatid, idealEnd_append_single, idealEnd_append_single]
      have hreal' : ({ at_ with data := (st.table ++ zeros (st.count * 8)).take (st.count * 8), vsize := st.count * 8 } : Section).realSize
          = st.count * 8 := by
        show max (st.count * 8) ((st.table ++ zeros (st.count * 8)).take (st.count * 8)).length = _
        rw [List.length_take, List.length_append, zeros_length]; omega
      have hreal : at_.vsize ≤ at_.realSize := by unfold Section.realSize; omega
      rw [hreal']
      have hge := roundUp_ge (idealEnd 0 l) at_.align
      by_cases hz : st.count * 8 = 0
      · rw [if_neg (by omega)]
        split <;> omega
      · rw [if_pos hz, if_pos (by omega)]
        show roundUp (idealEnd 0 l) at_.align + st.count * 8 + _ ≤ _
        omega

theorem build_addrTabOKv (ops : List Op) (hok : BuildOK init ops) (hl : ops.length < 2 ^ 60) : AddrTabOKv (run ops) := by
  have hb := foldl_binv ops init 0 init_binv hok (by unfold U64; omega)
  refine ⟨hb.slots, ?_⟩
  intro id hid s hs hsid
  have := (hb.tab id hid).2 s hs hsid
  unfold run; omega

theorem flatten_addrTabOKv (h : Holder) (hinv : InvS h.secs) (hat : AddrTabOKv h) : AddrTabOKv (flatten h).1 := by
  unfold flatten
  split
  · rename_i hc
    have hfit := (flattenCheck_iff 0 h.secs hinv.pre (by unfold U64; omega)).mp hc
    obtain ⟨_, _, hC, _⟩ := assign_good 0 h.secs hinv.pre hfit
    refine ⟨hat.1, ?_⟩
    intro id hid s' hs' hsid
    obtain ⟨a, ha, hab⟩ := hC.mem_right s' hs'
    have := hat.2 id hid a ha (by rw [← hab.1]; exact hsid)
    have := hab.2.2.2.2.2.2.2
    show 8 * h.entries.length ≤ s'.vsize
    omega
  · exact hat

end AsmjitVerif.Sections
