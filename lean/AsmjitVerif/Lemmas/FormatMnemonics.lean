/- C20 helper lemma: the eight table slices put together. -/
import AsmjitVerif.Lemmas.FormatMn1
import AsmjitVerif.Lemmas.FormatMn2
import AsmjitVerif.Lemmas.FormatMn3
import AsmjitVerif.Lemmas.FormatMn4
import AsmjitVerif.Lemmas.FormatMn5
import AsmjitVerif.Lemmas.FormatMn6
import AsmjitVerif.Lemmas.FormatMn7
import AsmjitVerif.Lemmas.FormatMn8

namespace AsmjitVerif.Lemmas.FormatMn
open AsmjitVerif.Format AsmjitVerif.FormatText AsmjitVerif.Gen.FormatTabs

theorem mem_slices {α : Type} (l : List α) (x : α) (h : x ∈ l) :
    x ∈ (l.drop 0).take 412 ∨ x ∈ (l.drop 412).take 412 ∨ x ∈ (l.drop 824).take 412 ∨ x ∈ l.drop 1236 := by
  have e : l = (l.drop 0).take 412 ++ ((l.drop 412).take 412 ++ ((l.drop 824).take 412 ++ l.drop 1236)) := by
    have a1 := (List.take_append_drop 412 l).symm
    have a2 := (List.take_append_drop 412 (l.drop 412)).symm
    have a3 := (List.take_append_drop 412 (l.drop 824)).symm
    simp only [List.drop_drop] at a2 a3
    simp only [List.drop_zero]
    rw [← a3, ← a2]; exact a1
  rw [e] at h
  simp only [List.mem_append] at h
  exact h

theorem mnemonics_ok :
    (∀ n ∈ x86InstNames.toList, isHeadWord n.toList = false ∧ ∀ c ∈ n.toList, notSpace c = true) ∧
    (∀ n ∈ x86AliasNames.toList, isHeadWord n.toList = false ∧ ∀ c ∈ n.toList, notSpace c = true) := by
  constructor
  · intro n hn
    rcases mem_slices _ n hn with h | h | h | h
    · exact mn_ok_1 n h
    · exact mn_ok_2 n h
    · exact mn_ok_3 n h
    · exact mn_ok_4 n h
  · intro n hn
    rcases mem_slices _ n hn with h | h | h | h
    · exact mn_ok_5 n h
    · exact mn_ok_6 n h
    · exact mn_ok_7 n h
    · exact mn_ok_8 n h

set_option maxRecDepth 1000000 in
theorem alias_size : x86AliasNames.size = x86InstNames.size := by decide +kernel

end AsmjitVerif.Lemmas.FormatMn
