/- C16 helper lemmas: list plumbing and "this emitter/holder function respects the observation". -/
import AsmjitVerif.Spec.Reuse
namespace AsmjitVerif.Reuse

/-- lifecycle and configuration operations (everything except code generation proper) -/
def Op.lifecycle : Op → Bool
  | .world _ _ | .init _ | .initb _ _ | .relocate _ | .reset _ | .reinit | .attach _ | .detach _ | .hlogger _ | .elogger _ _ | .diag _ _ | .dump => true
  | _ => false

theorem updAt_length {α : Type} (l : List α) (i : Nat) (f : α → α) : (updAt l i f).length = l.length := by
  induction l generalizing i with
  | nil => cases i <;> rfl
  | cons a r ih => cases i <;> simp [updAt, ih]

theorem updAt_getElem? {α : Type} (l : List α) (i j : Nat) (f : α → α) :
    (updAt l i f)[j]? = if j = i then (l[j]?).map f else l[j]? := by
  induction l generalizing i j with
  | nil => cases i <;> simp [updAt]
  | cons a r ih =>
    cases i with
    | zero => cases j <;> simp [updAt]
    | succ i => cases j with
      | zero => simp [updAt]
      | succ j => simp [updAt, ih]

/-- mapping an observation over a point update -/
theorem updAt_map {α β : Type} (g : α → β) (f : α → α) (f' : β → β) (hf : ∀ x, g (f x) = f' (g x)) (l : List α) (i : Nat) :
    (updAt l i f).map g = updAt (l.map g) i f' := by
  induction l generalizing i with
  | nil => cases i <;> rfl
  | cons a r ih => cases i <;> simp [updAt, hf, ih]

theorem Emitter.obs_obs (e : Emitter) : e.obs.obs = e.obs := by
  cases e with | mk kind _ _ _ _ _ _ _ _ _ _ _ _ _ _ _ _ _ _ _ _ _ _ => cases kind <;> rfl
theorem Holder.obs_obs (h : Holder) : h.obs.obs = h.obs := rfl

theorem Emitter.obs_kind (e : Emitter) : e.obs.kind = e.kind := by
  cases e with | mk kind _ _ _ _ _ _ _ _ _ _ _ _ _ _ _ _ _ _ _ _ _ _ => cases kind <;> rfl
theorem Emitter.obs_code (e : Emitter) : e.obs.code = e.code := by
  cases e with | mk kind _ _ _ _ _ _ _ _ _ _ _ _ _ _ _ _ _ _ _ _ _ _ => cases kind <;> rfl

/-! ### emitter functions respect the observation: `(f e).obs = (f e.obs).obs` -/

theorem onDetach_resp (e : Emitter) : e.onDetach.obs = e.obs.onDetach.obs := by
  cases e with | mk kind _ _ _ _ _ _ _ _ _ _ _ _ _ _ _ _ _ _ _ _ _ _ =>
  cases kind <;> simp [Emitter.onDetach, Emitter.obs]

theorem onReinit_resp (e : Emitter) : e.onReinit.obs = e.obs.onReinit.obs := by
  cases e with | mk kind _ _ _ _ _ _ _ _ _ _ _ _ _ _ _ _ _ _ _ _ _ _ =>
  cases kind <;> simp [Emitter.onReinit, Emitter.obs]

theorem settingsUpdated_obs (lg : Bool) (e : Emitter) : (e.settingsUpdated lg).obs = e.obs := by
  cases e with | mk kind _ _ _ _ _ _ _ _ _ _ _ _ _ _ _ _ _ _ _ _ _ _ =>
  cases kind <;> simp [Emitter.settingsUpdated, Emitter.updateForced, Emitter.obs]

theorem updateForced_obs (e : Emitter) : e.updateForced.obs = e.obs := by
  cases e with | mk kind _ _ _ _ _ _ _ _ _ _ _ _ _ _ _ _ _ _ _ _ _ _ =>
  cases kind <;> simp [Emitter.updateForced, Emitter.obs]

theorem onAttach_resp (h : Holder) (e : Emitter) : (e.onAttach h).obs = (e.obs.onAttach h.obs).obs := by
  cases e with | mk kind _ _ _ _ _ _ _ _ _ _ _ _ _ _ _ _ _ _ _ _ _ _ =>
  cases kind <;> simp [Emitter.onAttach, Emitter.settingsUpdated, Emitter.updateForced, Emitter.obs, Holder.obs]

/-- the attachment-list walk maps observationally equal emitter lists to observationally equal lists -/
theorem applyAll_congr (f : Emitter → Emitter) (hf : ∀ e, (f e).obs = (f e.obs).obs) (att : List Nat) :
    ∀ (l1 l2 : List Emitter), l1.map Emitter.obs = l2.map Emitter.obs →
      (applyAll f l1 att).map Emitter.obs = (applyAll f l2 att).map Emitter.obs := by
  induction att with
  | nil => intro l1 l2 h; simpa [applyAll] using h
  | cons i r ih =>
    intro l1 l2 h
    simp only [applyAll]
    apply ih
    rw [updAt_map Emitter.obs f (fun y => (f y).obs) hf l1 i, updAt_map Emitter.obs f (fun y => (f y).obs) hf l2 i, h]

/-- a handler that does not change the observation leaves the observed list alone -/
theorem applyAll_obs_id (f : Emitter → Emitter) (hf : ∀ e, (f e).obs = e.obs) (att : List Nat) :
    ∀ (l : List Emitter), (applyAll f l att).map Emitter.obs = l.map Emitter.obs := by
  induction att with
  | nil => intro l; rfl
  | cons i r ih =>
    intro l
    simp only [applyAll]
    rw [ih, updAt_map Emitter.obs f id (by intro x; simp [hf]) l i]
    clear ih
    induction l generalizing i with
    | nil => cases i <;> rfl
    | cons a t ih2 => cases i <;> simp [updAt, ih2]

end AsmjitVerif.Reuse
