/-
C18 — ArenaTree::remove, part 18: `remove_refines_shape` (both paths) and `removeStepShape` in the form needed by
the sequence theorem (fuel discharged from `t.RB ∧ t.size < 2^64` with `Ins.height_le_128`).
-/
import AsmjitVerif.Lemmas.C18TreeRem17
import AsmjitVerif.Lemmas.C18TreeIns
namespace AsmjitVerif.Tree.Rem
open AsmjitVerif.Tree AsmjitVerif.Tree.Spec

/-- `remove(node)`, ALL PATHS, everything except the red-black balance.
    Hypotheses: `Represents h t`, `t.BST`, `node ∈ t.idxs`, `t.height ≤ kFuel` (= 256; the replace loop needs no
    height bound: `gf` is at most 3 frames above `f`, and 3 < 256).
    Conclusion: `removeNode h node` represents some `t'` with `t'.keys = setErase (key h node) t.keys`, `t'.BST`,
    `t'.idxs` a permutation of `t.idxs.erase node` (exactly the passed node leaves the tree), root black, and the heap
    still has its `head` cell.  MISSING w.r.t. `remove_refines`: `t'.noRedRed` and `t'.blackH`. -/
theorem remove_refines_shape {h : Tree} {t : T} {node : Nat} (hr : Represents h t) (hbst : t.BST)
    (hmem : node ∈ t.idxs) (hfuel : t.height ≤ kFuel) :
    ∃ t', Represents (removeNode h node) t' ∧ t'.keys = setErase (key h node) t.keys ∧ t'.BST ∧
      t'.idxs.Perm (t.idxs.erase node) ∧ t'.isRed = false ∧ 2 ≤ (removeNode h node).nodes.size := by
  obtain ⟨ctx', i2, eio⟩ := removeLoop_inv2 (key h node) node kFuel (initState h) [] t (init_inv2 hr hbst hmem) hfuel
  simp only [plug] at eio
  by_cases hfq : (removeLoop kFuel node (initState h)).f = (removeLoop kFuel node (initState h)).q
  · obtain ⟨t', a, b, c, d, e⟩ := remove_refines_leaf_partial hr hbst hmem hfuel hfq
    refine ⟨t', a, b, c, d, e, ?_⟩
    rw [removeNode_eq]
    simp only [ne_eq, hfq, not_true_eq_false, if_false, makeBlack_size, setChild_size]
    exact i2.inv.size1
  · cases ctx' with
    | nil =>
      exfalso
      simp only [plug, T.io] at eio
      have := congrArg (List.map Prod.fst) eio
      rw [T.io_idxs] at this
      rw [← this] at hmem; simp at hmem
    | cons F up =>
      obtain ⟨t', a, b, c, d, e, f, _⟩ := replace_path rfl hr hbst i2 eio hfq
      exact ⟨t', a, b, c, d, e, by rw [f]; exact i2.inv.size1⟩

/-- the shape part of `Ins.RemoveStep` (everything but `t'.RB`) -/
theorem removeStepShape : ∀ (h : Tree) (t : T) (n : Nat), Represents h t → t.BST → t.RB → 2 ≤ h.nodes.size →
    t.size < 2 ^ 64 → n ∈ t.idxs →
    ∃ t', Represents (removeNode h n) t' ∧ t'.keys = setErase (key h n) t.keys ∧ t'.BST ∧
      t'.idxs.Perm (t.idxs.erase n) ∧ t'.isRed = false ∧ 2 ≤ (removeNode h n).nodes.size := by
  intro h t n hr hbst hrb _ hsz hmem
  have := Ins.height_le_128 hrb hsz
  exact remove_refines_shape hr hbst hmem (by show t.height ≤ 256; omega)

/-- non-vacuity: both paths on a concrete heap (keys 1 3 4 5 8 9): index 3 (key 3) goes through the replace loop,
    index 5 (key 1) is removed at the bottom -/
example : (removeLoop kFuel 3 (initState demo)).f ≠ (removeLoop kFuel 3 (initState demo)).q ∧
    inorder 10 (removeNode demo 3) (removeNode demo 3).root = [1, 4, 5, 8, 9] ∧
    inorder 10 (removeNode demo 5) (removeNode demo 5).root = [3, 4, 5, 8, 9] := by decide

end AsmjitVerif.Tree.Rem
