/- C06 part 2 – `FuncArgsContext::init_work_data` establishes the invariant `WF` for register-only assignments. -/
import AsmjitVerif.Lemmas.C06ShuffleLoop
namespace AsmjitVerif.C06S
open AsmjitVerif.CallConv AsmjitVerif.Shuffle AsmjitVerif.Machine

def mkVar (src dst : FuncValue) : Var :=
  { cur := src, out := patchRegDst dst, outInit := true,
    done := doneAtInit src (patchRegDst dst) (groupOf dst.regType) dst.regId }

/-- a register argument assigned to a register of the same group -/
structure RegPair (src dst : FuncValue) : Prop where
  srcReg : src.isReg = true
  srcNotStk : src.isStack = false
  srcDirect : src.isIndirect = false
  srcLt : src.regId < 32
  dstReg : dst.isReg = true
  grp : groupOf src.regType = groupOf dst.regType

theorem patch_regType (d : FuncValue) : (patchRegDst d).regType = d.regType := by unfold patchRegDst; split <;> rfl
theorem patch_regId (d : FuncValue) : (patchRegDst d).regId = d.regId := by unfold patchRegDst; split <;> rfl
theorem patch_isReg (d : FuncValue) : (patchRegDst d).isReg = d.isReg := by unfold patchRegDst; split <;> rfl

theorem initDst_reg (a : Arch) (c : Ctx) (src dst : FuncValue) (hd : dst.isReg = true) (c1 : Ctx) (d1 : FuncValue) (g id : Nat)
    (h : initDst a c src dst = .ok (c1, d1, g, id)) :
    d1 = patchRegDst dst ∧ g = groupOf dst.regType ∧ id = dst.regId ∧ g < 4 ∧ id < 32 ∧
    ∃ w1, c1 = c.setW g w1 ∧ w1.phys = (c.w g).phys := by
  unfold initDst at h
  simp only [hd, if_true] at h
  split at h
  · exact absurd h (by simp)
  · split at h
    · exact absurd h (by simp)
    · rename_i hg
      split at h
      · exact absurd h (by simp)
      · rename_i hid
        split at h
        · exact absurd h (by simp)
        · simp only [Except.ok.injEq, Prod.mk.injEq] at h
          obtain ⟨h1, h2, h3, h4⟩ := h
          simp only [Bool.or_eq_true, decide_eq_true_eq, not_or] at hid
          subst h3
          exact ⟨h2.symm, by rw [patch_regType], by rw [← h4, patch_regId], by omega, by rw [← h4]; omega, _, h1.symm, rfl⟩

theorem assign_getD (w : WorkData) (v r r' : Nat) (hr : r < w.phys.length) :
    (w.assign v r).phys.getD r' none = if r' = r then some v else w.phys.getD r' none := by
  unfold WorkData.assign
  by_cases h : r' = r
  · subst h; simp only [if_true]; exact getD_set_eq _ _ _ _ hr
  · simp only [h, if_false]; exact getD_set_ne _ _ _ _ _ (fun hh => h hh.symm)

structure InitStep (c c' : Ctx) (src dst : FuncValue) : Prop where
  vars : c'.vars = c.vars ++ [mkVar src dst]
  phys : ∀ g r, physAt c' g r = if g = groupOf src.regType ∧ r = src.regId then some c.vars.length else physAt c g r
  wdlen : c'.wd.length = 4
  physlen : ∀ g, g < 4 → (c'.w g).phys.length = 32
  sdm : c'.stackDstMask = c.stackDstMask
  hss : c'.hasStackSrc = c.hasStackSrc
  sav : c'.saVarId = c.saVarId
  grpLt : groupOf dst.regType < 4
  dstLt : dst.regId < 32

theorem initVar_reg (a : Arch) (c : Ctx) (re : Nat) (src dst : FuncValue) (hp : RegPair src dst)
    (hwl : c.wd.length = 4) (hpl : ∀ g, g < 4 → (c.w g).phys.length = 32) (c' : Ctx) (re' : Nat)
    (h : initVar a c re src dst = .ok (c', re')) : InitStep c c' src dst := by
  unfold initVar at h
  have hass : src.isAssigned = true := by simp [FuncValue.isAssigned, hp.srcReg]
  simp only [hass, hp.srcDirect, Bool.not_true, Bool.false_eq_true, if_false] at h
  cases hdst : initDst a c src dst with
  | error x => rw [hdst] at h; simp at h
  | ok r =>
    obtain ⟨c1, d1, g, id⟩ := r
    rw [hdst] at h
    simp only at h
    obtain ⟨hd1, hg, hid, hglt, hidlt, w1, hc1, hw1⟩ := initDst_reg a c src dst hp.dstReg c1 d1 g id hdst
    have hgs : g = groupOf src.regType := by rw [hg, hp.grp]
    unfold initSrc at h
    simp only [hp.srcReg, if_true, hgs] at h
    simp only [Except.ok.injEq, Prod.mk.injEq] at h
    obtain ⟨hc', _⟩ := h
    have hlen1 : c1.vars.length = c.vars.length := by rw [hc1]; rfl
    have hwl1 : c1.wd.length = 4 := by rw [hc1]; simp [Ctx.setW, hwl]
    have hsg : groupOf src.regType < 4 := by rw [← hgs]; exact hglt
    have hw1g : (c1.w (groupOf src.regType)).phys = (c.w (groupOf src.regType)).phys := by
      rw [hc1, ← hgs, w_setW_eq _ _ _ (by rw [hwl]; exact hglt)]; exact hw1
    have hphys1 : ∀ g' r, physAt c1 g' r = physAt c g' r := by
      intro g' r; unfold physAt
      by_cases hgg : g' = g
      · subst hgg; rw [hc1, w_setW_eq _ _ _ (by rw [hwl]; exact hglt), hw1]
      · rw [hc1, w_setW_ne _ _ _ _ (fun hh => hgg hh.symm)]
    refine ⟨?_, ?_, ?_, ?_, ?_, ?_, ?_, by rw [← hg]; exact hglt, by rw [← hid]; exact hidlt⟩
    · rw [← hc']; simp only [Ctx.setW]
      rw [hc1]; simp only [Ctx.setW, mkVar, hd1, hg, hid, hgs]
      simp [hp.grp]
    · intro g' r
      rw [← hc']
      show physAt (c1.setW (groupOf src.regType) ((c1.w (groupOf src.regType)).assign c1.vars.length src.regId)) g' r = _
      unfold physAt
      by_cases hgg : g' = groupOf src.regType
      · subst hgg
        rw [w_setW_eq _ _ _ (by rw [hwl1]; exact hsg)]
        rw [assign_getD _ _ _ _ (by rw [hw1g, hpl _ hsg]; exact hp.srcLt), hw1g, hlen1]
        by_cases hr : r = src.regId <;> simp [hr]
      · rw [w_setW_ne _ _ _ _ (fun hh => hgg hh.symm)]
        simp only [hgg, false_and, if_false]
        exact hphys1 g' r
    · rw [← hc']; simp [Ctx.setW, hwl1]
    · intro g' hg'
      rw [← hc']
      show ((c1.setW (groupOf src.regType) ((c1.w (groupOf src.regType)).assign c1.vars.length src.regId)).w g').phys.length = 32
      by_cases hgg : g' = groupOf src.regType
      · subst hgg
        rw [w_setW_eq _ _ _ (by rw [hwl1]; exact hsg)]
        simp [WorkData.assign, hw1g, hpl _ hsg]
      · rw [w_setW_ne _ _ _ _ (fun hh => hgg hh.symm)]
        by_cases hg2 : g' = g
        · subst hg2; rw [hc1, w_setW_eq _ _ _ (by rw [hwl]; exact hglt), hw1]; exact hpl _ hg'
        · rw [hc1, w_setW_ne _ _ _ _ (fun hh => hg2 hh.symm)]; exact hpl _ hg'
    · rw [← hc', hc1]; rfl
    · rw [← hc', hc1]; rfl
    · rw [← hc', hc1]; rfl

abbrev Vals := List (FuncValue × Option FuncValue)
def dfltVal : FuncValue × Option FuncValue := (.ofType 0, none)
def srcAt (vals : Vals) (i : Nat) : FuncValue := (vals.getD i dfltVal).1
def dstAt (vals : Vals) (i : Nat) : FuncValue := ((vals.getD i dfltVal).2).getD (.ofType 0)

/-- register-only assignment: every argument sits in a register (< 32), is assigned a register of the same group, and no two
    arguments share a source register -/
structure RegOnly (vals : Vals) : Prop where
  pair : ∀ i, i < vals.length → (vals.getD i dfltVal).2 = some (dstAt vals i) ∧ RegPair (srcAt vals i) (dstAt vals i)
  dist : ∀ i j, i < vals.length → j < vals.length → i ≠ j →
    ¬ (groupOf (srcAt vals i).regType = groupOf (srcAt vals j).regType ∧ (srcAt vals i).regId = (srcAt vals j).regId)

structure PInv (vals : Vals) (c : Ctx) (k : Nat) : Prop where
  len : c.vars.length = k
  wdlen : c.wd.length = 4
  physlen : ∀ g, g < 4 → (c.w g).phys.length = 32
  sdm : c.stackDstMask = 0
  hss : c.hasStackSrc = false
  sav : c.saVarId = 255
  var : ∀ i, i < k → c.var i = mkVar (srcAt vals i) (dstAt vals i)
  lt : ∀ i, i < k → groupOf (dstAt vals i).regType < 4 ∧ (dstAt vals i).regId < 32
  phys : ∀ i, i < k → physAt c (groupOf (srcAt vals i).regType) (srcAt vals i).regId = some i
  inv : ∀ g r j, physAt c g r = some j → j < k ∧ groupOf (srcAt vals j).regType = g ∧ (srcAt vals j).regId = r

theorem getD_append_left {α} (l l' : List α) (i : Nat) (d : α) (h : i < l.length) : (l ++ l').getD i d = l.getD i d := by
  simp [List.getD_eq_getElem?_getD, List.getElem?_append_left h]
theorem getD_append_len {α} (l : List α) (x d : α) : (l ++ [x]).getD l.length d = x := by
  simp [List.getD_eq_getElem?_getD]

theorem initVars_spec (a : Arch) (vals : Vals) (hr : RegOnly vals) : ∀ (rest : Vals) (k : Nat) (c : Ctx) (re : Nat),
    rest = vals.drop k → k ≤ vals.length → PInv vals c k → ∀ c' re', initVars a c re rest = .ok (c', re') →
    PInv vals c' vals.length := by
  intro rest
  induction rest with
  | nil =>
    intro k c re hrest hkle hP c' re' h
    have hk : vals.length ≤ k := by
      have := congrArg List.length hrest; simp at this; omega
    simp only [initVars] at h
    cases h
    have : k = vals.length := by omega
    subst this; exact hP
  | cons x rest ih =>
    intro k c re hrest hkle hP c' re' h
    have hklt : k < vals.length := by
      have := congrArg List.length hrest; simp at this; omega
    rw [List.drop_eq_getElem_cons hklt] at hrest
    injection hrest with hx hrest'
    obtain ⟨hdd, hpair⟩ := hr.pair k hklt
    have hxs : x = (srcAt vals k, some (dstAt vals k)) := by
      have h1 : vals.getD k dfltVal = x := by
        rw [hx]; simp [List.getD_eq_getElem?_getD, hklt]
      unfold srcAt; rw [← hdd, h1]
    rw [hxs] at h
    simp only [initVars] at h
    cases hiv : initVar a c re (srcAt vals k) (dstAt vals k) with
    | error e => rw [hiv] at h; simp at h
    | ok r =>
      obtain ⟨c1, re1⟩ := r
      rw [hiv] at h
      simp only at h
      have hs := initVar_reg a c re _ _ hpair hP.wdlen hP.physlen c1 re1 hiv
      refine ih (k + 1) c1 re1 hrest' hklt ?_ c' re' h
      have hlen : c.vars.length = k := hP.len
      have hne : ∀ i, i < k → ¬ (groupOf (srcAt vals i).regType = groupOf (srcAt vals k).regType ∧
          (srcAt vals i).regId = (srcAt vals k).regId) :=
        fun i hi => hr.dist i k (by omega) hklt (by omega)
      refine ⟨by rw [hs.vars]; simp [hlen], hs.wdlen, hs.physlen, by rw [hs.sdm]; exact hP.sdm, by rw [hs.hss]; exact hP.hss,
        by rw [hs.sav]; exact hP.sav, ?_, ?_, ?_, ?_⟩
      · intro i hi
        unfold Ctx.var
        rw [hs.vars]
        by_cases hik : i = k
        · subst hik; rw [← hlen]; exact getD_append_len _ _ _
        · rw [getD_append_left _ _ _ _ (by omega)]; exact hP.var i (by omega)
      · intro i hi
        by_cases hik : i = k
        · subst hik; exact ⟨hs.grpLt, hs.dstLt⟩
        · exact hP.lt i (by omega)
      · intro i hi
        rw [hs.phys]
        by_cases hik : i = k
        · subst hik; simp [hlen]
        · have := hne i (by omega)
          simp only [this, if_false]
          exact hP.phys i (by omega)
      · intro g r j hj
        rw [hs.phys] at hj
        by_cases hgr : g = groupOf (srcAt vals k).regType ∧ r = (srcAt vals k).regId
        · simp only [hgr, and_self, if_true] at hj
          have : j = k := by rw [← hlen]; exact (Option.some.inj hj).symm
          subst this
          exact ⟨by omega, hgr.1.symm, hgr.2.symm⟩
        · simp only [hgr, if_false] at hj
          obtain ⟨a1, a2, a3⟩ := hP.inv g r j hj
          exact ⟨by omega, a2, a3⟩

end AsmjitVerif.C06S
