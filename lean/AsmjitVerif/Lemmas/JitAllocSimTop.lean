/- C09 refinement (model run ⊑ monitor): the monitor accepts every run of the model (`model_accepted`). -/
import AsmjitVerif.Lemmas.JitAllocSimCfg
namespace AsmjitVerif.JitAlloc
open Spec

theorem judge_ok {g : Ghost} {s : St} (hS : Sim g s) (hG : Good s) (op : Op) : JudgeOk g s op := by
  cases op with
  | alloc n => exact judge_alloc hS hG n
  | release h => exact judge_release hS hG h
  | shrink h n => exact judge_shrink hS hG h n
  | query h o => exact judge_query hS hG h o
  | sstale h n => exact judge_sstale hS h n
  | write h b => exact judge_write hS hG h b
  | wtrunc h b n => exact judge_wtrunc hS hG h b n
  | read h => exact judge_read hS hG h
  | mem => exact judge_mem hS hG
  | sweep => exact judge_sweep hS hG
  | blocks => exact judge_blocks hS hG
  | dump => exact judge_dump hS
  | reset hard => exact judge_reset hS hG hard
  | isinit => exact judge_isinit hS hG
  | rforeign k => exact judge_rforeign hS k
  | qforeign k => exact judge_qforeign hS k
  | sforeign => exact judge_sforeign hS

/-- the observable trace of a model run: operation, answer, statistics after it -/
def trace (s : St) (ops : List Op) : List (Op × Ans × Stats) := ops.zip (run s ops)

theorem mstep_ok {g : Ghost} {s : St} (hS : Sim g s) (hG : Good s) (op : Op) :
    ∃ g', mstep g op (step s op).2 (rwOf (step s op).2) g.cfg.dual (step s op).1.a.stats = .ok g' ∧ Sim g' (step s op).1 := by
  obtain ⟨g', hj, hS'⟩ := judge_ok hS hG op
  refine ⟨g', ?_, hS'⟩
  unfold mstep
  rw [hj]
  simp only
  rw [checkStats_ok hS' (hG.step op)]

theorem monitor_accepts {g : Ghost} {s : St} (hS : Sim g s) (hG : Good s) (ops : List Op) :
    monitor g (trace s ops) = none := by
  induction ops generalizing g s with
  | nil => rfl
  | cons op ops ih =>
    obtain ⟨g', hm, hS'⟩ := mstep_ok hS hG op
    simp only [trace, run, List.zip_cons_cons, monitor]
    have ih' := ih hS' (hG.step op)
    unfold trace at ih'
    revert hm
    generalize (step s op).2 = a
    intro hm
    cases a <;> simp only [rwOf] at hm <;> simp only [hm, ih']

/-- every run of the model, under every configuration `JitAllocator_new_impl` can produce, is accepted by the monitor -/
theorem model_accepted (opts gran blockSize pattern : Nat) (ops : List Op) :
    monitor (Ghost.init (mkConfig opts gran blockSize pattern)) (trace (St.init (mkConfig opts gran blockSize pattern)) ops) = none :=
  monitor_accepts (Sim.init _) (Good.init _ (mkConfig_wf _ _ _ _) (mkConfig_div _ _ _ _) (mkConfig_gran_le _ _ _ _)) ops

end AsmjitVerif.JitAlloc
