/- Per-pool accounting (block count, reserved / used area, empty blocks) of the JIT allocator model (C09, statistics and retention). -/
import AsmjitVerif.Lemmas.JitAllocReuse
namespace AsmjitVerif.JitAlloc


/-- sum of a per-block weight over a block list -/
def agg (w : Block → Nat) (bs : List Block) : Nat := (bs.map w).sum

@[simp] theorem agg_nil (w : Block → Nat) : agg w [] = 0 := rfl
@[simp] theorem agg_cons (w : Block → Nat) (x : Block) (xs : List Block) : agg w (x :: xs) = w x + agg w xs := by simp [agg]
theorem agg_append (w : Block → Nat) (l1 l2 : List Block) : agg w (l1 ++ l2) = agg w l1 + agg w l2 := by simp [agg]

theorem agg_modify (w : Block → Nat) {b b' : Block} : ∀ (bs : List Block), (bs.map (·.id)).Pairwise (· < ·) → b ∈ bs →
    agg w (bs.map fun x => if x.id = b.id then b' else x) + w b = agg w bs + w b' := by
  intro bs
  induction bs with
  | nil => intro _ hb; simp at hb
  | cons x xs ih =>
    intro hp hb
    simp only [List.map_cons, List.pairwise_cons] at hp
    rcases List.mem_cons.mp hb with rfl | hb
    · have : (xs.map fun x => if x.id = b.id then b' else x) = xs := by
        conv => rhs; rw [← List.map_id xs]
        apply List.map_congr_left
        intro y hy
        have := hp.1 y.id (List.mem_map_of_mem hy)
        have : y.id ≠ b.id := by omega
        simp [this]
      simp only [List.map_cons, if_true, agg_cons, this]
      omega
    · have hne : x.id ≠ b.id := by have := hp.1 b.id (List.mem_map_of_mem hb); omega
      have := ih hp.2 hb
      simp only [List.map_cons, hne, if_false, agg_cons]
      omega

theorem agg_remove (w : Block → Nat) {b : Block} : ∀ (bs : List Block), (bs.map (·.id)).Pairwise (· < ·) → b ∈ bs →
    agg w (bs.filter (·.id != b.id)) + w b = agg w bs := by
  intro bs
  induction bs with
  | nil => intro _ hb; simp at hb
  | cons x xs ih =>
    intro hp hb
    simp only [List.map_cons, List.pairwise_cons] at hp
    rcases List.mem_cons.mp hb with rfl | hb
    · have : xs.filter (·.id != b.id) = xs := by
        apply List.filter_eq_self.mpr
        intro y hy
        have := hp.1 y.id (List.mem_map_of_mem hy)
        simp; omega
      simp [List.filter_cons, this]
      omega
    · have hne : x.id ≠ b.id := by have := hp.1 b.id (List.mem_map_of_mem hb); omega
      have := ih hp.2 hb
      simp [List.filter_cons, hne]
      omega

theorem agg_congr (w : Block → Nat) {α} (key : Block → α) (f : α → Nat) (hw : ∀ b, w b = f (key b)) {l1 l2 : List Block}
    (h : l1.map key = l2.map key) : agg w l1 = agg w l2 := by
  have e : ∀ l : List Block, agg w l = ((l.map key).map f).sum := by
    intro l
    have : w = f ∘ key := funext hw
    simp [agg, List.map_map, this]
  rw [e, e, h]

theorem agg_le_of_mem (w : Block → Nat) {b : Block} {bs : List Block} (hb : b ∈ bs) : w b ≤ agg w bs := by
  induction bs with
  | nil => simp at hb
  | cons x xs ih =>
    rcases List.mem_cons.mp hb with rfl | hb
    · simp
    · have := ih hb; simp; omega

/-! ### per-pool weights -/

def wCnt (p : Nat) (b : Block) : Nat := if b.pool = p then 1 else 0
def wSize (p : Nat) (b : Block) : Nat := if b.pool = p then b.areaSize else 0
def wUsed (p : Nat) (b : Block) : Nat := if b.pool = p then b.areaUsed else 0
def wEmpty (p : Nat) (b : Block) : Nat := if b.pool = p ∧ b.empty = true then 1 else 0

theorem pool_setPool (a : Alloc) (p q : Nat) (f : PoolAcc → PoolAcc) :
    (a.setPool p f).pool q = if q = p ∧ p < a.pools.length then f (a.pool p) else a.pool q := by
  unfold Alloc.setPool Alloc.pool
  simp only [List.getD, List.getElem?_mapIdx]
  by_cases hq : q < a.pools.length
  · have : a.pools[q]? = some a.pools[q] := by simp [hq]
    rw [this]
    by_cases c : q = p
    · subst c; simp [hq]
    · simp [c]
  · have : a.pools[q]? = none := by simp; omega
    rw [this]
    by_cases c : q = p
    · subst c; simp [hq]
    · simp [c]





theorem tryAlloc_acct {b b' : Block} {k : Nat} {r : Option Nat} (h : b.tryAlloc k = (b', r)) :
    b'.pool = b.pool ∧ b'.areaSize = b.areaSize ∧ b'.areaUsed = b.areaUsed ∧ b'.empty = b.empty ∧ b'.pad = b.pad := by
  unfold Block.tryAlloc at h
  split at h
  · simp at h; obtain ⟨rfl, _⟩ := h; simp
  · split at h
    · split at h
      · split at h
        · simp at h; obtain ⟨rfl, _⟩ := h; simp
        · split at h
          · simp at h; obtain ⟨rfl, _⟩ := h; simp
          · simp at h; obtain ⟨rfl, _⟩ := h; simp
      · simp at h; obtain ⟨rfl, _⟩ := h; simp
    · simp at h; obtain ⟨rfl, _⟩ := h; simp

theorem commit_acct (b : Block) (idx k : Nat) :
    (b.commit idx k).pool = b.pool ∧ (b.commit idx k).areaSize = b.areaSize ∧ (b.commit idx k).areaUsed = b.areaUsed + k ∧
    (b.commit idx k).empty = false := by
  unfold Block.commit
  refine ⟨by simp, by simp, by simp, ?_⟩
  unfold Block.markAllocated
  simp only
  split <;> rfl

/-- effect of the block loop on the per-pool aggregates -/
theorem scanPass_agg (sel : Block → Bool) (k p : Nat) (hsel : ∀ b, sel b = true → b.pool = p) :
    ∀ (bs : List Block),
      match (scanPass sel k bs).2 with
      | none => ∀ q, agg (wCnt q) (scanPass sel k bs).1 = agg (wCnt q) bs ∧ agg (wSize q) (scanPass sel k bs).1 = agg (wSize q) bs ∧
          agg (wUsed q) (scanPass sel k bs).1 = agg (wUsed q) bs ∧ agg (wEmpty q) (scanPass sel k bs).1 = agg (wEmpty q) bs
      | some (_, _, w) => ∀ q, agg (wCnt q) (scanPass sel k bs).1 = agg (wCnt q) bs ∧ agg (wSize q) (scanPass sel k bs).1 = agg (wSize q) bs ∧
          agg (wUsed q) (scanPass sel k bs).1 = agg (wUsed q) bs + (if q = p then k else 0) ∧
          agg (wEmpty q) (scanPass sel k bs).1 + (if q = p ∧ w = true then 1 else 0) = agg (wEmpty q) bs := by
  intro bs
  induction bs with
  | nil => simp [scanPass]
  | cons b bs ih =>
    unfold scanPass
    by_cases hs : sel b = true
    · simp only [hs, if_true]
      rcases hta : b.tryAlloc k with ⟨b', _ | idx⟩
      · simp only
        obtain ⟨f1, f2, f3, f4, _⟩ := tryAlloc_acct hta
        have hw : ∀ q, wCnt q b' = wCnt q b ∧ wSize q b' = wSize q b ∧ wUsed q b' = wUsed q b ∧ wEmpty q b' = wEmpty q b := by
          intro q; simp [wCnt, wSize, wUsed, wEmpty, f1, f2, f3, f4]
        split
        · rename_i hn
          rw [hn] at ih
          intro q
          obtain ⟨a1, a2, a3, a4⟩ := ih q
          obtain ⟨w1, w2, w3, w4⟩ := hw q
          simp only [agg_cons]
          omega
        · rename_i id idx w hsome
          rw [hsome] at ih
          intro q
          obtain ⟨a1, a2, a3, a4⟩ := ih q
          obtain ⟨w1, w2, w3, w4⟩ := hw q
          simp only [agg_cons]
          omega
      · simp only
        obtain ⟨f1, f2, f3, f4, _⟩ := tryAlloc_acct hta
        obtain ⟨c1, c2, c3, c4⟩ := commit_acct b' idx k
        have hp := hsel b hs
        intro q
        simp only [agg_cons, wCnt, wSize, wUsed, wEmpty, c1, c2, c3, c4, f1, f2, f3, f4, hp]
        by_cases hq : p = q
        · subst hq
          cases hb : b.empty <;> simp <;> omega
        · have hq' : ¬ q = p := fun h => hq h.symm
          simp [hq, hq']
    · simp only [hs]
      split
      · rename_i hn
        simp only [Bool.false_eq_true, if_false] at hn
        rw [hn] at ih
        intro q
        obtain ⟨a1, a2, a3, a4⟩ := ih q
        simp only [Bool.false_eq_true, if_false, agg_cons]
        omega
      · rename_i id idx w hsome
        simp only [Bool.false_eq_true, if_false] at hsome
        rw [hsome] at ih
        intro q
        obtain ⟨a1, a2, a3, a4⟩ := ih q
        simp only [Bool.false_eq_true, if_false, agg_cons]
        omega





theorem twoPass_agg (sel1 sel2 : Block → Bool) (k p : Nat) (h1 : ∀ b, sel1 b = true → b.pool = p) (h2 : ∀ b, sel2 b = true → b.pool = p)
    (bs : List Block) (r2 : List Block × Option Found)
    (hr2 : r2 = if (scanPass sel1 k bs).2.isSome then scanPass sel1 k bs else scanPass sel2 k (scanPass sel1 k bs).1) :
    match r2.2 with
    | none => ∀ q, agg (wCnt q) r2.1 = agg (wCnt q) bs ∧ agg (wSize q) r2.1 = agg (wSize q) bs ∧
        agg (wUsed q) r2.1 = agg (wUsed q) bs ∧ agg (wEmpty q) r2.1 = agg (wEmpty q) bs
    | some (_, _, w) => ∀ q, agg (wCnt q) r2.1 = agg (wCnt q) bs ∧ agg (wSize q) r2.1 = agg (wSize q) bs ∧
        agg (wUsed q) r2.1 = agg (wUsed q) bs + (if q = p then k else 0) ∧
        agg (wEmpty q) r2.1 + (if q = p ∧ w = true then 1 else 0) = agg (wEmpty q) bs := by
  have s1 := scanPass_agg sel1 k p h1 bs
  rcases hr : (scanPass sel1 k bs).2 with _ | ⟨id, idx, w⟩
  · simp only [hr, Option.isSome_none, Bool.false_eq_true, if_false] at hr2
    rw [hr] at s1
    have s2 := scanPass_agg sel2 k p h2 (scanPass sel1 k bs).1
    subst hr2
    rcases hr' : (scanPass sel2 k (scanPass sel1 k bs).1).2 with _ | ⟨id, idx, w⟩
    · rw [hr'] at s2
      intro q
      obtain ⟨a1, a2, a3, a4⟩ := s1 q
      obtain ⟨b1, b2, b3, b4⟩ := s2 q
      exact ⟨by omega, by omega, by omega, by omega⟩
    · rw [hr'] at s2
      intro q
      obtain ⟨a1, a2, a3, a4⟩ := s1 q
      obtain ⟨b1, b2, b3, b4⟩ := s2 q
      exact ⟨by omega, by omega, by omega, by omega⟩
  · simp only [hr, Option.isSome_some, if_true] at hr2
    subst hr2
    rw [hr] at s1 ⊢
    exact s1

/-- per-pool accounting of the allocator -/
structure PInv (a : Alloc) : Prop where
  len : a.pools.length = a.cfg.poolCount
  plt : ∀ b ∈ a.blocks, b.pool < a.pools.length
  cnt : ∀ p, p < a.pools.length → (a.pool p).blockCount = agg (wCnt p) a.blocks
  size : ∀ p, p < a.pools.length → (a.pool p).totalSize = agg (wSize p) a.blocks
  used : ∀ p, p < a.pools.length → (a.pool p).totalUsed = agg (wUsed p) a.blocks
  emp : ∀ p, p < a.pools.length → agg (wEmpty p) a.blocks ≤ (a.pool p).emptyCount ∧ (a.pool p).emptyCount ≤ 1
  imm : a.cfg.immediate = true → ∀ p, agg (wEmpty p) a.blocks = 0

theorem sizeToPoolId_go_le (cfg : Config) (size : Nat) : ∀ p, sizeToPoolId.go cfg size p ≤ p := by
  intro p
  induction p with
  | zero => simp [sizeToPoolId.go]
  | succ p ih => unfold sizeToPoolId.go; split <;> omega

theorem sizeToPoolId_lt (cfg : Config) (size : Nat) : sizeToPoolId cfg size < cfg.poolCount := by
  unfold sizeToPoolId
  have := sizeToPoolId_go_le cfg size (cfg.poolCount - 1)
  have : 0 < cfg.poolCount := by unfold Config.poolCount; split <;> omega
  omega

theorem allocFound_pinv {a : Alloc} {p n size : Nat} {blocks : List Block} {id idx : Nat} {w : Bool} (h : PInv a)
    (hp : p < a.pools.length)
    (hplt : ∀ b ∈ blocks, b.pool < a.pools.length)
    (hagg : ∀ q, agg (wCnt q) blocks = agg (wCnt q) a.blocks ∧ agg (wSize q) blocks = agg (wSize q) a.blocks ∧
        agg (wUsed q) blocks = agg (wUsed q) a.blocks + (if q = p then n else 0) ∧
        agg (wEmpty q) blocks + (if q = p ∧ w = true then 1 else 0) = agg (wEmpty q) a.blocks) :
    PInv (a.allocFound p n size blocks id idx w).1 := by
  unfold Alloc.allocFound
  simp only
  have hl : ({ a with blocks := blocks, allocCount := a.allocCount + 1 } : Alloc).pools.length = a.pools.length := rfl
  have core : ∀ q, q < a.pools.length →
      let P := (({ a with blocks := blocks, allocCount := a.allocCount + 1 } : Alloc).setPool p fun q =>
        { q with totalUsed := q.totalUsed + n, emptyCount := if w then q.emptyCount - 1 else q.emptyCount }).pool q
      P.blockCount = agg (wCnt q) blocks ∧ P.totalSize = agg (wSize q) blocks ∧ P.totalUsed = agg (wUsed q) blocks ∧
      agg (wEmpty q) blocks ≤ P.emptyCount ∧ P.emptyCount ≤ 1 := by
    intro q hq
    simp only
    rw [pool_setPool]
    obtain ⟨a1, a2, a3, a4⟩ := hagg q
    have c1 := h.cnt q hq
    have c2 := h.size q hq
    have c3 := h.used q hq
    have c4 := h.emp q hq
    have e : ({ a with blocks := blocks, allocCount := a.allocCount + 1 } : Alloc).pool = a.pool := rfl
    by_cases c : q = p
    · subst c
      simp only [hl, hq, and_self, if_true, e]
      simp only [true_and, if_true] at a3 a4
      cases w <;> simp at a4 ⊢ <;> omega
    · simp only [c, false_and, if_false, e] at a3 a4 ⊢
      omega
  have hlen : ∀ f, (({ a with blocks := blocks, allocCount := a.allocCount + 1 } : Alloc).setPool p f).pools.length = a.pools.length := by
    intro f; simp [Alloc.setPool]
  refine ⟨by rw [hlen]; exact h.len, by intro b hb; rw [hlen]; exact hplt b hb,
    fun q hq => (core q (by rw [hlen] at hq; exact hq)).1, fun q hq => (core q (by rw [hlen] at hq; exact hq)).2.1,
    fun q hq => (core q (by rw [hlen] at hq; exact hq)).2.2.1, fun q hq => (core q (by rw [hlen] at hq; exact hq)).2.2.2, ?_⟩
  intro hi q
  obtain ⟨a1, a2, a3, a4⟩ := hagg q
  have := h.imm hi q
  show agg (wEmpty q) blocks = 0
  omega





theorem allocNew_pinv {a : Alloc} {p n size : Nat} {blocks : List Block} (h : PInv a) (hp : p < a.pools.length)
    (hfr : ∀ x ∈ blocks, x.id < a.nextId)
    (hplt : ∀ b ∈ blocks, b.pool < a.pools.length)
    (hagg : ∀ q, agg (wCnt q) blocks = agg (wCnt q) a.blocks ∧ agg (wSize q) blocks = agg (wSize q) a.blocks ∧
        agg (wUsed q) blocks = agg (wUsed q) a.blocks ∧ agg (wEmpty q) blocks = agg (wEmpty q) a.blocks) :
    PInv (a.allocNew p n size blocks).1 := by
  let a1 : Alloc := { a with blocks := blocks }
  let bsz := idealBlockSize a1 p size
  let nb := newBlock a1 p bsz
  let fb : Block := ({ nb with searchStart := nb.searchStart + n, largest := nb.largest - n }).markAllocated nb.padN (nb.padN + n)
  have hblocks : (a.allocNew p n size blocks).1.blocks = blocks ++ [fb] := by
    unfold Alloc.allocNew
    simp only [Alloc.insertBlock, Alloc.modifyBlock, setPool_blocks, List.map_append, List.map_cons, List.map_nil]
    rw [map_modify_fresh blocks _ _ (by intro x hx; exact hfr x hx)]
    simp
    rfl
  have hfb : fb.pool = p ∧ fb.areaSize = nb.areaSize ∧ fb.areaUsed = nb.areaUsed + n ∧ fb.empty = false := by
    refine ⟨by simp [fb]; rfl, by simp [fb], by simp [fb], ?_⟩
    simp only [fb]
    unfold Block.markAllocated
    simp only
    split <;> rfl
  have hcfg : (a.allocNew p n size blocks).1.cfg = a.cfg := rfl
  have pool_congr : ∀ (X Y : Alloc) (q : Nat), X.pools = Y.pools → X.pool q = Y.pool q := by
    intro X Y q e; unfold Alloc.pool; rw [e]
  -- the pool records after the two `setPool`s of `allocNew`
  have key : ∀ q, (q = p → ((a.allocNew p n size blocks).1.pool q).blockCount = (a.pool q).blockCount + 1 ∧
        ((a.allocNew p n size blocks).1.pool q).totalSize = (a.pool q).totalSize + nb.areaSize ∧
        ((a.allocNew p n size blocks).1.pool q).totalUsed = (a.pool q).totalUsed + nb.areaUsed + n ∧
        ((a.allocNew p n size blocks).1.pool q).emptyCount = (a.pool q).emptyCount) ∧
      (q ≠ p → (a.allocNew p n size blocks).1.pool q = a.pool q) := by
    intro q
    have e1 : nb.pool = p := rfl
    have hl1 : ∀ (f : PoolAcc → PoolAcc), (({ a1 with blocks := a1.blocks ++ [nb] } : Alloc).setPool p f).pools.length = a.pools.length := by
      intro f; simp [Alloc.setPool, a1]
    have step2 : ∀ (f1 f2 : PoolAcc → PoolAcc) (Y : Alloc),
        Y.pools = (({ a1 with blocks := a1.blocks ++ [nb] } : Alloc).setPool p f1).pools →
        (Y.setPool p f2).pool q = if q = p then f2 (f1 (a.pool p)) else a.pool q := by
      intro f1 f2 Y hY
      rw [pool_setPool]
      have hYl : Y.pools.length = a.pools.length := by rw [hY]; exact hl1 f1
      have hYp : ∀ r, Y.pool r = (({ a1 with blocks := a1.blocks ++ [nb] } : Alloc).setPool p f1).pool r := fun r => pool_congr _ _ r hY
      rw [hYl]
      by_cases c : q = p
      · subst c
        simp only [hp, and_self, if_true]
        rw [hYp, pool_setPool]
        simp [Alloc.setPool, a1, hp]
        rfl
      · simp only [c, false_and, if_false]
        rw [hYp, pool_setPool]
        simp only [c, false_and, if_false]
        rfl
    have := step2
      (fun q => { q with cursor := if q.cursor.isNone then some nb.id else q.cursor, blockCount := q.blockCount + 1
                         totalSize := q.totalSize + nb.areaSize, totalUsed := q.totalUsed + nb.areaUsed
                         totalOverhead := q.totalOverhead + bitVectorBytes nb.areaSize * 2 })
      (fun q => { q with totalUsed := q.totalUsed + n }) _ rfl
    constructor
    · intro c
      have e : (a.allocNew p n size blocks).1.pool q = _ := this
      rw [e]
      subst c
      simp
    · intro c
      have e : (a.allocNew p n size blocks).1.pool q = _ := this
      rw [e]
      simp [c]
  have hlen : (a.allocNew p n size blocks).1.pools.length = a.pools.length := by
    unfold Alloc.allocNew; simp [Alloc.setPool, Alloc.insertBlock, Alloc.modifyBlock]
  have hnb : nb.areaUsed = nb.padN ∧ nb.pool = p := ⟨rfl, rfl⟩
  have wfb : ∀ q, wCnt q fb = (if q = p then 1 else 0) ∧ wSize q fb = (if q = p then nb.areaSize else 0) ∧
      wUsed q fb = (if q = p then nb.areaUsed + n else 0) ∧ wEmpty q fb = 0 := by
    intro q
    obtain ⟨f1, f2, f3, f4⟩ := hfb
    simp only [wCnt, wSize, wUsed, wEmpty, f1, f2, f3, f4]
    by_cases c : q = p
    · subst c; simp
    · have c' : ¬ p = q := fun h => c h.symm
      simp [c, c']
  have core : ∀ q, q < a.pools.length →
      ((a.allocNew p n size blocks).1.pool q).blockCount = agg (wCnt q) (blocks ++ [fb]) ∧
      ((a.allocNew p n size blocks).1.pool q).totalSize = agg (wSize q) (blocks ++ [fb]) ∧
      ((a.allocNew p n size blocks).1.pool q).totalUsed = agg (wUsed q) (blocks ++ [fb]) ∧
      agg (wEmpty q) (blocks ++ [fb]) ≤ ((a.allocNew p n size blocks).1.pool q).emptyCount ∧
      ((a.allocNew p n size blocks).1.pool q).emptyCount ≤ 1 := by
    intro q hq
    obtain ⟨a1', a2, a3, a4⟩ := hagg q
    obtain ⟨w1, w2, w3, w4⟩ := wfb q
    have c1 := h.cnt q hq
    have c2 := h.size q hq
    have c3 := h.used q hq
    have c4 := h.emp q hq
    simp only [agg_append, agg_cons, agg_nil, w1, w2, w3, w4]
    by_cases c : q = p
    · obtain ⟨k1, k2, k3, k4⟩ := (key q).1 c
      rw [k1, k2, k3, k4]
      simp only [c, if_true] at *
      omega
    · have k := (key q).2 c
      rw [k]
      simp only [c, if_false]
      omega
  refine ⟨by rw [hlen]; exact h.len, ?_, ?_, ?_, ?_, ?_, ?_⟩
  · intro b hb
    rw [hblocks] at hb
    rw [hlen]
    rcases List.mem_append.mp hb with hb | hb
    · exact hplt b hb
    · simp at hb; rw [hb, hfb.1]; exact hp
  · intro q hq; rw [hblocks]; exact (core q (by rw [hlen] at hq; exact hq)).1
  · intro q hq; rw [hblocks]; exact (core q (by rw [hlen] at hq; exact hq)).2.1
  · intro q hq; rw [hblocks]; exact (core q (by rw [hlen] at hq; exact hq)).2.2.1
  · intro q hq; rw [hblocks]; exact (core q (by rw [hlen] at hq; exact hq)).2.2.2
  · intro hi q
    rw [hblocks]
    obtain ⟨a1', a2, a3, a4⟩ := hagg q
    obtain ⟨w1, w2, w3, w4⟩ := wfb q
    have := h.imm hi q
    simp only [agg_append, agg_cons, agg_nil, w4]
    omega




/-! ### release -/


theorem span_le_used {b : Block} {S} {s0 n0 : Nat} (hI : BInv b S) (hC : BCnt b) (hS : S s0 n0) : n0 ≤ b.areaUsed ∧ b.empty = false := by
  obtain ⟨i1, i2, i3⟩ := hI.inside s0 n0 hS
  have hcount := count_setRange_false b.used s0 (s0 + n0) (by omega) (by rw [hI.lenU]; exact i3) (by
    intro j a c
    exact (hI.used j (by omega)).mpr (Or.inr ⟨s0, n0, hS, a, c⟩))
  have := hC.cnt
  refine ⟨by omega, ?_⟩
  cases he : b.empty
  · rfl
  · exact absurd hS (no_spans_of_unused hI.toBCore hC (hC.emp he) s0 n0)

theorem pool_removeBlock (X : Alloc) (b : Block) (q : Nat) :
    (X.removeBlock b).pools.length = X.pools.length ∧
    ((X.removeBlock b).pool q).emptyCount = (X.pool q).emptyCount ∧
    (¬(q = b.pool ∧ b.pool < X.pools.length) → (X.removeBlock b).pool q = X.pool q) ∧
    (q = b.pool ∧ b.pool < X.pools.length →
      ((X.removeBlock b).pool q).blockCount = (X.pool q).blockCount - 1 ∧
      ((X.removeBlock b).pool q).totalSize = (X.pool q).totalSize - b.areaSize ∧
      ((X.removeBlock b).pool q).totalUsed = (X.pool q).totalUsed - b.areaUsed) := by
  have pc : ∀ (Y Z : Alloc), Y.pools = Z.pools → Y.pool q = Z.pool q := by intro Y Z e; unfold Alloc.pool; rw [e]
  have e : (X.removeBlock b).pool q = (X.setPool b.pool fun r =>
      { r with cursor := if r.cursor = some b.id then (match prevId (X.poolBlocks b.pool) b.id with | some x => some x | none => nextId? (X.poolBlocks b.pool) b.id) else r.cursor
               blockCount := r.blockCount - 1
               totalSize := r.totalSize - b.areaSize
               totalUsed := r.totalUsed - b.areaUsed
               totalOverhead := r.totalOverhead - bitVectorBytes b.areaSize * 2 }).pool q := pc _ _ rfl
  refine ⟨by simp [Alloc.removeBlock, Alloc.setPool], ?_, ?_, ?_⟩
  · rw [e, pool_setPool]; split <;> simp_all
  · intro hn; rw [e, pool_setPool]; simp only [hn, if_false]
  · intro hy
    rw [e, pool_setPool]
    simp only [hy, and_self, if_true]

theorem release_pinv {a : Alloc} {T} {s0 n0 : Nat} {b : Block} (h : AInv a T) (hP : PInv a) (hb : b ∈ a.blocks)
    (hS : T b.id b.pool s0 n0) : PInv (a.release b.id (s0 * a.cfg.poolGran b.pool)).1 := by
  have hg := poolGran_pos h.wf b.pool
  obtain ⟨hI, hC⟩ := h.blk b hb
  obtain ⟨i1, i2, i3⟩ := hI.inside s0 n0 hS
  obtain ⟨hle, hne⟩ := span_le_used hI hC hS
  have hidx : s0 * a.cfg.poolGran b.pool / a.cfg.poolGran b.pool = s0 := Nat.mul_div_cancel _ hg
  have he : indexOfStop b.stop s0 + 1 = s0 + n0 := by rw [hI.toBCore.indexOfStop hS]; omega
  have e1 : s0 + n0 - s0 = n0 := by omega
  have hbp := hP.plt b hb
  unfold Alloc.release
  simp only [findBlock_of_mem h.ids hb, hidx, he, e1]
  generalize hb' : (if a.cfg.fillUnused = true then
      { b.markReleased s0 (s0 + n0) with mem := setRange (b.markReleased s0 (s0 + n0)).mem s0 (s0 + n0) (patColour a.cfg) }
    else b.markReleased s0 (s0 + n0)) = b'
  have hacc : b'.id = b.id ∧ b'.pool = b.pool ∧ b'.areaSize = b.areaSize ∧ b'.areaUsed = b.areaUsed - n0 := by
    rw [← hb']; split <;> simp [e1]
  -- aggregates after replacing the block
  let M : Alloc := ({ a with allocCount := a.allocCount - 1 } : Alloc).modifyBlock b.id fun _ => b'
  have hMb : M.blocks = a.blocks.map fun x => if x.id = b.id then b' else x := rfl
  have hMids : (M.blocks.map (·.id)).Pairwise (· < ·) := by
    have : M.blocks.map (·.id) = a.blocks.map (·.id) := by
      rw [hMb, List.map_map]
      apply List.map_congr_left
      intro x _
      simp only [Function.comp]
      split
      · rename_i e; rw [hacc.1, e]
      · rfl
    rw [this]; exact h.ids
  have hb'M : b' ∈ M.blocks := by rw [hMb]; exact List.mem_map.mpr ⟨b, hb, by simp⟩
  have hmod : ∀ w : Block → Nat, agg w M.blocks + w b = agg w a.blocks + w b' := fun w => by rw [hMb]; exact agg_modify w a.blocks h.ids hb
  have hMplt : ∀ x ∈ M.blocks, x.pool < a.pools.length := by
    intro x hx
    rw [hMb] at hx
    obtain ⟨y, hy, rfl⟩ := List.mem_map.mp hx
    split
    · rw [hacc.2.1]; exact hbp
    · exact hP.plt y hy
  have hwb : ∀ q, wCnt q b' = wCnt q b ∧ wSize q b' = wSize q b ∧ wUsed q b' + (if b.pool = q then n0 else 0) = wUsed q b ∧
      wEmpty q b = 0 ∧ wEmpty q b' ≤ 1 ∧ (wEmpty q b' = 1 → b.pool = q ∧ b'.empty = true) := by
    intro q
    obtain ⟨_, f2, f3, f4⟩ := hacc
    refine ⟨by simp [wCnt, f2], by simp [wSize, f2, f3], ?_, by simp [wEmpty, hne], ?_, ?_⟩
    · simp only [wUsed, f2, f4]
      split <;> omega
    · simp only [wEmpty]; split <;> omega
    · simp only [wEmpty, f2]
      intro hh
      split at hh
      · rename_i x; exact x
      · omega
  have hMpool : ∀ q, M.pool q = a.pool q := fun q => rfl
  have hMlen : M.pools.length = a.pools.length := rfl
  -- after the pool total has been reduced
  have P1 : ∀ q, q < a.pools.length →
      ((M.setPool b.pool fun q => { q with totalUsed := q.totalUsed - n0 }).pool q).blockCount = agg (wCnt q) M.blocks ∧
      ((M.setPool b.pool fun q => { q with totalUsed := q.totalUsed - n0 }).pool q).totalSize = agg (wSize q) M.blocks ∧
      ((M.setPool b.pool fun q => { q with totalUsed := q.totalUsed - n0 }).pool q).totalUsed = agg (wUsed q) M.blocks ∧
      ((M.setPool b.pool fun q => { q with totalUsed := q.totalUsed - n0 }).pool q).emptyCount = (a.pool q).emptyCount ∧
      agg (wEmpty q) M.blocks = agg (wEmpty q) a.blocks + wEmpty q b' := by
    intro q hq
    obtain ⟨w1, w2, w3, w4, w5, w6⟩ := hwb q
    have m1 := hmod (wCnt q)
    have m2 := hmod (wSize q)
    have m3 := hmod (wUsed q)
    have m4 := hmod (wEmpty q)
    have c1 := hP.cnt q hq
    have c2 := hP.size q hq
    have c3 := hP.used q hq
    have hge : wUsed q b ≤ agg (wUsed q) a.blocks := agg_le_of_mem _ hb
    rw [pool_setPool]
    simp only [hMlen, hMpool]
    by_cases c : q = b.pool
    · have c' : b.pool = q := c.symm
      have hq' : b.pool < a.pools.length := hbp
      simp only [c', if_true] at w3
      simp only [c, hq', and_self, if_true]
      rw [c] at c1 c2 c3 hge m1 m2 m3 m4 w1 w2 w3 w4
      refine ⟨by omega, by omega, ?_, trivial, by omega⟩
      show (a.pool b.pool).totalUsed - n0 = _
      omega
    · have c' : ¬ b.pool = q := fun h => c h.symm
      simp only [c', if_false] at w3
      simp only [c, false_and, if_false]
      exact ⟨by omega, by omega, by omega, trivial, by omega⟩
  have hlenS : ∀ (X : Alloc) (q : Nat) (f : PoolAcc → PoolAcc), (X.setPool q f).pools.length = X.pools.length := by
    intro X q f; simp [Alloc.setPool]
  split
  · rename_i hempty
    have hwe : wEmpty b.pool b' = 1 := by simp [wEmpty, hacc.2.1, hempty]
    split
    · -- unmapped
      rename_i hcond
      simp only
      have hrem : ∀ w : Block → Nat, agg w ((M.setPool b.pool fun q => { q with totalUsed := q.totalUsed - n0 }).removeBlock b').blocks + w b' =
          agg w M.blocks := fun w => agg_remove w M.blocks hMids hb'M
      have hRlen : ((M.setPool b.pool fun q => { q with totalUsed := q.totalUsed - n0 }).removeBlock b').pools.length = a.pools.length := by
        rw [(pool_removeBlock _ b' 0).1, hlenS]; exact hMlen
      have core : ∀ q, q < a.pools.length →
          (((M.setPool b.pool fun q => { q with totalUsed := q.totalUsed - n0 }).removeBlock b').pool q).blockCount =
            agg (wCnt q) ((M.setPool b.pool fun q => { q with totalUsed := q.totalUsed - n0 }).removeBlock b').blocks ∧
          (((M.setPool b.pool fun q => { q with totalUsed := q.totalUsed - n0 }).removeBlock b').pool q).totalSize =
            agg (wSize q) ((M.setPool b.pool fun q => { q with totalUsed := q.totalUsed - n0 }).removeBlock b').blocks ∧
          (((M.setPool b.pool fun q => { q with totalUsed := q.totalUsed - n0 }).removeBlock b').pool q).totalUsed =
            agg (wUsed q) ((M.setPool b.pool fun q => { q with totalUsed := q.totalUsed - n0 }).removeBlock b').blocks ∧
          agg (wEmpty q) ((M.setPool b.pool fun q => { q with totalUsed := q.totalUsed - n0 }).removeBlock b').blocks = agg (wEmpty q) a.blocks ∧
          (((M.setPool b.pool fun q => { q with totalUsed := q.totalUsed - n0 }).removeBlock b').pool q).emptyCount = (a.pool q).emptyCount := by
        intro q hq
        obtain ⟨p1, p2, p3, p4, p5⟩ := P1 q hq
        obtain ⟨_, r2, r3, r4⟩ := pool_removeBlock (M.setPool b.pool fun q => { q with totalUsed := q.totalUsed - n0 }) b' q
        have h1 := hrem (wCnt q)
        have h2 := hrem (wSize q)
        have h3 := hrem (wUsed q)
        have h4 := hrem (wEmpty q)
        rw [hlenS, hacc.2.1] at r3 r4
        by_cases c : q = b.pool
        · obtain ⟨k1, k2, k3⟩ := r4 ⟨c, hbp⟩
          have v1 : wCnt q b' = 1 := by simp [wCnt, hacc.2.1, c]
          have v2 : wSize q b' = b'.areaSize := by simp [wSize, hacc.2.1, c]
          have v3 : wUsed q b' = b'.areaUsed := by simp [wUsed, hacc.2.1, c]
          rw [k1, k2, k3, r2, p1, p2, p3, p4]
          omega
        · have k := r3 (fun hh => c hh.1)
          have c' : ¬ b.pool = q := fun hh => c hh.symm
          have v1 : wCnt q b' = 0 := by simp [wCnt, hacc.2.1, c']
          have v2 : wSize q b' = 0 := by simp [wSize, hacc.2.1, c']
          have v3 : wUsed q b' = 0 := by simp [wUsed, hacc.2.1, c']
          rw [k, p1, p2, p3, p4]
          omega
      refine ⟨by rw [hRlen]; exact hP.len, fun x hx => by rw [hRlen]; exact hMplt x (mem_removeBlock.mp hx).1,
        fun q hq => (core q (by rw [hRlen] at hq; exact hq)).1, fun q hq => (core q (by rw [hRlen] at hq; exact hq)).2.1,
        fun q hq => (core q (by rw [hRlen] at hq; exact hq)).2.2.1, ?_, ?_⟩
      · intro q hq
        rw [hRlen] at hq
        obtain ⟨_, _, _, c4, c5⟩ := core q hq
        rw [c4, c5]; exact hP.emp q hq
      · intro hi q
        have hz := hrem (wEmpty q)
        have m4 := hmod (wEmpty q)
        have z1 := hP.imm hi q
        have z2 := (hwb q).2.2.2.1
        have : agg (wEmpty q) ((M.setPool b.pool fun q => { q with totalUsed := q.totalUsed - n0 }).removeBlock b').blocks = 0 := by omega
        exact this
    · -- the emptied block is kept and counted
      rename_i hcond
      simp only
      have hec := (P1 b.pool hbp).2.2.2.1
      have hcfg : (M.setPool b.pool fun q => { q with totalUsed := q.totalUsed - n0 }).cfg = a.cfg := rfl
      rw [hec, hcfg] at hcond
      simp at hcond
      obtain ⟨hc0, himm⟩ := hcond
      have hKlen : ((M.setPool b.pool fun q => { q with totalUsed := q.totalUsed - n0 }).setPool b.pool
          fun q => { q with emptyCount := q.emptyCount + 1 }).pools.length = a.pools.length := by
        rw [hlenS, hlenS]; exact hMlen
      have core : ∀ q, q < a.pools.length →
          let K := ((M.setPool b.pool fun q => { q with totalUsed := q.totalUsed - n0 }).setPool b.pool
            fun q => { q with emptyCount := q.emptyCount + 1 }).pool q
          K.blockCount = agg (wCnt q) M.blocks ∧ K.totalSize = agg (wSize q) M.blocks ∧ K.totalUsed = agg (wUsed q) M.blocks ∧
          agg (wEmpty q) M.blocks ≤ K.emptyCount ∧ K.emptyCount ≤ 1 := by
        intro q hq
        obtain ⟨p1, p2, p3, p4, p5⟩ := P1 q hq
        obtain ⟨_, _, _, _, w5, w6⟩ := hwb q
        have c4 := hP.emp q hq
        simp only
        rw [pool_setPool, hlenS, hMlen]
        by_cases c : q = b.pool
        · simp only [c, hbp, and_self, if_true]
          rw [c] at p1 p2 p3 p4 p5 c4
          refine ⟨p1, p2, p3, ?_, ?_⟩
          · show _ ≤ _ + 1
            rw [p5, p4]; rw [c] at w5; omega
          · show _ + 1 ≤ 1
            rw [p4]; omega
        · simp only [c, false_and, if_false]
          refine ⟨p1, p2, p3, ?_, by rw [p4]; exact c4.2⟩
          rw [p5, p4]
          have : wEmpty q b' = 0 := by
            cases hw : wEmpty q b' with
            | zero => rfl
            | succ k =>
              have h1 : wEmpty q b' = 1 := by omega
              exact absurd (w6 h1).1.symm c
          omega
      refine ⟨by rw [hKlen]; exact hP.len, fun x hx => by rw [hKlen]; exact hMplt x hx,
        fun q hq => (core q (by rw [hKlen] at hq; exact hq)).1, fun q hq => (core q (by rw [hKlen] at hq; exact hq)).2.1,
        fun q hq => (core q (by rw [hKlen] at hq; exact hq)).2.2.1, fun q hq => (core q (by rw [hKlen] at hq; exact hq)).2.2.2, ?_⟩
      intro hi
      exact absurd hi (by show ¬ a.cfg.immediate = true; rw [himm]; simp)
  · -- the block still holds spans
    rename_i hne'
    simp only
    have hM1len : (M.setPool b.pool fun q => { q with totalUsed := q.totalUsed - n0 }).pools.length = a.pools.length := by
      rw [hlenS]; exact hMlen
    have hz : ∀ q, wEmpty q b' = 0 := by
      intro q
      obtain ⟨_, _, _, _, w5, w6⟩ := hwb q
      cases hw : wEmpty q b' with
      | zero => rfl
      | succ k =>
        have h1 : wEmpty q b' = 1 := by omega
        exact absurd (w6 h1).2 hne'
    refine ⟨by rw [hM1len]; exact hP.len, fun x hx => by rw [hM1len]; exact hMplt x hx,
      fun q hq => (P1 q (by rw [hM1len] at hq; exact hq)).1, fun q hq => (P1 q (by rw [hM1len] at hq; exact hq)).2.1,
      fun q hq => (P1 q (by rw [hM1len] at hq; exact hq)).2.2.1, ?_, ?_⟩
    · intro q hq
      rw [hM1len] at hq
      obtain ⟨_, _, _, p4, p5⟩ := P1 q hq
      have : agg (wEmpty q) (M.setPool b.pool fun q => { q with totalUsed := q.totalUsed - n0 }).blocks = agg (wEmpty q) M.blocks := rfl
      rw [this, p5, p4, hz q]
      exact hP.emp q hq
    · intro hi q
      have m4 := hmod (wEmpty q)
      have z1 := hP.imm hi q
      have z2 := (hwb q).2.2.2.1
      have z3 := hz q
      have : agg (wEmpty q) (M.setPool b.pool fun q => { q with totalUsed := q.totalUsed - n0 }).blocks = agg (wEmpty q) M.blocks := rfl
      rw [this]; omega




/-! ### shrink, write -/


/-- replacing a block by one with the same pool / area / used area / empty flag leaves the accounting alone -/
theorem PInv.modify_same {a : Alloc} (hP : PInv a) (hids : (a.blocks.map (·.id)).Pairwise (· < ·)) {b b' : Block} (hb : b ∈ a.blocks)
    (h1 : b'.pool = b.pool) (h2 : b'.areaSize = b.areaSize) (h3 : b'.areaUsed = b.areaUsed) (h4 : b'.empty = b.empty) :
    PInv (a.modifyBlock b.id fun _ => b') := by
  have hmod : ∀ w : Block → Nat, w b' = w b → agg w (a.modifyBlock b.id fun _ => b').blocks = agg w a.blocks := by
    intro w hw
    have := agg_modify (b' := b') w a.blocks hids hb
    simp only [Alloc.modifyBlock]
    omega
  have e1 : ∀ q, wCnt q b' = wCnt q b := by intro q; simp [wCnt, h1]
  have e2 : ∀ q, wSize q b' = wSize q b := by intro q; simp [wSize, h1, h2]
  have e3 : ∀ q, wUsed q b' = wUsed q b := by intro q; simp [wUsed, h1, h3]
  have e4 : ∀ q, wEmpty q b' = wEmpty q b := by intro q; simp [wEmpty, h1, h4]
  refine ⟨hP.len, ?_, ?_, ?_, ?_, ?_, ?_⟩
  · intro x hx
    simp only [Alloc.modifyBlock, List.mem_map] at hx
    obtain ⟨y, hy, rfl⟩ := hx
    show _ < a.pools.length
    split
    · rw [h1]; exact hP.plt b hb
    · exact hP.plt y hy
  · intro q hq; rw [hmod _ (e1 q)]; exact hP.cnt q hq
  · intro q hq; rw [hmod _ (e2 q)]; exact hP.size q hq
  · intro q hq; rw [hmod _ (e3 q)]; exact hP.used q hq
  · intro q hq; rw [hmod _ (e4 q)]; exact hP.emp q hq
  · intro hi q; rw [hmod _ (e4 q)]; exact hP.imm hi q

theorem writeMem_pinv {a : Alloc} (hP : PInv a) (blk off size byte : Nat) : PInv (a.writeMem blk off size byte) := by
  have hk : (a.writeMem blk off size byte).blocks.map (fun b => (b.pool, b.areaSize, b.areaUsed, b.empty)) =
      a.blocks.map (fun b => (b.pool, b.areaSize, b.areaUsed, b.empty)) := by
    simp only [Alloc.writeMem, Alloc.modifyBlock, List.map_map]
    apply List.map_congr_left
    intro x _
    simp only [Function.comp]
    split <;> rfl
  have c1 : ∀ q, agg (wCnt q) (a.writeMem blk off size byte).blocks = agg (wCnt q) a.blocks := fun q =>
    agg_congr _ (fun b => (b.pool, b.areaSize, b.areaUsed, b.empty)) (fun k => if k.1 = q then 1 else 0) (fun b => rfl) hk
  have c2 : ∀ q, agg (wSize q) (a.writeMem blk off size byte).blocks = agg (wSize q) a.blocks := fun q =>
    agg_congr _ (fun b => (b.pool, b.areaSize, b.areaUsed, b.empty)) (fun k => if k.1 = q then k.2.1 else 0) (fun b => rfl) hk
  have c3 : ∀ q, agg (wUsed q) (a.writeMem blk off size byte).blocks = agg (wUsed q) a.blocks := fun q =>
    agg_congr _ (fun b => (b.pool, b.areaSize, b.areaUsed, b.empty)) (fun k => if k.1 = q then k.2.2.1 else 0) (fun b => rfl) hk
  have c4 : ∀ q, agg (wEmpty q) (a.writeMem blk off size byte).blocks = agg (wEmpty q) a.blocks := fun q =>
    agg_congr _ (fun b => (b.pool, b.areaSize, b.areaUsed, b.empty)) (fun k => if k.1 = q ∧ k.2.2.2 = true then 1 else 0) (fun b => rfl) hk
  refine ⟨hP.len, ?_, fun q hq => by rw [c1]; exact hP.cnt q hq, fun q hq => by rw [c2]; exact hP.size q hq,
    fun q hq => by rw [c3]; exact hP.used q hq, fun q hq => by rw [c4]; exact hP.emp q hq, fun hi q => by rw [c4]; exact hP.imm hi q⟩
  intro x hx
  simp only [Alloc.writeMem, Alloc.modifyBlock, List.mem_map] at hx
  obtain ⟨y, hy, rfl⟩ := hx
  show _ < a.pools.length
  split <;> exact hP.plt y hy





theorem shrink_pinv {a : Alloc} {T} {s0 n0 : Nat} {b : Block} (h : AInv a T) (hP : PInv a) (hb : b ∈ a.blocks)
    (hS : T b.id b.pool s0 n0) (newSize : Nat) (hns : 0 < newSize) :
    PInv (a.shrinkImpl b.id (s0 * a.cfg.poolGran b.pool) newSize).1 := by
  have hg := poolGran_pos h.wf b.pool
  obtain ⟨hI, hC⟩ := h.blk b hb
  obtain ⟨i1, i2, i3⟩ := hI.inside s0 n0 hS
  obtain ⟨hle, hne⟩ := span_le_used hI hC hS
  have hidx : s0 * a.cfg.poolGran b.pool / a.cfg.poolGran b.pool = s0 := Nat.mul_div_cancel _ hg
  have he : indexOfStop b.stop s0 + 1 = s0 + n0 := by rw [hI.toBCore.indexOfStop hS]; omega
  have hused : bit b.used s0 = true := (hI.used s0 (by omega)).mpr (Or.inr ⟨s0, n0, hS, by omega, by omega⟩)
  have e1 : s0 + n0 - s0 = n0 := by omega
  have hbp := hP.plt b hb
  have hm : 0 < (newSize + a.cfg.poolGran b.pool - 1) / a.cfg.poolGran b.pool := by
    apply Nat.pos_of_ne_zero
    intro h0
    have := Nat.div_eq_zero_iff.mp h0
    omega
  simp only [Alloc.shrinkImpl, findBlock_of_mem h.ids hb, hidx, he, hused, e1, Bool.not_true, Bool.false_eq_true, if_false]
  split
  · exact hP
  · rename_i hgt
    by_cases hd : n0 - (newSize + a.cfg.poolGran b.pool - 1) / a.cfg.poolGran b.pool = 0
    · simp only [hd, ne_eq, not_true_eq_false, if_false]
      apply hP.modify_same h.ids hb <;> (split <;> rfl)
    · simp only [hd, ne_eq, not_false_eq_true, if_true]
      have e2 : s0 + n0 - (s0 + (newSize + a.cfg.poolGran b.pool - 1) / a.cfg.poolGran b.pool) =
          n0 - (newSize + a.cfg.poolGran b.pool - 1) / a.cfg.poolGran b.pool := by omega
      generalize hb' : (if (decide (newSize < n0 * a.cfg.poolGran b.pool) && a.cfg.fillUnused) = true then
          { b.markShrunk (s0 + (newSize + a.cfg.poolGran b.pool - 1) / a.cfg.poolGran b.pool) (s0 + n0) with
            mem := setRange (b.markShrunk (s0 + (newSize + a.cfg.poolGran b.pool - 1) / a.cfg.poolGran b.pool) (s0 + n0)).mem
              (s0 + (newSize + a.cfg.poolGran b.pool - 1) / a.cfg.poolGran b.pool) (s0 + n0) (patColour a.cfg) }
        else b.markShrunk (s0 + (newSize + a.cfg.poolGran b.pool - 1) / a.cfg.poolGran b.pool) (s0 + n0)) = b'
      generalize hdf : n0 - (newSize + a.cfg.poolGran b.pool - 1) / a.cfg.poolGran b.pool = d at hd e2
      have hdle : d ≤ n0 := by omega
      have hacc : b'.id = b.id ∧ b'.pool = b.pool ∧ b'.areaSize = b.areaSize ∧ b'.areaUsed = b.areaUsed - d ∧ b'.empty = b.empty := by
        rw [← hb']
        have : ∀ x y, (b.markShrunk x y).empty = b.empty := by
          intro x y; unfold Block.markShrunk; simp only; split <;> rfl
        split <;> simp [e2, this]
      have hmod : ∀ w : Block → Nat, agg w (a.modifyBlock b.id fun _ => b').blocks + w b = agg w a.blocks + w b' := fun w => by
        simp only [Alloc.modifyBlock]; exact agg_modify w a.blocks h.ids hb
      have hlen : ((a.modifyBlock b.id fun _ => b').setPool b.pool fun q => { q with totalUsed := q.totalUsed - d }).pools.length =
          a.pools.length := by simp [Alloc.setPool, Alloc.modifyBlock]
      have core : ∀ q, q < a.pools.length →
          let P := ((a.modifyBlock b.id fun _ => b').setPool b.pool fun q => { q with totalUsed := q.totalUsed - d }).pool q
          P.blockCount = agg (wCnt q) (a.modifyBlock b.id fun _ => b').blocks ∧
          P.totalSize = agg (wSize q) (a.modifyBlock b.id fun _ => b').blocks ∧
          P.totalUsed = agg (wUsed q) (a.modifyBlock b.id fun _ => b').blocks ∧
          P.emptyCount = (a.pool q).emptyCount ∧
          agg (wEmpty q) (a.modifyBlock b.id fun _ => b').blocks = agg (wEmpty q) a.blocks := by
        intro q hq
        obtain ⟨_, f2, f3, f4, f5⟩ := hacc
        have m1 := hmod (wCnt q)
        have m2 := hmod (wSize q)
        have m3 := hmod (wUsed q)
        have m4 := hmod (wEmpty q)
        have c1 := hP.cnt q hq
        have c2 := hP.size q hq
        have c3 := hP.used q hq
        have hge : wUsed q b ≤ agg (wUsed q) a.blocks := agg_le_of_mem _ hb
        have w1 : wCnt q b' = wCnt q b := by simp [wCnt, f2]
        have w2 : wSize q b' = wSize q b := by simp [wSize, f2, f3]
        have w4 : wEmpty q b' = wEmpty q b := by simp [wEmpty, f2, f5]
        simp only
        rw [pool_setPool]
        have hpl : (a.modifyBlock b.id fun _ => b').pools.length = a.pools.length := rfl
        have hpp : ∀ r, (a.modifyBlock b.id fun _ => b').pool r = a.pool r := fun r => rfl
        simp only [hpl, hpp]
        by_cases c : q = b.pool
        · have w3 : wUsed q b' + d = wUsed q b := by simp only [wUsed, f2, f4, c, if_true]; omega
          simp only [c, hbp, and_self, if_true]
          rw [c] at c1 c2 c3 hge m1 m2 m3 m4 w1 w2 w3 w4
          refine ⟨by omega, by omega, ?_, trivial, by omega⟩
          show (a.pool b.pool).totalUsed - d = _
          omega
        · have c' : ¬ b.pool = q := fun hh => c hh.symm
          have w3 : wUsed q b' = wUsed q b := by simp [wUsed, f2, c']
          simp only [c, false_and, if_false]
          exact ⟨by omega, by omega, by omega, trivial, by omega⟩
      refine ⟨by rw [hlen]; exact hP.len, ?_, fun q hq => (core q (by rw [hlen] at hq; exact hq)).1,
        fun q hq => (core q (by rw [hlen] at hq; exact hq)).2.1, fun q hq => (core q (by rw [hlen] at hq; exact hq)).2.2.1, ?_, ?_⟩
      · intro x hx
        rw [hlen]
        simp only [setPool_blocks, Alloc.modifyBlock, List.mem_map] at hx
        obtain ⟨y, hy, rfl⟩ := hx
        split
        · rw [hacc.2.1]; exact hbp
        · exact hP.plt y hy
      · intro q hq
        rw [hlen] at hq
        obtain ⟨_, _, _, c4, c5⟩ := core q hq
        rw [setPool_blocks, c5, c4]; exact hP.emp q hq
      · intro hi q
        have m4 := hmod (wEmpty q)
        have w4 : wEmpty q b' = wEmpty q b := by simp [wEmpty, hacc.2.1, hacc.2.2.2.2]
        have := hP.imm hi q
        rw [setPool_blocks]; omega




/-! ### reset -/


theorem agg_find (p : Nat) (f : Block → Nat) : ∀ (l : List Block), l.Pairwise (fun x y => x.pool ≠ y.pool) →
    agg (fun b => if b.pool = p then f b else 0) l = (match l.find? (·.pool == p) with | some b => f b | none => 0) := by
  intro l
  induction l with
  | nil => intro _; rfl
  | cons x xs ih =>
    intro hp
    rw [List.pairwise_cons] at hp
    simp only [agg_cons, List.find?_cons]
    by_cases c : x.pool = p
    · have hz : ∀ (ys : List Block), (∀ y ∈ ys, x.pool ≠ y.pool) → agg (fun b => if b.pool = p then f b else 0) ys = 0 := by
        intro ys
        induction ys with
        | nil => intro _; rfl
        | cons y ys ih2 =>
          intro hy
          have h1 := hy y List.mem_cons_self
          have : ¬ y.pool = p := fun h => h1 (by rw [c, h])
          simp only [agg_cons, this, if_false, Nat.zero_add]
          exact ih2 (fun z hz => hy z (List.mem_cons_of_mem _ hz))
      have hz := hz xs hp.1
      simp [c, hz]
    · have : (x.pool == p) = false := by simpa using c
      simp only [c, if_false, this, Nat.zero_add]
      exact ih hp.2

theorem wipeOut_empty (cfg : Config) (b : Block) : (wipeOut cfg b).empty = true := by
  unfold wipeOut
  split
  · assumption
  · split <;> rfl

theorem keeps_unique {a : Alloc} {hard : Bool} {x y : Block} (hx : a.keeps hard x = true) (hy : a.keeps hard y = true)
    (hp : x.pool = y.pool) : x.id = y.id := by
  unfold Alloc.keeps at hx hy
  simp only [Bool.and_eq_true] at hx hy
  have h1 := hx.2
  have h2 := hy.2
  rw [hp] at h1
  cases hh : (a.poolBlocks y.pool).head? with
  | none => rw [hh] at h1; simp at h1
  | some f => rw [hh] at h1 h2; simp at h1 h2; omega

theorem kept_pairwise {a : Alloc} (hard : Bool) (hids : (a.blocks.map (·.id)).Pairwise (· < ·)) :
    (a.blocks.filterMap fun b => if a.keeps hard b then some (wipeOut a.cfg b) else none).Pairwise (fun x y => x.pool ≠ y.pool) := by
  rw [List.pairwise_map] at hids
  apply List.Pairwise.filterMap _ _ hids
  intro x y hlt x' hx' y' hy' hpp
  by_cases kx : a.keeps hard x = true
  · by_cases ky : a.keeps hard y = true
    · simp [kx] at hx'
      simp [ky] at hy'
      rw [← hx', ← hy', (wipeOut_id _ _).2, (wipeOut_id _ _).2] at hpp
      have := keeps_unique kx ky hpp
      omega
    · simp [ky] at hy'
  · simp [kx] at hx'





theorem reset_pinv {a : Alloc} (hP : PInv a) (hids : (a.blocks.map (·.id)).Pairwise (· < ·)) (hard : Bool) : PInv (a.reset hard) := by
  have hpw := kept_pairwise (a := a) hard hids
  generalize hk : (a.blocks.filterMap fun b => if a.keeps hard b then some (wipeOut a.cfg b) else none) = kept at hpw
  have hkmem : ∀ x ∈ kept, ∃ y ∈ a.blocks, a.keeps hard y = true ∧ x = wipeOut a.cfg y := by
    intro x hx
    rw [← hk] at hx
    obtain ⟨y, hy, hf⟩ := List.mem_filterMap.mp hx
    by_cases ky : a.keeps hard y = true
    · simp [ky] at hf; exact ⟨y, hy, ky, hf.symm⟩
    · simp [ky] at hf
  have hblocks : (a.reset hard).blocks = kept := by simp only [Alloc.reset, hk]
  have hlen : (a.reset hard).pools.length = a.pools.length := by simp [Alloc.reset]
  have hpool : ∀ p, p < a.pools.length → (a.reset hard).pool p =
      (match kept.find? (·.pool == p) with
       | some b => { cursor := some b.id, blockCount := 1, emptyCount := 1, totalSize := b.areaSize, totalUsed := b.areaUsed
                     totalOverhead := bitVectorBytes b.areaSize * 2 }
       | none => { a.pool p with cursor := none, blockCount := 0, totalSize := 0, totalUsed := 0, totalOverhead := 0 }) := by
    intro p hp
    simp only [Alloc.reset, Alloc.pool, hk, List.getD, List.getElem?_mapIdx]
    have : a.pools[p]? = some a.pools[p] := by simp [hp]
    rw [this]
    simp
    cases hf : List.find? (fun x => x.pool == p) kept <;> rfl
  have e1 : ∀ q, agg (wCnt q) kept = (match kept.find? (·.pool == q) with | some _ => 1 | none => 0) := fun q => agg_find q (fun _ => 1) kept hpw
  have e2 : ∀ q, agg (wSize q) kept = (match kept.find? (·.pool == q) with | some b => b.areaSize | none => 0) := fun q => agg_find q (·.areaSize) kept hpw
  have e3 : ∀ q, agg (wUsed q) kept = (match kept.find? (·.pool == q) with | some b => b.areaUsed | none => 0) := fun q => agg_find q (·.areaUsed) kept hpw
  have e4 : ∀ q, agg (wEmpty q) kept = (match kept.find? (·.pool == q) with | some _ => 1 | none => 0) := by
    intro q
    have hw : ∀ b ∈ kept, wEmpty q b = (if b.pool = q then 1 else 0) := by
      intro b hb
      obtain ⟨y, _, _, rfl⟩ := hkmem b hb
      simp [wEmpty, wipeOut_empty]
    have : agg (wEmpty q) kept = agg (wCnt q) kept := by
      unfold agg
      congr 1
      apply List.map_congr_left
      intro b hb
      rw [hw b hb]; rfl
    rw [this, e1]
  refine ⟨by rw [hlen]; exact hP.len, ?_, ?_, ?_, ?_, ?_, ?_⟩
  · intro x hx
    rw [hblocks] at hx
    rw [hlen]
    obtain ⟨y, hy, _, rfl⟩ := hkmem x hx
    rw [(wipeOut_id _ _).2]; exact hP.plt y hy
  · intro q hq; rw [hlen] at hq; rw [hpool q hq, hblocks, e1]; split <;> rfl
  · intro q hq; rw [hlen] at hq; rw [hpool q hq, hblocks, e2]; split <;> rfl
  · intro q hq; rw [hlen] at hq; rw [hpool q hq, hblocks, e3]; split <;> rfl
  · intro q hq
    rw [hlen] at hq
    rw [hpool q hq, hblocks, e4]
    have := (hP.emp q hq).2
    split
    · exact ⟨Nat.le_refl _, Nat.le_refl _⟩
    · exact ⟨Nat.zero_le _, this⟩
  · intro hi q
    rw [hblocks]
    have : kept = [] := by
      rw [← hk]
      apply List.filterMap_eq_nil_iff.mpr
      intro y _
      have : a.keeps hard y = false := by
        unfold Alloc.keeps
        have : (a.reset hard).cfg = a.cfg := rfl
        rw [this] at hi
        simp [hi]
      simp [this]
    rw [this]; rfl




/-! ### alloc, all operations -/


theorem alloc_pinv {a : Alloc} {T} (req : Nat) (h : AInv a T) (hP : PInv a) : PInv (a.alloc req).1 := by
  unfold Alloc.alloc
  simp only
  split
  · exact hP
  · split
    · exact hP
    · rename_i hs0 _
      have hal := alignUp_mod req a.cfg.gran
      generalize alignUp req a.cfg.gran = size at hs0 hal
      have hg := poolGran_pos h.wf (sizeToPoolId a.cfg size)
      have hdvd := sizeToPoolId_dvd a.cfg size hal
      have hsz := (ceil_mul_of_dvd size _ hg hdvd).symm
      have hn : 0 < (size + a.cfg.poolGran (sizeToPoolId a.cfg size) - 1) / a.cfg.poolGran (sizeToPoolId a.cfg size) := by
        apply Nat.pos_of_ne_zero
        intro h0
        rw [h0] at hsz
        omega
      have hp : sizeToPoolId a.cfg size < a.pools.length := by rw [hP.len]; exact sizeToPoolId_lt _ _
      have tp := twoPass_spec
        (fun b => b.pool == sizeToPoolId a.cfg size && decide ((a.pool (sizeToPoolId a.cfg size)).cursor.getD 0 ≤ b.id))
        (fun b => b.pool == sizeToPoolId a.cfg size && decide (b.id < (a.pool (sizeToPoolId a.cfg size)).cursor.getD 0))
        _ hn (T := T) a.blocks h.ids h.blk _ rfl
      have ta := twoPass_agg
        (fun b => b.pool == sizeToPoolId a.cfg size && decide ((a.pool (sizeToPoolId a.cfg size)).cursor.getD 0 ≤ b.id))
        (fun b => b.pool == sizeToPoolId a.cfg size && decide (b.id < (a.pool (sizeToPoolId a.cfg size)).cursor.getD 0))
        ((size + a.cfg.poolGran (sizeToPoolId a.cfg size) - 1) / a.cfg.poolGran (sizeToPoolId a.cfg size))
        (sizeToPoolId a.cfg size) (by intro b hb; simp at hb; exact hb.1) (by intro b hb; simp at hb; exact hb.1) a.blocks _ rfl
      have hmapOf : ∀ (r : List Block), r.map (fun b => (b.id, b.pool, b.blockSize)) = a.blocks.map (fun b => (b.id, b.pool, b.blockSize)) →
          (∀ x ∈ r, x.pool < a.pools.length) ∧ (∀ x ∈ r, x.id < a.nextId) := by
        intro r hmap
        constructor
        · intro x hx
          obtain ⟨y, hy, e⟩ := exists_of_map_eq hmap.symm x hx
          simp at e
          rw [← e.2.1]; exact hP.plt y hy
        · intro x hx
          obtain ⟨y, hy, e⟩ := exists_of_map_eq hmap.symm x hx
          simp at e
          have := h.fresh y hy
          omega
      unfold Alloc.allocIn
      simp only
      split
      · rename_i id idx w hr
        rw [hr] at tp ta
        exact allocFound_pinv hP hp (hmapOf _ tp.1).1 ta
      · rename_i hr
        rw [hr] at tp ta
        exact allocNew_pinv hP hp (hmapOf _ tp.1).2 (hmapOf _ tp.1).1 ta





theorem PInv.step {s : St} (hI : Inv s) (hP : PInv s.a) (op : Op) : PInv (step s op).1.a := by
  have rel : ∀ (s : St), Inv s → PInv s.a → ∀ (j : Nat) (hd : Handle), s.tab[j]? = some hd → hd.live = true →
      ∀ ansOk : Ans,
      PInv (match s.a.release hd.blk hd.off with
        | (a, .ok _) => (({ a := a, tab := killHandle s.tab j } : St), ansOk)
        | (a, .error e) => ({ s with a := a }, Ans.err e)).1.a := by
    intro s hI hP j hd hj hl ansOk
    obtain ⟨b, hb, e, st, n0, o1, o2⟩ := hI.owned j hd hj hl
    have hS : TT s b.id b.pool st n0 := ⟨j, hd, hj, hl, e.symm, o1, o2⟩
    have := release_pinv hI.toAInv hP hb hS
    rw [e, ← o1] at this
    rcases hr : s.a.release hd.blk hd.off with ⟨a', (e' | u)⟩ <;> (rw [hr] at this; exact this)
  have shr : ∀ (s : St), Inv s → PInv s.a → ∀ (j : Nat) (hd : Handle), s.tab[j]? = some hd → hd.live = true →
      ∀ newSize : Nat, newSize ≠ 0 →
      PInv (match s.a.shrinkImpl hd.blk hd.off newSize with
        | (a, .ok (some sz)) => (({ a := a, tab := setHandleSize s.tab j sz } : St), Ans.size sz)
        | (a, .ok none) => ({ s with a := a }, Ans.size hd.size)
        | (a, .error e) => ({ s with a := a }, Ans.err e)).1.a := by
    intro s hI hP j hd hj hl newSize hns
    obtain ⟨b, hb, e, st, n0, o1, o2⟩ := hI.owned j hd hj hl
    have hS : TT s b.id b.pool st n0 := ⟨j, hd, hj, hl, e.symm, o1, o2⟩
    have := shrink_pinv hI.toAInv hP hb hS newSize (Nat.pos_of_ne_zero hns)
    rw [e, ← o1] at this
    rcases hr : s.a.shrinkImpl hd.blk hd.off newSize with ⟨a', (e' | (_ | sz))⟩ <;> (rw [hr] at this; exact this)
  cases op with
  | alloc req =>
    have := alloc_pinv req hI.toAInv hP
    simp only [JitAlloc.step]
    rcases hr : s.a.alloc req with ⟨a', (e | sp)⟩ <;> (rw [hr] at this; exact this)
  | release j =>
    simp only [JitAlloc.step]
    cases hj : s.tab[j]? with
    | none => exact hP
    | some hd =>
      simp only
      cases hl : hd.live with
      | false => simpa using hP
      | true => simp only [Bool.not_true, Bool.false_eq_true, if_false]; exact rel s hI hP j hd hj hl _
  | shrink j newSize =>
    simp only [JitAlloc.step]
    cases hj : s.tab[j]? with
    | none => exact hP
    | some hd =>
      simp only
      cases hl : hd.live with
      | false => simpa using hP
      | true =>
        simp only [Bool.not_true, Bool.false_eq_true, if_false]
        by_cases h0 : newSize = 0
        · simp only [h0, if_true]; exact rel s hI hP j hd hj hl _
        · simp only [h0, if_false]; exact shr s hI hP j hd hj hl newSize h0
  | query j off =>
    simp only [JitAlloc.step]
    cases hj : s.tab[j]? with
    | none => exact hP
    | some hd =>
      simp only
      cases s.a.findBlock hd.blk with
      | none => exact hP
      | some b =>
        simp only
        split
        · exact hP
        · split
          · exact hP
          · split <;> exact hP
  | sstale j newSize =>
    simp only [JitAlloc.step]
    cases hj : s.tab[j]? with
    | none => exact hP
    | some hd =>
      simp only
      split
      · exact hP
      · cases s.a.findBlock hd.blk with
        | none => exact hP
        | some b =>
          simp only
          split
          · exact hP
          · cases hq : s.a.query hd.blk hd.off with
            | ok sp => exact hP
            | error e =>
              simp only
              obtain ⟨e', he'⟩ := shrinkImpl_of_query_error (n := newSize) hq
              rw [he']
              exact hP
  | write j byte =>
    simp only [JitAlloc.step]
    cases hj : s.tab[j]? with
    | none => exact hP
    | some hd =>
      simp only
      split
      · exact hP
      · exact writeMem_pinv hP _ _ _ _
  | wtrunc j byte newSize =>
    simp only [JitAlloc.step]
    cases hj : s.tab[j]? with
    | none => exact hP
    | some hd =>
      simp only
      cases hl : hd.live with
      | false => simpa using hP
      | true =>
        simp only [Bool.not_true, Bool.false_eq_true, if_false]
        have hI' := hI.writeMem hd.blk hd.off hd.size (byte % 256)
        have hP' := writeMem_pinv hP hd.blk hd.off hd.size (byte % 256)
        split
        · exact hP'
        · by_cases h0 : newSize = 0
          · simp only [h0, if_true]
            exact rel { s with a := s.a.writeMem hd.blk hd.off hd.size (byte % 256) } hI' hP' j hd hj hl _
          · simp only [h0, if_false]
            exact shr { s with a := s.a.writeMem hd.blk hd.off hd.size (byte % 256) } hI' hP' j hd hj hl newSize h0
  | read j =>
    simp only [JitAlloc.step]
    cases hj : s.tab[j]? with
    | none => exact hP
    | some hd =>
      simp only
      split
      · exact hP
      · split <;> exact hP
  | mem => exact hP
  | sweep => exact hP
  | blocks => exact hP
  | dump => exact hP
  | reset hard => exact reset_pinv hP hI.ids hard
  | isinit => exact hP
  | rforeign k => exact hP
  | qforeign k => exact hP
  | sforeign => exact hP

theorem PInv.init (cfg : Config) : PInv (Alloc.init cfg) := by
  refine ⟨by simp [Alloc.init], by intro b hb; simp [Alloc.init] at hb, ?_, ?_, ?_, ?_, by intro _ q; rfl⟩
  all_goals
    intro q hq
    simp only [Alloc.init, List.length_replicate] at hq
    simp [Alloc.init, Alloc.pool, List.getD, hq, agg]

theorem PInv.finalState {s : St} (hI : Inv s) (hP : PInv s.a) (ops : List Op) : PInv (finalState s ops).a := by
  induction ops generalizing s with
  | nil => exact hP
  | cons op ops ih => exact ih (hI.step op) (PInv.step hI hP op)



end AsmjitVerif.JitAlloc
