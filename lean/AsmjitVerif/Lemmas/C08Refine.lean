/- C08: the Builder's node list (cursor node, recursive surgery, cached section links) refines the gap-buffer document. -/
import AsmjitVerif.Lemmas.C08List

namespace AsmjitVerif.Builder
open Spec

/-- the cursor node as a gap position: in front of everything, or right behind the cursor node -/
def absCursor (l : List Nat) : Option Nat → Nat
  | none => 0
  | some c => l.idxOf c + 1

/-- abstraction function: forget the cursor node and the link cache -/
def MList.abs (m : MList) : Doc := { items := m.list, gap := absCursor m.list m.cursor, secNodes := m.secNodes }

/-- successor of `s` in `F` -/
def succIn (F : List Nat) (s : Nat) : Option Nat := F[F.idxOf s + 1]?

/-- representation invariant of the node list -/
structure Inv (m : MList) : Prop where
  nodup : m.list.Nodup
  cur : ∀ c, m.cursor = some c → c ∈ m.list
  /-- unless flagged dirty, every linked section node's cached `_next_section` is the next linked section node -/
  cache : m.dirty = false → ∀ s, s ∈ m.list → m.isSec s = true →
            lookupNext m.nextSec s = succIn (m.list.filter m.isSec) s

theorem abs_has (m : MList) (n : Nat) : m.abs.has n = m.active n := rfl

theorem active_iff (m : MList) (n : Nat) : m.active n = true ↔ n ∈ m.list := by
  simp [MList.active]

theorem idxOf_lt (l : List Nat) (c : Nat) (h : c ∈ l) : l.idxOf c < l.length := List.idxOf_lt_length_iff.mpr h

/-- the cache clause survives an operation that changes neither the cache nor the section nodes in the list -/
theorem cache_keep (m m' : MList) (b : Bool) (hs : m'.secNodes = m.secNodes) (hn : m'.nextSec = m.nextSec)
    (hd : m'.dirty = (m.dirty || b))
    (hf : b = false → m'.list.filter m.isSec = m.list.filter m.isSec)
    (hm : b = false → ∀ s, s ∈ m'.list → m.isSec s = true → s ∈ m.list)
    (hc : m.dirty = false → ∀ s, s ∈ m.list → m.isSec s = true → lookupNext m.nextSec s = succIn (m.list.filter m.isSec) s) :
    m'.dirty = false → ∀ s, s ∈ m'.list → m'.isSec s = true → lookupNext m'.nextSec s = succIn (m'.list.filter m'.isSec) s := by
  intro hd' s hs' hsec
  have hiss : m'.isSec = m.isSec := by funext x; simp [MList.isSec, hs]
  rw [hd] at hd'
  have hb : b = false := by cases b <;> simp_all
  have hdm : m.dirty = false := by cases h : m.dirty <;> simp_all
  rw [hiss] at hsec ⊢
  rw [hn, hf hb]
  exact hc hdm s (hm hb s hs' hsec) hsec

/-! ### add_node -/

theorem refine_add (m : MList) (n : Nat) (h : Inv m) :
    Inv (m.apply (.add n)) ∧ (m.apply (.add n)).abs = m.abs.apply (.add n) := by
  by_cases ha : m.active n
  · simp [MList.apply, Doc.apply, abs_has, ha, h]
  · have hn : n ∉ m.list := by simpa [MList.active] using ha
    simp only [MList.apply, Doc.apply, abs_has, ha, Bool.false_eq_true, if_false]
    cases hc : m.cursor with
    | none =>
      refine ⟨⟨?_, ?_, ?_⟩, ?_⟩
      · simp [MList.addNode, hc, List.nodup_cons, hn, h.nodup]
      · intro c' hc'
        simp [MList.addNode] at hc'
        subst hc'
        simp [MList.addNode, hc]
      · apply cache_keep m (m.addNode n) (m.isSec n) rfl rfl rfl _ _ h.cache
        · intro hb; simp [MList.addNode, hc, List.filter_cons, hb]
        · intro hb s hs hsec
          simp [MList.addNode, hc] at hs
          rcases hs with rfl | hs
          · simp [hb] at hsec
          · exact hs
      · simp [MList.abs, MList.addNode, hc, absCursor, idxOf_cons_self]
    | some c =>
      have hcm : c ∈ m.list := h.cur c hc
      have hk : m.list.idxOf c + 1 ≤ m.list.length := idxOf_lt _ _ hcm
      have hl : (m.addNode n).list = m.list.insertIdx (m.list.idxOf c + 1) n := by
        simp [MList.addNode, hc, insertAfter_eq _ _ _ hcm]
      refine ⟨⟨?_, ?_, ?_⟩, ?_⟩
      · rw [hl]; exact nodup_insertIdx _ _ _ h.nodup hn
      · intro c'; intro hc'
        simp [MList.addNode] at hc'
        subst hc'
        rw [hl]; exact (List.mem_insertIdx hk).mpr (Or.inl rfl)
      · apply cache_keep m (m.addNode n) (m.isSec n) rfl rfl rfl _ _ h.cache
        · intro hb; simp [MList.addNode, hc, filter_insertAfter _ _ _ _ hb]
        · intro hb s hs hsec
          rw [hl] at hs
          rcases (List.mem_insertIdx hk).mp hs with rfl | hs
          · simp [hb] at hsec
          · exact hs
      · simp only [MList.abs, hl]
        simp [MList.addNode, hc, absCursor, idxOf_insertIdx_self _ _ _ hn hk, insertAfter_eq _ _ _ hcm]

/-! ### add_after / add_before -/

theorem abs_insert (m : MList) (n j : Nat) (h : Inv m) (hn : n ∉ m.list) (hj : j ≤ m.list.length) :
    absCursor (m.list.insertIdx j n) m.cursor = if j < absCursor m.list m.cursor then absCursor m.list m.cursor + 1 else absCursor m.list m.cursor := by
  cases hc : m.cursor with
  | none => simp [absCursor]
  | some c =>
    have hcm : c ∈ m.list := h.cur c hc
    have hne : c ≠ n := fun e => hn (e ▸ hcm)
    simp only [absCursor, idxOf_insertIdx_other _ _ _ _ hcm hne hj]
    by_cases h1 : j ≤ m.list.idxOf c
    · have h2 : j < m.list.idxOf c + 1 := by omega
      simp [h1, h2]
    · have h2 : ¬ j < m.list.idxOf c + 1 := by omega
      simp [h1, h2]

theorem refine_insert (m : MList) (n j : Nat) (l' : List Nat) (h : Inv m) (hn : n ∉ m.list) (hj : j ≤ m.list.length)
    (hl : l' = m.list.insertIdx j n) (hf : m.isSec n = false → l'.filter m.isSec = m.list.filter m.isSec) :
    Inv { m with list := l', dirty := m.dirty || m.isSec n } ∧
    MList.abs { m with list := l', dirty := m.dirty || m.isSec n } = m.abs.insertAt j n := by
  refine ⟨⟨?_, ?_, ?_⟩, ?_⟩
  · simp only [hl]; exact nodup_insertIdx _ _ _ h.nodup hn
  · intro c hc
    simp only [hl]
    exact (List.mem_insertIdx hj).mpr (Or.inr (h.cur c hc))
  · apply cache_keep m { m with list := l', dirty := m.dirty || m.isSec n } (m.isSec n) rfl rfl rfl hf _ h.cache
    intro hb s hs hsec
    simp only [hl] at hs
    rcases (List.mem_insertIdx hj).mp hs with rfl | hs
    · simp [hb] at hsec
    · exact hs
  · simp only [MList.abs, Doc.insertAt, hl, abs_insert m n j h hn hj]
    try rfl

theorem refine_addAfter (m : MList) (n r : Nat) (h : Inv m) :
    Inv (m.apply (.addAfter n r)) ∧ (m.apply (.addAfter n r)).abs = m.abs.apply (.addAfter n r) := by
  by_cases hn : n ∈ m.list
  · simp [MList.apply, Doc.apply, Doc.has, MList.active, MList.abs, hn, h]
  · by_cases hr : r ∈ m.list
    · have := refine_insert m n (m.list.idxOf r + 1) (insertAfter m.list r n) h hn (idxOf_lt _ _ hr)
        (insertAfter_eq _ _ _ hr) (fun hb => filter_insertAfter _ _ _ _ hb)
      simpa [MList.apply, Doc.apply, Doc.has, MList.active, MList.abs, hn, hr, Doc.pos] using this
    · simp [MList.apply, Doc.apply, Doc.has, MList.active, MList.abs, hn, hr, h]

theorem refine_addBefore (m : MList) (n r : Nat) (h : Inv m) :
    Inv (m.apply (.addBefore n r)) ∧ (m.apply (.addBefore n r)).abs = m.abs.apply (.addBefore n r) := by
  by_cases hn : n ∈ m.list
  · simp [MList.apply, Doc.apply, Doc.has, MList.active, MList.abs, hn, h]
  · by_cases hr : r ∈ m.list
    · have := refine_insert m n (m.list.idxOf r) (insertBefore m.list r n) h hn (Nat.le_of_lt (idxOf_lt _ _ hr))
        (insertBefore_eq _ _ _ hr) (fun hb => filter_insertBefore _ _ _ _ hb)
      simpa [MList.apply, Doc.apply, Doc.has, MList.active, MList.abs, hn, hr, Doc.pos] using this
    · simp [MList.apply, Doc.apply, Doc.has, MList.active, MList.abs, hn, hr, h]

/-! ### remove_node -/

theorem abs_remove (l : List Nat) (cur : Option Nat) (n : Nat) (hd : l.Nodup) (hn : n ∈ l) (hcur : ∀ c, cur = some c → c ∈ l) :
    absCursor (l.erase n) (if cur = some n then prevOf l n else cur) =
      if absCursor l cur ≤ l.idxOf n then absCursor l cur else absCursor l cur - 1 := by
  have hps := prevOf_spec l n hd hn
  cases cur with
  | none => simp [absCursor]
  | some c =>
    by_cases hcn : c = n
    · subst hcn
      simp only [if_true, absCursor]
      have h1 : ¬ (l.idxOf c + 1 ≤ l.idxOf c) := by omega
      simp only [h1, if_false]
      cases hp : prevOf l c with
      | none => rw [hp] at hps; simp [absCursor, hps]
      | some p =>
        rw [hp] at hps
        obtain ⟨_, hpn, hidx⟩ := hps
        have h2 : ¬ (l.idxOf c < l.idxOf p) := by omega
        simp only [absCursor, idxOf_erase _ _ _ hpn, h2, if_false]
        omega
    · have hcm := hcur c rfl
      have hidx : l.idxOf c ≠ l.idxOf n := fun e => hcn (idxOf_inj _ _ _ hcm hn e)
      have hne : ¬ (some c = some n) := by simpa using hcn
      simp only [hne, if_false, absCursor, idxOf_erase _ _ _ hcn]
      by_cases h1 : l.idxOf n < l.idxOf c
      · have h2 : ¬ (l.idxOf c + 1 ≤ l.idxOf n) := by omega
        simp only [h1, h2, if_true, if_false]; omega
      · have h2 : l.idxOf c + 1 ≤ l.idxOf n := by omega
        simp only [h1, h2, if_true, if_false]

theorem deleteOne_gap (g i : Nat) :
    (if g ≤ i then g else if g ≤ i + 1 then i else g - (i + 1 - i)) = if g ≤ i then g else g - 1 := by
  by_cases h1 : g ≤ i
  · simp [h1]
  · by_cases h2 : g ≤ i + 1
    · have : g = i + 1 := by omega
      simp [h1, this]
    · simp [h1, h2]

theorem refine_removeNode (m : MList) (n : Nat) (h : Inv m) (hn : n ∈ m.list) :
    Inv (m.removeNode n) ∧ (m.removeNode n).abs = m.abs.deleteBlock (m.list.idxOf n) (m.list.idxOf n) := by
  have hps := prevOf_spec m.list n h.nodup hn
  refine ⟨⟨?_, ?_, ?_⟩, ?_⟩
  · exact h.nodup.erase n
  · intro c hc
    simp only [MList.removeNode] at hc ⊢
    by_cases hcn : m.cursor = some n
    · simp only [hcn, if_true] at hc
      rw [hc] at hps
      exact (List.mem_erase_of_ne hps.2.1).mpr hps.1
    · simp only [hcn, if_false] at hc
      have hne : c ≠ n := fun e => hcn (e ▸ hc)
      exact (List.mem_erase_of_ne hne).mpr (h.cur c hc)
  · apply cache_keep m (m.removeNode n) (m.isSec n) rfl rfl rfl _ _ h.cache
    · intro hb; exact filter_erase _ _ _ hb
    · intro hb s hs hsec; exact List.mem_of_mem_erase hs
  · simp only [MList.abs, MList.removeNode, Doc.deleteBlock, take_drop_erase _ _ hn,
      abs_remove m.list m.cursor n h.nodup hn h.cur]
    refine congrArg (fun g => ({ items := m.list.erase n, gap := g, secNodes := m.secNodes } : Doc)) ?_
    exact (deleteOne_gap _ _).symm

theorem refine_remove (m : MList) (n : Nat) (h : Inv m) :
    Inv (m.apply (.remove n)) ∧ (m.apply (.remove n)).abs = m.abs.apply (.remove n) := by
  by_cases hn : n ∈ m.list
  · have := refine_removeNode m n h hn
    simpa [MList.apply, Doc.apply, Doc.has, MList.active, MList.abs, hn, Doc.pos] using this
  · simp [MList.apply, Doc.apply, Doc.has, MList.active, MList.abs, hn, h]

/-! ### set_cursor, section node registration -/

theorem refine_setCursor (m : MList) (c : Option Nat) (h : Inv m) :
    Inv (m.apply (.setCursor c)) ∧ (m.apply (.setCursor c)).abs = m.abs.apply (.setCursor c) := by
  cases c with
  | none =>
    refine ⟨⟨h.nodup, by simp [MList.apply], ?_⟩, by simp [MList.apply, Doc.apply, MList.abs, absCursor]⟩
    exact h.cache
  | some c =>
    by_cases hc : c ∈ m.list
    · have e : m.apply (.setCursor (some c)) = { m with cursor := some c } := by simp [MList.apply, MList.active, hc]
      rw [e]
      refine ⟨⟨h.nodup, ?_, h.cache⟩, by simp [Doc.apply, Doc.has, hc, MList.abs, absCursor, Doc.pos]⟩
      intro c' hc'
      simp at hc'
      subst hc'
      exact hc
    · simp [MList.apply, Doc.apply, Doc.has, MList.active, MList.abs, hc, h]

theorem refine_regSection (m : MList) (n : Nat) (h : Inv m) :
    Inv (m.apply (.regSection n)) ∧ (m.apply (.regSection n)).abs = m.abs.apply (.regSection n) := by
  by_cases hn : n ∈ m.list
  · simp [MList.apply, Doc.apply, Doc.has, MList.active, MList.abs, hn, h]
  · have e : m.apply (.regSection n) = { m with secNodes := n :: m.secNodes } := by simp [MList.apply, MList.active, hn]
    rw [e]
    refine ⟨⟨h.nodup, h.cur, ?_⟩, by simp [Doc.apply, Doc.has, hn, MList.abs]⟩
    intro hd s hs hsec
    have hne : s ≠ n := fun e => hn (e ▸ hs)
    have hsec' : m.isSec s = true := by
      simp [MList.isSec, List.contains_cons, hne] at hsec ⊢; exact hsec
    have hfil : m.list.filter (MList.isSec { m with secNodes := n :: m.secNodes }) = m.list.filter m.isSec := by
      apply List.filter_congr
      intro x hx
      have : x ≠ n := fun e => hn (e ▸ hx)
      simp [MList.isSec, List.contains_cons, this]
    show lookupNext m.nextSec s = succIn (m.list.filter (MList.isSec { m with secNodes := n :: m.secNodes })) s
    rw [hfil]
    exact h.cache hd s hs hsec'

end AsmjitVerif.Builder
