/-
Region ownership of relocation entries (C04): every `RelocEntry` owns the bytes `[source offset, + region size)` of its
section - inside the buffer, disjoint from the region of every other entry and from the field of every fixup reference.
`RInv` is proved for every reachable assembling state (Props/C04E.lean `relocs_own_their_regions`).
-/
import AsmjitVerif.Lemmas.RefInvStep
namespace AsmjitVerif.CodeHolder
open AsmjitVerif.Offset

structure Rgn where
  sec  : Nat
  off  : Nat
  size : Nat
  fmt  : OffsetFormat
  ty   : RelocType
  deriving DecidableEq, Repr

def Reloc.rgn (r : Reloc) : Rgn := ⟨r.srcSec, r.srcOff, r.regionSize, r.fmt, r.type⟩

/-- the value word of a relocation entry, as a reference-like region -/
def Rgn.val (r : Rgn) : GRef := { sec := r.sec, offset := r.off + r.fmt.valueOffset, rel := 0#64, fmt := r.fmt, label := 0 }

/-- the value word is as emitted: its field bits are zero (8-byte values: all zero) -/
def RZero (secs : List Section) (r : Rgn) : Prop :=
  ∃ old, field secs r.val = some old ∧
    (if r.fmt.valueSize = 8 then old = 0 else BitVec.ofNat 32 old &&& fieldMask32 r.fmt = 0#32)

def DRR (a b : Rgn) : Prop := a.sec ≠ b.sec ∨ a.off + a.size ≤ b.off ∨ b.off + b.size ≤ a.off
def DRG (r : Rgn) (g : GRef) : Prop := r.sec ≠ g.sec ∨ r.off + r.size ≤ g.offset ∨ g.offset + g.fmt.valueSize ≤ r.off

/-- the region lies inside its section's buffer and contains the value word -/
def RInB (secs : List Section) (r : Rgn) : Prop :=
  ∃ sec, secs[r.sec]? = some sec ∧ r.off + r.size ≤ sec.buf.length ∧ r.fmt.valueOffset + r.fmt.valueSize ≤ r.size ∧ 0 < r.fmt.valueSize ∧
    ({ r.fmt with valueOffset := 0 } : OffsetFormat) ∈ formatsProved ∧ (r.ty = .x64AddressEntry → 2 ≤ r.fmt.valueOffset)

structure RInv (s : State) : Prop where
  inb   : ∀ r ∈ s.relocs.map Reloc.rgn, RInB s.secs r
  disj  : (s.relocs.map Reloc.rgn).Pairwise DRR
  cross : ∀ r ∈ s.relocs.map Reloc.rgn, ∀ g ∈ s.ghost, DRG r g
  zero  : ∀ r ∈ s.relocs.map Reloc.rgn, RZero s.secs r
  notab : (∀ r ∈ s.relocs.map Reloc.rgn, s.addrTabSec ≠ some r.sec) ∧ s.addrTabSec ≠ some s.cur

/-- buffers never shrink -/
def LenExt (a b : List Section) : Prop :=
  ∀ (i : Nat) (sec : Section), a[i]? = some sec → ∃ sec' : Section, b[i]? = some sec' ∧ sec.buf.length ≤ sec'.buf.length

theorem LenExt.of_ext {a b : List Section} (h : SecsExt a b) : LenExt a b := by
  intro i sec hs
  obtain ⟨s', h1, ext, h2⟩ := h i sec hs
  exact ⟨s', h1, by rw [h2, List.length_append]; omega⟩

theorem LenExt.of_shape {a b : List Section} (h : SameShape a b) : LenExt a b := by
  intro i sec hs
  obtain ⟨s', h1, h2⟩ := h.2 i sec hs
  exact ⟨s', h1, by omega⟩

theorem lenExt_length {a b : List Section} (h : LenExt a b) : a.length ≤ b.length := by
  rcases Nat.lt_or_ge b.length a.length with hlt | hge
  · obtain ⟨s', hs', _⟩ := h b.length (a[b.length]) (by simp [hlt])
    rw [List.getElem?_eq_none (Nat.le_refl _)] at hs'; cases hs'
  · exact hge

theorem RInB.mono {a b : List Section} (h : LenExt a b) {r : Rgn} (hr : RInB a r) : RInB b r := by
  obtain ⟨sec, h1, h2, h3, h4⟩ := hr
  obtain ⟨s', h5, h6⟩ := h _ _ h1
  exact ⟨s', h5, by omega, h3, h4⟩

theorem RInB.val {secs : List Section} {r : Rgn} (h : RInB secs r) : InB secs r.val := by
  obtain ⟨sec, h1, h2, h3, _⟩ := h
  exact ⟨sec, h1, by show r.off + r.fmt.valueOffset + r.fmt.valueSize ≤ _; omega⟩

theorem D_val_of_DRG {secs : List Section} {r : Rgn} {g : GRef} (hb : RInB secs r) (h : DRG r g) : D r.val g := by
  obtain ⟨_, _, _, h3, _⟩ := hb
  unfold D DRG at *
  show r.sec ≠ g.sec ∨ r.off + r.fmt.valueOffset + r.fmt.valueSize ≤ g.offset ∨ g.offset + g.fmt.valueSize ≤ r.off + r.fmt.valueOffset
  omega

/-- one assembling step, seen from the regions: buffers only grow; at most one new relocation region or one new logged
reference appears, and it starts at or after the old end of the current section and lies inside the new buffer -/
structure Grow (s s' : State) : Prop where
  len   : LenExt s.secs s'.secs
  keep  : ∀ g, InB s.secs g → (∀ x ∈ s.ghost, D g x) → field s'.secs g = field s.secs g
  newR  : ∃ news : List Rgn, s'.relocs.map Reloc.rgn = s.relocs.map Reloc.rgn ++ news ∧ news.length ≤ 1 ∧
            ∀ r ∈ news, r.sec = s.cur ∧ s.curOff ≤ r.off ∧ RInB s'.secs r ∧ RZero s'.secs r
  newG  : ∃ newg : List GRef, s'.ghost = s.ghost ++ newg ∧
            ∀ g ∈ newg, g.sec = s.cur ∧ s.curOff ≤ g.offset
  notBoth : s'.relocs.map Reloc.rgn = s.relocs.map Reloc.rgn ∨ s'.ghost = s.ghost
  tabOk : s'.addrTabSec = s.addrTabSec ∨ (s.addrTabSec = none ∧ s'.addrTabSec = some s.secs.length ∧ s.secs.length < s'.secs.length)
  curOk : s.addrTabSec ≠ some s.cur → s'.addrTabSec ≠ some s'.cur

theorem rinv_grow {s s' : State} (h : RInv s) (hi : Inv s) (g : Grow s s') : RInv s' := by
  obtain ⟨news, hn, hlen, hnew⟩ := g.newR
  obtain ⟨newg, hg, hgnew⟩ := g.newG
  obtain ⟨sec0, hsec0⟩ : ∃ sec0, s.secs[s.cur]? = some sec0 := ⟨s.secs[s.cur]'hi.cur, by simp [hi.cur]⟩
  have hco : s.curOff = sec0.buf.length := by unfold State.curOff; rw [hsec0]
  -- an old region ends before the old end of its section
  have oldR : ∀ r ∈ s.relocs.map Reloc.rgn, r.sec = s.cur → r.off + r.size ≤ s.curOff := by
    intro r hr he
    obtain ⟨sec, h1, h2, _⟩ := h.inb r hr
    rw [he, hsec0] at h1; cases h1; omega
  have oldG : ∀ x ∈ s.ghost, x.sec = s.cur → x.offset + x.fmt.valueSize ≤ s.curOff := by
    intro x hx he
    obtain ⟨sec, h1, h2⟩ := hi.inb x hx
    rw [he, hsec0] at h1; cases h1; omega
  refine ⟨?_, ?_, ?_, ?_, ?_⟩
  rotate_left 3
  · -- zero
    rw [hn]; intro r hr
    rw [List.mem_append] at hr
    rcases hr with hr | hr
    · obtain ⟨old, ho, hz⟩ := h.zero r hr
      refine ⟨old, ?_, hz⟩
      rw [g.keep r.val (h.inb r hr).val (fun x hx => D_val_of_DRG (h.inb r hr) (h.cross r hr x hx))]
      exact ho
    · exact (hnew r hr).2.2.2
  · -- notab
    constructor
    · rw [hn]; intro r hr
      rw [List.mem_append] at hr
      have hrsec : r.sec < s.secs.length := by
        rcases hr with hr | hr
        · obtain ⟨sec, h1, _⟩ := h.inb r hr; exact getElem?_lt h1
        · rw [(hnew r hr).1]; exact hi.cur
      have hold : s.addrTabSec ≠ some r.sec := by
        rcases hr with hr | hr
        · exact h.notab.1 r hr
        · rw [(hnew r hr).1]; exact h.notab.2
      rcases g.tabOk with e | ⟨_, e, _⟩
      · rw [e]; exact hold
      · rw [e]; intro hx; have := Option.some.inj hx; omega
    · exact g.curOk h.notab.2
  · rw [hn]; intro r hr
    rw [List.mem_append] at hr
    rcases hr with hr | hr
    · exact (h.inb r hr).mono g.len
    · exact (hnew r hr).2.2.1
  · rw [hn, List.pairwise_append]
    refine ⟨h.disj, ?_, ?_⟩
    · match news, hlen with
      | [], _ => simp
      | [x], _ => simp
    · intro a ha b hb
      obtain ⟨hb1, hb2, _, _⟩ := hnew b hb
      by_cases hs : a.sec = b.sec
      · right; left
        have := oldR a ha (hs.trans hb1)
        omega
      · exact .inl hs
  · rw [hn, hg]
    intro r hr x hx
    rw [List.mem_append] at hr hx
    rcases hr with hr | hr <;> rcases hx with hx | hx
    · exact h.cross r hr x hx
    · -- old region, new reference
      obtain ⟨hx1, hx2⟩ := hgnew x hx
      by_cases hs : r.sec = x.sec
      · right; left
        have := oldR r hr (hs.trans hx1)
        omega
      · exact .inl hs
    · -- new region, old reference
      obtain ⟨hr1, hr2, _, _⟩ := hnew r hr
      by_cases hs : r.sec = x.sec
      · right; right
        have := oldG x hx (hs.symm.trans hr1)
        omega
      · exact .inl hs
    · -- both new in one step: excluded
      exfalso
      rcases g.notBoth with e | e
      · rw [e] at hn
        have : news = [] := by
          have := congrArg List.length hn
          simp at this
          exact this
        rw [this] at hr; cases hr
      · rw [e] at hg
        have : newg = [] := by
          have := congrArg List.length hg
          simp at this
          exact this
        rw [this] at hx; cases hx

end AsmjitVerif.CodeHolder
