/- The invariant of the section table over all operation histories. -/
import AsmjitVerif.Lemmas.SectionsFlatten
import Std.Tactic.BVDecide
namespace AsmjitVerif.Sections

/-- what no operation after `new_section` changes -/
def SameKeys (a b : Section) : Prop := b.id = a.id ∧ b.order = a.order ∧ b.align = a.align

structure InvS (secs : List Section) : Prop where
  sorted : OrderSorted secs
  ids : ∀ s ∈ secs, s.id < secs.length
  nodup : secs.Pairwise (fun a b => a.id ≠ b.id)
  shape : ∃ t rest, secs = t :: rest ∧ t.id = 0 ∧ t.order = -2147483648 ∧ t.align = 0 ∧
            ∀ s ∈ rest, GoodAlign s.align ∧ -2147483648 ≤ s.order ∧ 0 < s.id

theorem InvS.pre {secs : List Section} (h : InvS secs) : Pre 0 secs := by
  obtain ⟨t, rest, rfl, _, _, ha, hr⟩ := h.shape
  exact ⟨Or.inr ⟨ha, rfl⟩, fun s hs => (hr s hs).1⟩

theorem AllRel.length_eq {α β : Type} {R : α → β → Prop} {l₁ : List α} {l₂ : List β} (h : AllRel R l₁ l₂) : l₂.length = l₁.length := by
  induction h with
  | nil => rfl
  | cons _ _ ih => simp [ih]

theorem AllRel.mem_right {α β : Type} {R : α → β → Prop} {l₁ : List α} {l₂ : List β} (h : AllRel R l₁ l₂) :
    ∀ b ∈ l₂, ∃ a ∈ l₁, R a b := by
  induction h with
  | nil => simp
  | cons hr _ ih =>
    intro b hb
    rcases List.mem_cons.mp hb with rfl | hb
    · exact ⟨_, by simp, hr⟩
    · obtain ⟨a, ha, hab⟩ := ih b hb
      exact ⟨a, by simp [ha], hab⟩

theorem AllRel.imp {α β : Type} {R S : α → β → Prop} {l₁ : List α} {l₂ : List β} (h : AllRel R l₁ l₂) (hi : ∀ a b, R a b → S a b) :
    AllRel S l₁ l₂ := by
  induction h with
  | nil => exact AllRel.nil
  | cons hr _ ih => exact AllRel.cons (hi _ _ hr) ih

theorem AllRel.map_right {α : Type} {R : α → α → Prop} (g : α → α) (l : List α) (h : ∀ a, R a (g a)) : AllRel R l (l.map g) := by
  induction l with
  | nil => exact AllRel.nil
  | cons a rest ih => exact AllRel.cons (h a) ih

theorem AllRel.pairwise {α : Type} {R : α → α → Prop} {P : α → α → Prop} {l₁ l₂ : List α} (h : AllRel R l₁ l₂)
    (hp : l₁.Pairwise P) (ht : ∀ a a' b b', R a a' → R b b' → P a b → P a' b') : l₂.Pairwise P := by
  induction h with
  | nil => exact List.Pairwise.nil
  | cons hr hrest ih =>
    rw [List.pairwise_cons] at hp ⊢
    refine ⟨?_, ih hp.2⟩
    intro b' hb'
    obtain ⟨b, hb, hbb⟩ := hrest.mem_right b' hb'
    exact ht _ _ _ _ hr hbb (hp.1 b hb)

theorem SameKeys.trans_all {l₁ l₂ l₃ : List Section} (h₁ : AllRel SameKeys l₁ l₂) (h₂ : AllRel SameKeys l₂ l₃) : AllRel SameKeys l₁ l₃ := by
  induction h₁ generalizing l₃ with
  | nil => cases h₂; exact AllRel.nil
  | cons hr _ ih =>
    cases h₂ with
    | cons hr' hrest' =>
      exact AllRel.cons ⟨hr'.1.trans hr.1, hr'.2.1.trans hr.2.1, hr'.2.2.trans hr.2.2⟩ (ih hrest')

theorem SameKeys.refl_all (l : List Section) : AllRel SameKeys l l := by
  have := AllRel.map_right (R := SameKeys) id l (fun a => ⟨rfl, rfl, rfl⟩)
  simpa using this

/-- the invariant only depends on (id, order, align) position by position -/
theorem InvS.transfer {l₁ l₂ : List Section} (h : AllRel SameKeys l₁ l₂) (hi : InvS l₁) : InvS l₂ := by
  refine ⟨?_, ?_, h.pairwise hi.nodup (fun a a' b b' ha hb hab => by rw [ha.1, hb.1]; exact hab), ?_⟩
  · refine h.pairwise hi.sorted ?_
    intro a a' b b' ha hb hab
    unfold OrdLt at *
    rw [ha.1, ha.2.1, hb.1, hb.2.1]; exact hab
  · intro b hb
    obtain ⟨a, ha, hab⟩ := h.mem_right b hb
    rw [hab.1, h.length_eq]; exact hi.ids a ha
  · obtain ⟨t, rest, rfl, h1, h2, h3, h4⟩ := hi.shape
    cases h with
    | cons hr hrest =>
      rename_i t' rest'
      refine ⟨t', rest', rfl, by rw [hr.1, h1], by rw [hr.2.1, h2], by rw [hr.2.2, h3], ?_⟩
      intro s hs
      obtain ⟨a, ha, hab⟩ := hrest.mem_right s hs
      rw [hab.1, hab.2.1, hab.2.2]; exact h4 a ha

theorem modifySec_keys (secs : List Section) (id : Nat) (f : Section → Section) (hf : ∀ s, SameKeys s (f s)) :
    AllRel SameKeys secs (modifySec secs id f) := by
  unfold modifySec
  apply AllRel.map_right
  intro a
  split
  · exact hf a
  · exact ⟨rfl, rfl, rfl⟩

theorem assign_keys (off : Nat) (secs : List Section) : AllRel SameKeys secs (assign off secs) := by
  induction secs generalizing off with
  | nil => exact AllRel.nil
  | cons s rest ih =>
    unfold assign
    split
    · simp only []
      split
      · exact AllRel.cons ⟨rfl, rfl, rfl⟩ (ih _)
      · exact AllRel.cons ⟨rfl, rfl, rfl⟩ (ih _)
    · exact AllRel.cons ⟨rfl, rfl, rfl⟩ (ih _)

/-! ### new_section -/

theorem isZeroOrPow2_cases (a : BitVec 32) (h : isZeroOrPow2 a = true) (h0 : a ≠ 0) :
    a = 1 ∨ a = 2 ∨ a = 4 ∨ a = 8 ∨ a = 16 ∨ a = 32 ∨ a = 64 ∨ a = 128 ∨ a = 256 ∨ a = 512 ∨ a = 1024 ∨ a = 2048 ∨
    a = 4096 ∨ a = 8192 ∨ a = 16384 ∨ a = 32768 ∨ a = 65536 ∨ a = 131072 ∨ a = 262144 ∨ a = 524288 ∨ a = 1048576 ∨
    a = 2097152 ∨ a = 4194304 ∨ a = 8388608 ∨ a = 16777216 ∨ a = 33554432 ∨ a = 67108864 ∨ a = 134217728 ∨
    a = 268435456 ∨ a = 536870912 ∨ a = 1073741824 ∨ a = 2147483648 := by
  unfold isZeroOrPow2 at h
  bv_decide

theorem goodAlign_of_pow2 (a : BitVec 32) (h : isZeroOrPow2 a = true) (h0 : a.toNat ≠ 0) : GoodAlign a.toNat := by
  have hne : a ≠ 0 := by intro hc; rw [hc] at h0; exact h0 rfl
  rcases isZeroOrPow2_cases a h hne with h | h | h | h | h | h | h | h | h | h | h | h | h | h | h | h | h | h | h | h | h | h | h | h | h | h | h | h | h | h | h | h <;>
    (subst h; unfold GoodAlign U64; decide)

theorem OrdLt_of_not_secLt {a s : Section} (h : secLt a s = false) (hid : a.id < s.id) : OrdLt s a := by
  unfold secLt at h
  unfold OrdLt
  simp only [Bool.or_eq_false_iff, decide_eq_false_iff_not, Bool.and_eq_false_iff, beq_eq_false_iff_ne] at h
  omega

theorem OrdLt.trans {a b c : Section} (h₁ : OrdLt a b) (h₂ : OrdLt b c) : OrdLt a c := by
  unfold OrdLt at *; omega

theorem mem_insertByOrder {s x : Section} {l : List Section} : x ∈ insertByOrder s l ↔ x = s ∨ x ∈ l := by
  induction l with
  | nil => simp [insertByOrder]
  | cons a rest ih =>
    unfold insertByOrder
    split
    · simp [ih]; constructor <;> (intro h; rcases h with h | h | h <;> simp [h])
    · simp

theorem length_insertByOrder (s : Section) (l : List Section) : (insertByOrder s l).length = l.length + 1 := by
  induction l with
  | nil => simp [insertByOrder]
  | cons a rest ih =>
    unfold insertByOrder
    split <;> simp [ih]

theorem sorted_insertByOrder (s : Section) (l : List Section) (hs : OrderSorted l) (hid : ∀ a ∈ l, a.id < s.id) :
    OrderSorted (insertByOrder s l) := by
  induction l with
  | nil => simp [insertByOrder, OrderSorted]
  | cons a rest ih =>
    unfold OrderSorted at hs ih ⊢
    rw [List.pairwise_cons] at hs
    unfold insertByOrder
    split
    · rename_i hlt
      rw [List.pairwise_cons]
      refine ⟨?_, ih hs.2 (fun b hb => hid b (by simp [hb]))⟩
      intro b hb
      rcases mem_insertByOrder.mp hb with rfl | hb
      · unfold secLt at hlt; unfold OrdLt
        simp only [Bool.or_eq_true, decide_eq_true_eq, Bool.and_eq_true, beq_iff_eq] at hlt
        omega
      · exact hs.1 b hb
    · rename_i hlt
      have hsa : OrdLt s a := OrdLt_of_not_secLt (by simpa using hlt) (hid a (by simp))
      rw [List.pairwise_cons]
      refine ⟨?_, List.pairwise_cons.mpr hs⟩
      intro b hb
      rcases List.mem_cons.mp hb with rfl | hb
      · exact hsa
      · exact hsa.trans (hs.1 b hb)

theorem pairwise_insertByOrder {R : Section → Section → Prop} (s : Section) (l : List Section) (hp : l.Pairwise R)
    (hs : ∀ a ∈ l, R a s ∧ R s a) : (insertByOrder s l).Pairwise R := by
  induction l with
  | nil => simp [insertByOrder]
  | cons a rest ih =>
    rw [List.pairwise_cons] at hp
    unfold insertByOrder
    split
    · rw [List.pairwise_cons]
      refine ⟨?_, ih hp.2 (fun b hb => hs b (by simp [hb]))⟩
      intro b hb
      rcases mem_insertByOrder.mp hb with rfl | hb
      · exact (hs a (by simp)).1
      · exact hp.1 b hb
    · rw [List.pairwise_cons]
      refine ⟨fun b hb => (hs b hb).2, List.pairwise_cons.mpr hp⟩

theorem newSection_inv (h : Holder) (name : String) (align : BitVec 32) (order : Int)
    (ho : -2147483648 ≤ order) (hi : InvS h.secs) : InvS (newSection h name align order).1.secs := by
  unfold newSection
  split
  · exact hi
  · split
    · exact hi
    · rename_i hp _
      simp only [Bool.not_eq_true, Bool.not_eq_eq_eq_not, Bool.not_false] at hp
      simp only []
      obtain ⟨t, rest, hsec, h1, h2, h3, h4⟩ := hi.shape
      have hga : GoodAlign (if align.toNat = 0 then 1 else align.toNat) := by
        split
        · unfold GoodAlign U64; decide
        · rename_i hne; exact goodAlign_of_pow2 align (by simpa using hp) hne
      refine ⟨?_, ?_, ?_, ?_⟩
      · apply sorted_insertByOrder _ _ hi.sorted
        intro a ha; exact hi.ids a ha
      · intro x hx
        rw [length_insertByOrder]
        rcases mem_insertByOrder.mp hx with rfl | hx
        · simp
        · have := hi.ids x hx; omega
      · apply pairwise_insertByOrder _ _ hi.nodup
        intro a ha
        have := hi.ids a ha
        constructor <;> (show _ ≠ _; simp only []; omega)
      · rw [hsec]
        have hlt : secLt t { id := (t :: rest).length, order := order, align := (if align.toNat = 0 then 1 else align.toNat),
                              offset := sizeMax, vsize := 0, name := name, data := [] } = true := by
          unfold secLt
          simp only [Bool.or_eq_true, decide_eq_true_eq, Bool.and_eq_true, beq_iff_eq, h1, h2, List.length_cons]
          omega
        unfold insertByOrder
        rw [if_pos hlt]
        refine ⟨t, _, rfl, h1, h2, h3, ?_⟩
        intro x hx
        rcases mem_insertByOrder.mp hx with rfl | hx
        · exact ⟨hga, ho, by simp⟩
        · exact h4 x hx

end AsmjitVerif.Sections
