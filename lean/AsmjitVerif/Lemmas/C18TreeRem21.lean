/-
C18 — ArenaTree::remove, part 21: `absStep` keeps the colour invariant; the push-down loop under the combined
invariant; colour facts at loop exit, after unlink and after the raw copy.
-/
import AsmjitVerif.Lemmas.C18TreeRem20
namespace AsmjitVerif.Tree.Rem
open AsmjitVerif.Tree AsmjitVerif.Tree.Spec

/-- (a) EVERY BRANCH of the push-down step keeps: no red-red, uniform black height, top-down relaxation. -/
theorem absStep_cinv (kn : Nat) (ctx : List Frame) (S : T) (hS : S.isNil = false) (h : CInv ctx S) :
    CInv (absStep kn ctx S).1 (absStep kn ctx S).2 := by
  simp only [absStep]
  generalize decide (S.key < kn) = d
  by_cases b1 : (!S.isRed && !(S.child d).isRed) = true
  · obtain ⟨c1, c2⟩ := notand_split b1
    rw [if_pos b1]
    by_cases b2 : (S.child (!d)).isRed = true
    · rw [if_pos b2]; exact cinv_rot hS h d _ _ _ _ c1 c2 b2
    · have c3 : (S.child (!d)).isRed = false := by revert b2; cases (S.child (!d)).isRed <;> simp
      rw [if_neg b2]
      cases ctx with
      | nil =>
        have := cinv_noop hS h d S.rootIdx S.key (Or.inr (Or.inr ⟨rfl, c3⟩))
        exact this
      | cons P up =>
        simp only []
        by_cases b3 : P.sib.isNil = true
        · -- impossible: a black non-nil node cannot have a nil sibling
          exfalso
          obtain ⟨_, _, _, sbh, _, _⟩ := sib_facts h c1
          have := (T.col_acc S hS d).2.2 h.balS
          rw [c1] at this; simp only [Bool.false_eq_true, if_false] at this
          rw [T.nil_of_isNil b3] at sbh; omega
        · have hsn : P.sib.isNil = false := by revert b3; cases P.sib.isNil <;> simp
          rw [if_neg b3]
          by_cases b4 : (!(P.sib.child (!P.d)).isRed && !(P.sib.child P.d).isRed) = true
          · obtain ⟨c4, c5⟩ := notand_split b4
            rw [if_pos b4]; exact cinv_flip hS h d _ _ c1 c2 c3 hsn c4 c5
          · rw [if_neg b4]
            by_cases b5 : (P.sib.child P.d).isRed = true
            · rw [if_pos b5]; exact cinv_dbl hS h d _ _ _ _ _ _ c1 c2 c3 hsn b5
            · have c5 : (P.sib.child P.d).isRed = false := by revert b5; cases (P.sib.child P.d).isRed <;> simp
              have c4 : (P.sib.child (!P.d)).isRed = true := by
                revert b4; rw [c5]; cases (P.sib.child (!P.d)).isRed <;> simp
              rw [if_neg b5]; exact cinv_sgl hS h d _ _ _ _ c1 c2 c3 hsn c5 c4
  · rw [if_neg b1]
    refine cinv_noop hS h d S.rootIdx S.key ?_
    revert b1; cases S.isRed <;> cases (S.child d).isRed <;> simp

/-- the push-down loop under the combined invariant (heap simulation, search bookkeeping, colours) -/
theorem removeLoop_inv3 (kn node : Nat) : ∀ (fuel : Nat) (st : RmState) (ctx : List Frame) (S : T),
    Inv2 kn node st ctx S → CInv ctx S → S.height ≤ fuel →
    ∃ ctx', Inv2 kn node (removeLoop fuel node st) ctx' .nil ∧ CInv ctx' .nil ∧
      (plug ctx' .nil).io = (plug ctx S).io := by
  intro fuel
  induction fuel with
  | zero =>
    intro st ctx S inv ci hh
    have : S = .nil := by
      cases S with
      | nil => rfl
      | node => simp [T.height] at hh
    subst this
    exact ⟨ctx, inv, ci, rfl⟩
  | succ fuel ih =>
    intro st ctx S i2 ci hh
    rw [removeLoop_succ]
    by_cases hS : S.isNil = true
    · have h0 : child st.t st.q st.dir = 0 := by
        rw [i2.inv.hq, i2.inv.hdir]; exact i2.inv.reps.isNil_iff.mp hS
      rw [if_pos h0]
      have := T.isNil_eq hS; subst this
      exact ⟨ctx, i2, ci, rfl⟩
    · have hS' : S.isNil = false := by revert hS; cases S.isNil <;> simp
      obtain ⟨hq0, hq, _⟩ := i2.inv.qfacts hS'
      rw [if_neg (by rw [hq]; exact hq0)]
      have hlt := T.child_height S hS' (decide (S.key < kn))
      obtain ⟨ctx', i', c', e'⟩ := ih _ _ _ (step_sim2 i2 hS') (absStep_cinv kn ctx S hS' ci)
        (by rw [absStep_snd]; omega)
      exact ⟨ctx', i', c', e'.trans (absStep_io kn ctx S hS')⟩

/-- (b) exit + unlink: removing the bottom node keeps no-red-red and the uniform black height -/
theorem exit_unlink_col {F : Frame} {up : List Frame} (h : CInv (F :: up) .nil) :
    (plug up F.sib).noRedRed ∧ (plug up F.sib).bal := by
  obtain ⟨_, cn, _, cb, j⟩ := h
  obtain ⟨cn1, cn2, cn3⟩ := cn
  obtain ⟨cb1, cb2, cb3⟩ := cb
  rw [plug_nrr, plug_bal]
  cases hc : F.c
  · rcases j with j | j | ⟨j1, _⟩
    · rw [hc] at j; cases j
    · cases j
    · subst j1; exact ⟨⟨cn2, trivial⟩, cb1, trivial⟩
  · rw [hc] at cn3 cb3
    refine ⟨⟨cn2, cnrr_of_true cn3 _⟩, cb1, ?_⟩
    rw [cb2]; exact cbal_congr cb3 (by simp [T.bhL])

/-- (c) the raw copy: a frame that keeps colour and sibling imposes the same colour conditions -/
theorem cnrr_replace (Ff Ff' : Frame) (above : List Frame) (hc : Ff'.c = Ff.c) (hs : Ff'.sib = Ff.sib) :
    ∀ (below : List Frame) (r : Bool), cnrr (below ++ Ff' :: above) r ↔ cnrr (below ++ Ff :: above) r := by
  intro below
  induction below with
  | nil => intro r; simp only [List.nil_append, cnrr, hc, hs]
  | cons B bl ih => intro r; simp only [List.cons_append, cnrr, ih]

theorem cbal_replace (Ff Ff' : Frame) (above : List Frame) (hc : Ff'.c = Ff.c) (hs : Ff'.sib = Ff.sib) :
    ∀ (below : List Frame) (n : Nat), cbal (below ++ Ff' :: above) n ↔ cbal (below ++ Ff :: above) n := by
  intro below
  induction below with
  | nil => intro n; simp only [List.nil_append, cbal, hc, hs]
  | cons B bl ih => intro n; simp only [List.cons_append, cbal, ih]

theorem replace_col {Ff : Frame} {below above : List Frame} {X : T} (q kq : Nat)
    (h : (plug (below ++ Ff :: above) X).noRedRed ∧ (plug (below ++ Ff :: above) X).bal) :
    (plug (below ++ ⟨q, kq, Ff.c, Ff.d, Ff.sib⟩ :: above) X).noRedRed ∧
    (plug (below ++ ⟨q, kq, Ff.c, Ff.d, Ff.sib⟩ :: above) X).bal := by
  rw [plug_nrr, plug_bal] at h ⊢
  rw [cnrr_replace Ff ⟨q, kq, Ff.c, Ff.d, Ff.sib⟩ above rfl rfl,
    cbal_replace Ff ⟨q, kq, Ff.c, Ff.d, Ff.sib⟩ above rfl rfl]
  exact h

/-- (d) the final `_root->_make_black()` -/
theorem setRed_false_col {X : T} (h : X.noRedRed ∧ X.bal) :
    ((X.setRed false).isRed = false ∧ (X.setRed false).noRedRed ∧ ∃ n, (X.setRed false).blackH n) := by
  rw [exists_blackH_iff]
  cases X with
  | nil => exact ⟨rfl, trivial, trivial⟩
  | node i k c l r => exact ⟨rfl, ⟨(fun e => by cases e), h.1.2⟩, h.2⟩

end AsmjitVerif.Tree.Rem
