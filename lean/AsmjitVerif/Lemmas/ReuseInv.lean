/- C16: frame lemmas (code generation never touches the holder's environment / attachment list nor an emitter's
   attachment state) and the reachability invariant that discharges the side condition of `reset_sim_fresh`. -/
import AsmjitVerif.Lemmas.ReuseStep
namespace AsmjitVerif.Reuse

/-- what attachment fixed on the holder side -/
def Holder.cfg (h : Holder) : Option Arch × List Nat := (h.arch, h.attached)

theorem write_cfg (h : Holder) (s o : Nat) (d : List Nat) : (h.write s o d).cfg = h.cfg := rfl
theorem patch_cfg (h : Holder) (s o : Nat) (d : List Nat) : (h.patch s o d).cfg = h.cfg := rfl
theorem addFixup_cfg (h : Holder) (id : Nat) (f : Fixup) : (h.addFixup id f).cfg = h.cfg := rfl

theorem asmRaw_cfg (h : Holder) (c : Cur) (d : List Nat) : (asmRaw h c d).1.cfg = h.cfg := by
  simp only [asmRaw]; split <;> rfl

theorem asmSwitch_cfg (h : Holder) (c : Cur) (s : Nat) : (asmSwitch h c s).1.cfg = h.cfg := by
  simp only [asmSwitch]; split <;> rfl

theorem resolveFixups_cfg (toSec toOff : Nat) (fs : List Fixup) : ∀ h, (resolveFixups h toSec toOff fs).1.cfg = h.cfg := by
  induction fs with
  | nil => intro h; rfl
  | cons f r ih =>
    intro h
    simp only [resolveFixups]
    cases f.reloc with
    | some rid => simp only []; rw [ih]; rfl
    | none =>
      simp only []
      split
      · rw [ih]
      · split
        · rw [ih]; rfl
        · rw [ih]

theorem bindLabel_cfg (h : Holder) (id toSec toOff : Nat) : (h.bindLabel id toSec toOff).1.cfg = h.cfg := by
  simp only [Holder.bindLabel]
  cases h.labels[id]? with
  | none => rfl
  | some le =>
    simp only []
    split
    · rfl
    · split
      · rfl
      · split
        · rfl
        · show ((resolveFixups _ toSec toOff le.fixups).1).cfg = h.cfg
          rw [resolveFixups_cfg]; rfl

theorem asmBind_cfg (h : Holder) (c : Cur) (id : Nat) : (asmBind h c id).1.cfg = h.cfg := bindLabel_cfg h id c.sec c.off

theorem jmpScratch_cfg (h : Holder) (c : Cur) : (jmpScratch h c).cfg = h.cfg := by
  simp only [jmpScratch]; split <;> rfl

theorem asmJmpCore_cfg (h : Holder) (c : Cur) (id : Nat) : (asmJmpCore h c id).1.cfg = h.cfg := by
  simp only [asmJmpCore]
  cases h.labels[id]? with
  | none => rfl
  | some le =>
    simp only []
    split
    · cases le.bound with
      | none => rfl
      | some so =>
        obtain ⟨s0, tgt⟩ := so
        simp only []
        split
        · split <;> rfl
        · rfl
    · cases le.bound with
      | none => simp only []; split <;> rfl
      | some so =>
        obtain ⟨s0, tgt⟩ := so
        simp only []
        split
        · split
          · rfl
          · split <;> rfl
        · rfl

theorem asmJmp_cfg (h : Holder) (c : Cur) (id : Nat) : (asmJmp h c id).1.cfg = h.cfg := by
  simp only [asmJmp]; rw [asmJmpCore_cfg, jmpScratch_cfg]

theorem asmElabel_cfg (h : Holder) (c : Cur) (id size : Nat) : (asmElabel h c id size).1.cfg = h.cfg := by
  simp only [asmElabel, asmElabelSz]
  cases h.labels[id]? with
  | none => rfl
  | some le =>
    simp only []
    split
    · rfl
    · cases le.bound with
      | none => rfl
      | some so => rfl

theorem newLabel_cfg (h : Holder) (name : List Nat) : (h.newLabel name).1.cfg = h.cfg := by
  simp only [Holder.newLabel]
  split
  · rfl
  · split
    · rfl
    · split <;> rfl

theorem newSection_cfg (h : Holder) (name : List Nat) : (h.newSection name).1.cfg = h.cfg := by
  simp only [Holder.newSection]; split <;> rfl

theorem nodeGen_cfg (n : Node) (h : Holder) (c : Cur) : (nodeGen n h c).1.cfg = h.cfg := by
  cases n
  case «section» s => exact asmSwitch_cfg h c s
  case label id => exact asmBind_cfg h c id
  case data bs => exact asmRaw_cfg h c bs
  case jmp id o => exact asmJmp_cfg h _ id
  case elabel id sz => exact asmElabel_cfg h c id sz

theorem serialize_cfg (ns : List Node) : ∀ h c, (serialize h c ns).1.cfg = h.cfg := by
  induction ns with
  | nil => intro h c; rfl
  | cons n r ih =>
    intro h c
    simp only [serialize]
    split
    · rw [ih, nodeGen_cfg]
    · exact nodeGen_cfg n h _

/-! ### emitter / world frame -/

/-- what attachment (and the constructor) fixed on the emitter side -/
def Emitter.tag (e : Emitter) : (Bool × Kind × Bool) × (Option Arch × Nat × Bool) :=
  ((e.code, e.kind, e.fam64), (e.arch, e.instAlign, e.invalidRex))

theorem setCur_tag (e : Emitter) (c : Cur) : (e.setCur c).tag = e.tag := rfl
theorem addNode_tag (e : Emitter) (n : Node) : (e.addNode n).tag = e.tag := by
  simp only [Emitter.addNode]; cases e.cursor <;> rfl
theorem bldSwitch_tag (e : Emitter) (s : Nat) : (e.bldSwitch s).tag = e.tag := by
  simp only [Emitter.bldSwitch]; split <;> rfl

theorem updAt_self {α : Type} (l : List α) (i : Nat) (a : α) (h : l[i]? = some a) : updAt l i (fun _ => a) = l := by
  induction l generalizing i with
  | nil => cases i <;> rfl
  | cons x r ih =>
    cases i with
    | zero => simp at h; simp [updAt, h]
    | succ i => simp at h; simp [updAt, ih i h]

/-- the frame of one generation operation: holder configuration untouched, only emitter `i` replaced, same tag -/
def FrameAt (w w' : World) (i : Nat) (e : Emitter) : Prop :=
  w'.h.cfg = w.h.cfg ∧ ∃ e', w'.es = updAt w.es i (fun _ => e') ∧ e'.tag = e.tag

theorem frame_same (w : World) (i : Nat) (e : Emitter) (hi : w.es[i]? = some e) : FrameAt w w i e :=
  ⟨rfl, e, (updAt_self w.es i e hi).symm, rfl⟩

theorem frame_setE (w : World) (h' : Holder) (i : Nat) (e e' : Emitter) (hh : h'.cfg = w.h.cfg) (ht : e'.tag = e.tag) :
    FrameAt w (({ w with h := h' } : World).setE i e') i e :=
  ⟨hh, e', rfl, ht⟩

theorem viaAsm_frame (w : World) (i : Nat) (e : Emitter) (f : Holder → Cur → Holder × Cur × String)
    (hf : ∀ h c, (f h c).1.cfg = h.cfg) : FrameAt w (w.viaAsm i e f).1 i e := by
  simp only [World.viaAsm]
  exact frame_setE w _ i e _ (hf _ _) (setCur_tag e _)

theorem genAttached_frame (w : World) (i : Nat) (e : Emitter) (op : Op) (hi : w.es[i]? = some e) :
    FrameAt w (w.genAttached i e op).1 i e := by
  cases op
  case label j =>
    simp only [World.genAttached]
    refine frame_setE w _ i e _ (newLabel_cfg _ _) ?_
    split
    · rfl
    · split <;> rfl
  case nlabel j name =>
    simp only [World.genAttached]
    refine frame_setE w _ i e _ (newLabel_cfg _ _) ?_
    split
    · rfl
    · split <;> rfl
  case bind j id =>
    simp only [World.genAttached]
    split
    · exact viaAsm_frame w i e _ (fun h c => asmBind_cfg h c id)
    · split
      · exact frame_same w i e hi
      · exact frame_setE w w.h i e _ rfl (addNode_tag _ _)
  case raw j bs =>
    simp only [World.genAttached]
    split
    · exact viaAsm_frame w i e _ (fun h c => asmRaw_cfg h c bs)
    · exact frame_setE w w.h i e _ rfl (addNode_tag _ _)
  case jmp j id =>
    simp only [World.genAttached]
    split
    · exact viaAsm_frame w i e _ (fun h c => asmJmp_cfg h c id)
    · exact frame_setE w w.h i e _ rfl (addNode_tag _ _)
  case elabel j id sz =>
    simp only [World.genAttached]
    split
    · exact viaAsm_frame w i e _ (fun h c => asmElabel_cfg h c id sz)
    · split
      · exact frame_same w i e hi
      · split
        · exact frame_same w i e hi
        · exact frame_setE w w.h i e _ rfl (addNode_tag _ _)
  case switch j s =>
    simp only [World.genAttached]
    split
    · exact frame_same w i e hi
    · split
      · exact viaAsm_frame w i e _ (fun h c => asmSwitch_cfg h c s)
      · exact frame_setE w w.h i e _ rfl (bldSwitch_tag _ _)
  case finalize j =>
    simp only [World.genAttached]
    split
    · exact frame_same w i e hi
    · refine ⟨serialize_cfg _ _ _, e, (updAt_self w.es i e hi).symm, rfl⟩
  case «section» j name =>
    simp only [World.genAttached]
    rcases hs : w.h.newSection name with ⟨h1, r1⟩
    have hc : h1.cfg = w.h.cfg := by have := newSection_cfg w.h name; rw [hs] at this; exact this
    cases r1 with
    | none => exact frame_same w i e hi
    | some s =>
      simp only []
      split
      · have := viaAsm_frame ({ w with h := h1 } : World) i e (asmSwitch · · s) (fun h c => asmSwitch_cfg h c s)
        obtain ⟨a, e', b, c⟩ := this
        exact ⟨a.trans hc, e', b, c⟩
      · exact frame_setE w h1 i e _ hc (bldSwitch_tag _ _)
  all_goals exact frame_same w i e hi

/-! ### the invariant -/

def freshOf (fam : Bool) : World := if fam then World.freshA64 else World.fresh

/-- observationally a freshly constructed emitter (of its own kind and family) -/
def Clean (e : Emitter) : Prop := e.obs = ({ kind := e.kind, fam64 := e.fam64 } : Emitter).obs

def proj (e : Emitter) : Kind × Bool := (e.kind, e.fam64)

/-- what every reachable world satisfies: the attachment list knows every attached emitter, every emitter that is not
    on it is clean, the emitters are the four objects of one family, an uninitialised holder is empty -/
structure Inv (w : World) : Prop where
  ac : ∀ i e, w.es[i]? = some e → e.code = true → i ∈ w.h.attached
  dc : ∀ i e, w.es[i]? = some e → i ∉ w.h.attached → Clean e
  fm : ∃ fam, w.es.map proj = (freshOf fam).es.map proj
  un : w.h.arch = none → w.h.obs = ({} : Holder).obs

theorem Emitter.obs_fam (e : Emitter) : e.obs.fam64 = e.fam64 := by
  cases e with | mk k _ _ _ _ _ _ _ _ _ _ _ _ _ _ _ _ _ _ _ _ _ _ => cases k <;> rfl

theorem clean_code (e : Emitter) (h : Clean e) : e.code = false := by
  have := congrArg Emitter.code h
  rw [Emitter.obs_code] at this
  rw [this]; cases e.kind <;> rfl

theorem clean_of_obs_eq (a b : Emitter) (h : a.obs = b.obs) (hb : Clean b) : Clean a := by
  have hk : a.kind = b.kind := by rw [← Emitter.obs_kind a, ← Emitter.obs_kind b, h]
  have hf : a.fam64 = b.fam64 := by rw [← Emitter.obs_fam a, ← Emitter.obs_fam b, h]
  unfold Clean at *
  rw [h, hb, hk, hf]

theorem proj_of_obs_eq (a b : Emitter) (h : a.obs = b.obs) : proj a = proj b := by
  have hk : a.kind = b.kind := by rw [← Emitter.obs_kind a, ← Emitter.obs_kind b, h]
  have hf : a.fam64 = b.fam64 := by rw [← Emitter.obs_fam a, ← Emitter.obs_fam b, h]
  simp [proj, hk, hf]

theorem un_attached (w : World) (hun : w.h.arch = none → w.h.obs = ({} : Holder).obs) (ha : w.h.arch = none) : w.h.attached = [] := by
  have := congrArg Holder.attached (hun ha)
  exact this

theorem sim_parts' {a b : World} (h : Sim a b) : a.h.obs = b.h.obs ∧ a.es.map Emitter.obs = b.es.map Emitter.obs := by
  unfold Sim World.obs at h
  exact ⟨congrArg World.h h, congrArg World.es h⟩

theorem sim_getElem?' {a b : World} (h : Sim a b) (i : Nat) : (a.es[i]?).map Emitter.obs = (b.es[i]?).map Emitter.obs := by
  have := congrArg (fun l => l[i]?) (sim_parts' h).2
  simpa [List.getElem?_map] using this

/-- the invariant only looks at the observation -/
theorem inv_of_sim (a b : World) (h : Sim a b) (ha : Inv a) : Inv b := by
  obtain ⟨hh, he⟩ := sim_parts' h
  have hatt : a.h.attached = b.h.attached := by have := congrArg Holder.attached hh; exact this
  have harch : a.h.arch = b.h.arch := by have := congrArg Holder.arch hh; exact this
  have idx : ∀ (i : Nat) (eb : Emitter), b.es[i]? = some eb → ∃ ea : Emitter, a.es[i]? = some ea ∧ ea.obs = eb.obs := by
    intro i eb hb
    have := sim_getElem?' h i
    rw [hb] at this
    cases hA : a.es[i]? with
    | none => simp [hA] at this
    | some ea => simp [hA] at this; exact ⟨ea, rfl, this⟩
  refine ⟨?_, ?_, ?_, ?_⟩
  · intro i eb hb hc
    obtain ⟨ea, h1, h2⟩ := idx i eb hb
    rw [← hatt]
    apply ha.ac i ea h1
    rw [← Emitter.obs_code ea, h2, Emitter.obs_code]; exact hc
  · intro i eb hb hn
    obtain ⟨ea, h1, h2⟩ := idx i eb hb
    exact clean_of_obs_eq eb ea h2.symm (ha.dc i ea h1 (hatt ▸ hn))
  · obtain ⟨fam, hf⟩ := ha.fm
    refine ⟨fam, ?_⟩
    have hb : b.es.map proj = (b.es.map Emitter.obs).map (fun o => (o.kind, o.fam64)) := by
      simp [List.map_map, Function.comp_def, proj, Emitter.obs_kind, Emitter.obs_fam]
    have ha' : a.es.map proj = (a.es.map Emitter.obs).map (fun o => (o.kind, o.fam64)) := by
      simp [List.map_map, Function.comp_def, proj, Emitter.obs_kind, Emitter.obs_fam]
    rw [hb, ← he, ← ha', hf]
  · intro hn
    rw [← hh]
    exact ha.un (harch ▸ hn)

theorem updAt_map_same {β : Type} (g : Emitter → β) (l : List Emitter) (i : Nat) (e e' : Emitter) (hi : l[i]? = some e)
    (hg : g e' = g e) : (updAt l i (fun _ => e')).map g = l.map g := by
  apply List.ext_getElem?
  intro j
  rw [List.getElem?_map, updAt_getElem?, List.getElem?_map]
  by_cases hji : j = i
  · subst hji; simp [hi, hg]
  · simp [hji]

/-- a framed step on an attached emitter keeps the invariant -/
theorem inv_frame_attached (w w' : World) (i : Nat) (e : Emitter) (hw : Inv w) (hi : w.es[i]? = some e) (hc : e.code = true)
    (hf : FrameAt w w' i e) : Inv w' := by
  obtain ⟨hcfg, e', hes, htag⟩ := hf
  have hatt : w'.h.attached = w.h.attached := congrArg Prod.snd hcfg
  have harch : w'.h.arch = w.h.arch := congrArg Prod.fst hcfg
  have hia : i ∈ w.h.attached := hw.ac i e hi hc
  have hcode : e'.code = e.code := congrArg (fun t => t.1.1) htag
  have hproj : proj e' = proj e := congrArg (fun t => t.1.2) htag
  have get : ∀ j, w'.es[j]? = if j = i then some e' else w.es[j]? := by
    intro j; rw [hes, updAt_getElem?]
    by_cases hji : j = i
    · subst hji; simp [hi]
    · simp [hji]
  refine ⟨?_, ?_, ?_, ?_⟩
  · intro j x hx hxc
    rw [hatt]
    rw [get j] at hx
    by_cases hji : j = i
    · subst hji; exact hia
    · simp [hji] at hx; exact hw.ac j x hx hxc
  · intro j x hx hn
    rw [hatt] at hn
    rw [get j] at hx
    have hji : j ≠ i := fun h => hn (h ▸ hia)
    simp [hji] at hx
    exact hw.dc j x hx hn
  · obtain ⟨fam, hfm⟩ := hw.fm
    exact ⟨fam, by rw [hes, updAt_map_same proj w.es i e e' hi hproj, hfm]⟩
  · intro hn
    have ha := un_attached w hw.un (harch ▸ hn)
    rw [ha] at hia
    exact absurd hia (by simp)

/-! ### the attachment-list walk, raw form -/

theorem applyAll_getElem?_not_mem (f : Emitter → Emitter) (att : List Nat) : ∀ (es : List Emitter) (j : Nat), j ∉ att →
    (applyAll f es att)[j]? = es[j]? := by
  induction att with
  | nil => intro es j _; rfl
  | cons i r ih =>
    intro es j hj
    simp only [applyAll]
    have h1 : j ≠ i := fun h => hj (by simp [h])
    have h2 : j ∉ r := fun h => hj (by simp [h])
    rw [ih _ j h2, updAt_getElem?]; simp [h1]

theorem applyAll_map_proj {β : Type} (g : Emitter → β) (f : Emitter → Emitter) (hf : ∀ e, g (f e) = g e) (att : List Nat) :
    ∀ (l : List Emitter), (applyAll f l att).map g = l.map g := by
  induction att with
  | nil => intro l; rfl
  | cons i r ih =>
    intro l
    simp only [applyAll]
    rw [ih, updAt_map g f id (by intro x; simp [hf]) l i]
    clear ih
    induction l generalizing i with
    | nil => cases i <;> rfl
    | cons a t ih2 => cases i <;> simp [updAt, ih2]

theorem getElem?_of_map_eq {β : Type} (g : Emitter → β) (l1 l2 : List Emitter) (h : l1.map g = l2.map g) (j : Nat) (a b : Emitter)
    (ha : l1[j]? = some a) (hb : l2[j]? = some b) : g a = g b := by
  have := congrArg (fun l => l[j]?) h
  simp [List.getElem?_map, ha, hb] at this
  exact this

theorem detach_obs_fresh (e : Emitter) : e.onDetach.obs = ({ kind := e.kind, fam64 := e.fam64 } : Emitter).obs := by
  cases e with | mk k _ _ _ _ _ _ _ _ _ _ _ _ _ _ _ _ _ _ _ _ _ _ =>
  cases k <;> simp [Emitter.onDetach, Emitter.obs]

theorem applyAll_detach_getElem?' (att : List Nat) : ∀ (es : List Emitter) (j : Nat),
    ((applyAll Emitter.onDetach es att)[j]?).map Emitter.obs =
      if j ∈ att then (es[j]?).map (fun e => ({ kind := e.kind, fam64 := e.fam64 } : Emitter).obs) else (es[j]?).map Emitter.obs := by
  induction att with
  | nil => intro es j; simp [applyAll]
  | cons i r ih =>
    intro es j
    simp only [applyAll]
    rw [ih, updAt_getElem?]
    by_cases hji : j = i
    · subst hji
      cases hj : es[j]? with
      | none => simp
      | some e =>
        have hk : e.onDetach.kind = e.kind := rfl
        have hfm : e.onDetach.fam64 = e.fam64 := rfl
        by_cases hjr : j ∈ r <;> simp [hjr, hk, hfm, detach_obs_fresh]
    · by_cases hjr : j ∈ r <;> simp [hji, hjr]

/-! ### every operation keeps the invariant -/

theorem inv_fresh (fam : Bool) : Inv (freshOf fam) := by
  refine ⟨?_, ?_, ⟨fam, rfl⟩, fun _ => by cases fam <;> rfl⟩
  · intro i e hi hc
    exfalso
    have hlt : i < (freshOf fam).es.length := (List.getElem?_eq_some_iff.mp hi).1
    cases fam
    · have : i < 4 := by simpa [freshOf, World.fresh] using hlt
      match i, this with
      | 0, _ | 1, _ | 2, _ | 3, _ => simp [freshOf, World.fresh] at hi; subst hi; simp at hc
    · have : i < 4 := by simpa [freshOf, World.freshA64] using hlt
      match i, this with
      | 0, _ | 1, _ | 2, _ | 3, _ => simp [freshOf, World.freshA64] at hi; subst hi; simp at hc
  · intro i e hi _
    have hlt : i < (freshOf fam).es.length := (List.getElem?_eq_some_iff.mp hi).1
    cases fam
    · have : i < 4 := by simpa [freshOf, World.fresh] using hlt
      match i, this with
      | 0, _ | 1, _ | 2, _ | 3, _ => simp [freshOf, World.fresh] at hi; subst hi; rfl
    · have : i < 4 := by simpa [freshOf, World.freshA64] using hlt
      match i, this with
      | 0, _ | 1, _ | 2, _ | 3, _ => simp [freshOf, World.freshA64] at hi; subst hi; rfl

theorem inv_init (w : World) (a : Arch) (b : Option Nat) (hw : Inv w) : Inv (w.init a b).1 := by
  simp only [World.init]
  split
  · exact hw
  · exact ⟨hw.ac, hw.dc, hw.fm, fun h => by simp [Holder.alloc] at h⟩

theorem detached_clean (e : Emitter) : Clean e.onDetach := by
  cases e with | mk k _ _ _ _ _ _ _ _ _ _ _ _ _ _ _ _ _ _ _ _ _ _ => cases k <;> simp [Clean, Emitter.onDetach, Emitter.obs]

theorem inv_reset (w : World) (hard : Bool) (hw : Inv w) : Inv (w.reset hard) := by
  simp only [World.reset]
  split
  · exact hw
  · rename_i hinit
    have hproj := applyAll_map_proj proj Emitter.onDetach (fun _ => rfl) w.h.attached w.es
    -- every emitter of the result is clean
    have allClean : ∀ (j : Nat) (x : Emitter), (detachAll w.es w.h.attached)[j]? = some x → Clean x := by
      intro j x hx
      simp only [detachAll] at hx
      by_cases hj : j ∈ w.h.attached
      · have := applyAll_detach_getElem?' w.h.attached w.es j
        rw [hx] at this
        simp only [hj, if_true, Option.map_some] at this
        cases he : w.es[j]? with
        | none => simp [he] at this
        | some e =>
          simp [he] at this
          have hp := getElem?_of_map_eq proj _ _ hproj j x e hx he
          simp only [proj, Prod.mk.injEq] at hp
          unfold Clean
          rw [this, hp.1, hp.2]
      · rw [applyAll_getElem?_not_mem _ _ _ _ hj] at hx
        exact hw.dc j x hx hj
    refine ⟨?_, ?_, ?_, fun _ => by simp [Holder.resetContainers, Holder.obs]⟩
    · intro j x hx hc
      have := clean_code x (allClean j x hx)
      rw [this] at hc; exact absurd hc (by simp)
    · intro j x hx _
      exact allClean j x hx
    · obtain ⟨fam, hf⟩ := hw.fm
      exact ⟨fam, by simp only [detachAll]; rw [hproj, hf]⟩

theorem inv_reinit (w : World) (hw : Inv w) : Inv w.reinit.1 := by
  simp only [World.reinit]
  split
  · exact hw
  · have hproj := applyAll_map_proj proj Emitter.onReinit (fun e => by cases e with | mk k _ _ _ _ _ _ _ _ _ _ _ _ _ _ _ _ _ _ _ _ _ _ => cases k <;> rfl) w.h.attached w.es
    have hcode := applyAll_map_proj Emitter.code Emitter.onReinit (fun e => by cases e with | mk k _ _ _ _ _ _ _ _ _ _ _ _ _ _ _ _ _ _ _ _ _ _ => cases k <;> rfl) w.h.attached w.es
    refine ⟨?_, ?_, ?_, fun h => by simp [Holder.resetContainers, Holder.alloc] at h; rename_i hi; simp [h] at hi⟩
    · intro j x hx hc
      show j ∈ w.h.attached
      simp only [reinitAll] at hx
      by_cases hj : j ∈ w.h.attached
      · exact hj
      · rw [applyAll_getElem?_not_mem _ _ _ _ hj] at hx
        exact hw.ac j x hx hc
    · intro j x hx hn
      have hn' : j ∉ w.h.attached := hn
      simp only [reinitAll] at hx
      rw [applyAll_getElem?_not_mem _ _ _ _ hn'] at hx
      exact hw.dc j x hx hn'
    · obtain ⟨fam, hf⟩ := hw.fm
      exact ⟨fam, by simp only [reinitAll]; rw [hproj, hf]⟩

theorem updAt_id {β : Type} (l : List β) (i : Nat) : updAt l i id = l := by
  induction l generalizing i with
  | nil => cases i <;> rfl
  | cons a t ih => cases i <;> simp [updAt, ih]

theorem onAttach_tag (h : Holder) (e : Emitter) : proj (e.onAttach h) = proj e ∧ (e.onAttach h).code = true := by
  cases e with | mk k _ _ _ _ _ _ _ _ _ _ _ _ _ _ _ _ _ _ _ _ _ _ =>
  cases k <;> simp [proj, Emitter.onAttach, Emitter.settingsUpdated, Emitter.updateForced]

theorem inv_attach (w : World) (i : Nat) (hw : Inv w) : Inv (w.attach i).1 := by
  simp only [World.attach]
  cases hi : w.es[i]? with
  | none => exact hw
  | some e =>
    simp only []
    split
    · exact hw
    · split
      · exact hw
      · rename_i harch _
        have get : ∀ j, (updAt w.es i (Emitter.onAttach w.h))[j]? = if j = i then some (e.onAttach w.h) else w.es[j]? := by
          intro j; rw [updAt_getElem?]
          by_cases hji : j = i
          · subst hji; simp [hi]
          · simp [hji]
        refine ⟨?_, ?_, ?_, ?_⟩
        · intro j x hx hc
          show j ∈ w.h.attached ++ [i]
          rw [get j] at hx
          by_cases hji : j = i
          · simp [hji]
          · simp [hji] at hx; simp [hw.ac j x hx hc]
        · intro j x hx hn
          have hn' : j ∉ w.h.attached ++ [i] := hn
          simp at hn'
          rw [get j] at hx
          simp [hn'.2] at hx
          exact hw.dc j x hx hn'.1
        · obtain ⟨fam, hf⟩ := hw.fm
          refine ⟨fam, ?_⟩
          show (updAt w.es i (Emitter.onAttach w.h)).map proj = _
          rw [updAt_map proj (Emitter.onAttach w.h) id (fun x => (onAttach_tag w.h x).1) w.es i, ← hf, updAt_id]
        · intro hn
          have hn' : w.h.arch = none := hn
          simp [hn', archOk] at harch

theorem inv_detach (w : World) (i : Nat) (hw : Inv w) : Inv (w.detach i).1 := by
  simp only [World.detach]
  cases hi : w.es[i]? with
  | none => exact hw
  | some e =>
    simp only []
    split
    · exact hw
    · rename_i hc
      have hc' : e.code = true := by simpa using hc
      have hia := hw.ac i e hi hc'
      have get : ∀ j, (updAt w.es i Emitter.onDetach)[j]? = if j = i then some e.onDetach else w.es[j]? := by
        intro j; rw [updAt_getElem?]
        by_cases hji : j = i
        · subst hji; simp [hi]
        · simp [hji]
      refine ⟨?_, ?_, ?_, ?_⟩
      · intro j x hx hxc
        show j ∈ w.h.attached.filter (· != i)
        rw [get j] at hx
        by_cases hji : j = i
        · subst hji; simp at hx; subst hx; simp [Emitter.onDetach] at hxc
        · simp [hji] at hx
          simp [hw.ac j x hx hxc, hji]
      · intro j x hx hn
        have hn' : j ∉ w.h.attached.filter (· != i) := hn
        rw [get j] at hx
        by_cases hji : j = i
        · subst hji; simp at hx; subst hx; exact detached_clean e
        · simp [hji] at hx
          have : j ∉ w.h.attached := by
            intro hm; apply hn'; simp [hm, hji]
          exact hw.dc j x hx this
      · obtain ⟨fam, hf⟩ := hw.fm
        refine ⟨fam, ?_⟩
        show (updAt w.es i Emitter.onDetach).map proj = _
        rw [updAt_map proj Emitter.onDetach id (fun _ => rfl) w.es i, ← hf, updAt_id]
      · intro hn
        have hn' : w.h.arch = none := hn
        have ha := un_attached w hw.un hn'
        rw [ha] at hia
        exact absurd hia (by simp)

theorem updAt_obs_same' (l : List Emitter) (i : Nat) (e x : Emitter) (hi : l[i]? = some e) (hx : x.obs = e.obs) :
    (updAt l i (fun _ => x)).map Emitter.obs = l.map Emitter.obs := by
  apply List.ext_getElem?
  intro j
  rw [List.getElem?_map, updAt_getElem?, List.getElem?_map]
  by_cases hji : j = i
  · subst hji; simp [hi, hx]
  · simp [hji]

theorem sim_of_parts' {a b : World} (h1 : a.h.obs = b.h.obs) (h2 : a.es.map Emitter.obs = b.es.map Emitter.obs) : Sim a b := by
  unfold Sim World.obs
  rw [h1, h2]

/-- switching loggers / validation leaves the world observationally unchanged -/
theorem logging_unobs (w : World) (on : Bool) (i : Nat) :
    Sim (w.step (.hlogger on)).1 w ∧ Sim (w.step (.elogger i on)).1 w ∧ Sim (w.step (.diag i on)).1 w := by
  refine ⟨?_, ?_, ?_⟩
  · apply sim_of_parts'
    · simp [World.step, Holder.obs]
    · simp only [World.step, settingsAll]
      exact applyAll_obs_id _ (settingsUpdated_obs on) _ _
  · simp only [World.step]
    cases hi : w.es[i]? with
    | none => rfl
    | some e =>
      show Sim (w.setE i _) w
      refine sim_of_parts' (by rfl) ?_
      simp only [World.setE]
      apply updAt_obs_same' _ _ e _ hi
      rw [updateForced_obs]
      cases e with | mk k _ _ _ _ _ _ _ _ _ _ _ _ _ _ _ _ _ _ _ _ _ _ =>
      cases on <;> cases k <;> simp [Emitter.obs]
  · simp only [World.step]
    cases hi : w.es[i]? with
    | none => rfl
    | some e =>
      show Sim (w.setE i _) w
      refine sim_of_parts' (by rfl) ?_
      simp only [World.setE]
      apply updAt_obs_same' _ _ e _ hi
      rw [updateForced_obs]
      cases e with | mk k _ _ _ _ _ _ _ _ _ _ _ _ _ _ _ _ _ _ _ _ _ _ =>
      cases k <;> simp [Emitter.obs]

/-- the one-shot setters and `new_jump_annotation` are used on attached emitters only (they are calls on the emitter
    object itself; made on a detached emitter they are state of *that* object which no holder operation can or should
    clear - `on_attach` does not) -/
def Op.wfAt (w : World) : Op → Prop
  | .opt i _ | .cmt i | .jann i => ∀ e, w.es[i]? = some e → e.code = true
  | _ => True

theorem inv_setE_attached (w : World) (i : Nat) (e e' : Emitter) (hw : Inv w) (hi : w.es[i]? = some e) (hc : e.code = true)
    (ht : e'.tag = e.tag) : Inv (w.setE i e') :=
  inv_frame_attached w _ i e hw hi hc (frame_setE w w.h i e e' rfl ht)

theorem inv_step (w : World) (op : Op) (hw : Inv w) (hop : op.wfAt w) : Inv (w.step op).1 := by
  have symm : ∀ w' : World, Sim w' w → Inv w' := fun w' h => inv_of_sim w w' h.symm hw
  have grp : ∀ (i : Nat) (o : Op) (s : Emitter → String),
      Inv (match w.es[i]? with
        | none => (w, "bad-emitter")
        | some e => if e.code = true then w.genAttached i e o else (w, s e) : World × String).1 := by
    intro i o s
    cases hi : w.es[i]? with
    | none => exact hw
    | some e =>
      simp only []
      by_cases hc : e.code = true
      · rw [if_pos hc]; exact inv_frame_attached w _ i e hw hi hc (genAttached_frame w i e o hi)
      · rw [if_neg hc]; exact hw
  cases op
  case world f st => exact inv_of_sim (freshOf f) _ (by cases f <;> rfl) (inv_fresh f)
  case init a => exact inv_init w a none hw
  case initb a b => exact inv_init w a (some b) hw
  case relocate b =>
    simp only [World.step]
    split
    · exact hw
    · rename_i hn
      exact ⟨hw.ac, hw.dc, hw.fm, fun h => by have h' : w.h.arch = none := h; simp [h'] at hn⟩
  case reset hard => exact inv_reset w hard hw
  case reinit => exact inv_reinit w hw
  case attach i => exact inv_attach w i hw
  case detach i => exact inv_detach w i hw
  case dump => exact hw
  case hlogger on => exact symm _ (logging_unobs w on 0).1
  case elogger i on => exact symm _ (logging_unobs w on i).2.1
  case diag i on => exact symm _ (logging_unobs w on i).2.2
  case opt i bits =>
    simp only [World.step]
    cases hi : w.es[i]? with
    | none => exact hw
    | some e => exact inv_setE_attached w i e _ hw hi (hop e hi) rfl
  case cmt i =>
    simp only [World.step]
    cases hi : w.es[i]? with
    | none => exact hw
    | some e => exact inv_setE_attached w i e _ hw hi (hop e hi) rfl
  case jann i =>
    simp only [World.step]
    cases hi : w.es[i]? with
    | none => exact hw
    | some e =>
      simp only []
      split
      · exact hw
      · exact inv_setE_attached w i e _ hw hi (hop e hi) rfl
  case vreg i =>
    simp only [World.step]
    cases hi : w.es[i]? with
    | none => exact hw
    | some e =>
      simp only []
      split
      · exact hw
      · split
        · exact hw
        · rename_i hc
          exact inv_setE_attached w i e _ hw hi (by simpa using hc) rfl
  case label i => exact grp i (.label i) (fun _ => "L-")
  case nlabel i n => exact grp i (.nlabel i n) (fun _ => "L-")
  case bind i id => exact grp i (.bind i id) (fun _ => "NotInitialized")
  case raw i bs => exact grp i (.raw i bs) (fun _ => "NotInitialized")
  case jmp i id => exact grp i (.jmp i id) (fun _ => "NotInitialized")
  case elabel i id sz => exact grp i (.elabel i id sz) (fun _ => "NotInitialized")
  case «section» i n => exact grp i (.section i n) (fun _ => "NotInitialized")
  case switch i s => exact grp i (.switch i s) (fun _ => "NotInitialized")
  case finalize i => exact grp i (.finalize i) (fun e => if e.kind = .asm then "ok" else "NotInitialized")

/-- a history in which the one-shot setters / `new_jump_annotation` are only used on attached emitters -/
def WFHist (w : World) : List Op → Prop
  | [] => True
  | op :: r => op.wfAt w ∧ WFHist (w.step op).1 r

theorem inv_run (h : List Op) : ∀ w, Inv w → WFHist w h → Inv (w.run h) := by
  induction h with
  | nil => intro w hw _; exact hw
  | cons op r ih => intro w hw hwf; exact ih _ (inv_step w op hw hwf.1) hwf.2

end AsmjitVerif.Reuse
